/-
  SPECIFICATION: the rules of chess on an 8x8 board, written independently of the model.
  Short on purpose.  `legal P m` is a decidable predicate; `legalMoves P` is literally
  "all (from, to, promotion) triples that are legal", so it is sound, complete and
  duplicate-free by construction.
  Coordinates: file 0..7 = a..h, rank 0..7 = 1..8.
-/
import Walleye.Model.Types
namespace Walleye.Spec

structure Sq where
  file : Nat
  rank : Nat
  deriving DecidableEq, Repr, Inhabited

structure Position where
  cells : Array (Option Piece)          -- index rank*8+file
  side : Color
  wks : Bool
  wqs : Bool
  bks : Bool
  bqs : Bool
  ep : Option Sq
  deriving Inhabited

structure Move where
  src : Sq
  dst : Sq
  promo : Option Kind
  deriving DecidableEq, Repr, Inhabited

def Position.at (P : Position) (s : Sq) : Option Piece :=
  if s.file < 8 ∧ s.rank < 8 then (P.cells.getD (s.rank * 8 + s.file) none) else none

def Position.put (P : Position) (s : Sq) (v : Option Piece) : Position :=
  if s.file < 8 ∧ s.rank < 8 then { P with cells := P.cells.setIfInBounds (s.rank * 8 + s.file) v } else P

def allSquares : List Sq :=
  (List.range 8).flatMap fun r => (List.range 8).map fun f => ⟨f, r⟩

def iabs (x : Int) : Nat := x.natAbs

def sgn (x : Int) : Int := if x > 0 then 1 else if x < 0 then -1 else 0

/-- all squares strictly between `s` and `t` (which lie on a common line) are empty -/
def clearBetween (P : Position) (s t : Sq) : Bool :=
  let df : Int := (t.file : Int) - s.file
  let dr : Int := (t.rank : Int) - s.rank
  let n := max (iabs df) (iabs dr)
  (List.range (n - 1)).all fun i =>
    let k : Int := (i : Int) + 1
    (P.at ⟨((s.file : Int) + k * sgn df).toNat, ((s.rank : Int) + k * sgn dr).toNat⟩).isNone

/-- does the piece `pc` standing on `s` attack square `t` (rules of movement, ignoring pins) -/
def attacksFrom (P : Position) (s : Sq) (pc : Piece) (t : Sq) : Bool :=
  let df : Int := (t.file : Int) - s.file
  let dr : Int := (t.rank : Int) - s.rank
  let adf := iabs df
  let adr := iabs dr
  match pc.kind with
  | .pawn => decide (dr = (match pc.color with | .white => 1 | .black => -1)) && adf == 1
  | .knight => (adf == 1 && adr == 2) || (adf == 2 && adr == 1)
  | .king => max adf adr == 1
  | .bishop => adf == adr && adf != 0 && clearBetween P s t
  | .rook => (adf == 0 || adr == 0) && (adf + adr != 0) && clearBetween P s t
  | .queen => ((adf == adr && adf != 0) || ((adf == 0 || adr == 0) && (adf + adr != 0))) && clearBetween P s t

/-- square `t` is attacked by some piece of colour `c` -/
def attacked (P : Position) (c : Color) (t : Sq) : Bool :=
  allSquares.any fun s =>
    match P.at s with
    | some pc => pc.color == c && attacksFrom P s pc t
    | none => false

def kingSquares (P : Position) (c : Color) : List Sq :=
  allSquares.filter fun s => P.at s == some ⟨c, .king⟩

/-- the king of colour `c` is attacked -/
def inCheck (P : Position) (c : Color) : Bool :=
  (kingSquares P c).any fun k => attacked P c.opp k

def homeRank (c : Color) : Nat := match c with | .white => 0 | .black => 7
def lastRank (c : Color) : Nat := match c with | .white => 7 | .black => 0
def pawnStartRank (c : Color) : Nat := match c with | .white => 1 | .black => 6
def fwd (c : Color) : Int := match c with | .white => 1 | .black => -1

def isCastle (P : Position) (m : Move) : Bool :=
  P.at m.src == some ⟨P.side, .king⟩ && m.src == ⟨4, homeRank P.side⟩ && m.dst.rank == homeRank P.side
    && (m.dst.file == 6 || m.dst.file == 2)

def isEnPassant (P : Position) (m : Move) : Bool :=
  P.at m.src == some ⟨P.side, .pawn⟩ && m.src.file != m.dst.file && (P.at m.dst).isNone

/-- the position after playing `m` (meaningful for pseudo-legal `m`) -/
def apply (P : Position) (m : Move) : Position :=
  match P.at m.src with
  | none => P
  | some pc =>
    let c := P.side
    let castle := isCastle P m
    let epc := isEnPassant P m
    let Q := (P.put m.src none).put m.dst (some (match m.promo with | some k => ⟨c, k⟩ | none => pc))
    let Q := if epc then Q.put ⟨m.dst.file, m.src.rank⟩ none else Q
    let Q := if castle then
        (if m.dst.file == 6 then (Q.put ⟨7, m.src.rank⟩ none).put ⟨5, m.src.rank⟩ (some ⟨c, .rook⟩)
         else (Q.put ⟨0, m.src.rank⟩ none).put ⟨3, m.src.rank⟩ (some ⟨c, .rook⟩))
      else Q
    let touches (s : Sq) : Bool := m.src == s || m.dst == s
    let kingMoved (col : Color) : Bool := pc == ⟨col, .king⟩
    let dbl := pc.kind == .pawn && iabs ((m.dst.rank : Int) - m.src.rank) == 2
    { Q with
      side := c.opp
      wks := P.wks && !kingMoved .white && !touches ⟨7, 0⟩
      wqs := P.wqs && !kingMoved .white && !touches ⟨0, 0⟩
      bks := P.bks && !kingMoved .black && !touches ⟨7, 7⟩
      bqs := P.bqs && !kingMoved .black && !touches ⟨0, 7⟩
      ep := if dbl then some ⟨m.src.file, ((m.src.rank : Int) + fwd c).toNat⟩ else none }

def promoKinds : List Kind := [.queen, .rook, .bishop, .knight]

/-- `m` obeys the rules of movement (king safety of the result is checked in `legal`) -/
def pseudoLegal (P : Position) (m : Move) : Bool :=
  let c := P.side
  m.src.file < 8 && m.src.rank < 8 && m.dst.file < 8 && m.dst.rank < 8 &&
  match P.at m.src with
  | none => false
  | some pc =>
    pc.color == c &&
    (match P.at m.dst with | some t => t.color != c | none => true) &&
    (match pc.kind with
     | .pawn =>
       let dr : Int := (m.dst.rank : Int) - m.src.rank
       let promoOk :=
         if m.dst.rank == lastRank c then (match m.promo with | some k => promoKinds.contains k | none => false)
         else m.promo.isNone
       promoOk &&
       (if m.src.file == m.dst.file then
          (P.at m.dst).isNone &&
          (decide (dr = fwd c) ||
           (decide (dr = 2 * fwd c) && m.src.rank == pawnStartRank c &&
            (P.at ⟨m.src.file, ((m.src.rank : Int) + fwd c).toNat⟩).isNone))
        else
          attacksFrom P m.src pc m.dst && ((P.at m.dst).isSome || P.ep == some m.dst))
     | .king =>
       m.promo.isNone &&
       (attacksFrom P m.src pc m.dst ||
        (isCastle P m &&
         (if m.dst.file == 6 then
            (match c with | .white => P.wks | .black => P.bks) &&
            P.at ⟨7, homeRank c⟩ == some ⟨c, .rook⟩ &&
            (P.at ⟨5, homeRank c⟩).isNone && (P.at ⟨6, homeRank c⟩).isNone &&
            !attacked P c.opp ⟨4, homeRank c⟩ && !attacked P c.opp ⟨5, homeRank c⟩ && !attacked P c.opp ⟨6, homeRank c⟩
          else
            (match c with | .white => P.wqs | .black => P.bqs) &&
            P.at ⟨0, homeRank c⟩ == some ⟨c, .rook⟩ &&
            (P.at ⟨1, homeRank c⟩).isNone && (P.at ⟨2, homeRank c⟩).isNone && (P.at ⟨3, homeRank c⟩).isNone &&
            !attacked P c.opp ⟨4, homeRank c⟩ && !attacked P c.opp ⟨3, homeRank c⟩ && !attacked P c.opp ⟨2, homeRank c⟩)))
     | _ => m.promo.isNone && attacksFrom P m.src pc m.dst)

/-- FIDE legality: rules of movement, and the mover's king is not attacked afterwards -/
def legal (P : Position) (m : Move) : Bool :=
  pseudoLegal P m && !inCheck (apply P m) P.side

def allMoves : List Move :=
  allSquares.flatMap fun s => allSquares.flatMap fun t =>
    (none :: promoKinds.map some).map fun pr => ⟨s, t, pr⟩

/-- all legal moves: sound, complete and duplicate free by construction -/
def legalMoves (P : Position) : List Move := allMoves.filter (legal P)

theorem mem_legalMoves_iff (P : Position) (m : Move) (hm : m ∈ allMoves) :
    m ∈ legalMoves P ↔ legal P m = true := by
  simp [legalMoves, List.mem_filter, hm]

/-- the hypothesis of the properties, literally: a legal chess position -/
def LegalPosition (P : Position) : Bool :=
  (kingSquares P .white).length == 1 && (kingSquares P .black).length == 1 &&
  !inCheck P P.side.opp &&
  (allSquares.all fun s => (s.rank == 0 || s.rank == 7) → P.at s != some ⟨.white, .pawn⟩ && P.at s != some ⟨.black, .pawn⟩) &&
  (P.wks → P.at ⟨4, 0⟩ == some ⟨.white, .king⟩ && P.at ⟨7, 0⟩ == some ⟨.white, .rook⟩) &&
  (P.wqs → P.at ⟨4, 0⟩ == some ⟨.white, .king⟩ && P.at ⟨0, 0⟩ == some ⟨.white, .rook⟩) &&
  (P.bks → P.at ⟨4, 7⟩ == some ⟨.black, .king⟩ && P.at ⟨7, 7⟩ == some ⟨.black, .rook⟩) &&
  (P.bqs → P.at ⟨4, 7⟩ == some ⟨.black, .king⟩ && P.at ⟨0, 7⟩ == some ⟨.black, .rook⟩) &&
  (match P.ep with
   | none => true
   | some e =>
     -- the mover (P.side.opp) has just double-stepped: target empty, pawn in front of it, origin behind it empty
     let mover := P.side.opp
     e.file < 8 && e.rank == (match mover with | .white => 2 | .black => 5) &&
     (P.at e).isNone &&
     P.at ⟨e.file, ((e.rank : Int) + fwd mover).toNat⟩ == some ⟨mover, .pawn⟩ &&
     (P.at ⟨e.file, ((e.rank : Int) - fwd mover).toNat⟩).isNone)

end Walleye.Spec
