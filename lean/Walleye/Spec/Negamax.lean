/-
  SPECIFICATION of "the exact minimax value of its own static evaluation over its own move
  generation, with check extension, capture quiescence, mate and repetition scoring as the only
  leaf rules" (C12), for an abstract `Game`; and a plain fail-soft alpha-beta evaluator of the
  same value that the driver uses as the executable oracle (licensed by `fast_spec` in
  Proofs/Negamax.lean: it agrees with `negamax` whenever the window contains the value).
-/
import Walleye.Model.Search
namespace Walleye.Spec
open Walleye

variable {P : Type} (g : Game P)

/-- maximum of the negated child values, starting from `acc` -/
def maxNeg (f : P → Int) : List P → Int → Int
  | [], acc => acc
  | m :: ms, acc => maxNeg f ms (max acc (- f m))

/-- capture quiescence: stand pat or the best capture -/
def qval : Nat → P → Int
  | 0, p => g.eval p
  | fuel + 1, p => maxNeg (qval fuel) (g.gen p .caps) (g.eval p)

/-- minimax value of node `p` at `ply` with remaining `depth` and repetition table `t` -/
def negamax : Nat → Nat → Nat → DrawTable → P → Int
  | 0, _, _, _, p => g.eval p
  | fuel + 1, depth, ply, t, p =>
    if t.isThreefold (g.key p) then 0
    else if depth = 0 ∧ ¬ g.inCheck p then qval g qFuel p
    else
      let depth := if depth = 0 then 1 else depth
      match g.gen p .all with
      | [] => if g.inCheck p then -(Gen.mateScore - ply) else 0
      | m :: ms =>
        let t' := (t.add (g.key p)).getD t
        let f := negamax fuel (depth - 1) (ply + 1) t'
        maxNeg f ms (- f m)

/-- value of every root move for iteration `d` (children are at ply 1 with depth d-1) -/
def rootValues (fuel d : Nat) (t : DrawTable) (root : P) : List (P × Int) :=
  (g.gen root .all).map fun m => (m, - negamax g fuel (d - 1) 1 t m)

/-! ### executable oracle: plain alpha-beta (no PVS, no killers, no null move) -/

/-- fail-soft loop: `f m lo hi` evaluates child `m` in window (lo, hi) -/
def fastLoop (f : P → Int → Int → Int) (beta : Int) : List P → Int → Int → Int
  | [], _, best => best
  | m :: ms, a, best =>
    let s := - f m (-beta) (-a)
    let best := max best s
    if s ≥ beta then best else fastLoop f beta ms (max a s) best

def qfast (order : List P → List P) : Nat → P → Int → Int → Int
  | 0, p, _, _ => g.eval p
  | fuel + 1, p, alpha, beta =>
    let sp := g.eval p
    if sp ≥ beta then sp
    else fastLoop (qfast order fuel) beta (order (g.gen p .caps)) (max alpha sp) sp

def fast (order : List P → List P) : Nat → Nat → Nat → DrawTable → P → Int → Int → Int
  | 0, _, _, _, p, _, _ => g.eval p
  | fuel + 1, depth, ply, t, p, alpha, beta =>
    if t.isThreefold (g.key p) then 0
    else if depth = 0 ∧ ¬ g.inCheck p then qfast g order qFuel p alpha beta
    else
      let depth := if depth = 0 then 1 else depth
      match order (g.gen p .all) with
      | [] => if g.inCheck p then -(Gen.mateScore - ply) else 0
      | m :: ms =>
        let t' := (t.add (g.key p)).getD t
        let f := fast order fuel (depth - 1) (ply + 1) t'
        let s0 := - f m (-beta) (-alpha)
        if s0 ≥ beta then s0 else fastLoop f beta ms (max alpha s0) s0

end Walleye.Spec
