/- SPECIFICATION side of FEN: printer `toFen`, a plain parser for well-formed FEN text
   (independent of the model's `fromFen`), and the from-scratch position key. -/
import Walleye.Spec.Rules
import Walleye.Model.Hasher
namespace Walleye.Spec

def pieceChar (p : Piece) : Char :=
  let c := match p.kind with
    | .pawn => 'p' | .knight => 'n' | .bishop => 'b' | .rook => 'r' | .queen => 'q' | .king => 'k'
  match p.color with
  | .white => c.toUpper
  | .black => c

def rowText (P : Position) (rank : Nat) : String := Id.run do
  let mut out := ""
  let mut run := 0
  for f in [0:8] do
    match P.at ⟨f, rank⟩ with
    | none => run := run + 1
    | some pc =>
      if run > 0 then out := out ++ toString run
      run := 0
      out := out.push (pieceChar pc)
  if run > 0 then out := out ++ toString run
  return out

def placementText (P : Position) : String :=
  "/".intercalate ((List.range 8).map fun i => rowText P (7 - i))

def sqText (s : Sq) : String :=
  String.ofList [Char.ofNat ('a'.toNat + s.file), Char.ofNat ('1'.toNat + s.rank)]

def rightsText (P : Position) : String :=
  let s := (if P.wks then "K" else "") ++ (if P.wqs then "Q" else "") ++
           (if P.bks then "k" else "") ++ (if P.bqs then "q" else "")
  if s.isEmpty then "-" else s

def sideText (c : Color) : String := match c with | .white => "w" | .black => "b"

def epText (P : Position) : String := match P.ep with | some e => sqText e | none => "-"

/-- the four position fields of a FEN -/
def coreText (P : Position) : String :=
  s!"{placementText P} {sideText P.side} {rightsText P} {epText P}"

def toFen (P : Position) (half full : Nat) : String := s!"{coreText P} {half} {full}"

def moveText (m : Move) : String :=
  sqText m.src ++ sqText m.dst ++ (match m.promo with
    | some .queen => "q" | some .rook => "r" | some .bishop => "b" | some .knight => "n" | _ => "")

def pieceOfChar (c : Char) : Option Piece :=
  let k : Option Kind := match c.toLower with
    | 'p' => some .pawn | 'n' => some .knight | 'b' => some .bishop
    | 'r' => some .rook | 'q' => some .queen | 'k' => some .king | _ => none
  k.map fun k => ⟨if c.isUpper then .white else .black, k⟩

def parseSq (s : String) : Option Sq :=
  match s.toList with
  | [f, r] =>
    if 'a' ≤ f ∧ f ≤ 'h' ∧ '1' ≤ r ∧ r ≤ '8' then some ⟨f.toNat - 'a'.toNat, r.toNat - '1'.toNat⟩ else none
  | _ => none

def parseMove (s : String) : Option Move :=
  let l := s.toList
  match parseSq (String.ofList (l.take 2)), parseSq (String.ofList ((l.drop 2).take 2)) with
  | some a, some b =>
    match l.drop 4 with
    | [] => some ⟨a, b, none⟩
    | ['q'] => some ⟨a, b, some .queen⟩
    | ['r'] => some ⟨a, b, some .rook⟩
    | ['b'] => some ⟨a, b, some .bishop⟩
    | ['n'] => some ⟨a, b, some .knight⟩
    | _ => none
  | _, _ => none

/-- plain reader for well-formed FEN (six fields, digits 1-8, eight files per rank) -/
def parseFen (s : String) : Option Position := do
  let fields := s.splitOn " "          -- strict: single blanks, exactly six fields
  guard (fields.length == 6)
  let rows := fields[0]!.splitOn "/"
  guard (rows.length == 8)
  let mut cells : Array (Option Piece) := Array.replicate 64 none
  for i in [0:8] do
    let rank := 7 - i
    let mut f := 0
    for ch in rows[i]!.toList do
      if ch.isDigit then
        guard ('1' ≤ ch ∧ ch ≤ '8')
        f := f + (ch.toNat - '0'.toNat)
      else
        let pc ← pieceOfChar ch
        guard (f < 8)
        cells := cells.setIfInBounds (rank * 8 + f) (some pc)
        f := f + 1
    guard (f == 8)
  let side ← (match fields[1]! with | "w" => some Color.white | "b" => some Color.black | _ => none)
  let r := fields[2]!
  guard (r == "-" || r.toList.all (fun c => c == 'K' || c == 'Q' || c == 'k' || c == 'q'))
  let ep ← (if fields[3]! == "-" then some none else (parseSq fields[3]!).map some)
  guard (!fields[4]!.isEmpty && !fields[5]!.isEmpty)
  guard (fields[4]!.toList.all Char.isDigit && fields[5]!.toList.all Char.isDigit)
  -- counters of any realistic size (the engine stores none of them); the loader keeps them in 32 bits
  guard (fields[4]!.toNat! < 2 ^ 32 && fields[5]!.toNat! < 2 ^ 32)
  return { cells := cells, side := side, wks := r.contains 'K', wqs := r.contains 'Q',
           bks := r.contains 'k', bqs := r.contains 'q', ep := ep }

/-- 12x12 coordinates of a spec square -/
def toPoint (s : Sq) : Point := ⟨9 - s.rank, s.file + 2⟩

/-- the position key computed from scratch -/
def scratchKey (h : Hasher) (P : Position) : UInt64 :=
  let k := allSquares.foldl (fun k s => match P.at s with
    | some pc => k ^^^ h.piece pc (toPoint s)
    | none => k) 0
  let k := if P.side = .black then k ^^^ h.side else k
  let k := if P.wks then k ^^^ h.castle .wks else k
  let k := if P.wqs then k ^^^ h.castle .wqs else k
  let k := if P.bks then k ^^^ h.castle .bks else k
  let k := if P.bqs then k ^^^ h.castle .bqs else k
  match P.ep with
  | some e => k ^^^ h.epFile (e.file + 2)
  | none => k

end Walleye.Spec
