/- abstraction map: forget the ring, the caches, the key and the descriptors -/
import Walleye.Spec.Fen
namespace Walleye

def squareToOpt : Square → Option Piece
  | .full p => some p
  | _ => none

/-- spec square (file, rank) ↦ 12x12 (row 9 - rank, col file + 2) -/
def abs (p : Pos) : Spec.Position where
  cells := Array.ofFn (n := 64) fun i => squareToOpt (p.board.get (9 - i.val / 8) (i.val % 8 + 2))
  side := p.toMove
  wks := p.wks
  wqs := p.wqs
  bks := p.bks
  bqs := p.bqs
  ep := p.ep.map fun e => ⟨e.col - 2, 9 - e.row⟩

end Walleye
