/-
  The grammar of well-formed FEN texts (tokens of a rank, six fields) and the canonical FEN text of a
  SPEC position, as plain functions.  `Proofs/FenFaithful` proves that the loader reads every such text
  as the position it describes; the operation generator checks at run time that every FEN it sends to
  the implementation IS the canonical text of the position it was printed from (`canonbad` lines).
-/
import Walleye.Model.Fen
import Walleye.Spec.Fen
namespace Walleye

inductive Tok where
  | gap (n : Nat)          -- 1 ≤ n ≤ 8 empty squares, one digit
  | pc (p : Piece)

def pieceFenChar (p : Piece) : Char :=
  match p.color, p.kind with
  | .black, .rook => 'r' | .black, .knight => 'n' | .black, .bishop => 'b' | .black, .queen => 'q'
  | .black, .king => 'k' | .black, .pawn => 'p'
  | .white, .rook => 'R' | .white, .knight => 'N' | .white, .bishop => 'B' | .white, .queen => 'Q'
  | .white, .king => 'K' | .white, .pawn => 'P'

def tokChar : Tok → Char
  | .gap n => Char.ofNat (48 + n)
  | .pc p => pieceFenChar p

def tokWidth : Tok → Nat
  | .gap n => n
  | .pc _ => 1

def rowWidth (ts : List Tok) : Nat := (ts.map tokWidth).sum

def tokCells : Tok → List (Option Piece)
  | .gap n => List.replicate n none
  | .pc p => [some p]

/-- the squares a row of tokens describes, a-file first -/
def rowCells (ts : List Tok) : List (Option Piece) := ts.flatMap tokCells


def joinWith (sep : Char) : List (List Char) → List Char
  | [] => []
  | [x] => x
  | x :: y :: rest => x ++ sep :: joinWith sep (y :: rest)


def sideText : Color → List Char
  | .white => ['w']
  | .black => ['b']

def epFenText : Option Point → List Char
  | some e => pointDisplay e
  | none => ['-']

/-- the text of a well-formed FEN -/
def fenText (rows : List (List Tok)) (side : Color) (rights : List Char) (ep : Option Point) (half full : List Char) :
    List Char :=
  joinWith '/' (rows.map fun r => r.map tokChar) ++ (' ' :: (sideText side ++ (' ' :: (rights ++ (' ' ::
    (epFenText ep ++ (' ' :: (half ++ (' ' :: full)))))))))


/-- run-length encoding of a rank: `n` empties pending -/
def canonAux : Nat → List (Option Piece) → List Tok
  | 0, [] => []
  | n + 1, [] => [.gap (n + 1)]
  | n, none :: rest => canonAux (n + 1) rest
  | 0, some p :: rest => .pc p :: canonAux 0 rest
  | n + 1, some p :: rest => .gap (n + 1) :: .pc p :: canonAux 0 rest


def rankCells (P : Spec.Position) (r : Nat) : List (Option Piece) := (List.range 8).map fun f => P.at ⟨f, r⟩

def rowsOf (P : Spec.Position) : List (List Tok) := (List.range 8).map fun i => canonAux 0 (rankCells P (7 - i))

def rightsOf (P : Spec.Position) : List Char :=
  let s := (if P.wks then ['K'] else []) ++ (if P.wqs then ['Q'] else []) ++ (if P.bks then ['k'] else []) ++
    (if P.bqs then ['q'] else [])
  if s.isEmpty then ['-'] else s


/-- the canonical FEN text of a position -/
def canonText (P : Spec.Position) (half full : List Char) : List Char :=
  fenText (rowsOf P) P.side (rightsOf P) (P.ep.map Spec.toPoint) half full


end Walleye
