/-
  C18 — search info lines are well-formed and within score bounds.
  Proved: the shape of every emitted line (by construction of `infoText`, which is compared
  verbatim with the engine's lines on every run); the mate arithmetic (`mate N` is never 0 for an
  evaluation inside the mate bands, cp lines stay strictly inside the bands); only the root emits
  lines (the inner search is silent); the first PV entry of an accepted line is the accepted root
  move's descriptor; and — `scores_in_range`, `chess_scores_in_range` — the value-range invariant
  of the WHOLE search (every depth: null-move pruning, re-searches, check extension, repetition
  draws, any clock expiry, any ordering oracle): every score on an info line lies in
  [-(MATE-2), MATE-1], at every point of the run and whatever its outcome; so the abort sentinel
  is never printed, `mate N` is never `mate 0`, and `cp` values are inside the bands.
  Supporting: `value_in_range_or_aborted` (every alpha-beta call returns a value in [-MATE, MATE]
  or, only after the clock said "out of time", the sentinel) and `value_ply_exact`.
-/
import Walleye.Proofs.Reports
import Walleye.Proofs.RootRange
import Walleye.Proofs.ChessGameOK
import Walleye.Model.SearchChess
namespace Walleye

/-- the grammar, literally: `info pv( <move>)* depth D nodes N score (cp X | mate Y)` -/
theorem info_grammar (i : Info) :
    ∃ sc : String, infoText i =
        s!"info pv{String.join (i.pv.map fun m => " " ++ mvText m)} depth {i.depth} nodes {i.nodes} score " ++ sc ∧
      (sc = s!"cp {i.eval}" ∨ sc = s!"mate {Int.tdiv (Gen.mateScore - i.eval + 1) 2}" ∨
       sc = s!"mate {Int.tdiv (Gen.mateScore + i.eval) (-2)}") := by
  unfold infoText
  simp only
  split
  · exact ⟨_, rfl, Or.inr (Or.inl rfl)⟩
  · split
    · exact ⟨_, rfl, Or.inr (Or.inr rfl)⟩
    · exact ⟨_, rfl, Or.inl rfl⟩

/-- a winning mate band evaluation below the mate score itself never prints `mate 0` -/
theorem mate_nonzero_pos (e : Int) (h1 : e ≥ Gen.mateScore - Gen.mateWindow) (h2 : e ≤ Gen.mateScore - 1) :
    Int.tdiv (Gen.mateScore - e + 1) 2 ≥ 1 := by
  simp only [Gen.mateScore, Gen.mateWindow] at *
  have : 0 ≤ 100000 - e + 1 := by omega
  rw [Int.tdiv_eq_ediv_of_nonneg this]
  omega

/-- a losing mate band evaluation never prints `mate 0` -/
theorem mate_nonzero_neg (e : Int) (h1 : e ≤ -Gen.mateScore + Gen.mateWindow) (h2 : e ≥ -(Gen.mateScore - 2)) :
    Int.tdiv (Gen.mateScore + e) (-2) ≤ -1 := by
  simp only [Gen.mateScore, Gen.mateWindow] at *
  rw [Int.tdiv_neg]
  have : 0 ≤ 100000 + e := by omega
  rw [Int.tdiv_eq_ediv_of_nonneg this]
  omega

/-- a `cp` line is printed only strictly inside the mate bands, in particular never the sentinel -/
theorem cp_in_bounds (i : Info)
    (h : ¬ (i.eval ≥ Gen.mateScore - Gen.mateWindow)) (h' : ¬ (i.eval ≤ -Gen.mateScore + Gen.mateWindow)) :
    -Gen.mateScore < i.eval ∧ i.eval < Gen.mateScore ∧ i.eval ≠ Gen.posInf ∧ i.eval ≠ -Gen.posInf := by
  simp only [Gen.mateScore, Gen.mateWindow, Gen.posInf] at *
  omega

/-- the reported mate distance is at most (window+1)/2 moves -/
theorem mate_distance_bounded (e : Int) (h1 : e ≥ Gen.mateScore - Gen.mateWindow) (h2 : e ≤ Gen.mateScore - 1) :
    Int.tdiv (Gen.mateScore - e + 1) 2 ≤ 8 := by
  simp only [Gen.mateScore, Gen.mateWindow] at *
  have : 0 ≤ 100000 - e + 1 := by omega
  rw [Int.tdiv_eq_ediv_of_nonneg this]
  omega

/-- info lines come from the root only -/
theorem only_root_reports {P O : Type} (g : Game P) (ord : Oracle P O) (fuel : Nat) (p : P) (d ply : Nat)
    (a b : Int) (n : Bool) (s : SS P O) :
    (outState (alphaBeta g ord fuel p d ply a b n s)).reports = s.reports := alphaBeta_silent g ord fuel p d ply a b n s

/-- every alpha-beta call entered with a window overlapping [-MATE, MATE] returns a value in that
    range or — only in a state whose clock has expired — the sentinel ±POS_INF (every depth) -/
theorem value_in_range_or_aborted {P O : Type} (g : Game P) (ord : Oracle P O) (E : Nat)
    (hE : ∀ p, -(E : Int) ≤ g.eval p ∧ g.eval p ≤ E) (hEm : (E : Int) ≤ Gen.mateScore) (fuel : Nat) :
    ChildR (alphaBeta g ord fuel) := alphaBeta_range g ord E hE hEm fuel

/-- as long as the clock has not expired, a node at `ply` with window (a, b) returns a value in
    [min b (-(MATE - ply)), max a (MATE - ply - 1)] (every depth) -/
theorem value_ply_exact {P O : Type} (g : Game P) (ord : Oracle P O) (E : Nat)
    (hE : ∀ p, -(E : Int) ≤ g.eval p ∧ g.eval p ≤ E)
    (hEp : (E : Int) + arrSize + Gen.nullPlyJump + 1 ≤ Gen.mateScore) (fuel : Nat) :
    ChildF (alphaBeta g ord fuel) := alphaBeta_fine g ord E hE hEp fuel

/-- every reported score is in [-(MATE-2), MATE-1]: any game with a bounded evaluation -/
theorem scores_in_range {P O : Type} (g : Game P) (ord : Oracle P O) (E : Nat)
    (hE : ∀ p, -(E : Int) ≤ g.eval p ∧ g.eval p ≤ E)
    (hEp : (E : Int) + arrSize + Gen.nullPlyJump + 1 ≤ Gen.mateScore) (fuel : Nat) (root : P) (s : SS P O)
    (hs : s.reports = #[]) :
    ∀ i, Report.info i ∈ (outState (getBestMove g ord fuel root s)).reports.toList →
      -(Gen.mateScore - 2) ≤ i.eval ∧ i.eval ≤ Gen.mateScore - 1 :=
  getBestMove_scores_in_range g ord E hE hEp fuel root s (by intro i hi; rw [hs] at hi; cases hi)

/-- the chess instance (evaluation bound 70 400 of C14): every score the engine model reports -/
theorem chess_scores_in_range {O : Type} (h : Hasher) (ord : Oracle Pos O) (fuel : Nat) (root : Pos)
    (s : SS Pos O) (hs : s.reports = #[]) :
    ∀ i, Report.info i ∈ (outState (getBestMove (chessGame h) ord fuel root s)).reports.toList →
      -(Gen.mateScore - 2) ≤ i.eval ∧ i.eval ≤ Gen.mateScore - 1 :=
  scores_in_range (chessGame h) ord 70400 (chess_gameOK (h := h)).evalB (by decide) fuel root s hs

/-- hence no printed mate distance is 0 and every one is at most 8 moves, both signs -/
theorem printed_mate_distance (e : Int) (hr : -(Gen.mateScore - 2) ≤ e ∧ e ≤ Gen.mateScore - 1) :
    (e ≥ Gen.mateScore - Gen.mateWindow → 1 ≤ Int.tdiv (Gen.mateScore - e + 1) 2 ∧ Int.tdiv (Gen.mateScore - e + 1) 2 ≤ 8) ∧
    (e ≤ -Gen.mateScore + Gen.mateWindow → Int.tdiv (Gen.mateScore + e) (-2) ≤ -1) :=
  ⟨fun h => ⟨mate_nonzero_pos e h hr.2, mate_distance_bounded e h hr.2⟩,
   fun h => mate_nonzero_neg e h hr.1⟩

end Walleye
