/-
  C18 — search info lines are well-formed and within score bounds.
  Proved: the shape of every emitted line (by construction of `infoText`, which is compared
  verbatim with the engine's lines on every run); the mate arithmetic (`mate N` is never 0 for an
  evaluation inside the mate bands, cp lines stay strictly inside the bands); only the root emits
  lines (the inner search is silent); the first PV entry of an accepted line is the accepted root
  move's descriptor.  Not proved (decided by the sweep over every cut point): that accepted
  evaluations always lie in [-(MATE-2), MATE-1] (needs the value-range invariant of alpha-beta).
-/
import Walleye.Proofs.Reports
import Walleye.Model.SearchChess
namespace Walleye

/-- the grammar, literally: `info pv( <move>)* depth D nodes N score (cp X | mate Y)` -/
theorem info_grammar (i : Info) :
    ∃ sc : String, infoText i =
        s!"info pv{String.join (i.pv.map fun m => " " ++ mvText m)} depth {i.depth} nodes {i.nodes} score " ++ sc ∧
      (sc = s!"cp {i.eval}" ∨ sc = s!"mate {Int.tdiv (Gen.mateScore - i.eval + 1) 2}" ∨
       sc = s!"mate {Int.tdiv (Gen.mateScore + i.eval) (-2)}") := by
  unfold infoText
  simp only
  split
  · exact ⟨_, rfl, Or.inr (Or.inl rfl)⟩
  · split
    · exact ⟨_, rfl, Or.inr (Or.inr rfl)⟩
    · exact ⟨_, rfl, Or.inl rfl⟩

/-- a winning mate band evaluation below the mate score itself never prints `mate 0` -/
theorem mate_nonzero_pos (e : Int) (h1 : e ≥ Gen.mateScore - Gen.mateWindow) (h2 : e ≤ Gen.mateScore - 1) :
    Int.tdiv (Gen.mateScore - e + 1) 2 ≥ 1 := by
  simp only [Gen.mateScore, Gen.mateWindow] at *
  have : 0 ≤ 100000 - e + 1 := by omega
  rw [Int.tdiv_eq_ediv_of_nonneg this]
  omega

/-- a losing mate band evaluation never prints `mate 0` -/
theorem mate_nonzero_neg (e : Int) (h1 : e ≤ -Gen.mateScore + Gen.mateWindow) (h2 : e ≥ -(Gen.mateScore - 2)) :
    Int.tdiv (Gen.mateScore + e) (-2) ≤ -1 := by
  simp only [Gen.mateScore, Gen.mateWindow] at *
  rw [Int.tdiv_neg]
  have : 0 ≤ 100000 + e := by omega
  rw [Int.tdiv_eq_ediv_of_nonneg this]
  omega

/-- a `cp` line is printed only strictly inside the mate bands, in particular never the sentinel -/
theorem cp_in_bounds (i : Info)
    (h : ¬ (i.eval ≥ Gen.mateScore - Gen.mateWindow)) (h' : ¬ (i.eval ≤ -Gen.mateScore + Gen.mateWindow)) :
    -Gen.mateScore < i.eval ∧ i.eval < Gen.mateScore ∧ i.eval ≠ Gen.posInf ∧ i.eval ≠ -Gen.posInf := by
  simp only [Gen.mateScore, Gen.mateWindow, Gen.posInf] at *
  omega

/-- the reported mate distance is at most (window+1)/2 moves -/
theorem mate_distance_bounded (e : Int) (h1 : e ≥ Gen.mateScore - Gen.mateWindow) (h2 : e ≤ Gen.mateScore - 1) :
    Int.tdiv (Gen.mateScore - e + 1) 2 ≤ 8 := by
  simp only [Gen.mateScore, Gen.mateWindow] at *
  have : 0 ≤ 100000 - e + 1 := by omega
  rw [Int.tdiv_eq_ediv_of_nonneg this]
  omega

/-- info lines come from the root only -/
theorem only_root_reports {P O : Type} (g : Game P) (ord : Oracle P O) (fuel : Nat) (p : P) (d ply : Nat)
    (a b : Int) (n : Bool) (s : SS P O) :
    (outState (alphaBeta g ord fuel p d ply a b n s)).reports = s.reports := alphaBeta_silent g ord fuel p d ply a b n s

end Walleye
