/-
  C18 — search info lines are well-formed and within score bounds.
  Proved: the shape of every emitted line (by construction of `infoText`, which is compared
  verbatim with the engine's lines on every run); the mate arithmetic (`mate N` is never 0 for an
  evaluation inside the mate bands, cp lines stay strictly inside the bands); only the root emits
  lines (the inner search is silent); the first PV entry of an accepted line is the accepted root
  move's descriptor; and — `scores_in_range`, `chess_scores_in_range` — the value-range invariant
  of the WHOLE search (every depth: null-move pruning, re-searches, check extension, repetition
  draws, any clock expiry, any ordering oracle): every score on an info line lies in
  [-(MATE-2), MATE-1], at every point of the run and whatever its outcome; so the abort sentinel
  is never printed, `mate N` is never `mate 0`, and `cp` values are inside the bands.
  `info_stream_is_ordered`, `first_pv_move_is_a_legal_move` (Proofs/Stream): over one search, in the
  order printed, D ≥ 1 and non-decreasing, scores strictly increasing within one depth, first PV move
  = from/to of a legal move of the searched position — every clock expiry, ordering, outcome.
  Supporting: `value_in_range_or_aborted` (every alpha-beta call returns a value in [-MATE, MATE]
  or, only after the clock said "out of time", the sentinel) and `value_ply_exact`.
-/
import Walleye.Proofs.Reports
import Walleye.Proofs.RootRange
import Walleye.Proofs.ChessGameOK
import Walleye.Model.SearchChess
import Walleye.Proofs.Stream
import Walleye.Proofs.MakeMoveObs
namespace Walleye

/-- the grammar, literally: `info pv( <move>)* depth D nodes N score (cp X | mate Y)` -/
theorem info_grammar (i : Info) :
    ∃ sc : String, infoText i =
        s!"info pv{String.join (i.pv.map fun m => " " ++ mvText m)} depth {i.depth} nodes {i.nodes} score " ++ sc ∧
      (sc = s!"cp {i.eval}" ∨ sc = s!"mate {Int.tdiv (Gen.mateScore - i.eval + 1) 2}" ∨
       sc = s!"mate {Int.tdiv (Gen.mateScore + i.eval) (-2)}") := by
  unfold infoText
  simp only
  split
  · exact ⟨_, rfl, Or.inr (Or.inl rfl)⟩
  · split
    · exact ⟨_, rfl, Or.inr (Or.inr rfl)⟩
    · exact ⟨_, rfl, Or.inl rfl⟩

/-- a winning mate band evaluation below the mate score itself never prints `mate 0` -/
theorem mate_nonzero_pos (e : Int) (h1 : e ≥ Gen.mateScore - Gen.mateWindow) (h2 : e ≤ Gen.mateScore - 1) :
    Int.tdiv (Gen.mateScore - e + 1) 2 ≥ 1 := by
  simp only [Gen.mateScore, Gen.mateWindow] at *
  have : 0 ≤ 100000 - e + 1 := by omega
  rw [Int.tdiv_eq_ediv_of_nonneg this]
  omega

/-- a losing mate band evaluation never prints `mate 0` -/
theorem mate_nonzero_neg (e : Int) (h1 : e ≤ -Gen.mateScore + Gen.mateWindow) (h2 : e ≥ -(Gen.mateScore - 2)) :
    Int.tdiv (Gen.mateScore + e) (-2) ≤ -1 := by
  simp only [Gen.mateScore, Gen.mateWindow] at *
  rw [Int.tdiv_neg]
  have : 0 ≤ 100000 + e := by omega
  rw [Int.tdiv_eq_ediv_of_nonneg this]
  omega

/-- a `cp` line is printed only strictly inside the mate bands, in particular never the sentinel -/
theorem cp_in_bounds (i : Info)
    (h : ¬ (i.eval ≥ Gen.mateScore - Gen.mateWindow)) (h' : ¬ (i.eval ≤ -Gen.mateScore + Gen.mateWindow)) :
    -Gen.mateScore < i.eval ∧ i.eval < Gen.mateScore ∧ i.eval ≠ Gen.posInf ∧ i.eval ≠ -Gen.posInf := by
  simp only [Gen.mateScore, Gen.mateWindow, Gen.posInf] at *
  omega

/-- the reported mate distance is at most (window+1)/2 moves -/
theorem mate_distance_bounded (e : Int) (h1 : e ≥ Gen.mateScore - Gen.mateWindow) (h2 : e ≤ Gen.mateScore - 1) :
    Int.tdiv (Gen.mateScore - e + 1) 2 ≤ 8 := by
  simp only [Gen.mateScore, Gen.mateWindow] at *
  have : 0 ≤ 100000 - e + 1 := by omega
  rw [Int.tdiv_eq_ediv_of_nonneg this]
  omega

/-- info lines come from the root only -/
theorem only_root_reports {P O : Type} (g : Game P) (ord : Oracle P O) (fuel : Nat) (p : P) (d ply : Nat)
    (a b : Int) (n : Bool) (s : SS P O) :
    (outState (alphaBeta g ord fuel p d ply a b n s)).reports = s.reports := alphaBeta_silent g ord fuel p d ply a b n s

/-- every alpha-beta call entered with a window overlapping [-MATE, MATE] returns a value in that
    range or — only in a state whose clock has expired — the sentinel ±POS_INF (every depth) -/
theorem value_in_range_or_aborted {P O : Type} (g : Game P) (ord : Oracle P O) (E : Nat)
    (hE : ∀ p, -(E : Int) ≤ g.eval p ∧ g.eval p ≤ E) (hEm : (E : Int) ≤ Gen.mateScore) (fuel : Nat) :
    ChildR (alphaBeta g ord fuel) := alphaBeta_range g ord E hE hEm fuel

/-- as long as the clock has not expired, a node at `ply` with window (a, b) returns a value in
    [min b (-(MATE - ply)), max a (MATE - ply - 1)] (every depth) -/
theorem value_ply_exact {P O : Type} (g : Game P) (ord : Oracle P O) (E : Nat)
    (hE : ∀ p, -(E : Int) ≤ g.eval p ∧ g.eval p ≤ E)
    (hEp : (E : Int) + arrSize + Gen.nullPlyJump + 1 ≤ Gen.mateScore) (fuel : Nat) :
    ChildF (alphaBeta g ord fuel) := alphaBeta_fine g ord E hE hEp fuel

/-- every reported score is in [-(MATE-2), MATE-1]: any game with a bounded evaluation -/
theorem scores_in_range {P O : Type} (g : Game P) (ord : Oracle P O) (E : Nat)
    (hE : ∀ p, -(E : Int) ≤ g.eval p ∧ g.eval p ≤ E)
    (hEp : (E : Int) + arrSize + Gen.nullPlyJump + 1 ≤ Gen.mateScore) (fuel : Nat) (root : P) (s : SS P O)
    (hs : s.reports = #[]) :
    ∀ i, Report.info i ∈ (outState (getBestMove g ord fuel root s)).reports.toList →
      -(Gen.mateScore - 2) ≤ i.eval ∧ i.eval ≤ Gen.mateScore - 1 :=
  getBestMove_scores_in_range g ord E hE hEp fuel root s (by intro i hi; rw [hs] at hi; cases hi)

/-- the chess instance (evaluation bound 70 400 of C14): every score the engine model reports -/
theorem chess_scores_in_range {O : Type} (h : Hasher) (ord : Oracle Pos O) (fuel : Nat) (root : Pos)
    (s : SS Pos O) (hs : s.reports = #[]) :
    ∀ i, Report.info i ∈ (outState (getBestMove (chessGame h) ord fuel root s)).reports.toList →
      -(Gen.mateScore - 2) ≤ i.eval ∧ i.eval ≤ Gen.mateScore - 1 :=
  scores_in_range (chessGame h) ord 70400 (chess_gameOK (h := h)).evalB (by decide) fuel root s hs

/-- hence no printed mate distance is 0 and every one is at most 8 moves, both signs -/
theorem printed_mate_distance (e : Int) (hr : -(Gen.mateScore - 2) ≤ e ∧ e ≤ Gen.mateScore - 1) :
    (e ≥ Gen.mateScore - Gen.mateWindow → 1 ≤ Int.tdiv (Gen.mateScore - e + 1) 2 ∧ Int.tdiv (Gen.mateScore - e + 1) 2 ≤ 8) ∧
    (e ≤ -Gen.mateScore + Gen.mateWindow → Int.tdiv (Gen.mateScore + e) (-2) ≤ -1) :=
  ⟨fun h => ⟨mate_nonzero_pos e h hr.2, mate_distance_bounded e h hr.2⟩,
   fun h => mate_nonzero_neg e h hr.1⟩


/-! ### the stream of lines of one search -/

/-- in the order printed: every line has depth ≥ 1 and each next line has a larger depth, or the
    same depth and a strictly larger score -/
def FwdOK : List Info → Prop
  | [] => True
  | [a] => 1 ≤ a.depth
  | a :: b :: rest => 1 ≤ a.depth ∧ Rel a b ∧ FwdOK (b :: rest)

theorem fwd_snoc (l : List Info) (b : Info) (h : FwdOK l) (hb : 1 ≤ b.depth)
    (hl : ∀ a, l.getLast? = some a → Rel a b) : FwdOK (l ++ [b]) := by
  induction l with
  | nil => exact hb
  | cons x xs ih =>
    cases xs with
    | nil =>
      exact ⟨h, hl x rfl, hb⟩
    | cons y ys =>
      obtain ⟨h1, h2, h3⟩ := h
      refine ⟨h1, h2, ?_⟩
      exact ih h3 (fun a ha => hl a (by rw [List.getLast?_cons_cons]; exact ha))

theorem fwd_of_rev : ∀ r : List Info, RevOK r → FwdOK r.reverse := by
  intro r
  induction r with
  | nil => intro _; trivial
  | cons b rest ih =>
    intro h
    obtain ⟨h1, h2, h3⟩ := h
    rw [List.reverse_cons]
    apply fwd_snoc _ _ (ih h3) h1
    intro a ha
    rw [List.getLast?_reverse] at ha
    cases rest with
    | nil => cases ha
    | cons a' _ =>
      simp only [List.head?_cons, Option.some.injEq] at ha
      subst ha
      exact h2

/-- **D ≥ 1, non-decreasing over one search; within one depth strictly increasing scores**: the info
    lines of a whole run of `get_best_move`, in the order printed — every game, every clock expiry,
    every ordering oracle returning a sub-list, at every point of the run and whatever its outcome -/
theorem info_stream_is_ordered {P O : Type} (g : Game P) (ord : Oracle P O) (hord : OrdSub ord) (fuel : Nat)
    (root : P) (s : SS P O) (hs : s.reports = #[]) :
    FwdOK (infosOf (outState (getBestMove g ord fuel root s)).reports) := by
  have h := (getBestMove_stream g ord hord fuel root s hs).1
  have := fwd_of_rev _ h
  unfold revInfos at this
  rwa [List.reverse_reverse] at this

/-- **the first PV move of every line is legal in the searched position**: its from/to squares are
    those of a move that is legal under the rules (the PV printer omits promotion letters) -/
theorem first_pv_move_is_a_legal_move {O : Type} (h : Hasher) (ord : Oracle Pos O) (hord : OrdSub ord) (fuel : Nat)
    (root : Pos) (wf : WFp root) (s : SS Pos O) (hs : s.reports = #[]) :
    ∀ i ∈ infosOf (outState (getBestMove (chessGame h) ord fuel root s)).reports,
      ∃ (a b : Point) (m : Spec.Move), i.pv.head? = some (a, b) ∧ Spec.legal (abs root) m = true ∧
        m.src = specOf a ∧ m.dst = specOf b := by
  intro i hi
  have hp := (getBestMove_stream (chessGame h) ord hord fuel root s hs).2 i (by
    unfold revInfos; exact List.mem_reverse.mpr hi)
  obtain ⟨q, ⟨m, hm, hor⟩, hq⟩ := hp
  obtain ⟨a, b, _, hl, _, _, _, _⟩ := makeMove_reproduces_successor h root wf m hm
  obtain ⟨hlegal, _⟩ := generateMoves_sound h root wf m hm
  have hlq : (chessGame h).lastMove q = some (a, b) := by
    rcases hor with rfl | rfl
    · exact hl
    · exact hl
  have hmv : moveOf m = ⟨specOf a, specOf b, m.promo.map (·.kind)⟩ := by unfold moveOf; rw [hl]
  refine ⟨a, b, moveOf m, ?_, hlegal, by rw [hmv], by rw [hmv]⟩
  rcases hq with hq | hq
  · rw [hlq] at hq; cases hq
  · rw [hq, hlq]

end Walleye
