/-
  C15 — FEN input is parsed totally and faithfully.
  In the model every `unwrap`, slice and index of the Rust code is an explicit `panic` outcome.
  Proved: for EVERY string (any Unicode) the square parser and the FEN loader return `ok` or `err`,
  never `panic` (`pointFromStr_total`, `fromFen_total`); `point_roundtrip` (parse ∘ display = id on
  the 64 squares).  Not proved (decided by the correspondence with the SPEC's own FEN reader on
  generated legal positions with counters up to 10^6): `fromFen_toFen` (faithfulness).
-/
import Walleye.Model.Fen
namespace Walleye

theorem pointFromStr_total (s : List Char) : pointFromStr s ≠ .panic := by
  unfold pointFromStr
  repeat' (first
    | (intro e; cases e; done)
    | split
    | dsimp only)

theorem fenChar_total (h : Hasher) (a : FenAcc) (c : Char) : fenChar h a c ≠ .panic := by
  unfold fenChar
  repeat' (first
    | (intro e; cases e; done)
    | split
    | dsimp only)

theorem fenRowChars_total (h : Hasher) (l : List Char) : ∀ a, fenRowChars h a l ≠ .panic := by
  induction l with
  | nil => intro a e; cases e
  | cons c cs ih =>
    intro a
    unfold fenRowChars
    cases hc : fenChar h a c with
    | ok a' => exact ih a'
    | err e => intro e'; cases e'
    | panic => exact absurd hc (fenChar_total h a c)

theorem fenRows_total (h : Hasher) (rows : List (List Char)) : ∀ a, fenRows h a rows ≠ .panic := by
  induction rows with
  | nil => intro a e; cases e
  | cons r rs ih =>
    intro a
    unfold fenRows
    cases hr : fenRowChars h a r with
    | ok a' =>
      simp only
      split
      · intro e; cases e
      · exact ih _
    | err e => intro e'; cases e'
    | panic => exact absurd hr (fenRowChars_total h r a)

/-- loading a FEN never panics, whatever the string -/
theorem fromFen_total (h : Hasher) (s : List Char) : fromFen h s ≠ .panic := by
  unfold fromFen
  repeat' (first
    | (intro e; cases e; done)
    | split
    | dsimp only
    | (rename_i hq; exact absurd hq (fenRows_total _ _ _))
    | (rename_i hq; exfalso; revert hq;
       (repeat' (first
         | (intro e; cases e; done)
         | split
         | dsimp only)); done))

/-- printing a square and parsing it back gives the square, for all 64 squares -/
theorem point_roundtrip : ∀ r : Fin 8, ∀ c : Fin 8,
    pointFromStr (pointDisplay ⟨r.val + 2, c.val + 2⟩) = .ok ⟨r.val + 2, c.val + 2⟩ := by
  decide +kernel

end Walleye
