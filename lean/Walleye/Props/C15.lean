/-
  C15 — FEN input is parsed totally and faithfully.
  In the model every `unwrap`, slice and index of the Rust code is an explicit `panic` outcome.
  Proved: for EVERY string (any Unicode) the square parser and the FEN loader return `ok` or `err`,
  never `panic` (`pointFromStr_total`, `fromFen_total`); `point_roundtrip` (parse ∘ display = id on
  the 64 squares).
  FAITHFULNESS (Proofs/FenFaithful, over the grammar of Spec/CanonFen):
    * `wellformed_fen_is_read_faithfully`: every well-formed FEN text — eight ranks of piece letters and
      digits 1..8 each describing eight squares, `w`/`b`, any castling field without a blank, `-` or a
      square, two decimal counters below 2^32 (so also counters above 255) — is ACCEPTED, and the position
      holds exactly the described piece on every square, the side, the four rights (by the letters present),
      the en passant square;
    * `every_position_loads_from_its_fen`: for every SPEC position P (64 cells, en passant square on the
      board) and all counters, `from_fen (canonText P half full) = ok p` with `abs p = P`; if P is legal then
      `p` is well-formed (`WFp`: ring, no sentinel inside, king caches exact) and its key exact (`Inv`) — so
      the C01/C02/C04/C13 theorems apply to every FEN-given legal position;
    * `canonText` is tied to the FEN strings actually sent to the implementation: the generator emits a
      `fen` operation only if the SPEC printer's string equals `canonText` of the position (run time check,
      counted in the evidence).
-/
import Walleye.Model.Fen
import Walleye.Proofs.FenFaithful
import Walleye.Proofs.StartWF
namespace Walleye

theorem pointFromStr_total (s : List Char) : pointFromStr s ≠ .panic := by
  unfold pointFromStr
  repeat' (first
    | (intro e; cases e; done)
    | split
    | dsimp only)

theorem fenChar_total (h : Hasher) (a : FenAcc) (c : Char) : fenChar h a c ≠ .panic := by
  unfold fenChar
  repeat' (first
    | (intro e; cases e; done)
    | split
    | dsimp only)

theorem fenRowChars_total (h : Hasher) (l : List Char) : ∀ a, fenRowChars h a l ≠ .panic := by
  induction l with
  | nil => intro a e; cases e
  | cons c cs ih =>
    intro a
    unfold fenRowChars
    cases hc : fenChar h a c with
    | ok a' => exact ih a'
    | err e => intro e'; cases e'
    | panic => exact absurd hc (fenChar_total h a c)

theorem fenRows_total (h : Hasher) (rows : List (List Char)) : ∀ a, fenRows h a rows ≠ .panic := by
  induction rows with
  | nil => intro a e; cases e
  | cons r rs ih =>
    intro a
    unfold fenRows
    cases hr : fenRowChars h a r with
    | ok a' =>
      simp only
      split
      · intro e; cases e
      · exact ih _
    | err e => intro e'; cases e'
    | panic => exact absurd hr (fenRowChars_total h r a)

/-- loading a FEN never panics, whatever the string -/
theorem fromFen_total (h : Hasher) (s : List Char) : fromFen h s ≠ .panic := by
  unfold fromFen
  repeat' (first
    | (intro e; cases e; done)
    | split
    | dsimp only
    | (rename_i hq; exact absurd hq (fenRows_total _ _ _))
    | (rename_i hq; exfalso; revert hq;
       (repeat' (first
         | (intro e; cases e; done)
         | split
         | dsimp only)); done))

/-- printing a square and parsing it back gives the square, for all 64 squares -/
theorem point_roundtrip : ∀ r : Fin 8, ∀ c : Fin 8,
    pointFromStr (pointDisplay ⟨r.val + 2, c.val + 2⟩) = .ok ⟨r.val + 2, c.val + 2⟩ := by
  decide +kernel

/-- every well-formed FEN text is accepted and read as the position it describes -/
theorem wellformed_fen_is_read_faithfully (h : Hasher) (rows : List (List Tok)) (side : Color) (rights : List Char)
    (ep : Option Point) (half full : List Char) (hlen : rows.length = 8) (hrows : ∀ row ∈ rows, RowOK row)
    (hr : ' ' ∉ rights) (hep : ∀ e, ep = some e → OnBoard e) (hh : CounterOK half) (hf : CounterOK full) :
    ∃ p, fromFen h (fenText rows side rights ep half full) = .ok p ∧
      p.toMove = side ∧ p.ep = ep ∧ p.wks = rights.contains 'K' ∧ p.wqs = rights.contains 'Q' ∧
      p.bks = rights.contains 'k' ∧ p.bqs = rights.contains 'q' ∧
      (∀ i row, rows[i]? = some row → ∀ j x, (rowCells row)[j]? = some x →
        p.board.get (2 + i) (2 + j) = sqOf x) ∧
      KeyOK h p ∧ RingOK p.board := by
  obtain ⟨p, a, hload, h1, h2, h3, h4, h5, h6, _, _, _, _, hcells⟩ :=
    fromFen_reads h rows side rights ep half full hlen hrows hr hep hh hf
  obtain ⟨hk, hring⟩ := fromFen_inv h _ p hload
  exact ⟨p, hload, h1, h2, h3, h4, h5, h6, hcells, hk, hring⟩

/-- every position is loaded from its canonical FEN text; a legal one is well-formed with an exact key -/
theorem every_position_loads_from_its_fen (h : Hasher) (P : Spec.Position) (hsz : P.cells.size = 64)
    (hep : ∀ e, P.ep = some e → InB e) (half full : List Char) (hh : CounterOK half) (hf : CounterOK full) :
    ∃ p, fromFen h (canonText P half full) = .ok p ∧ abs p = P ∧ (LP P → WFp p ∧ Inv h p) :=
  fromFen_canonical h P hsz hep half full hh hf

/-- the premises are satisfiable and the text is the familiar one: the start position, counters 0 and 1 -/
theorem start_canonical_text :
    canonText (abs startPosition) ['0'] ['1'] =
      ['r','n','b','q','k','b','n','r','/','p','p','p','p','p','p','p','p','/','8','/','8','/','8','/','8','/',
       'P','P','P','P','P','P','P','P','/','R','N','B','Q','K','B','N','R',' ','w',' ','K','Q','k','q',' ','-',' ',
       '0',' ','1'] := by decide +kernel

/-- a counter above 255 is a well-formed counter (the u8 defect that was repaired) -/
theorem counter_above_255 : CounterOK ['3','0','0'] ∧ CounterOK ['1','0','0','0','0','0','0'] := by
  refine ⟨⟨by simp, by decide, by decide⟩, ⟨by simp, by decide, by decide⟩⟩

end Walleye
