/-
  C05 — the position hash depends only on the position, never on the route to it.
  Everything here holds for EVERY hasher (any 64-bit tables), so it does not depend on ChaCha8.

  Proved:  the four board.rs mutators keep "incremental key = key computed from scratch";
           every successor of `generate_moves` (both modes, all move kinds: quiet, capture, double
           step, en passant, promotion x4, castling x4) keeps it, together with the ring and the
           en-passant well-formedness it needs; hence every chain of generated successors of any
           length; hence two routes to the same position give the same key (`route_independent`).
  Not yet proved here (carried by the correspondence run against the spec's scratch key on every
  state of every op): the FEN loader and the text-move applier as producers (`key_fromFen`,
  `key_makeMove`), and `key_sensitive` for the dumped constants.  Hence the `_partial` suffix on
  the producer-level headline.
-/
import Walleye.Proofs.Succ
import Walleye.Model.Fen
namespace Walleye

/-! ### the mutators (board.rs:524-584), for every hasher -/

theorem key_swapColor (h : Hasher) (p : Pos) : KeyOK h p → KeyOK h (p.swapColor h) := keyOK_swapColor h p

theorem key_takeAwayCastlingRights (h : Hasher) (p : Pos) (ct : CastlingType) :
    KeyOK h p → KeyOK h (p.takeAway h ct) := keyOK_takeAway h p ct

theorem key_unsetPawnDoubleMove (h : Hasher) (p : Pos) : KeyOK h p → KeyOK h (p.unsetEp h) := keyOK_unsetEp h p

theorem key_movePiece (h : Hasher) (p : Pos) (s e : Point) (hr : RingOK p.board) (he : OnBoard e) :
    KeyOK h p → KeyOK h (p.movePiece h s e) := keyOK_movePiece' h p s e hr he

/-! ### the generator as a producer of positions -/

/-- every successor of `generate_moves`, in either mode, carries the exact key (and the invariant
    needed to go on) -/
theorem key_gen (h : Hasher) (p : Pos) (mode : Mode) (hinv : Inv h p) :
    ∀ s ∈ generateMoves h p mode, Inv h s :=
  fun s hs => (generateMoves_inv h p mode hinv s hs).1

/-- positions reachable from `p` by following generated successors, any modes, any length -/
inductive Chain (h : Hasher) : Pos → Pos → Prop where
  | refl (p : Pos) : Chain h p p
  | step {p q s : Pos} (mode : Mode) : Chain h p q → s ∈ generateMoves h q mode → Chain h p s

theorem key_chain (h : Hasher) (p q : Pos) (hinv : Inv h p) (hc : Chain h p q) : Inv h q := by
  induction hc with
  | refl => exact hinv
  | step mode _ hs ih => exact key_gen h _ mode ih _ hs

/-! ### route independence -/

/-- the components the key is a function of -/
def SameCore (p q : Pos) : Prop :=
  (∀ pt, OnBoard pt → p.board.get pt.row pt.col = q.board.get pt.row pt.col) ∧ p.toMove = q.toMove ∧
  p.wks = q.wks ∧ p.wqs = q.wqs ∧ p.bks = q.bks ∧ p.bqs = q.bqs ∧
  p.ep.map (·.col) = q.ep.map (·.col)

theorem scratchKey_core (h : Hasher) (p q : Pos) (hc : SameCore p q) : scratchKey h p = scratchKey h q := by
  obtain ⟨hb, ht, h1, h2, h3, h4, he⟩ := hc
  unfold scratchKey
  have hp : placementKey h p.board = placementKey h q.board := by
    unfold placementKey
    apply xorFold_congr
    intro pt hpt
    rw [hb pt ((mem_boardCoords pt).mp hpt)]
  have hep : epKey h p.ep = epKey h q.ep := by
    unfold epKey
    cases hpe : p.ep <;> cases hqe : q.ep <;> simp_all
  rw [hp, ht, h1, h2, h3, h4, hep]

/-- two positions with the same placement, side, rights and en passant file, each produced by any
    key-exact route, have the same key -/
theorem route_independent (h : Hasher) (p q : Pos) (hp : KeyOK h p) (hq : KeyOK h q) (hc : SameCore p q) :
    p.key = q.key := by
  unfold KeyOK at hp hq
  rw [hp, hq, scratchKey_core h p q hc]

/-- in particular: any two chains of generated successors (any transposed move orders) from
    key-exact starts that end in the same position end with the same key -/
theorem route_independent_chains_partial (h : Hasher) (a b p q : Pos) (ha : Inv h a) (hb : Inv h b)
    (hcp : Chain h a p) (hcq : Chain h b q) (hc : SameCore p q) : p.key = q.key :=
  route_independent h p q (key_chain h a p ha hcp).key (key_chain h b q hb hcq).key hc

/-! ### non-vacuity: the start position (loaded by the model's FEN reader, real hasher constants)
    satisfies the invariant, so the theorems above apply to every game from the start position -/

def startPosition : Pos :=
  match fromFen Hasher.real Gen.defaultFen.toList with
  | .ok p => p
  | _ => default

theorem start_ring : RingOK startPosition.board := by
  intro r c hne
  by_cases hb : r < 12 ∧ c < 12
  · have key : ∀ r : Fin 12, ∀ c : Fin 12, startPosition.board.get r.val c.val ≠ .boundary →
        (2 ≤ r.val ∧ r.val ≤ 9 ∧ 2 ≤ c.val ∧ c.val ≤ 9) := by decide +kernel
    exact key ⟨r, hb.1⟩ ⟨c, hb.2⟩ hne
  · exfalso; apply hne; unfold Board.get; rw [dif_neg hb]

theorem start_inv : Inv Hasher.real startPosition := by
  refine ⟨start_ring, ?_, ?_⟩
  · intro t ht
    have : startPosition.ep = none := by decide +kernel
    rw [this] at ht; cases ht
  · unfold KeyOK; decide +kernel

end Walleye
