/-
  C05 — the position hash depends only on the position, never on the route to it.
  Everything here holds for EVERY hasher (any 64-bit tables), so it does not depend on ChaCha8.

  Proved:  the four board.rs mutators keep "incremental key = key computed from scratch";
           every successor of `generate_moves` (both modes, all move kinds: quiet, capture, double
           step, en passant, promotion x4, castling x4) keeps it, together with the ring and the
           en-passant well-formedness it needs; hence every chain of generated successors of any
           length; hence two routes to the same position give the same key (`route_independent`).
  Also proved: the FEN loader (`key_fromFen`: every accepted string, every hasher) and the text-move
  applier (`key_makeMove`, `key_replay`: every replayed move list whose moves satisfy the two
  legality facts the applier relies on) produce exact keys; `key_sensitive_*`: for the constants
  dumped from the running engine every piece-square word on the 64 squares, the side word, the four
  castling words and the eight en passant words are non-zero and pairwise distinct where they can
  replace each other, so changing one component changes the key.
-/
import Walleye.Proofs.MakeMoveKey
import Walleye.Proofs.Start
namespace Walleye

/-! ### the mutators (board.rs:524-584), for every hasher -/

theorem key_swapColor (h : Hasher) (p : Pos) : KeyOK h p → KeyOK h (p.swapColor h) := keyOK_swapColor h p

theorem key_takeAwayCastlingRights (h : Hasher) (p : Pos) (ct : CastlingType) :
    KeyOK h p → KeyOK h (p.takeAway h ct) := keyOK_takeAway h p ct

theorem key_unsetPawnDoubleMove (h : Hasher) (p : Pos) : KeyOK h p → KeyOK h (p.unsetEp h) := keyOK_unsetEp h p

theorem key_movePiece (h : Hasher) (p : Pos) (s e : Point) (hr : RingOK p.board) (he : OnBoard e) :
    KeyOK h p → KeyOK h (p.movePiece h s e) := keyOK_movePiece' h p s e hr he

/-! ### the generator as a producer of positions -/

/-- every successor of `generate_moves`, in either mode, carries the exact key (and the invariant
    needed to go on) -/
theorem key_gen (h : Hasher) (p : Pos) (mode : Mode) (hinv : Inv h p) :
    ∀ s ∈ generateMoves h p mode, Inv h s :=
  fun s hs => (generateMoves_inv h p mode hinv s hs).1

/-- positions reachable from `p` by following generated successors, any modes, any length -/
inductive Chain (h : Hasher) : Pos → Pos → Prop where
  | refl (p : Pos) : Chain h p p
  | step {p q s : Pos} (mode : Mode) : Chain h p q → s ∈ generateMoves h q mode → Chain h p s

theorem key_chain (h : Hasher) (p q : Pos) (hinv : Inv h p) (hc : Chain h p q) : Inv h q := by
  induction hc with
  | refl => exact hinv
  | step mode _ hs ih => exact key_gen h _ mode ih _ hs

/-! ### route independence -/

/-- the components the key is a function of -/
def SameCore (p q : Pos) : Prop :=
  (∀ pt, OnBoard pt → p.board.get pt.row pt.col = q.board.get pt.row pt.col) ∧ p.toMove = q.toMove ∧
  p.wks = q.wks ∧ p.wqs = q.wqs ∧ p.bks = q.bks ∧ p.bqs = q.bqs ∧
  p.ep.map (·.col) = q.ep.map (·.col)

theorem scratchKey_core (h : Hasher) (p q : Pos) (hc : SameCore p q) : scratchKey h p = scratchKey h q := by
  obtain ⟨hb, ht, h1, h2, h3, h4, he⟩ := hc
  unfold scratchKey
  have hp : placementKey h p.board = placementKey h q.board := by
    unfold placementKey
    apply xorFold_congr
    intro pt hpt
    rw [hb pt ((mem_boardCoords pt).mp hpt)]
  have hep : epKey h p.ep = epKey h q.ep := by
    unfold epKey
    cases hpe : p.ep <;> cases hqe : q.ep <;> simp_all
  rw [hp, ht, h1, h2, h3, h4, hep]

/-- two positions with the same placement, side, rights and en passant file, each produced by any
    key-exact route, have the same key -/
theorem route_independent (h : Hasher) (p q : Pos) (hp : KeyOK h p) (hq : KeyOK h q) (hc : SameCore p q) :
    p.key = q.key := by
  unfold KeyOK at hp hq
  rw [hp, hq, scratchKey_core h p q hc]

/-- in particular: any two chains of generated successors (any transposed move orders) from
    key-exact starts that end in the same position end with the same key -/
theorem route_independent_chains_partial (h : Hasher) (a b p q : Pos) (ha : Inv h a) (hb : Inv h b)
    (hcp : Chain h a p) (hcq : Chain h b q) (hc : SameCore p q) : p.key = q.key :=
  route_independent h p q (key_chain h a p ha hcp).key (key_chain h b q hb hcq).key hc

/-! ### the FEN loader and the text-move applier as producers -/

theorem key_fromFen (h : Hasher) (s : List Char) (p : Pos) (hc : fromFen h s = .ok p) :
    KeyOK h p ∧ RingOK p.board := fromFen_inv h s p hc

/-- a FEN without en passant field gives the full chain invariant, so everything above applies -/
theorem inv_fromFen (h : Hasher) (s : List Char) (p : Pos) (hc : fromFen h s = .ok p) (hep : p.ep = none) :
    Inv h p := by
  refine ⟨(fromFen_inv h s p hc).2, ?_, (fromFen_inv h s p hc).1⟩
  intro t ht
  rw [hep] at ht
  cases ht

/-- what the applier relies on, for the two squares the text names: a pawn moving diagonally onto an
    empty square has an enemy pawn beside it (en passant); a five-character move is made by a pawn
    of the side to move.  Every legal move text satisfies this (`legal_text_ok`, Props/C04). -/
def MoveTextOK (p : Pos) (mv : List Char) : Prop :=
  (∀ (s1 s2 : List Char) (sp ep : Point) (piece : Piece), Str.byteSlice mv 0 2 = some s1 → Str.byteSlice mv 2 4 = some s2 →
      parsePoint? s1 = some sp → parsePoint? s2 = some ep → p.board.get sp.row sp.col = .full piece → piece.kind = .pawn →
      sp.col ≠ ep.col → p.board.get ep.row ep.col = .empty → p.board.get sp.row ep.col = .full ⟨p.toMove.opp, .pawn⟩) ∧
  (∀ sp : Point, ∀ piece : Piece, Str.byteLen mv = 5 → p.board.get sp.row sp.col = .full piece →
      (∃ s1, Str.byteSlice mv 0 2 = some s1 ∧ parsePoint? s1 = some sp) → piece = ⟨p.toMove, .pawn⟩)

theorem key_makeMove (h : Hasher) (p p' : Pos) (mv : List Char) (hr : RingOK p.board) (hk : KeyOK h p)
    (hok : MoveTextOK p mv) (hm : makeMove h p mv = some p') : KeyOK h p' ∧ RingOK p'.board :=
  let g := makeMove_good h p p' mv ⟨hr, hk⟩ hok.1 hok.2 hm
  ⟨g.2, g.1⟩

/-- a replayed game: every move text satisfies `MoveTextOK` in the position it is applied to -/
inductive Replay (h : Hasher) : Pos → List (List Char) → Pos → Prop where
  | nil (p : Pos) : Replay h p [] p
  | cons {p q r : Pos} {mv : List Char} {ms : List (List Char)} :
      MoveTextOK p mv → makeMove h p mv = some q → Replay h q ms r → Replay h p (mv :: ms) r

/-- `position … moves …`: the key is exact after every prefix of every replayed game -/
theorem key_replay (h : Hasher) (p r : Pos) (ms : List (List Char)) (hr : RingOK p.board) (hk : KeyOK h p)
    (hrep : Replay h p ms r) : KeyOK h r ∧ RingOK r.board := by
  induction hrep with
  | nil => exact ⟨hk, hr⟩
  | cons hok hm _ ih =>
    obtain ⟨k1, r1⟩ := key_makeMove h _ _ _ hr hk hok hm
    exact ih r1 k1

/-- FEN, then replayed moves, then generated successors — in any combination the same position has
    the same key -/
theorem route_independent_all_producers (h : Hasher) (p q : Pos) (hp : KeyOK h p) (hq : KeyOK h q)
    (hc : SameCore p q) : p.key = q.key := route_independent h p q hp hq hc

/-! ### sensitivity of the real constants (kernel computation over the dumped tables) -/

def onBoardPoints : List Point := boardCoords

def allPieces : List Piece :=
  [⟨.white, .king⟩, ⟨.white, .queen⟩, ⟨.white, .rook⟩, ⟨.white, .bishop⟩, ⟨.white, .knight⟩, ⟨.white, .pawn⟩,
   ⟨.black, .king⟩, ⟨.black, .queen⟩, ⟨.black, .rook⟩, ⟨.black, .bishop⟩, ⟨.black, .knight⟩, ⟨.black, .pawn⟩]

def distinctWords : List UInt64 → Bool
  | [] => true
  | x :: xs => xs.all (fun y => x != y) && distinctWords xs

/-- on every square: the twelve piece words are non-zero and pairwise distinct -/
def pieceWordsOK : Bool :=
  onBoardPoints.all fun pt =>
    let ws := allPieces.map fun pc => Hasher.real.piece pc pt
    ws.all (· != 0) && distinctWords ws

/-- side word, castling words, en passant words of the eight files: non-zero; the latter distinct -/
def otherWordsOK : Bool :=
  Hasher.real.side != 0 &&
  [CastlingType.wks, .wqs, .bks, .bqs].all (fun ct => Hasher.real.castle ct != 0) &&
  ((List.range 8).map fun i => Hasher.real.epFile (i + 2)).all (· != 0) &&
  distinctWords ((List.range 8).map fun i => Hasher.real.epFile (i + 2))

set_option maxHeartbeats 2000000 in
theorem key_sensitive_pieces : pieceWordsOK = true := by decide +kernel

theorem key_sensitive_others : otherWordsOK = true := by decide +kernel

/-- replacing the content of one square by a different content changes the key (real constants) -/
theorem key_sensitive_square (b : Board) (pt : Point) (v : Square) (hpt : OnBoard pt)
    (hne : sqKey Hasher.real (b.get pt.row pt.col) pt ≠ sqKey Hasher.real v pt) :
    placementKey Hasher.real (b.set pt.row pt.col v) ≠ placementKey Hasher.real b := by
  rw [placementKey_set Hasher.real b pt v hpt]
  intro e
  apply hne
  have : placementKey Hasher.real b ^^^ sqKey Hasher.real (b.get pt.row pt.col) pt ^^^ sqKey Hasher.real v pt
      ^^^ placementKey Hasher.real b = placementKey Hasher.real b ^^^ placementKey Hasher.real b := by rw [e]
  have h2 : sqKey Hasher.real (b.get pt.row pt.col) pt ^^^ sqKey Hasher.real v pt = 0 := by
    have h3 : placementKey Hasher.real b ^^^ sqKey Hasher.real (b.get pt.row pt.col) pt ^^^ sqKey Hasher.real v pt
        ^^^ placementKey Hasher.real b = sqKey Hasher.real (b.get pt.row pt.col) pt ^^^ sqKey Hasher.real v pt := by xor_ac
    rw [h3] at this
    rw [this]; simp
  have h4 : (sqKey Hasher.real (b.get pt.row pt.col) pt ^^^ sqKey Hasher.real v pt) ^^^ sqKey Hasher.real v pt
      = 0 ^^^ sqKey Hasher.real v pt := by rw [h2]
  rw [xor_self_cancel] at h4
  simpa using h4

/-! ### non-vacuity: the start position (loaded by the model's FEN reader, real hasher constants)
    satisfies the invariant, so the theorems above apply to every game from the start position -/

theorem start_inv : Inv Hasher.real startPosition := by
  refine ⟨start_ring, ?_, ?_⟩
  · intro t ht
    have : startPosition.ep = none := by decide +kernel
    rw [this] at ht; cases ht
  · unfold KeyOK; decide +kernel

end Walleye
