/-
  C07 — running out of time anywhere in the search is safe.
  The search model is a function of (position, table, ordering oracle, expiry index k); every
  statement below holds for every game, every k (including "never"), every oracle.

  Proved: `table_restored` (alpha-beta and the whole of get_best_move leave every repetition count
  as given, on every normally finishing run); `sent_is_root_move` (every board handed back is a root
  successor — at every point of the run, also if it ends by expiry, panic or fuel);
  `inner_search_reports_nothing`; `expired_is_sticky_step` (once the clock said "out of time" it says
  so at every later consultation).
  `aborted_value_never_reported`: the abort sentinel ±POS_INF — the value every call returns once
  the clock has said "out of time" — never appears on an info line, for any expiry index, depth or
  ordering (corollary of the value-range invariant, Proofs/Range, RangeFine, RootRange);
  `sentinel_only_after_expiry`: an alpha-beta call returns the sentinel only in a state whose clock
  has expired, and otherwise a value in [-MATE, MATE].
  `larger_allowance_only_extends` (Proofs/Prefix, PrefixSearch): the improvements (info lines) reported
  with the clock expiring at consultation k are a PREFIX of those reported with any later expiry, or
  with none — for every game, ordering oracle, table, fuel, root, and whatever the outcome of either
  run.  Proof: a relational invariant (the two runs agree on everything but the expiry until
  consultation k; from then on the first accepts nothing, because every acceptance at the root is
  guarded by a fresh consultation of a sticky clock, and the second only appends), packaged
  compositionally and carried through every function of the search by one structural tactic.
  `fallback_is_handed_over_first`, `fallback_is_independent_of_the_allowance` (Proofs/Fallback, after
  fix 3ef6069): the first board on the channel is the head of the root ordering, sent before any
  evaluation, for every expiry index (also 0) and whatever the outcome; it is the same board for
  every allowance.  So the board handed back when no evaluation completed is "the first move in its
  ordering", and boards are only ever appended after it.
  `larger_allowance_only_extends_boards` (Proofs/PrefixPairs, PrefixPairsSearch: the same relational
  invariant with the observation "board handed over + its info line"): the sequence of (board, info
  line) pairs reported under expiry k is a prefix of the sequence under any later expiry or none — so
  every board handed over as an improvement under a small allowance is, with its score, one the
  unbounded search hands over too: it comes from a fully completed evaluation.
  Not proved (decided by the every-k sweep with order-log replay): the absence of index panics
  beyond ply 99 (L1 in DESIGN.md: not reachable by any real time control, theoretical).
-/
import Walleye.Proofs.Reports
import Walleye.Proofs.PrefixSearch
import Walleye.Proofs.RootRange
import Walleye.Proofs.Fallback
import Walleye.Proofs.PrefixPairsSearch
import Walleye.Proofs.Paired
namespace Walleye
open DrawTable

variable {P O : Type} (g : Game P) (ord : Oracle P O)

theorem table_restored_alphaBeta (fuel : Nat) (p : P) (depth ply : Nat) (a b : Int) (n : Bool)
    (s s' : SS P O) (v : Int) (h : alphaBeta g ord fuel p depth ply a b n s = .ok v s') :
    ∀ k, count s'.table k = count s.table k :=
  ((alphaBeta_pres g ord fuel p depth ply a b n).triple s.table).run s v s' (TableEq.refl _) h

theorem table_restored (fuel : Nat) (root : P) (s s' : SS P O) (h : getBestMove g ord fuel root s = .ok () s') :
    ∀ k, count s'.table k = count s.table k :=
  ((getBestMove_pres g ord fuel root).triple s.table).run s () s' (TableEq.refl _) h

theorem sent_is_root_move (hord : OrdSub ord) (fuel : Nat) (root : P) (s : SS P O) (hs : s.reports = #[]) :
    ∀ q, Report.sent q ∈ (outState (getBestMove g ord fuel root s)).reports.toList → RootSucc g root q :=
  getBestMove_sends_root_successors g ord hord fuel root s hs

theorem inner_search_reports_nothing (fuel : Nat) (p : P) (d ply : Nat) (a b : Int) (n : Bool) (s : SS P O) :
    (outState (alphaBeta g ord fuel p d ply a b n s)).reports = s.reports :=
  alphaBeta_silent g ord fuel p d ply a b n s

/-- the clock is a counter: a consultation that answers "out of time" is followed only by such answers -/
theorem expired_is_sticky_step (s s1 s2 : SS P O) (b2 : Bool) (h1 : tick s = .ok true s1)
    (hq : s1.queries ≤ s2.queries) (he : s2.expiry = s.expiry) (s3 : SS P O) (h2 : tick s2 = .ok b2 s3) : b2 = true := by
  obtain ⟨e1, b1⟩ := tick_eq h1
  obtain ⟨_, b2'⟩ := tick_eq h2
  subst e1
  rw [b2', he]
  cases hk : s.expiry with
  | none => rw [hk] at b1; cases b1
  | some k =>
    rw [hk] at b1
    simp only at hq b1 ⊢
    have : k ≤ s.queries := by simpa using b1.symm
    simp only [decide_eq_true_eq]
    omega

/-- an aborted call returns the sentinel without touching the table or the reports -/
theorem aborted_call_returns_sentinel (fuel : Nat) (p : P) (d ply : Nat) (a b : Int) (n : Bool) (s s1 : SS P O)
    (ht : tick s = .ok true s1) : alphaBeta g ord (fuel + 1) p d ply a b n s = .ok (-Gen.posInf) s1 := by
  unfold alphaBeta
  rw [bind_of_ok ht]
  rfl

/-- an alpha-beta call (any depth) returns a value in [-MATE, MATE], or the sentinel and then the
    clock has expired -/
theorem sentinel_only_after_expiry (E : Nat) (hE : ∀ p, -(E : Int) ≤ g.eval p ∧ g.eval p ≤ E)
    (hEm : (E : Int) ≤ Gen.mateScore) (fuel : Nat) (p : P) (d : Nat) (a b : Int) (s s' : SS P O) (v : Int)
    (hsz : s.cur.size = arrSize) (ha : a ≤ Gen.mateScore) (hb : -Gen.mateScore ≤ b)
    (h : alphaBeta g ord fuel p d 1 a b true s = .ok v s') :
    (-Gen.mateScore ≤ v ∧ v ≤ Gen.mateScore) ∨ ((v = Gen.posInf ∨ v = -Gen.posInf) ∧ s'.expired = true) :=
  (alphaBeta_range g ord E hE hEm fuel p d 1 a b true ha hb (fun _ => by decide) (by decide)).run s v s' hsz h

/-- the abort sentinel is never reported, whatever the expiry index -/
theorem aborted_value_never_reported (E : Nat) (hE : ∀ p, -(E : Int) ≤ g.eval p ∧ g.eval p ≤ E)
    (hEp : (E : Int) + arrSize + Gen.nullPlyJump + 1 ≤ Gen.mateScore) (fuel : Nat) (root : P) (s : SS P O)
    (hs : s.reports = #[]) :
    ∀ i, Report.info i ∈ (outState (getBestMove g ord fuel root s)).reports.toList →
      i.eval ≠ Gen.posInf ∧ i.eval ≠ -Gen.posInf := by
  intro i hi
  have := getBestMove_scores_in_range g ord E hE hEp fuel root s (by intro i hi; rw [hs] at hi; cases hi) i hi
  unfold ScoreOK at this
  simp only [Gen.mateScore, Gen.posInf] at *
  omega

/-- **C07**: a larger allowance never changes the sequence of improvements reported under a smaller
    one — it only extends it (`e2 = none`: no expiry at all) -/
theorem larger_allowance_only_extends (fuel : Nat) (root : P) (table : DrawTable) (o : O) (k : Nat)
    (e2 : Option Nat) (hl : Later k e2) :
    (getBestMove g ord fuel root (newSS (some k) table o)).st.infos <+:
      (getBestMove g ord fuel root (newSS e2 table o)).st.infos :=
  reports_prefix g ord fuel root table o k e2 hl

/-- the two readings of `Later`: a later consultation, or never -/
example : Later 5 (some 9) ∧ Later 5 none := ⟨by show 5 ≤ 9; omega, trivial⟩


/-- the first board on the channel is the head of the root ordering, handed over before any
    evaluation starts: every game, every clock expiry (also 0), every oracle that keeps a move,
    whatever the outcome of the run (normal end, expiry, panic, out of fuel) -/
theorem fallback_is_handed_over_first (hne : OrdNonempty ord) (fuel : Nat) (root : P) (s : SS P O)
    (hs : s.reports = #[]) (hroot : g.gen root .all ≠ []) :
    ∃ first tail rest, (ord s.ord s.expired 'R' (g.gen root .all)).1 = first :: tail ∧
      (outState (getBestMove g ord fuel root s)).reports.toList = Report.sent first :: rest :=
  getBestMove_hands_over_first g ord hne fuel root s hs hroot

/-- and it is the same board whatever the allowance: two runs from the same fresh state that differ
    only in the expiry index start their report streams with the same board -/
theorem fallback_is_independent_of_the_allowance (hne : OrdNonempty ord) (fuel : Nat) (root : P)
    (table : DrawTable) (o : O) (k k' : Option Nat) (hroot : g.gen root .all ≠ []) :
    ∃ first rest rest',
      (outState (getBestMove g ord fuel root (newSS k table o))).reports.toList = Report.sent first :: rest ∧
      (outState (getBestMove g ord fuel root (newSS k' table o))).reports.toList = Report.sent first :: rest' := by
  obtain ⟨f1, t1, r1, h1, e1⟩ := getBestMove_hands_over_first g ord hne fuel root (newSS k table o) rfl hroot
  obtain ⟨f2, t2, r2, h2, e2⟩ := getBestMove_hands_over_first g ord hne fuel root (newSS k' table o) rfl hroot
  have hx : ∀ x : Option Nat, (newSS (P := P) x table o).expired = false := by
    intro x; cases x <;> simp [newSS, SS.expired]
  have ho : ∀ x : Option Nat, (newSS (P := P) x table o).ord = o := fun _ => rfl
  rw [hx, ho] at h1 h2
  rw [h1] at h2
  injection h2 with hf _
  subst hf
  exact ⟨f1, r1, r2, e1, e2⟩


/-- **C07, for the boards too**: a `sent m` immediately followed by an `info i` is the improvement
    (m, i) (`infosOfB`; a `sent` without an info line after it — the fall-back board — is none).
    The sequence of improvements, boards and info lines together, reported with the clock expiring
    at consultation k is a prefix of the sequence reported with any later expiry, or none: every board
    handed over under the smaller allowance, with its depth, node count, score and PV, is handed over
    under the larger one as well, in the same order.  In particular no board and no score ever comes
    from a sub-search that the clock cut short (the unbounded run has none). -/
theorem larger_allowance_only_extends_boards (fuel : Nat) (root : P) (table : DrawTable) (o : O) (k : Nat)
    (e2 : Option Nat) (hl : LaterB k e2) :
    infosOfB (getBestMove g ord fuel root (newSS (some k) table o)).stB.reports <+:
      infosOfB (getBestMove g ord fuel root (newSS e2 table o)).stB.reports :=
  reports_prefixB g ord fuel root table o k e2 hl

/-- the pairing, on a small example: fall-back board, two improvements, a trailing fall-back board -/
example (a b c : Nat) (i j : Info) :
    infosOfB (#[Report.sent a, .sent b, .info i, .sent c, .info j, .sent a] : Array (Report Nat)) = [(b, i), (c, j)] := rfl


/-- and nothing is lost by looking at pairs: at every point of every run, whatever its outcome, every
    info line is immediately preceded by the board handed over for it — the improvements as pairs
    project exactly onto the info lines -/
theorem every_info_line_has_its_board (fuel : Nat) (root : P) (s : SS P O) (hs : s.reports = #[]) :
    (infosOfB (outState (getBestMove g ord fuel root s)).reports).map Prod.snd =
      infosOf (outState (getBestMove g ord fuel root s)).reports :=
  getBestMove_paired g ord fuel root s hs

end Walleye
