/-
  C01 — generated moves are exactly the legal moves.

  Status: SOUNDNESS and COMPLETENESS are proved on the model at full strength —
  `generated_moves_are_exactly_the_legal_moves`: for every well-formed position, a move is carried by
  some successor of the full move generation if and only if it is legal under the specification's
  rules (`no_legal_move_missing` is the new direction: ordinary moves incl. every promotion piece,
  en passant, the four castlings).  `no_illegal_move_generated`: for every
  well-formed position (sentinel ring, no inner sentinel, king caches right, abstraction a legal
  position in the sense of the property), every successor of the full move generation carries a
  move that is LEGAL under the specification's rules (rules of movement of its piece, promotion
  flag exactly on the last rank, en passant only onto the target, castling only with right, rook,
  empty and unattacked squares — adjacent enemy king included —, own king not attacked afterwards).
  The pseudo-legal stage is an equivalence (`pseudo_targets_are_the_rules`, both directions).
  `exactly_the_legal_moves_along_chains`, `exactly_the_legal_moves_from_the_start_position`: the same
  at every position reachable by generated moves (either mode) from a well-formed position, in
  particular from the start position — legal positions are closed under legal moves.
  "No move appears twice" is proved as well (`no_move_appears_twice`, Proofs/NoDupGeo + NoDup): the
  target list of a piece is a sub-list of a fixed geometric list that is repetition free for each of
  the 64 origins (kernel computation), successors of one target differ in the promotion piece, of
  different targets/origins in the squares, and the SPEC classifies ordinary, en passant and castling
  moves differently.  `exactly_the_legal_moves_of_every_fen_position`: all of this for every legal
  position given as FEN text and everything reachable from it.  The tie to the Rust code is the
  correspondence with the SPEC oracle (exhaustive castling lattice, two-ply special chains,
  playouts, constructed positions; move multisets compared).  Also proved, for every position satisfying the chain invariant
  and every hasher:
    * the SPEC side: `legalMoves` is sound, complete and duplicate free for `legal` (by construction);
    * `gen_targets_not_sentinel`: every pseudo-legal target is an on-board square that is empty or
      holds an enemy piece (never the mover's own piece, never off the board);
    * `gen_no_own_king_in_check`: a successor is pushed only if the mover's king is NOT attacked
      in it, as computed by `is_check` on the updated board and king cache;
    * `castling_only_when_probes_clear`: a castling successor is generated only if the right is set,
      the squares between are empty, and `is_check_cords` is false for the king square, the transit
      square and the destination square — with the enemy king compared against the PROBED square
      (the defect fixed in b8b9690 is excluded by `king_probe_uses_probed_square`).
-/
import Walleye.Proofs.Caps
import Walleye.Spec.Rules
import Walleye.Proofs.StartWF
import Walleye.Proofs.Complete
import Walleye.Props.C02
import Walleye.Props.C05
import Walleye.Proofs.FenFaithful
import Walleye.Proofs.NoDup
namespace Walleye

theorem spec_legalMoves_sound_complete (P : Spec.Position) (m : Spec.Move) (hm : m ∈ Spec.allMoves) :
    m ∈ Spec.legalMoves P ↔ Spec.legal P m = true := Spec.mem_legalMoves_iff P m hm

theorem gen_targets_not_sentinel (piece : Piece) (row col : Nat) (b : Board) (mode : Mode) (hr : RingOK b) :
    ∀ pt ∈ getMoves piece row col b mode, OnBoard pt ∧ b.get pt.row pt.col ≠ .boundary :=
  fun pt hpt => ⟨getMoves_onBoard piece row col b mode hr pt hpt, getMoves_target piece row col b mode pt hpt⟩

/-- nothing is pushed for a target after which the mover's own king is attacked -/
theorem gen_no_own_king_in_check (h : Hasher) (piece : Piece) (p : Pos) (sq mov : Point)
    (hc : isCheck (st1 h piece p sq mov) piece.color = true) : succsForTarget h piece p sq mov = [] := by
  rw [succsForTarget_eq, if_pos hc]

/-- the king test of `is_check_cords` looks at the probed square, not at the defender's king cache -/
theorem king_probe_uses_probed_square (p : Pos) (sq : Point)
    (hadj : ((p.bk.row : Int) - sq.row).natAbs ≤ 1 ∧ ((p.bk.col : Int) - sq.col).natAbs ≤ 1) :
    isCheckCords p .white sq = true := by
  unfold isCheckCords
  simp only [Bool.or_eq_true, decide_eq_true_eq]
  right; exact hadj

theorem castling_only_when_probes_clear (p : Pos) (h : canCastle p .wks = true) :
    p.wks = true ∧ (p.board.get 9 7).isEmpty = true ∧ (p.board.get 9 8).isEmpty = true ∧
    isCheck p .white = false ∧ isCheckCords p .white ⟨9, 7⟩ = false ∧ isCheckCords p .white ⟨9, 8⟩ = false := by
  unfold canCastle at h
  simp only [Bool.and_eq_true, Bool.not_eq_true'] at h
  obtain ⟨⟨⟨⟨⟨a, b⟩, c⟩, d⟩, e⟩, f⟩ := h
  exact ⟨a, b, c, d, e, f⟩

/-- hence: no white king-side castling when the enemy king is next to f1 or g1 -/
theorem no_castling_next_to_enemy_king (p : Pos)
    (hadj : (((p.bk.row : Int) - 9).natAbs ≤ 1 ∧ ((p.bk.col : Int) - 7).natAbs ≤ 1) ∨
            (((p.bk.row : Int) - 9).natAbs ≤ 1 ∧ ((p.bk.col : Int) - 8).natAbs ≤ 1)) :
    canCastle p .wks = false := by
  cases hc : canCastle p .wks with
  | false => rfl
  | true =>
    obtain ⟨_, _, _, _, e, f⟩ := castling_only_when_probes_clear p hc
    cases hadj with
    | inl h7 => rw [king_probe_uses_probed_square p ⟨9, 7⟩ h7] at e; cases e
    | inr h8 => rw [king_probe_uses_probed_square p ⟨9, 8⟩ h8] at f; cases f

/-- **no illegal move appears**: every generated successor carries a legal move of the specification -/
theorem no_illegal_move_generated (h : Hasher) (p : Pos) (wf : WFp p) :
    ∀ q ∈ generateMoves h p .all, Spec.legal (abs p) (moveOf q) = true :=
  fun q hq => (generateMoves_sound h p wf q hq).1

/-- the pseudo-legal targets of every piece kind are exactly the specification's rules of movement -/
theorem pseudo_targets_are_the_rules (p : Pos) (hr : RingOK p.board) (hi : InnerOK p.board) (o : Spec.Sq) (ho : InB o)
    (pc : Piece) (hpc : p.board.get (toPt o).row (toPt o).col = .full pc) (mov : Point) :
    mov ∈ getMoves pc (toPt o).row (toPt o).col p.board .all ↔
      (OnBoard mov ∧ normalRule (abs p) o pc (specOf mov) = true) :=
  getMoves_spec p hr hi o ho pc hpc mov

/-- **no legal move is missing**: every legal move of the specification is carried by a successor -/
theorem no_legal_move_missing (h : Hasher) (p : Pos) (wf : WFp p) (m : Spec.Move)
    (hm : Spec.legal (abs p) m = true) : ∃ q ∈ generateMoves h p .all, moveOf q = m :=
  generateMoves_complete h p wf m hm

/-- **C01 on the model**: the moves the full move generation yields are exactly the legal moves -/
theorem generated_moves_are_exactly_the_legal_moves (h : Hasher) (p : Pos) (wf : WFp p) (m : Spec.Move) :
    (∃ q ∈ generateMoves h p .all, moveOf q = m) ↔ Spec.legal (abs p) m = true := by
  constructor
  · rintro ⟨q, hq, rfl⟩; exact (generateMoves_sound h p wf q hq).1
  · exact generateMoves_complete h p wf m

/-- **C01 along chains of any length** -/
theorem exactly_the_legal_moves_along_chains (h : Hasher) (p q : Pos) (wf : WFp p) (hinv : Inv h p)
    (hc : GenChain h p q) (m : Spec.Move) :
    (∃ s ∈ generateMoves h q .all, moveOf s = m) ↔ Spec.legal (abs q) m = true :=
  generated_moves_are_exactly_the_legal_moves h q (gen_chain_wf h p q wf hinv hc).1 m

/-- every position reachable from the start position by generated moves: the real constants -/
theorem exactly_the_legal_moves_from_the_start_position (q : Pos) (hc : GenChain Hasher.real startPosition q)
    (m : Spec.Move) :
    (∃ s ∈ generateMoves Hasher.real q .all, moveOf s = m) ↔ Spec.legal (abs q) m = true :=
  exactly_the_legal_moves_along_chains Hasher.real startPosition q start_wf start_inv hc m

/-- **no move appears twice**: the successors carry pairwise different (from, to, promotion piece),
    at every position reachable by generated moves from a well-formed one -/
theorem no_move_appears_twice (h : Hasher) (p q : Pos) (wf : WFp p) (hinv : Inv h p) (hc : GenChain h p q) :
    ((generateMoves h q .all).map moveOf).Nodup :=
  generateMoves_nodup h q (gen_chain_wf h p q wf hinv hc).1 .all

/-- **C01 for every legal position given as FEN**, and for every position reached from it by generated
    moves: the position loaded from the canonical FEN text of a legal SPEC position `P` (any counters)
    abstracts to `P`, and the generator yields exactly the legal moves there and along every chain -/
theorem exactly_the_legal_moves_of_every_fen_position (h : Hasher) (P : Spec.Position) (hsz : P.cells.size = 64)
    (hlegal : Spec.LegalPosition P = true) (half full : List Char) (hh : CounterOK half) (hf : CounterOK full) :
    ∃ p, fromFen h (canonText P half full) = .ok p ∧ abs p = P ∧
      ∀ q, GenChain h p q →
        ((generateMoves h q .all).map moveOf).Nodup ∧
        ∀ m : Spec.Move, ((∃ s ∈ generateMoves h q .all, moveOf s = m) ↔ Spec.legal (abs q) m = true) := by
  have hlp := LP_of P hlegal
  have hep : ∀ e, P.ep = some e → InB e := by
    intro e he
    obtain ⟨h1, h2, _⟩ := hlp.ep e he
    refine ⟨h1, ?_⟩
    rw [h2]; cases P.side.opp <;> decide
  obtain ⟨p, hload, habs, hwf⟩ := fromFen_canonical h P hsz hep half full hh hf
  obtain ⟨wf, hinv⟩ := hwf hlp
  exact ⟨p, hload, habs, fun q hc => ⟨no_move_appears_twice h p q wf hinv hc,
    fun m => exactly_the_legal_moves_along_chains h p q wf hinv hc m⟩⟩

/-- the premises are satisfiable: the start position is well formed -/
theorem start_is_well_formed : WFp startPosition := start_wf

end Walleye
