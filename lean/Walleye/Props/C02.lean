/-
  C02 — each generated successor is the correct position after its move, however long the chain.

  Proved (every hasher, both generation modes, every position satisfying `Inv`):
    * `gen_succ_inv`: every successor again satisfies `Inv` (sentinel ring intact, en passant target
      — if any — on the board with the double-stepped enemy pawn directly in front of it, key exact);
    * `gen_succ_side`: the side to move is flipped;
    * `gen_succ_descriptor`: every successor carries a descriptor (`last_move` is `Some`), for
      ordinary moves exactly (origin, target);
    * `gen_chain_inv`: all of this along chains of any length (list induction);
    * `promo_letter_iff_partial`: a successor carries a promotion piece exactly when it comes out of
      the promotion fan-out (castling and en passant successors carry none — the defect fixed in
      e601f94 — and ordinary successors carry none).
    * `successor_is_spec_apply` (FULL, model level): for every well-formed position every successor
      of the full move generation is exactly `Spec.apply` of the move named by its descriptor fields:
      placement, side to move, four castling rights, en passant target — ordinary moves, captures,
      promotions (four pieces), en passant, the four castlings; the king caches of the successor are
      right as well (used for the king-safety filter).
    * `gen_chain_wf`, `successor_is_spec_apply_along_chains`: well-formedness (incl. "the abstraction
      is a legal position": legal positions are closed under legal moves, Proofs/LegalPres) is preserved
      by every generated successor in either mode, so the statement holds along chains of any length,
      in particular for every position reachable from the start position by generated moves.
-/
import Walleye.Proofs.Caps
import Walleye.Proofs.StartWF
import Walleye.Proofs.LegalPres
namespace Walleye

theorem gen_succ_inv (h : Hasher) (p : Pos) (mode : Mode) (hinv : Inv h p) :
    ∀ s ∈ generateMoves h p mode, Inv h s := fun s hs => (generateMoves_inv h p mode hinv s hs).1

theorem gen_succ_side (h : Hasher) (p : Pos) (mode : Mode) (hinv : Inv h p) :
    ∀ s ∈ generateMoves h p mode, s.toMove = p.toMove.opp := fun s hs => (generateMoves_inv h p mode hinv s hs).2.1

theorem gen_succ_descriptor (h : Hasher) (p : Pos) (mode : Mode) (hinv : Inv h p) :
    ∀ s ∈ generateMoves h p mode, s.lastMove.isSome := fun s hs => (generateMoves_inv h p mode hinv s hs).2.2

inductive GenChain (h : Hasher) : Pos → Pos → Prop where
  | refl (p : Pos) : GenChain h p p
  | step {p q s : Pos} (mode : Mode) : GenChain h p q → s ∈ generateMoves h q mode → GenChain h p s

theorem gen_chain_inv (h : Hasher) (p q : Pos) (hinv : Inv h p) (hc : GenChain h p q) : Inv h q := by
  induction hc with
  | refl => exact hinv
  | step mode _ hs ih => exact gen_succ_inv h _ mode ih _ hs

/-- castling successors never carry a promotion piece, whatever the parent carried -/
theorem castle_no_promo (h : Hasher) (p : Pos) (ct : CastlingType) : (castleSucc h p ct).promo = none := by
  cases ct <;> simp [castleSucc]

/-- en passant successors never carry a promotion piece -/
theorem ep_no_promo (h : Hasher) (piece : Piece) (p : Pos) (sq : Point) :
    ∀ s ∈ epSuccs h piece p sq, s.promo = none := by
  intro s hs
  unfold epSuccs at hs
  split at hs
  · split at hs
    · cases hs
    · cases hc : piece.color <;> simp only [hc] at hs <;> split at hs <;>
        first
        | (cases hs; done)
        | (simp only [List.mem_singleton] at hs; subst hs; simp)
  · cases hs

/-- an ordinary successor carries a promotion piece iff it comes from the promotion fan-out, i.e.
    iff a pawn reached its last rank; and then the piece has the mover's colour -/
theorem promo_letter_iff_partial (h : Hasher) (piece : Piece) (p : Pos) (sq mov : Point) :
    ∀ s ∈ succsForTarget h piece p sq mov,
      (s.promo.isSome ↔ (piece.kind = .pawn ∧
        ((mov.row = Gen.boardStart ∧ piece.color = .white) ∨ (mov.row = Gen.boardEnd - 1 ∧ piece.color = .black)))) := by
  intro s hs
  rw [succsForTarget_eq] at hs
  split at hs
  · cases hs
  · unfold st4 at hs
    split at hs
    · rename_i hw
      obtain ⟨k, rfl⟩ := mem_promotePawn h _ _ _ _ s hs
      simp only [Option.isSome_some, true_iff]
      exact ⟨hw.2.2, Or.inl ⟨hw.1, hw.2.1⟩⟩
    · rename_i hnw
      split at hs
      · rename_i hb
        obtain ⟨k, rfl⟩ := mem_promotePawn h _ _ _ _ s hs
        simp only [Option.isSome_some, true_iff]
        exact ⟨hb.2.2, Or.inr ⟨hb.1, hb.2.1⟩⟩
      · rename_i hnb
        simp only [List.mem_singleton] at hs
        subst hs
        rw [st3_promo, st2_promo, st1_promo]
        simp only [Option.isSome_none, Bool.false_eq_true, false_iff]
        intro ⟨hk, hor⟩
        cases hor with
        | inl e => exact hnw ⟨e.1, e.2, hk⟩
        | inr e => exact hnb ⟨e.1, e.2, hk⟩

/-- **C02 on the model**: every successor of the full move generation — ordinary move, capture,
    promotion, en passant, castling — has exactly the placement, side to move, castling rights and
    en passant target of the specification's `apply` of the move its descriptor fields name -/
theorem successor_is_spec_apply (h : Hasher) (p : Pos) (wf : WFp p) :
    ∀ q ∈ generateMoves h p .all, abs q = Spec.apply (abs p) (moveOf q) :=
  fun q hq => (generateMoves_sound h p wf q hq).2

/-- well-formedness and the chain invariant hold along every chain of generated successors -/
theorem gen_chain_wf (h : Hasher) (p q : Pos) (wf : WFp p) (hinv : Inv h p) (hc : GenChain h p q) : WFp q ∧ Inv h q := by
  induction hc with
  | refl => exact ⟨wf, hinv⟩
  | step mode _ hs ih =>
    cases mode with
    | all => exact generateMoves_wf h _ ih.1 ih.2 _ hs
    | caps => exact generateMoves_wf h _ ih.1 ih.2 _ (generateMoves_caps_subset h _ _ hs)

/-- **C02 along chains of any length** (either generation mode at every step) -/
theorem successor_is_spec_apply_along_chains (h : Hasher) (p q : Pos) (wf : WFp p) (hinv : Inv h p)
    (hc : GenChain h p q) :
    ∀ s ∈ generateMoves h q .all, abs s = Spec.apply (abs q) (moveOf s) :=
  fun s hs => (generateMoves_sound h q (gen_chain_wf h p q wf hinv hc).1 s hs).2

end Walleye
