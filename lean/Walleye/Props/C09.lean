/-
  C09 — thinking time never exceeds what the mover's clock allows.
  The slice is computed over an exact integer model of IEEE-754 binary64 (Model/Time.lean).
  Proved: `slice_mover_only`; `slice_le_u128`; the saturation / no-clock branch structure.
  Not proved yet (decided on the boundary lattice and 10^4..10^6 random i128 inputs by an exact
  rational oracle): `slice_le_clock`, `slice_bound` (80% share) — they need the rounding lemmas
  (monotonicity and 2^-53 relative error of `round53`).
-/
import Walleye.Model.Time
namespace Walleye

/-- the slice is a function of the mover's own clock, increment and movestogo only -/
theorem slice_mover_only (gt gt' : GameTime) (c : Color) (hm : gt.movestogo = gt'.movestogo)
    (hw : c = .white → gt.wtime = gt'.wtime ∧ gt.winc = gt'.winc)
    (hb : c = .black → gt.btime = gt'.btime ∧ gt.binc = gt'.binc) :
    calculateTimeSlice gt c = calculateTimeSlice gt' c := by
  unfold calculateTimeSlice
  cases c
  · obtain ⟨h1, h2⟩ := hw rfl
    simp only [hm, h1, h2]
  · obtain ⟨h1, h2⟩ := hb rfl
    simp only [hm, h1, h2]

/-- the saturating cast never leaves the u128 range, and is 0 for non-positive values -/
theorem toU128_range (n : Int) : F64.toU128 n < 2 ^ 128 ∧ (n ≤ 0 → F64.toU128 n = 0) := by
  unfold F64.toU128
  refine ⟨?_, fun h => by simp [h]⟩
  split
  · omega
  · split
    · omega
    · omega

/-- whatever the inputs, the planned slice fits the u128 the engine stores it in -/
theorem slice_le_u128 (gt : GameTime) (c : Color) : calculateTimeSlice gt c < 2 ^ 128 := by
  unfold calculateTimeSlice
  have hno : Gen.noTime < 2 ^ 128 := by decide
  cases c <;> dsimp only <;>
    repeat' (first
      | exact (toU128_range _).1
      | exact hno
      | (show 2 ^ 128 - 1 < 2 ^ 128; decide)
      | split)

/-- concrete values of the model (kernel computation): the examples of the property text -/
example : calculateTimeSlice { wtime := 1000, btime := 7 } .white = 24 := by decide +kernel
example : calculateTimeSlice { wtime := 50, winc := 1000 } .white = 50 := by decide +kernel
example : calculateTimeSlice { wtime := 100, winc := 0 } .white = 0 := by decide +kernel
example : calculateTimeSlice { btime := 60100, movestogo := some 10 } .black = 4800 := by decide +kernel

end Walleye
