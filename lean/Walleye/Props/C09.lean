/-
  C09 — thinking time never exceeds what the mover's clock allows.
  The slice is computed over an exact integer model of IEEE-754 binary64 (Model/Time.lean).
  Proved: `slice_mover_only`; `slice_le_u128`; the saturation / no-clock branch structure; and, over ℚ
  with the rounding theory of Proofs/Float.lean (`round53` has relative error ≤ 2^-53, keeps the sign,
  is exact on integers below 2^53; `f64::round` is at most ½ above its argument), for ALL integer clocks
  and increments (negative, zero, tiny, huge — no size bound) and every moves-to-go from 1 to 2^32-1 or
  absent (then 30):
    * `slice_never_exceeds_clock`: slice ≤ max(clock, 0) of the side to move;
    * `slice_at_most_80_percent_share`: clock > 100 ⇒ slice ≤ 4/5 · (clock − 100) / mtg · (1 + 2^-50) + ½
      (binary64 rounding and rounding to whole milliseconds);
    * `slice_zero_without_clock_and_increment`: clock ≤ 100 and increment ≤ 0 ⇒ slice = 0.
  The constants 100 ms, 30 moves, 0.8 come from the source through the translator (Generated/Consts);
  the statements spell the numbers out, so a changed constant breaks the proofs.
  Only these proof files import Mathlib modules (ℚ as an ordered field, linarith/nlinarith/positivity/
  norm_num/field_simp); the model is core-only.
-/
import Walleye.Model.Time
import Walleye.Proofs.SliceBound
namespace Walleye

/-- the slice is a function of the mover's own clock, increment and movestogo only -/
theorem slice_mover_only (gt gt' : GameTime) (c : Color) (hm : gt.movestogo = gt'.movestogo)
    (hw : c = .white → gt.wtime = gt'.wtime ∧ gt.winc = gt'.winc)
    (hb : c = .black → gt.btime = gt'.btime ∧ gt.binc = gt'.binc) :
    calculateTimeSlice gt c = calculateTimeSlice gt' c := by
  have hmtg : gt.mtg = gt'.mtg := by unfold GameTime.mtg; rw [hm]
  unfold calculateTimeSlice
  cases c
  · obtain ⟨h1, h2⟩ := hw rfl
    simp only [hmtg, h1, h2]
  · obtain ⟨h1, h2⟩ := hb rfl
    simp only [hmtg, h1, h2]

/-- the saturating cast never leaves the u128 range, and is 0 for non-positive values -/
theorem toU128_range (n : Int) : F64.toU128 n < 2 ^ 128 ∧ (n ≤ 0 → F64.toU128 n = 0) := by
  unfold F64.toU128
  refine ⟨?_, fun h => by simp [h]⟩
  split
  · omega
  · split
    · omega
    · omega

/-- whatever the inputs, the planned slice fits the u128 the engine stores it in -/
theorem slice_le_u128 (gt : GameTime) (c : Color) : calculateTimeSlice gt c < 2 ^ 128 := by
  unfold calculateTimeSlice
  have hno : Gen.noTime < 2 ^ 128 := by decide
  cases c <;> dsimp only <;>
    repeat' (first
      | exact (toU128_range _).1
      | exact hno
      | (show 2 ^ 128 - 1 < 2 ^ 128; decide)
      | split)

/-- concrete values of the model (kernel computation): the examples of the property text -/
example : calculateTimeSlice { wtime := 1000, btime := 7 } .white = 24 := by decide +kernel
example : calculateTimeSlice { wtime := 50, winc := 1000 } .white = 50 := by decide +kernel
example : calculateTimeSlice { wtime := 100, winc := 0 } .white = 0 := by decide +kernel
example : calculateTimeSlice { btime := 60100, movestogo := some 10 } .black = 4800 := by decide +kernel

/-- moves to go as the code reads them: the number told if it is positive, else 30
    (`movestogo 0` counts as not told — fix e30d5a0) -/
def movesToGo (gt : GameTime) : Nat := gt.mtg

theorem movesToGo_pos (gt : GameTime) : 1 ≤ movesToGo gt := by
  unfold movesToGo GameTime.mtg
  cases gt.movestogo with
  | none => decide
  | some m =>
    simp only
    split
    · decide
    · omega

/-- **C09**: the planned time never exceeds the mover's remaining clock — every clock and increment,
    every `movestogo` a u32 can hold (0 included), or none -/
theorem slice_never_exceeds_clock (gt : GameTime) (c : Color) (hm32 : movesToGo gt < 2 ^ 32) :
    ((calculateTimeSlice gt c : Nat) : Int) ≤ max (moverClock gt c) 0 := by
  rw [calculateTimeSlice_eq]
  exact slice_le_clock _ _ _ (movesToGo_pos gt) hm32

/-- **C09**: with more than the 100 ms margin left the plan is at most 80 % of (clock − margin) divided
    by the moves to go (30 when not told), up to binary64 rounding and whole-millisecond rounding -/
theorem slice_at_most_80_percent_share (gt : GameTime) (c : Color) (hc : 100 < moverClock gt c)
    (hm32 : movesToGo gt < 2 ^ 32) :
    ((calculateTimeSlice gt c : Nat) : ℚ) ≤
      4 / 5 * ((moverClock gt c : ℚ) - 100) / (movesToGo gt : ℚ) * (1 + 1 / 2 ^ 50) + 1 / 2 := by
  rw [calculateTimeSlice_eq]
  exact slice_share _ _ _ (by omega) (movesToGo_pos gt) hm32

/-- every `movestogo` value the parser can produce (a u32) satisfies the size premise -/
theorem movesToGo_u32 (gt : GameTime) (h : ∀ m, gt.movestogo = some m → m < 2 ^ 32) : movesToGo gt < 2 ^ 32 := by
  unfold movesToGo GameTime.mtg
  cases hm : gt.movestogo with
  | none => decide
  | some m =>
    simp only
    split
    · decide
    · exact h m hm

/-- **C09**: no usable clock and no increment ⇒ zero -/
theorem slice_zero_without_clock_and_increment (gt : GameTime) (c : Color) (hc : moverClock gt c ≤ 100)
    (hi : moverInc gt c ≤ 0) : calculateTimeSlice gt c = 0 := by
  rw [calculateTimeSlice_eq]
  exact slice_zero _ _ _ hc hi

/-- the premises are satisfiable, and huge values are covered: an i128-sized clock -/
example : movesToGo { wtime := 2 ^ 126 } < 2 ^ 32 ∧ (100 : Int) < moverClock { wtime := 2 ^ 126 } .white := by decide

/-- `movestogo 0` (the defect repaired in e30d5a0: it used to plan 2^128 − 1 ms) is planned like no
    `movestogo` at all -/
example : calculateTimeSlice { wtime := 1000, movestogo := some 0 } .white = 24 := by decide +kernel

end Walleye
