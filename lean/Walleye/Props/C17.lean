/-
  C17 — unknown input is ignored and the process lifecycle is clean (logic of the dispatch loop;
  promptness of exit and the real process are observed black-box).
-/
import Walleye.Model.Uci
namespace Walleye
open Str

variable (h : Hasher) (search : Pos → DrawTable → Nat → Option Pos)

/-- a line whose first token is not a known command changes nothing and prints nothing -/
theorem unknown_ignored (σ : Sess) (raw : List Char)
    (hu : String.ofList ((splitOn ' ' (cleanInput raw)).headD []) ∉ knownCommands) :
    step h search σ (some raw) = .cont σ [] := by
  unfold step
  simp only [knownCommands, List.mem_cons, List.not_mem_nil, or_false, not_or] at hu
  obtain ⟨h1, h2, h3, h4, h5, h6⟩ := hu
  simp only [h1, h2, h3, h4, h5, h6, if_false]

/-- `isready` is always answered with `readyok`, and the state is untouched -/
theorem isready_answered (σ : Sess) (raw : List Char)
    (hc : String.ofList ((splitOn ' ' (cleanInput raw)).headD []) = "isready") :
    step h search σ (some raw) = .cont σ ["readyok"] := by
  unfold step; simp only [hc, if_true]

theorem quit_terminates (σ : Sess) (raw : List Char)
    (hc : String.ofList ((splitOn ' ' (cleanInput raw)).headD []) = "quit") :
    step h search σ (some raw) = .exit 1 := by
  unfold step; simp +decide only [hc, if_true, if_false]

/-- end of input ends the process (the defect fixed in e69300b: it used to spin) -/
theorem eof_terminates (σ : Sess) : step h search σ none = .exit 0 := rfl

/-- `ucinewgame` and `setoption` keep the state -/
theorem ignored_commands_keep_state (σ : Sess) (raw : List Char)
    (hc : String.ofList ((splitOn ' ' (cleanInput raw)).headD []) = "ucinewgame" ∨
          String.ofList ((splitOn ' ' (cleanInput raw)).headD []) = "setoption") :
    step h search σ (some raw) = .cont σ [] := by
  unfold step
  cases hc with
  | inl e => simp +decide only [e, if_true, if_false]
  | inr e => simp +decide only [e, if_true, if_false]

/-! ### `clean_input`: whatever whitespace comes in, only single blanks come out -/

theorem trimStart_sublist (s : List Char) : ∀ c ∈ trimStart s, c ∈ s := by
  induction s with
  | nil => intro c hc; simp [trimStart] at hc
  | cons x xs ih =>
    intro c hc
    unfold trimStart at hc
    split at hc
    · exact List.mem_cons_of_mem _ (ih c hc)
    · exact hc

theorem trim_sublist (s : List Char) : ∀ c ∈ trim s, c ∈ s := by
  intro c hc
  unfold trim at hc
  have h1 := List.mem_reverse.mp hc
  have h2 := trimStart_sublist _ c h1
  have h3 := List.mem_reverse.mp h2
  exact trimStart_sublist _ c h3

/-- every whitespace character of the cleaned line is a plain blank: tabs, CR, NBSP … never survive
    (so that `split(' ')` in the dispatcher sees every token) -/
theorem clean_only_blanks (buf : List Char) : ∀ c ∈ cleanInput buf, isWs c = true → c = ' ' := by
  intro c hc hw
  unfold cleanInput at hc
  have hmem := trim_sublist _ c hc
  have hm2 := List.mem_reverse.mp hmem
  -- invariant of the fold: every whitespace character pushed so far is a blank
  have inv : ∀ (l : List Char) (acc : List Char × Char), (∀ x ∈ acc.1, isWs x = true → x = ' ') →
      ∀ x ∈ (l.foldl (fun (acc : List Char × Char) (c : Char) =>
        if !isWs c then (c :: acc.1, c)
        else if !isWs acc.2 then (' ' :: acc.1, c)
        else (acc.1, c)) acc).1, isWs x = true → x = ' ' := by
    intro l
    induction l with
    | nil => intro acc ha; exact ha
    | cons y ys ih =>
      intro acc ha
      simp only [List.foldl_cons]
      apply ih
      split
      · rename_i hy
        intro x hx hwx
        cases List.mem_cons.mp hx with
        | inl e => subst e; simp [hwx] at hy
        | inr e => exact ha x e hwx
      · split
        · intro x hx hwx
          cases List.mem_cons.mp hx with
          | inl e => exact e
          | inr e => exact ha x e hwx
        · exact ha
  exact inv buf ([], ' ') (by simp) c hm2 hw

/-- unknown tokens inside `go` are skipped: a token that is not one of the five keywords in front
    of the remaining tokens does not change the parse -/
theorem go_unknown_token_skipped (fuel : Nat) (tok : List Char) (nxt : List Char) (rest : List (List Char)) (gt : GameTime)
    (h1 : tok ≠ "wtime".toList) (h2 : tok ≠ "btime".toList) (h3 : tok ≠ "binc".toList)
    (h4 : tok ≠ "winc".toList) (h5 : tok ≠ "movestogo".toList) :
    parseGoAux (fuel + 1) (tok :: nxt :: rest) gt = parseGoAux fuel (nxt :: rest) gt := by
  simp only [parseGoAux, h1, h2, h3, h4, h5, if_false]


/-! ### standard input as a byte stream: reading lines, end of input -/

theorem readLine_append (inp : List Char) : (readLine inp).1 ++ (readLine inp).2 = inp := by
  induction inp with
  | nil => rfl
  | cons c rest ih =>
    unfold readLine
    by_cases hc : c = '\n'
    · rw [if_pos hc]; rfl
    · rw [if_neg hc]; simp only [List.cons_append, ih]

/-- a line is read whenever a single byte is left — complete, blank, whitespace only or unterminated -/
theorem readLine_nonempty (inp : List Char) (h : inp ≠ []) : (readLine inp).1 ≠ [] := by
  cases inp with
  | nil => exact absurd rfl h
  | cons c rest =>
    unfold readLine
    by_cases hc : c = '\n'
    · rw [if_pos hc]; simp
    · rw [if_neg hc]; simp

/-- nothing can be read exactly when the stream is exhausted -/
theorem readFromGui_none_iff (inp : List Char) : readFromGui inp = none ↔ inp = [] := by
  unfold readFromGui
  constructor
  · intro hn
    cases inp with
    | nil => rfl
    | cons c rest =>
      exfalso
      have := readLine_nonempty (c :: rest) (by simp)
      cases hl : (readLine (c :: rest)).1 with
      | nil => exact this hl
      | cons x xs => simp [hl] at hn
  · intro e; subst e; rfl

/-- every read consumes at least one byte -/
theorem readFromGui_progress (inp line rest : List Char) (h : readFromGui inp = some (line, rest)) :
    rest.length < inp.length := by
  unfold readFromGui at h
  simp only at h
  by_cases hne : (readLine inp).1.isEmpty = true
  · rw [if_pos hne] at h; cases h
  · rw [if_neg hne] at h
    injection h with h
    have ha := readLine_append inp
    rw [h] at ha
    simp only at ha
    have hl : line ≠ [] := by
      intro e
      rw [h] at hne
      simp [e] at hne
    rw [← ha, List.length_append]
    have : 0 < line.length := List.length_pos_iff.mpr hl
    omega

/-- **closing standard input ends the process** — whatever was sent before and however the last line
    looks (complete, blank, whitespace only, unterminated): on EVERY byte stream the command loop comes
    to an end by itself (exit, or a panic / hang of one command); it never needs more steps than there
    are bytes, and an exhausted stream means `exit 0` -/
theorem stream_never_out_of_fuel (σ : Sess) (inp : List Char) :
    ∀ fuel, inp.length < fuel → (runStream h search fuel σ inp).2 ≠ .outOfFuel := by
  intro fuel
  induction fuel generalizing σ inp with
  | zero => intro hlt; omega
  | succ n ih =>
    intro hlt
    unfold runStream
    cases hr : readFromGui inp with
    | none => simp
    | some lr =>
      obtain ⟨line, rest⟩ := lr
      have hp := readFromGui_progress inp line rest hr
      simp only
      cases hs : step h search σ (some line) with
      | cont σ' out => exact ih σ' rest (by omega)
      | exit c => simp
      | panic => simp
      | hang => simp

theorem exhausted_stream_exits (σ : Sess) (fuel : Nat) : runStream h search (fuel + 1) σ [] = ([], .exit 0) := rfl

/-- and if no command panics or hangs (and none is `quit`), the process ends with `exit 0` exactly
    when the stream is used up: unknown lines, blank lines and odd whitespace on the way do not stop it -/
theorem stream_of_harmless_lines_exits_zero (σ : Sess) (inp : List Char)
    (hharmless : ∀ σ' line, ∃ σ'' out, step h search σ' (some line) = .cont σ'' out) :
    ∀ fuel, inp.length < fuel → (runStream h search fuel σ inp).2 = .exit 0 := by
  intro fuel
  induction fuel generalizing σ inp with
  | zero => intro hlt; omega
  | succ n ih =>
    intro hlt
    unfold runStream
    cases hr : readFromGui inp with
    | none => rfl
    | some lr =>
      obtain ⟨line, rest⟩ := lr
      have hp := readFromGui_progress inp line rest hr
      obtain ⟨σ'', out, hs⟩ := hharmless σ line
      simp only [hs]
      exact ih σ'' rest (by omega)


/-! ### the whole `go` line: known pairs and unknown tokens in any order -/

/-- one item of a `go` line: a clock / increment keyword with its value token, `movestogo` with its
    value token, or a single token the engine does not know -/
inductive GoItem where
  | wtime (tok : List Char) (v : Int)
  | btime (tok : List Char) (v : Int)
  | winc (tok : List Char) (v : Int)
  | binc (tok : List Char) (v : Int)
  | movestogo (tok : List Char) (n : Nat)
  | junk (tok : List Char)

def GoItem.tokens : GoItem → List (List Char)
  | .wtime t _ => ["wtime".toList, t]
  | .btime t _ => ["btime".toList, t]
  | .winc t _ => ["winc".toList, t]
  | .binc t _ => ["binc".toList, t]
  | .movestogo t _ => ["movestogo".toList, t]
  | .junk t => [t]

/-- the value token really is the text of the value; an unknown token is none of the five keywords -/
def GoItem.OK : GoItem → Prop
  | .wtime t v => parseI128 t = some v
  | .btime t v => parseI128 t = some v
  | .winc t v => parseI128 t = some v
  | .binc t v => parseI128 t = some v
  | .movestogo t n => parseUnsigned 32 t = some n
  | .junk t => t ≠ "wtime".toList ∧ t ≠ "btime".toList ∧ t ≠ "binc".toList ∧ t ≠ "winc".toList ∧ t ≠ "movestogo".toList

/-- what the line means: every keyword sets its field, later occurrences override earlier ones,
    unknown tokens mean nothing -/
def GoItem.apply (gt : GameTime) : GoItem → GameTime
  | .wtime _ v => { gt with wtime := v }
  | .btime _ v => { gt with btime := v }
  | .winc _ v => { gt with winc := v }
  | .binc _ v => { gt with binc := v }
  | .movestogo _ n => { gt with movestogo := some n }
  | .junk _ => gt

theorem parseGoAux_items : ∀ (items : List GoItem) (gt : GameTime) (fuel : Nat),
    (∀ it ∈ items, it.OK) → (items.flatMap GoItem.tokens).length < fuel →
    parseGoAux fuel (items.flatMap GoItem.tokens) gt = some (items.foldl GoItem.apply gt) := by
  intro items
  induction items with
  | nil =>
    intro gt fuel _ hf
    cases fuel with
    | zero => simp at hf
    | succ n => rfl
  | cons it rest ih =>
    intro gt fuel hok hf
    have hit := hok it (by simp)
    have hrest : ∀ x ∈ rest, x.OK := fun x hx => hok x (by simp [hx])
    simp only [List.flatMap_cons, List.length_append] at hf
    cases fuel with
    | zero => omega
    | succ n =>
      have hpair : ∀ (key val : List Char) (tl : List (List Char)), (key :: val :: tl).length = tl.length + 2 := by
        intro _ _ _; simp
      cases it with
      | wtime t v =>
        simp only [GoItem.tokens, List.length_cons, List.length_nil] at hf
        simp only [List.flatMap_cons, GoItem.tokens, List.cons_append, List.nil_append, List.foldl_cons, GoItem.apply]
        unfold parseGoAux
        simp only [if_true]
        rw [show parseI128 t = some v from hit]
        simp only [Option.bind_some]
        exact ih _ n hrest (by omega)
      | btime t v =>
        simp only [GoItem.tokens, List.length_cons, List.length_nil] at hf
        simp only [List.flatMap_cons, GoItem.tokens, List.cons_append, List.nil_append, List.foldl_cons, GoItem.apply]
        unfold parseGoAux
        have e1 : ("btime".toList = "wtime".toList) = False := by decide
        simp only [e1, if_false, if_true]
        rw [show parseI128 t = some v from hit]
        simp only [Option.bind_some]
        exact ih _ n hrest (by omega)
      | winc t v =>
        simp only [GoItem.tokens, List.length_cons, List.length_nil] at hf
        simp only [List.flatMap_cons, GoItem.tokens, List.cons_append, List.nil_append, List.foldl_cons, GoItem.apply]
        unfold parseGoAux
        have e1 : ("winc".toList = "wtime".toList) = False := by decide
        have e2 : ("winc".toList = "btime".toList) = False := by decide
        have e3 : ("winc".toList = "binc".toList) = False := by decide
        simp only [e1, e2, e3, if_false, if_true]
        rw [show parseI128 t = some v from hit]
        simp only [Option.bind_some]
        exact ih _ n hrest (by omega)
      | binc t v =>
        simp only [GoItem.tokens, List.length_cons, List.length_nil] at hf
        simp only [List.flatMap_cons, GoItem.tokens, List.cons_append, List.nil_append, List.foldl_cons, GoItem.apply]
        unfold parseGoAux
        have e1 : ("binc".toList = "wtime".toList) = False := by decide
        have e2 : ("binc".toList = "btime".toList) = False := by decide
        simp only [e1, e2, if_false, if_true]
        rw [show parseI128 t = some v from hit]
        simp only [Option.bind_some]
        exact ih _ n hrest (by omega)
      | movestogo t m =>
        simp only [GoItem.tokens, List.length_cons, List.length_nil] at hf
        simp only [List.flatMap_cons, GoItem.tokens, List.cons_append, List.nil_append, List.foldl_cons, GoItem.apply]
        unfold parseGoAux
        have e1 : ("movestogo".toList = "wtime".toList) = False := by decide
        have e2 : ("movestogo".toList = "btime".toList) = False := by decide
        have e3 : ("movestogo".toList = "binc".toList) = False := by decide
        have e4 : ("movestogo".toList = "winc".toList) = False := by decide
        simp only [e1, e2, e3, e4, if_false, if_true]
        rw [show parseUnsigned 32 t = some m from hit]
        simp only [Option.bind_some]
        exact ih _ n hrest (by omega)
      | junk t =>
        obtain ⟨h1, h2, h3, h4, h5⟩ := hit
        simp only [GoItem.tokens, List.length_cons, List.length_nil] at hf
        simp only [List.flatMap_cons, GoItem.tokens, List.cons_append, List.nil_append, List.foldl_cons, GoItem.apply]
        -- an unknown token is skipped alone; if it is the very last token the loop ends
        cases hr : rest.flatMap GoItem.tokens with
        | nil =>
          have hfold : rest.foldl GoItem.apply gt = gt := by
            cases rest with
            | nil => rfl
            | cons r rs =>
              exfalso
              simp only [List.flatMap_cons] at hr
              cases r <;> simp [GoItem.tokens] at hr
          rw [hfold]
          rfl
        | cons nxt tl =>
          rw [go_unknown_token_skipped n t nxt tl gt h1 h2 h3 h4 h5, ← hr]
          exact ih gt n hrest (by rw [hr] at hf ⊢; simp only [List.length_cons] at hf ⊢; omega)

/-- **the `go` line**: keywords with their values and unknown tokens in ANY order and number — the
    parse is the fold of the known pairs (a later occurrence overrides an earlier one), unknown tokens
    are skipped wherever they stand, also between pairs and at the end -/
theorem go_line_is_parsed_as_its_known_pairs (items : List GoItem) (hok : ∀ it ∈ items, it.OK) :
    parseGoCommand ("go".toList :: items.flatMap GoItem.tokens) = some (items.foldl GoItem.apply {}) := by
  have hgo : GoItem.OK (.junk "go".toList) := by
    unfold GoItem.OK
    refine ⟨by decide, by decide, by decide, by decide, by decide⟩
  have := parseGoAux_items (.junk "go".toList :: items) {} (("go".toList :: items.flatMap GoItem.tokens).length + 1)
    (by intro it hit; rcases List.mem_cons.mp hit with rfl | h; exact hgo; exact hok it h)
    (by simp [GoItem.tokens])
  simpa [parseGoCommand, GoItem.tokens, GoItem.apply] using this


/-- non-vacuity: `go foo wtime 5 bar movestogo 7 wtime 9 baz` — unknown tokens anywhere, `wtime` twice -/
example : parseGoCommand ("go".toList :: ([GoItem.junk "foo".toList, .wtime "5".toList 5, .junk "bar".toList,
      .movestogo "7".toList 7, .wtime "9".toList 9, .junk "baz".toList].flatMap GoItem.tokens)) =
    some { wtime := 9, movestogo := some 7 } := by decide


/-! ### the byte-stream process and the line-by-line machine are the same thing -/

/-- the lines `read_from_gui` delivers from a byte stream, in order (the last one may be unterminated) -/
def linesOf : Nat → List Char → List (List Char)
  | 0, _ => []
  | fuel + 1, inp =>
    match readFromGui inp with
    | none => []
    | some (line, rest) => line :: linesOf fuel rest

/-- run a list of lines through `step`, concatenating the outputs; stops at the first exit / panic / hang -/
def runEvents : Sess → List (List Char) → List String × Option StreamEnd
  | _, [] => ([], none)
  | σ, raw :: rest =>
    match step h search σ (some raw) with
    | .cont σ' out => let r := runEvents σ' rest; (out ++ r.1, r.2)
    | .exit c => ([], some (.exit c))
    | .panic => ([], some .panic)
    | .hang => ([], some .hang)

/-- **the process on a byte stream = the dispatcher on the lines of that stream, then end of input**:
    outputs are the same, and the process ends with whatever stopped the dispatcher, or with `exit 0`
    when every line has been served -/
theorem runStream_eq_runEvents (σ : Sess) (inp : List Char) :
    ∀ fuel, inp.length < fuel →
      runStream h search fuel σ inp =
        ((runEvents h search σ (linesOf fuel inp)).1,
         ((runEvents h search σ (linesOf fuel inp)).2).getD (.exit 0)) := by
  intro fuel
  induction fuel generalizing σ inp with
  | zero => intro hlt; omega
  | succ n ih =>
    intro hlt
    unfold runStream linesOf
    cases hr : readFromGui inp with
    | none => simp [runEvents]
    | some lr =>
      obtain ⟨line, rest⟩ := lr
      have hp := readFromGui_progress inp line rest hr
      simp only
      unfold runEvents
      cases hs : step h search σ (some line) with
      | cont σ' out =>
        simp only
        rw [ih σ' rest (by omega)]
      | exit c => simp
      | panic => simp
      | hang => simp

end Walleye
