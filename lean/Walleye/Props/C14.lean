/-
  C14 — static evaluation is colour-symmetric, side-relative and bounded.
  Headline theorems only (helpers: Proofs/Eval.lean).  All statements quantify over every board
  (any material, legal or not); the tables are the ones regenerated from evaluation.rs (T1).
-/
import Walleye.Proofs.Eval
namespace Walleye

/-! ### the result depends on nothing but the 64 squares and the side to move -/

theorem contrib_congr (b b' : Board) (pt : Point) (h : b.get pt.row pt.col = b'.get pt.row pt.col) :
    contrib b pt = contrib b' pt := by
  unfold contrib; rw [h]

theorem eval_depends (p q : Pos)
    (hb : ∀ pt ∈ evalCoords, p.board.get pt.row pt.col = q.board.get pt.row pt.col)
    (hs : p.toMove = q.toMove) : getEvaluation p = getEvaluation q := by
  rw [getEvaluation_eq, getEvaluation_eq, hs]
  congr 1
  unfold sums
  have : ∀ (f : Contrib → Int), (evalCoords.map fun pt => f (contrib p.board pt)) =
      (evalCoords.map fun pt => f (contrib q.board pt)) := by
    intro f
    apply List.map_congr_left
    intro pt hpt
    rw [contrib_congr _ _ pt (hb pt hpt)]
  rw [this (·.wmg), this (·.bmg), this (·.weg), this (·.beg), this (·.phase)]

/-- in particular: rights, en passant target, king caches, key and descriptors are irrelevant -/
theorem eval_ignores_other_fields (p q : Pos) (hb : p.board = q.board) (hs : p.toMove = q.toMove) :
    getEvaluation p = getEvaluation q :=
  eval_depends p q (fun _ _ => by rw [hb]) hs

/-! ### the same placement with the other side to move: negated -/

theorem evalFinish_opp (acc : EvalAcc) (c : Color) : evalFinish acc c.opp = - evalFinish acc c := by
  unfold evalFinish
  cases c <;> simp only [Color.opp] <;> rw [← Int.neg_tdiv] <;> congr 1 <;>
    simp only [Int.neg_add, ← Int.neg_mul] <;> congr 2 <;> omega

theorem eval_flip_side (p : Pos) :
    getEvaluation { p with toMove := p.toMove.opp } = - getEvaluation p := by
  rw [getEvaluation_eq, getEvaluation_eq]
  exact evalFinish_opp _ _

/-! ### colour mirror: ranks flipped, colours swapped, side swapped -/

def Square.swapColor : Square → Square
  | .full ⟨c, k⟩ => .full ⟨c.opp, k⟩
  | s => s

/-- board built from a function -/
def Board.ofFn (f : Nat → Nat → Square) : Board :=
  ⟨Array.ofFn (n := 144) fun i => f (i.val / 12) (i.val % 12), by simp⟩

theorem Board.get_ofFn (f : Nat → Nat → Square) (r c : Nat) (hr : r < 12) (hc : c < 12) :
    (Board.ofFn f).get r c = f r c := by
  unfold Board.get Board.ofFn
  simp only [hr, hc, and_self, dite_true, Array.getElem_ofFn]
  have h1 : (r * 12 + c) / 12 = r := by omega
  have h2 : (r * 12 + c) % 12 = c := by omega
  rw [h1, h2]

/-- row r ↦ row 11 - r (rank 1 ↔ rank 8 in the 12x12 frame), colours swapped -/
def mirrorBoard (b : Board) : Board := Board.ofFn fun r c => (b.get (11 - r) c).swapColor

def mirrorPos (p : Pos) : Pos := { p with board := mirrorBoard p.board, toMove := p.toMove.opp }

def Contrib.swap (x : Contrib) : Contrib := ⟨x.bmg, x.wmg, x.beg, x.weg, x.phase⟩

/-- a mirrored piece reads the same table cell: white reads row-2, black reads 9-row -/
theorem contrib_mirror (b : Board) (i j : Nat) (hi : i < 8) (hj : j < 8) :
    contrib (mirrorBoard b) ⟨i + 2, j + 2⟩ = (contrib b ⟨9 - i, j + 2⟩).swap := by
  unfold contrib mirrorBoard
  rw [Board.get_ofFn _ _ _ (by show i + 2 < 12; omega) (by show j + 2 < 12; omega)]
  have e : 11 - (i + 2) = 9 - i := by omega
  simp only [e]
  cases h : b.get (9 - i) (j + 2) with
  | empty => simp [Square.swapColor, Contrib.swap]
  | boundary => simp [Square.swapColor, Contrib.swap]
  | full pc =>
    obtain ⟨c, k⟩ := pc
    have e1 : i + 2 - Gen.boardStart = Gen.blackRowFlip - (9 - i) := by
      simp only [Gen.boardStart, Gen.blackRowFlip]; omega
    have e2 : Gen.blackRowFlip - (i + 2) = 9 - i - Gen.boardStart := by
      simp only [Gen.boardStart, Gen.blackRowFlip]; omega
    cases c <;> simp [Square.swapColor, Contrib.swap, Color.opp, e1, e2]

def rowSum (f : Contrib → Int) (b : Board) (i : Nat) : Int :=
  ((List.range 8).map fun j => f (contrib b ⟨i + 2, j + 2⟩)).sum

theorem sum_flatMap {α β : Type} (l : List α) (g : α → List β) (h : β → Int) :
    ((l.flatMap g).map h).sum = (l.map fun i => ((g i).map h).sum).sum := by
  induction l with
  | nil => simp
  | cons x xs ih => simp [List.flatMap_cons, List.sum_append_int, ih]

theorem sum_evalCoords (f : Contrib → Int) (b : Board) :
    (evalCoords.map fun pt => f (contrib b pt)).sum = ((List.range 8).map (rowSum f b)).sum := by
  unfold evalCoords
  rw [sum_flatMap]
  congr 1

theorem rowSum_mirror (f : Contrib → Int) (b : Board) (i : Nat) (hi : i < 8) :
    rowSum f (mirrorBoard b) i = rowSum (fun x => f x.swap) b (7 - i) := by
  unfold rowSum
  congr 1
  apply List.map_congr_left
  intro j hj
  have hj' : j < 8 := List.mem_range.mp hj
  rw [contrib_mirror b i j hi hj']
  have : 9 - i = 7 - i + 2 := by omega
  rw [this]

theorem sum_mirror (f : Contrib → Int) (b : Board) :
    (evalCoords.map fun pt => f (contrib (mirrorBoard b) pt)).sum =
      (evalCoords.map fun pt => f (contrib b pt).swap).sum := by
  rw [sum_evalCoords f, sum_evalCoords (fun x => f x.swap)]
  have hr : ∀ i, i < 8 → rowSum f (mirrorBoard b) i = rowSum (fun x => f x.swap) b (7 - i) :=
    fun i hi => rowSum_mirror f b i hi
  simp only [List.range, List.range.loop, List.map_cons, List.map_nil, List.sum_cons, List.sum_nil]
  rw [hr 0 (by omega), hr 1 (by omega), hr 2 (by omega), hr 3 (by omega), hr 4 (by omega), hr 5 (by omega),
    hr 6 (by omega), hr 7 (by omega)]
  simp only [Nat.sub_zero, Nat.reduceSub]
  omega

theorem sums_mirror (b : Board) :
    sums (mirrorBoard b) =
      { wmg := (sums b).bmg, bmg := (sums b).wmg, weg := (sums b).beg, beg := (sums b).weg, phase := (sums b).phase } := by
  unfold sums
  simp only [sum_mirror (·.wmg), sum_mirror (·.bmg), sum_mirror (·.weg), sum_mirror (·.beg), sum_mirror (·.phase),
    Contrib.swap]

/-- evaluating a position and its colour-mirrored twin gives the same number — for ANY tables -/
theorem eval_mirror (p : Pos) : getEvaluation (mirrorPos p) = getEvaluation p := by
  rw [getEvaluation_eq, getEvaluation_eq]
  unfold mirrorPos
  simp only [sums_mirror]
  unfold evalFinish
  cases p.toMove <;> simp [Color.opp]

/-! ### magnitude: far below the mate range -/

/-- largest magnitude of one square's (white − black) contribution, middle game and end game -/
def cellBound : Int := 1100

theorem tbl_bound_mg (k : Kind) (r c : Nat) (hr : r < 8) (hc : c < 8) :
    (tbl (Gen.mgTable k) r c + Gen.mgPieceVal k).natAbs ≤ 1100 := by
  have key : ∀ k : Kind, ∀ r : Fin 8, ∀ c : Fin 8,
      (tbl (Gen.mgTable k) r.val c.val + Gen.mgPieceVal k).natAbs ≤ 1100 := by
    intro k; cases k <;> decide +kernel
  exact key k ⟨r, hr⟩ ⟨c, hc⟩

theorem tbl_bound_eg (k : Kind) (r c : Nat) (hr : r < 8) (hc : c < 8) :
    (tbl (Gen.egTable k) r c + Gen.egPieceVal k).natAbs ≤ 1100 := by
  have key : ∀ k : Kind, ∀ r : Fin 8, ∀ c : Fin 8,
      (tbl (Gen.egTable k) r.val c.val + Gen.egPieceVal k).natAbs ≤ 1100 := by
    intro k; cases k <;> decide +kernel
  exact key k ⟨r, hr⟩ ⟨c, hc⟩

theorem phase_nonneg (k : Kind) : 0 ≤ Gen.gamePhaseVal k := by cases k <;> decide

theorem mem_evalCoords (pt : Point) (h : pt ∈ evalCoords) :
    2 ≤ pt.row ∧ pt.row ≤ 9 ∧ 2 ≤ pt.col ∧ pt.col ≤ 9 := by
  unfold evalCoords at h
  simp only [List.mem_flatMap, List.mem_map, List.mem_range] at h
  obtain ⟨i, hi, j, hj, rfl⟩ := h
  simp only; omega

theorem contrib_bounds (b : Board) (pt : Point) (hpt : pt ∈ evalCoords) :
    ((contrib b pt).wmg - (contrib b pt).bmg).natAbs ≤ 1100 ∧
    ((contrib b pt).weg - (contrib b pt).beg).natAbs ≤ 1100 ∧ 0 ≤ (contrib b pt).phase := by
  obtain ⟨h1, h2, h3, h4⟩ := mem_evalCoords pt hpt
  unfold contrib
  cases h : b.get pt.row pt.col with
  | empty => simp
  | boundary => simp
  | full pc =>
    obtain ⟨c, k⟩ := pc
    cases c
    · simp only [Int.sub_zero]
      exact ⟨tbl_bound_mg k _ _ (by simp only [Gen.boardStart]; omega) (by simp only [Gen.boardStart]; omega),
             tbl_bound_eg k _ _ (by simp only [Gen.boardStart]; omega) (by simp only [Gen.boardStart]; omega), phase_nonneg k⟩
    · simp only [Int.zero_sub, Int.natAbs_neg]
      exact ⟨tbl_bound_mg k _ _ (by simp only [Gen.blackRowFlip]; omega) (by simp only [Gen.boardStart]; omega),
             tbl_bound_eg k _ _ (by simp only [Gen.blackRowFlip]; omega) (by simp only [Gen.boardStart]; omega), phase_nonneg k⟩

theorem sum_sub_bound (l : List Point) (f g : Point → Int) (B : Nat)
    (h : ∀ pt ∈ l, (f pt - g pt).natAbs ≤ B) :
    ((l.map f).sum - (l.map g).sum).natAbs ≤ l.length * B := by
  induction l with
  | nil => simp
  | cons x xs ih =>
    simp only [List.map_cons, List.sum_cons, List.length_cons]
    have := h x (by simp)
    have ih := ih (fun pt hp => h pt (by simp [hp]))
    have e : f x + (xs.map f).sum - (g x + (xs.map g).sum) = (f x - g x) + ((xs.map f).sum - (xs.map g).sum) := by omega
    rw [e]
    have := Int.natAbs_add_le (f x - g x) ((xs.map f).sum - (xs.map g).sum)
    have : (xs.length + 1) * B = xs.length * B + B := by rw [Nat.add_mul]; simp
    omega

theorem sum_nonneg (l : List Point) (f : Point → Int) (h : ∀ pt ∈ l, 0 ≤ f pt) : 0 ≤ (l.map f).sum := by
  induction l with
  | nil => simp
  | cons x xs ih =>
    simp only [List.map_cons, List.sum_cons]
    have := h x (by simp)
    have := ih (fun pt hp => h pt (by simp [hp]))
    omega

theorem evalCoords_length : evalCoords.length = 64 := by decide

/-- |mg·φ + eg·(24−φ)| / 24 ≤ B when |mg|,|eg| ≤ B and 0 ≤ φ ≤ 24 -/
theorem taper_bound (mg eg ph : Int) (B : Nat) (hmg : mg.natAbs ≤ B) (heg : eg.natAbs ≤ B)
    (h0 : 0 ≤ ph) (h24 : ph ≤ 24) : (Int.tdiv (mg * ph + eg * (24 - ph)) 24).natAbs ≤ B := by
  rw [Int.natAbs_tdiv]
  have h1 : (mg * ph).natAbs ≤ B * ph.natAbs := by rw [Int.natAbs_mul]; exact Nat.mul_le_mul_right _ hmg
  have h2 : (eg * (24 - ph)).natAbs ≤ B * (24 - ph).natAbs := by
    rw [Int.natAbs_mul]; exact Nat.mul_le_mul_right _ heg
  have h3 := Int.natAbs_add_le (mg * ph) (eg * (24 - ph))
  have h4 : ph.natAbs + (24 - ph).natAbs = 24 := by omega
  have h5 : B * ph.natAbs + B * (24 - ph).natAbs = B * 24 := by rw [← Nat.mul_add, h4]
  have h6 : (mg * ph + eg * (24 - ph)).natAbs ≤ B * 24 := by omega
  show (mg * ph + eg * (24 - ph)).natAbs / (24 : Int).natAbs ≤ B
  have : (24 : Int).natAbs = 24 := rfl
  rw [this]
  exact Nat.div_le_of_le_mul (by omega)

/-- for EVERY board (any material, any squares) the evaluation stays below 64·1100 = 70 400,
    far from the mate range that starts at MATE_SCORE − 15 -/
theorem eval_bound (p : Pos) : (getEvaluation p).natAbs ≤ 70400 := by
  rw [getEvaluation_eq]
  have hb := fun pt hpt => contrib_bounds p.board pt hpt
  have hmg := sum_sub_bound evalCoords (fun pt => (contrib p.board pt).wmg) (fun pt => (contrib p.board pt).bmg) 1100
    (fun pt hpt => (hb pt hpt).1)
  have heg := sum_sub_bound evalCoords (fun pt => (contrib p.board pt).weg) (fun pt => (contrib p.board pt).beg) 1100
    (fun pt hpt => (hb pt hpt).2.1)
  have hph := sum_nonneg evalCoords (fun pt => (contrib p.board pt).phase) (fun pt hpt => (hb pt hpt).2.2)
  rw [evalCoords_length] at hmg heg
  unfold evalFinish sums
  simp only [Gen.phaseClampAt, Gen.phaseClampTo, Gen.phaseTotal, Gen.phaseDiv]
  generalize (List.map (fun pt => (contrib p.board pt).wmg) evalCoords).sum = W at *
  generalize (List.map (fun pt => (contrib p.board pt).bmg) evalCoords).sum = B at *
  generalize (List.map (fun pt => (contrib p.board pt).weg) evalCoords).sum = WE at *
  generalize (List.map (fun pt => (contrib p.board pt).beg) evalCoords).sum = BE at *
  generalize (List.map (fun pt => (contrib p.board pt).phase) evalCoords).sum = ph at *
  have hneg : ∀ a b : Int, (b - a).natAbs = (a - b).natAbs := by intro a b; omega
  by_cases hc : ph > 24
  · simp only [hc, if_true]
    cases p.toMove <;> simp only <;> apply taper_bound _ _ 24 70400 <;> first | omega | (rw [hneg]; omega)
  · simp only [hc, if_false]
    cases p.toMove <;> simp only <;> apply taper_bound _ _ ph 70400 <;> first | omega | (rw [hneg]; omega)

/-- so a material evaluation can never be mistaken for, or outrank, a mate score -/
theorem eval_below_mate_range (p : Pos) :
    -(Gen.mateScore - Gen.mateWindow) < getEvaluation p ∧ getEvaluation p < Gen.mateScore - Gen.mateWindow := by
  have := eval_bound p
  simp only [Gen.mateScore, Gen.mateWindow]
  omega

/-! ### non-vacuity: the mirror of a concrete position is a different position with the same value -/
example : (mirrorBoard ((default : Board).set 3 4 (Square.full ⟨.white, .queen⟩))).get 8 4
    = Square.full ⟨.black, .queen⟩ := by
  decide

end Walleye
