/-
  C13 — capture-only generation used by quiescence yields only real captures, along any chain.

  Proved (for every position satisfying the chain invariant `Inv`: sentinel ring, well-formed en
  passant target, exact key; and every hasher):
    * `caps_only_captures`: the descriptor of every capture-only successor names a move onto a
      square occupied by an enemy piece, or onto the current en passant target;
    * `caps_clears_ep`: every capture-only successor has NO en passant target, so an en passant
      capture can never be generated for a double step made more than one ply earlier;
    * `caps_subset_all`: every capture-only successor is literally one of the full generator's
      successors (same board, rights, caches, key, descriptor, promotion fan-out included);
    * `caps_no_castling`; `caps_chain`: the invariant survives any chain of capture-only generations.
    * FULL (model level): `caps_are_exactly_the_legal_captures` — for every well-formed position a move
      is carried by some capture-only successor iff it is a legal capturing move of the specification
      (destination occupied, or en passant); `caps_successor_is_spec_apply` — each successor is the
      specification's position after its move; `caps_exact_along_chains` — well-formedness survives
      every chain of capture-only generations, so both hold at every position the quiescence search
      can reach (no en passant capture for a double step made more than one ply earlier: a stale
      target cannot exist, and a move the rules forbid is never carried);
      `caps_no_move_twice` — no capturing move appears twice in the list.
-/
import Walleye.Proofs.Caps
import Walleye.Proofs.CapsExact
import Walleye.Proofs.NoDup
namespace Walleye

theorem caps_only_captures (h : Hasher) (p : Pos) :
    ∀ s ∈ generateMoves h p .caps,
      ∃ sq mov, s.lastMove = some (sq, mov) ∧ (EnemyAt p.board p.toMove mov ∨ p.ep = some mov) :=
  fun s hs => (generateMoves_caps_shape h p s hs).2

theorem caps_clears_ep (h : Hasher) (p : Pos) : ∀ s ∈ generateMoves h p .caps, s.ep = none :=
  fun s hs => (generateMoves_caps_shape h p s hs).1

theorem caps_subset_all (h : Hasher) (p : Pos) :
    ∀ s ∈ generateMoves h p .caps, s ∈ generateMoves h p .all := generateMoves_caps_subset h p

theorem caps_no_castling (h : Hasher) (p : Pos) :
    generateMoves h p .caps =
      boardCoords.flatMap fun pt =>
        match p.board.get pt.row pt.col with
        | .full piece => if piece.color = p.toMove then generateMovesForPiece h piece p pt .caps else []
        | _ => [] := by
  unfold generateMoves
  rw [if_neg (by decide), List.append_nil]
  congr 1

/-- chains of capture-only generations, of any length, as followed by quiescence -/
inductive CapChain (h : Hasher) : Pos → Pos → Prop where
  | refl (p : Pos) : CapChain h p p
  | step {p q s : Pos} : CapChain h p q → s ∈ generateMoves h q .caps → CapChain h p s

theorem caps_chain (h : Hasher) (p q : Pos) (hinv : Inv h p) (hc : CapChain h p q) : Inv h q := by
  induction hc with
  | refl => exact hinv
  | step _ hs ih => exact (generateMoves_inv h _ .caps ih _ hs).1

/-- after the first capture of a chain no position of the chain carries an en passant target:
    "an en-passant capture whose double step happened more than one ply earlier" cannot occur -/
theorem caps_chain_no_stale_ep_partial (h : Hasher) (p q s : Pos) (_hc : CapChain h p q)
    (hs : s ∈ generateMoves h q .caps) : s.ep = none ∧ ∀ t ∈ generateMoves h s .caps,
      ∃ sq mov, t.lastMove = some (sq, mov) ∧ EnemyAt s.board s.toMove mov := by
  have h1 := caps_clears_ep h q s hs
  refine ⟨h1, fun t ht => ?_⟩
  obtain ⟨sq, mov, hl, hor⟩ := caps_only_captures h s t ht
  refine ⟨sq, mov, hl, ?_⟩
  cases hor with
  | inl e => exact e
  | inr e => rw [h1] at e; cases e

/-- **C13**: capture-only generation returns exactly the legal capturing moves -/
theorem caps_are_exactly_the_legal_captures (h : Hasher) (p : Pos) (wf : WFp p) (m : Spec.Move) :
    (∃ q ∈ generateMoves h p .caps, moveOf q = m) ↔
      (Spec.legal (abs p) m = true ∧ isCaptureSpec (abs p) m = true) := caps_exact h p wf m

/-- each capture-only successor is the position its move really produces -/
theorem caps_successor_is_spec_apply (h : Hasher) (p : Pos) (wf : WFp p) :
    ∀ q ∈ generateMoves h p .caps, abs q = Spec.apply (abs p) (moveOf q) :=
  fun q hq => (generateMoves_sound h p wf q (generateMoves_caps_subset h p q hq)).2

theorem cap_chain_wf (h : Hasher) (p q : Pos) (wf : WFp p) (hinv : Inv h p) (hc : CapChain h p q) : WFp q ∧ Inv h q := by
  induction hc with
  | refl => exact ⟨wf, hinv⟩
  | step _ hs ih => exact generateMoves_wf h _ ih.1 ih.2 _ (generateMoves_caps_subset h _ _ hs)

/-- along any chain of capture-only generations, as followed by the quiescence search -/
theorem caps_exact_along_chains (h : Hasher) (p q : Pos) (wf : WFp p) (hinv : Inv h p) (hc : CapChain h p q)
    (m : Spec.Move) :
    ((∃ s ∈ generateMoves h q .caps, moveOf s = m) ↔
      (Spec.legal (abs q) m = true ∧ isCaptureSpec (abs q) m = true)) ∧
    ∀ s ∈ generateMoves h q .caps, abs s = Spec.apply (abs q) (moveOf s) :=
  ⟨caps_exact h q (cap_chain_wf h p q wf hinv hc).1 m,
   caps_successor_is_spec_apply h q (cap_chain_wf h p q wf hinv hc).1⟩

/-- no capturing move appears twice, at every position of every capture chain -/
theorem caps_no_move_twice (h : Hasher) (p q : Pos) (wf : WFp p) (hinv : Inv h p) (hc : CapChain h p q) :
    ((generateMoves h q .caps).map moveOf).Nodup :=
  generateMoves_nodup h q (cap_chain_wf h p q wf hinv hc).1 .caps

end Walleye
