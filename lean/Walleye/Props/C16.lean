/-
  C16 — replies depend only on the current `position` command (logic of the session machine).
  The machine `step` has exactly two state components, board and repetition table; that the real
  process has no others is checked on every run by the T3 source audit and by black-box pairs of
  sessions (fresh vs after traffic).
-/
import Walleye.Props.C17
namespace Walleye
open Str

variable (h : Hasher) (search : Pos → DrawTable → Nat → Option Pos)

/-- `position X` overwrites the whole state: whatever came before, the state after it is the same -/
theorem position_overwrites (σ σ' : Sess) (raw : List Char)
    (hc : String.ofList ((splitOn ' ' (cleanInput raw)).headD []) = "position") :
    step h search σ (some raw) = step h search σ' (some raw) := by
  unfold step
  simp +decide only [hc, if_true, if_false]

/-- the reply to `go` is a function of (board, table, go line) and of the search outcome for them -/
theorem go_uses_only (σ σ' : Sess) (raw : List Char) (hb : σ.board = σ'.board) (ht : σ.table = σ'.table) :
    step h search σ (some raw) = step h search σ' (some raw) := by
  cases σ; cases σ'; simp only at hb ht; subst hb; subst ht; rfl

/-- run a list of events; stops at the first exit / panic / hang -/
def run : Sess → List (Option (List Char)) → Sess × List String
  | σ, [] => (σ, [])
  | σ, e :: es =>
    match step h search σ e with
    | .cont σ' out => let (σ'', out') := run σ' es; (σ'', out ++ out')
    | _ => (σ, [])

/-- any prefix of events followed by `position X` leaves the same state as `position X` alone,
    provided the prefix does not terminate the process -/
theorem state_after_position_independent_of_history (σ σ' : Sess) (raw : List Char)
    (hc : String.ofList ((splitOn ' ' (cleanInput raw)).headD []) = "position")
    (p t) (hp : playOutPosition h (splitOn ' ' (cleanInput raw)) = some (p, t)) :
    (run h search σ [some raw]).1 = (run h search σ' [some raw]).1 := by
  have e1 : step h search σ (some raw) = .cont ⟨p, t⟩ [] := by
    unfold step; simp +decide only [hc, if_true, if_false, hp]
  have e2 : step h search σ' (some raw) = .cont ⟨p, t⟩ [] := by
    unfold step; simp +decide only [hc, if_true, if_false, hp]
  simp only [run, e1, e2]

end Walleye
