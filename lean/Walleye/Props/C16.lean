/-
  C16 — replies depend only on the current `position` command (logic of the session machine).
  The machine `step` has exactly two state components, board and repetition table; that the real
  process has no others is checked on every run by the T3 source audit and by black-box pairs of
  sessions (fresh vs after traffic).
-/
import Walleye.Props.C17
import Walleye.Props.C07
import Walleye.Model.SearchChess
namespace Walleye
open Str

variable (h : Hasher) (search : Pos → DrawTable → Nat → Option Pos)

/-- `position X` overwrites the whole state: whatever came before, the state after it is the same -/
theorem position_overwrites (σ σ' : Sess) (raw : List Char)
    (hc : String.ofList ((splitOn ' ' (cleanInput raw)).headD []) = "position") :
    step h search σ (some raw) = step h search σ' (some raw) := by
  unfold step
  simp +decide only [hc, if_true, if_false]

/-- the reply to `go` is a function of (board, table, go line) and of the search outcome for them -/
theorem go_uses_only (σ σ' : Sess) (raw : List Char) (hb : σ.board = σ'.board) (ht : σ.table = σ'.table) :
    step h search σ (some raw) = step h search σ' (some raw) := by
  cases σ; cases σ'; simp only at hb ht; subst hb; subst ht; rfl

/-- run a list of events; stops at the first exit / panic / hang -/
def run : Sess → List (Option (List Char)) → Sess × List String
  | σ, [] => (σ, [])
  | σ, e :: es =>
    match step h search σ e with
    | .cont σ' out => let (σ'', out') := run σ' es; (σ'', out ++ out')
    | _ => (σ, [])

/-- any prefix of events followed by `position X` leaves the same state as `position X` alone,
    provided the prefix does not terminate the process -/
theorem state_after_position_independent_of_history (σ σ' : Sess) (raw : List Char)
    (hc : String.ofList ((splitOn ' ' (cleanInput raw)).headD []) = "position")
    (p t) (hp : playOutPosition h (splitOn ' ' (cleanInput raw)) = some (p, t)) :
    (run h search σ [some raw]).1 = (run h search σ' [some raw]).1 := by
  have e1 : step h search σ (some raw) = .cont ⟨p, t⟩ [] := by
    unfold step; simp +decide only [hc, if_true, if_false, hp]
  have e2 : step h search σ' (some raw) = .cont ⟨p, t⟩ [] := by
    unfold step; simp +decide only [hc, if_true, if_false, hp]
  simp only [run, e1, e2]


/-- **the timed clause, composed**: two sessions with ARBITRARY earlier traffic receive the same
    `position X`; both then hold the same board and repetition record, so the searches started by a
    following `go` run on the same input, and if one allowance expires at consultation `k` and the
    other later or never, the improvements (depth, nodes, score, PV) reported under the shorter one
    are a prefix of those reported under the longer one — for every ordering behaviour `ord`
    (a deterministic sort is one), every fuel.  Zero allowance is the case k = 0. -/
theorem timed_replies_agree_up_to_the_shorter_run {O : Type} (σa σb σa' σb' : Sess) (raw : List Char)
    (outa outb : List String)
    (hc : String.ofList ((splitOn ' ' (cleanInput raw)).headD []) = "position")
    (ha : step h search σa (some raw) = .cont σa' outa) (hb : step h search σb (some raw) = .cont σb' outb)
    (ord : Oracle Pos O) (fuel : Nat) (o : O) (k : Nat) (e2 : Option Nat) (hl : Later k e2) :
    σa' = σb' ∧
    (getBestMove (chessGame h) ord fuel σa'.board (newSS (some k) σa'.table o)).st.infos <+:
      (getBestMove (chessGame h) ord fuel σb'.board (newSS e2 σb'.table o)).st.infos := by
  have e := position_overwrites h search σa σb raw hc
  rw [ha, hb] at e
  injection e with e1 _
  subst e1
  exact ⟨rfl, larger_allowance_only_extends (chessGame h) ord fuel σa'.board σa'.table o k e2 hl⟩

end Walleye
