/-
  C10 — repetition counts are exact and a third occurrence is scored as a draw.
  Keys are 64-bit; "position" means "key" here (trusted base item 7).
-/
import Walleye.Proofs.RootCorollaries
import Walleye.Proofs.RootNonneg
import Walleye.Proofs.NonnegRun
import Walleye.Model.SearchChess
import Walleye.Model.UciText
namespace Walleye
open DrawTable

/-- the keys of the positions reached by replaying `ms` from `p` (none: a move text panics) -/
def keysAlong (h : Hasher) : Pos → List (List Char) → Option (List UInt64)
  | _, [] => some []
  | p, m :: ms =>
    match makeMove h p m with
    | none => none
    | some p' => (keysAlong h p' ms).map (p'.key :: ·)

/-- after replaying a move list the table holds, for every key, its previous count plus the number
    of times it occurred along the way (no count reached 256) -/
theorem table_after_moves (h : Hasher) (p p' : Pos) (t t' : DrawTable) (ms : List (List Char))
    (hp : playMoves h p t ms = some (p', t')) :
    ∃ ks, keysAlong h p ms = some ks ∧ ∀ k, count t' k = count t k + ks.count k := by
  induction ms generalizing p t with
  | nil =>
    simp only [playMoves, Option.some.injEq, Prod.mk.injEq] at hp
    obtain ⟨_, rfl⟩ := hp
    exact ⟨[], rfl, fun k => by simp⟩
  | cons m ms ih =>
    unfold playMoves at hp
    cases hm : makeMove h p m with
    | none => rw [hm] at hp; cases hp
    | some q =>
      rw [hm] at hp
      simp only at hp
      cases ha : t.add q.key with
      | none => rw [ha] at hp; cases hp
      | some t1 =>
        rw [ha] at hp
        simp only at hp
        obtain ⟨ks, hks, hc⟩ := ih q t1 hp
        refine ⟨q.key :: ks, by simp [keysAlong, hm, hks], fun k => ?_⟩
        rw [hc k, count_add ha k, List.count_cons]
        by_cases e : q.key = k
        · subst e; simp; omega
        · have : (q.key == k) = false := by simpa using e
          simp [e, this]

/-- `position …` builds its table from the command alone: start position once, then the moves -/
theorem table_after_position (h : Hasher) (cmds : List (List Char)) (p : Pos) (t : DrawTable)
    (hp : playOutPosition h cmds = some (p, t)) :
    ∃ (start : Pos) (ks : List UInt64), ∀ k, count t k = (start.key :: ks).count k := by
  unfold playOutPosition at hp
  cases h1 : cmds[1]? with
  | none => simp [h1] at hp
  | some c1 =>
    simp only [h1] at hp
    split at hp
    · cases hp
    · rename_i start hstart
      cases hi : cmds.findIdx? (· = "moves".toList) with
      | none =>
        simp only [hi, Option.some.injEq, Prod.mk.injEq] at hp
        obtain ⟨_, rfl⟩ := hp
        refine ⟨start, [], fun k => ?_⟩
        rw [count_insert]
        by_cases e : start.key = k
        · subst e; simp
        · have : (start.key == k) = false := by simpa using e
          simp [e, List.count_cons, this, count, lookup]
      | some i =>
        simp only [hi] at hp
        obtain ⟨ks, _, hc⟩ := table_after_moves h start p _ t _ hp
        refine ⟨start, ks, fun k => ?_⟩
        rw [hc k, count_insert, List.count_cons]
        by_cases e : start.key = k
        · subst e; simp; omega
        · have : (start.key == k) = false := by simpa using e
          simp [e, this, count, lookup]

/-- nothing of an earlier `position` command survives: the result is a function of the command -/
theorem position_resets (h : Hasher) (cmds : List (List Char)) :
    ∀ t1 t2 : DrawTable, (fun (_ : DrawTable) => playOutPosition h cmds) t1 = (fun _ => playOutPosition h cmds) t2 :=
  fun _ _ => rfl

variable {P O : Type} (g : Game P) (ord : Oracle P O)

/-- a move into a position that has already occurred at least twice (game + current line) is
    valued as a draw at once, before anything else is looked at -/
theorem repeated_child_is_draw (fuel : Nat) (c : P) (d ply : Nat) (a b : Int) (n : Bool) (s s1 : SS P O)
    (ht : tick s = .ok false s1) (hrep : count s.table (g.key c) ≥ 2) :
    ∃ s2, alphaBeta g ord (fuel + 1) c d ply a b n s = .ok 0 s2 ∧ s2.table = s.table ∧ s2.reports = s.reports := by
  unfold alphaBeta
  rw [bind_of_ok ht]
  have ht' : s1.table = s.table ∧ s1.reports = s.reports := by rw [(tick_eq ht).1]; exact ⟨rfl, rfl⟩
  refine ⟨{ s1 with nodes := s1.nodes + 1 }, ?_, ht'.1, ht'.2⟩
  simp only [Bool.false_eq_true, if_false]
  have hn : (nodeSearched : M (SS P O) Unit) s1 = .ok () { s1 with nodes := s1.nodes + 1 } := rfl
  rw [bind_of_ok hn]
  have hg : (M.get : M (SS P O) (SS P O)) { s1 with nodes := s1.nodes + 1 } =
      .ok { s1 with nodes := s1.nodes + 1 } { s1 with nodes := s1.nodes + 1 } := rfl
  rw [bind_of_ok hg]
  have : DrawTable.isThreefold s1.table (g.key c) = true := by
    unfold isThreefold; rw [ht'.1]; simpa using hrep
  simp only [this, if_true]
  rfl

/-- `root_score_nonneg` for iterations 1–3 with a clock that does not expire: if some root move leads
    to a position that has already occurred at least twice, the iteration ends with a score ≥ 0
    (every game with bounded evaluation, every permuting oracle) -/
theorem root_score_nonneg_upto3 (E : Nat) (hg : GameOK g E) (hord : OrdPerm ord) (fuel curDepth : Nat) (first : P)
    (t : DrawTable) (hcd : curDepth - 1 < 3) (hE : (E : Int) + 1 + (fuel + 1) < Gen.mateScore) (l : List P)
    (best : Option P) (m : P) (hm : m ∈ l) (hrep : t.isThreefold (g.key m) = true) :
    Triple (St t) (rootLoop g ord (fuel + 1) curDepth first l (-Gen.posInf) best)
      (fun r _ => ∃ A B, r = some (A, B) ∧ 0 ≤ A) := by
  refine ⟨?_⟩
  intro s r s' hst he
  obtain ⟨_, A, B, hr, hA, _, _⟩ := (rootLoop_triple g ord E hg hord (fuel + 1) curDepth first t hcd hE l (-Gen.posInf) best
    (Int.le_refl _) (by decide)).run s r s' hst he
  refine ⟨A, B, hr, ?_⟩
  have h0 := maxNeg_mem (Spec.negamax g (fuel + 1) (curDepth - 1) 1 t) l (-Gen.posInf) m hm
  rw [negamax_repeated g fuel (curDepth - 1) 1 t m hrep] at h0
  omega

/-- **second sentence of C10 at EVERY iteration depth and under EVERY clock** (every game, every
    ordering oracle — permuting or not —, null-move pruning and re-searches included): if one
    iteration of the root loop of `get_best_move` runs through its whole move list (`some (A, B)`)
    and the clock has not expired by then — a completed depth —, and some root move leads to a
    position whose key the repetition record already holds at least twice, then the final score `A`
    of that depth is ≥ 0, and `A` is the score on the last `info` line the iteration printed (all of
    whose lines carry this depth).  Reason: alpha never decreases in the root loop and the repeated
    child is valued 0 by its own call before anything else is looked at. -/
theorem root_score_nonneg_every_depth (fuel curDepth : Nat) (first : P) (t : DrawTable) (l : List P)
    (best : Option P) (s s' : SS P O) (A : Int) (B : Option P) (hs : TableEq s.table t)
    (hrun : rootLoop g ord (fuel + 1) curDepth first l (-Gen.posInf) best s = .ok (some (A, B)) s')
    (hnx : s'.expired = false) (m : P) (hm : m ∈ l) (hrep : t.isThreefold (g.key m) = true) :
    0 ≤ A ∧ ∃ new : List (Report P), s'.reports.toList = s.reports.toList ++ new ∧
      (∀ i ∈ infos new, i.depth = curDepth) ∧ (infos new).getLast?.map Info.eval = some A := by
  have h0 := (rootLoop_nonneg g ord fuel curDepth first t l (-Gen.posInf) best s s' A B hs hrun hnx).2 ⟨m, hm, hrep⟩
  obtain ⟨new, h1, h2, h3⟩ := rootLoop_last_info g ord (fuel + 1) curDepth first l (-Gen.posInf) best s s' A B hrun
  refine ⟨h0, new, h1, h2, ?_⟩
  rcases h3 with ⟨_, hA⟩ | h3
  · have : (Gen.posInf : Int) = 9999999 := rfl
    omega
  · exact h3

/-- and alpha never decreases over a root loop that ends before the clock expires -/
theorem root_alpha_monotone (fuel curDepth : Nat) (first : P) (t : DrawTable) (l : List P) (alpha : Int)
    (best : Option P) (s s' : SS P O) (A : Int) (B : Option P) (hs : TableEq s.table t)
    (hrun : rootLoop g ord (fuel + 1) curDepth first l alpha best s = .ok (some (A, B)) s')
    (hnx : s'.expired = false) : alpha ≤ A :=
  (rootLoop_nonneg g ord fuel curDepth first t l alpha best s s' A B hs hrun hnx).1

/-- **C10, second sentence, for a WHOLE run of `get_best_move`** — every game whose ordering tag does
    not change the key, every clock expiry, every ordering oracle that permutes, at every point of the
    run and whatever its outcome: if some root move leads to a position the repetition record already
    holds twice, then for every depth d ≥ 1 that the run completed (it went on to report a line of a
    larger depth) there is a line of depth d with a score ≥ 0.  Lines of one depth carry strictly
    increasing scores (`info_stream_is_ordered`, Props/C18), so the LAST line of every completed depth —
    the engine's final score for that depth — is ≥ 0. -/
theorem final_scores_of_completed_depths_are_nonneg (hperm : OrdPerm ord)
    (hkey : ∀ x v, g.key (g.withOh x v) = g.key x) (fuel : Nat) (root : P) (t : DrawTable) (s : SS P O)
    (hs : s.reports = #[]) (hte : TableEq s.table t) (m : P) (hm : m ∈ g.gen root .all)
    (hrep : t.isThreefold (g.key m) = true) :
    ∀ d, 1 ≤ d → (∃ i ∈ infosOf (outState (getBestMove g ord (fuel + 1) root s)).reports, d < i.depth) →
      ∃ j ∈ infosOf (outState (getBestMove g ord (fuel + 1) root s)).reports, j.depth = d ∧ 0 ≤ j.eval :=
  getBestMove_G g ord hperm hkey fuel root t s hs hte m hm hrep

/-- the chess instance: re-tagging a successor as the PV node does not touch its key -/
theorem chess_final_scores_of_completed_depths_are_nonneg {O : Type} (h : Hasher) (ord : Oracle Pos O)
    (hperm : OrdPerm ord) (fuel : Nat) (root : Pos) (t : DrawTable) (s : SS Pos O)
    (hs : s.reports = #[]) (hte : TableEq s.table t) (m : Pos) (hm : m ∈ generateMoves h root .all)
    (hrep : t.isThreefold m.key = true) :
    ∀ d, 1 ≤ d → (∃ i ∈ infosOf (outState (getBestMove (chessGame h) ord (fuel + 1) root s)).reports, d < i.depth) →
      ∃ j ∈ infosOf (outState (getBestMove (chessGame h) ord (fuel + 1) root s)).reports, j.depth = d ∧ 0 ≤ j.eval :=
  final_scores_of_completed_depths_are_nonneg (chessGame h) ord hperm (fun _ _ => rfl) fuel root t s hs hte m hm hrep

/-- the fix of 4553a5f: also a FOURTH, fifth … occurrence is a draw (`>= 2`, not `== 2`) -/
example : DrawTable.isThreefold [(7, 5)] 7 = true := by decide

end Walleye
