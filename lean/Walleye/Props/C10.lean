import Walleye.Model.MoveGen
namespace Walleye
theorem C10_placeholder (c : Color) : c.opp.opp = c := Color.opp_opp c
end Walleye
