/-
  C11 — mate announcements are true and a mate in one is always played.
  Status: there is no universal soundness theorem for the deeper iterations (speculative null-move
  pruning); the whole property is decided by exploration against the Lean mate solver
  (`mateinfo` / `matecheck` in the driver) over mate/stalemate neighbourhoods.  Proved here: the
  `mate_in_one_played` for iterations 1–3 with a clock that does not expire (if some root move
  checkmates, the iteration ends with score MATE−1 and the move remembered checkmates);
  the arithmetic that turns a mate evaluation into the printed distance and back, for the values the
  search assigns (`mate_distance_of_win`, `mate_distance_of_loss`), and a draw value (stalemate,
  repetition) is never in a mate band, so it is printed as `cp 0` (`stalemate_not_mate`,
  `draw_is_reported_as_cp`).
-/
import Walleye.Proofs.RootCorollaries
import Walleye.Proofs.MateTheory
import Walleye.Model.SearchChess
namespace Walleye

/-- side to move mates in n (n ≥ 1): the mated node is at ply 2n−1, the root sees MATE − (2n−1) and prints n -/
theorem mate_distance_of_win (n : Int) (h1 : 1 ≤ n) (h8 : n ≤ 8) :
    Gen.mateScore - (2 * n - 1) ≥ Gen.mateScore - Gen.mateWindow ∧
    Int.tdiv (Gen.mateScore - (Gen.mateScore - (2 * n - 1)) + 1) 2 = n := by
  simp only [Gen.mateScore, Gen.mateWindow]
  refine ⟨by omega, ?_⟩
  have : (100000 - (100000 - (2 * n - 1)) + 1 : Int) = 2 * n := by omega
  rw [this, Int.tdiv_eq_ediv_of_nonneg (by omega)]
  omega

/-- side to move is mated in n moves: the mated node is at ply 2n, the root sees −(MATE − 2n) and prints −n -/
theorem mate_distance_of_loss (n : Int) (h1 : 1 ≤ n) (h7 : n ≤ 7) :
    -(Gen.mateScore - 2 * n) ≤ -Gen.mateScore + Gen.mateWindow ∧
    Int.tdiv (Gen.mateScore + -(Gen.mateScore - 2 * n)) (-2) = -n := by
  simp only [Gen.mateScore, Gen.mateWindow]
  refine ⟨by omega, ?_⟩
  have : (100000 + -(100000 - 2 * n) : Int) = 2 * n := by omega
  rw [this, Int.tdiv_neg, Int.tdiv_eq_ediv_of_nonneg (by omega)]
  omega

variable {P O : Type} (g : Game P) (ord : Oracle P O)

/-- if the side to move can give checkmate in one move, an iteration (1, 2 or 3) that runs to its
    end finishes with the score MATE − 1 (printed `mate 1`) and the move it remembers gives checkmate -/
theorem mate_in_one_played (E : Nat) (hg : GameOK g E) (hord : OrdPerm ord) (fuel curDepth : Nat) (first : P)
    (t : DrawTable) (hcd : curDepth - 1 < 3) (hE : (E : Int) + 1 + (fuel + 1) < Gen.mateScore) (l : List P)
    (best : Option P) (m : P) (hm : m ∈ l) (h3 : t.isThreefold (g.key m) = false)
    (hmate : g.gen m .all = [] ∧ g.inCheck m = true) :
    Triple (St t) (rootLoop g ord (fuel + 1) curDepth first l (-Gen.posInf) best)
      (fun r _ => ∃ B, r = some (Gen.mateScore - 1, some B) ∧ B ∈ l ∧ g.gen B .all = [] ∧ g.inCheck B = true) := by
  refine ⟨?_⟩
  intro s r s' hst he
  obtain ⟨_, A, B, hr, hA, hB1, _⟩ := (rootLoop_triple g ord E hg hord (fuel + 1) curDepth first t hcd hE l (-Gen.posInf) best
    (Int.le_refl _) (by decide)).run s r s' hst he
  have hv := negamax_mated g fuel (curDepth - 1) 1 t m h3 hmate.1 hmate.2
  have h0 := maxNeg_mem (Spec.negamax g (fuel + 1) (curDepth - 1) 1 t) l (-Gen.posInf) m hm
  rw [← hA, hv] at h0
  -- nothing is worth more than MATE − 1 at ply 1
  have hub : A ≤ Gen.mateScore - 1 := by
    rw [hA]
    apply (maxNeg_bound _ l (-Gen.posInf) (-Gen.posInf) (Gen.mateScore - 1) ⟨Int.le_refl _, by decide⟩ ?_).2
    intro x _
    have := negamax_range g E hg (fuel + 1) (curDepth - 1) 1 t x (by push_cast; omega)
    have hp : (Gen.posInf : Int) = 9999999 := rfl
    have hmm : (Gen.mateScore : Int) = 100000 := rfl
    push_cast at this
    omega
  have hAe : A = Gen.mateScore - 1 := by push_cast at h0; omega
  have hlt : -Gen.posInf < A := by rw [hAe]; decide
  obtain ⟨b, hb, hBe, hbv⟩ := hB1 hlt
  refine ⟨b, by rw [hr, hAe, hBe], hb, ?_⟩
  -- a move worth MATE − 1 is a checkmate
  exact Classical.byContradiction fun hnm => by
    have := negamax_gt_unless_mated g E hg fuel (curDepth - 1) 1 t b (by push_cast; omega) hnm
    push_cast at this
    omega

/-! ### mate announcements are true (iterations 1–3) -/

/-- **`score mate N` is true** for an iteration (1, 2 or 3) that runs to its end, for every game with a
    bounded evaluation, every permuting ordering oracle, every repetition table: a final score above
    the evaluation bound is MATE − (2n − 1) for some n ≥ 1, is printed as `mate n`, and the side to
    move has a move after which the opponent is mated within n − 1 moves whatever it plays — a forced
    mate in at most n moves really exists; a final score below minus the bound is −(MATE − 2n), is
    printed as `mate −n`, and after EVERY move of the side to move the opponent can force mate in at
    most n moves — the side to move really is mated within n moves against best play.  (`Win`,
    `Lose`: Proofs/MateTheory.lean, in terms of the game's own move generation and check test, which
    C01/C06 tie to the rules.) -/
theorem mate_announcements_are_true_upto3 (E : Nat) (hg : GameOK g E) (hord : OrdPerm ord) (fuel curDepth : Nat)
    (first : P) (t : DrawTable) (hcd : curDepth - 1 < 3) (hE : (E : Int) + 1 + (fuel + 1) < Gen.mateScore)
    (l : List P) (hl : l ≠ []) (best : Option P) :
    Triple (St t) (rootLoop g ord (fuel + 1) curDepth first l (-Gen.posInf) best)
      (fun r _ => ∃ A B, r = some (A, B) ∧
        ((E : Int) < A → ∃ n : Nat, 1 ≤ n ∧ A = Gen.mateScore - (2 * n - 1) ∧
            Int.tdiv (Gen.mateScore - A + 1) 2 = n ∧ ∃ m ∈ l, Lose g (n - 1) m) ∧
        (A < -(E : Int) → ∃ n : Nat, 1 ≤ n ∧ A = -(Gen.mateScore - 2 * n) ∧
            Int.tdiv (Gen.mateScore + A) (-2) = -(n : Int) ∧ ∀ m ∈ l, Win g n m)) := by
  refine ⟨?_⟩
  intro s r s' hst he
  obtain ⟨_, A, B, hr, hA, _, _⟩ := (rootLoop_triple g ord E hg hord (fuel + 1) curDepth first t hcd hE l (-Gen.posInf) best
    (Int.le_refl _) (by decide)).run s r s' hst he
  have hM : (Gen.mateScore : Int) = 100000 := rfl
  have hP : (Gen.posInf : Int) = 9999999 := rfl
  have hchar := fun x => negamax_mate_char g E hg (fuel + 1) (curDepth - 1) 1 t x (by push_cast; omega)
  have hrange := fun x => negamax_range g E hg (fuel + 1) (curDepth - 1) 1 t x (by push_cast; omega)
  -- the maximum is attained (the list is not empty)
  have hatt : ∃ x ∈ l, A = - Spec.negamax g (fuel + 1) (curDepth - 1) 1 t x := by
    rcases maxNeg_attained (Spec.negamax g (fuel + 1) (curDepth - 1) 1 t) l (-Gen.posInf) with h | ⟨x, hx, h⟩
    · exfalso
      cases l with
      | nil => exact hl rfl
      | cons y ys =>
        have h1 := maxNeg_mem (Spec.negamax g (fuel + 1) (curDepth - 1) 1 t) (y :: ys) (-Gen.posInf) y (by simp)
        have h2 := hrange y
        push_cast at h2
        omega
    · exact ⟨x, hx, by rw [hA, h]⟩
  obtain ⟨xs, hxs, hv⟩ := hatt
  refine ⟨A, B, hr, ?_, ?_⟩
  · intro hpos
    obtain ⟨k, hk, hlose⟩ := (hchar xs).2 (by omega)
    refine ⟨k + 1, by omega, by rw [hv, hk]; push_cast; omega, ?_, xs, hxs, by simpa using hlose⟩
    have : Gen.mateScore - A + 1 = 2 * ((k : Int) + 1) := by rw [hv, hk]; push_cast; omega
    rw [this, Int.tdiv_eq_ediv_of_nonneg (by omega)]
    push_cast
    omega
  · intro hneg
    obtain ⟨ns, hns1, hnsv, _⟩ := (hchar xs).1 (by omega)
    refine ⟨ns, hns1, by rw [hv, hnsv]; push_cast; omega, ?_, ?_⟩
    · have : Gen.mateScore + A = 2 * (ns : Int) := by rw [hv, hnsv]; push_cast; omega
      rw [this, Int.tdiv_neg, Int.tdiv_eq_ediv_of_nonneg (by omega)]
      omega
    · intro x hx
      have hle := maxNeg_mem (Spec.negamax g (fuel + 1) (curDepth - 1) 1 t) l (-Gen.posInf) x hx
      rw [← hA] at hle
      obtain ⟨nx, _, hnxv, hwin⟩ := (hchar x).1 (by omega)
      apply win_mono_le g (n := nx) _ x hwin
      rw [hv, hnsv, hnxv] at hle
      push_cast at hle
      omega

/-! ### not playing into a mate in one (iterations 2 and 3) -/

/-- the opponent (to move at `x`) has a move that checkmates at once -/
theorem win_one (x : P) : Win g 1 x ↔ ∃ r ∈ g.gen x .all, Mated g r := by
  rw [win_succ]
  constructor
  · rintro ⟨r, hr, hl⟩; exact ⟨r, hr, (lose_zero g r).mp hl⟩
  · rintro ⟨r, hr, hm⟩; exact ⟨r, hr, (lose_zero g r).mpr hm⟩

/-- value of a root move at child depth ≥ 1: exactly MATE − 2 if the opponent then mates in one,
    strictly less otherwise (no position of the two plies counted as a repetition) -/
theorem value_of_move_into_mate (E : Nat) (hg : GameOK g E) (fuel d1 : Nat) (t : DrawTable) (x : P) (hd : 1 ≤ d1)
    (hE : (E : Int) + 1 + (fuel + 2) < Gen.mateScore) :
    (¬ Win g 1 x → Spec.negamax g (fuel + 2) d1 1 t x < Gen.mateScore - 2) ∧
    (Win g 1 x → t.isThreefold (g.key x) = false →
      (∀ r ∈ g.gen x .all, ((t.add (g.key x)).getD t).isThreefold (g.key r) = false) →
      Spec.negamax g (fuel + 2) d1 1 t x = Gen.mateScore - 2) := by
  have hM : (Gen.mateScore : Int) = 100000 := rfl
  have hup := (negamax_range g E hg (fuel + 2) d1 1 t x (by push_cast; omega)).2
  have hd0 : (if d1 = 0 then 1 else d1) = d1 := by rw [if_neg (by omega)]
  have hnq : ¬ (d1 = 0 ∧ ¬ g.inCheck x = true) := fun h => by omega
  constructor
  · intro hnw
    cases h3 : t.isThreefold (g.key x) with
    | true => rw [negamax_repeated g (fuel + 1) d1 1 t x h3]; omega
    | false =>
      rw [negamax_succ g (fuel + 1) d1 1 t x h3, hd0]
      unfold nodeValue
      simp only [Nat.reduceAdd]
      rw [if_neg hnq]
      split
      · split <;> omega
      · rename_i m ms hgen
        have hc : ∀ r ∈ m :: ms, -(Gen.mateScore : Int) ≤ - Spec.negamax g (fuel + 1) (d1 - 1) 2 ((t.add (g.key x)).getD t) r ∧
            - Spec.negamax g (fuel + 1) (d1 - 1) 2 ((t.add (g.key x)).getD t) r ≤ Gen.mateScore - 3 := by
          intro r hr
          have hnm : ¬ (g.gen r .all = [] ∧ g.inCheck r = true) := fun hm =>
            hnw ((win_one g x).mpr ⟨r, by rw [hgen]; exact hr, hm⟩)
          have h1 := negamax_gt_unless_mated g E hg fuel (d1 - 1) 2 ((t.add (g.key x)).getD t) r (by push_cast; omega) hnm
          have h2 := (negamax_range g E hg (fuel + 1) (d1 - 1) 2 ((t.add (g.key x)).getD t) r (by push_cast; omega)).2
          push_cast at h1 h2
          omega
        have := (maxNeg_bound (Spec.negamax g (fuel + 1) (d1 - 1) 2 ((t.add (g.key x)).getD t)) ms
          (- Spec.negamax g (fuel + 1) (d1 - 1) 2 ((t.add (g.key x)).getD t) m) (-Gen.mateScore) (Gen.mateScore - 3)
          (hc m (by simp)) (fun r hr => hc r (by simp [hr]))).2
        omega
  · intro hw h3 hr3
    obtain ⟨r, hr, hmated⟩ := (win_one g x).mp hw
    have hlow : Gen.mateScore - 2 ≤ Spec.negamax g (fuel + 2) d1 1 t x := by
      rw [negamax_succ g (fuel + 1) d1 1 t x h3, hd0]
      unfold nodeValue
      simp only [Nat.reduceAdd]
      rw [if_neg hnq]
      split
      · rename_i hgen; rw [hgen] at hr; cases hr
      · rename_i m ms hgen
        have hv := negamax_mated g fuel (d1 - 1) 2 ((t.add (g.key x)).getD t) r (hr3 r hr) hmated.1 hmated.2
        rw [hgen] at hr
        have hge : - Spec.negamax g (fuel + 1) (d1 - 1) 2 ((t.add (g.key x)).getD t) r ≤
            Spec.maxNeg (Spec.negamax g (fuel + 1) (d1 - 1) 2 ((t.add (g.key x)).getD t)) ms
              (- Spec.negamax g (fuel + 1) (d1 - 1) 2 ((t.add (g.key x)).getD t) m) := by
          rcases List.mem_cons.mp hr with rfl | hr
          · exact maxNeg_ge _ _ _
          · exact maxNeg_mem _ _ _ r hr
        rw [hv] at hge
        push_cast at hge
        omega
    omega

/-- **once its second (or third) iteration has finished the engine does not play into a mate in
    one if it can avoid it**: if some root move leaves the opponent without an immediate checkmate,
    the move the iteration remembers leaves the opponent without one too (every game with a bounded
    evaluation, every permuting oracle; no position within two plies of the root counted as a
    repetition by the table) -/
theorem does_not_play_into_mate_in_one (E : Nat) (hg : GameOK g E) (hord : OrdPerm ord) (fuel curDepth : Nat)
    (first : P) (t : DrawTable) (hcd1 : 1 ≤ curDepth - 1) (hcd : curDepth - 1 < 3)
    (hE : (E : Int) + 1 + (fuel + 2) < Gen.mateScore) (l : List P) (best : Option P)
    (hx3 : ∀ x ∈ l, t.isThreefold (g.key x) = false)
    (hr3 : ∀ x ∈ l, ∀ r ∈ g.gen x .all, ((t.add (g.key x)).getD t).isThreefold (g.key r) = false)
    (m : P) (hm : m ∈ l) (hsafe : ¬ Win g 1 m) :
    Triple (St t) (rootLoop g ord (fuel + 2) curDepth first l (-Gen.posInf) best)
      (fun r _ => ∃ A b, r = some (A, some b) ∧ b ∈ l ∧ ¬ Win g 1 b) := by
  refine ⟨?_⟩
  intro s r s' hst he
  obtain ⟨_, A, B, hr, hA, hB1, _⟩ := (rootLoop_triple g ord E hg hord (fuel + 2) curDepth first t hcd
    (by push_cast at hE ⊢; omega) l (-Gen.posInf) best (Int.le_refl _) (by decide)).run s r s' hst he
  have hM : (Gen.mateScore : Int) = 100000 := rfl
  have hP : (Gen.posInf : Int) = 9999999 := rfl
  have h0 := maxNeg_mem (Spec.negamax g (fuel + 2) (curDepth - 1) 1 t) l (-Gen.posInf) m hm
  rw [← hA] at h0
  have hsm := (value_of_move_into_mate g E hg fuel (curDepth - 1) t m hcd1 hE).1 hsafe
  obtain ⟨b, hb, hBe, hbv⟩ := hB1 (by omega)
  refine ⟨A, b, by rw [hr, hBe], hb, fun hw => ?_⟩
  have := (value_of_move_into_mate g E hg fuel (curDepth - 1) t b hcd1 hE).2 hw (hx3 b hb) (hr3 b hb)
  omega

/-- a stalemated position (no move, not in check) is never given a mate score by the search
    specification, at any depth, ply or table: its value is 0 when the node is expanded (remaining
    depth ≥ 1) and the bounded static evaluation on the horizon — always within the evaluation
    bound, far outside the mate bands -/
theorem stalemate_is_never_a_mate_score (E : Nat) (hg : GameOK g E) (fuel d ply : Nat) (t : DrawTable) (p : P)
    (hgen : g.gen p .all = []) (hchk : g.inCheck p = false) :
    (-(E : Int) ≤ Spec.negamax g (fuel + 1) d ply t p ∧ Spec.negamax g (fuel + 1) d ply t p ≤ E) ∧
    (1 ≤ d → Spec.negamax g (fuel + 1) d ply t p = 0) := by
  cases h3 : t.isThreefold (g.key p) with
  | true => rw [negamax_repeated g fuel d ply t p h3]; exact ⟨⟨by omega, by omega⟩, fun _ => rfl⟩
  | false =>
    rw [negamax_succ g fuel d ply t p h3]
    unfold nodeValue
    by_cases hc : d = 0 ∧ ¬ g.inCheck p = true
    · rw [if_pos hc]
      exact ⟨qval_bound g E hg qFuel p, fun h => by omega⟩
    · rw [if_neg hc, hgen]
      simp only [hchk, Bool.false_eq_true, if_false]
      exact ⟨⟨by omega, by omega⟩, fun _ => trivial⟩

/-- a draw score (stalemate, repetition) is never printed as a mate -/
theorem stalemate_not_mate : ¬ ((0 : Int) ≥ Gen.mateScore - Gen.mateWindow) ∧ ¬ ((0 : Int) ≤ -Gen.mateScore + Gen.mateWindow) := by
  simp only [Gen.mateScore, Gen.mateWindow]; omega

/-- so the info line of an accepted evaluation 0 is a `cp 0` line -/
theorem draw_is_reported_as_cp (i : Info) (h : i.eval = 0) :
    infoText i = s!"info pv{String.join (i.pv.map fun m => " " ++ mvText m)} depth {i.depth} nodes {i.nodes} score " ++ s!"cp {i.eval}" := by
  unfold infoText
  have := stalemate_not_mate
  simp only [h, this.1, this.2, if_false]


/-! ### non-vacuity: a three-position game in which the definitions say what they should -/

/-- position 0: one move, to position 1; position 1: no move, in check (mated); position 2: no move,
    not in check (stalemated) -/
def tinyGame : Game Nat where
  gen := fun p _ => if p = 0 then [1] else []
  eval := fun _ => 0
  inCheck := fun p => p == 1
  key := fun p => p.toUInt64
  null := id
  lastMove := fun _ => none
  oh := fun _ => 0
  withOh := fun p _ => p

example : Mated tinyGame 1 := ⟨rfl, rfl⟩
example : Win tinyGame 1 0 := ⟨1, by simp [tinyGame], Or.inl ⟨rfl, rfl⟩⟩
example : ¬ Mated tinyGame 2 := fun h => by cases h.2
example : ¬ Win tinyGame 1 2 := by
  rintro ⟨m, hm, _⟩
  simp [tinyGame] at hm
/-- and the minimax specification gives the mate its value: MATE − 1 at the root of position 0 -/
example : - Spec.negamax tinyGame 2 0 1 [] 1 = Gen.mateScore - 1 := by decide

end Walleye
