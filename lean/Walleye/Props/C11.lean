/-
  C11 — mate announcements are true and a mate in one is always played.
  Status: there is no universal soundness theorem for the deeper iterations (speculative null-move
  pruning); the whole property is decided by exploration against the Lean mate solver
  (`mateinfo` / `matecheck` in the driver) over mate/stalemate neighbourhoods.  Proved here: the
  `mate_in_one_played` for iterations 1–3 with a clock that does not expire (if some root move
  checkmates, the iteration ends with score MATE−1 and the move remembered checkmates);
  the arithmetic that turns a mate evaluation into the printed distance and back, for the values the
  search assigns (`mate_distance_of_win`, `mate_distance_of_loss`), and a draw value (stalemate,
  repetition) is never in a mate band, so it is printed as `cp 0` (`stalemate_not_mate`,
  `draw_is_reported_as_cp`).
-/
import Walleye.Proofs.RootCorollaries
import Walleye.Model.SearchChess
namespace Walleye

/-- side to move mates in n (n ≥ 1): the mated node is at ply 2n−1, the root sees MATE − (2n−1) and prints n -/
theorem mate_distance_of_win (n : Int) (h1 : 1 ≤ n) (h8 : n ≤ 8) :
    Gen.mateScore - (2 * n - 1) ≥ Gen.mateScore - Gen.mateWindow ∧
    Int.tdiv (Gen.mateScore - (Gen.mateScore - (2 * n - 1)) + 1) 2 = n := by
  simp only [Gen.mateScore, Gen.mateWindow]
  refine ⟨by omega, ?_⟩
  have : (100000 - (100000 - (2 * n - 1)) + 1 : Int) = 2 * n := by omega
  rw [this, Int.tdiv_eq_ediv_of_nonneg (by omega)]
  omega

/-- side to move is mated in n moves: the mated node is at ply 2n, the root sees −(MATE − 2n) and prints −n -/
theorem mate_distance_of_loss (n : Int) (h1 : 1 ≤ n) (h7 : n ≤ 7) :
    -(Gen.mateScore - 2 * n) ≤ -Gen.mateScore + Gen.mateWindow ∧
    Int.tdiv (Gen.mateScore + -(Gen.mateScore - 2 * n)) (-2) = -n := by
  simp only [Gen.mateScore, Gen.mateWindow]
  refine ⟨by omega, ?_⟩
  have : (100000 + -(100000 - 2 * n) : Int) = 2 * n := by omega
  rw [this, Int.tdiv_neg, Int.tdiv_eq_ediv_of_nonneg (by omega)]
  omega

variable {P O : Type} (g : Game P) (ord : Oracle P O)

/-- if the side to move can give checkmate in one move, an iteration (1, 2 or 3) that runs to its
    end finishes with the score MATE − 1 (printed `mate 1`) and the move it remembers gives checkmate -/
theorem mate_in_one_played (E : Nat) (hg : GameOK g E) (hord : OrdPerm ord) (fuel curDepth : Nat) (first : P)
    (t : DrawTable) (hcd : curDepth - 1 < 3) (hE : (E : Int) + 1 + (fuel + 1) < Gen.mateScore) (l : List P)
    (best : Option P) (m : P) (hm : m ∈ l) (h3 : t.isThreefold (g.key m) = false)
    (hmate : g.gen m .all = [] ∧ g.inCheck m = true) :
    Triple (St t) (rootLoop g ord (fuel + 1) curDepth first l (-Gen.posInf) best)
      (fun r _ => ∃ B, r = some (Gen.mateScore - 1, some B) ∧ B ∈ l ∧ g.gen B .all = [] ∧ g.inCheck B = true) := by
  refine ⟨?_⟩
  intro s r s' hst he
  obtain ⟨_, A, B, hr, hA, hB1, _⟩ := (rootLoop_triple g ord E hg hord (fuel + 1) curDepth first t hcd hE l (-Gen.posInf) best
    (Int.le_refl _) (by decide)).run s r s' hst he
  have hv := negamax_mated g fuel (curDepth - 1) 1 t m h3 hmate.1 hmate.2
  have h0 := maxNeg_mem (Spec.negamax g (fuel + 1) (curDepth - 1) 1 t) l (-Gen.posInf) m hm
  rw [← hA, hv] at h0
  -- nothing is worth more than MATE − 1 at ply 1
  have hub : A ≤ Gen.mateScore - 1 := by
    rw [hA]
    apply (maxNeg_bound _ l (-Gen.posInf) (-Gen.posInf) (Gen.mateScore - 1) ⟨Int.le_refl _, by decide⟩ ?_).2
    intro x _
    have := negamax_range g E hg (fuel + 1) (curDepth - 1) 1 t x (by push_cast; omega)
    have hp : (Gen.posInf : Int) = 9999999 := rfl
    have hmm : (Gen.mateScore : Int) = 100000 := rfl
    push_cast at this
    omega
  have hAe : A = Gen.mateScore - 1 := by push_cast at h0; omega
  have hlt : -Gen.posInf < A := by rw [hAe]; decide
  obtain ⟨b, hb, hBe, hbv⟩ := hB1 hlt
  refine ⟨b, by rw [hr, hAe, hBe], hb, ?_⟩
  -- a move worth MATE − 1 is a checkmate
  exact Classical.byContradiction fun hnm => by
    have := negamax_gt_unless_mated g E hg fuel (curDepth - 1) 1 t b (by push_cast; omega) hnm
    push_cast at this
    omega

/-- a draw score (stalemate, repetition) is never printed as a mate -/
theorem stalemate_not_mate : ¬ ((0 : Int) ≥ Gen.mateScore - Gen.mateWindow) ∧ ¬ ((0 : Int) ≤ -Gen.mateScore + Gen.mateWindow) := by
  simp only [Gen.mateScore, Gen.mateWindow]; omega

/-- so the info line of an accepted evaluation 0 is a `cp 0` line -/
theorem draw_is_reported_as_cp (i : Info) (h : i.eval = 0) :
    infoText i = s!"info pv{String.join (i.pv.map fun m => " " ++ mvText m)} depth {i.depth} nodes {i.nodes} score " ++ s!"cp {i.eval}" := by
  unfold infoText
  have := stalemate_not_mate
  simp only [h, this.1, this.2, if_false]

end Walleye
