/-
  C11 — mate announcements are true and a mate in one is always played.
  Status: there is no universal soundness theorem for the deeper iterations (speculative null-move
  pruning); the whole property is decided by exploration against the Lean mate solver
  (`mateinfo` / `matecheck` in the driver) over mate/stalemate neighbourhoods.  Proved here: the
  arithmetic that turns a mate evaluation into the printed distance and back, for the values the
  search assigns (`mate_distance_of_win`, `mate_distance_of_loss`), and a draw value (stalemate,
  repetition) is never in a mate band, so it is printed as `cp 0` (`stalemate_not_mate`,
  `draw_is_reported_as_cp`).
-/
import Walleye.Proofs.Reports
import Walleye.Model.SearchChess
namespace Walleye

/-- side to move mates in n (n ≥ 1): the mated node is at ply 2n−1, the root sees MATE − (2n−1) and prints n -/
theorem mate_distance_of_win (n : Int) (h1 : 1 ≤ n) (h8 : n ≤ 8) :
    Gen.mateScore - (2 * n - 1) ≥ Gen.mateScore - Gen.mateWindow ∧
    Int.tdiv (Gen.mateScore - (Gen.mateScore - (2 * n - 1)) + 1) 2 = n := by
  simp only [Gen.mateScore, Gen.mateWindow]
  refine ⟨by omega, ?_⟩
  have : (100000 - (100000 - (2 * n - 1)) + 1 : Int) = 2 * n := by omega
  rw [this, Int.tdiv_eq_ediv_of_nonneg (by omega)]
  omega

/-- side to move is mated in n moves: the mated node is at ply 2n, the root sees −(MATE − 2n) and prints −n -/
theorem mate_distance_of_loss (n : Int) (h1 : 1 ≤ n) (h7 : n ≤ 7) :
    -(Gen.mateScore - 2 * n) ≤ -Gen.mateScore + Gen.mateWindow ∧
    Int.tdiv (Gen.mateScore + -(Gen.mateScore - 2 * n)) (-2) = -n := by
  simp only [Gen.mateScore, Gen.mateWindow]
  refine ⟨by omega, ?_⟩
  have : (100000 + -(100000 - 2 * n) : Int) = 2 * n := by omega
  rw [this, Int.tdiv_neg, Int.tdiv_eq_ediv_of_nonneg (by omega)]
  omega

/-- a draw score (stalemate, repetition) is never printed as a mate -/
theorem stalemate_not_mate : ¬ ((0 : Int) ≥ Gen.mateScore - Gen.mateWindow) ∧ ¬ ((0 : Int) ≤ -Gen.mateScore + Gen.mateWindow) := by
  simp only [Gen.mateScore, Gen.mateWindow]; omega

/-- so the info line of an accepted evaluation 0 is a `cp 0` line -/
theorem draw_is_reported_as_cp (i : Info) (h : i.eval = 0) :
    infoText i = s!"info pv{String.join (i.pv.map fun m => " " ++ mvText m)} depth {i.depth} nodes {i.nodes} score " ++ s!"cp {i.eval}" := by
  unfold infoText
  have := stalemate_not_mate
  simp only [h, this.1, this.2, if_false]

end Walleye
