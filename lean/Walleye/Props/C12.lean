/-
  C12 — shallow search returns the exact minimax value of its own evaluation.

  SPEC: `Spec.negamax` (plain minimax with check extension, capture quiescence, mate and repetition
  scoring; Spec/Negamax.lean).
  Proved (every game, every ordering that permutes, every window, every repetition table):
    * `oracle_is_minimax` (= `fast_spec`): the plain fail-soft alpha-beta evaluator used as the
      executable oracle of the C12/C10/C11 checks satisfies the window relation `Bnd` with respect to
      `Spec.negamax`, hence equals it whenever the value lies inside the window (`oracle_exact`);
    * `ordering_never_changes_the_value`: minimax over any permutation of the moves is the same
      (principal-variation-first, killers, capture ordering are permutations);
    * `null_move_dead_in_iterations_1_to_3`: the null-move test needs remaining depth ≥ 3, which a
      root child of iterations 1–3 never has.
    * `engine_search_is_minimax` (= `ab_spec`): the ENGINE-SHAPED search of the model — fail-hard
      quiescence, mate-distance clamp, first move with the full window, the others with a zero
      window and a re-search, PV / killer / current-line bookkeeping threaded through the state, the
      repetition table added and removed around every node — satisfies `Bnd` w.r.t. `Spec.negamax`,
      for every game with a bounded evaluation whose minimax value ignores the ordering tag, every
      ordering oracle that permutes, every window α < β, every repetition table, remaining depth < 3
      (no null move), a clock that does not expire and a call that finishes normally; and returns
      exactly the minimax value when that value is inside the window (`engine_search_exact`).
  The model<->code tie is checked on every run: the REAL search is run to the end of iteration 3
  under the virtual clock, with and without repetition histories; every final score and selected
  move is compared with the proved oracle, and the model replays the same run from the engine's
  order log and must agree exactly (node counts, info lines, sent boards).
-/
import Walleye.Proofs.RootSpec
namespace Walleye
open Spec

variable {P : Type} (g : Game P) (order : List P → List P)

theorem oracle_is_minimax (hord : ∀ l, (order l).Perm l) (fuel depth ply : Nat) (t : DrawTable) (p : P)
    (a b : Int) (hab : a < b) :
    Bnd (negamax g fuel depth ply t p) a b (fast g order fuel depth ply t p a b) :=
  fast_spec g order hord fuel depth ply t p a b hab

theorem oracle_exact (hord : ∀ l, (order l).Perm l) (fuel depth ply : Nat) (t : DrawTable) (p : P) (a b : Int)
    (h1 : a < negamax g fuel depth ply t p) (h2 : negamax g fuel depth ply t p < b) :
    fast g order fuel depth ply t p a b = negamax g fuel depth ply t p :=
  fast_exact g order hord fuel depth ply t p a b h1 h2

theorem quiescence_oracle_is_minimax (hord : ∀ l, (order l).Perm l) (fuel : Nat) (p : P) (a b : Int) (hab : a < b) :
    Bnd (qval g fuel p) a b (qfast g order fuel p a b) := qfast_spec g order hord fuel p a b hab

theorem ordering_never_changes_the_value (f : P → Int) (l l' : List P) (h : l.Perm l') (acc : Int) :
    maxNeg f l acc = maxNeg f l' acc := maxNeg_perm f l l' h acc

theorem null_move_dead_in_iterations_1_to_3 (allowNull : Bool) (depth : Nat) (inCheck : Bool) (hd : depth < 3) :
    ¬ (allowNull = true ∧ depth ≥ Gen.nullMinDepth ∧ ¬ inCheck = true) := null_dead_below_3 allowNull depth inCheck hd

/-- the engine-shaped search is minimax (see the header) -/
theorem engine_search_is_minimax {O : Type} (ord : Oracle P O) (E : Nat) (hg : GameOK g E) (hord : OrdPerm ord)
    (fuel : Nat) (p : P) (depth ply : Nat) (a b : Int) (n : Bool) (t : DrawTable)
    (hd : depth < 3) (hab : a < b) (hE : (E : Int) + ply + fuel < Gen.mateScore) :
    Triple (St t) (alphaBeta g ord fuel p depth ply a b n)
      (fun v s' => Bnd (negamax g fuel depth ply t p) a b v ∧ St t s') :=
  ab_spec g ord E hg hord fuel p depth ply a b n t hd hab hE

theorem engine_search_exact {O : Type} (ord : Oracle P O) (E : Nat) (hg : GameOK g E) (hord : OrdPerm ord)
    (fuel : Nat) (p : P) (depth ply : Nat) (a b : Int) (n : Bool) (t : DrawTable) (s s' : SS P O) (v : Int)
    (hd : depth < 3) (hE : (E : Int) + ply + fuel < Gen.mateScore) (hst : St t s)
    (h1 : a < negamax g fuel depth ply t p) (h2 : negamax g fuel depth ply t p < b)
    (he : alphaBeta g ord fuel p depth ply a b n s = .ok v s') : v = negamax g fuel depth ply t p :=
  ab_exact g ord E hg hord fuel p depth ply a b n t s s' v hd hE hst h1 h2 he

/-- the chess model meets the game hypotheses (bounded evaluation by C14; the minimax value ignores
    the ordering tag), so the two theorems above hold for the model of the real engine, every hasher -/
theorem chess_engine_search_is_minimax {O : Type} (h : Hasher) (ord : Oracle Pos O) (hord : OrdPerm ord)
    (fuel : Nat) (p : Pos) (depth ply : Nat) (a b : Int) (n : Bool) (t : DrawTable)
    (hd : depth < 3) (hab : a < b) (hE : (70400 : Int) + ply + fuel < Gen.mateScore) :
    Triple (St t) (alphaBeta (chessGame h) ord fuel p depth ply a b n)
      (fun v s' => Bnd (negamax (chessGame h) fuel depth ply t p) a b v ∧ St t s') :=
  ab_spec (chessGame h) ord 70400 (chess_gameOK h) hord fuel p depth ply a b n t hd hab hE

/-- `root_exact`: one iteration (1, 2 or 3) of the root loop with a clock that does not expire ends
    with alpha = the maximum over all root moves of their exact minimax values, and — when alpha was
    raised — remembers a move attaining it: "the score reported equals the exact minimax value and
    the move selected attains it" -/
theorem root_exact {O : Type} (ord : Oracle P O) (E : Nat) (hg : GameOK g E) (hord : OrdPerm ord)
    (fuel curDepth : Nat) (first : P) (t : DrawTable) (hcd : curDepth - 1 < 3)
    (hE : (E : Int) + 1 + fuel < Gen.mateScore) (l : List P) (best : Option P) :
    Triple (St t) (rootLoop g ord fuel curDepth first l (-Gen.posInf) best)
      (fun r s' => St t s' ∧ ∃ A B, r = some (A, B) ∧
        A = maxNeg (negamax g fuel (curDepth - 1) 1 t) l (-Gen.posInf) ∧
        (-Gen.posInf < A → ∃ m ∈ l, B = some m ∧ - negamax g fuel (curDepth - 1) 1 t m = A) ∧
        (A = -Gen.posInf → B = best)) :=
  rootLoop_triple g ord E hg hord fuel curDepth first t hcd hE l (-Gen.posInf) best (Int.le_refl _) (by decide)

/-- non-vacuity: a two-move game where the second move is better; any window containing the value -/
example : maxNeg (fun (x : Nat) => (x : Int)) [3, 1] (-5) = -1 := by decide

end Walleye
