/-
  C06 — check detection agrees with the rules for both sides.
  Status: PROVED at full strength for the model (`check_detection_is_the_rules`): for every mailbox
  with the sentinel ring in place, no sentinel on the 64 inner squares and the two king caches
  pointing at the one king of each colour, `isCheck p c = Spec.inCheck (abs p) c` for both colours —
  Spec.inCheck being the rules of movement on the 8x8 board (sliders stopped by the first piece,
  pawns diagonally forward, knights, adjacent king).  The proof goes through the declarative mailbox
  relation `AttackedM` (Proofs/Check: `isCheckCords_iff`, any probed square — also the castling
  transit squares) and the bridge Proofs/CheckSpec (`attacked_iff_AttackedM`).  The tie of the model
  to the Rust code is the correspondence run (check lattice: king x attacker kind x attacker square
  x blocker, both colours, every pair of adjacent kings, all playout positions).
  Also kept: the ray walk stops at the first non-empty square and only passes
  empty squares (`ray_walk_passes_only_empties`), so a slider behind a blocker is never seen; the
  probes are side-symmetric in the sense that an adjacent enemy king always gives check, for both
  colours and for any probed square (`adjacent_king_gives_check`); a knight / pawn on a probe
  square gives check (`knight_probe_hit`, `pawn_probe_hit`).
-/
import Walleye.Proofs.CheckSpec
import Walleye.Proofs.Start
import Walleye.Props.C02
import Walleye.Proofs.FenFaithful
namespace Walleye

/-- every square the walk passes before it stops is empty -/
theorem ray_walk_passes_only_empties (b : Board) (dr dc : Int) (fuel : Nat) (r c : Int) :
    ∀ pt ∈ (walk b dr dc fuel r c []).1, (b.get pt.row pt.col).isEmpty = true := by
  have gen : ∀ (fuel : Nat) (r c : Int) (acc : List Point), (∀ pt ∈ acc, (b.get pt.row pt.col).isEmpty = true) →
      ∀ pt ∈ (walk b dr dc fuel r c acc).1, (b.get pt.row pt.col).isEmpty = true := by
    intro fuel
    induction fuel with
    | zero => intro r c acc ha; simpa [walk] using ha
    | succ n ih =>
      intro r c acc ha
      simp only [walk]
      by_cases he : (b.getI r c).isEmpty = true
      · simp only [he, if_true]
        apply ih
        intro pt hpt
        cases List.mem_append.mp hpt with
        | inl h => exact ha pt h
        | inr h =>
          simp only [List.mem_singleton] at h
          subst h
          obtain ⟨_, _, e⟩ := getI_ne_boundary b r c (isEmpty_ne_boundary _ he)
          unfold ptI; rw [← e]; exact he
      · simp only [he]; exact ha
  exact gen fuel r c [] (by simp)

/-- the square the walk reports is the content of the point it reports (or a sentinel) -/
theorem ray_walk_hit (b : Board) (dr dc : Int) (fuel : Nat) (r c : Int) :
    (walk b dr dc fuel r c []).2.2 ≠ .boundary →
      (walk b dr dc fuel r c []).2.2 = b.get (walk b dr dc fuel r c []).2.1.row (walk b dr dc fuel r c []).2.1.col :=
  (walk_spec b dr dc fuel r c [] (by simp)).2

/-- an enemy king next to the probed square gives check — for either colour, any probed square
    (this is the clause the castling defect b8b9690 violated for squares other than the king's) -/
theorem adjacent_king_gives_check (p : Pos) (c : Color) (sq : Point)
    (hadj : match c with
      | .white => ((p.bk.row : Int) - sq.row).natAbs ≤ 1 ∧ ((p.bk.col : Int) - sq.col).natAbs ≤ 1
      | .black => ((p.wk.row : Int) - sq.row).natAbs ≤ 1 ∧ ((p.wk.col : Int) - sq.col).natAbs ≤ 1) :
    isCheckCords p c sq = true := by
  unfold isCheckCords
  simp only [Bool.or_eq_true, decide_eq_true_eq]
  right
  cases c <;> exact hadj

/-- an enemy knight on one of the eight knight offsets gives check -/
theorem knight_probe_hit (p : Pos) (c : Color) (sq : Point) (rc : Int × Int) (hrc : rc ∈ Gen.knightCords)
    (hk : (p.board.getI ((sq.row : Int) + rc.1) ((sq.col : Int) + rc.2)).isPiece ⟨c.opp, .knight⟩ = true) :
    isCheckCords p c sq = true := by
  unfold isCheckCords
  simp only [Bool.or_eq_true, decide_eq_true_eq]
  left; left; right
  exact List.any_eq_true.mpr ⟨rc, hrc, hk⟩

/-- an enemy pawn diagonally in front (from the defender's point of view) gives check -/
theorem pawn_probe_hit_white (p : Pos) (sq : Point)
    (hp : (p.board.get (sq.row - 1) (sq.col - 1)).isPiece ⟨.black, .pawn⟩ = true ∨
          (p.board.get (sq.row - 1) (sq.col + 1)).isPiece ⟨.black, .pawn⟩ = true) :
    isCheckCords p .white sq = true := by
  unfold isCheckCords
  simp only [Bool.or_eq_true, decide_eq_true_eq, Color.opp]
  left; right
  exact hp

/-- C06, full statement on the model -/
theorem check_detection_is_the_rules (p : Pos) (hr : RingOK p.board) (hi : InnerOK p.board)
    (hk : KingsOK p) (c : Color) : isCheck p c = Spec.inCheck (abs p) c :=
  isCheck_eq_inCheck p hr hi hk c

/-- the attack test on ANY probed square (castling transit squares included) is the declarative
    attack relation of the mailbox -/
theorem probe_is_attack_relation (p : Pos) (hr : RingOK p.board) (c : Color) (t : Point) (ht : OnBoard t) :
    isCheckCords p c t = true ↔
      AttackedM p.board c.opp t (match c with | .white => p.bk | .black => p.wk) :=
  isCheckCords_iff p hr c t ht

/-- the premises are satisfiable: the initial position meets them (finite kernel computation) -/
theorem start_premises : RingOK startPosition.board ∧ InnerOK startPosition.board ∧ KingsOK startPosition := by
  have ring := start_ring
  refine ⟨ring, ?_, ?_⟩
  · intro r c hob
    unfold OnBoard at hob
    have key : ∀ r : Fin 12, ∀ c : Fin 12, (2 ≤ r.val ∧ r.val ≤ 9 ∧ 2 ≤ c.val ∧ c.val ≤ 9) →
        startPosition.board.get r.val c.val ≠ .boundary := by decide +kernel
    exact key ⟨r, by simp only at hob; omega⟩ ⟨c, by simp only at hob; omega⟩ hob
  · intro c
    constructor
    · cases c <;> decide +kernel
    · intro r k h
      have hob := ring r k (by rw [h]; simp)
      unfold OnBoard at hob
      simp only at hob
      cases c
      · have key : ∀ r : Fin 12, ∀ k : Fin 12,
            startPosition.board.get r.val k.val = .full ⟨.white, .king⟩ → (⟨r.val, k.val⟩ : Point) = kingPt startPosition .white := by
          decide +kernel
        exact key ⟨r, by omega⟩ ⟨k, by omega⟩ h
      · have key : ∀ r : Fin 12, ∀ k : Fin 12,
            startPosition.board.get r.val k.val = .full ⟨.black, .king⟩ → (⟨r.val, k.val⟩ : Point) = kingPt startPosition .black := by
          decide +kernel
        exact key ⟨r, by omega⟩ ⟨k, by omega⟩ h

/-- **C06 at every position of every game**: the premises are preserved by the generator, so check
    detection is the rules at every position reachable by generated moves from a well-formed one -/
theorem check_detection_along_chains (h : Hasher) (p q : Pos) (wf : WFp p) (hinv : Inv h p) (hc : GenChain h p q)
    (c : Color) : isCheck q c = Spec.inCheck (abs q) c := by
  have wfq := (gen_chain_wf h p q wf hinv hc).1
  exact isCheck_eq_inCheck q wfq.ring wfq.inner wfq.kings c

/-- … and for every legal position given as FEN and everything reachable from it -/
theorem check_detection_from_every_fen_position (h : Hasher) (P : Spec.Position) (hsz : P.cells.size = 64)
    (hlegal : Spec.LegalPosition P = true) (half full : List Char) (hh : CounterOK half) (hf : CounterOK full) :
    ∃ p, fromFen h (canonText P half full) = .ok p ∧ abs p = P ∧
      ∀ q, GenChain h p q → ∀ c, isCheck q c = Spec.inCheck (abs q) c := by
  have hlp := LP_of P hlegal
  have hep : ∀ e, P.ep = some e → InB e := by
    intro e he
    obtain ⟨h1, h2, _⟩ := hlp.ep e he
    refine ⟨h1, ?_⟩
    rw [h2]; cases P.side.opp <;> decide
  obtain ⟨p, hload, habs, hwf⟩ := fromFen_canonical h P hsz hep half full hh hf
  obtain ⟨wf, hinv⟩ := hwf hlp
  exact ⟨p, hload, habs, fun q hc c => check_detection_along_chains h p q wf hinv hc c⟩

end Walleye
