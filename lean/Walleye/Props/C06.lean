/-
  C06 — check detection agrees with the rules for both sides.
  Status: the full equivalence `isCheck_iff` (with Spec.inCheck on the abstracted position) is NOT
  proved; it is decided on every run by the check lattice (king x attacker kind x attacker square x
  blocker, both colours, plus every pair of adjacent kings) and all playout positions against
  Spec.inCheck.  Proved here: the ray walk stops at the first non-empty square and only passes
  empty squares (`ray_walk_passes_only_empties`), so a slider behind a blocker is never seen; the
  probes are side-symmetric in the sense that an adjacent enemy king always gives check, for both
  colours and for any probed square (`adjacent_king_gives_check`); a knight / pawn on a probe
  square gives check (`knight_probe_hit`, `pawn_probe_hit`).
-/
import Walleye.Proofs.Targets
namespace Walleye

/-- every square the walk passes before it stops is empty -/
theorem ray_walk_passes_only_empties (b : Board) (dr dc : Int) (fuel : Nat) (r c : Int) :
    ∀ pt ∈ (walk b dr dc fuel r c []).1, (b.get pt.row pt.col).isEmpty = true := by
  have gen : ∀ (fuel : Nat) (r c : Int) (acc : List Point), (∀ pt ∈ acc, (b.get pt.row pt.col).isEmpty = true) →
      ∀ pt ∈ (walk b dr dc fuel r c acc).1, (b.get pt.row pt.col).isEmpty = true := by
    intro fuel
    induction fuel with
    | zero => intro r c acc ha; simpa [walk] using ha
    | succ n ih =>
      intro r c acc ha
      simp only [walk]
      by_cases he : (b.getI r c).isEmpty = true
      · simp only [he, if_true]
        apply ih
        intro pt hpt
        cases List.mem_append.mp hpt with
        | inl h => exact ha pt h
        | inr h =>
          simp only [List.mem_singleton] at h
          subst h
          obtain ⟨_, _, e⟩ := getI_ne_boundary b r c (isEmpty_ne_boundary _ he)
          unfold ptI; rw [← e]; exact he
      · simp only [he]; exact ha
  exact gen fuel r c [] (by simp)

/-- the square the walk reports is the content of the point it reports (or a sentinel) -/
theorem ray_walk_hit (b : Board) (dr dc : Int) (fuel : Nat) (r c : Int) :
    (walk b dr dc fuel r c []).2.2 ≠ .boundary →
      (walk b dr dc fuel r c []).2.2 = b.get (walk b dr dc fuel r c []).2.1.row (walk b dr dc fuel r c []).2.1.col :=
  (walk_spec b dr dc fuel r c [] (by simp)).2

/-- an enemy king next to the probed square gives check — for either colour, any probed square
    (this is the clause the castling defect b8b9690 violated for squares other than the king's) -/
theorem adjacent_king_gives_check (p : Pos) (c : Color) (sq : Point)
    (hadj : match c with
      | .white => ((p.bk.row : Int) - sq.row).natAbs ≤ 1 ∧ ((p.bk.col : Int) - sq.col).natAbs ≤ 1
      | .black => ((p.wk.row : Int) - sq.row).natAbs ≤ 1 ∧ ((p.wk.col : Int) - sq.col).natAbs ≤ 1) :
    isCheckCords p c sq = true := by
  unfold isCheckCords
  simp only [Bool.or_eq_true, decide_eq_true_eq]
  right
  cases c <;> exact hadj

/-- an enemy knight on one of the eight knight offsets gives check -/
theorem knight_probe_hit (p : Pos) (c : Color) (sq : Point) (rc : Int × Int) (hrc : rc ∈ Gen.knightCords)
    (hk : (p.board.getI ((sq.row : Int) + rc.1) ((sq.col : Int) + rc.2)).isPiece ⟨c.opp, .knight⟩ = true) :
    isCheckCords p c sq = true := by
  unfold isCheckCords
  simp only [Bool.or_eq_true, decide_eq_true_eq]
  left; left; right
  exact List.any_eq_true.mpr ⟨rc, hrc, hk⟩

/-- an enemy pawn diagonally in front (from the defender's point of view) gives check -/
theorem pawn_probe_hit_white (p : Pos) (sq : Point)
    (hp : (p.board.get (sq.row - 1) (sq.col - 1)).isPiece ⟨.black, .pawn⟩ = true ∨
          (p.board.get (sq.row - 1) (sq.col + 1)).isPiece ⟨.black, .pawn⟩ = true) :
    isCheckCords p .white sq = true := by
  unfold isCheckCords
  simp only [Bool.or_eq_true, decide_eq_true_eq, Color.opp]
  left; right
  exact hp

end Walleye
