/-
  C08 — `go` is always answered and the engine stays responsive (logic; latency is measured).
-/
import Walleye.Props.C17
import Walleye.Proofs.Reports
namespace Walleye
open Str

variable (h : Hasher) (search : Pos → DrawTable → Nat → Option Pos)

/-- in a position without legal moves (mate or stalemate) `go` is answered at once with the null
    move, whatever the clocks are, and the state is kept (the defect fixed in 3a50ceb) -/
theorem go_on_terminal_position_answers_null_move (σ : Sess) (raw : List Char) (gt : GameTime)
    (hc : String.ofList ((splitOn ' ' (cleanInput raw)).headD []) = "go")
    (hg : parseGoCommand (splitOn ' ' (cleanInput raw)) = some gt)
    (hterm : generateMoves h σ.board .all = []) :
    step h search σ (some raw) = .cont σ ["bestmove 0000"] := by
  unfold step
  simp +decide only [hc, if_true, if_false, hg, hterm, List.isEmpty_nil]

/-- after any answered command the machine accepts the next one: `isready` → `readyok` -/
theorem session_continues (σ : Sess) (out : List String) (raw raw2 : List Char) (σ' : Sess)
    (_h1 : step h search σ (some raw) = .cont σ' out)
    (hc : String.ofList ((splitOn ' ' (cleanInput raw2)).headD []) = "isready") :
    step h search σ' (some raw2) = .cont σ' ["readyok"] := isready_answered h search σ' raw2 hc

/-! ### the polling loop over an arbitrary schedule -/

/-- if the loop exits, the board it returns is one that arrived (or the one it started with) -/
theorem ioLoop_result_mem (sched : List (Bool × Option Pos)) (best r : Option Pos)
    (hr : ioLoop sched best = some r') : some r' = best ∨ some r' ∈ sched.map (·.2) := by
  induction sched generalizing best with
  | nil => simp [ioLoop] at hr
  | cons x xs ih =>
    obtain ⟨oot, arr⟩ := x
    unfold ioLoop at hr
    split at hr
    · left; exact hr.symm
    · cases arr with
      | some b =>
        simp only [takeMsg] at hr
        cases ih (some b) hr with
        | inl e => right; simp [e]
        | inr e => right; simp only [List.map_cons, List.mem_cons]; right; exact e
      | none =>
        simp only [takeMsg] at hr
        cases ih best hr with
        | inl e => left; exact e
        | inr e => right; simp only [List.map_cons, List.mem_cons]; right; exact e

/-- the loop exits at the first poll at which the deadline has passed and a board is held -/
theorem ioLoop_exits (pre : List (Bool × Option Pos)) (rest : List (Bool × Option Pos)) (best b : Option Pos)
    (hpre : ∀ x ∈ pre, x.1 = false) (hb : (pre.foldl (fun acc x => takeMsg x.2 acc) best) = b)
    (hsome : b.isSome) (arr : Option Pos) :
    ioLoop (pre ++ (true, arr) :: rest) best = b := by
  induction pre generalizing best with
  | nil =>
    simp only [List.nil_append, List.foldl_nil] at *
    subst hb
    unfold ioLoop
    simp [hsome]
  | cons x xs ih =>
    obtain ⟨oot, a⟩ := x
    have ho : oot = false := hpre (oot, a) (by simp)
    subst ho
    simp only [List.cons_append, ioLoop, Bool.false_eq_true, false_and, if_false]
    apply ih
    · intro y hy; exact hpre y (by simp [hy])
    · simpa using hb

/-- without any arrival the loop never exits: this is why a terminal position has to be answered
    before the loop is entered -/
theorem ioLoop_no_message_never_exits (sched : List (Bool × Option Pos))
    (hno : ∀ x ∈ sched, x.2 = none) : ioLoop sched none = none := by
  induction sched with
  | nil => rfl
  | cons x xs ih =>
    obtain ⟨oot, arr⟩ := x
    have : arr = none := hno (oot, arr) (by simp)
    subst this
    unfold ioLoop
    simp only [Option.isSome_none, Bool.false_eq_true, and_false, if_false, takeMsg]
    exact ih (fun y hy => hno y (by simp [hy]))


/-- **`go` never hangs** once a board has arrived before the deadline poll: whatever else the
    schedule does, the dispatcher gets a board back from the polling loop (the search thread hands
    one over before its first evaluation starts — `search_always_hands_over_a_move`, Props/C03) -/
theorem go_does_not_hang (σ : Sess) (raw : List Char) (gt : GameTime)
    (hc : String.ofList ((splitOn ' ' (cleanInput raw)).headD []) = "go")
    (hg : parseGoCommand (splitOn ' ' (cleanInput raw)) = some gt)
    (pre rest : List (Bool × Option Pos)) (arr : Option Pos)
    (hpre : ∀ x ∈ pre, x.1 = false)
    (harrived : (pre.foldl (fun acc x => takeMsg x.2 acc) none).isSome)
    (hsearch : search σ.board σ.table (calculateTimeSlice gt σ.board.toMove) = ioLoop (pre ++ (true, arr) :: rest) none) :
    step h search σ (some raw) ≠ .hang := by
  have hex := ioLoop_exits pre rest none _ hpre rfl harrived arr
  rw [hex] at hsearch
  unfold step
  simp +decide only [hc, if_true, if_false, hg]
  split
  · intro hh; cases hh
  · rw [hsearch]
    cases hb : pre.foldl (fun acc x => takeMsg x.2 acc) none with
    | none => rw [hb] at harrived; cases harrived
    | some b =>
      simp only
      split <;> (intro hh; cases hh)

end Walleye
