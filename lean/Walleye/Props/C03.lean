/-
  C03 — every `go` is answered by exactly one legal, well-formed bestmove (logic part).
  Proved: what the search thread can send, what the polling loop returns, what the dispatcher
  prints.  With C01 (`generateMoves_sound`): `sent_moves_are_legal` — every board the search thread
  of the chess instance hands back, at every point of every run, carries a move that is LEGAL in the
  root position and is the specification's position after it.  That real threads realise some
  schedule of the polling model is observed black-box.
-/
import Walleye.Props.C08
import Walleye.Props.C04
import Walleye.Proofs.GenSound
import Walleye.Proofs.Fallback
import Walleye.Proofs.LegalPres
import Walleye.Proofs.MakeMoveObs
import Walleye.Model.SearchChess
import Walleye.Proofs.Handover
import Walleye.Proofs.HandoverSearch
import Walleye.Proofs.HandoverFine
namespace Walleye
open Str

/-- every board sent by `get_best_move` is a successor of the root (for every game, clock expiry,
    ordering oracle that returns a sub-list, at every point of the run) -/
theorem root_sends_subset {P O : Type} (g : Game P) (ord : Oracle P O) (hord : OrdSub ord) (fuel : Nat)
    (root : P) (s : SS P O) (hs : s.reports = #[]) :
    ∀ q, Report.sent q ∈ (outState (getBestMove g ord fuel root s)).reports.toList →
      ∃ m ∈ g.gen root .all, q = m ∨ q = g.withOh m Gen.posInf :=
  getBestMove_sends_root_successors g ord hord fuel root s hs

/-- the inner search never prints or sends anything by itself -/
theorem inner_search_is_silent {P O : Type} (g : Game P) (ord : Oracle P O) (fuel : Nat) (p : P)
    (d ply : Nat) (a b : Int) (n : Bool) (s : SS P O) :
    (outState (alphaBeta g ord fuel p d ply a b n s)).reports = s.reports :=
  alphaBeta_silent g ord fuel p d ply a b n s

/-- every board the search of the chess instance sends carries a legal move of the root position
    (any clock expiry, any ordering oracle that returns a sub-list, whatever the outcome) -/
theorem sent_moves_are_legal {O : Type} (h : Hasher) (ord : Oracle Pos O) (hord : OrdSub ord) (fuel : Nat)
    (root : Pos) (wf : WFp root) (s : SS Pos O) (hs : s.reports = #[]) :
    ∀ q, Report.sent q ∈ (outState (getBestMove (chessGame h) ord fuel root s)).reports.toList →
      Spec.legal (abs root) (moveOf q) = true ∧ abs q = Spec.apply (abs root) (moveOf q) := by
  intro q hq
  obtain ⟨m, hm, hor⟩ := getBestMove_sends_root_successors (chessGame h) ord hord fuel root s hs q hq
  have hsound := generateMoves_sound h root wf m hm
  rcases hor with rfl | rfl
  · exact hsound
  · exact hsound

variable (h : Hasher) (search : Pos → DrawTable → Nat → Option Pos)

/-- one `go` prints exactly one line, and it is a `bestmove` line -/
theorem go_prints_exactly_one_bestmove (σ σ' : Sess) (raw : List Char) (out : List String)
    (hc : String.ofList ((splitOn ' ' (cleanInput raw)).headD []) = "go")
    (hs : step h search σ (some raw) = .cont σ' out) :
    ∃ t : List Char, out = [String.ofList ("bestmove ".toList ++ t)] := by
  unfold step at hs
  simp +decide only [hc, if_true, if_false] at hs
  cases hp : parseGoCommand (splitOn ' ' (cleanInput raw)) with
  | none => rw [hp] at hs; cases hs
  | some gt =>
    rw [hp] at hs
    simp only at hs
    by_cases hem : (generateMoves h σ.board .all).isEmpty = true
    · rw [if_pos hem] at hs; cases hs; exact ⟨"0000".toList, by decide⟩
    · rw [if_neg hem] at hs
      cases hsr : search σ.board σ.table (calculateTimeSlice gt σ.board.toMove) with
      | none => rw [hsr] at hs; cases hs
      | some b =>
        rw [hsr] at hs
        simp only at hs
        cases hbl : bestmoveLine b with
        | none => rw [hbl] at hs; cases hs
        | some l =>
          rw [hbl] at hs
          cases hs
          unfold bestmoveLine at hbl
          cases hm : moveText b with
          | none => rw [hm] at hbl; cases hbl
          | some t =>
            rw [hm] at hbl
            simp only [Option.map_some, Option.some.injEq] at hbl
            subst hbl
            exact ⟨t, rfl⟩

/-- and the move on it is the descriptor of the board the polling loop ended with -/
theorem go_answer_is_search_result (σ σ' : Sess) (raw : List Char) (out : List String) (gt : GameTime)
    (hc : String.ofList ((splitOn ' ' (cleanInput raw)).headD []) = "go")
    (hg : parseGoCommand (splitOn ' ' (cleanInput raw)) = some gt)
    (hne : generateMoves h σ.board .all ≠ [])
    (hs : step h search σ (some raw) = .cont σ' out) :
    search σ.board σ.table (calculateTimeSlice gt σ.board.toMove) = some σ'.board ∧ σ'.table = σ.table := by
  unfold step at hs
  have hne' : (generateMoves h σ.board .all).isEmpty = false := by
    cases hl : generateMoves h σ.board .all with
    | nil => exact absurd hl hne
    | cons _ _ => rfl
  simp +decide only [hc, if_true, if_false, hg, hne'] at hs
  split at hs
  · split at hs
    · rename_i b _ _ _
      cases hs
      exact ⟨by assumption, rfl⟩
    · cases hs
  · cases hs


/-! ### the whole path of one `go`: search thread → channel → polling loop → `bestmove` text -/

/-- (after fix 3ef6069) the search thread hands over a board before its first evaluation starts,
    whenever the root has a move: for every game, clock expiry (also 0), oracle that keeps a move,
    and whatever the outcome of the run — so the polling loop never waits in vain -/
theorem search_always_hands_over_a_move {P O : Type} (g : Game P) (ord : Oracle P O) (hne : OrdNonempty ord)
    (fuel : Nat) (root : P) (s : SS P O) (hs : s.reports = #[]) (hroot : g.gen root .all ≠ []) :
    ∃ first rest, (outState (getBestMove g ord fuel root s)).reports.toList = Report.sent first :: rest := by
  obtain ⟨first, _, rest, _, h⟩ := getBestMove_hands_over_first g ord hne fuel root s hs hroot
  exact ⟨first, rest, h⟩

/-- the text printed for a root successor is `bestmove` + the long algebraic text of a move that is
    legal in the root position (promotion letter exactly when that move promotes: `uciText` prints
    the promotion piece of the move and C01 says which moves carry one), and the board is the
    specification's position after that move, well-formed again -/
theorem bestmove_text_is_a_legal_move (h : Hasher) (root : Pos) (wf : WFp root) (hinv : Inv h root) (q : Pos)
    (hq : ∃ m ∈ generateMoves h root .all, q = m ∨ q = (chessGame h).withOh m Gen.posInf) :
    bestmoveLine q = some ("bestmove ".toList ++ uciText (moveOf q)) ∧
    Spec.legal (abs root) (moveOf q) = true ∧ abs q = Spec.apply (abs root) (moveOf q) ∧ WFp q ∧ Inv h q := by
  obtain ⟨m, hm, hor⟩ := hq
  obtain ⟨a, b, _, hl, ha, hb, _, _⟩ := makeMove_reproduces_successor h root wf m hm
  obtain ⟨hlegal, habs⟩ := generateMoves_sound h root wf m hm
  obtain ⟨hwf, hinvm⟩ := generateMoves_wf h root wf hinv m hm
  have htxt : moveText m = some (uciText (moveOf m)) := by
    rw [moveText_eq m a b hl]
    unfold uciText moveOf
    rw [hl]
    simp only [toPt_specOf a ha, toPt_specOf b hb]
  have key : bestmoveLine m = some ("bestmove ".toList ++ uciText (moveOf m)) ∧
      Spec.legal (abs root) (moveOf m) = true ∧ abs m = Spec.apply (abs root) (moveOf m) ∧ WFp m ∧ Inv h m := by
    refine ⟨?_, hlegal, habs, hwf, hinvm⟩
    unfold bestmoveLine
    rw [htxt]; rfl
  rcases hor with rfl | rfl
  · exact key
  · exact ⟨key.1, key.2.1, key.2.2.1, ⟨hwf.ring, hwf.inner, hwf.kings, hwf.lp, hwf.epb⟩,
      ⟨hinvm.ring, hinvm.ep, hinvm.key⟩⟩

/-- **one `go`, end to end, on the model**: the current position is well-formed (a legal position,
    as produced by `position` from any legal FEN / move list — C15, C04) and has a legal move; the
    board the dispatcher plays was obtained by the polling loop, under ANY schedule of polls, from
    boards the search thread sent, under ANY clock expiry and ordering.  Then the `go` prints exactly
    one line, `bestmove` + the UCI long algebraic text of a move that is legal in the current
    position, and the engine's position becomes the rules' position after that move, well-formed
    again — so the statement applies to the next `go` without a new `position` as well. -/
theorem go_is_answered_with_one_legal_bestmove {O : Type} (h : Hasher) (search : Pos → DrawTable → Nat → Option Pos)
    (ord : Oracle Pos O) (hord : OrdSub ord) (fuel : Nat) (s0 : SS Pos O) (hs0 : s0.reports = #[])
    (σ σ' : Sess) (raw : List Char) (out : List String) (gt : GameTime)
    (wf : WFp σ.board) (hinv : Inv h σ.board)
    (hc : String.ofList ((splitOn ' ' (cleanInput raw)).headD []) = "go")
    (hg : parseGoCommand (splitOn ' ' (cleanInput raw)) = some gt)
    (hne : generateMoves h σ.board .all ≠ [])
    (sched : List (Bool × Option Pos))
    (hsearch : search σ.board σ.table (calculateTimeSlice gt σ.board.toMove) = ioLoop sched none)
    (harr : ∀ b, some b ∈ sched.map (·.2) →
      Report.sent b ∈ (outState (getBestMove (chessGame h) ord fuel σ.board s0)).reports.toList)
    (hs : step h search σ (some raw) = .cont σ' out) :
    ∃ m : Spec.Move, Spec.legal (abs σ.board) m = true ∧
      out = [String.ofList ("bestmove ".toList ++ uciText m)] ∧
      abs σ'.board = Spec.apply (abs σ.board) m ∧ WFp σ'.board ∧ Inv h σ'.board ∧ σ'.table = σ.table := by
  obtain ⟨hres, htab⟩ := go_answer_is_search_result h search σ σ' raw out gt hc hg hne hs
  rw [hsearch] at hres
  -- the board played arrived on the channel, hence was sent, hence is a root successor
  have hmem := ioLoop_result_mem sched none none hres
  have harrived : some σ'.board ∈ sched.map (·.2) := by
    rcases hmem with h0 | h1
    · cases h0
    · exact h1
  have hsent := harr σ'.board harrived
  have hroot := getBestMove_sends_root_successors (chessGame h) ord hord fuel σ.board s0 hs0 σ'.board hsent
  obtain ⟨hline, hlegal, habs, hwf, hinv'⟩ := bestmove_text_is_a_legal_move h σ.board wf hinv σ'.board hroot
  refine ⟨moveOf σ'.board, hlegal, ?_, habs, hwf, hinv', htab⟩
  -- what the dispatcher printed
  unfold step at hs
  have hne' : (generateMoves h σ.board .all).isEmpty = false := by
    cases hl : generateMoves h σ.board .all with
    | nil => exact absurd hl hne
    | cons _ _ => rfl
  simp +decide only [hc, if_true, if_false, hg, hne'] at hs
  rw [hsearch, hres] at hs
  simp only [hline] at hs
  injection hs with _ hout
  exact hout.symm


/-! ### several `go` commands without a new `position` -/

/-- what the threads and the channel deliver, as far as the dispatcher can tell: whenever `search`
    hands back a board for a well-formed position with a legal move, that board is a root successor
    (possibly re-tagged as the PV node).  `go_is_answered_with_one_legal_bestmove` derives this from
    the polling loop over any schedule and the search under any clock and ordering. -/
def Realised (h : Hasher) (search : Pos → DrawTable → Nat → Option Pos) : Prop :=
  ∀ board table slice b, WFp board → Inv h board → search board table slice = some b →
    ∃ m ∈ generateMoves h board .all, b = m ∨ b = (chessGame h).withOh m Gen.posInf

/-- the moves are legal one after the other -/
inductive LegalChain : Spec.Position → List Spec.Move → Prop
  | nil (P : Spec.Position) : LegalChain P []
  | cons {P : Spec.Position} {m : Spec.Move} {ms : List Spec.Move} :
      Spec.legal P m = true → LegalChain (Spec.apply P m) ms → LegalChain P (m :: ms)

/-- run a list of raw lines through the dispatcher, collecting the output of each -/
def runLines (h : Hasher) (search : Pos → DrawTable → Nat → Option Pos) : Sess → List (List Char) → Option (Sess × List (List String))
  | σ, [] => some (σ, [])
  | σ, raw :: rest =>
    match step h search σ (some raw) with
    | .cont σ' out => (runLines h search σ' rest).map fun r => (r.1, out :: r.2)
    | _ => none

/-- **consecutive `go` commands**: from a well-formed position, any number of `go` lines (any clock
    values) that are all answered print exactly one `bestmove` each; the moves on them form a chain
    in which each is legal in the position reached by playing the engine's previous answers, and the
    engine ends up holding exactly that position.  (A `go` on a position without legal moves answers
    the null move and ends the chain: the statement is about answers in positions that have a move.) -/
theorem consecutive_go_answers_are_legal (h : Hasher) (search : Pos → DrawTable → Nat → Option Pos)
    (hreal : Realised h search) :
    ∀ (raws : List (List Char)) (σ σ' : Sess) (outs : List (List String)),
      WFp σ.board → Inv h σ.board →
      (∀ raw ∈ raws, String.ofList ((splitOn ' ' (cleanInput raw)).headD []) = "go") →
      runLines h search σ raws = some (σ', outs) →
      (∀ o ∈ outs, o ≠ ["bestmove 0000"]) →
      ∃ ms : List Spec.Move, LegalChain (abs σ.board) ms ∧
        outs = ms.map (fun m => [String.ofList ("bestmove ".toList ++ uciText m)]) ∧
        abs σ'.board = ms.foldl Spec.apply (abs σ.board) ∧ WFp σ'.board ∧ Inv h σ'.board := by
  intro raws
  induction raws with
  | nil =>
    intro σ σ' outs wf hinv _ hrun _
    simp only [runLines, Option.some.injEq, Prod.mk.injEq] at hrun
    obtain ⟨rfl, rfl⟩ := hrun
    exact ⟨[], LegalChain.nil _, rfl, rfl, wf, hinv⟩
  | cons raw rest ih =>
    intro σ σ' outs wf hinv hgo hrun hnn
    have hc := hgo raw (by simp)
    unfold runLines at hrun
    cases hst : step h search σ (some raw) with
    | exit c => rw [hst] at hrun; cases hrun
    | panic => rw [hst] at hrun; cases hrun
    | hang => rw [hst] at hrun; cases hrun
    | cont σ1 out =>
      rw [hst] at hrun
      simp only at hrun
      cases hr : runLines h search σ1 rest with
      | none => rw [hr] at hrun; cases hrun
      | some r =>
        rw [hr] at hrun
        simp only [Option.map_some, Option.some.injEq, Prod.mk.injEq] at hrun
        obtain ⟨rfl, rfl⟩ := hrun
        -- the go line parses (otherwise the dispatcher panics) and the position has a move
        -- (otherwise the answer is the null move)
        have hout : out ≠ ["bestmove 0000"] := hnn out (by simp)
        unfold step at hst
        simp +decide only [hc, if_true, if_false] at hst
        cases hp : parseGoCommand (splitOn ' ' (cleanInput raw)) with
        | none => rw [hp] at hst; cases hst
        | some gt =>
          rw [hp] at hst
          simp only at hst
          by_cases hem : (generateMoves h σ.board .all).isEmpty = true
          · rw [if_pos hem] at hst; injection hst with _ ho; exact absurd ho.symm hout
          · rw [if_neg hem] at hst
            cases hsr : search σ.board σ.table (calculateTimeSlice gt σ.board.toMove) with
            | none => rw [hsr] at hst; cases hst
            | some b =>
              rw [hsr] at hst
              simp only at hst
              obtain ⟨hline, hlegal, habs, hwf1, hinv1⟩ :=
                bestmove_text_is_a_legal_move h σ.board wf hinv b (hreal _ _ _ b wf hinv hsr)
              rw [hline] at hst
              simp only at hst
              injection hst with hσ1 ho
              subst hσ1
              obtain ⟨ms, hchain, houts, hfin, hwf', hinv'⟩ := ih _ r.1 r.2 hwf1 hinv1
                (fun x hx => hgo x (by simp [hx])) hr (fun o hoo => hnn o (by simp [hoo]))
              refine ⟨moveOf b :: ms, LegalChain.cons hlegal (by rw [← habs]; exact hchain), ?_, ?_, hwf', hinv'⟩
              · simp only [List.map_cons, ← ho, houts]
              · simp only [List.foldl_cons, ← habs]; exact hfin


/-- `Realised` is what the polling loop over ANY schedule and the search under ANY clock and ordering
    deliver (so the hypothesis of `consecutive_go_answers_are_legal` is not an extra assumption about
    the search, only about threads realising some schedule) -/
theorem realised_of_polling {O : Type} (h : Hasher) (search : Pos → DrawTable → Nat → Option Pos)
    (ord : Oracle Pos O) (hord : OrdSub ord) (fuel : Nat)
    (s0 : Pos → DrawTable → Nat → SS Pos O) (hs0 : ∀ b t sl, (s0 b t sl).reports = #[])
    (sched : Pos → DrawTable → Nat → List (Bool × Option Pos))
    (hsearch : ∀ b t sl, search b t sl = ioLoop (sched b t sl) none)
    (harr : ∀ b t sl x, some x ∈ (sched b t sl).map (·.2) →
      Report.sent x ∈ (outState (getBestMove (chessGame h) ord fuel b (s0 b t sl))).reports.toList) :
    Realised h search := by
  intro board table slice b _ _ hs
  rw [hsearch] at hs
  have hmem := ioLoop_result_mem (sched board table slice) none none hs
  have harrived : some b ∈ (sched board table slice).map (·.2) := by
    rcases hmem with h0 | h1
    · cases h0
    · exact h1
  exact getBestMove_sends_root_successors (chessGame h) ord hord fuel board (s0 board table slice)
    (hs0 board table slice) b (harr board table slice b harrived)


/-- **a whole session on the model**: `position startpos moves <a legal game>` followed by any number
    of answered `go` lines (any clocks): the k-th answer is `bestmove` + the UCI text of a move that
    is legal in the position reached by the game followed by the engine's previous answers, and the
    engine ends up holding exactly that position — for every hasher, every behaviour of the search
    thread and channel that hands back what the search sent (`Realised`) -/
theorem position_then_consecutive_go (h : Hasher) (search : Pos → DrawTable → Nat → Option Pos)
    (hreal : Realised h search) (game : List Spec.Move) (hgame : LegalSeq (abs startPosition) game)
    (rawPos : List Char)
    (htok : splitOn ' ' (cleanInput rawPos) =
      ["position".toList, "startpos".toList, "moves".toList] ++ game.map uciText)
    (σ0 σ1 σ' : Sess) (out0 : List String) (raws : List (List Char)) (outs : List (List String))
    (hpos : step h search σ0 (some rawPos) = .cont σ1 out0)
    (hgo : ∀ raw ∈ raws, String.ofList ((splitOn ' ' (cleanInput raw)).headD []) = "go")
    (hrun : runLines h search σ1 raws = some (σ', outs))
    (hnn : ∀ o ∈ outs, o ≠ ["bestmove 0000"]) :
    out0 = [] ∧
    ∃ ms : List Spec.Move, LegalChain (game.foldl Spec.apply (abs startPosition)) ms ∧
      outs = ms.map (fun m => [String.ofList ("bestmove ".toList ++ uciText m)]) ∧
      abs σ'.board = ms.foldl Spec.apply (game.foldl Spec.apply (abs startPosition)) := by
  -- the position command
  unfold step at hpos
  have hc : String.ofList ((splitOn ' ' (cleanInput rawPos)).headD []) = "position" := by rw [htok]; rfl
  simp +decide only [hc, if_true, if_false] at hpos
  cases hp : playOutPosition h (splitOn ' ' (cleanInput rawPos)) with
  | none => rw [hp] at hpos; cases hpos
  | some pt =>
    rw [hp] at hpos
    obtain ⟨p, t⟩ := pt
    simp only at hpos
    injection hpos with hσ hout
    subst hσ
    rw [htok] at hp
    obtain ⟨habs, hwf, hinv⟩ := position_startpos_holds_the_game h game hgame p t hp
    obtain ⟨ms, hchain, houts, hfin, _, _⟩ :=
      consecutive_go_answers_are_legal h search hreal raws ⟨p, t⟩ σ' outs hwf hinv hgo hrun hnn
    refine ⟨hout.symm, ms, ?_, houts, ?_⟩
    · rw [← habs]; exact hchain
    · rw [hfin, habs]


/-! ### the two threads of one `go`, under every schedule (Model/Handover, after fix cdfd65d) -/

open Handover in
/-- **exactly one bestmove, all interleavings**: whatever the search thread wants to send and
    report (`acts`) and however the steps of the two threads interleave (`evs`), standard output is at
    every moment the info lines of the acts that got through — a prefix `done` of `acts` — followed,
    once the go is answered, by exactly ONE `bestmove`, which carries the board of the LAST act that
    got through.  In particular no info line follows the bestmove and a second bestmove never appears. -/
theorem go_output_under_every_schedule {B I : Type} (acts : List (Act B I)) (evs : List Ev) :
    ∃ done rest, acts = done ++ rest ∧
      (((run acts evs).isOpen = true ∧ (run acts evs).out = infos done) ∨
       ((run acts evs).isOpen = false ∧ ∃ b, (run acts evs).out = infos done ++ [.best b] ∧
          (boards done).getLast? = some b)) := by
  obtain ⟨hd, hrest⟩ := inv_run acts evs
  refine ⟨(run acts evs).done, (run acts evs).todo, hd.symm, ?_⟩
  by_cases ho : (run acts evs).isOpen = true
  · simp only [ho, if_true] at hrest
    exact .inl ⟨ho, hrest.1⟩
  · have ho' : (run acts evs).isOpen = false := by cases hh : (run acts evs).isOpen <;> simp_all
    simp only [ho', Bool.false_eq_true, if_false] at hrest
    obtain ⟨b, h1, h2, _, _⟩ := hrest
    exact .inr ⟨ho', b, h1, h2⟩

open Handover in
/-- nothing of a search reaches the GUI after the bestmove of its go: whatever happens later
    (`more`: the search thread running on, further polls) leaves standard output as it was -/
theorem nothing_follows_the_bestmove {B I : Type} (acts : List (Act B I)) (evs more : List Ev)
    (h : (run acts evs).isOpen = false) :
    (run acts (evs ++ more)).out = (run acts evs).out := by
  unfold run at *
  rw [List.foldl_append]
  exact (foldl_closed more _ h).2

open Handover in
/-- an info line is never the last word: in an answered go every info line stands before the bestmove -/
theorem info_lines_precede_the_bestmove {B I : Type} (acts : List (Act B I)) (evs : List Ev)
    (pre post : List (Handover.Line B I)) (b : B) (h : (run acts evs).out = pre ++ .best b :: post) :
    post = [] ∧ ∀ l ∈ pre, ∃ i, l = .info i := by
  have hinfo : ∀ (d : List (Act B I)) (l : Handover.Line B I), l ∈ infos d → ∃ i, l = .info i := by
    intro d
    induction d with
    | nil => intro l hl; cases hl
    | cons a t ih =>
      intro l hl
      cases a with
      | fallback m => exact ih l hl
      | accept m i =>
        rcases List.mem_cons.mp hl with h1 | h1
        · exact ⟨i, h1⟩
        · exact ih l h1
  obtain ⟨done, rest, _, hcase⟩ := go_output_under_every_schedule acts evs
  rcases hcase with ⟨_, hout⟩ | ⟨_, b', hout, _⟩
  · exfalso
    rw [hout] at h
    have : Handover.Line.best b ∈ infos done := by rw [h]; simp
    obtain ⟨i, hi⟩ := hinfo done _ this
    cases hi
  · rw [hout] at h
    -- the first `best` of both sides sits at the same place
    have key : ∀ (xs pre : List (Handover.Line B I)), (∀ l ∈ xs, ∃ i, l = Handover.Line.info i) →
        xs ++ [Handover.Line.best b'] = pre ++ Handover.Line.best b :: post → post = [] ∧ pre = xs := by
      intro xs
      induction xs with
      | nil =>
        intro pre _ he
        cases pre with
        | nil => simp at he; exact ⟨he.2, rfl⟩
        | cons p ps =>
          simp at he
      | cons x xs ih =>
        intro pre hx he
        cases pre with
        | nil =>
          simp at he
          obtain ⟨i, hi⟩ := hx x (List.mem_cons_self ..)
          rw [hi] at he; cases he.1
        | cons p ps =>
          simp at he
          obtain ⟨h1, h2⟩ := he
          obtain ⟨hp, hps⟩ := ih ps (fun l hl => hx l (List.mem_cons_of_mem _ hl)) (by simpa using h2)
          exact ⟨hp, by rw [h1, hps]⟩
    obtain ⟨hp, hpre⟩ := key (infos done) pre (hinfo done) h
    exact ⟨hp, by rw [hpre]; exact hinfo done⟩

open Handover in
/-- **the go is answered under every fair schedule**: if the search thread has anything to send
    (it always has: `search_always_hands_over_a_move`) and after some step of the search thread the
    I/O thread polls once and later finds its deadline passed, the go is answered — whatever else
    happens in between, before and after. -/
theorem fair_schedule_answers {B I : Type} (acts : List (Act B I)) (hne : acts ≠ [])
    (e1 e2 e3 e4 : List Ev) :
    (run acts (e1 ++ [.search] ++ e2 ++ [.poll] ++ e3 ++ [.answer] ++ e4)).isOpen = false := by
  unfold run
  simp only [List.foldl_append, List.foldl_cons, List.foldl_nil]
  have i1 := inv_foldl acts e1 _ (inv_init acts)
  have i2 : Inv2 (e1.foldl Handover.step (init acts)) := inv2_foldl e1 _ (by intro h; cases h)
  have s1 := started_after_search acts hne _ i1 i2
  have s2 := started_foldl e2 _ s1
  have h3 := poll_of_started _ s2
  have h4 := holding_foldl e3 _ h3
  have h5 := answer_of_holding _ h4
  exact (foldl_closed e4 _ h5).1

open Handover in
/-- **what the GUI sees of one go = a prefix of what the search reported, then its last board**: the
    search thread performing the reports of its run (any game, clock, ordering, outcome) and the I/O
    thread, interleaved in ANY way: standard output is the first `k` info lines of the run, for some
    `k`, followed — once answered — by one bestmove whose board the run has sent. -/
theorem go_stdout_comes_from_the_search {P O : Type} (g : Game P) (ord : Oracle P O) (fuel : Nat) (root : P)
    (s : SS P O) (hs : s.reports = #[]) (evs : List Ev) :
    ∃ shown : List Info, shown <+: infosOf (outState (getBestMove g ord fuel root s)).reports ∧
      (((run (actsOf (outState (getBestMove g ord fuel root s)).reports) evs).isOpen = true ∧
        (run (actsOf (outState (getBestMove g ord fuel root s)).reports) evs).out = shown.map Handover.Line.info) ∨
       ((run (actsOf (outState (getBestMove g ord fuel root s)).reports) evs).isOpen = false ∧
        ∃ b, (run (actsOf (outState (getBestMove g ord fuel root s)).reports) evs).out
                = shown.map Handover.Line.info ++ [Handover.Line.best b] ∧
             Report.sent b ∈ (outState (getBestMove g ord fuel root s)).reports.toList)) := by
  have hp := getBestMove_paired g ord fuel root s hs
  generalize outState (getBestMove g ord fuel root s) = sf at hp ⊢
  obtain ⟨done, rest, hacts, hcase⟩ := go_output_under_every_schedule (actsOf sf.reports) evs
  have hpre : infos done <+: (infosOf sf.reports).map Handover.Line.info := by
    rw [← infos_actsOf sf hp, hacts]; exact infos_prefix done rest
  have hshown : infos done = ((infosOf sf.reports).take (infos done).length).map Handover.Line.info := by
    rw [List.map_take]; exact List.prefix_iff_eq_take.mp hpre
  refine ⟨(infosOf sf.reports).take (infos done).length, List.take_prefix .., ?_⟩
  rcases hcase with ⟨ho, hout⟩ | ⟨ho, b, hout, hlast⟩
  · exact .inl ⟨ho, by rw [hout]; exact hshown⟩
  · refine .inr ⟨ho, b, by rw [hout, ← hshown], ?_⟩
    have hb : b ∈ boards done := List.mem_of_getLast? hlast
    have hb' : b ∈ boards (actsOf sf.reports) := by
      rw [hacts, boards_append]; exact List.mem_append_left _ hb
    rcases boards_actsAux sf.reports.toList none b hb' with h | h
    · cases h
    · exact h

open Handover in
/-- `Realised` — the premise of the end-to-end theorems above — also follows from the two-thread
    machine: if what the dispatcher gets back is the board on the bestmove line of SOME schedule of
    the hand-over machine run on the reports of the search (any clock, any ordering), it is a root
    successor.  So `go_is_answered_with_one_legal_bestmove`, `consecutive_go_answers_are_legal` and
    `position_then_consecutive_go` hold for every interleaving of the two threads. -/
theorem realised_of_handover {O : Type} (h : Hasher) (search : Pos → DrawTable → Nat → Option Pos)
    (ord : Oracle Pos O) (hord : OrdSub ord) (fuel : Nat)
    (s0 : Pos → DrawTable → Nat → SS Pos O) (hs0 : ∀ b t sl, (s0 b t sl).reports = #[])
    (sched : Pos → DrawTable → Nat → List Ev)
    (hsearch : ∀ b t sl x, search b t sl = some x →
      ∃ pre, (run (actsOf (outState (getBestMove (chessGame h) ord fuel b (s0 b t sl))).reports) (sched b t sl)).out
              = pre ++ [Handover.Line.best x]) :
    Realised h search := by
  intro board table slice b _ _ hs
  obtain ⟨pre, hout⟩ := hsearch board table slice b hs
  obtain ⟨shown, _, hcase⟩ := go_stdout_comes_from_the_search (chessGame h) ord fuel board
    (s0 board table slice) (hs0 board table slice) (sched board table slice)
  have hsent : Report.sent b ∈ (outState (getBestMove (chessGame h) ord fuel board (s0 board table slice))).reports.toList := by
    rcases hcase with ⟨_, ho⟩ | ⟨_, b', ho, hmem⟩
    · exfalso
      rw [ho] at hout
      have h1 : (List.map Handover.Line.info shown).getLast? = some (Handover.Line.best b) := by
        rw [hout]; simp
      rw [List.getLast?_map] at h1
      cases hl : shown.getLast? with
      | none => rw [hl] at h1; cases h1
      | some i => rw [hl] at h1; cases h1
    · rw [ho] at hout
      have h1 : (List.map Handover.Line.info shown ++ [Handover.Line.best b']).getLast? = some (Handover.Line.best b) := by
        rw [hout]; simp
      simp at h1
      rw [← h1]; exact hmem
  exact getBestMove_sends_root_successors (chessGame h) ord hord fuel board (s0 board table slice)
    (hs0 board table slice) b hsent

/-! ### the same at the granularity of the code: lock, send, print, drain, close as separate steps -/

open HandoverFine in
/-- the two critical sections never overlap — derived from the lock discipline, not assumed -/
theorem critical_sections_exclude_each_other {B I : Type} (acts : List (Handover.Act B I)) (evs : List FEv) :
    ¬ (sHolds (frun acts evs) = true ∧ mHolds (frun acts evs) = true) :=
  (ctl_run acts evs).mutex

open HandoverFine in
/-- **stdout of one go under every schedule of the micro-steps**: the info lines of the acts that got
    through (a prefix of the search thread's programme), then — once answered — exactly one bestmove;
    it carries the last board sent before the I/O thread drained the channel, and whatever got
    through after that is a plain send, never an improvement (so no info line lacks its board) -/
theorem go_output_under_every_schedule_of_micro_steps {B I : Type} (acts : List (Handover.Act B I)) (evs : List FEv) :
    ∃ rest, acts = (frun acts evs).done ++ rest ∧
      ((frun acts evs).mpc ≠ .fin → (frun acts evs).out = Handover.infos (frun acts evs).done) ∧
      ((frun acts evs).mpc = .fin → ∃ b early late,
          (frun acts evs).out = Handover.infos (frun acts evs).done ++ [Handover.Line.best b] ∧
          (frun acts evs).done = early ++ late ∧ (Handover.boards early).getLast? = some b ∧
          ∀ a ∈ late, ∃ m, a = Handover.Act.fallback m) := by
  have hd := dat_run acts evs
  have hl := late_run acts evs
  obtain ⟨rest, hacts, _⟩ := hd.pre
  refine ⟨rest, hacts, hd.outOpen, ?_⟩
  intro hf
  obtain ⟨b, hout, hbest⟩ := hd.outFin hf
  obtain ⟨hdr, _⟩ := hd.drainInv (.inr (.inr hf))
  obtain ⟨early, late, h1, h2, h3⟩ := hl (.inr (.inr hf))
  exact ⟨b, early, late, hout, h1, by rw [h2, ← hdr, hbest], h3⟩

open HandoverFine in
/-- nothing is printed after the bestmove, whatever the threads still do -/
theorem nothing_follows_the_bestmove_micro {B I : Type} (acts : List (Handover.Act B I)) (evs more : List FEv)
    (h : (frun acts evs).mpc = .fin) : (frun acts (evs ++ more)).out = (frun acts evs).out := by
  unfold frun at *
  rw [List.foldl_append]
  exact out_frozen_foldl more _ (ctl_foldl evs _ (ctl_init acts)) h

open HandoverFine in
/-- **no deadlock**: in every reachable state in which the I/O thread has noticed the deadline and
    waits for the lock, at most six further steps answer the go (the lock holder never waits for
    anything: the channel is unbounded, printing does not block) -/
theorem no_deadlock_when_answering {B I : Type} (acts : List (Handover.Act B I)) (evs : List FEv)
    (h : (frun acts evs).mpc = .want) :
    ∃ sched : List FEv, sched.length ≤ 6 ∧ (frun acts (evs ++ sched)).mpc = .fin := by
  obtain ⟨sched, hlen, hfin⟩ := answer_is_reachable (frun acts evs) (ctl_run acts evs) h
  refine ⟨sched, hlen, ?_⟩
  unfold frun at *
  rw [List.foldl_append]; exact hfin

open HandoverFine in
/-- **what the GUI sees of one go, at the granularity of the code**: the search thread performing the
    reports of its run (any game, clock, ordering, outcome) and the I/O thread, interleaved in ANY way
    at the level of lock / send / print / drain / close: standard output is the first `k` info lines of
    the run, then — once answered — one bestmove whose board the run has sent -/
theorem go_stdout_comes_from_the_search_micro {P O : Type} (g : Game P) (ord : Oracle P O) (fuel : Nat) (root : P)
    (s : SS P O) (hs : s.reports = #[]) (evs : List FEv) :
    ∃ shown : List Info, shown <+: infosOf (outState (getBestMove g ord fuel root s)).reports ∧
      ((frun (actsOf (outState (getBestMove g ord fuel root s)).reports) evs).mpc ≠ .fin →
        (frun (actsOf (outState (getBestMove g ord fuel root s)).reports) evs).out = shown.map Handover.Line.info) ∧
      ((frun (actsOf (outState (getBestMove g ord fuel root s)).reports) evs).mpc = .fin →
        ∃ b, (frun (actsOf (outState (getBestMove g ord fuel root s)).reports) evs).out
                = shown.map Handover.Line.info ++ [Handover.Line.best b] ∧
             Report.sent b ∈ (outState (getBestMove g ord fuel root s)).reports.toList) := by
  have hp := getBestMove_paired g ord fuel root s hs
  generalize outState (getBestMove g ord fuel root s) = sf at hp ⊢
  obtain ⟨rest, hacts, hopen, hfin⟩ := go_output_under_every_schedule_of_micro_steps (actsOf sf.reports) evs
  generalize frun (actsOf sf.reports) evs = st at hacts hopen hfin ⊢
  have hpre : Handover.infos st.done <+: (infosOf sf.reports).map Handover.Line.info := by
    rw [← infos_actsOf sf hp, hacts]; exact infos_prefix st.done rest
  have hshown : Handover.infos st.done = ((infosOf sf.reports).take (Handover.infos st.done).length).map Handover.Line.info := by
    rw [List.map_take]; exact List.prefix_iff_eq_take.mp hpre
  refine ⟨(infosOf sf.reports).take (Handover.infos st.done).length, List.take_prefix .., ?_, ?_⟩
  · intro h; rw [hopen h]; exact hshown
  · intro h
    obtain ⟨b, early, late, hout, hdone, hlast, _⟩ := hfin h
    refine ⟨b, by rw [hout, ← hshown], ?_⟩
    have hb : b ∈ Handover.boards early := List.mem_of_getLast? hlast
    have hb' : b ∈ Handover.boards (actsOf sf.reports) := by
      rw [hacts, hdone, Handover.boards_append, Handover.boards_append]
      exact List.mem_append_left _ (List.mem_append_left _ hb)
    rcases boards_actsAux sf.reports.toList none b hb' with h' | h'
    · cases h'
    · exact h'

open HandoverFine in
/-- **the bestmove is the last improvement shown** (what the forced-schedule sessions check on the real
    binary): whenever the last act that got through is an improvement — in every run of the search the
    plain sends come first (the fall-back board before the first evaluation; a second one only when
    nothing was ever accepted), so this is the case as soon as ANY info line has been shown — the output
    ends with that improvement's info line followed by the bestmove carrying its board; under every
    schedule of the micro-steps -/
theorem bestmove_is_the_last_improvement_shown {B I : Type} (acts : List (Handover.Act B I))
    (evs : List FEv) (hfin : (frun acts evs).mpc = .fin)
    (m : B) (i : I) (hlast : (frun acts evs).done.getLast? = some (Handover.Act.accept m i)) :
    ∃ pre, (frun acts evs).out = pre ++ [Handover.Line.info i, Handover.Line.best m] := by
  obtain ⟨rest, _, _, hshape⟩ := go_output_under_every_schedule_of_micro_steps acts evs
  obtain ⟨b, early, late, hout, hdone, hb, hlate⟩ := hshape hfin
  generalize (frun acts evs).done = done at hout hdone hlast
  generalize (frun acts evs).out = out at hout
  -- the last act that got through is an improvement, so nothing plain came after the drain
  have hl : late = [] := by
    cases hl : late.getLast? with
    | none => exact List.getLast?_eq_none_iff.mp hl
    | some x =>
      exfalso
      have hx : x ∈ late := List.mem_of_getLast? hl
      obtain ⟨m', hm'⟩ := hlate x hx
      have : done.getLast? = some x := by
        rw [hdone, List.getLast?_append, hl]; rfl
      rw [this] at hlast
      rw [hm'] at hlast
      cases hlast
  rw [hl, List.append_nil] at hdone
  subst hdone
  obtain ⟨d0, hd0⟩ := List.getLast?_eq_some_iff.mp hlast
  have hbm : b = m := by
    rw [hd0, Handover.boards_append] at hb
    simp [Handover.boards, Handover.Act.board] at hb
    exact hb.symm
  refine ⟨Handover.infos d0, ?_⟩
  rw [hout, hd0, Handover.infos_append, hbm]
  simp [Handover.infos]

/-- the race of defect D13 at the micro level: the improvement passed the clock check (`want`), the
    I/O thread answers first; the search thread then gets the lock, finds the channel closed and
    ends without printing -/
example : (HandoverFine.frun [Handover.Act.fallback 1, Handover.Act.accept 2 7]
    [.search, .main, .search, .deadline, .main, .main, .main, .main, .search, .search, .search]).out
    = [Handover.Line.best 1] := by decide

/-- non-vacuity / the race of defect D13 as a schedule: the improvement is accepted by the clock
    check, the I/O thread answers first — the info line is NOT printed afterwards; and when the
    improvement gets through first, the bestmove carries it -/
example : (Handover.run [Handover.Act.fallback 1, Handover.Act.accept 2 7] [.search, .poll, .answer, .search, .search]).out
    = [Handover.Line.best 1] := by decide
example : (Handover.run [Handover.Act.fallback 1, Handover.Act.accept 2 7] [.search, .poll, .search, .answer, .search]).out
    = [Handover.Line.info 7, Handover.Line.best 2] := by decide

end Walleye
