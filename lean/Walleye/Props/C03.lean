/-
  C03 — every `go` is answered by exactly one legal, well-formed bestmove (logic part).
  Proved: what the search thread can send, what the polling loop returns, what the dispatcher
  prints.  With C01 (`generateMoves_sound`): `sent_moves_are_legal` — every board the search thread
  of the chess instance hands back, at every point of every run, carries a move that is LEGAL in the
  root position and is the specification's position after it.  That real threads realise some
  schedule of the polling model is observed black-box.
-/
import Walleye.Props.C08
import Walleye.Proofs.GenSound
import Walleye.Model.SearchChess
namespace Walleye
open Str

/-- every board sent by `get_best_move` is a successor of the root (for every game, clock expiry,
    ordering oracle that returns a sub-list, at every point of the run) -/
theorem root_sends_subset {P O : Type} (g : Game P) (ord : Oracle P O) (hord : OrdSub ord) (fuel : Nat)
    (root : P) (s : SS P O) (hs : s.reports = #[]) :
    ∀ q, Report.sent q ∈ (outState (getBestMove g ord fuel root s)).reports.toList →
      ∃ m ∈ g.gen root .all, q = m ∨ q = g.withOh m Gen.posInf :=
  getBestMove_sends_root_successors g ord hord fuel root s hs

/-- the inner search never prints or sends anything by itself -/
theorem inner_search_is_silent {P O : Type} (g : Game P) (ord : Oracle P O) (fuel : Nat) (p : P)
    (d ply : Nat) (a b : Int) (n : Bool) (s : SS P O) :
    (outState (alphaBeta g ord fuel p d ply a b n s)).reports = s.reports :=
  alphaBeta_silent g ord fuel p d ply a b n s

/-- every board the search of the chess instance sends carries a legal move of the root position
    (any clock expiry, any ordering oracle that returns a sub-list, whatever the outcome) -/
theorem sent_moves_are_legal {O : Type} (h : Hasher) (ord : Oracle Pos O) (hord : OrdSub ord) (fuel : Nat)
    (root : Pos) (wf : WFp root) (s : SS Pos O) (hs : s.reports = #[]) :
    ∀ q, Report.sent q ∈ (outState (getBestMove (chessGame h) ord fuel root s)).reports.toList →
      Spec.legal (abs root) (moveOf q) = true ∧ abs q = Spec.apply (abs root) (moveOf q) := by
  intro q hq
  obtain ⟨m, hm, hor⟩ := getBestMove_sends_root_successors (chessGame h) ord hord fuel root s hs q hq
  have hsound := generateMoves_sound h root wf m hm
  rcases hor with rfl | rfl
  · exact hsound
  · exact hsound

variable (h : Hasher) (search : Pos → DrawTable → Nat → Option Pos)

/-- one `go` prints exactly one line, and it is a `bestmove` line -/
theorem go_prints_exactly_one_bestmove (σ σ' : Sess) (raw : List Char) (out : List String)
    (hc : String.ofList ((splitOn ' ' (cleanInput raw)).headD []) = "go")
    (hs : step h search σ (some raw) = .cont σ' out) :
    ∃ t : List Char, out = [String.ofList ("bestmove ".toList ++ t)] := by
  unfold step at hs
  simp +decide only [hc, if_true, if_false] at hs
  cases hp : parseGoCommand (splitOn ' ' (cleanInput raw)) with
  | none => rw [hp] at hs; cases hs
  | some gt =>
    rw [hp] at hs
    simp only at hs
    by_cases hem : (generateMoves h σ.board .all).isEmpty = true
    · rw [if_pos hem] at hs; cases hs; exact ⟨"0000".toList, by decide⟩
    · rw [if_neg hem] at hs
      cases hsr : search σ.board σ.table (calculateTimeSlice gt σ.board.toMove) with
      | none => rw [hsr] at hs; cases hs
      | some b =>
        rw [hsr] at hs
        simp only at hs
        cases hbl : bestmoveLine b with
        | none => rw [hbl] at hs; cases hs
        | some l =>
          rw [hbl] at hs
          cases hs
          unfold bestmoveLine at hbl
          cases hm : moveText b with
          | none => rw [hm] at hbl; cases hbl
          | some t =>
            rw [hm] at hbl
            simp only [Option.map_some, Option.some.injEq] at hbl
            subst hbl
            exact ⟨t, rfl⟩

/-- and the move on it is the descriptor of the board the polling loop ended with -/
theorem go_answer_is_search_result (σ σ' : Sess) (raw : List Char) (out : List String) (gt : GameTime)
    (hc : String.ofList ((splitOn ' ' (cleanInput raw)).headD []) = "go")
    (hg : parseGoCommand (splitOn ' ' (cleanInput raw)) = some gt)
    (hne : generateMoves h σ.board .all ≠ [])
    (hs : step h search σ (some raw) = .cont σ' out) :
    search σ.board σ.table (calculateTimeSlice gt σ.board.toMove) = some σ'.board ∧ σ'.table = σ.table := by
  unfold step at hs
  have hne' : (generateMoves h σ.board .all).isEmpty = false := by
    cases hl : generateMoves h σ.board .all with
    | nil => exact absurd hl hne
    | cons _ _ => rfl
  simp +decide only [hc, if_true, if_false, hg, hne'] at hs
  split at hs
  · split at hs
    · rename_i b _ _ _
      cases hs
      exact ⟨by assumption, rfl⟩
    · cases hs
  · cases hs

end Walleye
