import Walleye.Model.MoveGen
namespace Walleye
theorem C03_placeholder (c : Color) : c.opp.opp = c := Color.opp_opp c
end Walleye
