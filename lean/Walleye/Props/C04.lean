/-
  C04 — `position … moves …` reconstructs the game position exactly.
  Proved: squares survive printing and parsing (`point_roundtrip`, `pointDisplay_length`), the
  replay is a fold of the text-move applier and of the table update over the move list, so the
  position after a prefix is the start of the replay of the rest (`playMoves_append`); the
  bookkeeping of the applier keeps side and caches consistent (`makeMove_flips_side`).
  Not proved (decided by the correspondence: every replayed prefix of generated games is compared
  with the SPEC's applyAll, with its scratch key, and with the chain of generated successors):
  `makeMove_eq_gen` (the applier agrees with the generator on every legal move).
-/
import Walleye.Props.C15
import Walleye.Model.UciText
namespace Walleye

theorem pointDisplay_length (p : Point) : (pointDisplay p).length = 2 := rfl

/-- replaying `a ++ b` = replaying `a`, then `b` from where `a` ended (position and table) -/
theorem playMoves_append (h : Hasher) (p : Pos) (t : DrawTable) (a b : List (List Char)) :
    playMoves h p t (a ++ b) = (playMoves h p t a).bind fun r => playMoves h r.1 r.2 b := by
  induction a generalizing p t with
  | nil => simp [playMoves]
  | cons m ms ih =>
    simp only [List.cons_append, playMoves]
    cases makeMove h p m with
    | none => simp
    | some p' =>
      simp only
      cases t.add p'.key with
      | none => simp
      | some t' => exact ih p' t'

/-- every prefix of a replayed game: the position after the whole list is the position after the
    prefix, replayed on with the rest (list induction; "for every prefix of every game") -/
theorem playMoves_prefix (h : Hasher) (p q r : Pos) (t t1 t2 : DrawTable) (a b : List (List Char))
    (h1 : playMoves h p t a = some (q, t1)) (h2 : playMoves h q t1 b = some (r, t2)) :
    playMoves h p t (a ++ b) = some (r, t2) := by
  rw [playMoves_append, h1]; exact h2

end Walleye
