/-
  C04 — `position … moves …` reconstructs the game position exactly.
  Proved: squares survive printing and parsing (`point_roundtrip`, `pointDisplay_length`), the
  replay is a fold of the text-move applier and of the table update over the move list, so the
  position after a prefix is the start of the replay of the rest (`playMoves_append`); the
  bookkeeping of the applier keeps side and caches consistent (`makeMove_flips_side`).
  FULL on the model (Proofs/UciTextFacts, MakeMoveObs):
    * `text_replay_reproduces_successor`: every move the engine generates, printed as text and replayed
      with `make_move`, reproduces its own successor — board, side to move, castling rights, en passant
      target, king caches, and (with `KeyOK` of both) the key;
    * `replay_of_a_legal_move`: `make_move` on the UCI text of any LEGAL move returns exactly the position
      the rules give (`Spec.apply`), well-formed again, key exact;
    * `replay_of_a_legal_game`: by induction over the move list, `position … moves m1 … mn` with every
      move legal in turn holds exactly `applyAll`, for every length; the position part of `playMoves` is
      this replay (`playMoves_position`).
  The string operations of `make_move` (byte slices, square parsing, the four corner substring tests,
  the promotion letter, the four literal castling strings) are evaluated for all 64 x 64 x 5 texts
  by kernel computation (`textOK_all`).
-/
import Walleye.Props.C15
import Walleye.Model.UciText
import Walleye.Proofs.MakeMoveObs
namespace Walleye

theorem pointDisplay_length (p : Point) : (pointDisplay p).length = 2 := rfl

/-- replaying `a ++ b` = replaying `a`, then `b` from where `a` ended (position and table) -/
theorem playMoves_append (h : Hasher) (p : Pos) (t : DrawTable) (a b : List (List Char)) :
    playMoves h p t (a ++ b) = (playMoves h p t a).bind fun r => playMoves h r.1 r.2 b := by
  induction a generalizing p t with
  | nil => simp [playMoves]
  | cons m ms ih =>
    simp only [List.cons_append, playMoves]
    cases makeMove h p m with
    | none => simp
    | some p' =>
      simp only
      cases t.add p'.key with
      | none => simp
      | some t' => exact ih p' t'

/-- every prefix of a replayed game: the position after the whole list is the position after the
    prefix, replayed on with the rest (list induction; "for every prefix of every game") -/
theorem playMoves_prefix (h : Hasher) (p q r : Pos) (t t1 t2 : DrawTable) (a b : List (List Char))
    (h1 : playMoves h p t a = some (q, t1)) (h2 : playMoves h q t1 b = some (r, t2)) :
    playMoves h p t (a ++ b) = some (r, t2) := by
  rw [playMoves_append, h1]; exact h2

/-- every generated move, printed and replayed, reproduces its successor -/
theorem text_replay_reproduces_successor (h : Hasher) (p : Pos) (wf : WFp p) :
    ∀ q ∈ generateMoves h p .all, ∃ txt q', moveText q = some txt ∧ makeMove h p txt = some q' ∧ Obs q' q := by
  intro q hq
  obtain ⟨a, b, q', hl, _, _, hmk, hobs⟩ := makeMove_reproduces_successor h p wf q hq
  exact ⟨_, q', moveText_eq q a b hl, hmk, hobs⟩

/-- with exact keys on both sides, the key is reproduced as well -/
theorem text_replay_reproduces_key (h : Hasher) (a b : Pos) (ho : Obs a b) (ha : KeyOK h a) (hb : KeyOK h b) :
    a.key = b.key := Obs.key h a b ho ha hb

/-- replaying the text of a legal move gives the position the rules give -/
theorem replay_of_a_legal_move (h : Hasher) (p : Pos) (wf : WFp p) (hinv : Inv h p) (m : Spec.Move)
    (hlegal : Spec.legal (abs p) m = true) :
    ∃ q', makeMove h p (uciText m) = some q' ∧ abs q' = Spec.apply (abs p) m ∧ WFp q' ∧ Inv h q' := by
  obtain ⟨q', h1, h2, h3, h4, _⟩ := makeMove_legal h p wf hinv m hlegal
  exact ⟨q', h1, h2, h3, h4⟩

/-- the position part of `play_out_position`'s move loop -/
def replayPos (h : Hasher) : Pos → List (List Char) → Option Pos
  | p, [] => some p
  | p, m :: ms => (makeMove h p m).bind fun q => replayPos h q ms

theorem playMoves_position (h : Hasher) (p : Pos) (t : DrawTable) (txts : List (List Char)) (r : Pos) (t' : DrawTable)
    (hp : playMoves h p t txts = some (r, t')) : replayPos h p txts = some r := by
  induction txts generalizing p t with
  | nil => simp only [playMoves] at hp; injection hp with hp; injection hp with e _; rw [replayPos, e]
  | cons m ms ih =>
    simp only [playMoves] at hp
    cases hm : makeMove h p m with
    | none => rw [hm] at hp; cases hp
    | some q =>
      rw [hm] at hp
      simp only at hp
      cases ha : t.add q.key with
      | none => rw [ha] at hp; cases hp
      | some t1 =>
        rw [ha] at hp
        simp only [replayPos, hm, Option.bind_some]
        exact ih q t1 hp

/-- a sequence of moves, each legal in the position reached by the previous ones -/
inductive LegalSeq : Spec.Position → List Spec.Move → Prop where
  | nil (P : Spec.Position) : LegalSeq P []
  | cons {P : Spec.Position} {m : Spec.Move} {ms : List Spec.Move} :
      Spec.legal P m = true → LegalSeq (Spec.apply P m) ms → LegalSeq P (m :: ms)

theorem replay_aux (h : Hasher) (ms : List Spec.Move) :
    ∀ (p : Pos) (P : Spec.Position), abs p = P → WFp p → Inv h p → LegalSeq P ms →
      ∃ r, replayPos h p (ms.map uciText) = some r ∧ abs r = ms.foldl Spec.apply P ∧ WFp r ∧ Inv h r := by
  induction ms with
  | nil => intro p P hP wf hinv _; exact ⟨p, rfl, hP, wf, hinv⟩
  | cons m ms ih =>
    intro p P hP wf hinv hl
    cases hl with
    | cons hm hrest =>
      subst hP
      obtain ⟨q', h1, h2, h3, h4⟩ := replay_of_a_legal_move h p wf hinv m hm
      obtain ⟨r, r1, r2, r3, r4⟩ := ih q' _ h2 h3 h4 hrest
      refine ⟨r, ?_, ?_, r3, r4⟩
      · simp only [List.map_cons, replayPos, h1, Option.bind_some]; exact r1
      · simp only [List.foldl_cons]; exact r2

/-- **C04**: replaying any legal game of any length gives exactly the position the rules give -/
theorem replay_of_a_legal_game (h : Hasher) (ms : List Spec.Move) (p : Pos) (wf : WFp p) (hinv : Inv h p)
    (hl : LegalSeq (abs p) ms) :
    ∃ r, replayPos h p (ms.map uciText) = some r ∧ abs r = ms.foldl Spec.apply (abs p) ∧ WFp r ∧ Inv h r :=
  replay_aux h ms p (abs p) rfl wf hinv hl


/-! ### the `position` command itself -/

theorem defaultFen_is_canonical : Gen.defaultFen.toList = canonText (abs startPosition) ['0'] ['1'] := by
  rw [start_canonical_text]; decide

/-- `position startpos moves m1 … mn` with a legal game, for EVERY hasher: whenever the command is
    served (the only way out is a repetition count above 255), the engine holds exactly the position the
    rules give after the game, well-formed, with an exact key -/
theorem position_startpos_holds_the_game (h : Hasher) (ms : List Spec.Move) (hl : LegalSeq (abs startPosition) ms)
    (p : Pos) (t : DrawTable)
    (hp : playOutPosition h (["position".toList, "startpos".toList, "moves".toList] ++ ms.map uciText) = some (p, t)) :
    abs p = ms.foldl Spec.apply (abs startPosition) ∧ WFp p ∧ Inv h p := by
  have hsz : (abs startPosition).cells.size = 64 := by decide +kernel
  have hep : ∀ e, (abs startPosition).ep = some e → InB e := by
    intro e he
    have : (abs startPosition).ep = none := by decide +kernel
    rw [this] at he; cases he
  obtain ⟨p0, hload, habs0, hwf0⟩ := every_position_loads_from_its_fen h (abs startPosition) hsz hep ['0'] ['1']
    ⟨by decide, by decide, by decide⟩ ⟨by decide, by decide, by decide⟩
  obtain ⟨wf0, inv0⟩ := hwf0 (LP_of _ start_legal)
  rw [← defaultFen_is_canonical] at hload
  unfold playOutPosition at hp
  have h1 : (["position".toList, "startpos".toList, "moves".toList] ++ ms.map uciText)[1]? = some "startpos".toList := rfl
  rw [h1] at hp
  have hnf : ¬ ("startpos".toList = "fen".toList) := by decide
  simp only [hnf, if_false, hload] at hp
  have hidx : (["position".toList, "startpos".toList, "moves".toList] ++ ms.map uciText).findIdx? (· = "moves".toList) = some 2 := by
    have e1 : ("position".toList = "moves".toList) = False := by decide
    have e2 : ("startpos".toList = "moves".toList) = False := by decide
    simp only [List.cons_append, List.nil_append, List.findIdx?_cons, e1, e2, decide_false, decide_true,
      Bool.false_eq_true, if_false, if_true, Option.map_some]
  rw [hidx] at hp
  have hdrop : (["position".toList, "startpos".toList, "moves".toList] ++ ms.map uciText).drop (2 + 1) = ms.map uciText := rfl
  simp only [hdrop] at hp
  have hrep := playMoves_position h p0 _ _ p t hp
  obtain ⟨r, hr, habs, hwf, hinv⟩ := replay_of_a_legal_game h ms p0 wf0 inv0 (by rw [habs0]; exact hl)
  rw [hr] at hrep
  injection hrep with hrep
  subst hrep
  exact ⟨by rw [habs, habs0], hwf, hinv⟩


/-! ### `position fen <FEN of a legal position> moves <legal game>` -/

theorem joinWith_sep_mem (sep : Char) : ∀ (l : List (List Char)), 2 ≤ l.length → sep ∈ joinWith sep l := by
  intro l hl
  match l, hl with
  | x :: y :: rest, _ => simp [joinWith]

/-- none of the six fields of a canonical FEN text is the word `moves` -/
theorem canon_fields_not_moves (P : Spec.Position) (half full : List Char) (hh : CounterOK half) (hf : CounterOK full) :
    joinWith '/' ((rowsOf P).map fun r => r.map tokChar) ≠ "moves".toList ∧ sideText P.side ≠ "moves".toList ∧
    rightsOf P ≠ "moves".toList ∧ epFenText (P.ep.map Spec.toPoint) ≠ "moves".toList ∧
    half ≠ "moves".toList ∧ full ≠ "moves".toList := by
  have hdig : ∀ s : List Char, CounterOK s → s ≠ "moves".toList := by
    intro s hs e
    have := hs.2.1
    rw [e] at this
    revert this; decide
  refine ⟨?_, ?_, ?_, ?_, hdig half hh, hdig full hf⟩
  · intro e
    have hm := joinWith_sep_mem '/' ((rowsOf P).map fun r => r.map tokChar) (by
      rw [List.length_map, (rowsOf_ok P).1]; decide)
    rw [e] at hm
    revert hm; decide
  · cases P.side <;> decide
  · intro e
    have hlen : (rightsOf P).length ≤ 4 := by
      unfold rightsOf
      cases P.wks <;> cases P.wqs <;> cases P.bks <;> cases P.bqs <;> decide
    rw [e] at hlen
    revert hlen; decide
  · intro e
    have hlen : (epFenText (P.ep.map Spec.toPoint)).length ≤ 2 := by
      cases P.ep with
      | none => decide
      | some s => show (pointDisplay _).length ≤ 2; rw [pointDisplay_length]; decide
    rw [e] at hlen
    revert hlen; decide

/-- **`position fen … moves …`** for EVERY legal position P and every legal game from it, every
    hasher: the command whose tokens are `position fen` + the six fields of the canonical FEN text of
    P (any counters below 2^32) + `moves` + the UCI texts of the game, whenever it is served (only a
    repetition count above 255 stops it), leaves the engine holding exactly the rules' position after
    the game, well-formed, key exact -/
theorem position_fen_holds_the_game (h : Hasher) (P : Spec.Position) (hsz : P.cells.size = 64)
    (hep : ∀ e, P.ep = some e → InB e) (hlp : LP P) (half full : List Char) (hh : CounterOK half) (hf : CounterOK full)
    (ms : List Spec.Move) (hl : LegalSeq P ms) (p : Pos) (t : DrawTable)
    (hp : playOutPosition h (["position".toList, "fen".toList,
        joinWith '/' ((rowsOf P).map fun r => r.map tokChar), sideText P.side, rightsOf P,
        epFenText (P.ep.map Spec.toPoint), half, full, "moves".toList] ++ ms.map uciText) = some (p, t)) :
    abs p = ms.foldl Spec.apply P ∧ WFp p ∧ Inv h p := by
  obtain ⟨p0, hload, habs0, hwf0⟩ := every_position_loads_from_its_fen h P hsz hep half full hh hf
  obtain ⟨wf0, inv0⟩ := hwf0 hlp
  obtain ⟨n1, n2, n3, n4, n5, n6⟩ := canon_fields_not_moves P half full hh hf
  unfold playOutPosition at hp
  simp only [List.cons_append, List.nil_append, List.getElem?_cons_succ, List.getElem?_cons_zero, if_true] at hp
  -- the six fields joined by blanks are the canonical text
  have hjoin : (List.drop 2 (List.take 7 ("position".toList :: "fen".toList ::
        joinWith '/' ((rowsOf P).map fun r => r.map tokChar) :: sideText P.side :: rightsOf P ::
        epFenText (P.ep.map Spec.toPoint) :: half :: full :: "moves".toList :: ms.map uciText))).foldl
        (fun acc c => acc ++ c ++ [' ']) [] ++ full = canonText P half full := by
    simp [canonText, fenText, List.append_assoc]
  rw [hjoin, hload] at hp
  simp only at hp
  have hidx : ("position".toList :: "fen".toList ::
        joinWith '/' ((rowsOf P).map fun r => r.map tokChar) :: sideText P.side :: rightsOf P ::
        epFenText (P.ep.map Spec.toPoint) :: half :: full :: "moves".toList :: ms.map uciText).findIdx?
        (· = "moves".toList) = some 8 := by
    have e1 : ("position".toList = "moves".toList) = False := by decide
    have e2 : ("fen".toList = "moves".toList) = False := by decide
    simp only [List.findIdx?_cons, e1, e2, n1, n2, n3, n4, n5, n6, decide_false, decide_true,
      Bool.false_eq_true, if_false, if_true, Option.map_some]
  rw [hidx] at hp
  simp only [List.drop_succ_cons, List.drop_zero] at hp
  have hrep := playMoves_position h p0 _ _ p t hp
  obtain ⟨r, hr, habs, hwf, hinv⟩ := replay_of_a_legal_game h ms p0 wf0 inv0 (by rw [habs0]; exact hl)
  rw [hr] at hrep
  injection hrep with hrep
  subst hrep
  exact ⟨by rw [habs, habs0], hwf, hinv⟩

end Walleye
