/- uci.rs: `make_move`, `play_out_position`, `parse_go_command`, `send_best_move_to_gui`;
   utils.rs: `clean_input`.  Every `unwrap`/slice/index that can fail is an explicit `panic`. -/
import Walleye.Model.Fen
import Walleye.Model.MoveGen
import Walleye.Model.DrawTable
namespace Walleye
open Str

/-- `clean_input` -/
def cleanInput (buf : List Char) : List Char :=
  let step (acc : List Char × Char) (c : Char) : List Char × Char :=
    if !isWs c then (c :: acc.1, c)
    else if !isWs acc.2 then (' ' :: acc.1, c)
    else (acc.1, c)
  trim (buf.foldl step ([], ' ')).1.reverse

def parsePoint? (s : List Char) : Option Point :=
  match pointFromStr s with
  | .ok p => some p
  | _ => none

/-- `make_move`; `none` = panic -/
def makeMove (h : Hasher) (p : Pos) (mv : List Char) : Option Pos :=
  match byteSlice mv 0 2, byteSlice mv 2 4 with
  | some s1, some s2 =>
    match parsePoint? s1, parsePoint? s2 with
    | some sp, some ep =>
      let b := p.unsetEp h
      match b.board.get sp.row sp.col with
      | .full piece =>
        let b :=
          if piece.kind = .king then
            (match piece.color with
             | .white => (({ b with wk := ep }).takeAway h .wqs).takeAway h .wks
             | .black => (({ b with bk := ep }).takeAway h .bqs).takeAway h .bks)
          else if piece.kind = .pawn then
            let b :=
              if ((sp.row : Int) - ep.row).natAbs = 2 then
                let target : Point := match piece.color with
                  | .white => ⟨sp.row - 1, sp.col⟩
                  | .black => ⟨sp.row + 1, sp.col⟩
                { b with key := b.key ^^^ h.epFile target.col, ep := some target }
              else b
            if sp.col ≠ ep.col ∧ b.board.get ep.row ep.col = .empty then
              { b with board := b.board.set sp.row ep.col .empty,
                       key := b.key ^^^ h.piece ⟨b.toMove.opp, .pawn⟩ ⟨sp.row, ep.col⟩ }
            else b
          else b
        let b := if contains mv ['a', '8'] then b.takeAway h .bqs else b
        let b := if contains mv ['h', '8'] then b.takeAway h .bks else b
        let b := if contains mv ['a', '1'] then b.takeAway h .wqs else b
        let b := if contains mv ['h', '1'] then b.takeAway h .wks else b
        let b := b.movePiece h sp ep
        let b? : Option Pos :=
          if byteLen mv = 5 then
            match mv[4]? with
            | none => none
            | some ch =>
              let kind : Kind :=
                if ch = 'q' then .queen else if ch = 'n' then .knight
                else if ch = 'b' then .bishop else if ch = 'r' then .rook else .queen
              let pp : Piece := ⟨b.toMove, kind⟩
              some { b with key := b.key ^^^ (h.piece ⟨b.toMove, .pawn⟩ ep ^^^ h.piece pp ep),
                            board := b.board.set ep.row ep.col (.full pp) }
          else some b
        match b? with
        | none => none
        | some b =>
          let tgt := b.board.get ep.row ep.col
          let b :=
            if mv = Gen.wksStr.toList ∧ tgt.isPiece ⟨.white, .king⟩ then b.movePiece h ⟨9, 9⟩ ⟨9, 7⟩
            else if mv = Gen.wqsStr.toList ∧ tgt.isPiece ⟨.white, .king⟩ then b.movePiece h ⟨9, 2⟩ ⟨9, 5⟩
            else if mv = Gen.bksStr.toList ∧ tgt.isPiece ⟨.black, .king⟩ then b.movePiece h ⟨2, 9⟩ ⟨2, 7⟩
            else if mv = Gen.bqsStr.toList ∧ tgt.isPiece ⟨.black, .king⟩ then b.movePiece h ⟨2, 2⟩ ⟨2, 5⟩
            else b
          some (b.swapColor h)
      | _ => none
    | _, _ => none
  | _, _ => none

def joinSp : List (List Char) → List Char
  | [] => []
  | [x] => x
  | x :: xs => x ++ ' ' :: joinSp xs

/-- the `for mov in commands.iter().skip(start+1)` loop: (position, table); `none` = panic
    (bad move text, or u8 overflow of a count under overflow checks) -/
def playMoves (h : Hasher) : Pos → DrawTable → List (List Char) → Option (Pos × DrawTable)
  | p, t, [] => some (p, t)
  | p, t, m :: ms =>
    match makeMove h p m with
    | none => none
    | some p' =>
      match t.add p'.key with
      | none => none
      | some t' => playMoves h p' t' ms

/-- `play_out_position` on the token list of a `position …` line, starting from a cleared table -/
def playOutPosition (h : Hasher) (cmds : List (List Char)) : Option (Pos × DrawTable) :=
  match cmds[1]? with
  | none => none
  | some c1 =>
    let start : Option Pos :=
      if c1 = "fen".toList then
        match cmds[7]? with
        | none => none
        | some c7 =>
          let fen := ((cmds.take 7).drop 2).foldl (fun acc c => acc ++ c ++ [' ']) [] ++ c7
          match fromFen h fen with
          | .ok p => some p
          | _ => none
      else
        match fromFen h Gen.defaultFen.toList with
        | .ok p => some p
        | _ => none
    match start with
    | none => none
    | some p =>
      let idx := cmds.findIdx? (· = "moves".toList)
      let t : DrawTable := DrawTable.insert [] p.key 1
      match idx with
      | none => some (p, t)
      | some i => playMoves h p t (cmds.drop (i + 1))

structure GameTime where
  wtime : Int := 0
  btime : Int := 0
  winc : Int := 0
  binc : Int := 0
  movestogo : Option Nat := none
  deriving Repr, DecidableEq

/-- `parse_go_command`: `while i + 1 < len`; `none` = panic in `parse().unwrap()` -/
def parseGoAux : Nat → List (List Char) → GameTime → Option GameTime
  | 0, _, gt => some gt
  | _ + 1, [], gt => some gt
  | _ + 1, [_], gt => some gt
  | fuel + 1, tok :: nxt :: rest, gt =>
    if tok = "wtime".toList then
      (parseI128 nxt).bind fun v => parseGoAux fuel rest { gt with wtime := v }
    else if tok = "btime".toList then
      (parseI128 nxt).bind fun v => parseGoAux fuel rest { gt with btime := v }
    else if tok = "binc".toList then
      (parseI128 nxt).bind fun v => parseGoAux fuel rest { gt with binc := v }
    else if tok = "winc".toList then
      (parseI128 nxt).bind fun v => parseGoAux fuel rest { gt with winc := v }
    else if tok = "movestogo".toList then
      (parseUnsigned 32 nxt).bind fun v => parseGoAux fuel rest { gt with movestogo := some v }
    else parseGoAux fuel (nxt :: rest) gt

def parseGoCommand (cmds : List (List Char)) : Option GameTime :=
  parseGoAux (cmds.length + 1) cmds {}

/-- the text after "bestmove " of `send_best_move_to_gui`; `none` = `last_move.unwrap()` panic -/
def moveText (p : Pos) : Option (List Char) :=
  match p.lastMove with
  | none => none
  | some (f, t) =>
    some (pointDisplay f ++ pointDisplay t ++ (match p.promo with
      | some pp => [Gen.kindAlg pp.kind]
      | none => []))

def bestmoveLine (p : Pos) : Option (List Char) :=
  (moveText p).map ("bestmove ".toList ++ ·)

end Walleye
