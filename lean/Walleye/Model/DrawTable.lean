/- draw_table.rs: `HashMap<u64,u8>` as an association list; u8 arithmetic explicit. -/
import Walleye.Model.Types
namespace Walleye

/-- association list, at most one entry per key (maintained by `insert`) -/
abbrev DrawTable := List (UInt64 × Nat)

namespace DrawTable

def lookup (t : DrawTable) (k : UInt64) : Option Nat :=
  match t with
  | [] => none
  | (k', v) :: rest => if k' = k then some v else lookup rest k

def insert (t : DrawTable) (k : UInt64) (v : Nat) : DrawTable :=
  match t with
  | [] => [(k, v)]
  | (k', v') :: rest => if k' = k then (k, v) :: rest else (k', v') :: insert rest k v

def count (t : DrawTable) (k : UInt64) : Nat := (lookup t k).getD 0

/-- outcome of a u8 operation: `none` = arithmetic overflow (panic with overflow checks, wrap in release) -/
def add (t : DrawTable) (k : UInt64) : Option DrawTable :=
  let c := count t k
  if c + 1 > 255 then none else some (insert t k (c + 1))

/-- `remove_board_from_draw_table`: `val - 1` on u8; `none` = underflow -/
def remove (t : DrawTable) (k : UInt64) : Option DrawTable :=
  match lookup t k with
  | some v => if v = 0 then none else some (insert t k (v - 1))
  | none => some t

/-- `is_threefold_repetition` (after the fix: `>= 2`) -/
def isThreefold (t : DrawTable) (k : UInt64) : Bool := decide (count t k ≥ 2)

end DrawTable
end Walleye
