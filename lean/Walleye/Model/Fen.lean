/- board.rs: `Point::from_str`, `Display for Point`, `BoardState::from_fen`. -/
import Walleye.Model.BoardOps
import Walleye.Model.Str
namespace Walleye
open Str

/-- `Point::from_str` (after the fix: no unwrap) -/
def pointFromStr (s : List Char) : Outcome Point :=
  if byteLen s ≠ 2 then .err "Invalid length for algebraic string"
  else match s with
    | c :: r :: _ =>
      match Gen.colLetters.lookup c with
      | none => .err "Invalid column"
      | some col =>
        if isDigit r then
          let row := Gen.boardEnd - digitVal r
          if Gen.boardStart ≤ row ∧ row < Gen.boardEnd then .ok ⟨row, col + Gen.boardStart⟩
          else .err "Invalid row"
        else .err "Invalid row"
    | _ => .err "Invalid length for algebraic string"

/-- `impl Display for Point` -/
def pointDisplay (p : Point) : List Char :=
  [(Gen.dispCol.lookup p.col).getD Gen.dispColDefault, (Gen.dispRow.lookup p.row).getD Gen.dispRowDefault]

/-- `trim_newline` -/
def trimNewline (s : List Char) : List Char :=
  match s.reverse with
  | '\n' :: '\r' :: rest => rest.reverse
  | '\n' :: rest => rest.reverse
  | _ => s

def emptyBoard : Board := default

structure FenAcc where
  board : Board
  row : Nat
  col : Nat
  wk : Point
  bk : Point
  key : UInt64

/-- one character of one FEN row -/
def fenChar (h : Hasher) (a : FenAcc) (sq : Char) : Outcome FenAcc :=
  if a.row ≥ Gen.boardEnd ∨ a.col ≥ Gen.boardEnd then .err "Too many squares specified for board"
  else if isDigit sq then
    let n := digitVal sq
    if n + a.col > Gen.boardEnd then .err "Could not parse fen string: Index out of bounds"
    else
      let b := (List.range n).foldl (fun b i => b.set a.row (a.col + i) .empty) a.board
      .ok { a with board := b, col := a.col + n }
  else match Gen.fenPieces.lookup sq with
    | none => .err "Could not parse fen string: Invalid character found"
    | some piece =>
      let b := a.board.set a.row a.col (.full piece)
      let key := a.key ^^^ h.piece piece ⟨a.row, a.col⟩
      let a := { a with board := b, key := key, col := a.col + 1 }
      .ok (if piece.kind = .king then
        (match piece.color with
         | .white => { a with wk := ⟨a.row, a.col - 1⟩ }
         | .black => { a with bk := ⟨a.row, a.col - 1⟩ })
        else a)

def fenRowChars (h : Hasher) : FenAcc → List Char → Outcome FenAcc
  | a, [] => .ok a
  | a, c :: cs =>
    match fenChar h a c with
    | .ok a' => fenRowChars h a' cs
    | .err e => .err e
    | .panic => .panic

def fenRows (h : Hasher) : FenAcc → List (List Char) → Outcome FenAcc
  | a, [] => .ok a
  | a, r :: rs =>
    match fenRowChars h a r with
    | .ok a' =>
      if a'.col ≠ Gen.boardEnd then .err "Could not parse fen string: Complete row was not specified"
      else fenRows h { a' with row := a'.row + 1, col := Gen.boardStart } rs
    | .err e => .err e
    | .panic => .panic

/-- `BoardState::from_fen` (counters parsed as u32 after the fix) -/
def fromFen (h : Hasher) (fen : List Char) : Outcome Pos :=
  let fen := trimNewline fen
  let cfg := splitOn ' ' fen
  match cfg with
  | [placement, side, castling, epStr, half, full] =>
    let toMove? : Option Color :=
      if side = ['w'] then some .white else if side = ['b'] then some .black else none
    match toMove? with
    | none => .err "Could not parse fen string: Next player to move was not provided"
    | some toMove =>
      let key0 : UInt64 := if toMove = .black then h.side else 0
      if (parseUnsigned 32 half).isNone then .err "Could not parse fen string: Invalid half move value"
      else if (parseUnsigned 32 full).isNone then .err "Could not parse fen string: Invalid full move value"
      else
        let rows := splitOn '/' placement
        if rows.length ≠ 8 then .err "Could not parse fen string: Invalid number of rows provided, 8 expected"
        else
          match fenRows h ⟨emptyBoard, Gen.boardStart, Gen.boardStart, ⟨0, 0⟩, ⟨0, 0⟩, key0⟩ rows with
          | .err e => .err e
          | .panic => .panic
          | .ok a =>
            let epRes : Outcome (Option Point) :=
              if byteLen epStr ≠ 2 then
                (if epStr ≠ ['-'] then .err "Could not parse fen string: En passant string not valid" else .ok none)
              else match pointFromStr epStr with
                | .ok pt => .ok (some pt)
                | _ => .ok none
            match epRes with
            | .err e => .err e
            | .panic => .panic
            | .ok ep =>
              let key := match ep with
                | some pt => a.key ^^^ h.epFile pt.col
                | none => a.key
              let wks := castling.contains 'K'
              let wqs := castling.contains 'Q'
              let bks := castling.contains 'k'
              let bqs := castling.contains 'q'
              let key := if wks then key ^^^ h.castle .wks else key
              let key := if wqs then key ^^^ h.castle .wqs else key
              let key := if bks then key ^^^ h.castle .bks else key
              let key := if bqs then key ^^^ h.castle .bqs else key
              .ok { board := a.board, toMove := toMove, ep := ep, wk := a.wk, bk := a.bk,
                    wks := wks, wqs := wqs, bks := bks, bqs := bqs, oh := 0,
                    lastMove := none, promo := none, key := key }
  | _ => .err "Could not parse fen string: Invalid fen string"

end Walleye
