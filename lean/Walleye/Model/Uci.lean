/-
  uci.rs: the dispatch loop of `play_game_uci` as a state machine, and the polling loop of
  `find_and_play_best_move` as a machine over an arbitrary schedule of polls.
  The search thread + channel are abstracted: `search board table slice` is whatever board the
  polling loop ends up with (none = it never gets one).  Runtime behaviour (threads, wall clock) is
  not modelled; this machine is tied to the binary by black-box sessions only.
-/
import Walleye.Model.Time
namespace Walleye

structure Sess where
  board : Pos
  table : DrawTable

inductive StepRes where
  | cont (s : Sess) (out : List String)       -- keep reading
  | exit (code : Nat)                          -- process::exit
  | panic                                      -- main thread panics (process dies)
  | hang                                       -- the polling loop never gets a board

def knownCommands : List String := ["isready", "ucinewgame", "position", "go", "setoption", "quit"]

/-- one event: `none` = end of input, `some raw` = one raw line as read by `read_line` -/
def step (h : Hasher) (search : Pos → DrawTable → Nat → Option Pos) (σ : Sess) (ev : Option (List Char)) : StepRes :=
  match ev with
  | none => .exit 0                                        -- after the fix: EOF ends the process
  | some raw =>
    let cmd := cleanInput raw
    let toks := Str.splitOn ' ' cmd
    let c0 := String.ofList (toks.headD [])
    if c0 = "isready" then .cont σ ["readyok"]
    else if c0 = "ucinewgame" then .cont σ []
    else if c0 = "position" then
      match playOutPosition h toks with                    -- on a cleared table
      | some (p, t) => .cont ⟨p, t⟩ []
      | none => .panic
    else if c0 = "go" then
      match parseGoCommand toks with
      | none => .panic
      | some gt =>
        let slice := calculateTimeSlice gt σ.board.toMove
        if (generateMoves h σ.board .all).isEmpty then .cont σ ["bestmove 0000"]     -- after the fix
        else match search σ.board σ.table slice with
          | some b =>
            (match bestmoveLine b with
             | some l => .cont { σ with board := b } [String.ofList l]
             | none => .panic)
          | none => .hang
    else if c0 = "setoption" then .cont σ []               -- (log file side effect not modelled)
    else if c0 = "quit" then .exit 1
    else .cont σ []

/-- `if let Ok(b) = rx.try_recv() { best_move = Some(b) }` -/
def takeMsg (arr best : Option Pos) : Option Pos :=
  match arr with
  | some b => some b
  | none => best

/-- the polling loop: each poll observes (deadline passed?, message taken from the channel?) -/
def ioLoop : List (Bool × Option Pos) → Option Pos → Option Pos
  | [], _ => none
  | (oot, arr) :: rest, best =>
    if oot ∧ best.isSome then best
    else ioLoop rest (takeMsg arr best)


/-! ### reading standard input (`read_from_gui`) and the whole process on a byte stream -/

/-- `read_line`: everything up to and including the first newline; all that is left if there is none -/
def readLine : List Char → List Char × List Char
  | [] => ([], [])
  | c :: rest =>
    if c = '\n' then ([c], rest)
    else let r := readLine rest; (c :: r.1, r.2)

/-- `read_from_gui`: `none` = nothing could be read (end of input: `process::exit(0)` after the fix);
    otherwise the raw line (cleaned by the caller) and what is left of the stream -/
def readFromGui (inp : List Char) : Option (List Char × List Char) :=
  let r := readLine inp
  if r.1.isEmpty then none else some r

/-- how the process ends -/
inductive StreamEnd where
  | exit (code : Nat)
  | panic
  | hang
  | outOfFuel          -- never (`stream_never_out_of_fuel`): every line read consumes at least one byte
  deriving DecidableEq, Repr

/-- the command loop of `play_game_uci` (after the handshake) on what is left of standard input -/
def runStream (h : Hasher) (search : Pos → DrawTable → Nat → Option Pos) : Nat → Sess → List Char → List String × StreamEnd
  | 0, _, _ => ([], .outOfFuel)
  | fuel + 1, σ, inp =>
    match readFromGui inp with
    | none => ([], .exit 0)
    | some (line, rest) =>
      match step h search σ (some line) with
      | .cont σ' out => let r := runStream h search fuel σ' rest; (out ++ r.1, r.2)
      | .exit c => ([], .exit c)
      | .panic => ([], .panic)
      | .hang => ([], .hang)

end Walleye
