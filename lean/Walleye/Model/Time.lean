/-
  time_control.rs `calculate_time_slice` over an exact model of IEEE-754 binary64 arithmetic.
  A finite double is a dyadic rational `m * 2^e` (`Dy`); every operation computes the exact
  rational result and rounds it to a 53 bit significand, round-to-nearest ties-to-even.  The
  values that occur (|x| between 2^-40 and 2^130) are far from the subnormal and overflow
  ranges, where this model would differ from the hardware.  Lean's `Float` is opaque to the
  kernel; the driver uses it only as a second opinion.
-/
import Walleye.Model.UciText
namespace Walleye
namespace F64

/-- value `m * 2^e` -/
structure Dy where
  m : Int
  e : Int
  deriving Repr, Inhabited

/-- `(a * 2^(-k)) divMod d` with everything kept integral -/
def scaleDiv (a d : Nat) (k : Int) : Nat × Nat × Nat :=
  let N := a * 2 ^ (-k).toNat
  let D := d * 2 ^ k.toNat
  (N / D, N % D, D)

/-- round the positive rational `a / d` to 53 significant bits, nearest-even: `(q, k)` = `q * 2^k` -/
def rnePos (a d : Nat) : Nat × Int :=
  let k0 : Int := (a.log2 : Int) - (d.log2 : Int) - 52
  let q0 := (scaleDiv a d k0).1
  let k : Int := if q0 ≥ 2 ^ 52 then k0 else k0 - 1
  let (q, r, D) := scaleDiv a d k
  let q' := if 2 * r > D ∨ (2 * r = D ∧ q % 2 = 1) then q + 1 else q
  (q', k)

/-- round the rational `(num / den) * 2^e` (den > 0) -/
def round53 (num : Int) (den : Nat) (e : Int) : Dy :=
  if num = 0 then ⟨0, 0⟩
  else
    let (q, k) := rnePos num.natAbs den
    ⟨if num < 0 then -(q : Int) else (q : Int), k + e⟩

def ofInt (n : Int) : Dy := round53 n 1 0

/-- align two dyadics to a common exponent: exact integers `(ma, mb, e)` -/
def align (a b : Dy) : Int × Int × Int :=
  let e := min a.e b.e
  (a.m * 2 ^ (a.e - e).toNat, b.m * 2 ^ (b.e - e).toNat, e)

def sub (a b : Dy) : Dy :=
  let (ma, mb, e) := align a b
  round53 (ma - mb) 1 e

def mul (a b : Dy) : Dy := round53 (a.m * b.m) 1 (a.e + b.e)

/-- `a / b`, `b ≠ 0` -/
def div (a b : Dy) : Dy :=
  round53 (if b.m < 0 then -a.m else a.m) b.m.natAbs (a.e - b.e)

def le (a b : Dy) : Bool :=
  let (ma, mb, _) := align a b
  decide (ma ≤ mb)

def lt (a b : Dy) : Bool :=
  let (ma, mb, _) := align a b
  decide (ma < mb)

def zero : Dy := ⟨0, 0⟩

def fmin (a b : Dy) : Dy := if le a b then a else b
def fmax (a b : Dy) : Dy := if le a b then b else a

/-- `f64::round` (half away from zero), as an exact integer -/
def roundHalfAway (a : Dy) : Int :=
  if a.e ≥ 0 then a.m * 2 ^ a.e.toNat
  else
    let s := (-a.e).toNat
    let n := a.m.natAbs
    let q := n / 2 ^ s
    let r := n % 2 ^ s
    let q' := if 2 * r ≥ 2 ^ s then q + 1 else q
    if a.m < 0 then -(q' : Int) else q'

/-- `as u128` (saturating) of an integral value -/
def toU128 (n : Int) : Nat :=
  if n ≤ 0 then 0 else if n ≥ 2 ^ 128 then 2 ^ 128 - 1 else n.toNat

/-- the f64 nearest to the decimal literal `MAX_USAGE` -/
def maxUsage : Dy := round53 Gen.maxUsageNum Gen.maxUsageDen 0

end F64

/-- the moves to go the plan divides by: the number told if it is positive, else GAME_LENGTH
    (fix e30d5a0: `movestogo 0` is read as "not told") -/
def GameTime.mtg (gt : GameTime) : Nat :=
  match gt.movestogo with
  | some m => if m = 0 then Gen.gameLength else m
  | none => Gen.gameLength

open F64 in
/-- `GameTime::calculate_time_slice` (after the fixes: the increment branch is capped by the clock;
    `movestogo 0` counts as not told) -/
def calculateTimeSlice (gt : GameTime) (color : Color) : Nat :=
  let mtgN := gt.mtg
  let clockI := match color with | .white => gt.wtime | .black => gt.btime
  let incI := match color with | .white => gt.winc | .black => gt.binc
  let clock := ofInt clockI
  let increment := ofInt incI
  let base := sub clock (ofInt Gen.safeguardMs)
  if le base zero then
    if lt zero increment then
      let planned : Dy := ofInt (roundHalfAway (mul increment maxUsage))
      toU128 (roundHalfAway (fmin planned (fmax clock zero)))
    else Gen.noTime
  else
    if mtgN = 0 then 2 ^ 128 - 1        -- x / 0.0 = +inf, saturating cast
    else toU128 (roundHalfAway (div (mul base maxUsage) (ofInt mtgN)))

end Walleye
