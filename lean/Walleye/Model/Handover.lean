/-
  The hand-over of moves and info lines between the search thread and the I/O thread of one `go`
  (engine.rs root loop `tx.send` + `send_search_info`; uci.rs `find_and_play_best_move`), as a
  machine over an ARBITRARY schedule of atomic steps of the two threads.

  What the search thread wants to do is given as a list of acts (from the reports of its run, whatever
  its clock does): a plain send of a board (the fall-back move; `tx.send(..).unwrap()`), or an accepted
  improvement (under the stdout lock: `if tx.send(m).is_err() { return }`, then the info line).
  The I/O thread polls (`rx.try_recv()`), and once it holds a board it may at any time (the deadline is
  arbitrary here) answer: under the stdout lock it takes what is left in the channel, closes the channel
  and prints `bestmove`.

  Granularity: each critical section is ONE step here (an improvement's send + print; the answer's
  drain + close + print).  Model/HandoverFine.lean has the micro-steps and the lock itself, proves the
  exclusion instead of assuming it, and makes exact the one thing this machine idealises: a PLAIN send
  (not under the lock) can land between the drain and the close, so the bestmove carries the last
  board sent before the drain, and anything that got through later is a plain send.
  Trusted: a channel operation is atomic; `stdout().lock()` is a lock.
-/
namespace Walleye.Handover

inductive Act (B I : Type) where
  | fallback (m : B)
  | accept (m : B) (i : I)
  deriving DecidableEq, Repr

def Act.board {B I : Type} : Act B I → B
  | .fallback m => m
  | .accept m _ => m

/-- a line on standard output -/
inductive Line (B I : Type) where
  | info (i : I)
  | best (b : B)
  deriving DecidableEq, Repr

/-- which thread makes its next atomic step -/
inductive Ev where
  | search      -- the search thread performs its next act (or ends)
  | poll        -- the I/O thread: one `try_recv`
  | answer      -- the I/O thread finds the deadline passed (loop condition), and if it holds a board: answers
  deriving DecidableEq, Repr

structure St (B I : Type) where
  todo   : List (Act B I)       -- acts not yet performed by the search thread
  alive  : Bool                 -- the search thread is still running
  chan   : List B               -- messages in flight, oldest first
  isOpen : Bool                 -- the receiver has not been dropped: the go is not answered yet
  best   : Option B             -- `best_move` of the I/O thread
  out    : List (Line B I)      -- standard output so far
  done   : List (Act B I)       -- ghost: the acts performed so far, in order

def init {B I : Type} (acts : List (Act B I)) : St B I :=
  { todo := acts, alive := true, chan := [], isOpen := true, best := none, out := [], done := [] }

/-- the act `a` gets through: the board is in flight, an improvement's info line is printed with it -/
def perform {B I : Type} (s : St B I) (a : Act B I) (t : List (Act B I)) : St B I :=
  match a with
  | .fallback m => { s with todo := t, chan := s.chan ++ [m], done := s.done ++ [a] }
  | .accept m i => { s with todo := t, chan := s.chan ++ [m], out := s.out ++ [.info i], done := s.done ++ [a] }

/-- the search thread performs its next act (or ends) -/
def searchStep {B I : Type} (s : St B I) : St B I :=
  if s.alive then
    match s.todo with
    | [] => { s with alive := false }                          -- the search is over
    | a :: t =>
      if s.isOpen then perform s a t
      else { s with alive := false }                           -- send fails: `unwrap` panics / `return`
  else s

/-- one `try_recv` -/
def pollStep {B I : Type} (s : St B I) : St B I :=
  if s.isOpen then
    match s.chan with
    | [] => s
    | b :: r => { s with chan := r, best := some b }
  else s

/-- the loop condition finds the deadline passed; holding a board, the I/O thread answers -/
def answerStep {B I : Type} (s : St B I) : St B I :=
  if s.isOpen then
    match s.best with
    | none => s                                                -- `|| best_move.is_none()`: keeps polling
    | some b0 =>
      let b := s.chan.getLast?.getD b0                         -- `while let Ok(b) = rx.try_recv() { best_move = Some(b) }`
      { s with chan := [], isOpen := false, best := some b, out := s.out ++ [.best b] }
  else s

def step {B I : Type} (s : St B I) : Ev → St B I
  | .search => searchStep s
  | .poll => pollStep s
  | .answer => answerStep s

def run {B I : Type} (acts : List (Act B I)) (evs : List Ev) : St B I := evs.foldl step (init acts)

/-- the info lines of a list of acts -/
def infos {B I : Type} : List (Act B I) → List (Line B I)
  | [] => []
  | .fallback _ :: t => infos t
  | .accept _ i :: t => .info i :: infos t

def boards {B I : Type} (l : List (Act B I)) : List B := l.map Act.board

end Walleye.Handover
