/- The chess instance of the abstract search, the order-log oracle used for the correspondence
   replay, and the text of `info` lines. -/
import Walleye.Model.Search
import Walleye.Model.Eval
import Walleye.Model.UciText
namespace Walleye

def chessGame (h : Hasher) : Game Pos where
  gen := fun p m => generateMoves h p m
  eval := getEvaluation
  inCheck := fun p => isCheck p p.toMove
  key := fun p => p.key
  null := fun p => { p with toMove := p.toMove.opp }
  lastMove := fun p => p.lastMove
  oh := fun p => p.oh
  withOh := fun p v => { p with oh := v }

def moveId (p : Pos) : String :=
  match moveText p with
  | some t => String.ofList t
  | none => "-"

/-- stable insertion sort, descending by `order_heuristic` (used when no order log is given) -/
def insertDesc (x : Pos) : List Pos → List Pos
  | [] => [x]
  | y :: ys => if y.oh ≥ x.oh then y :: insertDesc x ys else x :: y :: ys

def sortDesc (l : List Pos) : List Pos := l.foldr insertDesc []

structure OrdLog where
  log : Array (Char × Array String)
  pos : Nat := 0
  useLog : Bool := true
  bad : Option String := none
  rootSorts : Nat := 0

def nonIncreasing : List Pos → Bool
  | a :: b :: rest => a.oh ≥ b.oh && nonIncreasing (b :: rest)
  | _ => true

def eraseFirstId (id : String) : List Pos → List Pos
  | [] => []
  | q :: qs => if moveId q == id then qs else q :: eraseFirstId id qs

/-- pick the successors in the order of the logged ids; `none` if the ids are not a permutation -/
def pickAll : List String → List Pos → Option (List Pos)
  | [], [] => some []
  | [], _ :: _ => none
  | id :: ids, l =>
    match l.find? (fun p => moveId p == id) with
    | none => none
    | some p => (pickAll ids (eraseFirstId id l)).map (p :: ·)

/-- oracle that replays the order log written by the engine (hook H4) and validates it -/
def logOracle : Oracle Pos OrdLog := fun o expired site l =>
  let o := if site = 'R' then { o with rootSorts := o.rootSorts + 1 } else o
  -- after the clock has expired the engine can only sort the root list once more (start of the
  -- next iteration, immediately followed by the exit); that sort is not in the shared log
  if !o.useLog || o.bad.isSome || expired then (sortDesc l, o)
  else
    match o.log[o.pos]? with
    | none => (sortDesc l, { o with bad := some s!"order log exhausted at entry {o.pos}" })
    | some (site', ids) =>
      if site' ≠ site then
        (sortDesc l, { o with bad := some s!"order log entry {o.pos}: site {site'} expected {site}" })
      else
        match pickAll ids.toList l with
        | none => (sortDesc l, { o with bad := some s!"order log entry {o.pos}: not a permutation of the model's successors" })
        | some l' =>
          if nonIncreasing l' then (l', { o with pos := o.pos + 1 })
          else (sortDesc l, { o with bad := some s!"order log entry {o.pos}: not sorted by the model's order_heuristic" })

def mvText (m : Mv) : String := String.ofList (pointDisplay m.1 ++ pointDisplay m.2)

/-- `send_search_info` without the trailing ` time T` -/
def infoText (i : Info) : String :=
  let pv := String.join (i.pv.map fun m => " " ++ mvText m)
  let head := s!"info pv{pv} depth {i.depth} nodes {i.nodes} score "
  if i.eval ≥ Gen.mateScore - Gen.mateWindow then
    head ++ s!"mate {Int.tdiv (Gen.mateScore - i.eval + 1) 2}"
  else if i.eval ≤ -Gen.mateScore + Gen.mateWindow then
    head ++ s!"mate {Int.tdiv (Gen.mateScore + i.eval) (-2)}"
  else head ++ s!"cp {i.eval}"

end Walleye
