/-
  Model of board.rs data types: colours, kinds, pieces, squares, points, the 12x12 mailbox
  with its sentinel ring and `BoardState` (here `Pos`), field for field.  Core Lean only.
-/
namespace Walleye

inductive Color | white | black
  deriving DecidableEq, Repr, Inhabited

inductive Kind | pawn | knight | bishop | rook | queen | king
  deriving DecidableEq, Repr, Inhabited

structure Piece where
  color : Color
  kind : Kind
  deriving DecidableEq, Repr, Inhabited

inductive Square
  | empty
  | full (p : Piece)
  | boundary
  deriving DecidableEq, Repr, Inhabited

/-- `PieceColor::opposite` -/
def Color.opp : Color → Color
  | .white => .black
  | .black => .white

@[simp] theorem Color.opp_opp (c : Color) : c.opp.opp = c := by cases c <;> rfl
theorem Color.opp_ne (c : Color) : c.opp ≠ c := by cases c <;> decide

/-- `Square::is_empty` -/
def Square.isEmpty : Square → Bool
  | .empty => true
  | _ => false

/-- `Square::is_color` -/
def Square.isColor (s : Square) (c : Color) : Bool :=
  match s with
  | .full p => p.color == c
  | _ => false

/-- `Square::is_empty_or_color` -/
def Square.isEmptyOrColor (s : Square) (c : Color) : Bool :=
  match s with
  | .full p => c == p.color
  | .empty => true
  | .boundary => false

/-- `impl PartialEq<Piece> for Square` -/
def Square.isPiece (s : Square) (p : Piece) : Bool :=
  match s with
  | .full q => q == p
  | _ => false

/-- `Point(row, col)` in 12x12 coordinates -/
structure Point where
  row : Nat
  col : Nat
  deriving DecidableEq, Repr, Inhabited

inductive CastlingType | wks | wqs | bks | bqs
  deriving DecidableEq, Repr, Inhabited

/-- 12x12 mailbox.  `cells[r*12+c]`. -/
structure Board where
  cells : Array Square
  size_eq : cells.size = 144

instance : DecidableEq Board := fun a b =>
  if h : a.cells = b.cells then isTrue (by cases a; cases b; simp_all) else isFalse (by intro e; exact h (by rw [e]))

instance : Inhabited Board := ⟨⟨Array.replicate 144 .boundary, by simp⟩⟩

/-- `board[r][c]`; an index outside the array (a panic in Rust) reads as `boundary` here. The
    model never indexes outside when the origin square is on the 8x8 board (offsets are ≤ 2). -/
@[inline] def Board.get (b : Board) (r c : Nat) : Square :=
  if h : r < 12 ∧ c < 12 then b.cells[r * 12 + c]'(by have := b.size_eq; omega) else .boundary

@[inline] def Board.set (b : Board) (r c : Nat) (v : Square) : Board :=
  if h : r < 12 ∧ c < 12 then
    ⟨b.cells.set (r * 12 + c) v (by have := b.size_eq; omega), by simp [b.size_eq]⟩
  else b

/-- signed index arithmetic of the Rust code: `(row as i8 + r) as usize`; a negative result
    would wrap to a huge usize (index panic); it reads as boundary here -/
@[inline] def Board.getI (b : Board) (r c : Int) : Square :=
  if 0 ≤ r ∧ 0 ≤ c then b.get r.toNat c.toNat else .boundary

theorem Board.get_set_eq (b : Board) (r c : Nat) (v : Square) (hr : r < 12) (hc : c < 12) :
    (b.set r c v).get r c = v := by
  simp [Board.get, Board.set, hr, hc]

theorem Board.get_set_ne (b : Board) (r c r' c' : Nat) (v : Square)
    (h : ¬ (r = r' ∧ c = c')) : (b.set r c v).get r' c' = b.get r' c' := by
  unfold Board.get Board.set
  by_cases h1 : r < 12 ∧ c < 12
  · by_cases h2 : r' < 12 ∧ c' < 12
    · simp only [h1, h2, dite_true]
      have hne : r * 12 + c ≠ r' * 12 + c' := by omega
      simp [Array.getElem_set, hne]
    · simp [h1, h2]
  · simp [h1]

theorem Board.get_set (b : Board) (r c r' c' : Nat) (v : Square) (hr : r < 12) (hc : c < 12) :
    (b.set r c v).get r' c' = if r = r' ∧ c = c' then v else b.get r' c' := by
  split
  · next h => obtain ⟨rfl, rfl⟩ := h; exact b.get_set_eq r c v hr hc
  · next h => exact b.get_set_ne r c r' c' v h

/-- `BoardState`, field for field -/
structure Pos where
  board : Board
  toMove : Color
  ep : Option Point                     -- pawn_double_move
  wk : Point                            -- white_king_location
  bk : Point                            -- black_king_location
  wks : Bool
  wqs : Bool
  bks : Bool
  bqs : Bool
  oh : Int                              -- order_heuristic
  lastMove : Option (Point × Point)
  promo : Option Piece                  -- pawn_promotion
  key : UInt64                          -- zobrist_key
  deriving Inhabited

end Walleye
