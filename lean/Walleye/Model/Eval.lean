/- evaluation.rs `get_evaluation`: tapered PeSTO evaluation, tables from Generated (T1). -/
import Walleye.Model.BoardOps
namespace Walleye

@[inline] def tbl (t : Array (Array Int)) (r c : Nat) : Int := (t.getD r #[]).getD c 0

structure EvalAcc where
  wmg : Int := 0
  bmg : Int := 0
  weg : Int := 0
  beg : Int := 0
  phase : Int := 0

/-- contribution of one square (12x12 coordinates `row`,`col` in 2..9) -/
def evalSquare (b : Board) (acc : EvalAcc) (pt : Point) : EvalAcc :=
  match b.get pt.row pt.col with
  | .full ⟨color, kind⟩ =>
    let acc := { acc with phase := acc.phase + Gen.gamePhaseVal kind }
    match color with
    | .white =>
      { acc with
        wmg := acc.wmg + (tbl (Gen.mgTable kind) (pt.row - Gen.boardStart) (pt.col - Gen.boardStart) + Gen.mgPieceVal kind)
        weg := acc.weg + (tbl (Gen.egTable kind) (pt.row - Gen.boardStart) (pt.col - Gen.boardStart) + Gen.egPieceVal kind) }
    | .black =>
      { acc with
        bmg := acc.bmg + (tbl (Gen.mgTable kind) (Gen.blackRowFlip - pt.row) (pt.col - Gen.boardStart) + Gen.mgPieceVal kind)
        beg := acc.beg + (tbl (Gen.egTable kind) (Gen.blackRowFlip - pt.row) (pt.col - Gen.boardStart) + Gen.egPieceVal kind) }
  | _ => acc

def evalCoords : List Point :=
  (List.range 8).flatMap fun i => (List.range 8).map fun j => ⟨i + 2, j + 2⟩

def evalFinish (acc : EvalAcc) (toMove : Color) : Int :=
  let mg := match toMove with | .white => acc.wmg - acc.bmg | .black => acc.bmg - acc.wmg
  let eg := match toMove with | .white => acc.weg - acc.beg | .black => acc.beg - acc.weg
  let mgPhase := if acc.phase > Gen.phaseClampAt then Gen.phaseClampTo else acc.phase
  let egPhase := Gen.phaseTotal - mgPhase
  Int.tdiv (mg * mgPhase + eg * egPhase) Gen.phaseDiv

/-- `get_evaluation` (i32 arithmetic; no overflow: see `eval_bound`) -/
def getEvaluation (p : Pos) : Int :=
  evalFinish (evalCoords.foldl (evalSquare p.board) {}) p.toMove

end Walleye
