/-
  board.rs:524-584 — the four mutators that maintain the zobrist key incrementally.
-/
import Walleye.Model.Hasher
namespace Walleye

/-- `swap_color` -/
def Pos.swapColor (h : Hasher) (p : Pos) : Pos :=
  { p with toMove := p.toMove.opp, key := p.key ^^^ h.side }

def Pos.right (p : Pos) : CastlingType → Bool
  | .wks => p.wks
  | .wqs => p.wqs
  | .bks => p.bks
  | .bqs => p.bqs

/-- `take_away_castling_rights` (the Rust `else if` chain: exactly one arm can fire) -/
def Pos.takeAway (h : Hasher) (p : Pos) (ct : CastlingType) : Pos :=
  match ct with
  | .wks => if p.wks then { p with wks := false, key := p.key ^^^ h.castle .wks } else p
  | .wqs => if p.wqs then { p with wqs := false, key := p.key ^^^ h.castle .wqs } else p
  | .bks => if p.bks then { p with bks := false, key := p.key ^^^ h.castle .bks } else p
  | .bqs => if p.bqs then { p with bqs := false, key := p.key ^^^ h.castle .bqs } else p

/-- `unset_pawn_double_move` -/
def Pos.unsetEp (h : Hasher) (p : Pos) : Pos :=
  match p.ep with
  | some t => { p with ep := none, key := p.key ^^^ h.epFile t.col }
  | none => p

/-- `move_piece` -/
def Pos.movePiece (h : Hasher) (p : Pos) (s e : Point) : Pos :=
  match p.board.get s.row s.col with
  | .full cur =>
    let b1 := p.board.set s.row s.col .empty
    let k1 := match b1.get e.row e.col with
      | .full target => p.key ^^^ h.piece target e
      | _ => p.key
    let b2 := b1.set e.row e.col (.full cur)
    { p with board := b2, key := k1 ^^^ (h.piece cur s ^^^ h.piece cur e) }
  | _ => p

end Walleye
