/-
  engine.rs (`quiesce`, `alpha_beta_search`, `get_best_move`, `send_search_info`) and search.rs,
  as pure state-passing functions over an abstract `Game`: the chess instance is `chessGame`
  (Model/SearchChess.lean); theorems are proved for every game, every clock expiry and every
  ordering oracle.

  * clock: a query counter; the `k`-th consultation (0 based) and all later ones say "out of time".
  * `sort_unstable_by_key` is replaced by an ordering oracle `ord` threaded through the state.
  * the three per-ply arrays have 100 entries; an index ≥ 100 is the outcome `panic`.
  * recursion is by fuel (the check extension makes `depth` non-decreasing); `fuel` is a distinct
    outcome.
-/
import Walleye.Model.DrawTable
import Walleye.Model.MoveGen
namespace Walleye

abbrev Mv := Point × Point

structure Game (P : Type) where
  gen : P → Mode → List P
  eval : P → Int
  inCheck : P → Bool            -- is_check(board, board.to_move)
  key : P → UInt64
  null : P → P                  -- clone with the side to move flipped (key untouched)
  lastMove : P → Option Mv
  oh : P → Int                  -- order_heuristic
  withOh : P → Int → P

structure Info where
  pv : List Mv
  depth : Nat
  nodes : Nat
  eval : Int
  deriving Repr, DecidableEq, Inhabited

/-- one observable action of the search thread -/
inductive Report (P : Type) where
  | sent (p : P)
  | info (i : Info)

structure SS (P O : Type) where
  queries : Nat
  expiry : Option Nat
  nodes : Nat
  killers : Array (Array (Option Mv))
  pv : Array (Option Mv)
  cur : Array (Option Mv)
  table : DrawTable
  ord : O
  reports : Array (Report P)

inductive Res (σ α : Type) where
  | ok (a : α) (s : σ)
  | panic (s : σ)
  | fuel (s : σ)

def M (σ α : Type) := σ → Res σ α

instance {σ : Type} : Monad (M σ) where
  pure a := fun s => .ok a s
  bind m f := fun s =>
    match m s with
    | .ok a s' => f a s'
    | .panic s' => .panic s'
    | .fuel s' => .fuel s'

namespace M
def get {σ : Type} : M σ σ := fun s => .ok s s
def modify {σ : Type} (f : σ → σ) : M σ Unit := fun s => .ok () (f s)
def panic {σ α : Type} : M σ α := fun s => .panic s
def outOfFuel {σ α : Type} : M σ α := fun s => .fuel s
end M

section
variable {P O : Type}

/-- the ordering oracle: has the clock already expired?, site ('Q','A','R'), the list as ranked
    by the engine → some order of it -/
abbrev Oracle (P O : Type) := O → Bool → Char → List P → List P × O

def arrSize : Nat := Gen.maxDepth

def newSS (expiry : Option Nat) (table : DrawTable) (o : O) : SS P O :=
  { queries := 0, expiry := expiry, nodes := 0,
    killers := Array.replicate arrSize (Array.replicate Gen.killerPlySize none),
    pv := Array.replicate arrSize none, cur := Array.replicate arrSize none,
    table := table, ord := o, reports := #[] }

/-- `out_of_time` under the virtual clock -/
def tick : M (SS P O) Bool := fun s =>
  .ok (match s.expiry with | some k => decide (k ≤ s.queries) | none => false) { s with queries := s.queries + 1 }

def nodeSearched : M (SS P O) Unit := M.modify fun s => { s with nodes := s.nodes + 1 }

/-- some consultation of the clock has already answered "out of time" -/
def SS.expired (s : SS P O) : Bool :=
  match s.expiry with
  | some k => decide (k < s.queries)
  | none => false

def order (ord : Oracle P O) (site : Char) (l : List P) : M (SS P O) (List P) := fun s =>
  let (l', o') := ord s.ord s.expired site l
  .ok l' { s with ord := o' }

/-- `insert_into_cur_line` -/
def insertCur (ply : Nat) (m : Option Mv) : M (SS P O) Unit := fun s =>
  if ply < s.cur.size then .ok () { s with cur := s.cur.setIfInBounds ply m } else .panic s

/-- `set_principle_variation` -/
def setPV : M (SS P O) Unit := M.modify fun s => { s with pv := s.cur }

def getPV (ply : Nat) : M (SS P O) (Option Mv) := fun s =>
  if h : ply < s.pv.size then .ok s.pv[ply] s else .panic s

def getKillers (ply : Nat) : M (SS P O) (Array (Option Mv)) := fun s =>
  if h : ply < s.killers.size then .ok s.killers[ply] s else .panic s

/-- `insert_killer_move` (the ascending copy loop, literally) -/
def insertKiller (ply : Nat) (m : Option Mv) : M (SS P O) Unit := fun s =>
  if h : ply < s.killers.size then
    let row := s.killers[ply]
    if row.contains m then .ok () s
    else
      let row := (List.range (Gen.killerPlySize - 1)).foldl
        (fun (r : Array (Option Mv)) i => r.setIfInBounds (i + 1) (r.getD i none)) row
      let row := row.setIfInBounds 0 m
      .ok () { s with killers := s.killers.setIfInBounds ply row }
  else .panic s

def tableAdd (k : UInt64) : M (SS P O) Unit := fun s =>
  match s.table.add k with
  | some t => .ok () { s with table := t }
  | none => .panic s

def tableRemove (k : UInt64) : M (SS P O) Unit := fun s =>
  match s.table.remove k with
  | some t => .ok () { s with table := t }
  | none => .panic s

def report (r : Report P) : M (SS P O) Unit := M.modify fun s => { s with reports := s.reports.push r }

variable (g : Game P) (ord : Oracle P O)

/-- the `for mov in moves` loop of `quiesce`; `f` is the recursive call -/
def quiesceLoop (f : P → Int → Int → M (SS P O) Int) : List P → Int → Int → M (SS P O) Int
  | [], alpha, _ => pure alpha
  | m :: ms, alpha, beta => do
    let score := - (← f m (-beta) (-alpha))
    if score ≥ beta then return beta
    let alpha := if score > alpha then score else alpha
    quiesceLoop f ms alpha beta

/-- `quiesce` -/
def quiesce : Nat → P → Int → Int → M (SS P O) Int
  | 0, _, _, _ => M.outOfFuel
  | fuel + 1, p, alpha, beta => do
    nodeSearched
    let standPat := g.eval p
    if standPat ≥ beta then return beta
    let alpha := if alpha < standPat then standPat else alpha
    let moves ← order ord 'Q' (g.gen p .caps)
    quiesceLoop (quiesce fuel) moves alpha beta

def qFuel : Nat := 64

/-- the ranking loop before the sort in `alpha_beta_search` -/
def rankMoves (pv : Option Mv) (killers : Array (Option Mv)) (moves : List P) : List P :=
  moves.map fun m =>
    if g.lastMove m = pv then g.withOh m Gen.posInf
    else if (List.range Gen.killerPlySize).any (fun i => g.lastMove m = killers.getD i none)
      then g.withOh m Gen.killerMoveScore
    else m

/-- type of the recursive call of `alpha_beta_search`: board depth ply alpha beta allow_null -/
abbrev ABFun (P O : Type) := P → Nat → Nat → Int → Int → Bool → M (SS P O) Int

/-- the zero-window loop over the remaining moves; `d1` = depth - 1 -/
def abLoop (f : ABFun P O) : List P → Nat → Nat → Int → Int → Int → M (SS P O) Int
  | [], _, _, _, _, best => pure best
  | m :: ms, d1, ply, alpha, beta, best => do
    insertCur ply (g.lastMove m)
    let s0 := - (← f m d1 (ply + 1) (-alpha - 1) (-alpha) true)
    let (score, alpha) ←
      if s0 > alpha ∧ s0 < beta then do
        let s1 := - (← f m d1 (ply + 1) (-beta) (-alpha) true)
        pure (s1, if s1 > alpha then s1 else alpha)
      else pure (s0, alpha)
    if score > best then
      if score ≥ beta then
        if g.oh m = 0 then insertKiller ply (g.lastMove m)
        return score
      setPV
      abLoop f ms d1 ply alpha beta score
    else abLoop f ms d1 ply alpha beta best

/-- everything between `add_board_to_draw_table` and the matching remove -/
def abBody (f : ABFun P O) (p : P) (depth ply : Nat) (alpha beta : Int) (allowNull : Bool) :
    M (SS P O) Int := do
  if depth = 0 ∧ ¬ g.inCheck p then
    quiesce g ord qFuel p alpha beta
  else
    let depth := if depth = 0 then 1 else depth
    let alpha := max alpha (-Gen.mateScore + ply)
    let beta := min beta (Gen.mateScore - ply)
    if alpha ≥ beta then return alpha
    let pruned ←
      if allowNull ∧ depth ≥ Gen.nullMinDepth ∧ ¬ g.inCheck p then do
        let e := - (← f (g.null p) (depth - Gen.nullReduction) (ply + Gen.nullPlyJump)
                      (-beta) (-beta + 1) false)
        pure (decide (e ≥ beta))
      else pure false
    if pruned then return beta
    let moves := g.gen p .all
    if moves.isEmpty then
      return (if g.inCheck p then -(Gen.mateScore - ply) else 0)
    let pvm ← getPV ply
    let ks ← getKillers ply
    let moves ← order ord 'A' (rankMoves g pvm ks moves)
    match moves with
    | [] => M.panic                         -- `moves[0]` on an empty list (a non-permuting oracle)
    | m0 :: rest =>
      insertCur ply (g.lastMove m0)
      if g.oh m0 ≠ Gen.posInf then setPV
      let best := - (← f m0 (depth - 1) (ply + 1) (-beta) (-alpha) true)
      if best > alpha then
        if best ≥ beta then return best
        setPV
        abLoop g f rest (depth - 1) ply best beta best
      else
        abLoop g f rest (depth - 1) ply alpha beta best

/-- `alpha_beta_search`; the table entry added for `p` is removed on every path out -/
def alphaBeta : Nat → ABFun P O
  | 0, _, _, _, _, _, _ => M.outOfFuel
  | fuel + 1, p, depth, ply, alpha, beta, allowNull => do
    if (← tick) then return -Gen.posInf
    nodeSearched
    if (← M.get).table.isThreefold (g.key p) then return 0
    tableAdd (g.key p)
    let r ← abBody g ord (alphaBeta fuel) p depth ply alpha beta allowNull
    tableRemove (g.key p)
    return r

/-- `send_search_info`: the PV is `pv_moves` up to the first `None` -/
def pvPrefix (pv : Array (Option Mv)) : List Mv :=
  (pv.toList.takeWhile Option.isSome).filterMap id

def sendInfo (depth : Nat) (eval : Int) : M (SS P O) Unit := fun s =>
  .ok () { s with reports := s.reports.push (.info ⟨pvPrefix s.pv, depth, s.nodes, eval⟩) }

/-- the `for mov in &moves` loop of one iteration of `get_best_move`.
    Returns `none` when the search must stop (clock), else the new (alpha, best). -/
def rootLoop (fuel : Nat) (curDepth : Nat) (first : P) :
    List P → Int → Option P → M (SS P O) (Option (Int × Option P))
  | [], alpha, best => pure (some (alpha, best))
  | m :: ms, alpha, best => do
    if (← tick) then
      if best.isNone then report (.sent first)
      return none
    let evaluation := - (← alphaBeta g ord fuel m (curDepth - 1) 1 (-Gen.posInf) (-alpha) true)
    insertCur 0 (g.lastMove m)
    let accept ← if evaluation > alpha then do pure (! (← tick)) else pure false
    if accept then
      report (.sent m)
      setPV
      sendInfo curDepth evaluation
      rootLoop fuel curDepth first ms evaluation (some m)
    else rootLoop fuel curDepth first ms alpha best

/-- mark the first successor whose `last_move` equals the best move's as the PV node -/
def markPV (best : Option P) : List P → List P
  | [] => []
  | m :: ms =>
    match best with
    | none => m :: ms
    | some b => if g.lastMove m = g.lastMove b then g.withOh m Gen.posInf :: ms else m :: markPV best ms

/-- (fix 3ef6069) in the first iteration a move to fall back on — the first move of the ordering —
    is handed over before the first evaluation starts -/
def sendFallback (curDepth : Nat) (first : P) : M (SS P O) Unit :=
  if curDepth = 1 then report (.sent first) else pure ()

/-- iterations `curDepth, curDepth+1, … < MAX_DEPTH` of `get_best_move` -/
def iterate (fuel : Nat) (root : P) : Nat → Nat → List P → Option P → M (SS P O) Unit
  | 0, _, _, _ => pure ()
  | n + 1, curDepth, moves, best => do
    if curDepth ≥ Gen.maxDepth then return ()
    M.modify fun s => { s with nodes := 0, cur := Array.replicate arrSize none }
    let moves ← order ord 'R' moves
    match moves with
    | [] => iterate fuel root n (curDepth + 1) (markPV g best (g.gen root .all)) best
    | first :: _ =>
      sendFallback curDepth first
      match (← rootLoop g ord fuel curDepth first moves (-Gen.posInf) best) with
      | none => return ()
      | some (_, best) =>
        iterate fuel root n (curDepth + 1) (markPV g best (g.gen root .all)) best

/-- `get_best_move` -/
def getBestMove (fuel : Nat) (root : P) : M (SS P O) Unit :=
  iterate g ord fuel root Gen.maxDepth 1 (g.gen root .all) none

end

end Walleye
