/-
  move_generation.rs — modelled function by function, in source order, quirks included.
  `Vec::push` sequences become list appends in the same order.  `i8`/`usize` index arithmetic is
  done in `Int`; an index that would be negative (a wrap + panic in Rust) reads as boundary.
-/
import Walleye.Model.BoardOps
namespace Walleye

inductive Mode | all | caps
  deriving DecidableEq, Repr, Inhabited

@[inline] def ptI (r c : Int) : Point := ⟨r.toNat, c.toNat⟩

/-- `knight_moves` -/
def knightMoves (piece : Piece) (row col : Nat) (b : Board) (mode : Mode) : List Point :=
  Gen.knightCords.filterMap fun rc =>
    let r : Int := (row : Int) + rc.1
    let c : Int := (col : Int) + rc.2
    let sq := b.getI r c
    if sq.isEmptyOrColor piece.color.opp then
      if mode = .caps then (if !sq.isEmpty then some (ptI r c) else none) else some (ptI r c)
    else none

/-- `pawn_moves` -/
def pawnMoves (piece : Piece) (row col : Nat) (b : Board) (mode : Mode) : List Point :=
  match piece.color with
  | .white =>
    let l := if (b.get (row - 1) (col - 1)).isColor .black then [Point.mk (row - 1) (col - 1)] else []
    let r := if (b.get (row - 1) (col + 1)).isColor .black then [Point.mk (row - 1) (col + 1)] else []
    let push :=
      if mode = .all ∧ (b.get (row - 1) col).isEmpty then
        Point.mk (row - 1) col ::
          (if row = Gen.whiteDoublePushRow ∧ (b.get (row - 2) col).isEmpty then [Point.mk (row - 2) col] else [])
      else []
    l ++ r ++ push
  | .black =>
    let l := if (b.get (row + 1) (col + 1)).isColor .white then [Point.mk (row + 1) (col + 1)] else []
    let r := if (b.get (row + 1) (col - 1)).isColor .white then [Point.mk (row + 1) (col - 1)] else []
    let push :=
      if mode = .all ∧ (b.get (row + 1) col).isEmpty then
        Point.mk (row + 1) col ::
          (if row = Gen.blackDoublePushRow ∧ (b.get (row + 2) col).isEmpty then [Point.mk (row + 2) col] else [])
      else []
    l ++ r ++ push

/-- `pawn_moves_en_passant` -/
def pawnMovesEnPassant (piece : Piece) (row col : Nat) (p : Pos) : Option Point :=
  match p.ep with
  | none => none
  | some dm =>
    let caps : Option (Point × Point) :=
      match piece.color with
      | .white => if row = Gen.boardStart + Gen.whiteEpRowOff then
          some (⟨row - 1, col - 1⟩, ⟨row - 1, col + 1⟩) else none
      | .black => if row = Gen.boardStart + Gen.blackEpRowOff then
          some (⟨row + 1, col + 1⟩, ⟨row + 1, col - 1⟩) else none
    match caps with
    | none => none
    | some (l, r) => if l = dm then some l else if r = dm then some r else none

/-- `king_moves` -/
def kingMoves (piece : Piece) (row col : Nat) (b : Board) (mode : Mode) : List Point :=
  (List.range 3).flatMap fun i =>
    let r := row + i - 1
    (List.range 3).filterMap fun j =>
      let c := col + j - 1
      let sq := b.get r c
      if sq.isEmptyOrColor piece.color.opp then
        if mode = .caps then (if !sq.isEmpty then some ⟨r, c⟩ else none) else some ⟨r, c⟩
      else none

/-- the `while square.is_empty()` walk shared by rook_moves / bishop_moves / is_check_cords:
    returns the empty squares passed and the first non-empty square with its content.
    Fuel 12 can never run out: twelve steps from any index inside the array leave it. -/
def walk (b : Board) (dr dc : Int) : Nat → Int → Int → List Point → List Point × Point × Square
  | 0, r, c, acc => (acc, ptI r c, .boundary)
  | fuel + 1, r, c, acc =>
    let sq := b.getI r c
    if sq.isEmpty then walk b dr dc fuel (r + dr) (c + dc) (acc ++ [ptI r c])
    else (acc, ptI r c, sq)

def walkFuel : Nat := 12

/-- one direction of `rook_moves` / `bishop_moves` -/
def slideDir (piece : Piece) (row col : Nat) (b : Board) (mode : Mode) (d : Int × Int) : List Point :=
  let (empties, hit, sq) := walk b d.1 d.2 walkFuel ((row : Int) + d.1) ((col : Int) + d.2) []
  (if mode = .all then empties else []) ++ (if sq.isColor piece.color.opp then [hit] else [])

def rookMoves (piece : Piece) (row col : Nat) (b : Board) (mode : Mode) : List Point :=
  Gen.rookDirs.flatMap (slideDir piece row col b mode)

def bishopMoves (piece : Piece) (row col : Nat) (b : Board) (mode : Mode) : List Point :=
  Gen.bishopDirs.flatMap (slideDir piece row col b mode)

def queenMoves (piece : Piece) (row col : Nat) (b : Board) (mode : Mode) : List Point :=
  rookMoves piece row col b mode ++ bishopMoves piece row col b mode

/-- `get_moves` -/
def getMoves (piece : Piece) (row col : Nat) (b : Board) (mode : Mode) : List Point :=
  match piece.kind with
  | .pawn => pawnMoves piece row col b mode
  | .rook => rookMoves piece row col b mode
  | .bishop => bishopMoves piece row col b mode
  | .knight => knightMoves piece row col b mode
  | .king => kingMoves piece row col b mode
  | .queen => queenMoves piece row col b mode

/-- `is_check_cords` (after the fix: the attacking king is compared with the probed square) -/
def isCheckCords (p : Pos) (color : Color) (sq : Point) : Bool :=
  let ac := color.opp
  let b := p.board
  let rookHit := Gen.checkRookDirs.any fun d =>
    let (_, _, s) := walk b d.1 d.2 walkFuel ((sq.row : Int) + d.1) ((sq.col : Int) + d.2) []
    s.isPiece ⟨ac, .rook⟩ || s.isPiece ⟨ac, .queen⟩
  let bishopHit := Gen.checkBishopDirs.any fun d =>
    let (_, _, s) := walk b d.1 d.2 walkFuel ((sq.row : Int) + d.1) ((sq.col : Int) + d.2) []
    s.isPiece ⟨ac, .bishop⟩ || s.isPiece ⟨ac, .queen⟩
  let knightHit := Gen.knightCords.any fun rc =>
    (b.getI ((sq.row : Int) + rc.1) ((sq.col : Int) + rc.2)).isPiece ⟨ac, .knight⟩
  let pawnRow := match color with
    | .white => sq.row - 1
    | .black => sq.row + 1
  let pawnHit := (b.get pawnRow (sq.col - 1)).isPiece ⟨ac, .pawn⟩
    || (b.get pawnRow (sq.col + 1)).isPiece ⟨ac, .pawn⟩
  let ak := match color with
    | .white => p.bk
    | .black => p.wk
  let kingHit := ((ak.row : Int) - sq.row).natAbs ≤ 1 ∧ ((ak.col : Int) - sq.col).natAbs ≤ 1
  rookHit || bishopHit || knightHit || pawnHit || decide kingHit

/-- `is_check` -/
def isCheck (p : Pos) (color : Color) : Bool :=
  match color with
  | .white => isCheckCords p .white p.wk
  | .black => isCheckCords p .black p.bk

def canCastle (p : Pos) : CastlingType → Bool
  | .wks =>
    p.wks && (p.board.get 9 7).isEmpty && (p.board.get 9 8).isEmpty
      && !isCheck p .white && !isCheckCords p .white ⟨9, 7⟩ && !isCheckCords p .white ⟨9, 8⟩
  | .wqs =>
    p.wqs && (p.board.get 9 3).isEmpty && (p.board.get 9 4).isEmpty && (p.board.get 9 5).isEmpty
      && !isCheck p .white && !isCheckCords p .white ⟨9, 5⟩ && !isCheckCords p .white ⟨9, 4⟩
  | .bks =>
    p.bks && (p.board.get 2 7).isEmpty && (p.board.get 2 8).isEmpty
      && !isCheck p .black && !isCheckCords p .black ⟨2, 7⟩ && !isCheckCords p .black ⟨2, 8⟩
  | .bqs =>
    p.bqs && (p.board.get 2 3).isEmpty && (p.board.get 2 4).isEmpty && (p.board.get 2 5).isEmpty
      && !isCheck p .black && !isCheckCords p .black ⟨2, 4⟩ && !isCheckCords p .black ⟨2, 5⟩

/-- `promote_pawn` -/
def promotePawn (h : Hasher) (p : Pos) (color : Color) (start target : Point) : List Pos :=
  Gen.promotionOrder.map fun kind =>
    let nb := p.unsetEp h
    let pp : Piece := ⟨color, kind⟩
    { nb with
      board := nb.board.set target.row target.col (.full pp)
      lastMove := some (start, target)
      promo := some pp
      oh := if kind = .queen then Gen.queenPromotionScore else Gen.underPromotionScore
      key := nb.key ^^^ (h.piece pp target ^^^ h.piece ⟨color, .pawn⟩ target) }

/-- rights revoked by the origin square of a non-king move (`else if` chain) -/
def cornerRight (pt : Point) : Option CastlingType :=
  if pt.row = 9 ∧ pt.col = 9 then some .wks
  else if pt.row = 9 ∧ pt.col = 2 then some .wqs
  else if pt.row = 2 ∧ pt.col = 2 then some .bqs
  else if pt.row = 2 ∧ pt.col = 9 then some .bks
  else none

def Pos.takeAwayOpt (h : Hasher) (p : Pos) : Option CastlingType → Pos
  | some ct => p.takeAway h ct
  | none => p

/-- body of the `for mov in moves` loop of `generate_moves_for_piece`: the successors pushed for
    one pseudo-legal target (none, one, or four for a promotion) -/
def succsForTarget (h : Hasher) (piece : Piece) (p : Pos) (sq mov : Point) : List Pos :=
  let color := piece.color
  let kind := piece.kind
  let nb := { p with promo := none }
  let nb := nb.swapColor h
  let nb := if kind = .king then
      (match color with
       | .white => { nb with wk := mov }
       | .black => { nb with bk := mov })
    else nb
  let nb := match nb.board.get mov.row mov.col with
    | .full tp => { nb with oh := (Gen.mvvLva.getD (Gen.kindIndex tp.kind) #[]).getD (Gen.kindIndex piece.kind) 0 }
    | _ => { nb with oh := 0 }
  let nb := nb.movePiece h sq mov
  let nb := { nb with lastMove := some (sq, mov) }
  if isCheck nb color then []
  else
    let nb :=
      if kind = .king then
        (match color with
         | .white => (nb.takeAway h .wks).takeAway h .wqs
         | .black => (nb.takeAway h .bks).takeAway h .bqs)
      else nb.takeAwayOpt h (cornerRight sq)
    let nb := nb.takeAwayOpt h (cornerRight mov)
    let nb :=
      if kind = .pawn ∧ ((sq.row : Int) - mov.row).natAbs = 2 then
        let eps : Point := match color with
          | .white => ⟨mov.row + 1, mov.col⟩
          | .black => ⟨mov.row - 1, mov.col⟩
        let nb := nb.unsetEp h
        { nb with ep := some eps, key := nb.key ^^^ h.epFile eps.col }
      else nb.unsetEp h
    if mov.row = Gen.boardStart ∧ color = .white ∧ kind = .pawn then promotePawn h nb .white sq mov
    else if mov.row = Gen.boardEnd - 1 ∧ color = .black ∧ kind = .pawn then promotePawn h nb .black sq mov
    else [nb]

/-- the en-passant block at the end of `generate_moves_for_piece` -/
def epSuccs (h : Hasher) (piece : Piece) (p : Pos) (sq : Point) : List Pos :=
  if p.ep.isSome ∧ piece.kind = .pawn then
    match pawnMovesEnPassant piece sq.row sq.col p with
    | none => []
    | some mov =>
      let nb := { p with promo := none }
      let nb := { nb with lastMove := some (sq, mov) }
      let nb := nb.swapColor h
      let nb := nb.unsetEp h
      let nb := nb.movePiece h sq mov
      let nb := match piece.color with
        | .white => { nb with board := nb.board.set (mov.row + 1) mov.col .empty,
                              key := nb.key ^^^ h.piece ⟨.black, .pawn⟩ ⟨mov.row + 1, mov.col⟩ }
        | .black => { nb with board := nb.board.set (mov.row - 1) mov.col .empty,
                              key := nb.key ^^^ h.piece ⟨.white, .pawn⟩ ⟨mov.row - 1, mov.col⟩ }
      if !isCheck nb p.toMove then [nb] else []
  else []

/-- `generate_moves_for_piece` -/
def generateMovesForPiece (h : Hasher) (piece : Piece) (p : Pos) (sq : Point) (mode : Mode) : List Pos :=
  (getMoves piece sq.row sq.col p.board mode).flatMap (succsForTarget h piece p sq)
    ++ epSuccs h piece p sq

/-- one castling successor -/
def castleSucc (h : Hasher) (p : Pos) (ct : CastlingType) : Pos :=
  let nb := { p with promo := none }
  let nb := nb.swapColor h
  let nb := nb.unsetEp h
  match ct with
  | .wks =>
    let nb := (nb.takeAway h .wks).takeAway h .wqs
    let nb := { nb with wk := ⟨9, 8⟩, lastMove := some (⟨Gen.wksAlg.1.1, Gen.wksAlg.1.2⟩, ⟨Gen.wksAlg.2.1, Gen.wksAlg.2.2⟩) }
    (nb.movePiece h p.wk nb.wk).movePiece h ⟨9, 9⟩ ⟨9, 7⟩
  | .wqs =>
    let nb := (nb.takeAway h .wks).takeAway h .wqs
    let nb := { nb with wk := ⟨9, 4⟩, lastMove := some (⟨Gen.wqsAlg.1.1, Gen.wqsAlg.1.2⟩, ⟨Gen.wqsAlg.2.1, Gen.wqsAlg.2.2⟩) }
    (nb.movePiece h p.wk nb.wk).movePiece h ⟨9, 2⟩ ⟨9, 5⟩
  | .bks =>
    let nb := (nb.takeAway h .bks).takeAway h .bqs
    let nb := { nb with bk := ⟨2, 8⟩, lastMove := some (⟨Gen.bksAlg.1.1, Gen.bksAlg.1.2⟩, ⟨Gen.bksAlg.2.1, Gen.bksAlg.2.2⟩) }
    (nb.movePiece h p.bk nb.bk).movePiece h ⟨2, 9⟩ ⟨2, 7⟩
  | .bqs =>
    let nb := (nb.takeAway h .bks).takeAway h .bqs
    let nb := { nb with bk := ⟨2, 4⟩, lastMove := some (⟨Gen.bqsAlg.1.1, Gen.bqsAlg.1.2⟩, ⟨Gen.bqsAlg.2.1, Gen.bqsAlg.2.2⟩) }
    (nb.movePiece h p.bk nb.bk).movePiece h ⟨2, 2⟩ ⟨2, 5⟩

/-- `generate_castling_moves` -/
def generateCastlingMoves (h : Hasher) (p : Pos) : List Pos :=
  (if p.toMove = .white ∧ canCastle p .wks then [castleSucc h p .wks] else [])
  ++ (if p.toMove = .white ∧ canCastle p .wqs then [castleSucc h p .wqs] else [])
  ++ (if p.toMove = .black ∧ canCastle p .bks then [castleSucc h p .bks] else [])
  ++ (if p.toMove = .black ∧ canCastle p .bqs then [castleSucc h p .bqs] else [])

/-- the 64 on-board coordinates in the order of the double loop -/
def boardCoords : List Point :=
  (List.range 8).flatMap fun i => (List.range 8).map fun j => ⟨i + 2, j + 2⟩

/-- `generate_moves` -/
def generateMoves (h : Hasher) (p : Pos) (mode : Mode) : List Pos :=
  (boardCoords.flatMap fun pt =>
    match p.board.get pt.row pt.col with
    | .full piece => if piece.color = p.toMove then generateMovesForPiece h piece p pt mode else []
    | _ => [])
  ++ (if mode = .all then generateCastlingMoves h p else [])

end Walleye
