/-
  zobrist.rs: the hasher is a record of lookup functions.  All key theorems quantify over an
  arbitrary `Hasher`; `Hasher.real` (tables dumped from the running engine) is used by the driver
  and by the sensitivity theorems only.
-/
import Walleye.Model.Types
import Walleye.Generated.Consts
import Walleye.Generated.Zobrist
namespace Walleye

structure Hasher where
  piece : Piece → Point → UInt64          -- get_val_for_piece
  side : UInt64                           -- get_black_to_move_val
  castle : CastlingType → UInt64          -- get_val_for_castling
  epFile : Nat → UInt64                   -- get_val_for_en_passant (argument: 12x12 column)

/-- `piece.index() + if white {0} else {6}` -/
def pieceIndex (p : Piece) : Nat :=
  Gen.kindIndex p.kind + (match p.color with | .white => 0 | .black => 6)

def Hasher.real : Hasher where
  piece := fun p pt => Gen.zPiece.getD (pieceIndex p * 144 + pt.row * 12 + pt.col) 0
  side := Gen.zSide
  castle := fun
    | .wks => Gen.zWks
    | .wqs => Gen.zWqs
    | .bks => Gen.zBks
    | .bqs => Gen.zBqs
  epFile := fun f => Gen.zEp.getD f 0

end Walleye
