/- String primitives of Rust used by the engine, over `List Char` (one representation
   everywhere; byte lengths are computed from `Char.utf8Size`). -/
namespace Walleye

inductive Outcome (α : Type) where
  | ok (a : α)
  | err (msg : String)
  | panic
  deriving Repr, Inhabited, DecidableEq

namespace Str

/-- `str::len` (bytes) -/
def byteLen (s : List Char) : Nat := s.foldl (fun n c => n + c.utf8Size) 0

/-- `str::split(c)`: always at least one piece -/
def splitOn (sep : Char) : List Char → List (List Char)
  | [] => [[]]
  | c :: cs =>
    if c = sep then [] :: splitOn sep cs
    else match splitOn sep cs with
      | [] => [[c]]           -- unreachable
      | p :: ps => (c :: p) :: ps

/-- drop `n` bytes; `none` when `n` is not a char boundary or beyond the end (Rust panics) -/
def dropBytes : Nat → List Char → Option (List Char)
  | 0, s => some s
  | _ + 1, [] => none
  | n + 1, c :: cs => if c.utf8Size ≤ n + 1 then dropBytes (n + 1 - c.utf8Size) cs else none
termination_by n s => s.length

/-- take `n` bytes; `none` when not on a boundary / beyond the end -/
def takeBytes : Nat → List Char → Option (List Char)
  | 0, _ => some []
  | _ + 1, [] => none
  | n + 1, c :: cs =>
    if c.utf8Size ≤ n + 1 then (takeBytes (n + 1 - c.utf8Size) cs).map (c :: ·) else none
termination_by n s => s.length

/-- `&s[i..j]` -/
def byteSlice (s : List Char) (i j : Nat) : Option (List Char) :=
  if i ≤ j then (dropBytes i s).bind (takeBytes (j - i)) else none

def isPrefix : List Char → List Char → Bool
  | [], _ => true
  | _ :: _, [] => false
  | a :: as, b :: bs => a == b && isPrefix as bs

/-- `str::contains(&str)` -/
def contains (s pat : List Char) : Bool :=
  match s with
  | [] => pat.isEmpty
  | _ :: cs => isPrefix pat s || contains cs pat

/-- `char::is_whitespace` (Unicode White_Space) -/
def isWs (c : Char) : Bool :=
  let n := c.toNat
  (9 ≤ n && n ≤ 13) || n = 0x20 || n = 0x85 || n = 0xA0 || n = 0x1680 ||
  (0x2000 ≤ n && n ≤ 0x200A) || n = 0x2028 || n = 0x2029 || n = 0x202F || n = 0x205F || n = 0x3000

def trimStart : List Char → List Char
  | [] => []
  | c :: cs => if isWs c then trimStart cs else c :: cs

/-- `str::trim` -/
def trim (s : List Char) : List Char := (trimStart (trimStart s).reverse).reverse

/-- `char::is_digit(10)` -/
def isDigit (c : Char) : Bool := '0' ≤ c && c ≤ '9'

def digitVal (c : Char) : Nat := c.toNat - 48

def digitsVal (s : List Char) : Nat := s.foldl (fun a c => a * 10 + digitVal c) 0

/-- `str::parse::<uN>()` with bound `2^bits`: optional `+`, at least one ASCII digit, no overflow -/
def parseUnsigned (bits : Nat) (s : List Char) : Option Nat :=
  let d := match s with
    | '+' :: rest => rest
    | _ => s
  if d.isEmpty then none
  else if d.all isDigit then
    let n := digitsVal d
    if n < 2 ^ bits then some n else none
  else none

/-- `str::parse::<i128>()`: optional sign, at least one digit, range −2^127 … 2^127−1 -/
def parseI128 (s : List Char) : Option Int :=
  let (neg, d) := match s with
    | '+' :: rest => (false, rest)
    | '-' :: rest => (true, rest)
    | _ => (false, s)
  if d.isEmpty then none
  else if d.all isDigit then
    let n := digitsVal d
    if neg then (if n ≤ 2 ^ 127 then some (-(n : Int)) else none)
    else (if n < 2 ^ 127 then some (n : Int) else none)
  else none

end Str
end Walleye
