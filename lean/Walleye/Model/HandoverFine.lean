/-
  The hand-over of one `go` at the granularity of the code (engine.rs root acceptance, uci.rs
  `find_and_play_best_move`, after fix cdfd65d), with the stdout lock EXPLICIT: taking the lock,
  sending, printing, draining, closing and answering are separate steps of the two threads, and a
  thread that wants the lock while the other holds it does not move.  Model/Handover.lean is the
  abstraction in which each critical section is one step; here nothing is assumed about exclusion
  (it is proved, `mutex`), and what the coarse machine idealises is made exact: a PLAIN send (the
  fall-back board, not under the lock) can land between the drain and the close of the answer.

  search thread                                   I/O thread
    idle:   next act: plain send | clock check ok    poll:     try_recv
    want:   stdout().lock()  (blocks)                (deadline noticed, holding a board) -> want
    hold1:  tx.send(m): Err -> return                want:     stdout().lock()  (blocks)
    hold2:  print info; guard dropped                hold:     while let Ok(b) = try_recv() {..}
                                                     drained:  drop(rx)
                                                     closed:   print bestmove; guard dropped
-/
import Walleye.Model.Handover
namespace Walleye.HandoverFine

open Handover (Act Line)

inductive SPc (B I : Type) where
  | idle
  | want (m : B) (i : I)
  | hold1 (m : B) (i : I)
  | hold2 (m : B) (i : I)
  | dead
  deriving DecidableEq, Repr

inductive MPc where
  | poll | want | hold | drained | closed | fin
  deriving DecidableEq, Repr

inductive FEv where
  | search       -- the search thread makes its next step, if it can
  | main         -- the I/O thread makes its next step, if it can (in `poll`: one try_recv)
  | deadline     -- the I/O thread's loop condition finds the deadline passed
  deriving DecidableEq, Repr

structure FSt (B I : Type) where
  todo   : List (Act B I)
  spc    : SPc B I
  mpc    : MPc
  chan   : List B
  isOpen : Bool
  best   : Option B
  out    : List (Line B I)
  done   : List (Act B I)      -- ghost: acts that got through, in order
  sent   : List B              -- ghost: boards whose send succeeded, in order
  atDrain : List B             -- ghost: `sent` at the moment of the drain

def finit {B I : Type} (acts : List (Act B I)) : FSt B I :=
  { todo := acts, spc := .idle, mpc := .poll, chan := [], isOpen := true, best := none, out := [],
    done := [], sent := [], atDrain := [] }

def sHolds {B I : Type} (s : FSt B I) : Bool :=
  match s.spc with
  | .hold1 _ _ => true
  | .hold2 _ _ => true
  | _ => false

def mHolds {B I : Type} (s : FSt B I) : Bool :=
  match s.mpc with
  | .hold => true
  | .drained => true
  | .closed => true
  | _ => false

def searchStep {B I : Type} (s : FSt B I) : FSt B I :=
  match s.spc with
  | .dead => s
  | .idle =>
    match s.todo with
    | [] => { s with spc := .dead }
    | .fallback m :: t =>
      if s.isOpen then { s with todo := t, chan := s.chan ++ [m], done := s.done ++ [.fallback m], sent := s.sent ++ [m] }
      else { s with spc := .dead }                       -- `unwrap` panics: the thread is gone
    | .accept m i :: t => { s with todo := t, spc := .want m i }
  | .want m i => if mHolds s then s else { s with spc := .hold1 m i }
  | .hold1 m i =>
    if s.isOpen then { s with chan := s.chan ++ [m], sent := s.sent ++ [m], spc := .hold2 m i }
    else { s with spc := .dead }                         -- `return`: guard dropped
  | .hold2 m i => { s with out := s.out ++ [.info i], done := s.done ++ [.accept m i], spc := .idle }

def mainStep {B I : Type} (s : FSt B I) : FSt B I :=
  match s.mpc with
  | .poll =>
    (match s.chan with
     | [] => s
     | b :: r => { s with chan := r, best := some b })
  | .want => if sHolds s then s else { s with mpc := .hold }
  | .hold =>
    { s with best := (match s.chan.getLast? with | some x => some x | none => s.best), chan := [],
             atDrain := s.sent, mpc := .drained }
  | .drained => { s with isOpen := false, mpc := .closed }
  | .closed =>
    (match s.best with
     | some b => { s with out := s.out ++ [.best b], mpc := .fin }
     | none => { s with mpc := .fin })                   -- unreachable (`holds_a_board`)
  | .fin => s

def deadlineStep {B I : Type} (s : FSt B I) : FSt B I :=
  match s.mpc with
  | .poll => if s.best.isSome then { s with mpc := .want } else s
  | _ => s

def fstep {B I : Type} (s : FSt B I) : FEv → FSt B I
  | .search => searchStep s
  | .main => mainStep s
  | .deadline => deadlineStep s

def frun {B I : Type} (acts : List (Act B I)) (evs : List FEv) : FSt B I := evs.foldl fstep (finit acts)

end Walleye.HandoverFine
