/-
  How the abstraction map `abs` (mailbox position ↦ 8x8 specification position) commutes with the
  board mutators of the model.  Used by C02 (successor = Spec.apply) and C01.
-/
import Walleye.Proofs.CheckSpec
import Walleye.Proofs.Succ
namespace Walleye

def absCells (b : Board) : Array (Option Piece) :=
  Array.ofFn (n := 64) fun i => squareToOpt (b.get (9 - i.val / 8) (i.val % 8 + 2))

theorem abs_cells (p : Pos) : (abs p).cells = absCells p.board := rfl
theorem abs_side (p : Pos) : (abs p).side = p.toMove := rfl
theorem abs_wks (p : Pos) : (abs p).wks = p.wks := rfl
theorem abs_wqs (p : Pos) : (abs p).wqs = p.wqs := rfl
theorem abs_bks (p : Pos) : (abs p).bks = p.bks := rfl
theorem abs_bqs (p : Pos) : (abs p).bqs = p.bqs := rfl
theorem abs_ep (p : Pos) : (abs p).ep = p.ep.map specOf := rfl

theorem absCells_size (b : Board) : (absCells b).size = 64 := by simp [absCells]

/-- index of a spec square in the cell array -/
def sqIdx (s : Spec.Sq) : Nat := s.rank * 8 + s.file

theorem absCells_set (b : Board) (pt : Point) (v : Square) (hpt : OnBoard pt) :
    absCells (b.set pt.row pt.col v) = (absCells b).setIfInBounds (sqIdx (specOf pt)) (squareToOpt v) := by
  unfold OnBoard at hpt
  apply Array.ext
  · simp [absCells]
  · intro i h1 h2
    have hi : i < 64 := by simpa [absCells] using h1
    rw [Array.getElem_setIfInBounds]
    · simp only [absCells, Array.getElem_ofFn]
      unfold sqIdx specOf
      simp only
      by_cases he : (9 - pt.row) * 8 + (pt.col - 2) = i
      · rw [if_pos he]
        have e1 : 9 - i / 8 = pt.row := by omega
        have e2 : i % 8 + 2 = pt.col := by omega
        rw [e1, e2, Board.get_set_eq b pt.row pt.col v (by omega) (by omega)]
      · rw [if_neg he]
        rw [Board.get_set_ne]
        intro ⟨e1, e2⟩
        apply he
        omega
    · simpa [absCells] using h1

theorem put_cells (Q : Spec.Position) (s : Spec.Sq) (v : Option Piece) (hs : InB s) :
    (Q.put s v).cells = Q.cells.setIfInBounds (sqIdx s) v := by
  unfold InB at hs
  unfold Spec.Position.put sqIdx
  rw [if_pos hs]

theorem put_side (Q : Spec.Position) (s : Spec.Sq) (v : Option Piece) : (Q.put s v).side = Q.side := by
  unfold Spec.Position.put; split <;> rfl
theorem put_wks (Q : Spec.Position) (s : Spec.Sq) (v : Option Piece) : (Q.put s v).wks = Q.wks := by
  unfold Spec.Position.put; split <;> rfl
theorem put_wqs (Q : Spec.Position) (s : Spec.Sq) (v : Option Piece) : (Q.put s v).wqs = Q.wqs := by
  unfold Spec.Position.put; split <;> rfl
theorem put_bks (Q : Spec.Position) (s : Spec.Sq) (v : Option Piece) : (Q.put s v).bks = Q.bks := by
  unfold Spec.Position.put; split <;> rfl
theorem put_bqs (Q : Spec.Position) (s : Spec.Sq) (v : Option Piece) : (Q.put s v).bqs = Q.bqs := by
  unfold Spec.Position.put; split <;> rfl
theorem put_ep (Q : Spec.Position) (s : Spec.Sq) (v : Option Piece) : (Q.put s v).ep = Q.ep := by
  unfold Spec.Position.put; split <;> rfl

/-- a specification position whose cells are the abstraction of a board: putting a piece is
    setting the mailbox square -/
theorem put_absCells (Q : Spec.Position) (b : Board) (hQ : Q.cells = absCells b) (pt : Point) (v : Square)
    (hpt : OnBoard pt) :
    (Q.put (specOf pt) (squareToOpt v)).cells = absCells (b.set pt.row pt.col v) := by
  rw [put_cells Q _ _ (specOf_inB pt hpt), hQ, absCells_set b pt v hpt]

end Walleye
