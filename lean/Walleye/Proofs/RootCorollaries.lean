/- Consequences of `rootLoop_triple` used by C10, C11 and C18 (iterations 1–3, clock not expiring). -/
import Walleye.Proofs.RootSpec
namespace Walleye
open Spec DrawTable

variable {P : Type} (g : Game P)

/-- a position that has occurred at least twice is worth 0, whatever the depth -/
theorem negamax_repeated (fuel d ply : Nat) (t : DrawTable) (p : P) (h : t.isThreefold (g.key p) = true) :
    negamax g (fuel + 1) d ply t p = 0 := by
  simp only [negamax, h, if_true]

/-- a checkmated position is worth −(MATE − ply) -/
theorem negamax_mated (fuel d ply : Nat) (t : DrawTable) (p : P) (h3 : t.isThreefold (g.key p) = false)
    (hgen : g.gen p .all = []) (hchk : g.inCheck p = true) :
    negamax g (fuel + 1) d ply t p = -(Gen.mateScore - ply) := by
  simp only [negamax, h3, Bool.false_eq_true, if_false, hchk, not_true_eq_false, and_false, hgen, if_true]

/-- and only a checkmated position is: any other value is strictly larger -/
theorem negamax_gt_unless_mated (E : Nat) (hg : GameOK g E) (fuel d ply : Nat) (t : DrawTable) (p : P)
    (hE : (E : Int) + ply + (fuel + 1) < Gen.mateScore)
    (hnm : ¬ (g.gen p .all = [] ∧ g.inCheck p = true)) :
    -(Gen.mateScore - ply) < negamax g (fuel + 1) d ply t p := by
  simp only [negamax]
  have hmate : (Gen.mateScore : Int) = 100000 := rfl
  split
  · omega
  · split
    · have := qval_bound g E hg qFuel p; omega
    · split
      · rename_i hgen
        split
        · rename_i hc; exact absurd ⟨hgen, hc⟩ hnm
        · omega
      · rename_i m ms _
        have hr := negamax_range g E hg fuel ((if d = 0 then 1 else d) - 1) (ply + 1) ((t.add (g.key p)).getD t) m
          (by push_cast; omega)
        have hge := maxNeg_ge (negamax g fuel ((if d = 0 then 1 else d) - 1) (ply + 1) ((t.add (g.key p)).getD t)) ms
          (- negamax g fuel ((if d = 0 then 1 else d) - 1) (ply + 1) ((t.add (g.key p)).getD t) m)
        push_cast at hr
        omega

end Walleye
