/-
  The hand-over machine under EVERY schedule: what has reached standard output is exactly the info
  lines of the acts the search thread got through, followed — once the go is answered — by one
  `bestmove` carrying the board of the LAST of those acts; afterwards nothing changes any more.
-/
import Walleye.Model.Handover
namespace Walleye.Handover

variable {B I : Type}

theorem infos_append (l₁ l₂ : List (Act B I)) : infos (l₁ ++ l₂) = infos l₁ ++ infos l₂ := by
  induction l₁ with
  | nil => rfl
  | cons a t ih =>
    cases a with
    | fallback m => simpa [infos] using ih
    | accept m i => simp [infos, ih]

theorem boards_append (l₁ l₂ : List (Act B I)) : boards (l₁ ++ l₂) = boards l₁ ++ boards l₂ := by
  simp [boards]

/-! ### what one step can be -/

theorem perform_fields (s : St B I) (a : Act B I) (t : List (Act B I)) :
    (perform s a t).todo = t ∧ (perform s a t).alive = s.alive ∧ (perform s a t).chan = s.chan ++ [a.board] ∧
    (perform s a t).isOpen = s.isOpen ∧ (perform s a t).best = s.best ∧
    (perform s a t).out = s.out ++ infos [a] ∧ (perform s a t).done = s.done ++ [a] := by
  cases a <;> simp [perform, infos, Act.board]

theorem searchStep_spec (s : St B I) :
    searchStep s = s ∨ searchStep s = { s with alive := false } ∨
    ∃ a t, s.todo = a :: t ∧ s.isOpen = true ∧ searchStep s = perform s a t := by
  unfold searchStep
  split
  · split
    · exact .inr (.inl rfl)
    · rename_i a t ht
      split
      · rename_i ho; exact .inr (.inr ⟨a, t, ht, ho, rfl⟩)
      · exact .inr (.inl rfl)
  · exact .inl rfl

theorem pollStep_spec (s : St B I) :
    pollStep s = s ∨ ∃ b r, s.isOpen = true ∧ s.chan = b :: r ∧ pollStep s = { s with chan := r, best := some b } := by
  unfold pollStep
  split
  · rename_i ho
    split
    · exact .inl rfl
    · rename_i b r hc; exact .inr ⟨b, r, ho, hc, rfl⟩
  · exact .inl rfl

theorem answerStep_spec (s : St B I) :
    answerStep s = s ∨ ∃ b0, s.isOpen = true ∧ s.best = some b0 ∧
      answerStep s = { s with chan := [], isOpen := false, best := some (s.chan.getLast?.getD b0),
                              out := s.out ++ [.best (s.chan.getLast?.getD b0)] } := by
  unfold answerStep
  split
  · rename_i ho
    split
    · exact .inl rfl
    · rename_i b0 hb; exact .inr ⟨b0, ho, hb, rfl⟩
  · exact .inl rfl

/-- the invariant of the machine -/
def Inv (acts : List (Act B I)) (s : St B I) : Prop :=
  s.done ++ s.todo = acts ∧
  (if s.isOpen then
     s.out = infos s.done ∧ ∃ taken, boards s.done = taken ++ s.chan ∧ s.best = taken.getLast?
   else
     ∃ b, s.out = infos s.done ++ [.best b] ∧ (boards s.done).getLast? = some b ∧ s.best = some b ∧ s.chan = [])

theorem inv_init (acts : List (Act B I)) : Inv acts (init acts) := by
  refine ⟨rfl, ?_⟩
  simp only [init, if_true]
  exact ⟨rfl, [], rfl, rfl⟩

theorem inv_step (acts : List (Act B I)) (s : St B I) (e : Ev) (h : Inv acts s) : Inv acts (step s e) := by
  obtain ⟨hd, hrest⟩ := h
  cases e with
  | search =>
    show Inv acts (searchStep s)
    rcases searchStep_spec s with h | h | ⟨a, t, ht, ho, h⟩
    · rw [h]; exact ⟨hd, hrest⟩
    · rw [h]; exact ⟨hd, hrest⟩
    · rw [h]
      obtain ⟨f1, _, f3, f4, f5, f6, f7⟩ := perform_fields s a t
      simp only [ho, if_true] at hrest
      obtain ⟨hout, taken, hb, hbest⟩ := hrest
      refine ⟨?_, ?_⟩
      · rw [f7, f1, List.append_assoc]; simpa [ht] using hd
      · rw [f4]
        simp only [ho, if_true]
        refine ⟨?_, taken, ?_, ?_⟩
        · rw [f6, f7, infos_append, hout]
        · rw [f7, f3, boards_append, hb, List.append_assoc]; rfl
        · rw [f5]; exact hbest
  | poll =>
    show Inv acts (pollStep s)
    rcases pollStep_spec s with h | ⟨b, r, ho, hc, h⟩
    · rw [h]; exact ⟨hd, hrest⟩
    · rw [h]
      refine ⟨hd, ?_⟩
      simp only [ho, if_true] at hrest ⊢
      obtain ⟨hout, taken, hb, _⟩ := hrest
      refine ⟨hout, taken ++ [b], ?_, ?_⟩
      · rw [hb, hc]; simp
      · simp
  | answer =>
    show Inv acts (answerStep s)
    rcases answerStep_spec s with h | ⟨b0, ho, hbst, h⟩
    · rw [h]; exact ⟨hd, hrest⟩
    · rw [h]
      refine ⟨hd, ?_⟩
      simp only [ho, if_true] at hrest
      obtain ⟨hout, taken, hb, hbest⟩ := hrest
      simp only [Bool.false_eq_true, if_false]
      refine ⟨s.chan.getLast?.getD b0, by rw [hout], ?_, rfl, trivial⟩
      rw [hb, List.getLast?_append, ← hbest, hbst]
      cases s.chan.getLast? <;> rfl

theorem inv_foldl (acts : List (Act B I)) (evs : List Ev) : ∀ s, Inv acts s → Inv acts (evs.foldl step s) := by
  induction evs with
  | nil => intro s h; exact h
  | cons e es ih => intro s h; exact ih _ (inv_step acts s e h)

theorem inv_run (acts : List (Act B I)) (evs : List Ev) : Inv acts (run acts evs) :=
  inv_foldl acts evs _ (inv_init acts)

/-- an answered go stays answered, and nothing is printed any more -/
theorem step_closed (s : St B I) (e : Ev) (h : s.isOpen = false) :
    (step s e).isOpen = false ∧ (step s e).out = s.out ∧ (step s e).done = s.done := by
  cases e with
  | search =>
    show (searchStep s).isOpen = false ∧ (searchStep s).out = s.out ∧ (searchStep s).done = s.done
    rcases searchStep_spec s with h' | h' | ⟨a, t, _, ho, _⟩
    · rw [h']; exact ⟨h, rfl, rfl⟩
    · rw [h']; exact ⟨h, rfl, rfl⟩
    · rw [h] at ho; cases ho
  | poll =>
    show (pollStep s).isOpen = false ∧ (pollStep s).out = s.out ∧ (pollStep s).done = s.done
    rcases pollStep_spec s with h' | ⟨_, _, ho, _, _⟩
    · rw [h']; exact ⟨h, rfl, rfl⟩
    · rw [h] at ho; cases ho
  | answer =>
    show (answerStep s).isOpen = false ∧ (answerStep s).out = s.out ∧ (answerStep s).done = s.done
    rcases answerStep_spec s with h' | ⟨_, ho, _, _⟩
    · rw [h']; exact ⟨h, rfl, rfl⟩
    · rw [h] at ho; cases ho

theorem foldl_closed (evs : List Ev) : ∀ (s : St B I), s.isOpen = false →
    (evs.foldl step s).isOpen = false ∧ (evs.foldl step s).out = s.out := by
  induction evs with
  | nil => intro s h; exact ⟨h, rfl⟩
  | cons e es ih =>
    intro s h
    obtain ⟨h1, h2, _⟩ := step_closed s e h
    obtain ⟨h3, h4⟩ := ih _ h1
    exact ⟨h3, h4.trans h2⟩

/-! ### progress: a fair schedule gets the go answered -/

/-- something was sent (or the go is answered): stable -/
def Started (s : St B I) : Prop := s.isOpen = false ∨ s.best.isSome = true ∨ s.chan ≠ []

theorem started_step (s : St B I) (e : Ev) (h : Started s) : Started (step s e) := by
  by_cases hcl : s.isOpen = false
  · exact .inl (step_closed s e hcl).1
  have hst : s.best.isSome = true ∨ s.chan ≠ [] := by
    rcases h with h | h | h
    · exact absurd h hcl
    · exact .inl h
    · exact .inr h
  cases e with
  | search =>
    show Started (searchStep s)
    rcases searchStep_spec s with h' | h' | ⟨a, t, _, _, h'⟩
    · rw [h']; exact h
    · rw [h']; exact h
    · rw [h']
      obtain ⟨_, _, f3, _, _, _, _⟩ := perform_fields s a t
      exact .inr (.inr (by rw [f3]; simp))
  | poll =>
    show Started (pollStep s)
    rcases pollStep_spec s with h' | ⟨b, r, _, _, h'⟩
    · rw [h']; exact h
    · rw [h']; exact .inr (.inl rfl)
  | answer =>
    show Started (answerStep s)
    rcases answerStep_spec s with h' | ⟨b0, _, _, h'⟩
    · rw [h']; exact h
    · rw [h']; exact .inl rfl

theorem started_foldl (evs : List Ev) : ∀ (s : St B I), Started s → Started (evs.foldl step s) := by
  induction evs with
  | nil => intro s h; exact h
  | cons e es ih => intro s h; exact ih _ (started_step s e h)

/-- the I/O thread holds a board (or the go is answered): stable -/
def Holding (s : St B I) : Prop := s.isOpen = false ∨ s.best.isSome = true

theorem holding_step (s : St B I) (e : Ev) (h : Holding s) : Holding (step s e) := by
  by_cases hcl : s.isOpen = false
  · exact .inl (step_closed s e hcl).1
  have hb : s.best.isSome = true := by
    rcases h with h | h
    · exact absurd h hcl
    · exact h
  cases e with
  | search =>
    show Holding (searchStep s)
    rcases searchStep_spec s with h' | h' | ⟨a, t, _, _, h'⟩
    · rw [h']; exact h
    · rw [h']; exact h
    · rw [h']
      obtain ⟨_, _, _, _, f5, _, _⟩ := perform_fields s a t
      exact .inr (by rw [f5]; exact hb)
  | poll =>
    show Holding (pollStep s)
    rcases pollStep_spec s with h' | ⟨b, r, _, _, h'⟩
    · rw [h']; exact h
    · rw [h']; exact .inr rfl
  | answer =>
    show Holding (answerStep s)
    rcases answerStep_spec s with h' | ⟨b0, _, _, h'⟩
    · rw [h']; exact h
    · rw [h']; exact .inl rfl

theorem holding_foldl (evs : List Ev) : ∀ (s : St B I), Holding s → Holding (evs.foldl step s) := by
  induction evs with
  | nil => intro s h; exact h
  | cons e es ih => intro s h; exact ih _ (holding_step s e h)

theorem poll_of_started (s : St B I) (h : Started s) : Holding (step s .poll) := by
  rcases h with h | h | h
  · exact .inl (step_closed s .poll h).1
  · exact holding_step s .poll (.inr h)
  · show Holding (pollStep s)
    unfold pollStep
    split
    · split
      · rename_i hc; exact absurd hc h
      · exact .inr rfl
    · rename_i ho; exact .inl (by cases hh : s.isOpen <;> simp_all)

theorem answer_of_holding (s : St B I) (h : Holding s) : (step s .answer).isOpen = false := by
  rcases h with h | h
  · exact (step_closed s .answer h).1
  · show (answerStep s).isOpen = false
    unfold answerStep
    split
    · split
      · rename_i hb; rw [hb] at h; cases h
      · rfl
    · rename_i ho; cases hh : s.isOpen <;> simp_all

/-- a step of the search thread while it has something to do and the go is open puts a board in flight -/
theorem search_starts (s : St B I) (ha : s.alive = true) (ht : s.todo ≠ []) : Started (step s .search) := by
  show Started (searchStep s)
  unfold searchStep
  rw [if_pos ha]
  split
  · rename_i h0; exact absurd h0 ht
  · rename_i a t _
    split
    · obtain ⟨_, _, f3, _, _, _, _⟩ := perform_fields s a t
      exact .inr (.inr (by rw [f3]; simp))
    · rename_i ho; exact .inl (by cases hh : s.isOpen <;> simp_all)

/-- a dead search thread has nothing left to do, or the go is answered -/
def Inv2 (s : St B I) : Prop := s.alive = false → s.todo = [] ∨ s.isOpen = false

theorem inv2_step (s : St B I) (e : Ev) (h : Inv2 s) : Inv2 (step s e) := by
  cases e with
  | search =>
    show Inv2 (searchStep s)
    unfold searchStep
    split
    · rename_i ha
      split
      · rename_i h0; intro _; exact .inl h0
      · rename_i a t _
        split
        · obtain ⟨_, f2, _, _, _, _, _⟩ := perform_fields s a t
          intro hd; rw [f2, ha] at hd; cases hd
        · rename_i ho; intro _; exact .inr (by cases hh : s.isOpen <;> simp_all)
    · exact h
  | poll =>
    show Inv2 (pollStep s)
    rcases pollStep_spec s with h' | ⟨b, r, _, _, h'⟩
    · rw [h']; exact h
    · rw [h']; exact h
  | answer =>
    show Inv2 (answerStep s)
    rcases answerStep_spec s with h' | ⟨b0, _, _, h'⟩
    · rw [h']; exact h
    · rw [h']; intro _; exact .inr rfl

theorem inv2_foldl (evs : List Ev) : ∀ (s : St B I), Inv2 s → Inv2 (evs.foldl step s) := by
  induction evs with
  | nil => intro s h; exact h
  | cons e es ih => intro s h; exact ih _ (inv2_step s e h)

theorem started_after_search (acts : List (Act B I)) (hne : acts ≠ []) (s : St B I)
    (hinv : Inv acts s) (h2 : Inv2 s) : Started (step s .search) := by
  by_cases ho : s.isOpen = true
  · by_cases hgo : s.alive = true ∧ s.todo ≠ []
    · exact search_starts s hgo.1 hgo.2
    · have ht : s.todo = [] := by
        by_cases ha : s.alive = true
        · exact Classical.byContradiction fun hn => hgo ⟨ha, hn⟩
        · have : s.alive = false := by cases hh : s.alive <;> simp_all
          rcases h2 this with h | h
          · exact h
          · rw [h] at ho; cases ho
      obtain ⟨hd, hrest⟩ := hinv
      simp only [ho, if_true] at hrest
      obtain ⟨_, taken, hb, hbest⟩ := hrest
      have hdn : s.done ≠ [] := by intro h0; rw [h0, ht] at hd; exact hne hd.symm
      have hbn : boards s.done ≠ [] := by simpa [boards] using hdn
      apply started_step
      by_cases hc : s.chan = []
      · right; left
        rw [hbest]
        rw [hc, List.append_nil] at hb
        rw [← hb]
        cases hh : boards s.done with
        | nil => exact absurd hh hbn
        | cons x xs => simp [List.getLast?_cons]
      · exact .inr (.inr hc)
  · exact .inl (step_closed s .search (by cases hh : s.isOpen <;> simp_all)).1

end Walleye.Handover
