/-
  C01 soundness + C02 for the en passant successor.
-/
import Walleye.Proofs.Sound
namespace Walleye

variable (h : Hasher)

/-- the king caches stay right when the board changes only on squares that neither held nor
    receive a king -/
theorem kingsOK_of_same_kings (p q : Pos) (hko : KingsOK p) (hwk : q.wk = p.wk) (hbk : q.bk = p.bk)
    (hb : ∀ c r k, q.board.get r k = .full ⟨c, .king⟩ ↔ p.board.get r k = .full ⟨c, .king⟩) : KingsOK q := by
  intro c
  obtain ⟨h1, h2⟩ := hko c
  have hk : kingPt q c = kingPt p c := by cases c <;> simp [kingPt, hwk, hbk]
  rw [hk]
  exact ⟨(hb c _ _).mpr h1, fun r k hrk => h2 r k ((hb c r k).mp hrk)⟩

theorem get_set3 (b : Board) (a1 a2 a3 : Point) (v1 v2 v3 : Square) (r k : Nat)
    (n1 : ¬ (a1.row = r ∧ a1.col = k)) (n2 : ¬ (a2.row = r ∧ a2.col = k)) (n3 : ¬ (a3.row = r ∧ a3.col = k)) :
    (((b.set a1.row a1.col v1).set a2.row a2.col v2).set a3.row a3.col v3).get r k = b.get r k := by
  rw [Board.get_set_ne _ _ _ _ _ _ n3, Board.get_set_ne _ _ _ _ _ _ n2, Board.get_set_ne _ _ _ _ _ _ n1]

/-- where the capturing pawn stands relative to the en passant target -/
def EpGeo (c : Color) (o : Spec.Sq) (mov : Point) : Prop :=
  match c with
  | .white => (toPt o).row = 5 ∧ mov.row = (toPt o).row - 1 ∧ (mov.col + 1 = (toPt o).col ∨ mov.col = (toPt o).col + 1)
  | .black => (toPt o).row = 6 ∧ mov.row = (toPt o).row + 1 ∧ (mov.col + 1 = (toPt o).col ∨ mov.col = (toPt o).col + 1)

/-- facts shared by the en passant lemmas -/
structure EpCtx (p : Pos) (o : Spec.Sq) (c : Color) (mov : Point) : Prop where
  ho : InB o
  hm : OnBoard mov
  hpc : p.board.get (toPt o).row (toPt o).col = .full ⟨c, .pawn⟩
  hcol : c = p.toMove
  hep : p.ep = some mov
  geo : EpGeo c o mov

theorem ep_pseudo (p : Pos) (lp : LP (abs p)) (o : Spec.Sq) (c : Color) (mov : Point) (x : EpCtx p o c mov) :
    Spec.pseudoLegal (abs p) ⟨o, specOf mov, none⟩ = true := by
  obtain ⟨ho, hm, hpc, hcol, hep, hgeo⟩ := x
  unfold EpGeo at hgeo
  have hsrc : (abs p).at o = some ⟨c, .pawn⟩ := by rw [abs_at p o ho, hpc]; rfl
  have hPep : (abs p).ep = some (specOf mov) := by rw [abs_ep, hep]; rfl
  obtain ⟨_, _, hempty, _, _⟩ := lp.ep _ hPep
  have hin := specOf_inB mov hm
  have hPs : (abs p).side = c := hcol.symm
  have hatnone : (abs p).at (specOf mov) = none := by
    cases hx : (abs p).at (specOf mov) with
    | none => rfl
    | some y => rw [hx] at hempty; cases hempty
  have ho' := ho; have hin' := hin
  unfold InB at ho' hin'
  unfold OnBoard at hm
  unfold toPt at hgeo
  simp only at hgeo
  have hfne : (o.file == (specOf mov).file) = false := by
    rw [beq_eq_false_iff_ne]; unfold specOf; simp only
    cases c <;> simp only at hgeo <;> omega
  have hlast : ((specOf mov).rank == Spec.lastRank c) = false := by
    rw [beq_eq_false_iff_ne]; unfold specOf Spec.lastRank; simp only
    cases c <;> simp only at hgeo ⊢ <;> omega
  have hatt : Spec.attacksFrom (abs p) o ⟨c, .pawn⟩ (specOf mov) = true := by
    unfold Spec.attacksFrom Spec.iabs specOf
    simp only [Bool.and_eq_true, decide_eq_true_eq, beq_iff_eq]
    cases c <;> simp only at hgeo ⊢ <;> omega
  unfold Spec.pseudoLegal
  simp only [ho'.1, ho'.2, hin'.1, hin'.2, decide_true, Bool.true_and, hsrc, hPs, beq_self_eq_true, hatnone,
    hfne, hlast, Bool.false_eq_true, if_false, Option.isNone_none, hPep, Bool.or_true, Bool.and_true, hatt]

theorem ep_kingsOK (p : Pos) (hko : KingsOK p) (hr : RingOK p.board) (lp : LP (abs p)) (o : Spec.Sq) (c : Color) (mov : Point)
    (x : EpCtx p o c mov) : KingsOK (epBoard h ⟨c, .pawn⟩ p (toPt o) mov) := by
  obtain ⟨ho, hm, hpc, hcol, hep, hgeo⟩ := x
  unfold EpGeo at hgeo
  obtain ⟨_, _, _, _, _, f6, f7⟩ := epBoard_fields h ⟨c, .pawn⟩ p (toPt o) mov
  have hPep : (abs p).ep = some (specOf mov) := by rw [abs_ep, hep]; rfl
  obtain ⟨_, _, hempty, _, _⟩ := lp.ep _ hPep
  have hmovnk : ∀ c', p.board.get mov.row mov.col ≠ .full ⟨c', .king⟩ := by
    intro c' hx
    rw [at_specOf p mov hm, hx] at hempty; cases hempty
  apply kingsOK_of_same_kings p _ hko f6 f7
  intro c' r k
  rw [epBoard_board h c p (toPt o) mov hpc]
  have hto := toPt_onBoard o ho
  unfold OnBoard at hm hto
  by_cases q3 : capRow c mov.row = r ∧ mov.col = k
  · obtain ⟨rfl, rfl⟩ := q3
    have hcap12 : capRow c mov.row < 12 := by
      unfold toPt at hgeo; unfold capRow; cases c <;> simp only at hgeo ⊢ <;> omega
    rw [Board.get_set_eq _ _ _ _ hcap12 (by omega)]
    constructor
    · intro hx; cases hx
    · intro hx
      -- the square beside the origin holds the pawn that double-stepped, or at any rate no king next
      -- to ... : it is the origin's rank and the target's file
      exfalso
      have hcapP := (lp.ep _ hPep).2.2.2.1
      have hPs : (abs p).side = c := hcol.symm
      have hin := specOf_inB mov hm
      have hcapOn : OnBoard ⟨capRow c mov.row, mov.col⟩ := by
        unfold OnBoard; unfold toPt at hgeo; unfold capRow; simp only at hgeo ⊢
        cases c <;> simp only at hgeo ⊢ <;> omega
      have hsq : specOf ⟨capRow c mov.row, mov.col⟩ =
          ⟨(specOf mov).file, (((specOf mov).rank : Int) + Spec.fwd (abs p).side.opp).toNat⟩ := by
        unfold toPt at hgeo; unfold specOf capRow Spec.fwd; rw [hPs]; simp only at hgeo ⊢
        cases c <;> simp only [Color.opp] at hgeo ⊢ <;> (congr 1; omega)
      have := at_specOf p ⟨capRow c mov.row, mov.col⟩ hcapOn
      rw [hsq, hcapP] at this
      simp only at this
      rw [hx] at this
      injection this with this; injection this with _ this; cases this
  · rw [Board.get_set_ne _ _ _ _ _ _ q3]
    by_cases q2 : mov.row = r ∧ mov.col = k
    · obtain ⟨rfl, rfl⟩ := q2
      rw [Board.get_set_eq _ _ _ _ (by omega) (by omega)]
      constructor
      · intro hx; injection hx with hx; injection hx with _ hx; cases hx
      · intro hx; exact absurd hx (hmovnk c')
    · rw [Board.get_set_ne _ _ _ _ _ _ q2]
      by_cases q1 : (toPt o).row = r ∧ (toPt o).col = k
      · obtain ⟨rfl, rfl⟩ := q1
        rw [Board.get_set_eq _ _ _ _ (by omega) (by omega), hpc]
        constructor
        · intro hx; cases hx
        · intro hx; injection hx with hx; injection hx with _ hx; cases hx
      · rw [Board.get_set_ne _ _ _ _ _ _ q1]

theorem epSuccs_sound (p : Pos) (wf : WFp p) (o : Spec.Sq) (ho : InB o) (pc : Piece)
    (hpc : p.board.get (toPt o).row (toPt o).col = .full pc) (hcol : pc.color = p.toMove) :
    ∀ q ∈ epSuccs h pc p (toPt o),
      (moveOf q).src = o ∧ Spec.isEnPassant (abs p) (moveOf q) = true ∧
      Spec.legal (abs p) (moveOf q) = true ∧ abs q = Spec.apply (abs p) (moveOf q) := by
  intro q hq
  rw [epSuccs_eq] at hq
  split at hq
  · rename_i hcond
    obtain ⟨_, hkind⟩ := hcond
    split at hq
    · cases hq
    · rename_i mov hmv
      split at hq
      · rename_i hnchk
        simp only [List.mem_singleton] at hq
        subst hq
        obtain ⟨c, k⟩ := pc
        simp only at hkind hcol
        subst hkind
        have hep := pawnMovesEnPassant_eq _ _ _ p mov hmv
        have hm := wf.epb mov hep
        obtain ⟨_, hgeo⟩ := (pawnMovesEnPassant_iff ⟨c, .pawn⟩ _ _ p mov (by unfold toPt; simp only; omega)).mp hmv
        have x : EpCtx p o c mov := ⟨ho, hm, hpc, hcol, hep, by unfold EpGeo; cases c <;> exact hgeo⟩
        obtain ⟨hisep, habs⟩ := ep_succ_abs h p wf.lp o ho c hpc hcol mov hm hmv
        obtain ⟨f1, f2, f3, f4, f5, f6, f7⟩ := epBoard_fields h ⟨c, .pawn⟩ p (toPt o) mov
        have hmo : moveOf (epBoard h ⟨c, .pawn⟩ p (toPt o) mov) = ⟨o, specOf mov, none⟩ := by
          rw [moveOf_of _ _ _ f3, f4, specOf_toPt o ho]; rfl
        rw [hmo]
        refine ⟨rfl, hisep, ?_, habs⟩
        have hto := toPt_onBoard o ho
        have hbrd := epBoard_board h c p (toPt o) mov hpc
        have hcapOn : OnBoard ⟨capRow c mov.row, mov.col⟩ := by
          unfold OnBoard at hm ⊢; unfold toPt at hgeo; unfold capRow; simp only at hgeo ⊢
          cases c <;> simp only at hgeo ⊢ <;> omega
        have hr1 : RingOK (epBoard h ⟨c, .pawn⟩ p (toPt o) mov).board := by
          rw [hbrd]
          exact ringOK_set _ ⟨capRow c mov.row, mov.col⟩ _ (ringOK_set _ mov _ (ringOK_set _ (toPt o) _ wf.ring hto) hm) hcapOn
        have hi1 : InnerOK (epBoard h ⟨c, .pawn⟩ p (toPt o) mov).board := by
          rw [hbrd]
          exact innerOK_set _ ⟨capRow c mov.row, mov.col⟩ _
            (innerOK_set _ mov _ (innerOK_set _ (toPt o) _ wf.inner (by simp)) (by simp)) (by simp)
        have hk1 := ep_kingsOK h p wf.kings wf.ring wf.lp o c mov x
        have hchk : isCheck (epBoard h ⟨c, .pawn⟩ p (toPt o) mov) p.toMove = false := by simpa using hnchk
        unfold Spec.legal
        rw [ep_pseudo p wf.lp o c mov x, ← habs, ← isCheck_eq_inCheck _ hr1 hi1 hk1, abs_side, hchk]
        rfl
      · cases hq
  · cases hq

end Walleye
