/-
  Every score `get_best_move` reports lies in [-(MATE-2), MATE-1] — at every point of every run
  (any depth, any clock expiry, any ordering oracle, also if the run ends by a panic or out of fuel).
-/
import Walleye.Proofs.RangeFine
import Walleye.Proofs.Reports
namespace Walleye

variable {P O : Type}

def ScoreOK (e : Int) : Prop := -(Gen.mateScore - 2) ≤ e ∧ e ≤ Gen.mateScore - 1

/-- every info line reported so far carries a score in range -/
def InfoOK (s : SS P O) : Prop := ∀ i, Report.info i ∈ s.reports.toList → ScoreOK i.eval

theorem outState_bind_ok {α β : Type} {m : M (SS P O) α} {f : α → M (SS P O) β} {s s1 : SS P O} {a : α}
    (h : m s = .ok a s1) : outState ((m >>= f) s) = outState (f a s1) := by rw [bind_of_ok h]
theorem outState_bind_panic {α β : Type} {m : M (SS P O) α} {f : α → M (SS P O) β} {s s1 : SS P O}
    (h : m s = .panic s1) : outState ((m >>= f) s) = s1 := by rw [bind_of_panic h]; rfl
theorem outState_bind_fuel {α β : Type} {m : M (SS P O) α} {f : α → M (SS P O) β} {s s1 : SS P O}
    (h : m s = .fuel s1) : outState ((m >>= f) s) = s1 := by rw [bind_of_fuel h]; rfl

theorem infoOK_of_reports_eq {s s' : SS P O} (h : s'.reports = s.reports) (hi : InfoOK s) : InfoOK s' := by
  unfold InfoOK at *; rw [h]; exact hi

theorem infoOK_sent {s s' : SS P O} (q : P) (h : s'.reports = s.reports.push (.sent q)) (hi : InfoOK s) :
    InfoOK s' := by
  intro i hm
  rw [h] at hm
  simp only [Array.toList_push, List.mem_append, List.mem_singleton] at hm
  rcases hm with h | h
  · exact hi i h
  · cases h

theorem infoOK_info {s s' : SS P O} (i0 : Info) (h0 : ScoreOK i0.eval)
    (h : s'.reports = s.reports.push (.info i0)) (hi : InfoOK s) : InfoOK s' := by
  intro i hm
  rw [h] at hm
  simp only [Array.toList_push, List.mem_append, List.mem_singleton] at hm
  rcases hm with h | h
  · exact hi i h
  · injection h with h; subst h; exact h0

theorem tick_run (s : SS P O) : ∃ b s', tick s = .ok b s' ∧ s'.reports = s.reports ∧ Le s s' ∧ (b = false → NX s') := by
  refine ⟨_, _, rfl, rfl, ⟨rfl, rfl, Nat.le_succ _⟩, ?_⟩
  intro hb
  unfold NX SS.expired
  cases hx : s.expiry with
  | none => rfl
  | some k =>
    rw [hx] at hb
    simp only [decide_eq_false_iff_not] at hb ⊢
    omega

theorem report_run (r : Report P) (s : SS P O) :
    ∃ s', report r s = .ok () s' ∧ s'.reports = s.reports.push r ∧ Le s s' :=
  ⟨_, rfl, rfl, Le.refl _⟩

theorem setPV_run (s : SS P O) : ∃ s', setPV s = .ok () s' ∧ s'.reports = s.reports ∧ Le s s' :=
  ⟨_, rfl, rfl, Le.refl _⟩

theorem sendInfo_run (d : Nat) (e : Int) (s : SS P O) :
    ∃ s' i, sendInfo d e s = .ok () s' ∧ i.eval = e ∧ s'.reports = s.reports.push (.info i) ∧ Le s s' :=
  ⟨_, _, rfl, rfl, rfl, Le.refl _⟩

variable (g : Game P) (ord : Oracle P O)

theorem rootLoop_info (E : Nat) (hE : ∀ p, -(E : Int) ≤ g.eval p ∧ g.eval p ≤ E)
    (hEp : (E : Int) + arrSize + Gen.nullPlyJump + 1 ≤ Gen.mateScore) (fuel curDepth : Nat) (first : P) :
    ∀ (l : List P) (alpha : Int) (best : Option P) (s : SS P O), Sz s → InfoOK s →
      (alpha = -Gen.posInf ∨ alpha ≤ Gen.mateScore - 1) →
      InfoOK (outState (rootLoop g ord fuel curDepth first l alpha best s)) := by
  intro l
  induction l with
  | nil =>
    intro alpha best s _ hi _
    unfold rootLoop
    exact hi
  | cons m ms ih =>
    intro alpha best s hsz hi ha
    have hM : Gen.mateScore = 100000 := rfl
    have hP : Gen.posInf = 9999999 := rfl
    have hJ : Gen.nullPlyJump = 10 := rfl
    have hA : arrSize = 100 := rfl
    unfold rootLoop
    -- the clock consultation at the top of the loop
    obtain ⟨tk, s1, ht, hr1, l1, _⟩ := tick_run s
    rw [outState_bind_ok ht]
    have hsz1 : Sz s1 := Sz_mono hsz l1
    have hi1 : InfoOK s1 := infoOK_of_reports_eq hr1 hi
    by_cases htk : tk = true
    · rw [if_pos htk]
      cases best with
      | none =>
        simp only [Option.isNone_none, if_true]
        obtain ⟨s2, h2, hr2, _⟩ := report_run (.sent first) s1
        rw [outState_bind_ok h2]
        exact infoOK_sent first hr2 hi1
      | some b =>
        simp only [Option.isNone_some, Bool.false_eq_true, if_false]
        exact hi1
    · rw [if_neg htk]
      -- the child search: silent whatever its outcome
      have hsil := alphaBeta_silent g ord fuel m (curDepth - 1) 1 (-Gen.posInf) (-alpha) true s1
      cases hab : alphaBeta g ord fuel m (curDepth - 1) 1 (-Gen.posInf) (-alpha) true s1 with
      | panic s2 =>
        rw [outState_bind_panic hab]
        rw [hab] at hsil
        exact infoOK_of_reports_eq hsil hi1
      | fuel s2 =>
        rw [outState_bind_fuel hab]
        rw [hab] at hsil
        exact infoOK_of_reports_eq hsil hi1
      | ok r s2 =>
        rw [outState_bind_ok hab]
        rw [hab] at hsil
        have hi2 : InfoOK s2 := infoOK_of_reports_eq hsil hi1
        have l2 := (alphaBeta_adv g ord fuel m (curDepth - 1) 1 (-Gen.posInf) (-alpha) true).run _ _ _ hab
        have hsz2 := Sz_mono hsz1 l2
        have fine := (alphaBeta_fine g ord E hE hEp fuel m (curDepth - 1) 1 (-Gen.posInf) (-alpha) true
          (fun _ => by omega) (by omega)).run s1 r s2 hsz1 hab
        dsimp only
        -- insert_into_cur_line(0)
        cases hic : insertCur 0 (g.lastMove m) s2 with
        | fuel s3 => unfold insertCur at hic; split at hic <;> cases hic
        | panic s3 =>
          rw [outState_bind_panic hic]
          unfold insertCur at hic; split at hic
          · cases hic
          · cases hic; exact hi2
        | ok u s3 =>
          rw [outState_bind_ok hic]
          have l3 := (insertCur_adv 0 _).run _ _ _ hic
          have hsz3 := Sz_mono hsz2 l3
          have hi3 : InfoOK s3 := infoOK_of_reports_eq (by
            have := insertCur_silent (P := P) (O := O) 0 (g.lastMove m) s2
            rw [hic] at this; exact this) hi2
          have hpure : ∀ (x : Bool) (sx : SS P O), (pure x : M (SS P O) Bool) sx = .ok x sx := fun _ _ => rfl
          by_cases hgt : - r > alpha
          · rw [if_pos hgt]
            obtain ⟨tk2, s4, ht2, hr4, l4, hnx⟩ := tick_run s3
            rw [outState_bind_ok ht2, outState_bind_ok (hpure _ _)]
            have hsz4 := Sz_mono hsz3 l4
            have hi4 : InfoOK s4 := infoOK_of_reports_eq hr4 hi3
            cases tk2 with
            | true =>
              simp only [Bool.not_true, Bool.false_eq_true, if_false]
              exact ih alpha best _ hsz4 hi4 ha
            | false =>
              simp only [Bool.not_false, if_true]
              -- the clock has not expired: the child's value obeys the ply-1 window relation
              have b1 := fine (NX_of_le (l3.trans l4) (hnx rfl))
              unfold B at b1
              have hsc : ScoreOK (- r) := by
                unfold ScoreOK
                rcases ha with ha | ha <;> omega
              obtain ⟨s5, h5, hr5, l5⟩ := report_run (.sent m) s4
              rw [outState_bind_ok h5]
              obtain ⟨s6, h6, hr6, l6⟩ := setPV_run s5
              rw [outState_bind_ok h6]
              obtain ⟨s7, i7, h7, he7, hr7, l7⟩ := sendInfo_run curDepth (- r) s6
              rw [outState_bind_ok h7]
              apply ih (- r) (some m) _ (Sz_mono (Sz_mono (Sz_mono hsz4 l5) l6) l7)
              · exact infoOK_info i7 (by rw [he7]; exact hsc) hr7
                  (infoOK_of_reports_eq hr6 (infoOK_sent m hr5 hi4))
              · right; exact hsc.2
          · rw [if_neg hgt]
            rw [outState_bind_ok (hpure _ _)]
            simp only [Bool.false_eq_true, if_false]
            exact ih alpha best _ hsz3 hi3 ha

theorem iterate_info (E : Nat) (hE : ∀ p, -(E : Int) ≤ g.eval p ∧ g.eval p ≤ E)
    (hEp : (E : Int) + arrSize + Gen.nullPlyJump + 1 ≤ Gen.mateScore) (fuel : Nat) (root : P) :
    ∀ (n curDepth : Nat) (moves : List P) (best : Option P) (s : SS P O), InfoOK s →
      InfoOK (outState (iterate g ord fuel root n curDepth moves best s)) := by
  intro n
  induction n with
  | zero => intro c mv b s hi; unfold iterate; exact hi
  | succ k ih =>
    intro c mv b s hi
    unfold iterate
    by_cases hc : c ≥ Gen.maxDepth
    · rw [if_pos hc]; exact hi
    · rw [if_neg hc]
      have hm : M.modify (fun s : SS P O => { s with nodes := 0, cur := Array.replicate arrSize none }) s =
          .ok () ((fun s : SS P O => { s with nodes := 0, cur := Array.replicate arrSize none }) s) := rfl
      rw [outState_bind_ok hm]
      have hsz1 : Sz ((fun s : SS P O => { s with nodes := 0, cur := Array.replicate arrSize none }) s) := by
        unfold Sz; simp
      have hi1 : InfoOK ((fun s : SS P O => { s with nodes := 0, cur := Array.replicate arrSize none }) s) := hi
      generalize ((fun s : SS P O => { s with nodes := 0, cur := Array.replicate arrSize none }) s) = s1 at hsz1 hi1
      cases ho : order ord 'R' mv s1 with
      | panic s2 => unfold order at ho; cases ho
      | fuel s2 => unfold order at ho; cases ho
      | ok moves s2 =>
        rw [outState_bind_ok ho]
        have l2 := (order_adv ord 'R' mv).run _ _ _ ho
        have hsz2 := Sz_mono hsz1 l2
        have hi2 : InfoOK s2 := infoOK_of_reports_eq (by
          have := order_silent (P := P) (O := O) ord 'R' mv s1
          rw [ho] at this; exact this) hi1
        cases moves with
        | nil => exact ih _ _ _ s2 hi2
        | cons first rest =>
          dsimp only
          -- the fall-back move handed over in the first iteration: a `sent` report, no info line
          obtain ⟨s2', hfb, hsz2', hi2'⟩ : ∃ s2', sendFallback c first s2 = .ok () s2' ∧ Sz s2' ∧ InfoOK s2' := by
            unfold sendFallback
            by_cases hc1 : c = 1
            · rw [if_pos hc1]
              obtain ⟨s', h', hr', l'⟩ := report_run (.sent first) s2
              exact ⟨s', h', Sz_mono hsz2 l', infoOK_sent first hr' hi2⟩
            · rw [if_neg hc1]
              exact ⟨s2, rfl, hsz2, hi2⟩
          rw [outState_bind_ok hfb]
          clear hsz2 hi2 hfb
          have hsz2 := hsz2'
          have hi2 := hi2'
          revert hsz2 hi2
          generalize s2' = s2
          intro hsz2 hi2
          have hrl := rootLoop_info g ord E hE hEp fuel c first (first :: rest) (-Gen.posInf) b s2 hsz2 hi2 (Or.inl rfl)
          cases hr : rootLoop g ord fuel c first (first :: rest) (-Gen.posInf) b s2 with
          | panic s3 => rw [outState_bind_panic hr]; rw [hr] at hrl; exact hrl
          | fuel s3 => rw [outState_bind_fuel hr]; rw [hr] at hrl; exact hrl
          | ok res s3 =>
            rw [outState_bind_ok hr]
            rw [hr] at hrl
            cases res with
            | none => exact hrl
            | some ab => exact ih _ _ _ s3 hrl

/-- **C18 on the model**: every `info` line that `get_best_move` reports — at any depth, under
    any clock expiry and ordering oracle, at every point of the run and whatever its outcome —
    carries a score in [-(MATE-2), MATE-1]; in particular never the abort sentinel -/
theorem getBestMove_scores_in_range (E : Nat) (hE : ∀ p, -(E : Int) ≤ g.eval p ∧ g.eval p ≤ E)
    (hEp : (E : Int) + arrSize + Gen.nullPlyJump + 1 ≤ Gen.mateScore) (fuel : Nat) (root : P) (s : SS P O)
    (hs : InfoOK s) : InfoOK (outState (getBestMove g ord fuel root s)) := by
  unfold getBestMove
  exact iterate_info g ord E hE hEp fuel root _ _ _ _ s hs

end Walleye
