/-
  Monotone facts about every normally finishing computation of the search model: the per-ply
  arrays keep their size, the clock's expiry index is never changed and the number of clock
  consultations never decreases — hence "out of time" is sticky through any computation.
-/
import Walleye.Proofs.SearchInv
namespace Walleye

variable {P O : Type}

/-- `s'` is a later state than `s` -/
def Le (s s' : SS P O) : Prop :=
  s'.cur.size = s.cur.size ∧ s'.expiry = s.expiry ∧ s.queries ≤ s'.queries

theorem Le.refl (s : SS P O) : Le s s := ⟨rfl, rfl, Nat.le_refl _⟩
theorem Le.trans {a b c : SS P O} (h1 : Le a b) (h2 : Le b c) : Le a c :=
  ⟨h2.1.trans h1.1, h2.2.1.trans h1.2.1, Nat.le_trans h1.2.2 h2.2.2⟩

theorem expired_mono {s s' : SS P O} (h : Le s s') (he : s.expired = true) : s'.expired = true := by
  unfold SS.expired at *
  rw [h.2.1]
  cases hk : s.expiry with
  | none => rw [hk] at he; cases he
  | some k =>
    rw [hk] at he
    simp only [decide_eq_true_eq] at he ⊢
    have := h.2.2
    omega

structure Adv {α : Type} (m : M (SS P O) α) : Prop where
  run : ∀ s a s', m s = .ok a s' → Le s s'

theorem Adv.bind {α β : Type} {m : M (SS P O) α} {f : α → M (SS P O) β}
    (h1 : Adv m) (h2 : ∀ a, Adv (f a)) : Adv (m >>= f) := by
  refine ⟨?_⟩
  intro s b s'' he
  obtain ⟨a, s', hm, hf⟩ := bind_ok he
  exact (h1.run s a s' hm).trans ((h2 a).run s' b s'' hf)

theorem Adv.pure {α : Type} (a : α) : Adv (pure a : M (SS P O) α) := by
  refine ⟨?_⟩
  intro s a' s' he
  have : (Pure.pure a : M (SS P O) α) s = .ok a s := rfl
  rw [this] at he; cases he; exact Le.refl _

theorem Adv.ite {α : Type} {c : Prop} [Decidable c] {m1 m2 : M (SS P O) α}
    (h1 : Adv m1) (h2 : Adv m2) : Adv (if c then m1 else m2) := by
  by_cases hc : c
  · rw [if_pos hc]; exact h1
  · rw [if_neg hc]; exact h2

theorem tick_adv : Adv (tick : M (SS P O) Bool) :=
  ⟨fun s a s' he => by rw [(tick_eq he).1]; exact ⟨rfl, rfl, Nat.le_succ _⟩⟩
theorem nodeSearched_adv : Adv (nodeSearched : M (SS P O) Unit) :=
  ⟨fun s a s' he => by unfold nodeSearched M.modify at he; cases he; exact Le.refl _⟩
theorem get_adv : Adv (M.get : M (SS P O) (SS P O)) :=
  ⟨fun s a s' he => by unfold M.get at he; cases he; exact Le.refl _⟩
theorem panic_adv {α : Type} : Adv (M.panic : M (SS P O) α) :=
  ⟨fun s a s' he => by unfold M.panic at he; cases he⟩
theorem outOfFuel_adv {α : Type} : Adv (M.outOfFuel : M (SS P O) α) :=
  ⟨fun s a s' he => by unfold M.outOfFuel at he; cases he⟩
theorem setPV_adv : Adv (setPV : M (SS P O) Unit) :=
  ⟨fun s a s' he => by unfold setPV M.modify at he; cases he; exact Le.refl _⟩
theorem order_adv (ord : Oracle P O) (site : Char) (l : List P) : Adv (order ord site l) :=
  ⟨fun s a s' he => by unfold order at he; cases he; exact Le.refl _⟩
theorem insertCur_adv (ply : Nat) (m : Option Mv) : Adv (insertCur ply m : M (SS P O) Unit) :=
  ⟨fun s a s' he => by
    unfold insertCur at he; split at he
    · cases he; exact ⟨by simp, rfl, Nat.le_refl _⟩
    · cases he⟩
theorem getPV_adv (ply : Nat) : Adv (getPV ply : M (SS P O) (Option Mv)) :=
  ⟨fun s a s' he => by
    unfold getPV at he; split at he
    · cases he; exact Le.refl _
    · cases he⟩
theorem getKillers_adv (ply : Nat) : Adv (getKillers ply : M (SS P O) (Array (Option Mv))) :=
  ⟨fun s a s' he => by
    unfold getKillers at he; split at he
    · cases he; exact Le.refl _
    · cases he⟩
theorem insertKiller_adv (ply : Nat) (m : Option Mv) : Adv (insertKiller ply m : M (SS P O) Unit) :=
  ⟨fun s a s' he => by
    unfold insertKiller at he; split at he
    · dsimp only at he
      split at he <;> (cases he; exact Le.refl _)
    · cases he⟩
theorem tableAdd_adv (k : UInt64) : Adv (tableAdd k : M (SS P O) Unit) :=
  ⟨fun s a s' he => by
    unfold tableAdd at he; split at he
    · cases he; exact Le.refl _
    · cases he⟩
theorem tableRemove_adv (k : UInt64) : Adv (tableRemove k : M (SS P O) Unit) :=
  ⟨fun s a s' he => by
    unfold tableRemove at he; split at he
    · cases he; exact Le.refl _
    · cases he⟩

macro "adv_auto" : tactic => `(tactic|
  repeat' (first
    | exact Adv.pure _
    | exact panic_adv
    | exact outOfFuel_adv
    | exact tick_adv
    | exact nodeSearched_adv
    | exact get_adv
    | exact setPV_adv
    | exact order_adv _ _ _
    | exact insertCur_adv _ _
    | exact getPV_adv _
    | exact getKillers_adv _
    | exact insertKiller_adv _ _
    | exact tableAdd_adv _
    | exact tableRemove_adv _
    | solve_by_elim
    | apply Adv.ite
    | apply Adv.bind
    | intro _
    | split
    | dsimp only))

variable (g : Game P) (ord : Oracle P O)

theorem quiesceLoop_adv (f : P → Int → Int → M (SS P O) Int) (hf : ∀ p a b, Adv (f p a b)) :
    ∀ (l : List P) (a b : Int), Adv (quiesceLoop f l a b) := by
  intro l
  induction l with
  | nil => intro a b; unfold quiesceLoop; adv_auto
  | cons m ms ih => intro a b; unfold quiesceLoop; adv_auto

theorem quiesce_adv : ∀ (fuel : Nat) (p : P) (a b : Int), Adv (quiesce g ord fuel p a b) := by
  intro fuel
  induction fuel with
  | zero => intro p a b; unfold quiesce; adv_auto
  | succ n ih =>
    intro p a b
    unfold quiesce
    have hl := quiesceLoop_adv (quiesce g ord n) (fun p a b => ih p a b)
    adv_auto

theorem abLoop_adv (f : ABFun P O) (hf : ∀ p d ply a b n, Adv (f p d ply a b n)) :
    ∀ (l : List P) (d1 ply : Nat) (a b best : Int), Adv (abLoop g f l d1 ply a b best) := by
  intro l
  induction l with
  | nil => intro d1 ply a b best; unfold abLoop; adv_auto
  | cons m ms ih => intro d1 ply a b best; unfold abLoop; adv_auto

theorem abBody_adv (f : ABFun P O) (hf : ∀ p d ply a b n, Adv (f p d ply a b n))
    (p : P) (depth ply : Nat) (a b : Int) (n : Bool) : Adv (abBody g ord f p depth ply a b n) := by
  unfold abBody
  have hq := quiesce_adv g ord
  have hql := fun fuel => quiesceLoop_adv (quiesce g ord fuel) (hq fuel)
  have hl := abLoop_adv g f hf
  adv_auto

theorem alphaBeta_adv : ∀ (fuel : Nat) (p : P) (depth ply : Nat) (a b : Int) (n : Bool),
    Adv (alphaBeta g ord fuel p depth ply a b n) := by
  intro fuel
  induction fuel with
  | zero => intro p d ply a b n; unfold alphaBeta; adv_auto
  | succ k ih =>
    intro p d ply a b n
    unfold alphaBeta
    have hb := abBody_adv g ord (alphaBeta g ord k) (fun p d ply a b n => ih p d ply a b n)
    adv_auto

end Walleye
