/-
  The stream of info lines of one `get_best_move` run, at every point of the run and whatever its
  outcome (C18): depths are ≥ 1 and never decrease, within one depth successive lines report strictly
  increasing scores, and the first move of every PV is the move of a root successor — for every game,
  clock expiry and ordering oracle that returns a sub-list.
-/
import Walleye.Proofs.RootRange
import Walleye.Proofs.Prefix
namespace Walleye

variable {P O : Type}

/-- `b` may follow `a` in the stream -/
def Rel (a b : Info) : Prop := a.depth < b.depth ∨ (a.depth = b.depth ∧ a.eval < b.eval)

/-- the stream, most recent line first, is well ordered -/
def RevOK : List Info → Prop
  | [] => True
  | b :: rest => 1 ≤ b.depth ∧ (match rest with | [] => True | a :: _ => Rel a b) ∧ RevOK rest

/-- the most recent line belongs to an earlier depth, or to depth `c` with a score ≤ alpha -/
def Top (c : Nat) (alpha : Int) : List Info → Prop
  | [] => True
  | b :: _ => b.depth < c ∨ (b.depth = c ∧ b.eval ≤ alpha)

def TopLe (c : Nat) : List Info → Prop
  | [] => True
  | b :: _ => b.depth ≤ c

theorem Top.le {c : Nat} {a : Int} {l : List Info} (h : Top c a l) : TopLe c l := by
  cases l with
  | nil => trivial
  | cons b _ => rcases h with h | ⟨h, _⟩ <;> (show b.depth ≤ c; omega)

theorem TopLe.next {c : Nat} {l : List Info} (h : TopLe c l) (a : Int) : Top (c + 1) a l := by
  cases l with
  | nil => trivial
  | cons b _ => left; show b.depth < c + 1; have : b.depth ≤ c := h; omega

def revInfos (s : SS P O) : List Info := (infosOf s.reports).reverse

variable (g : Game P)

/-- the PV of a line starts with the move of a board satisfying `A` (or that board has no move) -/
def PvOK (A : P → Prop) (i : Info) : Prop := ∃ q, A q ∧ (g.lastMove q = none ∨ i.pv.head? = g.lastMove q)

structure K (A : P → Prop) (c : Nat) (s : SS P O) : Prop where
  ok : RevOK (revInfos s)
  top : TopLe c (revInfos s)
  pv : ∀ i ∈ revInfos s, PvOK g A i

structure J (A : P → Prop) (c : Nat) (alpha : Int) (s : SS P O) : Prop where
  sz : Sz s
  ok : RevOK (revInfos s)
  top : Top c alpha (revInfos s)
  pv : ∀ i ∈ revInfos s, PvOK g A i

variable {g}

theorem J.toK {A : P → Prop} {c : Nat} {a : Int} {s : SS P O} (h : J g A c a s) : K g A c s :=
  ⟨h.ok, h.top.le, h.pv⟩

theorem revInfos_eq {s s' : SS P O} (h : s'.reports = s.reports) : revInfos s' = revInfos s := by
  unfold revInfos; rw [h]

theorem K.of_eq {A : P → Prop} {c : Nat} {s s' : SS P O} (h : s'.reports = s.reports)
    (hk : K g A c s) : K g A c s' := by
  have e := revInfos_eq h
  exact ⟨by rw [e]; exact hk.ok, by rw [e]; exact hk.top, by rw [e]; exact hk.pv⟩

theorem J.of_eq {A : P → Prop} {c : Nat} {a : Int} {s s' : SS P O} (h : s'.reports = s.reports) (hsz : Sz s')
    (hj : J g A c a s) : J g A c a s' := by
  have e := revInfos_eq h
  exact ⟨hsz, by rw [e]; exact hj.ok, by rw [e]; exact hj.top, by rw [e]; exact hj.pv⟩

theorem revInfos_sent {s s' : SS P O} (q : P) (h : s'.reports = s.reports.push (.sent q)) :
    revInfos s' = revInfos s := by
  unfold revInfos infosOf
  rw [h, Array.toList_push, List.filterMap_append]
  simp

theorem revInfos_info {s s' : SS P O} (i : Info) (h : s'.reports = s.reports.push (.info i)) :
    revInfos s' = i :: revInfos s := by
  unfold revInfos infosOf
  rw [h, Array.toList_push, List.filterMap_append]
  simp

theorem J.sent {A : P → Prop} {c : Nat} {a : Int} {s s' : SS P O} (q : P)
    (h : s'.reports = s.reports.push (.sent q)) (hsz : Sz s') (hj : J g A c a s) : J g A c a s' := by
  have e := revInfos_sent q h
  exact ⟨hsz, by rw [e]; exact hj.ok, by rw [e]; exact hj.top, by rw [e]; exact hj.pv⟩

theorem J.info {A : P → Prop} {c : Nat} {a : Int} {s s' : SS P O} (i : Info)
    (h : s'.reports = s.reports.push (.info i)) (hsz : Sz s') (hc : 1 ≤ c) (hd : i.depth = c) (he : a < i.eval)
    (hp : PvOK g A i) (hj : J g A c a s) : J g A c i.eval s' := by
  have e := revInfos_info i h
  refine ⟨hsz, ?_, ?_, ?_⟩
  · rw [e]
    refine ⟨by omega, ?_, hj.ok⟩
    cases hr : revInfos s with
    | nil => trivial
    | cons b rest =>
      have ht := hj.top
      rw [hr] at ht
      show Rel b i
      rcases ht with ht | ⟨h1, h2⟩
      · left; omega
      · right; exact ⟨by omega, by omega⟩
  · rw [e]; right; exact ⟨hd, Int.le_refl _⟩
  · rw [e]
    intro x hx
    rcases List.mem_cons.mp hx with rfl | hx
    · exact hp
    · exact hj.pv x hx

/-- head of the PV after `insert_into_cur_line(0, m)`; `set_principle_variation` -/
theorem pvPrefix_head (a : Array (Option Mv)) (h : 0 < a.size) (x : Option Mv) :
    x = none ∨ (pvPrefix (a.setIfInBounds 0 x)).head? = x := by
  cases x with
  | none => left; rfl
  | some v =>
    right
    unfold pvPrefix
    have : (a.setIfInBounds 0 (some v)).toList = some v :: a.toList.tail := by
      rw [Array.toList_setIfInBounds]
      cases hl : a.toList with
      | nil => rw [← Array.length_toList, hl] at h; cases h
      | cons y ys => rfl
    rw [this]
    simp

variable (g) (ord : Oracle P O)

theorem rootLoop_stream (A : P → Prop) (fuel c : Nat) (first : P) (hc : 1 ≤ c) :
    ∀ (l : List P) (alpha : Int) (best : Option P) (s : SS P O), (∀ m ∈ l, A m) → J g A c alpha s →
      K g A c (outState (rootLoop g ord fuel c first l alpha best s)) := by
  intro l
  induction l with
  | nil =>
    intro alpha best s _ hj
    unfold rootLoop
    exact hj.toK
  | cons m ms ih =>
    intro alpha best s hl hj
    have hl' : ∀ x ∈ ms, A x := fun x hx => hl x (by simp [hx])
    unfold rootLoop
    obtain ⟨tk, s1, ht, hr1, l1, _⟩ := tick_run s
    rw [outState_bind_ok ht]
    have hj1 : J g A c alpha s1 := hj.of_eq hr1 (Sz_mono hj.sz l1)
    by_cases htk : tk = true
    · rw [if_pos htk]
      cases best with
      | none =>
        simp only [Option.isNone_none, if_true]
        obtain ⟨s2, h2, hr2, l2⟩ := report_run (.sent first) s1
        rw [outState_bind_ok h2]
        exact (hj1.sent first hr2 (Sz_mono hj1.sz l2)).toK
      | some b =>
        simp only [Option.isNone_some, Bool.false_eq_true, if_false]
        exact hj1.toK
    · rw [if_neg htk]
      have hsil := alphaBeta_silent g ord fuel m (c - 1) 1 (-Gen.posInf) (-alpha) true s1
      cases hab : alphaBeta g ord fuel m (c - 1) 1 (-Gen.posInf) (-alpha) true s1 with
      | panic s2 =>
        rw [outState_bind_panic hab]
        rw [hab] at hsil
        exact hj1.toK.of_eq hsil
      | fuel s2 =>
        rw [outState_bind_fuel hab]
        rw [hab] at hsil
        exact hj1.toK.of_eq hsil
      | ok r s2 =>
        rw [outState_bind_ok hab]
        rw [hab] at hsil
        have l2 := (alphaBeta_adv g ord fuel m (c - 1) 1 (-Gen.posInf) (-alpha) true).run _ _ _ hab
        have hj2 : J g A c alpha s2 := hj1.of_eq hsil (Sz_mono hj1.sz l2)
        dsimp only
        cases hic : insertCur 0 (g.lastMove m) s2 with
        | fuel s3 => unfold insertCur at hic; split at hic <;> cases hic
        | panic s3 =>
          rw [outState_bind_panic hic]
          unfold insertCur at hic; split at hic
          · cases hic
          · cases hic; exact hj2.toK
        | ok u s3 =>
          rw [outState_bind_ok hic]
          have l3 := (insertCur_adv 0 _).run _ _ _ hic
          have hr3 : s3.reports = s2.reports := by
            have := insertCur_silent (P := P) (O := O) 0 (g.lastMove m) s2
            rw [hic] at this; exact this
          have hj3 : J g A c alpha s3 := hj2.of_eq hr3 (Sz_mono hj2.sz l3)
          have hcur3 : s3.cur = s2.cur.setIfInBounds 0 (g.lastMove m) := by
            unfold insertCur at hic; split at hic
            · cases hic; rfl
            · cases hic
          have hpure : ∀ (x : Bool) (sx : SS P O), (pure x : M (SS P O) Bool) sx = .ok x sx := fun _ _ => rfl
          by_cases hgt : - r > alpha
          · rw [if_pos hgt]
            obtain ⟨tk2, s4, ht2, hr4, l4, _⟩ := tick_run s3
            rw [outState_bind_ok ht2, outState_bind_ok (hpure _ _)]
            have hj4 : J g A c alpha s4 := hj3.of_eq hr4 (Sz_mono hj3.sz l4)
            have hcur4 : s4.cur = s3.cur := by rw [(tick_eq ht2).1]
            cases tk2 with
            | true =>
              simp only [Bool.not_true, Bool.false_eq_true, if_false]
              exact ih alpha best _ hl' hj4
            | false =>
              simp only [Bool.not_false, if_true]
              have h5 : report (Report.sent m) s4 = .ok () { s4 with reports := s4.reports.push (.sent m) } := rfl
              rw [outState_bind_ok h5]
              have h6 : setPV ({ s4 with reports := s4.reports.push (.sent m) } : SS P O) =
                  .ok () { s4 with reports := s4.reports.push (.sent m), pv := s4.cur } := rfl
              rw [outState_bind_ok h6]
              have h7 : sendInfo c (- r) ({ s4 with reports := s4.reports.push (.sent m), pv := s4.cur } : SS P O) =
                  .ok () { s4 with pv := s4.cur, reports := (s4.reports.push (.sent m)).push (.info ⟨pvPrefix s4.cur, c, s4.nodes, - r⟩) } := rfl
              rw [outState_bind_ok h7]
              apply ih (- r) (some m) _ hl'
              have hjs : J g A c alpha ({ s4 with reports := s4.reports.push (.sent m) } : SS P O) :=
                hj4.sent m rfl hj4.sz
              have hpv : PvOK g A ⟨pvPrefix s4.cur, c, s4.nodes, - r⟩ := by
                refine ⟨m, hl m (by simp), ?_⟩
                rw [hcur4, hcur3]
                have hsz2 : 0 < s2.cur.size := by
                  have := hj2.sz; unfold Sz at this; rw [this]; decide
                rcases pvPrefix_head s2.cur hsz2 (g.lastMove m) with h | h
                · left; exact h
                · right; exact h
              exact J.info (s := ({ s4 with reports := s4.reports.push (.sent m) } : SS P O))
                ⟨pvPrefix s4.cur, c, s4.nodes, - r⟩ rfl hj4.sz hc rfl (by omega) hpv hjs
          · rw [if_neg hgt]
            rw [outState_bind_ok (hpure _ _)]
            simp only [Bool.false_eq_true, if_false]
            exact ih alpha best _ hl' hj3

/-- what is known between two iterations -/
structure Kpre (A : P → Prop) (c : Nat) (s : SS P O) : Prop where
  ok : RevOK (revInfos s)
  top : TopLe (c - 1) (revInfos s)
  pv : ∀ i ∈ revInfos s, PvOK g A i

theorem iterate_stream (hord : OrdSub ord) (fuel : Nat) (root : P) :
    ∀ (n c : Nat) (moves : List P) (best : Option P) (s : SS P O), 1 ≤ c →
      (∀ m ∈ moves, RootSucc g root m) → Kpre g (RootSucc g root) c s →
      ∃ c', K g (RootSucc g root) c' (outState (iterate g ord fuel root n c moves best s)) := by
  intro n
  have hnext : ∀ best', ∀ m ∈ markPV g best' (g.gen root .all), RootSucc g root m := by
    intro best' m hm
    obtain ⟨y, hy, hor⟩ := markPV_mem g best' _ m hm
    exact ⟨y, hy, hor⟩
  induction n with
  | zero => intro c mv b s _ _ hk; unfold iterate; exact ⟨c - 1, hk.ok, hk.top, hk.pv⟩
  | succ k ih =>
    intro c mv b s hc hmv hk
    unfold iterate
    by_cases hcm : c ≥ Gen.maxDepth
    · rw [if_pos hcm]; exact ⟨c - 1, hk.ok, hk.top, hk.pv⟩
    · rw [if_neg hcm]
      have hm : M.modify (fun s : SS P O => { s with nodes := 0, cur := Array.replicate arrSize none }) s =
          .ok () ((fun s : SS P O => { s with nodes := 0, cur := Array.replicate arrSize none }) s) := rfl
      rw [outState_bind_ok hm]
      have ho : order ord 'R' mv ((fun s : SS P O => { s with nodes := 0, cur := Array.replicate arrSize none }) s) =
          .ok (ord s.ord s.expired 'R' mv).1
            { ((fun s : SS P O => { s with nodes := 0, cur := Array.replicate arrSize none }) s) with ord := (ord s.ord s.expired 'R' mv).2 } := rfl
      rw [outState_bind_ok ho]
      have hsub : ∀ x ∈ (ord s.ord s.expired 'R' mv).1, RootSucc g root x := fun x hx => hmv x (hord _ _ _ _ x hx)
      generalize hs2 : ({ ((fun s : SS P O => { s with nodes := 0, cur := Array.replicate arrSize none }) s) with ord := (ord s.ord s.expired 'R' mv).2 } : SS P O) = s2
      have hr2 : s2.reports = s.reports := by rw [← hs2]
      have hsz2 : Sz s2 := by rw [← hs2]; unfold Sz; simp
      have e2 := revInfos_eq hr2
      have hj2 : J g (RootSucc g root) c (-Gen.posInf) s2 :=
        ⟨hsz2, by rw [e2]; exact hk.ok, by
          rw [e2]
          have := hk.top.next (-Gen.posInf)
          have hcc : c - 1 + 1 = c := by omega
          rw [hcc] at this; exact this, by rw [e2]; exact hk.pv⟩
      cases hl : (ord s.ord s.expired 'R' mv).1 with
      | nil =>
        dsimp only
        exact ih _ _ _ s2 (by omega) (hnext b) ⟨hj2.ok, by
          have := hj2.top.le
          show TopLe (c + 1 - 1) (revInfos s2)
          have hcc : c + 1 - 1 = c := by omega
          rw [hcc]; exact this, hj2.pv⟩
      | cons first rest =>
        dsimp only
        rw [hl] at hsub
        -- the fall-back board of the first iteration: a `sent` report
        obtain ⟨s3, hfb, hj3⟩ : ∃ s3, sendFallback c first s2 = .ok () s3 ∧ J g (RootSucc g root) c (-Gen.posInf) s3 := by
          unfold sendFallback
          by_cases hc1 : c = 1
          · rw [if_pos hc1]
            obtain ⟨s', h', hr', l'⟩ := report_run (.sent first) s2
            exact ⟨s', h', hj2.sent first hr' (Sz_mono hj2.sz l')⟩
          · rw [if_neg hc1]
            exact ⟨s2, rfl, hj2⟩
        rw [outState_bind_ok hfb]
        have hrl := rootLoop_stream g ord (RootSucc g root) fuel c first hc (first :: rest) (-Gen.posInf) b s3 hsub hj3
        cases hr : rootLoop g ord fuel c first (first :: rest) (-Gen.posInf) b s3 with
        | panic s4 => rw [outState_bind_panic hr]; rw [hr] at hrl; exact ⟨c, hrl⟩
        | fuel s4 => rw [outState_bind_fuel hr]; rw [hr] at hrl; exact ⟨c, hrl⟩
        | ok res s4 =>
          rw [outState_bind_ok hr]
          rw [hr] at hrl
          cases res with
          | none => exact ⟨c, hrl⟩
          | some ab =>
            exact ih _ _ _ s4 (by omega) (hnext _) ⟨hrl.ok, by
              show TopLe (c + 1 - 1) (revInfos s4)
              have hcc : c + 1 - 1 = c := by omega
              rw [hcc]; exact hrl.top, hrl.pv⟩

/-- **the info stream of a whole run** (every game, clock expiry, ordering oracle returning a
    sub-list; at every point of the run and whatever its outcome): read in the order printed, depths
    are ≥ 1 and never decrease, scores strictly increase within a depth, and the PV of every line
    starts with the move of a root successor -/
theorem getBestMove_stream (hord : OrdSub ord) (fuel : Nat) (root : P) (s : SS P O) (hs : s.reports = #[]) :
    RevOK (revInfos (outState (getBestMove g ord fuel root s))) ∧
    ∀ i ∈ revInfos (outState (getBestMove g ord fuel root s)), PvOK g (RootSucc g root) i := by
  unfold getBestMove
  have h0 : revInfos s = [] := by unfold revInfos infosOf; rw [hs]; rfl
  obtain ⟨c', hk⟩ := iterate_stream g ord hord fuel root Gen.maxDepth 1 (g.gen root .all) none s (Nat.le_refl _)
    (fun m hm => ⟨m, hm, Or.inl rfl⟩)
    ⟨by rw [h0]; trivial, by rw [h0]; trivial, by rw [h0]; intro i hi; cases hi⟩
  exact ⟨hk.ok, hk.pv⟩

end Walleye
