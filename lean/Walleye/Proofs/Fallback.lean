/-
  (after fix 3ef6069) `get_best_move` hands over a move BEFORE its first evaluation starts: the first
  report of every run on a root position with at least one move is `sent first`, where `first` is the
  head of the root ordering — for every game, every clock expiry (also expiry 0), every ordering
  oracle that does not lose all moves, and whatever happens afterwards (normal end, expiry, panic,
  out of fuel).  Reports are only ever appended, so this board stays the first element of the stream
  the I/O thread reads: it always has something to play at its deadline (C03, C07, C08).
-/
import Walleye.Proofs.Reports
namespace Walleye

variable {P O : Type}

theorem outState_bind_ok' {α β : Type} {m : M (SS P O) α} {f : α → M (SS P O) β} {s s1 : SS P O} {a : α}
    (h : m s = .ok a s1) : outState ((m >>= f) s) = outState (f a s1) := by rw [bind_of_ok h]

/-- the reports after `m`, whatever its outcome, extend the reports before -/
def Grows {α : Type} (m : M (SS P O) α) : Prop :=
  ∀ s, s.reports.toList <+: (outState (m s)).reports.toList

theorem Grows.of_silent {α : Type} {m : M (SS P O) α} (h : Silent m) : Grows m := by
  intro s; rw [h s]; exact List.prefix_refl _

theorem Grows.pure {α : Type} (a : α) : Grows (pure a : M (SS P O) α) := Grows.of_silent (Silent.pure a)

theorem Grows.bind {α β : Type} {m : M (SS P O) α} {f : α → M (SS P O) β}
    (h1 : Grows m) (h2 : ∀ a, Grows (f a)) : Grows (m >>= f) := by
  intro s
  have := h1 s
  cases hm : m s with
  | ok a s' =>
    rw [hm] at this
    rw [bind_of_ok hm]
    exact List.IsPrefix.trans this (h2 a s')
  | panic s' => rw [hm] at this; rw [bind_of_panic hm]; exact this
  | fuel s' => rw [hm] at this; rw [bind_of_fuel hm]; exact this

theorem Grows.ite {α : Type} {c : Prop} [Decidable c] {m1 m2 : M (SS P O) α}
    (h1 : Grows m1) (h2 : Grows m2) : Grows (if c then m1 else m2) := by
  by_cases hc : c
  · rw [if_pos hc]; exact h1
  · rw [if_neg hc]; exact h2

theorem report_grows (r : Report P) : Grows (report r : M (SS P O) Unit) := by
  intro s
  show s.reports.toList <+: (s.reports.push r).toList
  rw [Array.toList_push]
  exact List.prefix_append _ _

theorem sendInfo_grows (d : Nat) (e : Int) : Grows (sendInfo d e : M (SS P O) Unit) := by
  intro s
  show s.reports.toList <+: (s.reports.push _).toList
  rw [Array.toList_push]
  exact List.prefix_append _ _

theorem modify_grows (f : SS P O → SS P O) (hf : ∀ s, (f s).reports = s.reports) : Grows (M.modify f) := by
  intro s
  show s.reports.toList <+: (f s).reports.toList
  rw [hf]; exact List.prefix_refl _

macro "gr_auto" : tactic => `(tactic|
  repeat' (first
    | exact Grows.pure _
    | exact Grows.of_silent panic_silent
    | exact Grows.of_silent outOfFuel_silent
    | exact Grows.of_silent tick_silent
    | exact Grows.of_silent setPV_silent
    | exact Grows.of_silent (insertCur_silent _ _)
    | exact Grows.of_silent (order_silent _ _ _)
    | exact report_grows _
    | exact sendInfo_grows _ _
    | solve_by_elim
    | apply Grows.ite
    | apply Grows.bind
    | intro _
    | split
    | dsimp only))

variable (g : Game P) (ord : Oracle P O)

theorem rootLoop_grows (fuel curDepth : Nat) (first : P) :
    ∀ (l : List P) (alpha : Int) (best : Option P), Grows (rootLoop g ord fuel curDepth first l alpha best) := by
  intro l
  have hab := fun p d ply a b n => Grows.of_silent (alphaBeta_silent g ord fuel p d ply a b n)
  induction l with
  | nil => intro alpha best; unfold rootLoop; gr_auto
  | cons m ms ih => intro alpha best; unfold rootLoop; gr_auto

theorem sendFallback_grows (c : Nat) (first : P) : Grows (sendFallback c first : M (SS P O) Unit) := by
  unfold sendFallback; exact Grows.ite (report_grows _) (Grows.pure _)

theorem iterate_grows (fuel : Nat) (root : P) :
    ∀ (n curDepth : Nat) (moves : List P) (best : Option P), Grows (iterate g ord fuel root n curDepth moves best) := by
  intro n
  have hrl := rootLoop_grows g ord fuel
  have hfb := sendFallback_grows (P := P) (O := O)
  have hm : Grows (M.modify fun s : SS P O => { s with nodes := 0, cur := Array.replicate arrSize none }) :=
    modify_grows _ (fun _ => rfl)
  induction n with
  | zero => intro c mv b; unfold iterate; gr_auto
  | succ k ih => intro c mv b; unfold iterate; gr_auto

/-- the oracle never returns an empty list for a non-empty one (every permutation qualifies) -/
def OrdNonempty (ord : Oracle P O) : Prop := ∀ o e c l, l ≠ [] → (ord o e c l).1 ≠ []

/-- **the first board handed over is the head of the root ordering, before any evaluation**:
    for every clock expiry (also 0), whatever the outcome of the run -/
theorem getBestMove_hands_over_first (hne : OrdNonempty ord) (fuel : Nat) (root : P) (s : SS P O)
    (hs : s.reports = #[]) (hroot : g.gen root .all ≠ []) :
    ∃ first tail rest, (ord s.ord s.expired 'R' (g.gen root .all)).1 = first :: tail ∧
      (outState (getBestMove g ord fuel root s)).reports.toList = Report.sent first :: rest := by
  unfold getBestMove
  have hmd : (Gen.maxDepth : Nat) = Nat.succ 99 := rfl
  rw [hmd]
  unfold iterate
  have hc : ¬ (1 ≥ Gen.maxDepth) := by decide
  rw [if_neg hc]
  have hm : M.modify (fun s : SS P O => { s with nodes := 0, cur := Array.replicate arrSize none }) s =
      .ok () { s with nodes := 0, cur := Array.replicate arrSize none } := rfl
  rw [outState_bind_ok' hm]
  have ho : order ord 'R' (g.gen root .all) ({ s with nodes := 0, cur := Array.replicate arrSize none } : SS P O) =
      .ok (ord s.ord s.expired 'R' (g.gen root .all)).1
        { ({ s with nodes := 0, cur := Array.replicate arrSize none } : SS P O) with ord := (ord s.ord s.expired 'R' (g.gen root .all)).2 } := rfl
  rw [outState_bind_ok' ho]
  cases hl : (ord s.ord s.expired 'R' (g.gen root .all)).1 with
  | nil => exact absurd hl (hne _ _ _ _ hroot)
  | cons first tail =>
    refine ⟨first, tail, ?_⟩
    dsimp only
    have hf : sendFallback 1 first ({ ({ s with nodes := 0, cur := Array.replicate arrSize none } : SS P O) with ord := (ord s.ord s.expired 'R' (g.gen root .all)).2 }) =
        .ok () { ({ ({ s with nodes := 0, cur := Array.replicate arrSize none } : SS P O) with ord := (ord s.ord s.expired 'R' (g.gen root .all)).2 }) with
          reports := s.reports.push (.sent first) } := rfl
    rw [outState_bind_ok' hf]
    generalize hs2 : ({ ({ ({ s with nodes := 0, cur := Array.replicate arrSize none } : SS P O) with ord := (ord s.ord s.expired 'R' (g.gen root .all)).2 }) with
          reports := s.reports.push (.sent first) } : SS P O) = s2
    have hr2 : s2.reports.toList = [Report.sent first] := by rw [← hs2, hs]; rfl
    -- everything after only appends
    have key : ∀ (k : Option (Int × Option P) → M (SS P O) Unit), (∀ r, Grows (k r)) →
        ∃ rest, (outState ((rootLoop g ord fuel 1 first (first :: tail) (-Gen.posInf) none >>= k) s2)).reports.toList
          = Report.sent first :: rest := by
      intro k hk
      obtain ⟨rest, h⟩ := (Grows.bind (rootLoop_grows g ord fuel 1 first (first :: tail) (-Gen.posInf) none) hk) s2
      exact ⟨rest, by rw [← h, hr2]; rfl⟩
    obtain ⟨rest, h⟩ := key (fun r => match r with
        | none => pure ()
        | some (_, best) => iterate g ord fuel root 99 (1 + 1) (markPV g best (g.gen root .all)) best) (by
      intro r
      cases r with
      | none => exact Grows.pure _
      | some ab => exact iterate_grows g ord fuel root _ _ _ _)
    exact ⟨rest, rfl, h⟩

end Walleye
