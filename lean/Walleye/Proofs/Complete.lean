/-
  C01 completeness: every legal move of the specification is carried by some successor the
  generator returns.
-/
import Walleye.Proofs.GenSound
namespace Walleye

/-- the castling clause of `Spec.pseudoLegal` -/
def castleCond (P : Spec.Position) (m : Spec.Move) : Bool :=
  let c := P.side
  if m.dst.file == 6 then
    (match c with | .white => P.wks | .black => P.bks) &&
    P.at ⟨7, Spec.homeRank c⟩ == some ⟨c, .rook⟩ &&
    (P.at ⟨5, Spec.homeRank c⟩).isNone && (P.at ⟨6, Spec.homeRank c⟩).isNone &&
    !Spec.attacked P c.opp ⟨4, Spec.homeRank c⟩ && !Spec.attacked P c.opp ⟨5, Spec.homeRank c⟩ &&
    !Spec.attacked P c.opp ⟨6, Spec.homeRank c⟩
  else
    (match c with | .white => P.wqs | .black => P.bqs) &&
    P.at ⟨0, Spec.homeRank c⟩ == some ⟨c, .rook⟩ &&
    (P.at ⟨1, Spec.homeRank c⟩).isNone && (P.at ⟨2, Spec.homeRank c⟩).isNone && (P.at ⟨3, Spec.homeRank c⟩).isNone &&
    !Spec.attacked P c.opp ⟨4, Spec.homeRank c⟩ && !Spec.attacked P c.opp ⟨3, Spec.homeRank c⟩ &&
    !Spec.attacked P c.opp ⟨2, Spec.homeRank c⟩

/-- a pseudo-legal move is an ordinary move, an en passant capture or a castling -/
theorem pseudoLegal_cases (P : Spec.Position) (m : Spec.Move) (h : Spec.pseudoLegal P m = true) :
    InB m.src ∧ InB m.dst ∧ ∃ pc, P.at m.src = some pc ∧ pc.color = P.side ∧
      ((normalRule P m.src pc m.dst = true ∧ promoOK P.side pc m.dst m.promo = true) ∨
       (pc.kind = .pawn ∧ m.src.file ≠ m.dst.file ∧ Spec.attacksFrom P m.src pc m.dst = true ∧
          (P.at m.dst).isSome = false ∧ P.ep = some m.dst ∧ promoOK P.side pc m.dst m.promo = true) ∨
       (pc.kind = .king ∧ m.promo = none ∧ Spec.isCastle P m = true ∧ castleCond P m = true)) := by
  unfold Spec.pseudoLegal at h
  simp only [Bool.and_eq_true, decide_eq_true_eq] at h
  obtain ⟨⟨⟨⟨h1, h2⟩, h3⟩, h4⟩, h5⟩ := h
  refine ⟨⟨h1, h2⟩, ⟨h3, h4⟩, ?_⟩
  cases hsrc : P.at m.src with
  | none => rw [hsrc] at h5; cases h5
  | some pc =>
    rw [hsrc] at h5
    simp only [Bool.and_eq_true] at h5
    obtain ⟨⟨hcol, hfree⟩, hk⟩ := h5
    have hcol : pc.color = P.side := by simpa using hcol
    refine ⟨pc, rfl, hcol, ?_⟩
    have hfree' : tgtFree P pc.color m.dst = true := by unfold tgtFree; rw [hcol]; exact hfree
    obtain ⟨c, k⟩ := pc
    simp only at hcol hk hfree'
    subst hcol
    cases k with
    | pawn =>
      simp only [Bool.and_eq_true] at hk
      obtain ⟨hpo, hmv⟩ := hk
      have hpo' : promoOK P.side ⟨P.side, .pawn⟩ m.dst m.promo = true := by
        unfold promoOK; simp only [beq_self_eq_true, if_true]; exact hpo
      by_cases hf : m.src.file = m.dst.file
      · have hif : (m.src.file == m.dst.file) = true := by simp [hf]
        rw [if_pos hif] at hmv
        left
        refine ⟨?_, hpo'⟩
        unfold normalRule
        simp only [Bool.and_eq_true]
        refine ⟨hfree', ?_⟩
        rw [if_pos hif]; exact hmv
      · have hif : ¬ (m.src.file == m.dst.file) = true := by simp [hf]
        rw [if_neg hif] at hmv
        simp only [Bool.and_eq_true, Bool.or_eq_true] at hmv
        obtain ⟨hatt, hor⟩ := hmv
        by_cases hs : (P.at m.dst).isSome = true
        · left
          refine ⟨?_, hpo'⟩
          unfold normalRule
          simp only [Bool.and_eq_true]
          refine ⟨hfree', ?_⟩
          rw [if_neg hif]
          simp only [Bool.and_eq_true]
          exact ⟨hatt, hs⟩
        · right; left
          have hs' : (P.at m.dst).isSome = false := by simpa using hs
          rcases hor with hor | hor
          · exact absurd hor hs
          · exact ⟨rfl, hf, hatt, hs', by simpa using hor, hpo'⟩
    | king =>
      simp only [Bool.and_eq_true, Bool.or_eq_true] at hk
      obtain ⟨hpn, hor⟩ := hk
      have hpn' : m.promo = none := by cases hx : m.promo <;> simp_all
      rcases hor with hatt | ⟨hic, hcc⟩
      · left
        refine ⟨?_, ?_⟩
        · unfold normalRule; simp only [Bool.and_eq_true]; exact ⟨hfree', hatt⟩
        · unfold promoOK
          have : (Kind.king == Kind.pawn) = false := by decide
          simp [this, hpn']
      · right; right
        exact ⟨rfl, hpn', hic, hcc⟩
    | knight =>
      simp only [Bool.and_eq_true] at hk
      left
      refine ⟨by unfold normalRule; simp only [Bool.and_eq_true]; exact ⟨hfree', hk.2⟩, ?_⟩
      unfold promoOK
      have : (Kind.knight == Kind.pawn) = false := by decide
      simp only [this, Bool.false_eq_true, if_false]; exact hk.1
    | bishop =>
      simp only [Bool.and_eq_true] at hk
      left
      refine ⟨by unfold normalRule; simp only [Bool.and_eq_true]; exact ⟨hfree', hk.2⟩, ?_⟩
      unfold promoOK
      have : (Kind.bishop == Kind.pawn) = false := by decide
      simp only [this, Bool.false_eq_true, if_false]; exact hk.1
    | rook =>
      simp only [Bool.and_eq_true] at hk
      left
      refine ⟨by unfold normalRule; simp only [Bool.and_eq_true]; exact ⟨hfree', hk.2⟩, ?_⟩
      unfold promoOK
      have : (Kind.rook == Kind.pawn) = false := by decide
      simp only [this, Bool.false_eq_true, if_false]; exact hk.1
    | queen =>
      simp only [Bool.and_eq_true] at hk
      left
      refine ⟨by unfold normalRule; simp only [Bool.and_eq_true]; exact ⟨hfree', hk.2⟩, ?_⟩
      unfold promoOK
      have : (Kind.queen == Kind.pawn) = false := by decide
      simp only [this, Bool.false_eq_true, if_false]; exact hk.1

variable (h : Hasher)

/-- membership in the generator's output through one piece and one target -/
theorem mem_generateMoves_target (p : Pos) (pt mov : Point) (pc : Piece) (hpt : OnBoard pt)
    (hpc : p.board.get pt.row pt.col = .full pc) (hcol : pc.color = p.toMove)
    (hmov : mov ∈ getMoves pc pt.row pt.col p.board .all) (q : Pos) (hq : q ∈ succsForTarget h pc p pt mov) :
    q ∈ generateMoves h p .all := by
  unfold generateMoves
  apply List.mem_append.mpr; left
  apply List.mem_flatMap.mpr
  refine ⟨pt, (mem_boardCoords pt).mpr hpt, ?_⟩
  rw [hpc]
  simp only
  rw [if_pos hcol]
  unfold generateMovesForPiece
  apply List.mem_append.mpr; left
  exact List.mem_flatMap.mpr ⟨mov, hmov, hq⟩

theorem mem_generateMoves_ep (p : Pos) (pt : Point) (pc : Piece) (hpt : OnBoard pt)
    (hpc : p.board.get pt.row pt.col = .full pc) (hcol : pc.color = p.toMove)
    (q : Pos) (hq : q ∈ epSuccs h pc p pt) : q ∈ generateMoves h p .all := by
  unfold generateMoves
  apply List.mem_append.mpr; left
  apply List.mem_flatMap.mpr
  refine ⟨pt, (mem_boardCoords pt).mpr hpt, ?_⟩
  rw [hpc]
  simp only
  rw [if_pos hcol]
  unfold generateMovesForPiece
  exact List.mem_append.mpr (Or.inr hq)

theorem move_eta (m : Spec.Move) : m = ⟨m.src, m.dst, m.promo⟩ := by cases m; rfl

/-- ordinary moves: a legal ordinary move of the specification is generated -/
theorem normal_complete (p : Pos) (wf : WFp p) (m : Spec.Move) (hlegal : Spec.legal (abs p) m = true)
    (ho : InB m.src) (ht : InB m.dst) (pc : Piece) (hsrc : (abs p).at m.src = some pc) (hcol : pc.color = (abs p).side)
    (hrule : normalRule (abs p) m.src pc m.dst = true) (hpo : promoOK (abs p).side pc m.dst m.promo = true) :
    ∃ q ∈ generateMoves h p .all, moveOf q = m := by
  have hpc := get_of_at p m.src ho pc hsrc
  have hpt := toPt_onBoard m.src ho
  have hm := toPt_onBoard m.dst ht
  have hsd : specOf (toPt m.dst) = m.dst := specOf_toPt m.dst ht
  have hrule' : normalRule (abs p) m.src pc (specOf (toPt m.dst)) = true := by rw [hsd]; exact hrule
  have hmov := (getMoves_spec p wf.ring wf.inner m.src ho pc hpc (toPt m.dst)).mpr ⟨hm, hrule'⟩
  have hcol' : pc.color = p.toMove := hcol
  have hnk := no_king_capture p wf m.src ho pc hpc hcol' (toPt m.dst) hm hrule'
  have hR := rightsOK_of_LP p wf.lp
  -- the promotion flag only occurs for pawns and never names a king
  have hpr : ∀ k, m.promo = some k → pc.kind ≠ .king ∧ k ≠ .king := by
    intro k hk
    unfold promoOK at hpo
    rw [hk] at hpo
    by_cases hpw : pc.kind = .pawn
    · refine ⟨by rw [hpw]; decide, ?_⟩
      simp only [hpw, beq_self_eq_true, if_true] at hpo
      split at hpo
      · intro e; subst e; simp [Spec.promoKinds] at hpo
      · cases hpo
    · have : (pc.kind == Kind.pawn) = false := by simpa using hpw
      simp [this] at hpo
  -- the king-safety test passes
  have hsafe : isCheck (st1 h pc p (toPt m.src) (toPt m.dst)) pc.color = false := by
    rw [filter_normal h p wf.ring wf.inner wf.kings m.src ho pc hpc hcol' (toPt m.dst) hm hrule' hnk m.promo hpr, hsd,
      ← move_eta m]
    unfold Spec.legal at hlegal
    simp only [Bool.and_eq_true, Bool.not_eq_true'] at hlegal
    exact hlegal.2
  have hlist : succsForTarget h pc p (toPt m.src) (toPt m.dst) =
      st4 h pc (toPt m.src) (toPt m.dst) (st3 h pc (toPt m.src) (toPt m.dst) (st2 h pc (toPt m.src) (toPt m.dst)
        (st1 h pc p (toPt m.src) (toPt m.dst)))) := by
    rw [succsForTarget_eq, if_neg (by rw [hsafe]; simp)]
  obtain ⟨c, k⟩ := pc
  simp only at hcol hcol' hpr
  cases hpm : m.promo with
  | none =>
    -- no promotion is due: the single successor
    have hnp : ¬ (k = .pawn ∧ m.dst.rank = Spec.lastRank c) := by
      rintro ⟨rfl, hl⟩
      unfold promoOK at hpo
      rw [hpm, ← hcol] at hpo
      simp [hl] at hpo
    refine ⟨st3 h ⟨c, k⟩ (toPt m.src) (toPt m.dst) (st2 h ⟨c, k⟩ (toPt m.src) (toPt m.dst) (st1 h ⟨c, k⟩ p (toPt m.src) (toPt m.dst))),
      mem_generateMoves_target h p (toPt m.src) (toPt m.dst) ⟨c, k⟩ hpt hpc hcol' hmov _ ?_, ?_⟩
    · rw [hlist]
      unfold st4
      have n1 : ¬ ((toPt m.dst).row = Gen.boardStart ∧ c = .white ∧ k = .pawn) := by
        rintro ⟨hr, rfl, rfl⟩
        exact hnp ⟨rfl, by rw [← hsd]; exact (promo_row_iff .white _ hm).mp hr⟩
      have n2 : ¬ ((toPt m.dst).row = Gen.boardEnd - 1 ∧ c = .black ∧ k = .pawn) := by
        rintro ⟨hr, rfl, rfl⟩
        exact hnp ⟨rfl, by rw [← hsd]; exact (promo_row_iff .black _ hm).mp hr⟩
      simp only
      rw [if_neg n1, if_neg n2]
      exact List.mem_singleton.mpr rfl
    · rw [moveOf_of _ (toPt m.src) (toPt m.dst) (by rw [st3_lastMove, st2_lastMove, st1_lastMove]),
        st3_promo, st2_promo, st1_promo, specOf_toPt m.src ho, hsd]
      rw [move_eta m, hpm]; rfl
  | some kk =>
    -- a pawn reaching its last rank: the fan-out contains the successor for the requested piece
    have hfacts : k = .pawn ∧ m.dst.rank = Spec.lastRank c ∧ kk ∈ Gen.promotionOrder := by
      unfold promoOK at hpo
      rw [hpm, ← hcol] at hpo
      by_cases hpw : k = .pawn
      · subst hpw
        simp only [beq_self_eq_true, if_true] at hpo
        by_cases hl : m.dst.rank = Spec.lastRank c
        · refine ⟨rfl, hl, ?_⟩
          simp only [hl, beq_self_eq_true, if_true] at hpo
          cases kk <;> simp [Spec.promoKinds, Gen.promotionOrder] at hpo ⊢
        · have : (m.dst.rank == Spec.lastRank c) = false := by simpa using hl
          simp [this] at hpo
      · have : (k == Kind.pawn) = false := by simpa using hpw
        simp [this] at hpo
    obtain ⟨rfl, hl, hkk⟩ := hfacts
    have hrow := (promo_row_iff c (toPt m.dst) hm).mpr (by rw [hsd]; exact hl)
    -- the fan-out element for `kk`
    have hex : ∃ q ∈ st4 h ⟨c, .pawn⟩ (toPt m.src) (toPt m.dst) (st3 h ⟨c, .pawn⟩ (toPt m.src) (toPt m.dst)
        (st2 h ⟨c, .pawn⟩ (toPt m.src) (toPt m.dst) (st1 h ⟨c, .pawn⟩ p (toPt m.src) (toPt m.dst)))),
        q.lastMove = some (toPt m.src, toPt m.dst) ∧ q.promo = some ⟨c, kk⟩ := by
      unfold st4
      cases c with
      | white =>
        simp only at hrow
        rw [if_pos ⟨hrow, rfl, rfl⟩]
        unfold promotePawn
        exact ⟨_, List.mem_map.mpr ⟨kk, hkk, rfl⟩, rfl, rfl⟩
      | black =>
        simp only at hrow
        have n1 : ¬ ((toPt m.dst).row = Gen.boardStart ∧ Color.black = .white ∧ Kind.pawn = .pawn) := by
          rintro ⟨_, hc, _⟩; cases hc
        rw [if_neg n1, if_pos ⟨hrow, rfl, rfl⟩]
        unfold promotePawn
        exact ⟨_, List.mem_map.mpr ⟨kk, hkk, rfl⟩, rfl, rfl⟩
    obtain ⟨q, hq, hlm, hpq⟩ := hex
    refine ⟨q, mem_generateMoves_target h p (toPt m.src) (toPt m.dst) ⟨c, .pawn⟩ hpt hpc hcol' hmov q (by rw [hlist]; exact hq), ?_⟩
    rw [moveOf_of q _ _ hlm, hpq, specOf_toPt m.src ho, hsd]
    rw [move_eta m, hpm]; rfl

/-- en passant: a legal en passant capture of the specification is generated -/
theorem ep_complete (p : Pos) (wf : WFp p) (m : Spec.Move) (hlegal : Spec.legal (abs p) m = true)
    (ho : InB m.src) (ht : InB m.dst) (pc : Piece) (hsrc : (abs p).at m.src = some pc) (hcol : pc.color = (abs p).side)
    (hk : pc.kind = .pawn) (hatt : Spec.attacksFrom (abs p) m.src pc m.dst = true)
    (hep : (abs p).ep = some m.dst) (hpo : promoOK (abs p).side pc m.dst m.promo = true) :
    ∃ q ∈ generateMoves h p .all, moveOf q = m := by
  obtain ⟨c, k⟩ := pc
  simp only at hk hcol
  subst hk
  have hpc := get_of_at p m.src ho _ hsrc
  have hpt := toPt_onBoard m.src ho
  have hm := toPt_onBoard m.dst ht
  have hsd : specOf (toPt m.dst) = m.dst := specOf_toPt m.dst ht
  -- the model's en passant target is the specification's
  have hpep : p.ep = some (toPt m.dst) := by
    rw [abs_ep] at hep
    cases hx : p.ep with
    | none => rw [hx] at hep; cases hep
    | some e =>
      rw [hx] at hep
      have he : specOf e = m.dst := by simpa using hep
      have hon := wf.epb e hx
      rw [← he, toPt_specOf e hon]
  obtain ⟨_, hrank, _, _, _⟩ := wf.lp.ep _ hep
  -- geometry
  have ho' := ho; have ht' := ht
  unfold InB at ho' ht'
  unfold Spec.attacksFrom Spec.iabs at hatt
  simp only [Bool.and_eq_true, decide_eq_true_eq, beq_iff_eq] at hatt
  have hgeo : EpGeo c m.src (toPt m.dst) := by
    unfold EpGeo toPt
    rw [← hcol] at hrank
    cases c <;> simp only [Spec.fwd, Color.opp] at hatt hrank ⊢ <;> omega
  have hmv : pawnMovesEnPassant ⟨c, .pawn⟩ (toPt m.src).row (toPt m.src).col p = some (toPt m.dst) := by
    apply (pawnMovesEnPassant_iff ⟨c, .pawn⟩ _ _ p _ (by unfold toPt; simp only; omega)).mpr
    refine ⟨hpep, ?_⟩
    unfold EpGeo at hgeo
    cases c <;> exact hgeo
  have hcol' : c = p.toMove := hcol
  have x : EpCtx p m.src c (toPt m.dst) := ⟨ho, hm, hpc, hcol', hpep, hgeo⟩
  obtain ⟨hisep, habs⟩ := ep_succ_abs h p wf.lp m.src ho c hpc hcol' (toPt m.dst) hm hmv
  obtain ⟨f1, f2, f3, f4, f5, f6, f7⟩ := epBoard_fields h ⟨c, .pawn⟩ p (toPt m.src) (toPt m.dst)
  -- the promotion flag is absent (an en passant target is never on the last rank)
  have hpn : m.promo = none := by
    unfold promoOK at hpo
    have hl : (m.dst.rank == Spec.lastRank (abs p).side) = false := by
      rw [beq_eq_false_iff_ne, ← hcol]
      rw [← hcol] at hrank
      cases c <;> simp only [Spec.lastRank, Color.opp] at hrank ⊢ <;> omega
    simp only [beq_self_eq_true, if_true, hl, Bool.false_eq_true, if_false] at hpo
    cases hx : m.promo <;> simp_all
  have hmeq : m = ⟨m.src, specOf (toPt m.dst), none⟩ := by rw [hsd, ← hpn]
  -- king safety
  have hbrd := epBoard_board h c p (toPt m.src) (toPt m.dst) hpc
  have hcapOn : OnBoard ⟨capRow c (toPt m.dst).row, (toPt m.dst).col⟩ := by
    unfold OnBoard at hm ⊢; unfold EpGeo at hgeo; unfold toPt at hgeo hm ⊢; unfold capRow; simp only at hgeo hm ⊢
    cases c <;> simp only at hgeo ⊢ <;> omega
  have hr1 : RingOK (epBoard h ⟨c, .pawn⟩ p (toPt m.src) (toPt m.dst)).board := by
    rw [hbrd]
    exact ringOK_set _ ⟨capRow c (toPt m.dst).row, (toPt m.dst).col⟩ _
      (ringOK_set _ (toPt m.dst) _ (ringOK_set _ (toPt m.src) _ wf.ring hpt) hm) hcapOn
  have hi1 : InnerOK (epBoard h ⟨c, .pawn⟩ p (toPt m.src) (toPt m.dst)).board := by
    rw [hbrd]
    exact innerOK_set _ ⟨capRow c (toPt m.dst).row, (toPt m.dst).col⟩ _
      (innerOK_set _ (toPt m.dst) _ (innerOK_set _ (toPt m.src) _ wf.inner (by simp)) (by simp)) (by simp)
  have hk1 := ep_kingsOK h p wf.kings wf.ring wf.lp m.src c (toPt m.dst) x
  have hsafe : isCheck (epBoard h ⟨c, .pawn⟩ p (toPt m.src) (toPt m.dst)) p.toMove = false := by
    rw [isCheck_eq_inCheck _ hr1 hi1 hk1, habs, ← hmeq]
    unfold Spec.legal at hlegal
    simp only [Bool.and_eq_true, Bool.not_eq_true'] at hlegal
    exact hlegal.2
  refine ⟨epBoard h ⟨c, .pawn⟩ p (toPt m.src) (toPt m.dst),
    mem_generateMoves_ep h p (toPt m.src) ⟨c, .pawn⟩ hpt hpc hcol' _ ?_, ?_⟩
  · rw [epSuccs_eq, if_pos ⟨by rw [hpep]; rfl, rfl⟩, hmv]
    simp only [hsafe, Bool.not_false, if_true]
    exact List.mem_singleton.mpr rfl
  · rw [moveOf_of _ _ _ f3, f4, specOf_toPt m.src ho]
    exact hmeq.symm

theorem empty_of_at_none (p : Pos) (hi : InnerOK p.board) (t : Spec.Sq) (ht : InB t) (hn : ((abs p).at t).isNone = true) :
    p.board.get (toPt t).row (toPt t).col = .empty := by
  rw [abs_at p t ht] at hn
  have hnb := hi _ _ (toPt_onBoard t ht)
  cases hx : p.board.get (toPt t).row (toPt t).col with
  | empty => rfl
  | boundary => exact absurd hx hnb
  | full x => rw [hx] at hn; cases hn

theorem isCheck_false_of (p : Pos) (wf : WFp p) (c : Color) (k : Spec.Sq) (hk : InB k)
    (hat : (abs p).at k = some ⟨c, .king⟩) (hatt : Spec.attacked (abs p) c.opp k = false) : isCheck p c = false := by
  rw [isCheck_eq_inCheck p wf.ring wf.inner wf.kings c, inCheck_eq_attacked p wf.ring wf.kings c]
  have hg := get_of_at p k hk _ hat
  have := (wf.kings c).2 _ _ hg
  have e : kingPt p c = toPt k := by rw [← this]
  rw [e, specOf_toPt k hk]; exact hatt

theorem canCastle_wks_of (p : Pos) (wf : WFp p) (hside : p.toMove = .white)
    (hK : (abs p).at ⟨4, 0⟩ = some ⟨.white, .king⟩) (hcc : castleCond (abs p) (castleMove .wks) = true) :
    canCastle p .wks = true := by
  unfold castleCond castleMove at hcc
  have hPs : (abs p).side = .white := hside
  simp only [hPs, beq_self_eq_true, if_true, Spec.homeRank, Bool.and_eq_true, Bool.not_eq_true', Color.opp] at hcc
  obtain ⟨⟨⟨⟨⟨⟨hr, _⟩, n5⟩, n6⟩, a4⟩, a5⟩, a6⟩ := hcc
  have g7 : p.board.get 9 7 = .empty := empty_of_at_none p wf.inner ⟨5, 0⟩ (by decide) n5
  have g8 : p.board.get 9 8 = .empty := empty_of_at_none p wf.inner ⟨6, 0⟩ (by decide) n6
  unfold canCastle
  simp only [Bool.and_eq_true, Bool.not_eq_true']
  refine ⟨⟨⟨⟨⟨hr, by rw [g7]; rfl⟩, by rw [g8]; rfl⟩, isCheck_false_of p wf .white ⟨4, 0⟩ (by decide) hK a4⟩, ?_⟩, ?_⟩
  · have := probe_spec p wf .white ⟨5, 0⟩ (by decide) g7
    rw [show Spec.attacked (abs p) Color.white.opp ⟨5, 0⟩ = false from a5] at this; exact this
  · have := probe_spec p wf .white ⟨6, 0⟩ (by decide) g8
    rw [show Spec.attacked (abs p) Color.white.opp ⟨6, 0⟩ = false from a6] at this; exact this

theorem canCastle_wqs_of (p : Pos) (wf : WFp p) (hside : p.toMove = .white)
    (hK : (abs p).at ⟨4, 0⟩ = some ⟨.white, .king⟩) (hcc : castleCond (abs p) (castleMove .wqs) = true) :
    canCastle p .wqs = true := by
  unfold castleCond castleMove at hcc
  have hPs : (abs p).side = .white := hside
  have h26 : ((2 : Nat) == 6) = false := by decide
  simp only [hPs, h26, Bool.false_eq_true, if_false, Spec.homeRank, Bool.and_eq_true, Bool.not_eq_true', Color.opp] at hcc
  obtain ⟨⟨⟨⟨⟨⟨⟨hr, _⟩, n1⟩, n2⟩, n3⟩, a4⟩, a3⟩, a2⟩ := hcc
  have g3 : p.board.get 9 3 = .empty := empty_of_at_none p wf.inner ⟨1, 0⟩ (by decide) n1
  have g4 : p.board.get 9 4 = .empty := empty_of_at_none p wf.inner ⟨2, 0⟩ (by decide) n2
  have g5 : p.board.get 9 5 = .empty := empty_of_at_none p wf.inner ⟨3, 0⟩ (by decide) n3
  unfold canCastle
  simp only [Bool.and_eq_true, Bool.not_eq_true']
  refine ⟨⟨⟨⟨⟨⟨hr, by rw [g3]; rfl⟩, by rw [g4]; rfl⟩, by rw [g5]; rfl⟩,
    isCheck_false_of p wf .white ⟨4, 0⟩ (by decide) hK a4⟩, ?_⟩, ?_⟩
  · have := probe_spec p wf .white ⟨3, 0⟩ (by decide) g5
    rw [show Spec.attacked (abs p) Color.white.opp ⟨3, 0⟩ = false from a3] at this; exact this
  · have := probe_spec p wf .white ⟨2, 0⟩ (by decide) g4
    rw [show Spec.attacked (abs p) Color.white.opp ⟨2, 0⟩ = false from a2] at this; exact this

theorem canCastle_bks_of (p : Pos) (wf : WFp p) (hside : p.toMove = .black)
    (hK : (abs p).at ⟨4, 7⟩ = some ⟨.black, .king⟩) (hcc : castleCond (abs p) (castleMove .bks) = true) :
    canCastle p .bks = true := by
  unfold castleCond castleMove at hcc
  have hPs : (abs p).side = .black := hside
  simp only [hPs, beq_self_eq_true, if_true, Spec.homeRank, Bool.and_eq_true, Bool.not_eq_true', Color.opp] at hcc
  obtain ⟨⟨⟨⟨⟨⟨hr, _⟩, n5⟩, n6⟩, a4⟩, a5⟩, a6⟩ := hcc
  have g7 : p.board.get 2 7 = .empty := empty_of_at_none p wf.inner ⟨5, 7⟩ (by decide) n5
  have g8 : p.board.get 2 8 = .empty := empty_of_at_none p wf.inner ⟨6, 7⟩ (by decide) n6
  unfold canCastle
  simp only [Bool.and_eq_true, Bool.not_eq_true']
  refine ⟨⟨⟨⟨⟨hr, by rw [g7]; rfl⟩, by rw [g8]; rfl⟩, isCheck_false_of p wf .black ⟨4, 7⟩ (by decide) hK a4⟩, ?_⟩, ?_⟩
  · have := probe_spec p wf .black ⟨5, 7⟩ (by decide) g7
    rw [show Spec.attacked (abs p) Color.black.opp ⟨5, 7⟩ = false from a5] at this; exact this
  · have := probe_spec p wf .black ⟨6, 7⟩ (by decide) g8
    rw [show Spec.attacked (abs p) Color.black.opp ⟨6, 7⟩ = false from a6] at this; exact this

theorem canCastle_bqs_of (p : Pos) (wf : WFp p) (hside : p.toMove = .black)
    (hK : (abs p).at ⟨4, 7⟩ = some ⟨.black, .king⟩) (hcc : castleCond (abs p) (castleMove .bqs) = true) :
    canCastle p .bqs = true := by
  unfold castleCond castleMove at hcc
  have hPs : (abs p).side = .black := hside
  have h26 : ((2 : Nat) == 6) = false := by decide
  simp only [hPs, h26, Bool.false_eq_true, if_false, Spec.homeRank, Bool.and_eq_true, Bool.not_eq_true', Color.opp] at hcc
  obtain ⟨⟨⟨⟨⟨⟨⟨hr, _⟩, n1⟩, n2⟩, n3⟩, a4⟩, a3⟩, a2⟩ := hcc
  have g3 : p.board.get 2 3 = .empty := empty_of_at_none p wf.inner ⟨1, 7⟩ (by decide) n1
  have g4 : p.board.get 2 4 = .empty := empty_of_at_none p wf.inner ⟨2, 7⟩ (by decide) n2
  have g5 : p.board.get 2 5 = .empty := empty_of_at_none p wf.inner ⟨3, 7⟩ (by decide) n3
  unfold canCastle
  simp only [Bool.and_eq_true, Bool.not_eq_true']
  refine ⟨⟨⟨⟨⟨⟨hr, by rw [g3]; rfl⟩, by rw [g4]; rfl⟩, by rw [g5]; rfl⟩,
    isCheck_false_of p wf .black ⟨4, 7⟩ (by decide) hK a4⟩, ?_⟩, ?_⟩
  · have := probe_spec p wf .black ⟨2, 7⟩ (by decide) g4
    rw [show Spec.attacked (abs p) Color.black.opp ⟨2, 7⟩ = false from a2] at this; exact this
  · have := probe_spec p wf .black ⟨3, 7⟩ (by decide) g5
    rw [show Spec.attacked (abs p) Color.black.opp ⟨3, 7⟩ = false from a3] at this; exact this

theorem mem_generateMoves_castle (p : Pos) (q : Pos) (hq : q ∈ generateCastlingMoves h p) : q ∈ generateMoves h p .all := by
  unfold generateMoves
  apply List.mem_append.mpr; right
  simp only [if_true]; exact hq

theorem castle_complete_aux (p : Pos) (wf : WFp p) (ct : CastlingType) (hside : p.toMove = rightColor ct)
    (hK : (abs p).at (castleMove ct).src = some ⟨rightColor ct, .king⟩)
    (hcc : castleCond (abs p) (castleMove ct) = true) :
    ∃ q ∈ generateMoves h p .all, moveOf q = castleMove ct := by
  cases ct
  · have hc := canCastle_wks_of p wf hside hK hcc
    obtain ⟨hmo, _, _⟩ := castle_wks_sound h p wf hside hc
    refine ⟨castleSucc h p .wks, mem_generateMoves_castle h p _ ?_, hmo⟩
    unfold generateCastlingMoves
    have hs : p.toMove = .white := hside
    simp [hs, hc]
  · have hc := canCastle_wqs_of p wf hside hK hcc
    obtain ⟨hmo, _, _⟩ := castle_wqs_sound h p wf hside hc
    refine ⟨castleSucc h p .wqs, mem_generateMoves_castle h p _ ?_, hmo⟩
    unfold generateCastlingMoves
    have hs : p.toMove = .white := hside
    simp [hs, hc]
  · have hc := canCastle_bks_of p wf hside hK hcc
    obtain ⟨hmo, _, _⟩ := castle_bks_sound h p wf hside hc
    refine ⟨castleSucc h p .bks, mem_generateMoves_castle h p _ ?_, hmo⟩
    unfold generateCastlingMoves
    have hs : p.toMove = .black := hside
    simp [hs, hc]
  · have hc := canCastle_bqs_of p wf hside hK hcc
    obtain ⟨hmo, _, _⟩ := castle_bqs_sound h p wf hside hc
    refine ⟨castleSucc h p .bqs, mem_generateMoves_castle h p _ ?_, hmo⟩
    unfold generateCastlingMoves
    have hs : p.toMove = .black := hside
    simp [hs, hc]

/-- the castling type of a specification castling move -/
theorem castle_type (P : Spec.Position) (m : Spec.Move) (hpn : m.promo = none) (hic : Spec.isCastle P m = true) :
    ∃ ct, m = castleMove ct ∧ P.side = rightColor ct ∧ P.at (castleMove ct).src = some ⟨rightColor ct, .king⟩ := by
  unfold Spec.isCastle at hic
  simp only [Bool.and_eq_true, Bool.or_eq_true, beq_iff_eq] at hic
  obtain ⟨⟨⟨hking, hsq⟩, hrank⟩, hfile⟩ := hic
  obtain ⟨ms, ⟨df, dr⟩, mp⟩ := m
  simp only at hsq hrank hfile hpn hking
  subst hsq; subst hpn; subst hrank
  cases hs : P.side with
  | white =>
    rw [hs] at hking
    rcases hfile with rfl | rfl
    · exact ⟨.wks, rfl, rfl, hking⟩
    · exact ⟨.wqs, rfl, rfl, hking⟩
  | black =>
    rw [hs] at hking
    rcases hfile with rfl | rfl
    · exact ⟨.bks, rfl, rfl, hking⟩
    · exact ⟨.bqs, rfl, rfl, hking⟩

/-- castling: a legal castling move of the specification is generated -/
theorem castle_complete (p : Pos) (wf : WFp p) (m : Spec.Move) (hpn : m.promo = none)
    (hic : Spec.isCastle (abs p) m = true) (hcc : castleCond (abs p) m = true) :
    ∃ q ∈ generateMoves h p .all, moveOf q = m := by
  obtain ⟨ct, hm, hside, hK⟩ := castle_type (abs p) m hpn hic
  subst hm
  exact castle_complete_aux h p wf ct hside hK hcc

/-- **C01 completeness on the model**: every move that is legal under the specification's rules is
    carried by some successor of the full move generation -/
theorem generateMoves_complete (p : Pos) (wf : WFp p) (m : Spec.Move) (hlegal : Spec.legal (abs p) m = true) :
    ∃ q ∈ generateMoves h p .all, moveOf q = m := by
  have hps : Spec.pseudoLegal (abs p) m = true := by
    unfold Spec.legal at hlegal; simp only [Bool.and_eq_true] at hlegal; exact hlegal.1
  obtain ⟨ho, ht, pc, hsrc, hcol, hcase⟩ := pseudoLegal_cases (abs p) m hps
  rcases hcase with ⟨hrule, hpo⟩ | ⟨hk, _, hatt, _, hep, hpo⟩ | ⟨_, hpn, hic, hcc⟩
  · exact normal_complete h p wf m hlegal ho ht pc hsrc hcol hrule hpo
  · exact ep_complete h p wf m hlegal ho ht pc hsrc hcol hk hatt hep hpo
  · exact castle_complete h p wf m hpn hic hcc

end Walleye
