/-
  What the search thread reports (boards sent, info lines), for every game, clock and oracle:
  every board sent by `getBestMove` is one of the root's successors (possibly re-tagged as the PV
  node), whatever happens afterwards — normal end, expiry, panic or fuel exhaustion.
-/
import Walleye.Proofs.SearchInv
namespace Walleye

variable {P O : Type}

/-- a state predicate that only looks at the report log -/
def RepInv (I : SS P O → Prop) : Prop := ∀ s s' : SS P O, s'.reports = s.reports → I s → I s'

/-- the outcome state of `m`, whatever the outcome -/
def outState {α : Type} : Res (SS P O) α → SS P O
  | .ok _ s => s
  | .panic s => s
  | .fuel s => s

/-- `m` never touches the report log -/
def Silent {α : Type} (m : M (SS P O) α) : Prop := ∀ s, (outState (m s)).reports = s.reports

theorem Silent.keeps {α : Type} {m : M (SS P O) α} {I : SS P O → Prop} (hI : RepInv I) (h : Silent m) :
    Keeps I m := by
  intro s hi
  have := h s
  cases hm : m s with
  | ok a s' => rw [hm] at this; exact hI s s' this hi
  | panic s' => rw [hm] at this; exact hI s s' this hi
  | fuel s' => rw [hm] at this; exact hI s s' this hi

theorem Silent.bind {α β : Type} {m : M (SS P O) α} {f : α → M (SS P O) β}
    (h1 : Silent m) (h2 : ∀ a, Silent (f a)) : Silent (m >>= f) := by
  intro s
  have := h1 s
  cases hm : m s with
  | ok a s' => rw [hm] at this; rw [bind_of_ok hm, h2 a s']; exact this
  | panic s' => rw [hm] at this; rw [bind_of_panic hm]; exact this
  | fuel s' => rw [hm] at this; rw [bind_of_fuel hm]; exact this

theorem Silent.pure {α : Type} (a : α) : Silent (pure a : M (SS P O) α) := fun _ => rfl

theorem Silent.ite {α : Type} {c : Prop} [Decidable c] {m1 m2 : M (SS P O) α}
    (h1 : Silent m1) (h2 : Silent m2) : Silent (if c then m1 else m2) := by
  by_cases hc : c
  · rw [if_pos hc]; exact h1
  · rw [if_neg hc]; exact h2

theorem tick_silent : Silent (tick : M (SS P O) Bool) := fun _ => rfl
theorem nodeSearched_silent : Silent (nodeSearched : M (SS P O) Unit) := fun _ => rfl
theorem order_silent (ord : Oracle P O) (c : Char) (l : List P) : Silent (order ord c l) := fun _ => rfl
theorem setPV_silent : Silent (setPV : M (SS P O) Unit) := fun _ => rfl
theorem get_silent : Silent (M.get : M (SS P O) (SS P O)) := fun _ => rfl
theorem panic_silent {α : Type} : Silent (M.panic : M (SS P O) α) := fun _ => rfl
theorem outOfFuel_silent {α : Type} : Silent (M.outOfFuel : M (SS P O) α) := fun _ => rfl
theorem insertCur_silent (ply : Nat) (m : Option Mv) : Silent (insertCur ply m : M (SS P O) Unit) := by
  intro s; unfold insertCur; split <;> rfl
theorem getPV_silent (ply : Nat) : Silent (getPV ply : M (SS P O) (Option Mv)) := by
  intro s; unfold getPV; split <;> rfl
theorem getKillers_silent (ply : Nat) : Silent (getKillers ply : M (SS P O) (Array (Option Mv))) := by
  intro s; unfold getKillers; split <;> rfl
theorem insertKiller_silent (ply : Nat) (m : Option Mv) : Silent (insertKiller ply m : M (SS P O) Unit) := by
  intro s; unfold insertKiller; split
  · dsimp only; split <;> rfl
  · rfl
theorem tableAdd_silent (k : UInt64) : Silent (tableAdd k : M (SS P O) Unit) := by
  intro s; unfold tableAdd; split <;> rfl
theorem tableRemove_silent (k : UInt64) : Silent (tableRemove k : M (SS P O) Unit) := by
  intro s; unfold tableRemove; split <;> rfl

macro "sil_auto" : tactic => `(tactic|
  repeat' (first
    | exact Silent.pure _
    | exact panic_silent
    | exact outOfFuel_silent
    | exact tick_silent
    | exact nodeSearched_silent
    | exact get_silent
    | exact setPV_silent
    | exact order_silent _ _ _
    | exact insertCur_silent _ _
    | exact getPV_silent _
    | exact getKillers_silent _
    | exact insertKiller_silent _ _
    | exact tableAdd_silent _
    | exact tableRemove_silent _
    | solve_by_elim
    | apply Silent.ite
    | apply Silent.bind
    | intro _
    | split
    | dsimp only))

variable (g : Game P) (ord : Oracle P O)

theorem quiesceLoop_silent (f : P → Int → Int → M (SS P O) Int) (hf : ∀ p a b, Silent (f p a b)) :
    ∀ (l : List P) (a b : Int), Silent (quiesceLoop f l a b) := by
  intro l
  induction l with
  | nil => intro a b; unfold quiesceLoop; sil_auto
  | cons m ms ih => intro a b; unfold quiesceLoop; sil_auto

theorem quiesce_silent : ∀ (fuel : Nat) (p : P) (a b : Int), Silent (quiesce g ord fuel p a b) := by
  intro fuel
  induction fuel with
  | zero => intro p a b; unfold quiesce; sil_auto
  | succ n ih =>
    intro p a b
    unfold quiesce
    have hl := quiesceLoop_silent (quiesce g ord n) (fun p a b => ih p a b)
    sil_auto

theorem abLoop_silent (f : ABFun P O) (hf : ∀ p d ply a b n, Silent (f p d ply a b n)) :
    ∀ (l : List P) (d1 ply : Nat) (a b best : Int), Silent (abLoop g f l d1 ply a b best) := by
  intro l
  induction l with
  | nil => intro d1 ply a b best; unfold abLoop; sil_auto
  | cons m ms ih => intro d1 ply a b best; unfold abLoop; sil_auto

theorem abBody_silent (f : ABFun P O) (hf : ∀ p d ply a b n, Silent (f p d ply a b n))
    (p : P) (depth ply : Nat) (a b : Int) (n : Bool) : Silent (abBody g ord f p depth ply a b n) := by
  unfold abBody
  have hq := quiesce_silent g ord
  have hql := fun fuel => quiesceLoop_silent (quiesce g ord fuel) (hq fuel)
  have hl := abLoop_silent g f hf
  sil_auto

/-- the alpha-beta search never reports anything: only the root does -/
theorem alphaBeta_silent : ∀ (fuel : Nat) (p : P) (depth ply : Nat) (a b : Int) (n : Bool),
    Silent (alphaBeta g ord fuel p depth ply a b n) := by
  intro fuel
  induction fuel with
  | zero => intro p d ply a b n; unfold alphaBeta; sil_auto
  | succ k ih =>
    intro p d ply a b n
    unfold alphaBeta
    have hb := abBody_silent g ord (alphaBeta g ord k) (fun p d ply a b n => ih p d ply a b n)
    sil_auto

end Walleye

namespace Walleye

variable {P O : Type}

/-- every board sent so far satisfies `A` -/
def SentOK (A : P → Prop) (s : SS P O) : Prop := ∀ q, Report.sent q ∈ s.reports.toList → A q

theorem sentOK_repInv (A : P → Prop) : RepInv (SentOK (O := O) A) := by
  intro s s' h hi q hq
  rw [h] at hq; exact hi q hq

theorem report_sent_keeps (A : P → Prop) (m : P) (hm : A m) :
    Keeps (SentOK (O := O) A) (report (.sent m)) := by
  intro s hi
  show SentOK A { s with reports := s.reports.push (.sent m) }
  intro q hq
  simp only [Array.toList_push, List.mem_append, List.mem_singleton] at hq
  cases hq with
  | inl h => exact hi q h
  | inr h => cases h; exact hm

theorem sendInfo_keeps (A : P → Prop) (d : Nat) (e : Int) : Keeps (SentOK (P := P) (O := O) A) (sendInfo d e) := by
  intro s hi
  show SentOK A { s with reports := s.reports.push (.info _) }
  intro q hq
  simp only [Array.toList_push, List.mem_append, List.mem_singleton] at hq
  cases hq with
  | inl h => exact hi q h
  | inr h => cases h

/-- the oracle returns a sub-list of what it was given (every permutation does) -/
def OrdSub (ord : Oracle P O) : Prop := ∀ o e c l x, x ∈ (ord o e c l).1 → x ∈ l

macro "kp_auto" : tactic => `(tactic|
  repeat' (first
    | exact Keeps.pure
    | exact Keeps.panic
    | exact Keeps.outOfFuel
    | solve_by_elim
    | apply Keeps.ite
    | apply Keeps.bind
    | intro _
    | split
    | dsimp only))

variable (g : Game P) (ord : Oracle P O)

theorem rootLoop_keeps (A : P → Prop) (fuel curDepth : Nat) (first : P) (hfirst : A first) :
    ∀ (l : List P) (alpha : Int) (best : Option P), (∀ m ∈ l, A m) →
      Keeps (SentOK (O := O) A) (rootLoop g ord fuel curDepth first l alpha best) := by
  intro l
  have hI := sentOK_repInv (P := P) (O := O) A
  have htick : Keeps (SentOK (O := O) A) (tick : M (SS P O) Bool) := Silent.keeps hI tick_silent
  have hab := fun p d ply a b n => Silent.keeps hI (alphaBeta_silent g ord fuel p d ply a b n)
  have hcur := fun ply m => Silent.keeps hI (insertCur_silent (P := P) (O := O) ply m)
  have hpv : Keeps (SentOK (O := O) A) (setPV : M (SS P O) Unit) := Silent.keeps hI setPV_silent
  have hinfo := sendInfo_keeps (P := P) (O := O) A
  have hfst := report_sent_keeps (O := O) A first hfirst
  induction l with
  | nil => intro alpha best _; unfold rootLoop; kp_auto
  | cons m ms ih =>
    intro alpha best hl
    have hm := report_sent_keeps (O := O) A m (hl m (by simp))
    have ih' := fun a b => ih a b (fun x hx => hl x (by simp [hx]))
    unfold rootLoop
    kp_auto

theorem markPV_mem (best : Option P) (l : List P) :
    ∀ x ∈ markPV g best l, ∃ m ∈ l, x = m ∨ x = g.withOh m Gen.posInf := by
  induction l with
  | nil => intro x hx; simp [markPV] at hx
  | cons m ms ih =>
    intro x hx
    unfold markPV at hx
    cases best with
    | none => exact ⟨x, hx, Or.inl rfl⟩
    | some b =>
      simp only at hx
      split at hx
      · cases List.mem_cons.mp hx with
        | inl h => exact ⟨m, by simp, Or.inr h⟩
        | inr h => exact ⟨x, by simp [h], Or.inl rfl⟩
      · cases List.mem_cons.mp hx with
        | inl h => exact ⟨m, by simp, Or.inl h⟩
        | inr h =>
          obtain ⟨y, hy, hor⟩ := ih x h
          exact ⟨y, by simp [hy], hor⟩

/-- what `getBestMove` can send: a root successor, possibly re-tagged as the PV node -/
def RootSucc (root : P) (q : P) : Prop := ∃ m ∈ g.gen root .all, q = m ∨ q = g.withOh m Gen.posInf

theorem Keeps.bind_order {β : Type} (I : SS P O → Prop) (hI : RepInv I) (hord : OrdSub ord) (site : Char)
    (l : List P) (f : List P → M (SS P O) β)
    (h : ∀ l', (∀ x ∈ l', x ∈ l) → Keeps I (f l')) : Keeps I (order ord site l >>= f) := by
  intro s hi
  rw [bind_of_ok (show order ord site l s = .ok (ord s.ord s.expired site l).1
    { s with ord := (ord s.ord s.expired site l).2 } from rfl)]
  exact h _ (fun x hx => hord _ _ _ _ x hx) _ (hI s _ rfl hi)

theorem iterate_keeps (hord : OrdSub ord) (fuel : Nat) (root : P) :
    ∀ (n curDepth : Nat) (moves : List P) (best : Option P), (∀ m ∈ moves, RootSucc g root m) →
      Keeps (SentOK (O := O) (RootSucc g root)) (iterate g ord fuel root n curDepth moves best) := by
  intro n
  have hI := sentOK_repInv (P := P) (O := O) (RootSucc g root)
  have hnext : ∀ best', ∀ m ∈ markPV g best' (g.gen root .all), RootSucc g root m := by
    intro best' m hm
    obtain ⟨y, hy, hor⟩ := markPV_mem g best' _ m hm
    exact ⟨y, hy, hor⟩
  induction n with
  | zero => intro c mv b _; unfold iterate; exact Keeps.pure
  | succ k ih =>
    intro c mv b hmv
    unfold iterate
    apply Keeps.ite Keeps.pure
    refine Keeps.bind (Keeps.modify (fun s hi => hI s _ rfl hi)) (fun _ => ?_)
    apply Keeps.bind_order ord _ hI hord
    intro moves hsub
    split
    · exact ih _ _ _ (hnext b)
    · rename_i first rest
      have hA : ∀ x ∈ first :: rest, RootSucc g root x := fun x hx => hmv x (hsub x hx)
      have hfb : Keeps (SentOK (O := O) (RootSucc g root)) (sendFallback c first) := by
        unfold sendFallback
        exact Keeps.ite (report_sent_keeps (O := O) (RootSucc g root) first (hA first (by simp))) Keeps.pure
      apply Keeps.bind hfb
      intro _
      apply Keeps.bind (rootLoop_keeps g ord (RootSucc g root) fuel c first (hA first (by simp)) _ _ _ hA)
      intro r
      split
      · exact Keeps.pure
      · exact ih _ _ _ (hnext _)

/-- every board `get_best_move` sends is a successor of the root position — at every point of the
    run, whether it ends normally, by expiry, by a panic or by running out of fuel -/
theorem getBestMove_sends_root_successors (hord : OrdSub ord) (fuel : Nat) (root : P) (s : SS P O)
    (hs : s.reports = #[]) :
    SentOK (RootSucc g root) (outState (getBestMove g ord fuel root s)) := by
  have h0 : SentOK (RootSucc g root) s := by intro q hq; rw [hs] at hq; simp at hq
  have hk := iterate_keeps g ord hord fuel root Gen.maxDepth 1 (g.gen root .all) none
    (fun m hm => ⟨m, hm, Or.inl rfl⟩) s h0
  unfold getBestMove
  cases hr : iterate g ord fuel root Gen.maxDepth 1 (g.gen root .all) none s with
  | ok a s' => rw [hr] at hk; exact hk
  | panic s' => rw [hr] at hk; exact hk
  | fuel s' => rw [hr] at hk; exact hk

end Walleye
