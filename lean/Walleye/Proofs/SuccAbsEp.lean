/-
  C02: the en passant successor and the castling successors are `Spec.apply` of their moves.
-/
import Walleye.Proofs.Legal
namespace Walleye

variable (h : Hasher)

theorem rightsOK_of_LP (p : Pos) (lp : LP (abs p)) : RightsOK p := by
  intro ct hct
  cases ct
  · exact (lp.wks hct).2
  · exact (lp.wqs hct).2
  · exact (lp.bks hct).2
  · exact (lp.bqs hct).2

/-- `pawn_moves_en_passant` returns the en passant target iff the pawn stands on its fifth rank
    on a file next to the target's -/
theorem pawnMovesEnPassant_iff (piece : Piece) (row col : Nat) (p : Pos) (mov : Point) (hcol2 : 2 ≤ col) :
    pawnMovesEnPassant piece row col p = some mov ↔
      (p.ep = some mov ∧
        (match piece.color with
         | .white => row = 5 ∧ mov.row = row - 1 ∧ (mov.col + 1 = col ∨ mov.col = col + 1)
         | .black => row = 6 ∧ mov.row = row + 1 ∧ (mov.col + 1 = col ∨ mov.col = col + 1))) := by
  unfold pawnMovesEnPassant
  cases he : p.ep with
  | none => simp
  | some dm =>
    cases hc : piece.color <;> simp only [Gen.boardStart, Gen.whiteEpRowOff, Gen.blackEpRowOff]
    · by_cases hr : row = 5
      · subst hr
        simp only [if_true]
        constructor
        · intro hx
          split at hx
          · rename_i e; have := Option.some.inj hx; subst this; rw [← e]
            exact ⟨rfl, True.intro, rfl, Or.inl (by simp only; omega)⟩
          · split at hx
            · rename_i e; have := Option.some.inj hx; subst this; rw [← e]
              exact ⟨rfl, True.intro, rfl, Or.inr rfl⟩
            · cases hx
        · rintro ⟨hd, _, h1, h2⟩
          have hd' := Option.some.inj hd
          subst hd'
          rcases h2 with h2 | h2
          · have e : (⟨5 - 1, col - 1⟩ : Point) = dm := by cases dm; simp only at *; congr 1 <;> omega
            rw [if_pos e, e]
          · have e : (⟨5 - 1, col + 1⟩ : Point) = dm := by cases dm; simp only at *; congr 1 <;> omega
            have ne : ¬ ((⟨5 - 1, col - 1⟩ : Point) = dm) := by
              intro e'; rw [← e'] at h2; simp only at h2; omega
            rw [if_neg ne, if_pos e, e]
      · simp only [hr, if_false]
        constructor
        · intro hx; cases hx
        · rintro ⟨_, h0, _⟩; exact h0.elim
    · by_cases hr : row = 6
      · subst hr
        simp only [if_true]
        constructor
        · intro hx
          split at hx
          · rename_i e; have := Option.some.inj hx; subst this; rw [← e]
            exact ⟨rfl, True.intro, rfl, Or.inr rfl⟩
          · split at hx
            · rename_i e; have := Option.some.inj hx; subst this; rw [← e]
              exact ⟨rfl, True.intro, rfl, Or.inl (by simp only; omega)⟩
            · cases hx
        · rintro ⟨hd, _, h1, h2⟩
          have hd' := Option.some.inj hd
          subst hd'
          rcases h2 with h2 | h2
          · have e : (⟨6 + 1, col - 1⟩ : Point) = dm := by cases dm; simp only at *; congr 1 <;> omega
            have ne : ¬ ((⟨6 + 1, col + 1⟩ : Point) = dm) := by
              intro e'; rw [← e'] at h2; simp only at h2; omega
            rw [if_neg ne, if_pos e, e]
          · have e : (⟨6 + 1, col + 1⟩ : Point) = dm := by cases dm; simp only at *; congr 1 <;> omega
            rw [if_pos e, e]
      · simp only [hr, if_false]
        constructor
        · intro hx; cases hx
        · rintro ⟨_, h0, _⟩; exact h0.elim

/-- row of the pawn captured en passant, given the capturing colour and the target row -/
def capRow (c : Color) (r : Nat) : Nat :=
  match c with
  | .white => r + 1
  | .black => r - 1

/-- the en passant successor before the king-safety test -/
def epBoard (piece : Piece) (p : Pos) (sq mov : Point) : Pos :=
  let nb := { p with promo := none }
  let nb := { nb with lastMove := some (sq, mov) }
  let nb := nb.swapColor h
  let nb := nb.unsetEp h
  let nb := nb.movePiece h sq mov
  match piece.color with
  | .white => { nb with board := nb.board.set (mov.row + 1) mov.col .empty,
                        key := nb.key ^^^ h.piece ⟨.black, .pawn⟩ ⟨mov.row + 1, mov.col⟩ }
  | .black => { nb with board := nb.board.set (mov.row - 1) mov.col .empty,
                        key := nb.key ^^^ h.piece ⟨.white, .pawn⟩ ⟨mov.row - 1, mov.col⟩ }

theorem epSuccs_eq (piece : Piece) (p : Pos) (sq : Point) :
    epSuccs h piece p sq =
      if p.ep.isSome ∧ piece.kind = .pawn then
        match pawnMovesEnPassant piece sq.row sq.col p with
        | none => []
        | some mov => if !isCheck (epBoard h piece p sq mov) p.toMove then [epBoard h piece p sq mov] else []
      else [] := rfl

theorem epBoard_board (c : Color) (p : Pos) (sq mov : Point) (hpc : p.board.get sq.row sq.col = .full ⟨c, .pawn⟩) :
    (epBoard h ⟨c, .pawn⟩ p sq mov).board =
      ((p.board.set sq.row sq.col .empty).set mov.row mov.col (.full ⟨c, .pawn⟩)).set
        (capRow c mov.row) mov.col .empty := by
  unfold epBoard capRow
  have hb : ((({ p with promo := none, lastMove := some (sq, mov) } : Pos).swapColor h).unsetEp h |>.movePiece h sq mov).board
      = (p.board.set sq.row sq.col .empty).set mov.row mov.col (.full ⟨c, .pawn⟩) := by
    rw [movePiece_board_full h _ sq mov ⟨c, .pawn⟩ (by simp; exact hpc)]
    simp
  cases c <;> simp only <;> rw [hb]

theorem epBoard_fields (piece : Piece) (p : Pos) (sq mov : Point) :
    (epBoard h piece p sq mov).toMove = p.toMove.opp ∧ (epBoard h piece p sq mov).ep = none ∧
    (epBoard h piece p sq mov).lastMove = some (sq, mov) ∧ (epBoard h piece p sq mov).promo = none ∧
    (∀ ct, (epBoard h piece p sq mov).right ct = p.right ct) ∧
    (epBoard h piece p sq mov).wk = p.wk ∧ (epBoard h piece p sq mov).bk = p.bk := by
  unfold epBoard
  cases piece.color <;> simp only <;>
    refine ⟨by simp, by simp, by simp, by simp, fun ct => by cases ct <;> simp [Pos.right], by simp, by simp⟩

theorem ep_succ_abs (p : Pos) (lp : LP (abs p)) (o : Spec.Sq) (ho : InB o) (c : Color)
    (hpc : p.board.get (toPt o).row (toPt o).col = .full ⟨c, .pawn⟩) (hcol : c = p.toMove) (mov : Point)
    (hm : OnBoard mov) (hmv : pawnMovesEnPassant ⟨c, .pawn⟩ (toPt o).row (toPt o).col p = some mov) :
    Spec.isEnPassant (abs p) ⟨o, specOf mov, none⟩ = true ∧
    abs (epBoard h ⟨c, .pawn⟩ p (toPt o) mov) = Spec.apply (abs p) ⟨o, specOf mov, none⟩ := by
  have hto := toPt_onBoard o ho
  have hsrc : (abs p).at o = some ⟨c, .pawn⟩ := by rw [abs_at p o ho, hpc]; rfl
  obtain ⟨hep, hgeo⟩ := (pawnMovesEnPassant_iff ⟨c, .pawn⟩ _ _ p mov (by unfold toPt; simp only; omega)).mp hmv
  have hPep : (abs p).ep = some (specOf mov) := by rw [abs_ep, hep]; rfl
  obtain ⟨_, _, hempty, _, _⟩ := lp.ep _ hPep
  have hino := ho
  unfold InB at hino
  unfold OnBoard at hm
  -- geometry in specification coordinates
  have hfile : o.file ≠ (specOf mov).file := by
    unfold toPt at hgeo; unfold specOf; simp only at hgeo ⊢
    cases c <;> simp only at hgeo <;> omega
  have hisep : Spec.isEnPassant (abs p) ⟨o, specOf mov, none⟩ = true := by
    unfold Spec.isEnPassant
    simp only [hsrc, Bool.and_eq_true, beq_iff_eq, bne_iff_ne, ne_eq]
    exact ⟨⟨by rw [abs_side, ← hcol], hfile⟩, hempty⟩
  have hnc : Spec.isCastle (abs p) ⟨o, specOf mov, none⟩ = false := by
    unfold Spec.isCastle
    simp only [hsrc]
    have : (some (⟨c, .pawn⟩ : Piece) == some ⟨(abs p).side, .king⟩) = false := by
      cases c <;> cases (abs p).side <;> decide
    simp [this]
  refine ⟨hisep, ?_⟩
  rw [apply_ep (abs p) ⟨o, specOf mov, none⟩ _ hsrc hnc hisep]
  obtain ⟨f1, f2, _, _, f5, _, _⟩ := epBoard_fields h ⟨c, .pawn⟩ p (toPt o) mov
  -- the captured pawn's square
  have hcapOn : OnBoard ⟨capRow c mov.row, mov.col⟩ := by
    unfold toPt at hgeo; unfold OnBoard capRow; simp only at hgeo ⊢
    cases c <;> simp only at hgeo ⊢ <;> omega
  have hcapSq : specOf ⟨capRow c mov.row, mov.col⟩ = ⟨(specOf mov).file, o.rank⟩ := by
    unfold toPt at hgeo; unfold specOf capRow; simp only at hgeo ⊢
    cases c <;> simp only at hgeo ⊢ <;> (congr 1; omega)
  have hnotcorner : ∀ s : Spec.Sq, (s.rank = 0 ∨ s.rank = 7) → touchesSq ⟨o, specOf mov, none⟩ s = false := by
    intro s hs
    unfold touchesSq
    have h1 : (o == s) = false := by
      rw [beq_eq_false_iff_ne]; intro e; subst e
      unfold toPt at hgeo; simp only at hgeo
      cases c <;> simp only at hgeo <;> omega
    have h2 : (specOf mov == s) = false := by
      rw [beq_eq_false_iff_ne]; intro e; subst e
      unfold toPt at hgeo; unfold specOf at hs; simp only at hgeo hs
      cases c <;> simp only at hgeo <;> omega
    simp [h1, h2]
  have hnk : ∀ col : Color, ((⟨c, .pawn⟩ : Piece) == ⟨col, .king⟩) = false := by
    intro col; cases c <;> cases col <;> decide
  apply pos_ext
  · rw [abs_cells, epBoard_board h c p (toPt o) mov hpc]
    have h1 := put_absCells (abs p) p.board (abs_cells p) (toPt o) .empty hto
    have h2 := put_absCells _ _ h1 mov (.full ⟨c, .pawn⟩) (by unfold OnBoard; exact hm)
    have h3 := put_absCells _ _ h2 _ .empty hcapOn
    rw [specOf_toPt o ho, hcapSq] at h3
    exact h3.symm
  · show (epBoard h ⟨c, .pawn⟩ p (toPt o) mov).toMove = _
    rw [f1]; rfl
  · show (epBoard h ⟨c, .pawn⟩ p (toPt o) mov).right .wks = _
    rw [f5]; simp only [hnk, hnotcorner ⟨7, 0⟩ (Or.inl rfl), Bool.not_false, Bool.and_true]; rfl
  · show (epBoard h ⟨c, .pawn⟩ p (toPt o) mov).right .wqs = _
    rw [f5]; simp only [hnk, hnotcorner ⟨0, 0⟩ (Or.inl rfl), Bool.not_false, Bool.and_true]; rfl
  · show (epBoard h ⟨c, .pawn⟩ p (toPt o) mov).right .bks = _
    rw [f5]; simp only [hnk, hnotcorner ⟨7, 7⟩ (Or.inr rfl), Bool.not_false, Bool.and_true]; rfl
  · show (epBoard h ⟨c, .pawn⟩ p (toPt o) mov).right .bqs = _
    rw [f5]; simp only [hnk, hnotcorner ⟨0, 7⟩ (Or.inr rfl), Bool.not_false, Bool.and_true]; rfl
  · show ((epBoard h ⟨c, .pawn⟩ p (toPt o) mov).ep).map specOf = _
    rw [f2]
    unfold epAfter
    have : ¬ (Spec.iabs (((specOf mov).rank : Int) - o.rank) = 2) := by
      unfold toPt at hgeo; unfold specOf Spec.iabs; simp only at hgeo ⊢
      cases c <;> simp only at hgeo <;> omega
    simp [this]

end Walleye
