/-
  Legal positions are closed under legal moves (specification level), hence well-formedness is
  preserved by the generator: C01 / C02 / C13 hold along chains of any length.
-/
import Walleye.Proofs.SuccWF
namespace Walleye

theorem filter_length_one {α : Type} (f : α → Bool) (l : List α) (hnd : l.Nodup) (x : α) (hx : x ∈ l)
    (hfx : f x = true) (hu : ∀ y ∈ l, f y = true → y = x) : (l.filter f).length = 1 := by
  induction l with
  | nil => cases hx
  | cons a as ih =>
    have hnd' := (List.nodup_cons.mp hnd)
    by_cases ha : a = x
    · subst ha
      rw [List.filter_cons_of_pos hfx]
      have : as.filter f = [] := by
        rw [List.filter_eq_nil_iff]
        intro y hy hfy
        have := hu y (by simp [hy]) (by simpa using hfy)
        subst this
        exact hnd'.1 hy
      rw [this]; rfl
    · have hxa : x ∈ as := by
        rcases List.mem_cons.mp hx with e | e
        · exact absurd e.symm ha
        · exact e
      have hfa : f a = false := by
        cases hh : f a with
        | false => rfl
        | true => exact absurd (hu a (by simp) hh) ha
      rw [List.filter_cons_of_neg (by simp [hfa])]
      exact ih hnd'.2 hxa (fun y hy hfy => hu y (by simp [hy]) hfy)

theorem allSquares_nodup : Spec.allSquares.Nodup := by decide

/-- one king per colour in the abstraction of a position with right king caches -/
theorem kingSquares_length (q : Pos) (hr : RingOK q.board) (hk : KingsOK q) (c : Color) :
    (Spec.kingSquares (abs q) c).length = 1 := by
  obtain ⟨hfull, hu⟩ := hk c
  have hob : OnBoard (kingPt q c) := hr (kingPt q c).row (kingPt q c).col (by rw [hfull]; simp)
  unfold Spec.kingSquares
  apply filter_length_one _ _ allSquares_nodup (specOf (kingPt q c)) ((mem_allSquares _).mpr (specOf_inB _ hob))
  · rw [at_specOf q _ hob, hfull]; simp [squareToOpt]
  · intro y hy hfy
    have hin := (mem_allSquares y).mp hy
    have : (abs q).at y = some ⟨c, .king⟩ := by simpa using hfy
    have hg := get_of_at q y hin _ this
    have := hu _ _ hg
    rw [← this]
    exact (specOf_toPt y hin).symm

/-! ### the content of every square after a move -/

theorem at_normal (P : Spec.Position) (hsz : P.cells.size = 64) (m : Spec.Move) (pc : Piece) (hsrc : P.at m.src = some pc)
    (hc : Spec.isCastle P m = false) (he : Spec.isEnPassant P m = false) (ho : InB m.src) (ht : InB m.dst) (s : Spec.Sq) :
    (Spec.apply P m).at s =
      if s = m.dst then some (landed P.side pc m.promo) else if s = m.src then none else P.at s := by
  rw [apply_normal P m pc hsrc hc he]
  have e : ∀ X : Spec.Position, ∀ a b c d f g, ({ X with side := a, wks := b, wqs := c, bks := d, bqs := f, ep := g } : Spec.Position).at s = X.at s :=
    fun X a b c d f g => rfl
  rw [e, at_put _ (by rw [put_size, hsz]) _ _ _ ht, at_put _ hsz _ _ _ ho]

theorem at_ep (P : Spec.Position) (hsz : P.cells.size = 64) (m : Spec.Move) (pc : Piece) (hsrc : P.at m.src = some pc)
    (hc : Spec.isCastle P m = false) (he : Spec.isEnPassant P m = true) (ho : InB m.src) (ht : InB m.dst) (s : Spec.Sq) :
    (Spec.apply P m).at s =
      if s = ⟨m.dst.file, m.src.rank⟩ then none
      else if s = m.dst then some (landed P.side pc m.promo) else if s = m.src then none else P.at s := by
  rw [apply_ep P m pc hsrc hc he]
  have e : ∀ X : Spec.Position, ∀ a b c d f g, ({ X with side := a, wks := b, wqs := c, bks := d, bqs := f, ep := g } : Spec.Position).at s = X.at s :=
    fun X a b c d f g => rfl
  have hcap : InB ⟨m.dst.file, m.src.rank⟩ := by unfold InB at *; exact ⟨ht.1, ho.2⟩
  rw [e, at_put _ (by rw [put_size, put_size, hsz]) _ _ _ hcap, at_put _ (by rw [put_size, hsz]) _ _ _ ht, at_put _ hsz _ _ _ ho]

theorem at_castle (P : Spec.Position) (hsz : P.cells.size = 64) (ct : CastlingType) (hside : P.side = rightColor ct)
    (hsrc : P.at (castleMove ct).src = some ⟨rightColor ct, .king⟩)
    (hc : Spec.isCastle P (castleMove ct) = true) (he : Spec.isEnPassant P (castleMove ct) = false) (s : Spec.Sq) :
    (Spec.apply P (castleMove ct)).at s =
      match ct with
      | .wks => if s = ⟨5, 0⟩ then some ⟨.white, .rook⟩ else if s = ⟨7, 0⟩ then none else if s = ⟨6, 0⟩ then some ⟨.white, .king⟩ else if s = ⟨4, 0⟩ then none else P.at s
      | .wqs => if s = ⟨3, 0⟩ then some ⟨.white, .rook⟩ else if s = ⟨0, 0⟩ then none else if s = ⟨2, 0⟩ then some ⟨.white, .king⟩ else if s = ⟨4, 0⟩ then none else P.at s
      | .bks => if s = ⟨5, 7⟩ then some ⟨.black, .rook⟩ else if s = ⟨7, 7⟩ then none else if s = ⟨6, 7⟩ then some ⟨.black, .king⟩ else if s = ⟨4, 7⟩ then none else P.at s
      | .bqs => if s = ⟨3, 7⟩ then some ⟨.black, .rook⟩ else if s = ⟨0, 7⟩ then none else if s = ⟨2, 7⟩ then some ⟨.black, .king⟩ else if s = ⟨4, 7⟩ then none else P.at s := by
  rw [apply_castle P (castleMove ct) _ hsrc hc he]
  have e : ∀ X : Spec.Position, ∀ a b c d f g, ({ X with side := a, wks := b, wqs := c, bks := d, bqs := f, ep := g } : Spec.Position).at s = X.at s :=
    fun X a b c d f g => rfl
  rw [e]
  cases ct <;> simp only [castleMove, rightColor] at hside ⊢ <;> rw [hside] <;>
    simp only [beq_self_eq_true, if_true, landed, show ((2 : Nat) == 6) = false from by decide, Bool.false_eq_true, if_false] <;>
    rw [at_put _ (by rw [put_size, put_size, put_size, hsz]) _ _ _ (by decide),
      at_put _ (by rw [put_size, put_size, hsz]) _ _ _ (by decide),
      at_put _ (by rw [put_size, hsz]) _ _ _ (by decide), at_put _ hsz _ _ _ (by decide)]

/-! ### side, rights and en passant target after any move -/

theorem apply_fields (P : Spec.Position) (m : Spec.Move) (pc : Piece) (hsrc : P.at m.src = some pc) :
    (Spec.apply P m).side = P.side.opp ∧
    (Spec.apply P m).wks = (P.wks && !(pc == ⟨.white, .king⟩) && !touchesSq m ⟨7, 0⟩) ∧
    (Spec.apply P m).wqs = (P.wqs && !(pc == ⟨.white, .king⟩) && !touchesSq m ⟨0, 0⟩) ∧
    (Spec.apply P m).bks = (P.bks && !(pc == ⟨.black, .king⟩) && !touchesSq m ⟨7, 7⟩) ∧
    (Spec.apply P m).bqs = (P.bqs && !(pc == ⟨.black, .king⟩) && !touchesSq m ⟨0, 7⟩) ∧
    (Spec.apply P m).ep = epAfter P.side pc m := by
  unfold Spec.apply
  rw [hsrc]
  exact ⟨rfl, rfl, rfl, rfl, rfl, rfl⟩

/-! ### specification-level facts about ordinary moves -/

/-- an ordinary move never lands on a king (the opponent is not in check) -/
theorem spec_no_king_capture (P : Spec.Position) (lp : LP P) (o t : Spec.Sq) (ho : InB o) (ht : InB t) (pc : Piece)
    (hsrc : P.at o = some pc) (hcol : pc.color = P.side) (hrule : normalRule P o pc t = true) (c : Color) :
    P.at t ≠ some ⟨c, .king⟩ := by
  intro hdst
  unfold normalRule at hrule
  simp only [Bool.and_eq_true] at hrule
  obtain ⟨hfree, hkr⟩ := hrule
  unfold tgtFree at hfree
  rw [hdst] at hfree
  have hne : c ≠ pc.color := by simpa using hfree
  have hcopp : c = P.side.opp := by
    rw [← hcol]; cases c <;> cases hx : pc.color <;> simp_all [Color.opp]
  have hatt : Spec.attacksFrom P o pc t = true := by
    obtain ⟨pcc, pk⟩ := pc
    cases pk with
    | pawn =>
      simp only at hkr
      by_cases hf : o.file = t.file
      · have hif : (o.file == t.file) = true := by simp [hf]
        rw [if_pos hif] at hkr
        simp only [Bool.and_eq_true] at hkr
        rw [hdst] at hkr; simp at hkr
      · have hif : ¬ (o.file == t.file) = true := by simp [hf]
        rw [if_neg hif] at hkr
        simp only [Bool.and_eq_true] at hkr
        exact hkr.1
    | _ => exact hkr
  have hin := attacked_of P P.side o t pc ho hsrc hcol hatt
  have hnc := lp.notInCheck
  have : Spec.inCheck P P.side.opp = true := by
    unfold Spec.inCheck Spec.kingSquares
    rw [List.any_eq_true]
    refine ⟨t, ?_, by rw [Color.opp_opp]; exact hin⟩
    rw [List.mem_filter]
    exact ⟨(mem_allSquares _).mpr ht, by rw [hdst, hcopp]; simp⟩
  rw [this] at hnc; cases hnc

/-- an ordinary move goes somewhere else -/
theorem normal_src_ne_dst (P : Spec.Position) (o t : Spec.Sq) (pc : Piece) (hsrc : P.at o = some pc)
    (hrule : normalRule P o pc t = true) : o ≠ t := by
  intro e
  subst e
  unfold normalRule at hrule
  simp only [Bool.and_eq_true] at hrule
  have hfree := hrule.1
  unfold tgtFree at hfree
  rw [hsrc] at hfree
  simp at hfree

/-- one castling right after a move: the king and the rook it refers to are still at home -/
theorem right_clause (P Q : Spec.Position) (m : Spec.Move) (pc : Piece) (col : Color) (ksq corner : Spec.Sq)
    (r r' : Bool) (hsrc : P.at m.src = some pc)
    (hP : r = true → P.at ksq = some ⟨col, .king⟩ ∧ P.at corner = some ⟨col, .rook⟩)
    (hQ : r' = (r && !(pc == ⟨col, .king⟩) && !touchesSq m corner))
    (hdst : r = true → m.dst ≠ ksq)
    (hK : m.src ≠ ksq → m.dst ≠ ksq → pc ≠ ⟨col, .king⟩ → Q.at ksq = P.at ksq)
    (hR : m.src ≠ corner → m.dst ≠ corner → pc ≠ ⟨col, .king⟩ → Q.at corner = P.at corner) :
    r' = true → Q.at ksq = some ⟨col, .king⟩ ∧ Q.at corner = some ⟨col, .rook⟩ := by
  intro hr'
  rw [hQ] at hr'
  simp only [Bool.and_eq_true, Bool.not_eq_true', beq_eq_false_iff_ne, ne_eq] at hr'
  obtain ⟨⟨hr, hpk⟩, htc⟩ := hr'
  obtain ⟨pK, pR⟩ := hP hr
  unfold touchesSq at htc
  simp only [Bool.or_eq_false_iff, beq_eq_false_iff_ne, ne_eq] at htc
  have hsk : m.src ≠ ksq := by
    intro e; rw [e, pK] at hsrc; injection hsrc with hsrc; exact hpk hsrc.symm
  exact ⟨by rw [hK hsk (hdst hr) hpk]; exact pK, by rw [hR htc.1 htc.2 hpk]; exact pR⟩

/-- what the rule says about the ranks of a pawn move -/
theorem pawn_rule_facts (P : Spec.Position) (o t : Spec.Sq) (c : Color) (hrule : normalRule P o ⟨c, .pawn⟩ t = true) :
    ((t.rank : Int) - o.rank = Spec.fwd c) ∨
    ((t.rank : Int) - o.rank = 2 * Spec.fwd c ∧ o.rank = Spec.pawnStartRank c ∧ o.file = t.file ∧
      (P.at ⟨o.file, ((o.rank : Int) + Spec.fwd c).toNat⟩).isNone = true) := by
  unfold normalRule at hrule
  simp only [Bool.and_eq_true] at hrule
  obtain ⟨_, hr⟩ := hrule
  by_cases hf : o.file = t.file
  · have hif : (o.file == t.file) = true := by simp [hf]
    rw [if_pos hif] at hr
    simp only [Bool.and_eq_true, Bool.or_eq_true] at hr
    rcases hr.2 with h' | h'
    · exact Or.inl (of_decide_eq_true h')
    · exact Or.inr ⟨of_decide_eq_true h'.1.1, by simpa using h'.1.2, hf, h'.2⟩
  · have hif : ¬ (o.file == t.file) = true := by simp [hf]
    rw [if_neg hif] at hr
    unfold Spec.attacksFrom at hr
    simp only [Bool.and_eq_true, decide_eq_true_eq] at hr
    exact Or.inl hr.1.1

theorem promoKinds_not_pawn (k : Kind) (h : Spec.promoKinds.contains k = true) : k ≠ .pawn ∧ k ≠ .king := by
  cases k <;> simp [Spec.promoKinds] at h ⊢

theorem lp_normal (P : Spec.Position) (hsz : P.cells.size = 64) (lp : LP P) (m : Spec.Move) (pc : Piece)
    (hsrc : P.at m.src = some pc) (hcol : pc.color = P.side) (ho : InB m.src) (ht : InB m.dst)
    (hrule : normalRule P m.src pc m.dst = true) (hpo : promoOK P.side pc m.dst m.promo = true)
    (hkw : (Spec.kingSquares (Spec.apply P m) .white).length = 1)
    (hkb : (Spec.kingSquares (Spec.apply P m) .black).length = 1)
    (hsafe : Spec.inCheck (Spec.apply P m) P.side = false) : LP (Spec.apply P m) := by
  have hnc := not_castle P m.src m.dst pc m.promo hsrc hrule
  have hne := not_ep P m.src m.dst pc m.promo hsrc hrule
  rw [← move_eta m] at hnc hne
  have hat := at_normal P hsz m pc hsrc hnc hne ho ht
  obtain ⟨fs, fwks, fwqs, fbks, fbqs, fep⟩ := apply_fields P m pc hsrc
  have hsd := normal_src_ne_dst P m.src m.dst pc hsrc hrule
  have hnk := spec_no_king_capture P lp m.src m.dst ho ht pc hsrc hcol hrule
  -- squares away from origin and destination are untouched
  have hother : ∀ s, m.src ≠ s → m.dst ≠ s → (Spec.apply P m).at s = P.at s := by
    intro s h1 h2
    rw [hat s, if_neg (fun e => h2 e.symm), if_neg (fun e => h1 e.symm)]
  have hdstat : (Spec.apply P m).at m.dst = some (landed P.side pc m.promo) := by rw [hat m.dst, if_pos rfl]
  have hsrcat : (Spec.apply P m).at m.src = none := by rw [hat m.src, if_neg hsd, if_pos rfl]
  have rc : ∀ (col : Color) (ksq corner : Spec.Sq) (r r' : Bool),
      (r = true → P.at ksq = some ⟨col, .king⟩ ∧ P.at corner = some ⟨col, .rook⟩) →
      r' = (r && !(pc == ⟨col, .king⟩) && !touchesSq m corner) →
      r' = true → (Spec.apply P m).at ksq = some ⟨col, .king⟩ ∧ (Spec.apply P m).at corner = some ⟨col, .rook⟩ := by
    intro col ksq corner r r' hP hQ
    exact right_clause P _ m pc col ksq corner r r' hsrc hP hQ
      (fun hr e => hnk col (by rw [e]; exact (hP hr).1))
      (fun h1 h2 _ => hother ksq h1 h2) (fun h1 h2 _ => hother corner h1 h2)
  refine ⟨hkw, hkb, by rw [fs, Color.opp_opp]; exact hsafe, ?_, rc .white ⟨4, 0⟩ ⟨7, 0⟩ _ _ lp.wks fwks,
    rc .white ⟨4, 0⟩ ⟨0, 0⟩ _ _ lp.wqs fwqs, rc .black ⟨4, 7⟩ ⟨7, 7⟩ _ _ lp.bks fbks, rc .black ⟨4, 7⟩ ⟨0, 7⟩ _ _ lp.bqs fbqs, ?_⟩
  · -- no pawn on the first or last rank
    intro s hs hrk
    by_cases e2 : m.dst = s
    · subst e2
      rw [hdstat]
      -- the piece that lands is not a pawn when the destination is rank 0 or 7
      have hnp : (landed P.side pc m.promo).kind ≠ .pawn := by
        unfold landed promoOK at *
        cases hpm : m.promo with
        | some k =>
          rw [hpm] at hpo
          simp only
          by_cases hpw : pc.kind = .pawn
          · simp only [hpw, beq_self_eq_true, if_true] at hpo
            split at hpo
            · exact (promoKinds_not_pawn k hpo).1
            · cases hpo
          · have : (pc.kind == Kind.pawn) = false := by simpa using hpw
            simp [this] at hpo
        | none =>
          rw [hpm] at hpo
          simp only
          intro hpw
          obtain ⟨c, k⟩ := pc
          simp only at hpw hcol
          subst hpw
          rw [← hcol] at hpo
          simp only [beq_self_eq_true, if_true] at hpo
          have hnl : m.dst.rank ≠ Spec.lastRank c := by
            intro hl; simp [hl] at hpo
          have hin := ho; unfold InB at hin
          rcases pawn_rule_facts P m.src m.dst c hrule with h1 | ⟨h1, h2, _, _⟩ <;>
            cases c <;> simp only [Spec.fwd, Spec.lastRank, Spec.pawnStartRank] at * <;> omega
      constructor <;> (intro hx; injection hx with hx; rw [hx] at hnp; exact hnp rfl)
    · by_cases e1 : m.src = s
      · subst e1; rw [hsrcat]; exact ⟨by simp, by simp⟩
      · rw [hother s e1 e2]; exact lp.pawns s hs hrk
  · -- the en passant target after a double step
    intro e he
    rw [fep] at he
    unfold epAfter at he
    split at he
    · rename_i hcond
      simp only [Bool.and_eq_true, beq_iff_eq] at hcond
      obtain ⟨hpk, h2⟩ := hcond
      injection he with he
      subst he
      obtain ⟨c, k⟩ := pc
      simp only at hpk hcol
      subst hpk
      rw [← hcol] at hpo fep ⊢
      have hin := ho; unfold InB at hin
      have hit := ht; unfold InB at hit
      unfold Spec.iabs at h2
      rcases pawn_rule_facts P m.src m.dst c hrule with h1 | ⟨h1, hst, hfile, hmid⟩
      · exfalso; cases c <;> simp only [Spec.fwd] at h1 <;> omega
      · rw [fs, Color.opp_opp, ← hcol]
        -- the destination is two ranks ahead on the same file, no promotion
        have hpn : m.promo = none := by
          unfold promoOK at hpo
          simp only [beq_self_eq_true, if_true] at hpo
          have : (m.dst.rank == Spec.lastRank c) = false := by
            rw [beq_eq_false_iff_ne]
            cases c <;> simp only [Spec.fwd, Spec.lastRank, Spec.pawnStartRank] at * <;> omega
          simp only [this, Bool.false_eq_true, if_false] at hpo
          cases hx : m.promo <;> simp_all
        have hdsteq : m.dst = ⟨m.src.file, (((⟨m.src.file, ((m.src.rank : Int) + Spec.fwd c).toNat⟩ : Spec.Sq).rank : Int) + Spec.fwd c).toNat⟩ := by
          cases hd : m.dst with
          | mk df dr =>
            rw [hd] at h1 hfile
            simp only at h1 hfile ⊢
            congr 1
            · exact hfile.symm
            · cases c <;> simp only [Spec.fwd] at h1 ⊢ <;> omega
        have hsrceq : m.src = ⟨m.src.file, (((⟨m.src.file, ((m.src.rank : Int) + Spec.fwd c).toNat⟩ : Spec.Sq).rank : Int) - Spec.fwd c).toNat⟩ := by
          cases hs' : m.src with
          | mk sf sr =>
            simp only
            congr 1
            rw [hs'] at hin hst
            simp only at hin hst
            cases c <;> simp only [Spec.fwd, Spec.pawnStartRank] at hst ⊢ <;> omega
        refine ⟨hin.1, ?_, ?_, ?_, ?_⟩
        · cases c <;> simp only [Spec.fwd, Spec.pawnStartRank] at hst ⊢ <;> omega
        · -- the skipped square is still empty
          have n1 : m.src ≠ (⟨m.src.file, ((m.src.rank : Int) + Spec.fwd c).toNat⟩ : Spec.Sq) := by
            intro e; have := congrArg Spec.Sq.rank e; simp only at this
            cases c <;> simp only [Spec.fwd, Spec.pawnStartRank] at this hst <;> omega
          have n2 : m.dst ≠ (⟨m.src.file, ((m.src.rank : Int) + Spec.fwd c).toNat⟩ : Spec.Sq) := by
            intro e; have := congrArg Spec.Sq.rank e; simp only at this
            cases c <;> simp only [Spec.fwd] at this h1 <;> omega
          rw [hother _ n1 n2]; exact hmid
        · rw [← hdsteq, hdstat, hpn]; rfl
        · rw [← hsrceq, hsrcat]; rfl
    · cases he

theorem lp_ep (P : Spec.Position) (hsz : P.cells.size = 64) (lp : LP P) (m : Spec.Move) (c : Color)
    (hsrc : P.at m.src = some ⟨c, .pawn⟩) (hcol : c = P.side) (ho : InB m.src) (ht : InB m.dst)
    (hfile : m.src.file ≠ m.dst.file) (hatt : Spec.attacksFrom P m.src ⟨c, .pawn⟩ m.dst = true)
    (hnone : (P.at m.dst).isSome = false) (hep : P.ep = some m.dst) (hpn : m.promo = none)
    (hkw : (Spec.kingSquares (Spec.apply P m) .white).length = 1)
    (hkb : (Spec.kingSquares (Spec.apply P m) .black).length = 1)
    (hsafe : Spec.inCheck (Spec.apply P m) P.side = false) : LP (Spec.apply P m) := by
  have hdn : P.at m.dst = none := by cases hx : P.at m.dst <;> simp_all
  have hisep : Spec.isEnPassant P m = true := by
    unfold Spec.isEnPassant
    simp only [hsrc, hcol, hdn, beq_self_eq_true, Bool.true_and, Option.isNone_none, Bool.and_true, bne_iff_ne, ne_eq]
    exact hfile
  have hnc : Spec.isCastle P m = false := by
    unfold Spec.isCastle
    simp only [hsrc]
    have : (some (⟨c, .pawn⟩ : Piece) == some ⟨P.side, .king⟩) = false := by
      cases c <;> cases P.side <;> decide
    simp [this]
  have hat := at_ep P hsz m _ hsrc hnc hisep ho ht
  obtain ⟨fs, fwks, fwqs, fbks, fbqs, fep⟩ := apply_fields P m _ hsrc
  obtain ⟨_, hrank, _, _, _⟩ := lp.ep _ hep
  unfold Spec.attacksFrom Spec.iabs at hatt
  simp only [Bool.and_eq_true, decide_eq_true_eq, beq_iff_eq] at hatt
  have hin := ho; unfold InB at hin
  have hit := ht; unfold InB at hit
  rw [← hcol] at hrank
  -- ranks: origin on the fifth rank, destination on the sixth (from the mover's side)
  have hranks : (c = .white ∧ m.src.rank = 4 ∧ m.dst.rank = 5) ∨ (c = .black ∧ m.src.rank = 3 ∧ m.dst.rank = 2) := by
    cases c
    · simp only [Spec.fwd, Color.opp] at hatt hrank; left; exact ⟨rfl, by omega, by omega⟩
    · simp only [Spec.fwd, Color.opp] at hatt hrank; right; exact ⟨rfl, by omega, by omega⟩
  -- squares on the first or last rank are untouched
  have hedge : ∀ s : Spec.Sq, (s.rank = 0 ∨ s.rank = 7) → (Spec.apply P m).at s = P.at s := by
    intro s hs
    rw [hat s]
    have n1 : s ≠ ⟨m.dst.file, m.src.rank⟩ := by
      intro e; have := congrArg Spec.Sq.rank e; simp only at this; rcases hranks with ⟨_, a, _⟩ | ⟨_, a, _⟩ <;> omega
    have n2 : s ≠ m.dst := by
      intro e; have := congrArg Spec.Sq.rank e; rcases hranks with ⟨_, _, a⟩ | ⟨_, _, a⟩ <;> omega
    have n3 : s ≠ m.src := by
      intro e; have := congrArg Spec.Sq.rank e; rcases hranks with ⟨_, a, _⟩ | ⟨_, a, _⟩ <;> omega
    rw [if_neg n1, if_neg n2, if_neg n3]
  have rc : ∀ (col : Color) (ksq corner : Spec.Sq) (r r' : Bool), (ksq.rank = 0 ∨ ksq.rank = 7) → (corner.rank = 0 ∨ corner.rank = 7) →
      (r = true → P.at ksq = some ⟨col, .king⟩ ∧ P.at corner = some ⟨col, .rook⟩) →
      r' = (r && !((⟨c, .pawn⟩ : Piece) == ⟨col, .king⟩) && !touchesSq m corner) →
      r' = true → (Spec.apply P m).at ksq = some ⟨col, .king⟩ ∧ (Spec.apply P m).at corner = some ⟨col, .rook⟩ := by
    intro col ksq corner r r' hk1 hk2 hP hQ
    exact right_clause P _ m _ col ksq corner r r' hsrc hP hQ
      (fun hr e => by rw [e, (hP hr).1] at hdn; cases hdn)
      (fun _ _ _ => hedge ksq hk1) (fun _ _ _ => hedge corner hk2)
  refine ⟨hkw, hkb, by rw [fs, Color.opp_opp]; exact hsafe, ?_,
    rc .white ⟨4, 0⟩ ⟨7, 0⟩ _ _ (Or.inl rfl) (Or.inl rfl) lp.wks fwks,
    rc .white ⟨4, 0⟩ ⟨0, 0⟩ _ _ (Or.inl rfl) (Or.inl rfl) lp.wqs fwqs,
    rc .black ⟨4, 7⟩ ⟨7, 7⟩ _ _ (Or.inr rfl) (Or.inr rfl) lp.bks fbks,
    rc .black ⟨4, 7⟩ ⟨0, 7⟩ _ _ (Or.inr rfl) (Or.inr rfl) lp.bqs fbqs, ?_⟩
  · intro s hs hrk
    rw [hedge s hrk]; exact lp.pawns s hs hrk
  · intro e he
    rw [fep] at he
    unfold epAfter Spec.iabs at he
    have : ¬ (((m.dst.rank : Int) - m.src.rank).natAbs = 2) := by
      rcases hranks with ⟨_, a, b⟩ | ⟨_, a, b⟩ <;> omega
    simp [this] at he

theorem lp_castle (P : Spec.Position) (hsz : P.cells.size = 64) (lp : LP P) (ct : CastlingType)
    (hside : P.side = rightColor ct) (hsrc : P.at (castleMove ct).src = some ⟨rightColor ct, .king⟩)
    (hic : Spec.isCastle P (castleMove ct) = true)
    (hkw : (Spec.kingSquares (Spec.apply P (castleMove ct)) .white).length = 1)
    (hkb : (Spec.kingSquares (Spec.apply P (castleMove ct)) .black).length = 1)
    (hsafe : Spec.inCheck (Spec.apply P (castleMove ct)) P.side = false) : LP (Spec.apply P (castleMove ct)) := by
  have hne : Spec.isEnPassant P (castleMove ct) = false := by
    unfold Spec.isEnPassant
    rw [hsrc]
    have : (some (⟨rightColor ct, .king⟩ : Piece) == some ⟨P.side, .pawn⟩) = false := by
      cases ct <;> cases P.side <;> decide
    simp [this]
  have hat := at_castle P hsz ct hside hsrc hic hne
  obtain ⟨fs, fwks, fwqs, fbks, fbqs, fep⟩ := apply_fields P (castleMove ct) _ hsrc
  -- squares on the other home rank are untouched
  have hother : ∀ s : Spec.Sq, s.rank = Spec.homeRank (rightColor ct).opp → (Spec.apply P (castleMove ct)).at s = P.at s := by
    intro s hs
    rw [hat s]
    have ne_of_rank : ∀ (f r : Nat), s.rank ≠ r → s ≠ (⟨f, r⟩ : Spec.Sq) := fun f r hne e => by
      rw [e] at hne; exact hne rfl
    cases ct <;> simp only [rightColor, Color.opp, Spec.homeRank] at hs ⊢ <;>
      rw [if_neg (ne_of_rank _ _ (by omega)), if_neg (ne_of_rank _ _ (by omega)), if_neg (ne_of_rank _ _ (by omega)),
        if_neg (ne_of_rank _ _ (by omega))]
  have rc : ∀ (col : Color) (ksq corner : Spec.Sq) (r r' : Bool), ksq.rank = Spec.homeRank col → corner.rank = Spec.homeRank col →
      (r = true → P.at ksq = some ⟨col, .king⟩ ∧ P.at corner = some ⟨col, .rook⟩) →
      r' = (r && !((⟨rightColor ct, .king⟩ : Piece) == ⟨col, .king⟩) && !touchesSq (castleMove ct) corner) →
      r' = true → (Spec.apply P (castleMove ct)).at ksq = some ⟨col, .king⟩ ∧
        (Spec.apply P (castleMove ct)).at corner = some ⟨col, .rook⟩ := by
    intro col ksq corner r r' hk1 hk2 hP hQ
    by_cases hcc : col = rightColor ct
    · -- the castling side loses both rights
      intro hr'
      rw [hQ, hcc] at hr'
      simp at hr'
    · have hopp : col = (rightColor ct).opp := by cases col <;> cases hx : rightColor ct <;> simp_all [Color.opp]
      exact right_clause P _ (castleMove ct) _ col ksq corner r r' hsrc hP hQ
        (fun hr e => by
          have := congrArg Spec.Sq.rank e
          rw [hk1, hopp] at this
          cases ct <;> simp [castleMove, rightColor, Color.opp, Spec.homeRank] at this)
        (fun _ _ _ => hother ksq (by rw [hk1, hopp])) (fun _ _ _ => hother corner (by rw [hk2, hopp]))
  refine ⟨hkw, hkb, by rw [fs, Color.opp_opp]; exact hsafe, ?_,
    rc .white ⟨4, 0⟩ ⟨7, 0⟩ _ _ rfl rfl lp.wks fwks, rc .white ⟨4, 0⟩ ⟨0, 0⟩ _ _ rfl rfl lp.wqs fwqs,
    rc .black ⟨4, 7⟩ ⟨7, 7⟩ _ _ rfl rfl lp.bks fbks, rc .black ⟨4, 7⟩ ⟨0, 7⟩ _ _ rfl rfl lp.bqs fbqs, ?_⟩
  · intro s hs hrk
    rw [hat s]
    have hp := lp.pawns s hs hrk
    cases ct <;> simp only <;> (repeat' split) <;> first | exact hp | exact ⟨by simp, by simp⟩ | exact ⟨by decide, by decide⟩
  · intro e he
    rw [fep] at he
    unfold epAfter at he
    have : ((⟨rightColor ct, Kind.king⟩ : Piece).kind == Kind.pawn) = false := by show (Kind.king == Kind.pawn) = false; decide
    simp [this] at he

/-- **legal positions are closed under legal moves** (specification level; the king counts of the
    result are supplied by the caller) -/
theorem lp_apply (P : Spec.Position) (hsz : P.cells.size = 64) (lp : LP P) (m : Spec.Move) (hlegal : Spec.legal P m = true)
    (hkw : (Spec.kingSquares (Spec.apply P m) .white).length = 1)
    (hkb : (Spec.kingSquares (Spec.apply P m) .black).length = 1) : LP (Spec.apply P m) := by
  unfold Spec.legal at hlegal
  simp only [Bool.and_eq_true, Bool.not_eq_true'] at hlegal
  obtain ⟨hps, hsafe⟩ := hlegal
  obtain ⟨ho, ht, pc, hsrc, hcol, hcase⟩ := pseudoLegal_cases P m hps
  rcases hcase with ⟨hrule, hpo⟩ | ⟨hk, hfile, hatt, hnone, hep, hpo⟩ | ⟨hk, hpn, hic, _⟩
  · exact lp_normal P hsz lp m pc hsrc hcol ho ht hrule hpo hkw hkb hsafe
  · obtain ⟨c, k⟩ := pc
    simp only at hk hcol
    subst hk
    -- an en passant target is never on the last rank, so no promotion flag
    have hpn : m.promo = none := by
      obtain ⟨_, hrank, _, _, _⟩ := lp.ep _ hep
      unfold promoOK at hpo
      have hl : (m.dst.rank == Spec.lastRank P.side) = false := by
        rw [beq_eq_false_iff_ne]
        cases hs : P.side <;> rw [hs] at hrank <;> simp only [Spec.lastRank, Color.opp] at hrank ⊢ <;> omega
      simp only [beq_self_eq_true, if_true, hl, Bool.false_eq_true, if_false] at hpo
      cases hx : m.promo <;> simp_all
    exact lp_ep P hsz lp m c hsrc hcol ho ht hfile hatt hnone hep hpn hkw hkb hsafe
  · obtain ⟨ct, hm, hside, hK⟩ := castle_type P m hpn hic
    subst hm
    exact lp_castle P hsz lp ct hside hK hic hkw hkb hsafe

variable (h : Hasher)

/-- **well-formedness is preserved by the generator**: every successor of a well-formed position
    that satisfies the chain invariant is again well-formed and satisfies the chain invariant -/
theorem generateMoves_wf (p : Pos) (wf : WFp p) (hinv : Inv h p) :
    ∀ q ∈ generateMoves h p .all, WFp q ∧ Inv h q := by
  intro q hq
  obtain ⟨hinvq, _, _⟩ := generateMoves_inv h p .all hinv q hq
  obtain ⟨hiq, hkq⟩ := generateMoves_wf_model h p wf q hq
  obtain ⟨hlegal, habs⟩ := generateMoves_sound h p wf q hq
  have hkw := kingSquares_length q hinvq.ring hkq .white
  have hkb := kingSquares_length q hinvq.ring hkq .black
  rw [habs] at hkw hkb
  have lpq : LP (abs q) := by
    rw [habs]
    exact lp_apply (abs p) (abs_size p) wf.lp (moveOf q) hlegal hkw hkb
  exact ⟨⟨hinvq.ring, hiq, hkq, lpq, fun t ht => (hinvq.ep t ht).1⟩, hinvq⟩

end Walleye
