/-
  The acts of the search thread of one `go`, read off the reports of its run (Model/Search): a `sent m`
  directly followed by `info i` is an accepted improvement (one critical section in engine.rs), any other
  `sent` is a plain send (the fall-back board).  Their info lines are exactly the info lines of the run
  (`Paired`), their boards are boards the run sent.
-/
import Walleye.Proofs.Handover
import Walleye.Proofs.Paired
namespace Walleye

open Handover

variable {P O : Type}

/-- the pending `sent` board (not yet known to be an improvement) and the remaining reports -/
def actsAux : Option P → List (Report P) → List (Act P Info)
  | none, [] => []
  | some m, [] => [.fallback m]
  | none, .sent m :: rest => actsAux (some m) rest
  | some m0, .sent m :: rest => .fallback m0 :: actsAux (some m) rest
  | some m, .info i :: rest => .accept m i :: actsAux none rest
  | none, .info _ :: rest => actsAux none rest

def actsOf (rs : Array (Report P)) : List (Act P Info) := actsAux none rs.toList

theorem infos_actsAux : ∀ (l : List (Report P)) (o : Option P),
    infos (actsAux o l) = (pairsAux o l).map (fun p => Handover.Line.info p.2) := by
  intro l
  induction l with
  | nil => intro o; cases o <;> rfl
  | cons x xs ih =>
    intro o
    cases x with
    | sent m =>
      cases o with
      | none => simp only [actsAux, pairsAux]; exact ih _
      | some m0 => simp only [actsAux, pairsAux, infos]; exact ih _
    | info i =>
      cases o with
      | none => simp only [actsAux, pairsAux]; exact ih _
      | some m0 => simp only [actsAux, pairsAux, infos, List.map_cons, ih]

theorem boards_actsAux : ∀ (l : List (Report P)) (o : Option P) (b : P),
    b ∈ boards (actsAux o l) → o = some b ∨ Report.sent b ∈ l := by
  intro l
  induction l with
  | nil =>
    intro o b hb
    cases o with
    | none => cases hb
    | some m => simp [actsAux, boards, Act.board] at hb; exact .inl (by rw [hb])
  | cons x xs ih =>
    intro o b hb
    cases x with
    | sent m =>
      cases o with
      | none =>
        simp only [actsAux] at hb
        rcases ih _ b hb with h | h
        · injection h with h; exact .inr (by rw [h]; exact List.mem_cons_self ..)
        · exact .inr (List.mem_cons_of_mem _ h)
      | some m0 =>
        simp only [actsAux, boards, List.map_cons, List.mem_cons, Act.board] at hb
        rcases hb with h | h
        · exact .inl (by rw [h])
        · rcases ih _ b h with h' | h'
          · injection h' with h'; exact .inr (by rw [h']; exact List.mem_cons_self ..)
          · exact .inr (List.mem_cons_of_mem _ h')
    | info i =>
      cases o with
      | none =>
        simp only [actsAux] at hb
        rcases ih _ b hb with h | h
        · cases h
        · exact .inr (List.mem_cons_of_mem _ h)
      | some m0 =>
        simp only [actsAux, boards, List.map_cons, List.mem_cons, Act.board] at hb
        rcases hb with h | h
        · exact .inl (by rw [h])
        · rcases ih _ b h with h' | h'
          · cases h'
          · exact .inr (List.mem_cons_of_mem _ h')

/-- the info lines of the acts are the info lines of the run -/
theorem infos_actsOf (s : SS P O) (hp : Paired s) :
    infos (actsOf s.reports) = (infosOf s.reports).map Handover.Line.info := by
  unfold actsOf
  rw [infos_actsAux, ← hp]
  unfold infosOfB
  rw [List.map_map]
  rfl

theorem infos_prefix (d r : List (Act P Info)) : infos d <+: infos (d ++ r) := by
  rw [infos_append]; exact List.prefix_append ..

end Walleye
