/-
  C12 — shallow search returns the exact minimax value of its own evaluation.
  SPEC: `Spec.negamax` (plain minimax with check extension, capture quiescence, mate and repetition
  scoring).  The executable oracle used by the check is `Spec.fast` (plain fail-soft alpha-beta).
  Proved here so far: the algebra of the window relation `Bnd`, order independence of the minimax
  value (`maxNeg_perm`), and that the null-move branch is dead below remaining depth 3
  (`null_dead_below_3`), which is why iterations 1–3 are "non-speculative".
  See Proofs/Negamax.lean for `fast_spec` (the oracle equals `negamax` inside the window).
-/
import Walleye.Spec.Negamax
namespace Walleye
open Spec

/-- what an alpha-beta result `r` may be, relative to the true value `v` and the window -/
def Bnd (v a b r : Int) : Prop := (r ≤ a → v ≤ r) ∧ (b ≤ r → r ≤ v) ∧ (a < r → r < b → r = v)

theorem Bnd.exact {v a b r : Int} (h : Bnd v a b r) (h1 : a < v) (h2 : v < b) : r = v := by
  obtain ⟨l, u, e⟩ := h
  by_cases c1 : r ≤ a
  · have := l c1; omega
  · by_cases c2 : b ≤ r
    · have := u c2; omega
    · exact e (by omega) (by omega)

theorem maxNeg_ge {P : Type} (f : P → Int) (l : List P) (acc : Int) : acc ≤ maxNeg f l acc := by
  induction l generalizing acc with
  | nil => simp [maxNeg]
  | cons m ms ih => simp only [maxNeg]; exact Int.le_trans (Int.le_max_left _ _) (ih _)

theorem maxNeg_mono {P : Type} (f : P → Int) (l : List P) (a b : Int) (h : a ≤ b) :
    maxNeg f l a ≤ maxNeg f l b := by
  induction l generalizing a b with
  | nil => simpa [maxNeg]
  | cons m ms ih => simp only [maxNeg]; apply ih; omega

theorem maxNeg_mem {P : Type} (f : P → Int) (l : List P) (acc : Int) (m : P) (hm : m ∈ l) : - f m ≤ maxNeg f l acc := by
  induction l generalizing acc with
  | nil => cases hm
  | cons x xs ih =>
    simp only [maxNeg]
    cases List.mem_cons.mp hm with
    | inl e => subst e; exact Int.le_trans (Int.le_max_right _ _) (maxNeg_ge f xs _)
    | inr e => exact ih _ e

theorem maxNeg_swap {P : Type} (f : P → Int) (x y : P) (l : List P) (acc : Int) :
    maxNeg f (x :: y :: l) acc = maxNeg f (y :: x :: l) acc := by
  simp only [maxNeg]
  congr 1
  omega

/-- move ordering never changes the minimax value -/
theorem maxNeg_perm {P : Type} (f : P → Int) (l l' : List P) (h : l.Perm l') (acc : Int) :
    maxNeg f l acc = maxNeg f l' acc := by
  induction h generalizing acc with
  | nil => rfl
  | cons x _ ih => simp only [maxNeg]; exact ih _
  | swap x y l => exact maxNeg_swap f y x l acc
  | trans _ _ ih1 ih2 => exact (ih1 acc).trans (ih2 acc)

/-- the null-move test of `alpha_beta_search` can only fire with remaining depth ≥ 3 -/
theorem null_dead_below_3 (allowNull : Bool) (depth : Nat) (inCheck : Bool) (hd : depth < 3) :
    ¬ (allowNull = true ∧ depth ≥ Gen.nullMinDepth ∧ ¬ inCheck = true) := by
  simp only [Gen.nullMinDepth]; omega

end Walleye
