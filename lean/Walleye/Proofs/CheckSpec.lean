/-
  C06 bridge: the mailbox attack relation `AttackedM` (what `is_check_cords` decides, Proofs/Check)
  is the specification's `Spec.attacked` on the abstracted 8x8 position.
-/
import Walleye.Proofs.Check
import Walleye.Spec.Abs
namespace Walleye

/-- spec square (file, rank) ↦ mailbox point (row 9 - rank, col file + 2) -/
def toPt (s : Spec.Sq) : Point := ⟨9 - s.rank, s.file + 2⟩

def InB (s : Spec.Sq) : Prop := s.file < 8 ∧ s.rank < 8

/-- no sentinel on the 8x8 part of the mailbox -/
def InnerOK (b : Board) : Prop := ∀ r c, OnBoard ⟨r, c⟩ → b.get r c ≠ .boundary

theorem toPt_onBoard (s : Spec.Sq) (h : InB s) : OnBoard (toPt s) := by
  unfold toPt OnBoard InB at *; simp only; omega

theorem mem_allSquares (s : Spec.Sq) : s ∈ Spec.allSquares ↔ InB s := by
  unfold Spec.allSquares InB
  simp only [List.mem_flatMap, List.mem_map, List.mem_range]
  constructor
  · rintro ⟨r, hr, f, hf, rfl⟩; exact ⟨hf, hr⟩
  · intro ⟨h1, h2⟩; exact ⟨s.rank, h2, s.file, h1, rfl⟩

theorem abs_at (p : Pos) (s : Spec.Sq) (h : InB s) :
    (abs p).at s = squareToOpt (p.board.get (toPt s).row (toPt s).col) := by
  unfold InB at h
  unfold Spec.Position.at abs toPt
  simp only [h, and_self, if_true]
  have hlt : s.rank * 8 + s.file < 64 := by omega
  rw [Array.getD_eq_getD_getElem?, Array.getElem?_ofFn]
  simp only [hlt, dite_true, Option.getD_some]
  have e1 : (s.rank * 8 + s.file) / 8 = s.rank := by omega
  have e2 : (s.rank * 8 + s.file) % 8 = s.file := by omega
  rw [e1, e2]

theorem abs_at_out (p : Pos) (s : Spec.Sq) (h : ¬ InB s) : (abs p).at s = none := by
  unfold InB at h
  unfold Spec.Position.at
  rw [if_neg h]

theorem squareToOpt_some (sq : Square) (pc : Piece) : squareToOpt sq = some pc ↔ sq = .full pc := by
  cases sq <;> simp [squareToOpt]

theorem squareToOpt_isNone (sq : Square) (h : sq ≠ .boundary) : (squareToOpt sq).isNone = sq.isEmpty := by
  cases sq <;> simp [squareToOpt, Square.isEmpty] at *

/-! ### lines: the ray of the mailbox probe and `clearBetween` of the specification -/

/-- the spec square of the (n+1)-th ray square from `t` in mailbox direction `d` -/
def specAt (t : Spec.Sq) (d : Int × Int) (n : Nat) : Spec.Sq :=
  ⟨((t.file : Int) + d.2 + (n : Int) * d.2).toNat, ((t.rank : Int) - d.1 - (n : Int) * d.1).toNat⟩

theorem ray_bounds (b : Board) (hr : RingOK b) (t : Point) (d : Int × Int) (n : Nat)
    (h : rayAt b t d n ≠ .boundary) :
    2 ≤ (t.row : Int) + d.1 + (n : Int) * d.1 ∧ (t.row : Int) + d.1 + (n : Int) * d.1 ≤ 9 ∧
    2 ≤ (t.col : Int) + d.2 + (n : Int) * d.2 ∧ (t.col : Int) + d.2 + (n : Int) * d.2 ≤ 9 := by
  by_cases hb : 2 ≤ (t.row : Int) + d.1 + (n : Int) * d.1 ∧ (t.row : Int) + d.1 + (n : Int) * d.1 ≤ 9 ∧
    2 ≤ (t.col : Int) + d.2 + (n : Int) * d.2 ∧ (t.col : Int) + d.2 + (n : Int) * d.2 ≤ 9
  · exact hb
  · exact absurd (offboard_boundary b hr _ _ hb) h

theorem rayAt_specAt (b : Board) (hr : RingOK b) (t : Spec.Sq) (ht : InB t) (d : Int × Int) (n : Nat)
    (h : rayAt b (toPt t) d n ≠ .boundary) :
    InB (specAt t d n) ∧
      rayAt b (toPt t) d n = b.get (toPt (specAt t d n)).row (toPt (specAt t d n)).col := by
  obtain ⟨h1, h2, h3, h4⟩ := ray_bounds b hr (toPt t) d n h
  unfold InB at *
  unfold toPt at h1 h2 h3 h4
  simp only at h1 h2 h3 h4
  refine ⟨⟨?_, ?_⟩, ?_⟩
  · unfold specAt; simp only; omega
  · unfold specAt; simp only; omega
  · unfold rayAt Board.getI
    rw [if_pos ⟨by unfold toPt; simp only; omega, by unfold toPt; simp only; omega⟩]
    unfold toPt specAt; simp only
    congr 1 <;> omega

macro "sgn_tac" : tactic =>
  `(tactic| (unfold Spec.sgn; first
      | (rw [if_pos (by omega)]; try omega)
      | (rw [if_neg (by omega), if_pos (by omega)]; try omega)
      | (rw [if_neg (by omega), if_neg (by omega)]; try omega)))

/-- geometry of a square `n+1` steps from `t` along a unit direction -/
theorem geom (tf tr sf sr : Nat) (d1 d2 : Int) (n : Nat) (hd : UnitDir (d1, d2))
    (hsf : (sf : Int) = tf + d2 + n * d2) (hsr : (sr : Int) = tr - d1 - n * d1) :
    Spec.sgn ((tf : Int) - sf) = -d2 ∧ Spec.sgn ((tr : Int) - sr) = d1 ∧
    Spec.iabs ((tf : Int) - sf) = (if d2 = 0 then 0 else n + 1) ∧
    Spec.iabs ((tr : Int) - sr) = (if d1 = 0 then 0 else n + 1) := by
  obtain ⟨h1, h2, h3⟩ := hd
  simp only at h1 h2 h3
  rcases h1 with e | e | e <;> rcases h2 with e' | e' | e' <;> subst e <;> subst e' <;>
    first
    | (exfalso; exact h3 ⟨rfl, rfl⟩)
    | (refine ⟨by sgn_tac, by sgn_tac, by unfold Spec.iabs; simp; omega, by unfold Spec.iabs; simp; omega⟩)

/-- the squares between an on-board square and an on-board ray square are on the board -/
theorem between_onBoard (b : Board) (hr : RingOK b) (hi : InnerOK b) (t : Spec.Sq) (ht : InB t)
    (d : Int × Int) (hd : UnitDir d) (n : Nat) (h : rayAt b (toPt t) d n ≠ .boundary) (j : Nat) (hj : j ≤ n) :
    rayAt b (toPt t) d j ≠ .boundary := by
  obtain ⟨h1, h2, h3, h4⟩ := ray_bounds b hr (toPt t) d n h
  unfold InB at ht
  unfold toPt at h1 h2 h3 h4
  simp only at h1 h2 h3 h4
  obtain ⟨u1, u2, _⟩ := hd
  have hb : 2 ≤ ((9 - t.rank : Nat) : Int) + d.1 + (j : Int) * d.1 ∧ ((9 - t.rank : Nat) : Int) + d.1 + (j : Int) * d.1 ≤ 9 ∧
      2 ≤ ((t.file + 2 : Nat) : Int) + d.2 + (j : Int) * d.2 ∧ ((t.file + 2 : Nat) : Int) + d.2 + (j : Int) * d.2 ≤ 9 := by
    rcases u1 with e | e | e <;> rcases u2 with e' | e' | e' <;> simp only [e, e'] at h1 h2 h3 h4 ⊢ <;> omega
  unfold rayAt Board.getI
  rw [if_pos ⟨by unfold toPt; simp only; omega, by unfold toPt; simp only; omega⟩]
  apply hi
  unfold OnBoard toPt; simp only; omega

theorem clear_iff (p : Pos) (hr : RingOK p.board) (hi : InnerOK p.board) (t : Spec.Sq) (ht : InB t)
    (d : Int × Int) (hd : UnitDir d) (n : Nat) (h : rayAt p.board (toPt t) d n ≠ .boundary) :
    Spec.clearBetween (abs p) (specAt t d n) t = true ↔
      ∀ i : Nat, i < n → (rayAt p.board (toPt t) d i).isEmpty = true := by
  obtain ⟨h1, h2, h3, h4⟩ := ray_bounds p.board hr (toPt t) d n h
  have ht' := ht
  unfold InB at ht'
  unfold toPt at h1 h2 h3 h4
  simp only at h1 h2 h3 h4
  have hsf : ((specAt t d n).file : Int) = t.file + d.2 + n * d.2 := by
    unfold specAt; simp only; omega
  have hsr : ((specAt t d n).rank : Int) = t.rank - d.1 - n * d.1 := by
    unfold specAt; simp only; omega
  obtain ⟨g1, g2, g3, g4⟩ := geom t.file t.rank (specAt t d n).file (specAt t d n).rank d.1 d.2 n hd hsf hsr
  have hmax : max (Spec.iabs ((t.file : Int) - (specAt t d n).file)) (Spec.iabs ((t.rank : Int) - (specAt t d n).rank)) - 1 = n := by
    rw [g3, g4]
    obtain ⟨_, _, u3⟩ := hd
    by_cases e1 : d.1 = 0 <;> by_cases e2 : d.2 = 0 <;> simp only [e1, e2, if_true, if_false] <;>
      first | (exfalso; exact u3 ⟨e1, e2⟩) | omega
  unfold Spec.clearBetween
  simp only [hmax, g1, g2, List.all_eq_true, List.mem_range]
  -- the i-th probed square is the ray square n-1-i
  have hprobe : ∀ i : Nat, i < n →
      (⟨((specAt t d n).file + ((i : Int) + 1) * -d.2).toNat, ((specAt t d n).rank + ((i : Int) + 1) * d.1).toNat⟩ : Spec.Sq)
        = specAt t d (n - 1 - i) := by
    intro i hi'
    obtain ⟨u1, u2, _⟩ := hd
    unfold specAt at hsf hsr ⊢
    simp only at hsf hsr ⊢
    congr 1
    · rw [hsf]; rcases u2 with e | e | e <;> rw [e] <;> omega
    · rw [hsr]; rcases u1 with e | e | e <;> rw [e] <;> omega
  have hsq : ∀ j : Nat, j < n → ((abs p).at (specAt t d j)).isNone = (rayAt p.board (toPt t) d j).isEmpty := by
    intro j hj
    have hnb := between_onBoard p.board hr hi t ht d hd n h j (by omega)
    obtain ⟨hin, e⟩ := rayAt_specAt p.board hr t ht d j hnb
    rw [abs_at p _ hin, ← e, squareToOpt_isNone _ hnb]
  constructor
  · intro hall i hi'
    have := hall (n - 1 - i) (by omega)
    rw [hprobe _ (by omega)] at this
    have e : n - 1 - (n - 1 - i) = i := by omega
    rw [e, hsq i hi'] at this
    exact this
  · intro hall i hi'
    rw [hprobe i hi', hsq _ (by omega)]
    exact hall _ (by omega)

theorem sgn_pos (x : Int) (h : 0 < x) : Spec.sgn x = 1 := by unfold Spec.sgn; rw [if_pos h]
theorem sgn_neg (x : Int) (h : x < 0) : Spec.sgn x = -1 := by
  unfold Spec.sgn; rw [if_neg (by omega), if_pos h]
theorem sgn_zero : Spec.sgn 0 = 0 := by decide

/-- `s` and `t` on a common line, `s ≠ t` -/
def OnLine (df dr : Int) : Prop :=
  (df.natAbs = dr.natAbs ∨ df = 0 ∨ dr = 0) ∧ ¬ (df = 0 ∧ dr = 0)

theorem sgn_cases (x : Int) :
    (Spec.sgn x = 1 ∧ 0 < x) ∨ (Spec.sgn x = -1 ∧ x < 0) ∨ (Spec.sgn x = 0 ∧ x = 0) := by
  rcases Int.lt_trichotomy x 0 with h | h | h
  · exact Or.inr (Or.inl ⟨sgn_neg x h, h⟩)
  · subst h; exact Or.inr (Or.inr ⟨sgn_zero, rfl⟩)
  · exact Or.inl ⟨sgn_pos x h, h⟩

/-- a square on a common line with `t` is a ray square of `t` -/
theorem specAt_of_line (b : Board) (s t : Spec.Sq) (hs : InB s) (ht : InB t)
    (hl : OnLine ((t.file : Int) - s.file) ((t.rank : Int) - s.rank)) :
    UnitDir (Spec.sgn ((t.rank : Int) - s.rank), -Spec.sgn ((t.file : Int) - s.file)) ∧
    specAt t (Spec.sgn ((t.rank : Int) - s.rank), -Spec.sgn ((t.file : Int) - s.file))
      (max (Spec.iabs ((t.file : Int) - s.file)) (Spec.iabs ((t.rank : Int) - s.rank)) - 1) = s ∧
    rayAt b (toPt t) (Spec.sgn ((t.rank : Int) - s.rank), -Spec.sgn ((t.file : Int) - s.file))
      (max (Spec.iabs ((t.file : Int) - s.file)) (Spec.iabs ((t.rank : Int) - s.rank)) - 1)
        = b.get (toPt s).row (toPt s).col := by
  unfold InB at hs ht
  obtain ⟨h1, h2⟩ := hl
  unfold Spec.iabs
  rcases sgn_cases ((t.file : Int) - s.file) with ⟨e1, hf⟩ | ⟨e1, hf⟩ | ⟨e1, hf⟩ <;>
    rcases sgn_cases ((t.rank : Int) - s.rank) with ⟨e2, hk⟩ | ⟨e2, hk⟩ | ⟨e2, hk⟩ <;>
    rw [e1, e2] <;>
    first
    | (exfalso; exact h2 ⟨hf, hk⟩)
    | (refine ⟨by unfold UnitDir; simp, ?_, ?_⟩
       · unfold specAt
         cases s with
         | mk sf sr => simp only at *; congr 1 <;> omega
       · unfold rayAt Board.getI toPt
         simp only
         rw [if_pos ⟨by omega, by omega⟩]
         congr 1 <;> omega)

theorem specAt_geom (b : Board) (hr : RingOK b) (t : Spec.Sq) (ht : InB t) (d : Int × Int) (hd : UnitDir d)
    (n : Nat) (h : rayAt b (toPt t) d n ≠ .boundary) :
    Spec.iabs ((t.file : Int) - (specAt t d n).file) = (if d.2 = 0 then 0 else n + 1) ∧
    Spec.iabs ((t.rank : Int) - (specAt t d n).rank) = (if d.1 = 0 then 0 else n + 1) := by
  obtain ⟨h1, h2, h3, h4⟩ := ray_bounds b hr (toPt t) d n h
  unfold InB at ht
  unfold toPt at h1 h2 h3 h4
  simp only at h1 h2 h3 h4
  have hsf : ((specAt t d n).file : Int) = t.file + d.2 + n * d.2 := by
    unfold specAt; simp only; omega
  have hsr : ((specAt t d n).rank : Int) = t.rank - d.1 - n * d.1 := by
    unfold specAt; simp only; omega
  obtain ⟨_, _, g3, g4⟩ := geom t.file t.rank (specAt t d n).file (specAt t d n).rank d.1 d.2 n hd hsf hsr
  exact ⟨g3, g4⟩

/-- ray formulation for one given piece -/
def Line (b : Board) (dirs : List (Int × Int)) (pc : Piece) (t : Point) : Prop :=
  ∃ d ∈ dirs, ∃ n : Nat, (∀ i : Nat, i < n → (rayAt b t d i).isEmpty = true) ∧ rayAt b t d n = .full pc

theorem lineAttack_split (b : Board) (ac : Color) (dirs : List (Int × Int)) (k : Kind) (t : Point) :
    LineAttack b ac dirs k t ↔ Line b dirs ⟨ac, k⟩ t ∨ Line b dirs ⟨ac, .queen⟩ t := by
  unfold LineAttack Line
  constructor
  · rintro ⟨d, hd, n, he, h | h⟩
    · exact Or.inl ⟨d, hd, n, he, h⟩
    · exact Or.inr ⟨d, hd, n, he, h⟩
  · rintro (⟨d, hd, n, he, h⟩ | ⟨d, hd, n, he, h⟩)
    · exact ⟨d, hd, n, he, Or.inl h⟩
    · exact ⟨d, hd, n, he, Or.inr h⟩

theorem line_iff (p : Pos) (hr : RingOK p.board) (hi : InnerOK p.board) (t : Spec.Sq) (ht : InB t)
    (dirs : List (Int × Int)) (pc : Piece) (shape : Nat → Nat → Bool)
    (H1 : ∀ d ∈ dirs, UnitDir d ∧
      ∀ n : Nat, shape (if d.2 = 0 then 0 else n + 1) (if d.1 = 0 then 0 else n + 1) = true)
    (H2 : ∀ df dr : Int, shape (Spec.iabs df) (Spec.iabs dr) = true →
      OnLine df dr ∧ (Spec.sgn dr, -Spec.sgn df) ∈ dirs) :
    (∃ s, InB s ∧ p.board.get (toPt s).row (toPt s).col = .full pc ∧
      shape (Spec.iabs ((t.file : Int) - s.file)) (Spec.iabs ((t.rank : Int) - s.rank)) = true ∧
      Spec.clearBetween (abs p) s t = true) ↔ Line p.board dirs pc (toPt t) := by
  constructor
  · rintro ⟨s, hs, hfull, hshape, hclear⟩
    obtain ⟨hl, hmem⟩ := H2 _ _ hshape
    obtain ⟨hu, hspec, hray⟩ := specAt_of_line p.board s t hs ht hl
    have hnb : rayAt p.board (toPt t) (Spec.sgn ((t.rank : Int) - s.rank), -Spec.sgn ((t.file : Int) - s.file))
        (max (Spec.iabs ((t.file : Int) - s.file)) (Spec.iabs ((t.rank : Int) - s.rank)) - 1) ≠ .boundary := by
      rw [hray, hfull]; simp
    have hc := clear_iff p hr hi t ht _ hu _ hnb
    rw [hspec] at hc
    exact ⟨_, hmem, _, hc.mp hclear, by rw [hray, hfull]⟩
  · rintro ⟨d, hd, n, hemp, hfull⟩
    have hnb : rayAt p.board (toPt t) d n ≠ .boundary := by rw [hfull]; simp
    obtain ⟨hu, hsh⟩ := H1 d hd
    obtain ⟨hin, e⟩ := rayAt_specAt p.board hr t ht d n hnb
    obtain ⟨g3, g4⟩ := specAt_geom p.board hr t ht d hu n hnb
    refine ⟨specAt t d n, hin, by rw [← e, hfull], ?_, (clear_iff p hr hi t ht d hu n hnb).mpr hemp⟩
    rw [g3, g4]; exact hsh n

def rookShape (a b : Nat) : Bool := (a == 0 || b == 0) && (a + b != 0)
def bishopShape (a b : Nat) : Bool := a == b && a != 0

theorem rook_H1 : ∀ d ∈ Gen.checkRookDirs, UnitDir d ∧
    ∀ n : Nat, rookShape (if d.2 = 0 then 0 else n + 1) (if d.1 = 0 then 0 else n + 1) = true := by
  intro d hd
  simp only [Gen.checkRookDirs, List.mem_cons, List.mem_nil_iff, or_false] at hd
  rcases hd with rfl | rfl | rfl | rfl <;> refine ⟨by decide, fun n => ?_⟩ <;> simp [rookShape]

theorem bishop_H1 : ∀ d ∈ Gen.checkBishopDirs, UnitDir d ∧
    ∀ n : Nat, bishopShape (if d.2 = 0 then 0 else n + 1) (if d.1 = 0 then 0 else n + 1) = true := by
  intro d hd
  simp only [Gen.checkBishopDirs, List.mem_cons, List.mem_nil_iff, or_false] at hd
  rcases hd with rfl | rfl | rfl | rfl <;> refine ⟨by decide, fun n => ?_⟩ <;> simp [bishopShape]

theorem rook_H2 (df dr : Int) (h : rookShape (Spec.iabs df) (Spec.iabs dr) = true) :
    OnLine df dr ∧ (Spec.sgn dr, -Spec.sgn df) ∈ Gen.checkRookDirs := by
  unfold rookShape Spec.iabs at h
  simp only [Bool.and_eq_true, Bool.or_eq_true, beq_iff_eq, bne_iff_ne, ne_eq] at h
  unfold OnLine
  rcases sgn_cases df with ⟨e1, hf⟩ | ⟨e1, hf⟩ | ⟨e1, hf⟩ <;>
    rcases sgn_cases dr with ⟨e2, hk⟩ | ⟨e2, hk⟩ | ⟨e2, hk⟩ <;>
    rw [e1, e2] <;> first | (exfalso; omega) | (refine ⟨by omega, by decide⟩)

theorem bishop_H2 (df dr : Int) (h : bishopShape (Spec.iabs df) (Spec.iabs dr) = true) :
    OnLine df dr ∧ (Spec.sgn dr, -Spec.sgn df) ∈ Gen.checkBishopDirs := by
  unfold bishopShape Spec.iabs at h
  simp only [Bool.and_eq_true, beq_iff_eq, bne_iff_ne, ne_eq] at h
  unfold OnLine
  rcases sgn_cases df with ⟨e1, hf⟩ | ⟨e1, hf⟩ | ⟨e1, hf⟩ <;>
    rcases sgn_cases dr with ⟨e2, hk⟩ | ⟨e2, hk⟩ | ⟨e2, hk⟩ <;>
    rw [e1, e2] <;> first | (exfalso; omega) | (refine ⟨by omega, by decide⟩)

/-- some piece of colour `ac` and kind `k` attacks `t` (specification side, unfolded) -/
def A (p : Pos) (ac : Color) (t : Spec.Sq) (k : Kind) : Prop :=
  ∃ s, InB s ∧ p.board.get (toPt s).row (toPt s).col = .full ⟨ac, k⟩ ∧
    Spec.attacksFrom (abs p) s ⟨ac, k⟩ t = true

theorem attacked_iff_A (p : Pos) (ac : Color) (t : Spec.Sq) :
    Spec.attacked (abs p) ac t = true ↔ ∃ k, A p ac t k := by
  unfold Spec.attacked A
  rw [List.any_eq_true]
  constructor
  · rintro ⟨s, hs, h⟩
    have hs' := (mem_allSquares s).mp hs
    rw [abs_at p s hs'] at h
    cases hsq : p.board.get (toPt s).row (toPt s).col with
    | empty => rw [hsq] at h; simp [squareToOpt] at h
    | boundary => rw [hsq] at h; simp [squareToOpt] at h
    | full pc =>
      rw [hsq] at h
      simp only [squareToOpt, Bool.and_eq_true, beq_iff_eq] at h
      obtain ⟨hc, ha⟩ := h
      cases pc with
      | mk c k =>
        simp only at hc; subst hc
        exact ⟨k, s, hs', hsq, ha⟩
  · rintro ⟨k, s, hs, hfull, ha⟩
    refine ⟨s, (mem_allSquares s).mpr hs, ?_⟩
    rw [abs_at p s hs, hfull]
    simp [squareToOpt, ha]

theorem A_rook (p : Pos) (hr : RingOK p.board) (hi : InnerOK p.board) (ac : Color) (t : Spec.Sq) (ht : InB t) :
    A p ac t .rook ↔ Line p.board Gen.checkRookDirs ⟨ac, .rook⟩ (toPt t) := by
  rw [← line_iff p hr hi t ht Gen.checkRookDirs ⟨ac, .rook⟩ rookShape rook_H1 rook_H2]
  unfold A Spec.attacksFrom rookShape
  simp only [Bool.and_eq_true]

theorem A_bishop (p : Pos) (hr : RingOK p.board) (hi : InnerOK p.board) (ac : Color) (t : Spec.Sq) (ht : InB t) :
    A p ac t .bishop ↔ Line p.board Gen.checkBishopDirs ⟨ac, .bishop⟩ (toPt t) := by
  rw [← line_iff p hr hi t ht Gen.checkBishopDirs ⟨ac, .bishop⟩ bishopShape bishop_H1 bishop_H2]
  unfold A Spec.attacksFrom bishopShape
  simp only [Bool.and_eq_true]

theorem A_queen (p : Pos) (hr : RingOK p.board) (hi : InnerOK p.board) (ac : Color) (t : Spec.Sq) (ht : InB t) :
    A p ac t .queen ↔ Line p.board Gen.checkRookDirs ⟨ac, .queen⟩ (toPt t) ∨
      Line p.board Gen.checkBishopDirs ⟨ac, .queen⟩ (toPt t) := by
  rw [← line_iff p hr hi t ht Gen.checkRookDirs ⟨ac, .queen⟩ rookShape rook_H1 rook_H2,
      ← line_iff p hr hi t ht Gen.checkBishopDirs ⟨ac, .queen⟩ bishopShape bishop_H1 bishop_H2]
  unfold A Spec.attacksFrom rookShape bishopShape
  simp only [Bool.and_eq_true, Bool.or_eq_true]
  constructor
  · rintro ⟨s, h1, h2, (h3 | h3), h4⟩
    · exact Or.inr ⟨s, h1, h2, by simpa using h3, h4⟩
    · exact Or.inl ⟨s, h1, h2, by simpa using h3, h4⟩
  · rintro (⟨s, h1, h2, h3, h4⟩ | ⟨s, h1, h2, h3, h4⟩)
    · exact ⟨s, h1, h2, Or.inr (by simpa using h3), h4⟩
    · exact ⟨s, h1, h2, Or.inl (by simpa using h3), h4⟩

theorem getI_full_bounds (b : Board) (hr : RingOK b) (r c : Int) (pc : Piece) (h : b.getI r c = .full pc) :
    2 ≤ r ∧ r ≤ 9 ∧ 2 ≤ c ∧ c ≤ 9 ∧ b.get r.toNat c.toNat = .full pc := by
  by_cases hb : 2 ≤ r ∧ r ≤ 9 ∧ 2 ≤ c ∧ c ≤ 9
  · refine ⟨hb.1, hb.2.1, hb.2.2.1, hb.2.2.2, ?_⟩
    unfold Board.getI at h
    rw [if_pos ⟨by omega, by omega⟩] at h
    exact h
  · rw [offboard_boundary b hr r c hb] at h; cases h

theorem A_knight (p : Pos) (hr : RingOK p.board) (ac : Color) (t : Spec.Sq) (ht : InB t) :
    A p ac t .knight ↔ ∃ rc ∈ Gen.knightCords,
      p.board.getI (((toPt t).row : Int) + rc.1) (((toPt t).col : Int) + rc.2) = .full ⟨ac, .knight⟩ := by
  unfold InB at ht
  constructor
  · rintro ⟨s, hs, hfull, ha⟩
    unfold InB at hs
    unfold Spec.attacksFrom Spec.iabs at ha
    simp only [Bool.or_eq_true, Bool.and_eq_true, beq_iff_eq] at ha
    refine ⟨((t.rank : Int) - s.rank, -((t.file : Int) - s.file)), ?_, ?_⟩
    · have : (((t.file : Int) - s.file = 1 ∨ (t.file : Int) - s.file = -1) ∧ ((t.rank : Int) - s.rank = 2 ∨ (t.rank : Int) - s.rank = -2)) ∨
          (((t.file : Int) - s.file = 2 ∨ (t.file : Int) - s.file = -2) ∧ ((t.rank : Int) - s.rank = 1 ∨ (t.rank : Int) - s.rank = -1)) := by omega
      rcases this with ⟨e1 | e1, e2 | e2⟩ | ⟨e1 | e1, e2 | e2⟩ <;> rw [e1, e2] <;> decide
    · unfold Board.getI toPt
      simp only
      rw [if_pos ⟨by omega, by omega⟩, ← hfull]
      unfold toPt; simp only
      congr 1 <;> omega
  · rintro ⟨rc, hrc, hfull⟩
    obtain ⟨b1, b2, b3, b4, hget⟩ := getI_full_bounds p.board hr _ _ _ hfull
    unfold toPt at b1 b2 b3 b4 hget
    simp only at b1 b2 b3 b4 hget
    simp only [Gen.knightCords, List.mem_cons, List.mem_nil_iff, or_false] at hrc
    refine ⟨⟨((t.file : Int) + rc.2).toNat, ((t.rank : Int) - rc.1).toNat⟩, ?_, ?_, ?_⟩
    · unfold InB; simp only; omega
    · rw [← hget]; unfold toPt; simp only; congr 1 <;> omega
    · unfold Spec.attacksFrom Spec.iabs
      simp only [Bool.or_eq_true, Bool.and_eq_true, beq_iff_eq]
      rcases hrc with rfl | rfl | rfl | rfl | rfl | rfl | rfl | rfl <;> simp only at b1 b2 b3 b4 ⊢ <;> omega

theorem get_full_onBoard (b : Board) (hr : RingOK b) (r c : Nat) (pc : Piece) (h : b.get r c = .full pc) :
    2 ≤ r ∧ r ≤ 9 ∧ 2 ≤ c ∧ c ≤ 9 := by
  have := hr r c (by rw [h]; simp)
  unfold OnBoard at this; simpa using this

theorem A_pawn (p : Pos) (hr : RingOK p.board) (ac : Color) (t : Spec.Sq) (ht : InB t) :
    A p ac t .pawn ↔
      (p.board.get (attackerPawnRow ac (toPt t).row) ((toPt t).col - 1) = .full ⟨ac, .pawn⟩ ∨
       p.board.get (attackerPawnRow ac (toPt t).row) ((toPt t).col + 1) = .full ⟨ac, .pawn⟩) := by
  unfold InB at ht
  unfold attackerPawnRow
  unfold A Spec.attacksFrom Spec.iabs
  simp only [Bool.and_eq_true, decide_eq_true_eq, beq_iff_eq]
  constructor
  · rintro ⟨s, hs, hfull, hd, ha⟩
    unfold InB at hs
    have hcol : s.file + 1 = t.file ∨ s.file = t.file + 1 := by omega
    cases ac <;> simp only at hd ⊢ <;> rcases hcol with e | e
    · left; rw [← hfull]; unfold toPt; simp only; congr 1 <;> omega
    · right; rw [← hfull]; unfold toPt; simp only; congr 1 <;> omega
    · left; rw [← hfull]; unfold toPt; simp only; congr 1 <;> omega
    · right; rw [← hfull]; unfold toPt; simp only; congr 1 <;> omega
  · intro h
    cases ac <;> simp only at h ⊢ <;> rcases h with h | h <;>
      obtain ⟨b1, b2, b3, b4⟩ := get_full_onBoard p.board hr _ _ _ h <;>
      unfold toPt at b1 b2 b3 b4 h <;> simp only at b1 b2 b3 b4 h
    · exact ⟨⟨t.file - 1, t.rank - 1⟩, by unfold InB; simp only; omega,
        by rw [← h]; unfold toPt; simp only; congr 1 <;> omega, by simp only; omega, by simp only; omega⟩
    · exact ⟨⟨t.file + 1, t.rank - 1⟩, by unfold InB; simp only; omega,
        by rw [← h]; unfold toPt; simp only; congr 1 <;> omega, by simp only; omega, by simp only; omega⟩
    · exact ⟨⟨t.file - 1, t.rank + 1⟩, by unfold InB; simp only; omega,
        by rw [← h]; unfold toPt; simp only; congr 1 <;> omega, by simp only; omega, by simp only; omega⟩
    · exact ⟨⟨t.file + 1, t.rank + 1⟩, by unfold InB; simp only; omega,
        by rw [← h]; unfold toPt; simp only; congr 1 <;> omega, by simp only; omega, by simp only; omega⟩

theorem A_king (p : Pos) (hr : RingOK p.board) (ac : Color) (t : Spec.Sq) (ht : InB t) (ak : Point)
    (hk : p.board.get ak.row ak.col = .full ⟨ac, .king⟩)
    (huniq : ∀ r c, p.board.get r c = .full ⟨ac, .king⟩ → (⟨r, c⟩ : Point) = ak)
    (hne : ak ≠ toPt t) :
    A p ac t .king ↔
      (((ak.row : Int) - (toPt t).row).natAbs ≤ 1 ∧ ((ak.col : Int) - (toPt t).col).natAbs ≤ 1) := by
  unfold InB at ht
  unfold A Spec.attacksFrom Spec.iabs
  simp only [beq_iff_eq]
  constructor
  · rintro ⟨s, hs, hfull, ha⟩
    unfold InB at hs
    have := huniq _ _ hfull
    rw [← this]
    unfold toPt; simp only; omega
  · intro h
    obtain ⟨b1, b2, b3, b4⟩ := get_full_onBoard p.board hr _ _ _ hk
    have hne' : ¬ (ak.row = (toPt t).row ∧ ak.col = (toPt t).col) := by
      intro ⟨e1, e2⟩; apply hne; cases ak; simp only at e1 e2; subst e1; subst e2; rfl
    unfold toPt at h hne'
    simp only at h hne'
    refine ⟨⟨ak.col - 2, 9 - ak.row⟩, by unfold InB; simp only; omega, ?_, ?_⟩
    · rw [← hk]; unfold toPt; simp only; congr 1 <;> omega
    · simp only; omega

/-- the specification's attack relation is the mailbox attack relation -/
theorem attacked_iff_AttackedM (p : Pos) (hr : RingOK p.board) (hi : InnerOK p.board) (ac : Color)
    (t : Spec.Sq) (ht : InB t) (ak : Point)
    (hk : p.board.get ak.row ak.col = .full ⟨ac, .king⟩)
    (huniq : ∀ r c, p.board.get r c = .full ⟨ac, .king⟩ → (⟨r, c⟩ : Point) = ak)
    (hne : ak ≠ toPt t) :
    Spec.attacked (abs p) ac t = true ↔ AttackedM p.board ac (toPt t) ak := by
  rw [attacked_iff_A]
  unfold AttackedM
  rw [lineAttack_split, lineAttack_split, ← A_rook p hr hi ac t ht, ← A_bishop p hr hi ac t ht,
    ← A_knight p hr ac t ht, ← A_pawn p hr ac t ht, ← A_king p hr ac t ht ak hk huniq hne]
  have hq := A_queen p hr hi ac t ht
  constructor
  · rintro ⟨k, h⟩
    cases k with
    | pawn => exact Or.inr (Or.inr (Or.inr (Or.inl h)))
    | knight => exact Or.inr (Or.inr (Or.inl h))
    | king => exact Or.inr (Or.inr (Or.inr (Or.inr h)))
    | rook => exact Or.inl (Or.inl h)
    | bishop => exact Or.inr (Or.inl (Or.inl h))
    | queen =>
      rcases hq.mp h with h' | h'
      · exact Or.inl (Or.inr h')
      · exact Or.inr (Or.inl (Or.inr h'))
  · rintro ((h | h) | (h | h) | h | h | h)
    · exact ⟨_, h⟩
    · exact ⟨.queen, hq.mpr (Or.inl h)⟩
    · exact ⟨_, h⟩
    · exact ⟨.queen, hq.mpr (Or.inr h)⟩
    · exact ⟨_, h⟩
    · exact ⟨_, h⟩
    · exact ⟨_, h⟩

/-! ### `is_check` is the specification's `inCheck` -/

def kingPt (p : Pos) : Color → Point
  | .white => p.wk
  | .black => p.bk

/-- the cached king squares hold the kings, and there is one king per side -/
def KingsOK (p : Pos) : Prop :=
  ∀ c : Color, p.board.get (kingPt p c).row (kingPt p c).col = .full ⟨c, .king⟩ ∧
    ∀ r k, p.board.get r k = .full ⟨c, .king⟩ → (⟨r, k⟩ : Point) = kingPt p c

def specOf (pt : Point) : Spec.Sq := ⟨pt.col - 2, 9 - pt.row⟩

theorem toPt_specOf (pt : Point) (h : OnBoard pt) : toPt (specOf pt) = pt := by
  unfold OnBoard at h
  cases pt with
  | mk r c => unfold toPt specOf; simp only at *; congr 1 <;> omega

theorem specOf_inB (pt : Point) (h : OnBoard pt) : InB (specOf pt) := by
  unfold OnBoard at h; unfold InB specOf; simp only; omega

theorem specOf_toPt (s : Spec.Sq) (h : InB s) : specOf (toPt s) = s := by
  unfold InB at h
  cases s with
  | mk f r => unfold toPt specOf; simp only at *; congr 1 <;> omega

theorem inCheck_eq_attacked (p : Pos) (hr : RingOK p.board) (hk : KingsOK p) (c : Color) :
    Spec.inCheck (abs p) c = Spec.attacked (abs p) c.opp (specOf (kingPt p c)) := by
  obtain ⟨hfull, huniq⟩ := hk c
  have hob : OnBoard (kingPt p c) := hr (kingPt p c).row (kingPt p c).col (by rw [hfull]; simp)
  rw [Bool.eq_iff_iff]
  unfold Spec.inCheck Spec.kingSquares
  rw [List.any_eq_true]
  constructor
  · rintro ⟨s, hs, ha⟩
    rw [List.mem_filter] at hs
    obtain ⟨hs, hat⟩ := hs
    have hin := (mem_allSquares s).mp hs
    rw [abs_at p s hin] at hat
    have : squareToOpt (p.board.get (toPt s).row (toPt s).col) = some ⟨c, .king⟩ := by simpa using hat
    have := huniq _ _ ((squareToOpt_some _ _).mp this)
    have e : s = specOf (kingPt p c) := by
      rw [← this]; exact (specOf_toPt s hin).symm
    rw [← e]; exact ha
  · intro ha
    refine ⟨specOf (kingPt p c), ?_, ha⟩
    rw [List.mem_filter]
    refine ⟨(mem_allSquares _).mpr (specOf_inB _ hob), ?_⟩
    rw [abs_at p _ (specOf_inB _ hob), toPt_specOf _ hob, hfull]
    simp [squareToOpt]

/-- C06: for every mailbox with the sentinel ring in place, no sentinel inside, and the king caches
    pointing at the one king of each side, `is_check` is the specification's `inCheck` -/
theorem isCheck_eq_inCheck (p : Pos) (hr : RingOK p.board) (hi : InnerOK p.board) (hk : KingsOK p) (c : Color) :
    isCheck p c = Spec.inCheck (abs p) c := by
  rw [inCheck_eq_attacked p hr hk c, Bool.eq_iff_iff]
  obtain ⟨hfull, _⟩ := hk c
  obtain ⟨hfull', huniq'⟩ := hk c.opp
  have hob : OnBoard (kingPt p c) := hr (kingPt p c).row (kingPt p c).col (by rw [hfull]; simp)
  have hne : kingPt p c.opp ≠ toPt (specOf (kingPt p c)) := by
    rw [toPt_specOf _ hob]
    intro e
    rw [e, hfull] at hfull'
    cases c <;> cases hfull'
  rw [attacked_iff_AttackedM p hr hi c.opp _ (specOf_inB _ hob) (kingPt p c.opp) hfull' huniq' hne,
    toPt_specOf _ hob]
  have h := isCheckCords_iff p hr c (kingPt p c) hob
  cases c
  · exact h
  · exact h

end Walleye
