/-
  C01 soundness for castling: `can_castle_*` implies the specification's castling conditions, and
  the king does not stand in check after castling (which the generator does not test again).
-/
import Walleye.Proofs.SoundEp
namespace Walleye

theorem getI_off_row (b b' : Board) (trow : Nat) (hoff : ∀ r k, r ≠ trow → b'.get r k = b.get r k)
    (r c : Int) (hr : r ≠ trow) : b'.getI r c = b.getI r c := by
  unfold Board.getI
  by_cases hc : 0 ≤ r ∧ 0 ≤ c
  · rw [if_pos hc, if_pos hc]
    exact hoff _ _ (by omega)
  · rw [if_neg hc, if_neg hc]

theorem rayAt_off_row (b b' : Board) (t : Point) (hoff : ∀ r k, r ≠ t.row → b'.get r k = b.get r k)
    (d : Int × Int) (hd : d.1 = 1 ∨ d.1 = -1) (i : Nat) : rayAt b' t d i = rayAt b t d i := by
  unfold rayAt
  apply getI_off_row b b' t.row hoff
  rcases hd with e | e <;> rw [e] <;> omega

/-- no enemy rook or queen is seen along the direction `d` -/
def NoHit (b : Board) (ac : Color) (t : Point) (d : Int × Int) : Prop :=
  ¬ ∃ n : Nat, (∀ i : Nat, i < n → (rayAt b t d i).isEmpty = true) ∧
    (rayAt b t d n = .full ⟨ac, .rook⟩ ∨ rayAt b t d n = .full ⟨ac, .queen⟩)

/-- a change of the board confined to the row of `t`, with nothing hostile on that row in sight:
    an attack on `t` afterwards was an attack before -/
theorem attackedM_of_row (b b' : Board) (t : Point) (ac : Color) (ak : Point) (ht : 1 ≤ t.row)
    (hoff : ∀ r k, r ≠ t.row → b'.get r k = b.get r k)
    (hE : NoHit b' ac t (0, 1)) (hW : NoHit b' ac t (0, -1)) :
    AttackedM b' ac t ak → AttackedM b ac t ak := by
  unfold AttackedM
  have tr := fun d hd i => rayAt_off_row b b' t hoff d hd i
  rintro (hx | hx | hx | hx | hx)
  · obtain ⟨d, hd, n, hemp, hhit⟩ := hx
    simp only [Gen.checkRookDirs, List.mem_cons, List.mem_nil_iff, or_false] at hd
    rcases hd with rfl | rfl | rfl | rfl
    · left
      exact ⟨(1, 0), by decide, n, fun i hi => by rw [← tr (1, 0) (Or.inl rfl)]; exact hemp i hi,
        by rw [← tr (1, 0) (Or.inl rfl)]; exact hhit⟩
    · left
      exact ⟨(-1, 0), by decide, n, fun i hi => by rw [← tr (-1, 0) (Or.inr rfl)]; exact hemp i hi,
        by rw [← tr (-1, 0) (Or.inr rfl)]; exact hhit⟩
    · exact absurd ⟨n, hemp, hhit⟩ hE
    · exact absurd ⟨n, hemp, hhit⟩ hW
  · obtain ⟨d, hd, n, hemp, hhit⟩ := hx
    right; left
    have hd1 : d.1 = 1 ∨ d.1 = -1 := by
      simp only [Gen.checkBishopDirs, List.mem_cons, List.mem_nil_iff, or_false] at hd
      rcases hd with rfl | rfl | rfl | rfl <;> simp
    exact ⟨d, hd, n, fun i hi => by rw [← tr d hd1]; exact hemp i hi, by rw [← tr d hd1]; exact hhit⟩
  · obtain ⟨rc, hrc, hk⟩ := hx
    right; right; left
    refine ⟨rc, hrc, ?_⟩
    rw [← getI_off_row b b' t.row hoff _ _ ?_]
    · exact hk
    · simp only [Gen.knightCords, List.mem_cons, List.mem_nil_iff, or_false] at hrc
      rcases hrc with rfl | rfl | rfl | rfl | rfl | rfl | rfl | rfl <;> simp only <;> omega
  · right; right; right; left
    have hne : attackerPawnRow ac t.row ≠ t.row := by unfold attackerPawnRow; cases ac <;> simp only <;> omega
    rw [← hoff _ _ hne, ← hoff _ _ hne]
    exact hx
  · right; right; right; right; exact hx

/-- the board after castling on row `r`: king from column 6 to `kto`, rook from `rfrom` to `rto` -/
def castled (b : Board) (r kto rfrom rto : Nat) (K R : Piece) : Board :=
  (((b.set r 6 .empty).set r kto (.full K)).set r rfrom .empty).set r rto (.full R)

theorem castled_off_row (b : Board) (r kto rfrom rto : Nat) (K R : Piece) :
    ∀ r' k, r' ≠ r → (castled b r kto rfrom rto K R).get r' k = b.get r' k := by
  intro r' k hne
  unfold castled
  rw [Board.get_set_ne _ _ _ _ _ _ (by omega), Board.get_set_ne _ _ _ _ _ _ (by omega),
    Board.get_set_ne _ _ _ _ _ _ (by omega), Board.get_set_ne _ _ _ _ _ _ (by omega)]

theorem castled_other (b : Board) (r kto rfrom rto : Nat) (K R : Piece) (k : Nat)
    (h1 : k ≠ 6) (h2 : k ≠ kto) (h3 : k ≠ rfrom) (h4 : k ≠ rto) :
    (castled b r kto rfrom rto K R).get r k = b.get r k := by
  unfold castled
  rw [Board.get_set_ne _ _ _ _ _ _ (by omega), Board.get_set_ne _ _ _ _ _ _ (by omega),
    Board.get_set_ne _ _ _ _ _ _ (by omega), Board.get_set_ne _ _ _ _ _ _ (by omega)]

theorem castled_rto (b : Board) (r kto rfrom rto : Nat) (K R : Piece) (hr : r < 12) (hc : rto < 12) :
    (castled b r kto rfrom rto K R).get r rto = .full R := by
  unfold castled; exact Board.get_set_eq _ _ _ _ hr hc

theorem castled_rfrom (b : Board) (r kto rfrom rto : Nat) (K R : Piece) (hr : r < 12) (hc : rfrom < 12) (hne : rto ≠ rfrom) :
    (castled b r kto rfrom rto K R).get r rfrom = .empty := by
  unfold castled
  rw [Board.get_set_ne _ _ _ _ _ _ (by omega)]; exact Board.get_set_eq _ _ _ _ hr hc

theorem castled_kto (b : Board) (r kto rfrom rto : Nat) (K R : Piece) (hr : r < 12) (hc : kto < 12)
    (h1 : rto ≠ kto) (h2 : rfrom ≠ kto) : (castled b r kto rfrom rto K R).get r kto = .full K := by
  unfold castled
  rw [Board.get_set_ne _ _ _ _ _ _ (by omega), Board.get_set_ne _ _ _ _ _ _ (by omega)]
  exact Board.get_set_eq _ _ _ _ hr hc

theorem castled_kfrom (b : Board) (r kto rfrom rto : Nat) (K R : Piece) (hr : r < 12)
    (h1 : rto ≠ 6) (h2 : rfrom ≠ 6) (h3 : kto ≠ 6) : (castled b r kto rfrom rto K R).get r 6 = .empty := by
  unfold castled
  rw [Board.get_set_ne _ _ _ _ _ _ (by omega), Board.get_set_ne _ _ _ _ _ _ (by omega),
    Board.get_set_ne _ _ _ _ _ _ (by omega)]
  exact Board.get_set_eq _ _ _ _ hr (by omega)

variable (h : Hasher)

/-- two `move_piece` calls produce the castled board -/
theorem castle_board (q : Pos) (r kto rfrom rto : Nat) (K R : Piece)
    (hk : q.board.get r 6 = .full K) (hrk : q.board.get r rfrom = .full R) (n1 : rfrom ≠ 6) (n2 : rfrom ≠ kto) :
    ((q.movePiece h ⟨r, 6⟩ ⟨r, kto⟩).movePiece h ⟨r, rfrom⟩ ⟨r, rto⟩).board = castled q.board r kto rfrom rto K R := by
  have hb1 : (q.movePiece h ⟨r, 6⟩ ⟨r, kto⟩).board = (q.board.set r 6 .empty).set r kto (.full K) :=
    movePiece_board_full h q ⟨r, 6⟩ ⟨r, kto⟩ K hk
  have hr' : (q.movePiece h ⟨r, 6⟩ ⟨r, kto⟩).board.get r rfrom = .full R := by
    rw [hb1, Board.get_set_ne _ _ _ _ _ _ (by omega), Board.get_set_ne _ _ _ _ _ _ (by omega), hrk]
  rw [movePiece_board_full h _ ⟨r, rfrom⟩ ⟨r, rto⟩ R hr', hb1]
  rfl

theorem rayAt_east (b : Board) (r c i : Nat) : rayAt b ⟨r, c⟩ (0, 1) i = b.get r (c + 1 + i) := by
  unfold rayAt Board.getI
  simp only
  rw [if_pos ⟨by omega, by omega⟩]
  congr 1 <;> omega

theorem rayAt_west (b : Board) (r c i : Nat) (hc : i + 1 ≤ c) : rayAt b ⟨r, c⟩ (0, -1) i = b.get r (c - 1 - i) := by
  unfold rayAt Board.getI
  simp only
  rw [if_pos ⟨by omega, by omega⟩]
  congr 1 <;> omega

theorem get_offboard (b : Board) (hr : RingOK b) (r c : Nat) (h : ¬ OnBoard ⟨r, c⟩) : b.get r c = .boundary := by
  cases hx : b.get r c with
  | boundary => rfl
  | empty => exact absurd (hr r c (by rw [hx]; simp)) h
  | full x => exact absurd (hr r c (by rw [hx]; simp)) h

/-- after king-side castling on row `r` nothing new attacks the king's new square -/
theorem castled_safe_kingside (b : Board) (hr : RingOK b) (r : Nat) (hr12 : r < 12) (hr1 : 1 ≤ r) (K R : Piece) (ac : Color)
    (hR : R.color ≠ ac) (ak : Point) :
    AttackedM (castled b r 8 9 7 K R) ac ⟨r, 8⟩ ak → AttackedM b ac ⟨r, 8⟩ ak := by
  apply attackedM_of_row b _ ⟨r, 8⟩ ac ak hr1 (castled_off_row b r 8 9 7 K R)
  · rintro ⟨n, hemp, hhit⟩
    have e0 : rayAt (castled b r 8 9 7 K R) ⟨r, 8⟩ (0, 1) 0 = .empty := by
      rw [rayAt_east]; exact castled_rfrom b r 8 9 7 K R hr12 (by omega) (by omega)
    have e1 : rayAt (castled b r 8 9 7 K R) ⟨r, 8⟩ (0, 1) 1 = .boundary := by
      rw [rayAt_east, castled_other b r 8 9 7 K R 10 (by omega) (by omega) (by omega) (by omega)]
      exact get_offboard b hr r 10 (by unfold OnBoard; simp)
    match n, hemp, hhit with
    | 0, _, hhit => rw [e0] at hhit; rcases hhit with h | h <;> cases h
    | 1, _, hhit => rw [e1] at hhit; rcases hhit with h | h <;> cases h
    | n + 2, hemp, _ => have := hemp 1 (by omega); rw [e1] at this; cases this
  · rintro ⟨n, hemp, hhit⟩
    have e0 : rayAt (castled b r 8 9 7 K R) ⟨r, 8⟩ (0, -1) 0 = .full R := by
      rw [rayAt_west _ _ _ _ (by omega)]; exact castled_rto b r 8 9 7 K R hr12 (by omega)
    match n, hemp, hhit with
    | 0, _, hhit =>
      rw [e0] at hhit
      rcases hhit with h | h <;> (injection h with h; rw [h] at hR; exact hR rfl)
    | n + 1, hemp, _ => have := hemp 0 (by omega); rw [e0] at this; cases this

/-- after queen-side castling on row `r` (b-file square empty) nothing new attacks the king's new square -/
theorem castled_safe_queenside (b : Board) (hr : RingOK b) (r : Nat) (hr12 : r < 12) (hr1 : 1 ≤ r) (K R : Piece) (ac : Color)
    (hR : R.color ≠ ac) (ak : Point) (hb3 : b.get r 3 = .empty) :
    AttackedM (castled b r 4 2 5 K R) ac ⟨r, 4⟩ ak → AttackedM b ac ⟨r, 4⟩ ak := by
  apply attackedM_of_row b _ ⟨r, 4⟩ ac ak hr1 (castled_off_row b r 4 2 5 K R)
  · rintro ⟨n, hemp, hhit⟩
    have e0 : rayAt (castled b r 4 2 5 K R) ⟨r, 4⟩ (0, 1) 0 = .full R := by
      rw [rayAt_east]; exact castled_rto b r 4 2 5 K R hr12 (by omega)
    match n, hemp, hhit with
    | 0, _, hhit =>
      rw [e0] at hhit
      rcases hhit with h | h <;> (injection h with h; rw [h] at hR; exact hR rfl)
    | n + 1, hemp, _ => have := hemp 0 (by omega); rw [e0] at this; cases this
  · rintro ⟨n, hemp, hhit⟩
    have e0 : rayAt (castled b r 4 2 5 K R) ⟨r, 4⟩ (0, -1) 0 = .empty := by
      rw [rayAt_west _ _ _ _ (by omega), castled_other b r 4 2 5 K R 3 (by omega) (by omega) (by omega) (by omega)]
      exact hb3
    have e1 : rayAt (castled b r 4 2 5 K R) ⟨r, 4⟩ (0, -1) 1 = .empty := by
      rw [rayAt_west _ _ _ _ (by omega)]; exact castled_rfrom b r 4 2 5 K R hr12 (by omega) (by omega)
    have e2 : rayAt (castled b r 4 2 5 K R) ⟨r, 4⟩ (0, -1) 2 = .boundary := by
      rw [rayAt_west _ _ _ _ (by omega), castled_other b r 4 2 5 K R 1 (by omega) (by omega) (by omega) (by omega)]
      exact get_offboard b hr r 1 (by unfold OnBoard; simp)
    match n, hemp, hhit with
    | 0, _, hhit => rw [e0] at hhit; rcases hhit with h | h <;> cases h
    | 1, _, hhit => rw [e1] at hhit; rcases hhit with h | h <;> cases h
    | 2, _, hhit => rw [e2] at hhit; rcases hhit with h | h <;> cases h
    | n + 3, hemp, _ => have := hemp 2 (by omega); rw [e2] at this; cases this

/-- the columns of a castling: distinct, on the board, king's square is column 6 -/
structure CCols (kto rfrom rto : Nat) : Prop where
  a1 : kto ≠ 6
  a2 : rfrom ≠ 6
  a3 : rto ≠ 6
  a4 : rfrom ≠ kto
  a5 : rto ≠ kto
  a6 : rto ≠ rfrom
  b1 : 2 ≤ kto ∧ kto ≤ 9
  b2 : 2 ≤ rfrom ∧ rfrom ≤ 9
  b3 : 2 ≤ rto ∧ rto ≤ 9

theorem castled_ring (b : Board) (hr : RingOK b) (r kto rfrom rto : Nat) (K R : Piece) (cc : CCols kto rfrom rto)
    (hrow : 2 ≤ r ∧ r ≤ 9) : RingOK (castled b r kto rfrom rto K R) := by
  unfold castled
  have ob : ∀ k, 2 ≤ k ∧ k ≤ 9 → OnBoard ⟨r, k⟩ := fun k hk => by unfold OnBoard; simp only; omega
  exact ringOK_set _ ⟨r, rto⟩ _ (ringOK_set _ ⟨r, rfrom⟩ _ (ringOK_set _ ⟨r, kto⟩ _ (ringOK_set _ ⟨r, 6⟩ _ hr
    (ob 6 (by omega))) (ob kto cc.b1)) (ob rfrom cc.b2)) (ob rto cc.b3)

theorem castled_inner (b : Board) (hi : InnerOK b) (r kto rfrom rto : Nat) (K R : Piece) :
    InnerOK (castled b r kto rfrom rto K R) := by
  unfold castled
  exact innerOK_set _ ⟨r, rto⟩ _ (innerOK_set _ ⟨r, rfrom⟩ _ (innerOK_set _ ⟨r, kto⟩ _ (innerOK_set _ ⟨r, 6⟩ _ hi
    (by simp)) (by simp)) (by simp)) (by simp)

/-- the king caches after castling -/
theorem castled_kings (p q : Pos) (hko : KingsOK p) (c : Color) (r kto rfrom rto : Nat) (cc : CCols kto rfrom rto)
    (hrow : 2 ≤ r ∧ r ≤ 9)
    (hkp : kingPt p c = ⟨r, 6⟩) (hrk : p.board.get r rfrom = .full ⟨c, .rook⟩)
    (he1 : p.board.get r kto = .empty) (he2 : p.board.get r rto = .empty)
    (hqb : q.board = castled p.board r kto rfrom rto ⟨c, .king⟩ ⟨c, .rook⟩)
    (hqk : kingPt q c = ⟨r, kto⟩) (hqo : kingPt q c.opp = kingPt p c.opp) : KingsOK q := by
  have hK : p.board.get r 6 = .full ⟨c, .king⟩ := by have := (hko c).1; rw [hkp] at this; exact this
  -- a square of the castled board that holds a king of colour c' relates to the old board
  have key : ∀ c' r' k', q.board.get r' k' = .full ⟨c', .king⟩ →
      (c' = c ∧ r' = r ∧ k' = kto) ∨ (¬ (r' = r ∧ (k' = 6 ∨ k' = kto ∨ k' = rfrom ∨ k' = rto)) ∧
        p.board.get r' k' = .full ⟨c', .king⟩) := by
    intro c' r' k' hx
    rw [hqb] at hx
    by_cases hr' : r' = r
    · subst hr'
      by_cases h6 : k' = 6
      · subst h6; rw [castled_kfrom _ _ _ _ _ _ _ (by omega) cc.a3 cc.a2 cc.a1] at hx; cases hx
      · by_cases hkto : k' = kto
        · subst hkto
          rw [castled_kto _ _ _ _ _ _ _ (by omega) (by have := cc.b1; omega) cc.a5 cc.a4] at hx
          injection hx with hx; injection hx with hx _
          exact Or.inl ⟨hx.symm, rfl, rfl⟩
        · by_cases hrf : k' = rfrom
          · subst hrf; rw [castled_rfrom _ _ _ _ _ _ _ (by omega) (by have := cc.b2; omega) cc.a6] at hx; cases hx
          · by_cases hrt : k' = rto
            · subst hrt; rw [castled_rto _ _ _ _ _ _ _ (by omega) (by have := cc.b3; omega)] at hx
              injection hx with hx; injection hx with _ hx; cases hx
            · rw [castled_other _ _ _ _ _ _ _ k' h6 hkto hrf hrt] at hx
              exact Or.inr ⟨fun ⟨_, hh⟩ => by rcases hh with hh | hh | hh | hh <;> contradiction, hx⟩
    · rw [castled_off_row _ _ _ _ _ _ _ r' k' hr'] at hx
      exact Or.inr ⟨fun ⟨hh, _⟩ => hr' hh, hx⟩
  intro c'
  by_cases hc : c' = c
  · subst hc
    rw [hqk]
    refine ⟨by rw [hqb]; exact castled_kto _ _ _ _ _ _ _ (by omega) (by have := cc.b1; omega) cc.a5 cc.a4, ?_⟩
    intro r' k' hx
    rcases key c' r' k' hx with ⟨_, rfl, rfl⟩ | ⟨hn, hold⟩
    · rfl
    · exfalso
      have := (hko c').2 r' k' hold
      rw [hkp] at this
      injection this with e1 e2
      exact hn ⟨e1, Or.inl e2⟩
  · have hco : c' = c.opp := by cases c <;> cases c' <;> simp_all [Color.opp]
    subst hco
    rw [hqo]
    obtain ⟨hk', hu'⟩ := hko c.opp
    have hnot : ¬ ((kingPt p c.opp).row = r ∧ ((kingPt p c.opp).col = 6 ∨ (kingPt p c.opp).col = kto ∨
        (kingPt p c.opp).col = rfrom ∨ (kingPt p c.opp).col = rto)) := by
      rintro ⟨e1, e2 | e2 | e2 | e2⟩ <;> rw [e1, e2] at hk'
      · rw [hK] at hk'; injection hk' with hk'; injection hk' with hk' _; exact (Color.opp_ne c) hk'.symm
      · rw [he1] at hk'; cases hk'
      · rw [hrk] at hk'; injection hk' with hk'; injection hk' with _ hk'; cases hk'
      · rw [he2] at hk'; cases hk'
    constructor
    · rw [hqb]
      by_cases hr' : (kingPt p c.opp).row = r
      · rw [hr']
        rw [castled_other _ _ _ _ _ _ _ _ (fun e => hnot ⟨hr', Or.inl e⟩) (fun e => hnot ⟨hr', Or.inr (Or.inl e)⟩)
          (fun e => hnot ⟨hr', Or.inr (Or.inr (Or.inl e))⟩) (fun e => hnot ⟨hr', Or.inr (Or.inr (Or.inr e))⟩)]
        rw [← hr']; exact hk'
      · rw [castled_off_row _ _ _ _ _ _ _ _ _ hr']; exact hk'
    · intro r' k' hx
      rcases key c.opp r' k' hx with ⟨hcc, _, _⟩ | ⟨_, hold⟩
      · exact absurd hcc (Color.opp_ne c)
      · exact hu' r' k' hold

theorem castleSucc_shape_wks (p : Pos) (hwk : p.wk = ⟨9, 6⟩) (gK : p.board.get 9 6 = .full ⟨.white, .king⟩)
    (gR : p.board.get 9 9 = .full ⟨.white, .rook⟩) :
    (castleSucc h p .wks).board = castled p.board 9 8 9 7 ⟨.white, .king⟩ ⟨.white, .rook⟩ ∧
    (castleSucc h p .wks).wk = ⟨9, 8⟩ ∧ (castleSucc h p .wks).bk = p.bk ∧
    (castleSucc h p .wks).lastMove = some (⟨9, 6⟩, ⟨9, 8⟩) := by
  unfold castleSucc
  simp only [hwk]
  refine ⟨?_, by simp, by simp, by simp [Gen.wksAlg]⟩
  rw [castle_board h _ 9 8 9 7 ⟨.white, .king⟩ ⟨.white, .rook⟩ (by simpa using gK) (by simpa using gR) (by omega) (by omega)]
  simp

/-- a probe of `is_check_cords` on an empty square is the specification's attack test -/
theorem probe_spec (p : Pos) (wf : WFp p) (c : Color) (t : Spec.Sq) (ht : InB t)
    (hempty : p.board.get (toPt t).row (toPt t).col = .empty) :
    isCheckCords p c (toPt t) = Spec.attacked (abs p) c.opp t := by
  rw [Bool.eq_iff_iff, isCheckCords_iff p wf.ring c (toPt t) (toPt_onBoard t ht)]
  obtain ⟨hk, hu⟩ := wf.kings c.opp
  have hne : kingPt p c.opp ≠ toPt t := by
    intro e; rw [e, hempty] at hk; cases hk
  rw [attacked_iff_AttackedM p wf.ring wf.inner c.opp t ht (kingPt p c.opp) hk hu hne]
  cases c <;> exact Iff.rfl

theorem not_inCheck_attacked (p : Pos) (wf : WFp p) (c : Color) (hchk : isCheck p c = false) :
    Spec.attacked (abs p) c.opp (specOf (kingPt p c)) = false := by
  rw [← inCheck_eq_attacked p wf.ring wf.kings c, ← isCheck_eq_inCheck p wf.ring wf.inner wf.kings c]; exact hchk

theorem castle_wks_sound (p : Pos) (wf : WFp p) (hside : p.toMove = .white) (hcan : canCastle p .wks = true) :
    moveOf (castleSucc h p .wks) = castleMove .wks ∧
    Spec.legal (abs p) (castleMove .wks) = true ∧
    abs (castleSucc h p .wks) = Spec.apply (abs p) (castleMove .wks) := by
  unfold canCastle at hcan
  simp only [Bool.and_eq_true, Bool.not_eq_true'] at hcan
  obtain ⟨⟨⟨⟨⟨hright, he7⟩, he8⟩, hnchk⟩, hn7⟩, hn8⟩ := hcan
  obtain ⟨hic, habs⟩ := castle_wks_abs h p wf.lp wf.kings hside hright
  obtain ⟨hK, hRk⟩ := wf.lp.wks hright
  have gK : p.board.get 9 6 = .full ⟨.white, .king⟩ := get_of_at p ⟨4, 0⟩ (by decide) _ hK
  have gR : p.board.get 9 9 = .full ⟨.white, .rook⟩ := get_of_at p ⟨7, 0⟩ (by decide) _ hRk
  have hwk : p.wk = ⟨9, 6⟩ := ((wf.kings .white).2 9 6 gK).symm
  have g7 : p.board.get 9 7 = .empty := by cases hx : p.board.get 9 7 <;> simp_all [Square.isEmpty]
  have g8 : p.board.get 9 8 = .empty := by cases hx : p.board.get 9 8 <;> simp_all [Square.isEmpty]
  obtain ⟨sb, swk, sbk, slm⟩ := castleSucc_shape_wks h p hwk gK gR
  have hpm : (castleSucc h p .wks).promo = none := (castleSucc_fields h p .wks).2.2.1
  have hmo : moveOf (castleSucc h p .wks) = castleMove .wks := by
    rw [moveOf_of _ _ _ slm, hpm]; rfl
  refine ⟨hmo, ?_, habs⟩
  have hPs : (abs p).side = .white := hside
  -- the three probes of the specification
  have a4 : Spec.attacked (abs p) .black ⟨4, 0⟩ = false := by
    have := not_inCheck_attacked p wf .white hnchk
    have e : kingPt p .white = ⟨9, 6⟩ := hwk
    rw [e] at this; exact this
  have a5 : Spec.attacked (abs p) .black ⟨5, 0⟩ = false := by
    have e := probe_spec p wf .white ⟨5, 0⟩ (by decide) g7
    rw [show isCheckCords p .white (toPt ⟨5, 0⟩) = false from hn7] at e; exact e.symm
  have a6 : Spec.attacked (abs p) .black ⟨6, 0⟩ = false := by
    have e := probe_spec p wf .white ⟨6, 0⟩ (by decide) g8
    rw [show isCheckCords p .white (toPt ⟨6, 0⟩) = false from hn8] at e; exact e.symm
  have n5 : (abs p).at ⟨5, 0⟩ = none := by rw [abs_at p ⟨5, 0⟩ (by decide)]; show squareToOpt (p.board.get 9 7) = none; rw [g7]; rfl
  have n6 : (abs p).at ⟨6, 0⟩ = none := by rw [abs_at p ⟨6, 0⟩ (by decide)]; show squareToOpt (p.board.get 9 8) = none; rw [g8]; rfl
  have hps : Spec.pseudoLegal (abs p) (castleMove .wks) = true := by
    have hic' : Spec.isCastle (abs p) ⟨⟨4, 0⟩, ⟨6, 0⟩, none⟩ = true := hic
    unfold Spec.pseudoLegal castleMove
    simp [hK, hPs, n6, hic', hRk, n5, a4, a5, a6, abs_wks, hright, Spec.homeRank, Color.opp]
  -- the king's new square is not attacked after castling
  have hsafe : isCheck (castleSucc h p .wks) .white = false := by
    cases hx : isCheck (castleSucc h p .wks) .white with
    | false => rfl
    | true =>
      exfalso
      have cc : CCols 8 9 7 := ⟨by omega, by omega, by omega, by omega, by omega, by omega, by omega, by omega, by omega⟩
      have hr1 : RingOK (castleSucc h p .wks).board := by rw [sb]; exact castled_ring _ wf.ring 9 8 9 7 _ _ cc (by omega)
      have : isCheckCords (castleSucc h p .wks) .white ⟨9, 8⟩ = true := by
        unfold isCheck at hx; simp only [swk] at hx; exact hx
      rw [isCheckCords_iff _ hr1 .white ⟨9, 8⟩ (by unfold OnBoard; simp)] at this
      simp only [sbk, sb, Color.opp] at this
      have := castled_safe_kingside p.board wf.ring 9 (by omega) (by omega) _ ⟨.white, .rook⟩ .black (by decide) p.bk this
      have hp := (isCheckCords_iff p wf.ring .white ⟨9, 8⟩ (by unfold OnBoard; simp)).mpr this
      rw [hp] at hn8; cases hn8
  have cc : CCols 8 9 7 := ⟨by omega, by omega, by omega, by omega, by omega, by omega, by omega, by omega, by omega⟩
  have hr1 : RingOK (castleSucc h p .wks).board := by rw [sb]; exact castled_ring _ wf.ring 9 8 9 7 _ _ cc (by omega)
  have hi1 : InnerOK (castleSucc h p .wks).board := by rw [sb]; exact castled_inner _ wf.inner 9 8 9 7 _ _
  have hk1 : KingsOK (castleSucc h p .wks) :=
    castled_kings p _ wf.kings .white 9 8 9 7 cc (by omega) hwk gR g8 g7 sb swk sbk
  unfold Spec.legal
  rw [hps, ← habs, ← isCheck_eq_inCheck _ hr1 hi1 hk1, hPs, hsafe]
  rfl

theorem castleSucc_shape_wqs (p : Pos) (hwk : p.wk = ⟨9, 6⟩) (gK : p.board.get 9 6 = .full ⟨.white, .king⟩)
    (gR : p.board.get 9 2 = .full ⟨.white, .rook⟩) :
    (castleSucc h p .wqs).board = castled p.board 9 4 2 5 ⟨.white, .king⟩ ⟨.white, .rook⟩ ∧
    (castleSucc h p .wqs).wk = ⟨9, 4⟩ ∧ (castleSucc h p .wqs).bk = p.bk ∧
    (castleSucc h p .wqs).lastMove = some (⟨9, 6⟩, ⟨9, 4⟩) := by
  unfold castleSucc
  simp only [hwk]
  refine ⟨?_, by simp, by simp, by simp [Gen.wqsAlg]⟩
  rw [castle_board h _ 9 4 2 5 ⟨.white, .king⟩ ⟨.white, .rook⟩ (by simpa using gK) (by simpa using gR) (by omega) (by omega)]
  simp

theorem castle_wqs_sound (p : Pos) (wf : WFp p) (hside : p.toMove = .white) (hcan : canCastle p .wqs = true) :
    moveOf (castleSucc h p .wqs) = castleMove .wqs ∧
    Spec.legal (abs p) (castleMove .wqs) = true ∧
    abs (castleSucc h p .wqs) = Spec.apply (abs p) (castleMove .wqs) := by
  unfold canCastle at hcan
  simp only [Bool.and_eq_true, Bool.not_eq_true'] at hcan
  obtain ⟨⟨⟨⟨⟨⟨hright, he3⟩, he4⟩, he5⟩, hnchk⟩, hn5⟩, hn4⟩ := hcan
  obtain ⟨hic, habs⟩ := castle_wqs_abs h p wf.lp wf.kings hside hright
  obtain ⟨hK, hRk⟩ := wf.lp.wqs hright
  have gK : p.board.get 9 6 = .full ⟨.white, .king⟩ := get_of_at p ⟨4, 0⟩ (by decide) _ hK
  have gR : p.board.get 9 2 = .full ⟨.white, .rook⟩ := get_of_at p ⟨0, 0⟩ (by decide) _ hRk
  have hwk : p.wk = ⟨9, 6⟩ := ((wf.kings .white).2 9 6 gK).symm
  have g3 : p.board.get 9 3 = .empty := by cases hx : p.board.get 9 3 <;> simp_all [Square.isEmpty]
  have g4 : p.board.get 9 4 = .empty := by cases hx : p.board.get 9 4 <;> simp_all [Square.isEmpty]
  have g5 : p.board.get 9 5 = .empty := by cases hx : p.board.get 9 5 <;> simp_all [Square.isEmpty]
  obtain ⟨sb, swk, sbk, slm⟩ := castleSucc_shape_wqs h p hwk gK gR
  have hpm : (castleSucc h p .wqs).promo = none := (castleSucc_fields h p .wqs).2.2.1
  have hmo : moveOf (castleSucc h p .wqs) = castleMove .wqs := by
    rw [moveOf_of _ _ _ slm, hpm]; rfl
  refine ⟨hmo, ?_, habs⟩
  have hPs : (abs p).side = .white := hside
  have a4 : Spec.attacked (abs p) .black ⟨4, 0⟩ = false := by
    have := not_inCheck_attacked p wf .white hnchk
    have e : kingPt p .white = ⟨9, 6⟩ := hwk
    rw [e] at this; exact this
  have a3 : Spec.attacked (abs p) .black ⟨3, 0⟩ = false := by
    have e := probe_spec p wf .white ⟨3, 0⟩ (by decide) g5
    rw [show isCheckCords p .white (toPt ⟨3, 0⟩) = false from hn5] at e; exact e.symm
  have a2 : Spec.attacked (abs p) .black ⟨2, 0⟩ = false := by
    have e := probe_spec p wf .white ⟨2, 0⟩ (by decide) g4
    rw [show isCheckCords p .white (toPt ⟨2, 0⟩) = false from hn4] at e; exact e.symm
  have n1 : (abs p).at ⟨1, 0⟩ = none := by rw [abs_at p ⟨1, 0⟩ (by decide)]; show squareToOpt (p.board.get 9 3) = none; rw [g3]; rfl
  have n2 : (abs p).at ⟨2, 0⟩ = none := by rw [abs_at p ⟨2, 0⟩ (by decide)]; show squareToOpt (p.board.get 9 4) = none; rw [g4]; rfl
  have n3 : (abs p).at ⟨3, 0⟩ = none := by rw [abs_at p ⟨3, 0⟩ (by decide)]; show squareToOpt (p.board.get 9 5) = none; rw [g5]; rfl
  have hps : Spec.pseudoLegal (abs p) (castleMove .wqs) = true := by
    have hic' : Spec.isCastle (abs p) ⟨⟨4, 0⟩, ⟨2, 0⟩, none⟩ = true := hic
    unfold Spec.pseudoLegal castleMove
    simp [hK, hPs, n1, n2, n3, hic', hRk, a4, a3, a2, abs_wqs, hright, Spec.homeRank, Color.opp]
  have cc : CCols 4 2 5 := ⟨by omega, by omega, by omega, by omega, by omega, by omega, by omega, by omega, by omega⟩
  have hr1 : RingOK (castleSucc h p .wqs).board := by rw [sb]; exact castled_ring _ wf.ring 9 4 2 5 _ _ cc (by omega)
  have hsafe : isCheck (castleSucc h p .wqs) .white = false := by
    cases hx : isCheck (castleSucc h p .wqs) .white with
    | false => rfl
    | true =>
      exfalso
      have : isCheckCords (castleSucc h p .wqs) .white ⟨9, 4⟩ = true := by
        unfold isCheck at hx; simp only [swk] at hx; exact hx
      rw [isCheckCords_iff _ hr1 .white ⟨9, 4⟩ (by unfold OnBoard; simp)] at this
      simp only [sbk, sb, Color.opp] at this
      have := castled_safe_queenside p.board wf.ring 9 (by omega) (by omega) _ ⟨.white, .rook⟩ .black (by decide) p.bk g3 this
      have hp := (isCheckCords_iff p wf.ring .white ⟨9, 4⟩ (by unfold OnBoard; simp)).mpr this
      rw [hp] at hn4; cases hn4
  have hi1 : InnerOK (castleSucc h p .wqs).board := by rw [sb]; exact castled_inner _ wf.inner 9 4 2 5 _ _
  have hk1 : KingsOK (castleSucc h p .wqs) :=
    castled_kings p _ wf.kings .white 9 4 2 5 cc (by omega) hwk gR g4 g5 sb swk sbk
  unfold Spec.legal
  rw [hps, ← habs, ← isCheck_eq_inCheck _ hr1 hi1 hk1, hPs, hsafe]
  rfl

theorem castleSucc_shape_bks (p : Pos) (hwk : p.bk = ⟨2, 6⟩) (gK : p.board.get 2 6 = .full ⟨.black, .king⟩)
    (gR : p.board.get 2 9 = .full ⟨.black, .rook⟩) :
    (castleSucc h p .bks).board = castled p.board 2 8 9 7 ⟨.black, .king⟩ ⟨.black, .rook⟩ ∧
    (castleSucc h p .bks).bk = ⟨2, 8⟩ ∧ (castleSucc h p .bks).wk = p.wk ∧
    (castleSucc h p .bks).lastMove = some (⟨2, 6⟩, ⟨2, 8⟩) := by
  unfold castleSucc
  simp only [hwk]
  refine ⟨?_, by simp, by simp, by simp [Gen.bksAlg]⟩
  rw [castle_board h _ 2 8 9 7 ⟨.black, .king⟩ ⟨.black, .rook⟩ (by simpa using gK) (by simpa using gR) (by omega) (by omega)]
  simp

theorem castle_bks_sound (p : Pos) (wf : WFp p) (hside : p.toMove = .black) (hcan : canCastle p .bks = true) :
    moveOf (castleSucc h p .bks) = castleMove .bks ∧
    Spec.legal (abs p) (castleMove .bks) = true ∧
    abs (castleSucc h p .bks) = Spec.apply (abs p) (castleMove .bks) := by
  unfold canCastle at hcan
  simp only [Bool.and_eq_true, Bool.not_eq_true'] at hcan
  obtain ⟨⟨⟨⟨⟨hright, he7⟩, he8⟩, hnchk⟩, hn7⟩, hn8⟩ := hcan
  obtain ⟨hic, habs⟩ := castle_bks_abs h p wf.lp wf.kings hside hright
  obtain ⟨hK, hRk⟩ := wf.lp.bks hright
  have gK : p.board.get 2 6 = .full ⟨.black, .king⟩ := get_of_at p ⟨4, 7⟩ (by decide) _ hK
  have gR : p.board.get 2 9 = .full ⟨.black, .rook⟩ := get_of_at p ⟨7, 7⟩ (by decide) _ hRk
  have hwk : p.bk = ⟨2, 6⟩ := ((wf.kings .black).2 2 6 gK).symm
  have g7 : p.board.get 2 7 = .empty := by cases hx : p.board.get 2 7 <;> simp_all [Square.isEmpty]
  have g8 : p.board.get 2 8 = .empty := by cases hx : p.board.get 2 8 <;> simp_all [Square.isEmpty]
  obtain ⟨sb, swk, sbk, slm⟩ := castleSucc_shape_bks h p hwk gK gR
  have hpm : (castleSucc h p .bks).promo = none := (castleSucc_fields h p .bks).2.2.1
  have hmo : moveOf (castleSucc h p .bks) = castleMove .bks := by
    rw [moveOf_of _ _ _ slm, hpm]; rfl
  refine ⟨hmo, ?_, habs⟩
  have hPs : (abs p).side = .black := hside
  -- the three probes of the specification
  have a4 : Spec.attacked (abs p) .white ⟨4, 7⟩ = false := by
    have := not_inCheck_attacked p wf .black hnchk
    have e : kingPt p .black = ⟨2, 6⟩ := hwk
    rw [e] at this; exact this
  have a5 : Spec.attacked (abs p) .white ⟨5, 7⟩ = false := by
    have e := probe_spec p wf .black ⟨5, 7⟩ (by decide) g7
    rw [show isCheckCords p .black (toPt ⟨5, 7⟩) = false from hn7] at e; exact e.symm
  have a6 : Spec.attacked (abs p) .white ⟨6, 7⟩ = false := by
    have e := probe_spec p wf .black ⟨6, 7⟩ (by decide) g8
    rw [show isCheckCords p .black (toPt ⟨6, 7⟩) = false from hn8] at e; exact e.symm
  have n5 : (abs p).at ⟨5, 7⟩ = none := by rw [abs_at p ⟨5, 7⟩ (by decide)]; show squareToOpt (p.board.get 2 7) = none; rw [g7]; rfl
  have n6 : (abs p).at ⟨6, 7⟩ = none := by rw [abs_at p ⟨6, 7⟩ (by decide)]; show squareToOpt (p.board.get 2 8) = none; rw [g8]; rfl
  have hps : Spec.pseudoLegal (abs p) (castleMove .bks) = true := by
    have hic' : Spec.isCastle (abs p) ⟨⟨4, 7⟩, ⟨6, 7⟩, none⟩ = true := hic
    unfold Spec.pseudoLegal castleMove
    simp [hK, hPs, n6, hic', hRk, n5, a4, a5, a6, abs_bks, hright, Spec.homeRank, Color.opp]
  -- the king's new square is not attacked after castling
  have hsafe : isCheck (castleSucc h p .bks) .black = false := by
    cases hx : isCheck (castleSucc h p .bks) .black with
    | false => rfl
    | true =>
      exfalso
      have cc : CCols 8 9 7 := ⟨by omega, by omega, by omega, by omega, by omega, by omega, by omega, by omega, by omega⟩
      have hr1 : RingOK (castleSucc h p .bks).board := by rw [sb]; exact castled_ring _ wf.ring 2 8 9 7 _ _ cc (by omega)
      have : isCheckCords (castleSucc h p .bks) .black ⟨2, 8⟩ = true := by
        unfold isCheck at hx; simp only [swk] at hx; exact hx
      rw [isCheckCords_iff _ hr1 .black ⟨2, 8⟩ (by unfold OnBoard; simp)] at this
      simp only [sbk, sb, Color.opp] at this
      have := castled_safe_kingside p.board wf.ring 2 (by omega) (by omega) _ ⟨.black, .rook⟩ .white (by decide) p.wk this
      have hp := (isCheckCords_iff p wf.ring .black ⟨2, 8⟩ (by unfold OnBoard; simp)).mpr this
      rw [hp] at hn8; cases hn8
  have cc : CCols 8 9 7 := ⟨by omega, by omega, by omega, by omega, by omega, by omega, by omega, by omega, by omega⟩
  have hr1 : RingOK (castleSucc h p .bks).board := by rw [sb]; exact castled_ring _ wf.ring 2 8 9 7 _ _ cc (by omega)
  have hi1 : InnerOK (castleSucc h p .bks).board := by rw [sb]; exact castled_inner _ wf.inner 2 8 9 7 _ _
  have hk1 : KingsOK (castleSucc h p .bks) :=
    castled_kings p _ wf.kings .black 2 8 9 7 cc (by omega) hwk gR g8 g7 sb swk sbk
  unfold Spec.legal
  rw [hps, ← habs, ← isCheck_eq_inCheck _ hr1 hi1 hk1, hPs, hsafe]
  rfl

theorem castleSucc_shape_bqs (p : Pos) (hwk : p.bk = ⟨2, 6⟩) (gK : p.board.get 2 6 = .full ⟨.black, .king⟩)
    (gR : p.board.get 2 2 = .full ⟨.black, .rook⟩) :
    (castleSucc h p .bqs).board = castled p.board 2 4 2 5 ⟨.black, .king⟩ ⟨.black, .rook⟩ ∧
    (castleSucc h p .bqs).bk = ⟨2, 4⟩ ∧ (castleSucc h p .bqs).wk = p.wk ∧
    (castleSucc h p .bqs).lastMove = some (⟨2, 6⟩, ⟨2, 4⟩) := by
  unfold castleSucc
  simp only [hwk]
  refine ⟨?_, by simp, by simp, by simp [Gen.bqsAlg]⟩
  rw [castle_board h _ 2 4 2 5 ⟨.black, .king⟩ ⟨.black, .rook⟩ (by simpa using gK) (by simpa using gR) (by omega) (by omega)]
  simp

theorem castle_bqs_sound (p : Pos) (wf : WFp p) (hside : p.toMove = .black) (hcan : canCastle p .bqs = true) :
    moveOf (castleSucc h p .bqs) = castleMove .bqs ∧
    Spec.legal (abs p) (castleMove .bqs) = true ∧
    abs (castleSucc h p .bqs) = Spec.apply (abs p) (castleMove .bqs) := by
  unfold canCastle at hcan
  simp only [Bool.and_eq_true, Bool.not_eq_true'] at hcan
  obtain ⟨⟨⟨⟨⟨⟨hright, he3⟩, he4⟩, he5⟩, hnchk⟩, hn4⟩, hn5⟩ := hcan
  obtain ⟨hic, habs⟩ := castle_bqs_abs h p wf.lp wf.kings hside hright
  obtain ⟨hK, hRk⟩ := wf.lp.bqs hright
  have gK : p.board.get 2 6 = .full ⟨.black, .king⟩ := get_of_at p ⟨4, 7⟩ (by decide) _ hK
  have gR : p.board.get 2 2 = .full ⟨.black, .rook⟩ := get_of_at p ⟨0, 7⟩ (by decide) _ hRk
  have hwk : p.bk = ⟨2, 6⟩ := ((wf.kings .black).2 2 6 gK).symm
  have g3 : p.board.get 2 3 = .empty := by cases hx : p.board.get 2 3 <;> simp_all [Square.isEmpty]
  have g4 : p.board.get 2 4 = .empty := by cases hx : p.board.get 2 4 <;> simp_all [Square.isEmpty]
  have g5 : p.board.get 2 5 = .empty := by cases hx : p.board.get 2 5 <;> simp_all [Square.isEmpty]
  obtain ⟨sb, swk, sbk, slm⟩ := castleSucc_shape_bqs h p hwk gK gR
  have hpm : (castleSucc h p .bqs).promo = none := (castleSucc_fields h p .bqs).2.2.1
  have hmo : moveOf (castleSucc h p .bqs) = castleMove .bqs := by
    rw [moveOf_of _ _ _ slm, hpm]; rfl
  refine ⟨hmo, ?_, habs⟩
  have hPs : (abs p).side = .black := hside
  have a4 : Spec.attacked (abs p) .white ⟨4, 7⟩ = false := by
    have := not_inCheck_attacked p wf .black hnchk
    have e : kingPt p .black = ⟨2, 6⟩ := hwk
    rw [e] at this; exact this
  have a3 : Spec.attacked (abs p) .white ⟨3, 7⟩ = false := by
    have e := probe_spec p wf .black ⟨3, 7⟩ (by decide) g5
    rw [show isCheckCords p .black (toPt ⟨3, 7⟩) = false from hn5] at e; exact e.symm
  have a2 : Spec.attacked (abs p) .white ⟨2, 7⟩ = false := by
    have e := probe_spec p wf .black ⟨2, 7⟩ (by decide) g4
    rw [show isCheckCords p .black (toPt ⟨2, 7⟩) = false from hn4] at e; exact e.symm
  have n1 : (abs p).at ⟨1, 7⟩ = none := by rw [abs_at p ⟨1, 7⟩ (by decide)]; show squareToOpt (p.board.get 2 3) = none; rw [g3]; rfl
  have n2 : (abs p).at ⟨2, 7⟩ = none := by rw [abs_at p ⟨2, 7⟩ (by decide)]; show squareToOpt (p.board.get 2 4) = none; rw [g4]; rfl
  have n3 : (abs p).at ⟨3, 7⟩ = none := by rw [abs_at p ⟨3, 7⟩ (by decide)]; show squareToOpt (p.board.get 2 5) = none; rw [g5]; rfl
  have hps : Spec.pseudoLegal (abs p) (castleMove .bqs) = true := by
    have hic' : Spec.isCastle (abs p) ⟨⟨4, 7⟩, ⟨2, 7⟩, none⟩ = true := hic
    unfold Spec.pseudoLegal castleMove
    simp [hK, hPs, n1, n2, n3, hic', hRk, a4, a3, a2, abs_bqs, hright, Spec.homeRank, Color.opp]
  have cc : CCols 4 2 5 := ⟨by omega, by omega, by omega, by omega, by omega, by omega, by omega, by omega, by omega⟩
  have hr1 : RingOK (castleSucc h p .bqs).board := by rw [sb]; exact castled_ring _ wf.ring 2 4 2 5 _ _ cc (by omega)
  have hsafe : isCheck (castleSucc h p .bqs) .black = false := by
    cases hx : isCheck (castleSucc h p .bqs) .black with
    | false => rfl
    | true =>
      exfalso
      have : isCheckCords (castleSucc h p .bqs) .black ⟨2, 4⟩ = true := by
        unfold isCheck at hx; simp only [swk] at hx; exact hx
      rw [isCheckCords_iff _ hr1 .black ⟨2, 4⟩ (by unfold OnBoard; simp)] at this
      simp only [sbk, sb, Color.opp] at this
      have := castled_safe_queenside p.board wf.ring 2 (by omega) (by omega) _ ⟨.black, .rook⟩ .white (by decide) p.wk g3 this
      have hp := (isCheckCords_iff p wf.ring .black ⟨2, 4⟩ (by unfold OnBoard; simp)).mpr this
      rw [hp] at hn4; cases hn4
  have hi1 : InnerOK (castleSucc h p .bqs).board := by rw [sb]; exact castled_inner _ wf.inner 2 4 2 5 _ _
  have hk1 : KingsOK (castleSucc h p .bqs) :=
    castled_kings p _ wf.kings .black 2 4 2 5 cc (by omega) hwk gR g4 g5 sb swk sbk
  unfold Spec.legal
  rw [hps, ← habs, ← isCheck_eq_inCheck _ hr1 hi1 hk1, hPs, hsafe]
  rfl

end Walleye
