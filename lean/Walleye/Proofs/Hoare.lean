/- A small Hoare logic for the state/outcome monad `M` of the search model. -/
import Walleye.Model.Search
namespace Walleye

variable {σ α β : Type}

/-- partial correctness: if `m` finishes normally from a state satisfying `P`, `Q` holds -/
structure Triple (P : σ → Prop) (m : M σ α) (Q : α → σ → Prop) : Prop where
  run : ∀ s a s', P s → m s = .ok a s' → Q a s'

/-- a state invariant kept by `m` whatever the outcome (normal, panic, out of fuel) -/
def Keeps (I : σ → Prop) (m : M σ α) : Prop :=
  ∀ s, I s → match m s with
    | .ok _ s' => I s'
    | .panic s' => I s'
    | .fuel s' => I s'

theorem bind_ok {m : M σ α} {f : α → M σ β} {s : σ} {b : β} {s'' : σ}
    (h : (m >>= f) s = .ok b s'') : ∃ a s', m s = .ok a s' ∧ f a s' = .ok b s'' := by
  change (match m s with | .ok a s' => f a s' | .panic s' => .panic s' | .fuel s' => .fuel s') = _ at h
  cases hm : m s with
  | ok a s' => rw [hm] at h; exact ⟨a, s', rfl, h⟩
  | panic s' => rw [hm] at h; cases h
  | fuel s' => rw [hm] at h; cases h

theorem bind_of_ok {m : M σ α} {f : α → M σ β} {s s' : σ} {a : α} (h : m s = .ok a s') :
    (m >>= f) s = f a s' := by
  show (match m s with | .ok a s' => f a s' | .panic s' => .panic s' | .fuel s' => .fuel s') = _
  rw [h]

theorem bind_of_panic {m : M σ α} {f : α → M σ β} {s s' : σ} (h : m s = .panic s') :
    (m >>= f) s = .panic s' := by
  show (match m s with | .ok a s' => f a s' | .panic s' => .panic s' | .fuel s' => .fuel s') = _
  rw [h]

theorem bind_of_fuel {m : M σ α} {f : α → M σ β} {s s' : σ} (h : m s = .fuel s') :
    (m >>= f) s = .fuel s' := by
  show (match m s with | .ok a s' => f a s' | .panic s' => .panic s' | .fuel s' => .fuel s') = _
  rw [h]

theorem Triple.bind {P : σ → Prop} {m : M σ α} {R : α → σ → Prop} {f : α → M σ β} {Q : β → σ → Prop}
    (h1 : Triple P m R) (h2 : ∀ a, Triple (R a) (f a) Q) : Triple P (m >>= f) Q := by
  refine ⟨?_⟩
  intro s b s'' hp hb
  obtain ⟨a, s', hm, hf⟩ := bind_ok hb
  exact (h2 a).run s' b s'' (h1.run s a s' hp hm) hf

theorem Triple.pure {P : σ → Prop} {a : α} {Q : α → σ → Prop} (h : ∀ s, P s → Q a s) :
    Triple P (pure a : M σ α) Q := by
  refine ⟨?_⟩
  intro s a' s' hp he
  have : (Pure.pure a : M σ α) s = .ok a s := rfl
  rw [this] at he
  cases he
  exact h s hp

theorem Triple.weaken {P P' : σ → Prop} {m : M σ α} {Q Q' : α → σ → Prop}
    (h : Triple P m Q) (hp : ∀ s, P' s → P s) (hq : ∀ a s, Q a s → Q' a s) : Triple P' m Q' :=
  ⟨fun s a s' hps he => hq a s' (h.run s a s' (hp s hps) he)⟩

theorem Triple.ite {P : σ → Prop} {c : Prop} [Decidable c] {m1 m2 : M σ α} {Q : α → σ → Prop}
    (h1 : c → Triple P m1 Q) (h2 : ¬ c → Triple P m2 Q) : Triple P (if c then m1 else m2) Q := by
  by_cases hc : c
  · rw [if_pos hc]; exact h1 hc
  · rw [if_neg hc]; exact h2 hc

theorem Keeps.bind {I : σ → Prop} {m : M σ α} {f : α → M σ β}
    (h1 : Keeps I m) (h2 : ∀ a, Keeps I (f a)) : Keeps I (m >>= f) := by
  intro s hi
  show match (match m s with | .ok a s' => f a s' | .panic s' => .panic s' | .fuel s' => .fuel s') with
    | .ok _ s' => I s' | .panic s' => I s' | .fuel s' => I s'
  have := h1 s hi
  cases hm : m s with
  | ok a s' => rw [hm] at this; exact h2 a s' this
  | panic s' => rw [hm] at this; exact this
  | fuel s' => rw [hm] at this; exact this

theorem Keeps.pure {I : σ → Prop} {a : α} : Keeps I (pure a : M σ α) := fun _ hi => hi

theorem Keeps.ite {I : σ → Prop} {c : Prop} [Decidable c] {m1 m2 : M σ α}
    (h1 : Keeps I m1) (h2 : Keeps I m2) : Keeps I (if c then m1 else m2) := by
  by_cases hc : c
  · rw [if_pos hc]; exact h1
  · rw [if_neg hc]; exact h2

theorem Keeps.panic {I : σ → Prop} : Keeps I (M.panic : M σ α) := fun _ hi => hi
theorem Keeps.outOfFuel {I : σ → Prop} : Keeps I (M.outOfFuel : M σ α) := fun _ hi => hi

theorem Keeps.modify {I : σ → Prop} {f : σ → σ} (h : ∀ s, I s → I (f s)) : Keeps I (M.modify f) :=
  fun s hi => h s hi

theorem Keeps.get {I : σ → Prop} : Keeps I (M.get : M σ σ) := fun _ hi => hi

end Walleye
