/-
  C07: every function of the search model satisfies `LkB` (Proofs/Prefix.lean); hence the improvements
  reported with the clock expiring at consultation k are a prefix of those reported with a later
  expiry, or none — for every game, ordering oracle, table, fuel and root.
-/
import Walleye.Proofs.PrefixPairs
namespace Walleye

variable {P O : Type} {k : Nat} {e2 : Option Nat}

theorem get_bind_lkB {β : Type} (f : SS P O → M (SS P O) β) (hf : ∀ s, LkB k e2 (f s))
    (hdep : ∀ s s' : SS P O, s.table = s'.table → f s = f s') : LkB k e2 (M.get >>= f) := by
  have e : ∀ s, (M.get >>= f) s = f s s := fun _ => rfl
  refine ⟨fun s hs => by rw [e]; exact (hf s).quiet s hs, fun s => by rw [e]; exact (hf s).mono s, ?_⟩
  intro s1 s2 hsim
  rw [e, e]
  have ht : s1.table = s2.table := by
    have : (setEB none s1).table = (setEB none s2).table := by rw [hsim.eq]
    exact this
  rw [← hdep s1 s2 ht]
  exact (hf s1).lock s1 s2 hsim

variable (g : Game P) (ord : Oracle P O)

macro "lk_autoB" : tactic => `(tactic|
  repeat' (first
    | exact LkB.pure _
    | exact LkB.of_agn panic_agnB
    | exact LkB.of_agn outOfFuel_agnB
    | exact LkB.of_agn nodeSearched_agnB
    | exact LkB.of_agn setPV_agnB
    | exact LkB.of_agn (insertCur_agnB _ _)
    | exact LkB.of_agn (getPV_agnB _)
    | exact LkB.of_agn (getKillers_agnB _)
    | exact LkB.of_agn (insertKiller_agnB _ _)
    | exact LkB.of_agn (tableAdd_agnB _)
    | exact LkB.of_agn (tableRemove_agnB _)
    | exact LkB.of_agn (reportSent_agnB _)
    | exact LkB.of_agn reset_agnB
    | solve_by_elim
    | apply LkB.ite
    | apply LkB.bind
    | intro _
    | split
    | dsimp only))

section
variable (hl : LaterB k e2)
include hl

theorem quiesceLoop_lkB (f : P → Int → Int → M (SS P O) Int) (hf : ∀ p a b, LkB k e2 (f p a b)) :
    ∀ (l : List P) (a b : Int), LkB k e2 (quiesceLoop f l a b) := by
  intro l
  induction l with
  | nil => intro a b; unfold quiesceLoop; lk_autoB
  | cons m ms ih => intro a b; unfold quiesceLoop; lk_autoB

theorem quiesce_lkB : ∀ (fuel : Nat) (p : P) (a b : Int), LkB k e2 (quiesce g ord fuel p a b) := by
  intro fuel
  induction fuel with
  | zero => intro p a b; unfold quiesce; lk_autoB
  | succ n ih =>
    intro p a b
    unfold quiesce
    have hl' := quiesceLoop_lkB hl (quiesce g ord n) (fun p a b => ih p a b)
    have ho := order_lkB (P := P) (O := O) hl ord
    lk_autoB

theorem abLoop_lkB (f : ABFun P O) (hf : ∀ p d ply a b n, LkB k e2 (f p d ply a b n)) :
    ∀ (l : List P) (d1 ply : Nat) (a b best : Int), LkB k e2 (abLoop g f l d1 ply a b best) := by
  intro l
  induction l with
  | nil => intro d1 ply a b best; unfold abLoop; lk_autoB
  | cons m ms ih => intro d1 ply a b best; unfold abLoop; lk_autoB

theorem abBody_lkB (f : ABFun P O) (hf : ∀ p d ply a b n, LkB k e2 (f p d ply a b n))
    (p : P) (depth ply : Nat) (a b : Int) (n : Bool) : LkB k e2 (abBody g ord f p depth ply a b n) := by
  unfold abBody
  have hq := quiesce_lkB g ord hl
  have hlp := abLoop_lkB g hl f hf
  have ho := order_lkB (P := P) (O := O) hl ord
  lk_autoB

theorem alphaBeta_lkB : ∀ (fuel : Nat) (p : P) (depth ply : Nat) (a b : Int) (n : Bool),
    LkB k e2 (alphaBeta g ord fuel p depth ply a b n) := by
  intro fuel
  induction fuel with
  | zero => intro p d ply a b n; unfold alphaBeta; lk_autoB
  | succ m ih =>
    intro p d ply a b n
    unfold alphaBeta
    have hb := abBody_lkB g ord hl (alphaBeta g ord m) (fun p d ply a b n => ih p d ply a b n) p d ply a b n
    have ht := tick_lkB (P := P) (O := O) hl
    apply LkB.bind ht
    intro t
    split
    · lk_autoB
    · apply LkB.bind (LkB.of_agn nodeSearched_agnB)
      intro _
      apply get_bind_lkB
      · intro s
        lk_autoB
      · intro s s' hss
        simp only [hss]

theorem rootLoop_lkB (fuel curDepth : Nat) (first : P) :
    ∀ (l : List P) (alpha : Int) (best : Option P), LkB k e2 (rootLoop g ord fuel curDepth first l alpha best) := by
  intro l
  have hab := alphaBeta_lkB g ord hl fuel
  have ht := tick_lkB (P := P) (O := O) hl
  induction l with
  | nil => intro alpha best; unfold rootLoop; lk_autoB
  | cons m ms ih =>
    intro alpha best
    unfold rootLoop
    apply LkB.bind ht
    intro t
    split
    · lk_autoB
    · apply LkB.bind (hab _ _ _ _ _ _)
      intro ev
      apply LkB.bind (LkB.of_agn (insertCur_agnB _ _))
      intro _
      exact guard_lkB hl (-ev > alpha) _ _ (acceptBlock_wlkB _ _ _ _ (ih _ _)) (ih _ _)

theorem iterate_lkB (fuel : Nat) (root : P) :
    ∀ (n curDepth : Nat) (moves : List P) (best : Option P), LkB k e2 (iterate g ord fuel root n curDepth moves best) := by
  intro n
  have hrl := rootLoop_lkB g ord hl fuel
  have ho := order_lkB (P := P) (O := O) hl ord
  induction n with
  | zero => intro c mv b; unfold iterate; lk_autoB
  | succ m ih => intro c mv b; unfold iterate; lk_autoB

theorem getBestMove_lkB (fuel : Nat) (root : P) : LkB k e2 (getBestMove g ord fuel root) := by
  unfold getBestMove
  exact iterate_lkB g ord hl fuel root _ _ _ _

end

/-- **C07**: giving the search a larger allowance (expiry at a later consultation of the clock, or never)
    never changes the sequence of improvements it reported under a smaller one — it only extends it.
    Every game, ordering oracle, repetition table, fuel and root; whatever the outcome of either run. -/
theorem reports_prefixB (fuel : Nat) (root : P) (table : DrawTable) (o : O) (k : Nat) (e2 : Option Nat)
    (hl : LaterB k e2) :
    (getBestMove g ord fuel root (newSS (some k) table o)).stB.pairs <+:
      (getBestMove g ord fuel root (newSS e2 table o)).stB.pairs := by
  have hsim : SimB k e2 (newSS (P := P) (some k) table o) (newSS e2 table o) :=
    ⟨rfl, rfl, Nat.zero_le _, rfl⟩
  rcases (getBestMove_lkB g ord hl fuel root).lock _ _ hsim with h | h
  · generalize getBestMove g ord fuel root (newSS (some k) table o) = r1 at h ⊢
    generalize getBestMove g ord fuel root (newSS e2 table o) = r2 at h ⊢
    cases r1 with
    | ok a t1 =>
      cases r2 with
      | ok b t2 =>
        have hs : SimB k e2 t1 t2 := h.2
        show t1.pairs <+: t2.pairs
        rw [hs.pairs]; exact List.prefix_refl _
      | panic t2 => exact absurd h id
      | fuel t2 => exact absurd h id
    | panic t1 =>
      cases r2 with
      | ok b t2 => exact absurd h id
      | panic t2 =>
        have hs : SimB k e2 t1 t2 := h
        show t1.pairs <+: t2.pairs
        rw [hs.pairs]; exact List.prefix_refl _
      | fuel t2 => exact absurd h id
    | fuel t1 =>
      cases r2 with
      | ok b t2 => exact absurd h id
      | panic t2 => exact absurd h id
      | fuel t2 =>
        have hs : SimB k e2 t1 t2 := h
        show t1.pairs <+: t2.pairs
        rw [hs.pairs]; exact List.prefix_refl _
  · exact h.2

end Walleye
