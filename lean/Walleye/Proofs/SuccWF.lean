/-
  Well-formedness is preserved by the generator (model-level part): no inner sentinel and right king
  caches in every successor.  Together with `Inv` (ring, en passant target on the board, key) and the
  specification-level part (Proofs/LegalPres) this closes C01/C02 under chains of any length.
-/
import Walleye.Proofs.Complete
namespace Walleye

variable (h : Hasher)

theorem kingsOK_congr (p q : Pos) (hko : KingsOK p) (hb : q.board = p.board) (hwk : q.wk = p.wk) (hbk : q.bk = p.bk) :
    KingsOK q := by
  apply kingsOK_of_same_kings p q hko hwk hbk
  intro c r k; rw [hb]

theorem st2_wk (piece : Piece) (sq mov : Point) (nb : Pos) :
    (st2 h piece sq mov nb).wk = nb.wk ∧ (st2 h piece sq mov nb).bk = nb.bk := by
  unfold st2
  constructor
  · cases piece.color <;> cases hk : piece.kind <;> cases cornerRight sq <;> cases cornerRight mov <;>
      simp [Pos.takeAwayOpt, hk]
  · cases piece.color <;> cases hk : piece.kind <;> cases cornerRight sq <;> cases cornerRight mov <;>
      simp [Pos.takeAwayOpt, hk]

theorem st3_wk (piece : Piece) (sq mov : Point) (nb : Pos) :
    (st3 h piece sq mov nb).wk = nb.wk ∧ (st3 h piece sq mov nb).bk = nb.bk := by
  unfold st3
  constructor <;> split <;> simp

theorem succsForTarget_wf (p : Pos) (wf : WFp p) (o : Spec.Sq) (ho : InB o) (pc : Piece)
    (hpc : p.board.get (toPt o).row (toPt o).col = .full pc) (hcol : pc.color = p.toMove) (mov : Point)
    (hmov : mov ∈ getMoves pc (toPt o).row (toPt o).col p.board .all) :
    ∀ q ∈ succsForTarget h pc p (toPt o) mov, InnerOK q.board ∧ KingsOK q := by
  intro q hq
  obtain ⟨hm, hrule⟩ := (getMoves_spec p wf.ring wf.inner o ho pc hpc mov).mp hmov
  have hnk := no_king_capture p wf o ho pc hpc hcol mov hm hrule
  have hto := toPt_onBoard o ho
  have hb : (st1 h pc p (toPt o) mov).board = (p.board.set (toPt o).row (toPt o).col .empty).set mov.row mov.col (.full pc) := by
    rw [st1_board]; exact movePiece_board_full h p (toPt o) mov pc hpc
  have hi1 : InnerOK (st1 h pc p (toPt o) mov).board := by
    rw [hb]; exact innerOK_set _ mov _ (innerOK_set _ (toPt o) _ wf.inner (by simp)) (by simp)
  have hk1 := kingsOK_st1 h p wf.kings pc (toPt o) mov hpc hto hm hnk
  -- stages 2 and 3 leave the board and the king caches alone
  have hb3 : (st3 h pc (toPt o) mov (st2 h pc (toPt o) mov (st1 h pc p (toPt o) mov))).board = (st1 h pc p (toPt o) mov).board := by
    rw [st3_board, st2_board]
  have hw3 : (st3 h pc (toPt o) mov (st2 h pc (toPt o) mov (st1 h pc p (toPt o) mov))).wk = (st1 h pc p (toPt o) mov).wk := by
    rw [(st3_wk h pc (toPt o) mov _).1, (st2_wk h pc (toPt o) mov _).1]
  have hk3' : (st3 h pc (toPt o) mov (st2 h pc (toPt o) mov (st1 h pc p (toPt o) mov))).bk = (st1 h pc p (toPt o) mov).bk := by
    rw [(st3_wk h pc (toPt o) mov _).2, (st2_wk h pc (toPt o) mov _).2]
  have hi3 : InnerOK (st3 h pc (toPt o) mov (st2 h pc (toPt o) mov (st1 h pc p (toPt o) mov))).board := by rw [hb3]; exact hi1
  have hk3 : KingsOK (st3 h pc (toPt o) mov (st2 h pc (toPt o) mov (st1 h pc p (toPt o) mov))) :=
    kingsOK_congr _ _ hk1 hb3 hw3 hk3'
  -- promotion fan-out: the arriving pawn is replaced by a piece that is not a king
  have promo_case : ∀ c : Color, pc = ⟨c, .pawn⟩ →
      ∀ q ∈ promotePawn h (st3 h pc (toPt o) mov (st2 h pc (toPt o) mov (st1 h pc p (toPt o) mov))) c (toPt o) mov,
        InnerOK q.board ∧ KingsOK q := by
    intro c hpcc q hq
    unfold promotePawn at hq
    obtain ⟨kind, hkind, rfl⟩ := List.mem_map.mp hq
    have hkk : kind ≠ .king := by
      simp only [Gen.promotionOrder, List.mem_cons, List.mem_nil_iff, or_false] at hkind
      rcases hkind with rfl | rfl | rfl | rfl <;> decide
    constructor
    · show InnerOK (((st3 h pc (toPt o) mov (st2 h pc (toPt o) mov (st1 h pc p (toPt o) mov))).unsetEp h).board.set
        mov.row mov.col (.full ⟨c, kind⟩))
      rw [unsetEp_board]
      exact innerOK_set _ mov _ hi3 (by simp)
    · apply kingsOK_of_same_kings _ _ hk3
      · show ((st3 h pc (toPt o) mov (st2 h pc (toPt o) mov (st1 h pc p (toPt o) mov))).unsetEp h).wk = _
        simp
      · show ((st3 h pc (toPt o) mov (st2 h pc (toPt o) mov (st1 h pc p (toPt o) mov))).unsetEp h).bk = _
        simp
      · intro c' r k
        show (((st3 h pc (toPt o) mov (st2 h pc (toPt o) mov (st1 h pc p (toPt o) mov))).unsetEp h).board.set
          mov.row mov.col (.full ⟨c, kind⟩)).get r k = _ ↔ _
        rw [unsetEp_board, hb3, hb]
        unfold OnBoard at hm
        by_cases e : mov.row = r ∧ mov.col = k
        · obtain ⟨rfl, rfl⟩ := e
          rw [Board.get_set_eq _ _ _ _ (by omega) (by omega), Board.get_set_eq _ _ _ _ (by omega) (by omega), hpcc]
          constructor
          · intro hx; injection hx with hx; injection hx with _ hx; exact absurd hx hkk
          · intro hx; injection hx with hx; injection hx with _ hx; cases hx
        · rw [Board.get_set_ne _ _ _ _ _ _ e]
  rw [succsForTarget_eq] at hq
  split at hq
  · cases hq
  · unfold st4 at hq
    split at hq
    · rename_i hw
      have : pc = ⟨.white, .pawn⟩ := by cases pc; simp only at hw; rw [hw.2.1, hw.2.2]
      exact promo_case .white this q hq
    · split at hq
      · rename_i hbk
        have : pc = ⟨.black, .pawn⟩ := by cases pc; simp only at hbk; rw [hbk.2.1, hbk.2.2]
        exact promo_case .black this q hq
      · simp only [List.mem_singleton] at hq
        subst hq
        exact ⟨hi3, hk3⟩

theorem castle_wks_wf (p : Pos) (wf : WFp p) (hcan : canCastle p .wks = true) :
    InnerOK (castleSucc h p .wks).board ∧ KingsOK (castleSucc h p .wks) := by
  unfold canCastle at hcan
  simp only [Bool.and_eq_true, Bool.not_eq_true'] at hcan
  obtain ⟨⟨⟨⟨⟨hright, he7⟩, he8⟩, _⟩, _⟩, _⟩ := hcan
  obtain ⟨hK, hRk⟩ := wf.lp.wks hright
  have gK : p.board.get 9 6 = .full ⟨.white, .king⟩ := get_of_at p ⟨4, 0⟩ (by decide) _ hK
  have gR : p.board.get 9 9 = .full ⟨.white, .rook⟩ := get_of_at p ⟨7, 0⟩ (by decide) _ hRk
  have hwk : p.wk = ⟨9, 6⟩ := ((wf.kings .white).2 9 6 gK).symm
  have g7 : p.board.get 9 7 = .empty := by cases hx : p.board.get 9 7 <;> simp_all [Square.isEmpty]
  have g8 : p.board.get 9 8 = .empty := by cases hx : p.board.get 9 8 <;> simp_all [Square.isEmpty]
  obtain ⟨sb, swk, sbk, _⟩ := castleSucc_shape_wks h p hwk gK gR
  have cc : CCols 8 9 7 := ⟨by omega, by omega, by omega, by omega, by omega, by omega, by omega, by omega, by omega⟩
  exact ⟨by rw [sb]; exact castled_inner _ wf.inner 9 8 9 7 _ _,
    castled_kings p _ wf.kings .white 9 8 9 7 cc (by omega) hwk gR g8 g7 sb swk sbk⟩

theorem castle_wqs_wf (p : Pos) (wf : WFp p) (hcan : canCastle p .wqs = true) :
    InnerOK (castleSucc h p .wqs).board ∧ KingsOK (castleSucc h p .wqs) := by
  unfold canCastle at hcan
  simp only [Bool.and_eq_true, Bool.not_eq_true'] at hcan
  obtain ⟨⟨⟨⟨⟨⟨hright, he3⟩, he4⟩, he5⟩, _⟩, _⟩, _⟩ := hcan
  obtain ⟨hK, hRk⟩ := wf.lp.wqs hright
  have gK : p.board.get 9 6 = .full ⟨.white, .king⟩ := get_of_at p ⟨4, 0⟩ (by decide) _ hK
  have gR : p.board.get 9 2 = .full ⟨.white, .rook⟩ := get_of_at p ⟨0, 0⟩ (by decide) _ hRk
  have hwk : p.wk = ⟨9, 6⟩ := ((wf.kings .white).2 9 6 gK).symm
  have g4 : p.board.get 9 4 = .empty := by cases hx : p.board.get 9 4 <;> simp_all [Square.isEmpty]
  have g5 : p.board.get 9 5 = .empty := by cases hx : p.board.get 9 5 <;> simp_all [Square.isEmpty]
  obtain ⟨sb, swk, sbk, _⟩ := castleSucc_shape_wqs h p hwk gK gR
  have cc : CCols 4 2 5 := ⟨by omega, by omega, by omega, by omega, by omega, by omega, by omega, by omega, by omega⟩
  exact ⟨by rw [sb]; exact castled_inner _ wf.inner 9 4 2 5 _ _,
    castled_kings p _ wf.kings .white 9 4 2 5 cc (by omega) hwk gR g4 g5 sb swk sbk⟩

theorem castle_bks_wf (p : Pos) (wf : WFp p) (hcan : canCastle p .bks = true) :
    InnerOK (castleSucc h p .bks).board ∧ KingsOK (castleSucc h p .bks) := by
  unfold canCastle at hcan
  simp only [Bool.and_eq_true, Bool.not_eq_true'] at hcan
  obtain ⟨⟨⟨⟨⟨hright, he7⟩, he8⟩, _⟩, _⟩, _⟩ := hcan
  obtain ⟨hK, hRk⟩ := wf.lp.bks hright
  have gK : p.board.get 2 6 = .full ⟨.black, .king⟩ := get_of_at p ⟨4, 7⟩ (by decide) _ hK
  have gR : p.board.get 2 9 = .full ⟨.black, .rook⟩ := get_of_at p ⟨7, 7⟩ (by decide) _ hRk
  have hwk : p.bk = ⟨2, 6⟩ := ((wf.kings .black).2 2 6 gK).symm
  have g7 : p.board.get 2 7 = .empty := by cases hx : p.board.get 2 7 <;> simp_all [Square.isEmpty]
  have g8 : p.board.get 2 8 = .empty := by cases hx : p.board.get 2 8 <;> simp_all [Square.isEmpty]
  obtain ⟨sb, swk, sbk, _⟩ := castleSucc_shape_bks h p hwk gK gR
  have cc : CCols 8 9 7 := ⟨by omega, by omega, by omega, by omega, by omega, by omega, by omega, by omega, by omega⟩
  exact ⟨by rw [sb]; exact castled_inner _ wf.inner 2 8 9 7 _ _,
    castled_kings p _ wf.kings .black 2 8 9 7 cc (by omega) hwk gR g8 g7 sb swk sbk⟩

theorem castle_bqs_wf (p : Pos) (wf : WFp p) (hcan : canCastle p .bqs = true) :
    InnerOK (castleSucc h p .bqs).board ∧ KingsOK (castleSucc h p .bqs) := by
  unfold canCastle at hcan
  simp only [Bool.and_eq_true, Bool.not_eq_true'] at hcan
  obtain ⟨⟨⟨⟨⟨⟨hright, he3⟩, he4⟩, he5⟩, _⟩, _⟩, _⟩ := hcan
  obtain ⟨hK, hRk⟩ := wf.lp.bqs hright
  have gK : p.board.get 2 6 = .full ⟨.black, .king⟩ := get_of_at p ⟨4, 7⟩ (by decide) _ hK
  have gR : p.board.get 2 2 = .full ⟨.black, .rook⟩ := get_of_at p ⟨0, 7⟩ (by decide) _ hRk
  have hwk : p.bk = ⟨2, 6⟩ := ((wf.kings .black).2 2 6 gK).symm
  have g4 : p.board.get 2 4 = .empty := by cases hx : p.board.get 2 4 <;> simp_all [Square.isEmpty]
  have g5 : p.board.get 2 5 = .empty := by cases hx : p.board.get 2 5 <;> simp_all [Square.isEmpty]
  obtain ⟨sb, swk, sbk, _⟩ := castleSucc_shape_bqs h p hwk gK gR
  have cc : CCols 4 2 5 := ⟨by omega, by omega, by omega, by omega, by omega, by omega, by omega, by omega, by omega⟩
  exact ⟨by rw [sb]; exact castled_inner _ wf.inner 2 4 2 5 _ _,
    castled_kings p _ wf.kings .black 2 4 2 5 cc (by omega) hwk gR g4 g5 sb swk sbk⟩

theorem epSuccs_wf (p : Pos) (wf : WFp p) (o : Spec.Sq) (ho : InB o) (pc : Piece)
    (hpc : p.board.get (toPt o).row (toPt o).col = .full pc) (hcol : pc.color = p.toMove) :
    ∀ q ∈ epSuccs h pc p (toPt o), InnerOK q.board ∧ KingsOK q := by
  intro q hq
  rw [epSuccs_eq] at hq
  split at hq
  · rename_i hcond
    obtain ⟨_, hkind⟩ := hcond
    split at hq
    · cases hq
    · rename_i mov hmv
      split at hq
      · simp only [List.mem_singleton] at hq
        subst hq
        obtain ⟨c, k⟩ := pc
        simp only at hkind hcol
        subst hkind
        have hep := pawnMovesEnPassant_eq _ _ _ p mov hmv
        have hm := wf.epb mov hep
        obtain ⟨_, hgeo⟩ := (pawnMovesEnPassant_iff ⟨c, .pawn⟩ _ _ p mov (by unfold toPt; simp only; omega)).mp hmv
        have x : EpCtx p o c mov := ⟨ho, hm, hpc, hcol, hep, by unfold EpGeo; cases c <;> exact hgeo⟩
        refine ⟨?_, ep_kingsOK h p wf.kings wf.ring wf.lp o c mov x⟩
        rw [epBoard_board h c p (toPt o) mov hpc]
        exact innerOK_set _ ⟨capRow c mov.row, mov.col⟩ _
          (innerOK_set _ mov _ (innerOK_set _ (toPt o) _ wf.inner (by simp)) (by simp)) (by simp)
      · cases hq
  · cases hq

/-- no inner sentinel and right king caches in every successor of the full move generation -/
theorem generateMoves_wf_model (p : Pos) (wf : WFp p) :
    ∀ q ∈ generateMoves h p .all, InnerOK q.board ∧ KingsOK q := by
  intro q hq
  unfold generateMoves at hq
  rcases List.mem_append.mp hq with h1 | h1
  · obtain ⟨pt, hpt, hin⟩ := List.mem_flatMap.mp h1
    have hon : OnBoard pt := (mem_boardCoords pt).mp hpt
    have ho := specOf_inB pt hon
    have hto := toPt_specOf pt hon
    cases hsq : p.board.get pt.row pt.col with
    | empty => rw [hsq] at hin; cases hin
    | boundary => rw [hsq] at hin; cases hin
    | full piece =>
      rw [hsq] at hin
      simp only at hin
      split at hin
      · rename_i hcol
        unfold generateMovesForPiece at hin
        have hpc : p.board.get (toPt (specOf pt)).row (toPt (specOf pt)).col = .full piece := by rw [hto]; exact hsq
        rcases List.mem_append.mp hin with h2 | h2
        · obtain ⟨mov, hmov, hqm⟩ := List.mem_flatMap.mp h2
          rw [← hto] at hmov hqm
          exact succsForTarget_wf h p wf (specOf pt) ho piece hpc hcol mov hmov q hqm
        · rw [← hto] at h2
          exact epSuccs_wf h p wf (specOf pt) ho piece hpc hcol q h2
      · cases hin
  · simp only [if_true] at h1
    rcases mem_castling' h p q h1 with ⟨rfl, _, hc⟩ | ⟨rfl, _, hc⟩ | ⟨rfl, _, hc⟩ | ⟨rfl, _, hc⟩
    · exact castle_wks_wf h p wf hc
    · exact castle_wqs_wf h p wf hc
    · exact castle_bks_wf h p wf hc
    · exact castle_bqs_wf h p wf hc

end Walleye
