/-
  The fine-grained hand-over machine (Model/HandoverFine.lean): mutual exclusion of the two critical
  sections is PROVED from the lock discipline, the output has the shape info* [bestmove] under every
  schedule of the micro-steps, nothing follows the bestmove, and no reachable state is a deadlock.
-/
import Walleye.Model.HandoverFine
import Walleye.Proofs.Handover
namespace Walleye.HandoverFine

open Handover (Act Line infos boards infos_append boards_append)

variable {B I : Type}

/-! ### control invariants -/

structure Ctl (s : FSt B I) : Prop where
  mutex : ¬ (sHolds s = true ∧ mHolds s = true)
  closedIff : s.isOpen = false ↔ (s.mpc = .closed ∨ s.mpc = .fin)
  hold2open : ∀ m i, s.spc = .hold2 m i → s.isOpen = true
  holdsBoard : s.mpc ≠ .poll → s.best.isSome = true

theorem ctl_init (acts : List (Act B I)) : Ctl (finit acts) := by
  refine ⟨?_, ?_, ?_, ?_⟩
  · simp [finit, sHolds]
  · simp [finit]
  · intro m i h; simp [finit] at h
  · intro h; simp [finit] at h

theorem ctl_search (s : FSt B I) (h : Ctl s) : Ctl (searchStep s) := by
  obtain ⟨h1, h2, h3, h4⟩ := h
  unfold searchStep
  cases hs : s.spc with
  | dead => simp only; exact ⟨h1, h2, h3, h4⟩
  | idle =>
    simp only
    cases ht : s.todo with
    | nil =>
      simp only
      refine ⟨?_, h2, ?_, h4⟩
      · simp [sHolds]
      · intro m i hh; cases hh
    | cons a t =>
      cases a with
      | fallback m =>
        simp only
        split
        · refine ⟨?_, h2, ?_, h4⟩
          · simpa [sHolds, mHolds, hs] using h1
          · intro m' i' hh; simp [hs] at hh
        · refine ⟨?_, h2, ?_, h4⟩
          · simp [sHolds]
          · intro m' i' hh; cases hh
      | accept m i =>
        simp only
        refine ⟨?_, h2, ?_, h4⟩
        · simp [sHolds]
        · intro m' i' hh; cases hh
  | want m i =>
    simp only
    split
    · exact ⟨by simpa [hs] using h1, h2, by simpa [hs] using h3, h4⟩
    · rename_i hm
      refine ⟨?_, h2, ?_, h4⟩
      · intro hc; exact hm (by simpa [mHolds] using hc.2)
      · intro m' i' hh; cases hh
  | hold1 m i =>
    simp only
    split
    · rename_i ho
      refine ⟨?_, h2, ?_, h4⟩
      · simpa [sHolds, mHolds, hs] using h1
      · intro _ _ _; exact ho
    · refine ⟨?_, h2, ?_, h4⟩
      · simp [sHolds]
      · intro m' i' hh; cases hh
  | hold2 m i =>
    simp only
    refine ⟨?_, h2, ?_, h4⟩
    · simp [sHolds]
    · intro m' i' hh; cases hh

theorem ctl_main (s : FSt B I) (h : Ctl s) : Ctl (mainStep s) := by
  obtain ⟨h1, h2, h3, h4⟩ := h
  unfold mainStep
  cases hm : s.mpc with
  | poll =>
    simp only
    cases hc : s.chan with
    | nil => simp only; exact ⟨h1, h2, h3, h4⟩
    | cons b r =>
      simp only
      refine ⟨?_, by simpa [hm] using h2, h3, ?_⟩
      · simpa [sHolds, mHolds, hm] using h1
      · intro _; rfl
  | want =>
    simp only
    split
    · exact ⟨h1, h2, h3, h4⟩
    · rename_i hsh
      refine ⟨?_, ?_, h3, ?_⟩
      · intro hc; exact hsh (by simpa [sHolds] using hc.1)
      · simpa [hm] using h2
      · intro _; exact h4 (by rw [hm]; intro hh; cases hh)
  | hold =>
    simp only
    have hb := h4 (by rw [hm]; intro hh; cases hh)
    refine ⟨?_, ?_, h3, ?_⟩
    · simpa [sHolds, mHolds, hm] using h1
    · simpa [hm] using h2
    · intro _
      cases s.chan.getLast? with
      | none => exact hb
      | some x => rfl
  | drained =>
    simp only
    refine ⟨?_, ?_, ?_, ?_⟩
    · simpa [sHolds, mHolds, hm] using h1
    · simp
    · intro m i hh
      exfalso
      have hh' : s.spc = .hold2 m i := hh
      exact h1 ⟨by simp [sHolds, hh'], by simp [mHolds, hm]⟩
    · intro _; exact h4 (by rw [hm]; intro hh; cases hh)
  | closed =>
    simp only
    have ho : s.isOpen = false := h2.mpr (.inl hm)
    cases hb : s.best with
    | none =>
      simp only
      refine ⟨?_, ?_, h3, ?_⟩
      · simp [mHolds]
      · simp [ho]
      · intro _; have := h4 (by rw [hm]; intro hh; cases hh); rw [hb] at this; cases this
    | some b =>
      simp only
      refine ⟨?_, ?_, h3, ?_⟩
      · simp [mHolds]
      · simp [ho]
      · intro _; rfl
  | fin => simp only; exact ⟨h1, h2, h3, h4⟩

theorem ctl_deadline (s : FSt B I) (h : Ctl s) : Ctl (deadlineStep s) := by
  obtain ⟨h1, h2, h3, h4⟩ := h
  unfold deadlineStep
  cases hm : s.mpc with
  | poll =>
    simp only
    split
    · rename_i hb
      refine ⟨?_, ?_, h3, ?_⟩
      · simp [mHolds]
      · simpa [hm] using h2
      · intro _; exact hb
    · exact ⟨h1, h2, h3, h4⟩
  | want => exact ⟨h1, h2, h3, h4⟩
  | hold => exact ⟨h1, h2, h3, h4⟩
  | drained => exact ⟨h1, h2, h3, h4⟩
  | closed => exact ⟨h1, h2, h3, h4⟩
  | fin => exact ⟨h1, h2, h3, h4⟩

theorem ctl_step (s : FSt B I) (e : FEv) (h : Ctl s) : Ctl (fstep s e) := by
  cases e
  · exact ctl_search s h
  · exact ctl_main s h
  · exact ctl_deadline s h

theorem ctl_foldl (evs : List FEv) : ∀ (s : FSt B I), Ctl s → Ctl (evs.foldl fstep s) := by
  induction evs with
  | nil => intro s h; exact h
  | cons e es ih => intro s h; exact ih _ (ctl_step s e h)

theorem ctl_run (acts : List (Act B I)) (evs : List FEv) : Ctl (frun acts evs) :=
  ctl_foldl evs _ (ctl_init acts)

/-! ### data invariants -/

/-- the board in flight of an improvement whose info line is still to be printed -/
def pendingBoard (s : FSt B I) : List B :=
  match s.spc with
  | .hold2 m _ => [m]
  | _ => []

/-- what is left of the search thread's programme -/
def RestOK (s : FSt B I) (rest : List (Act B I)) : Prop :=
  match s.spc with
  | .idle => rest = s.todo
  | .want m i => rest = .accept m i :: s.todo
  | .hold1 m i => rest = .accept m i :: s.todo
  | .hold2 m i => rest = .accept m i :: s.todo
  | .dead => True

structure Dat (acts : List (Act B I)) (s : FSt B I) : Prop where
  pre : ∃ rest, acts = s.done ++ rest ∧ RestOK s rest
  outOpen : s.mpc ≠ .fin → s.out = infos s.done
  outFin : s.mpc = .fin → ∃ b, s.out = infos s.done ++ [.best b] ∧ s.best = some b
  sentEq : s.sent = boards s.done ++ pendingBoard s
  chanInv : (s.mpc = .poll ∨ s.mpc = .want ∨ s.mpc = .hold) →
    ∃ taken, s.sent = taken ++ s.chan ∧ s.best = taken.getLast?
  drainInv : (s.mpc = .drained ∨ s.mpc = .closed ∨ s.mpc = .fin) →
    s.best = s.atDrain.getLast? ∧ ∃ late, s.sent = s.atDrain ++ late

theorem dat_init (acts : List (Act B I)) : Dat acts (finit acts) := by
  refine ⟨⟨acts, rfl, rfl⟩, fun _ => rfl, ?_, rfl, fun _ => ⟨[], rfl, rfl⟩, ?_⟩
  · intro h; simp [finit] at h
  · intro h; simp [finit] at h

theorem dat_search (acts : List (Act B I)) (s : FSt B I) (hc : Ctl s) (h : Dat acts s) : Dat acts (searchStep s) := by
  obtain ⟨⟨rest, hacts, hrest⟩, ho, hf, hse, hch, hdr⟩ := h
  unfold searchStep
  cases hs : s.spc with
  | dead => simp only; exact ⟨⟨rest, hacts, hrest⟩, ho, hf, hse, hch, hdr⟩
  | idle =>
    simp only
    have hrest' : rest = s.todo := by simpa [RestOK, hs] using hrest
    have hpb : pendingBoard s = [] := by simp [pendingBoard, hs]
    cases ht : s.todo with
    | nil =>
      simp only
      exact ⟨⟨rest, hacts, by simp [RestOK]⟩, ho, hf, (by rw [hse, hpb]; simp [pendingBoard]), hch, hdr⟩
    | cons a t =>
      cases a with
      | fallback m =>
        simp only
        split
        · refine ⟨⟨t, ?_, by simp [RestOK, hs]⟩, ?_, ?_, ?_, ?_, ?_⟩
          · rw [hacts, hrest', ht]; simp
          · intro hm; simp only [infos_append]; rw [ho hm]; simp [infos]
          · intro hm
            obtain ⟨b, h1, h2⟩ := hf hm
            exact ⟨b, by simp only [infos_append]; rw [h1]; simp [infos], h2⟩
          · simp only [boards_append]; rw [hse, hpb]; simp [pendingBoard, hs, boards, Act.board]
          · intro hm
            obtain ⟨taken, h1, h2⟩ := hch hm
            exact ⟨taken, by rw [h1, List.append_assoc], h2⟩
          · intro hm
            obtain ⟨h1, late, h2⟩ := hdr hm
            exact ⟨h1, late ++ [m], by rw [h2, List.append_assoc]⟩
        · exact ⟨⟨rest, hacts, by simp [RestOK]⟩, ho, hf, (by rw [hse, hpb]; simp [pendingBoard]), hch, hdr⟩
      | accept m i =>
        simp only
        refine ⟨⟨rest, hacts, ?_⟩, ho, hf, (by rw [hse, hpb]; simp [pendingBoard]), hch, hdr⟩
        simp [RestOK]; rw [hrest', ht]
  | want m i =>
    simp only
    have hpb : pendingBoard s = [] := by simp [pendingBoard, hs]
    split
    · exact ⟨⟨rest, hacts, hrest⟩, ho, hf, hse, hch, hdr⟩
    · exact ⟨⟨rest, hacts, by simpa [RestOK, hs] using hrest⟩, ho, hf, (by rw [hse, hpb]; simp [pendingBoard]), hch, hdr⟩
  | hold1 m i =>
    simp only
    have hpb : pendingBoard s = [] := by simp [pendingBoard, hs]
    split
    · refine ⟨⟨rest, hacts, by simpa [RestOK, hs] using hrest⟩, ho, hf, ?_, ?_, ?_⟩
      · rw [hse, hpb]; simp [pendingBoard]
      · intro hm
        obtain ⟨taken, h1, h2⟩ := hch hm
        exact ⟨taken, by rw [h1, List.append_assoc], h2⟩
      · intro hm
        obtain ⟨h1, late, h2⟩ := hdr hm
        exact ⟨h1, late ++ [m], by rw [h2, List.append_assoc]⟩
    · exact ⟨⟨rest, hacts, by simp [RestOK]⟩, ho, hf, (by rw [hse, hpb]; simp [pendingBoard]), hch, hdr⟩
  | hold2 m i =>
    simp only
    have hrest' : rest = .accept m i :: s.todo := by simpa [RestOK, hs] using hrest
    have hpb : pendingBoard s = [m] := by simp [pendingBoard, hs]
    have hopen : s.isOpen = true := hc.hold2open m i hs
    have hnf : s.mpc ≠ .fin := by
      intro hm
      have := hc.closedIff.mpr (.inr hm)
      rw [hopen] at this; cases this
    refine ⟨⟨s.todo, ?_, by simp [RestOK]⟩, ?_, ?_, ?_, hch, hdr⟩
    · rw [hacts, hrest']; simp
    · intro _; simp only [infos_append]; rw [ho hnf]; rfl
    · intro hm; exact absurd hm hnf
    · simp only [boards_append]; rw [hse, hpb]; simp [pendingBoard, boards, Act.board]

theorem dat_main (acts : List (Act B I)) (s : FSt B I) (hc : Ctl s) (h : Dat acts s) : Dat acts (mainStep s) := by
  obtain ⟨⟨rest, hacts, hrest⟩, ho, hf, hse, hch, hdr⟩ := h
  unfold mainStep
  cases hm : s.mpc with
  | poll =>
    simp only
    cases hcn : s.chan with
    | nil => simp only; exact ⟨⟨rest, hacts, hrest⟩, ho, hf, hse, hch, hdr⟩
    | cons b r =>
      simp only
      refine ⟨⟨rest, hacts, hrest⟩, fun _ => ho (by rw [hm]; intro h; cases h), ?_, hse, ?_, ?_⟩
      · intro h; cases h
      · intro _
        obtain ⟨taken, h1, _⟩ := hch (.inl hm)
        exact ⟨taken ++ [b], by rw [h1, hcn]; simp, by simp⟩
      · intro h; rcases h with h | h | h <;> cases h
  | want =>
    simp only
    split
    · exact ⟨⟨rest, hacts, hrest⟩, ho, hf, hse, hch, hdr⟩
    · refine ⟨⟨rest, hacts, hrest⟩, fun _ => ho (by rw [hm]; intro h; cases h), ?_, hse, ?_, ?_⟩
      · intro h; cases h
      · intro _; exact hch (.inr (.inl hm))
      · intro h; rcases h with h | h | h <;> cases h
  | hold =>
    simp only
    obtain ⟨taken, h1, h2⟩ := hch (.inr (.inr hm))
    refine ⟨⟨rest, hacts, hrest⟩, fun _ => ho (by rw [hm]; intro h; cases h), ?_, hse, ?_, ?_⟩
    · intro h; cases h
    · intro h; rcases h with h | h | h <;> cases h
    · intro _
      refine ⟨?_, [], by simp⟩
      rw [h1, List.getLast?_append, ← h2]
      cases s.chan.getLast? <;> rfl
  | drained =>
    simp only
    refine ⟨⟨rest, hacts, hrest⟩, fun _ => ho (by rw [hm]; intro h; cases h), ?_, hse, ?_, ?_⟩
    · intro h; cases h
    · intro h; rcases h with h | h | h <;> cases h
    · intro _; exact hdr (.inl hm)
  | closed =>
    simp only
    have hb := hc.holdsBoard (by rw [hm]; intro h; cases h)
    cases hbst : s.best with
    | none => rw [hbst] at hb; cases hb
    | some b =>
      simp only
      refine ⟨⟨rest, hacts, hrest⟩, ?_, ?_, hse, ?_, ?_⟩
      · intro h; exact absurd rfl h
      · intro _; exact ⟨b, by rw [ho (by rw [hm]; intro h; cases h)], rfl⟩
      · intro h; rcases h with h | h | h <;> cases h
      · intro _
        have := hdr (.inr (.inl hm))
        rw [hbst] at this
        exact this
  | fin => simp only; exact ⟨⟨rest, hacts, hrest⟩, ho, hf, hse, hch, hdr⟩

theorem dat_deadline (acts : List (Act B I)) (s : FSt B I) (h : Dat acts s) : Dat acts (deadlineStep s) := by
  obtain ⟨⟨rest, hacts, hrest⟩, ho, hf, hse, hch, hdr⟩ := h
  unfold deadlineStep
  cases hm : s.mpc with
  | poll =>
    simp only
    split
    · refine ⟨⟨rest, hacts, hrest⟩, fun _ => ho (by rw [hm]; intro h; cases h), ?_, hse, ?_, ?_⟩
      · intro h; cases h
      · intro _; exact hch (.inl hm)
      · intro h; rcases h with h | h | h <;> cases h
    · exact ⟨⟨rest, hacts, hrest⟩, ho, hf, hse, hch, hdr⟩
  | want => exact ⟨⟨rest, hacts, hrest⟩, ho, hf, hse, hch, hdr⟩
  | hold => exact ⟨⟨rest, hacts, hrest⟩, ho, hf, hse, hch, hdr⟩
  | drained => exact ⟨⟨rest, hacts, hrest⟩, ho, hf, hse, hch, hdr⟩
  | closed => exact ⟨⟨rest, hacts, hrest⟩, ho, hf, hse, hch, hdr⟩
  | fin => exact ⟨⟨rest, hacts, hrest⟩, ho, hf, hse, hch, hdr⟩

theorem inv_foldl (acts : List (Act B I)) (evs : List FEv) :
    ∀ (s : FSt B I), Ctl s → Dat acts s → Ctl (evs.foldl fstep s) ∧ Dat acts (evs.foldl fstep s) := by
  induction evs with
  | nil => intro s h1 h2; exact ⟨h1, h2⟩
  | cons e es ih =>
    intro s h1 h2
    apply ih _ (ctl_step s e h1)
    cases e
    · exact dat_search acts s h1 h2
    · exact dat_main acts s h1 h2
    · exact dat_deadline acts s h2

theorem dat_run (acts : List (Act B I)) (evs : List FEv) : Dat acts (frun acts evs) :=
  (inv_foldl acts evs _ (ctl_init acts) (dat_init acts)).2

/-! ### what is sent after the drain is a plain send (never an improvement) -/

def afterDrain (s : FSt B I) : Prop := s.mpc = .drained ∨ s.mpc = .closed ∨ s.mpc = .fin

def Late (s : FSt B I) : Prop :=
  afterDrain s → ∃ early late, s.done = early ++ late ∧ boards early = s.atDrain ∧ ∀ a ∈ late, ∃ m, a = Act.fallback m

theorem not_hold2_after_drain (s : FSt B I) (hc : Ctl s) (h : afterDrain s) (m : B) (i : I) : s.spc ≠ .hold2 m i := by
  intro hs
  have hopen := hc.hold2open m i hs
  rcases h with h | h | h
  · exact hc.mutex ⟨by simp [sHolds, hs], by simp [mHolds, h]⟩
  · exact hc.mutex ⟨by simp [sHolds, hs], by simp [mHolds, h]⟩
  · have := hc.closedIff.mpr (.inr h); rw [hopen] at this; cases this

theorem late_search (acts : List (Act B I)) (s : FSt B I) (hc : Ctl s) (h : Late s) : Late (searchStep s) := by
  unfold searchStep
  cases hs : s.spc with
  | dead => exact h
  | idle =>
    simp only
    cases ht : s.todo with
    | nil => exact h
    | cons a t =>
      cases a with
      | fallback m =>
        simp only
        split
        · intro had
          obtain ⟨early, late, h1, h2, h3⟩ := h had
          refine ⟨early, late ++ [.fallback m], by simp [h1], h2, ?_⟩
          intro a ha
          rcases List.mem_append.mp ha with ha | ha
          · exact h3 a ha
          · exact ⟨m, by simpa using ha⟩
        · exact h
      | accept m i => exact h
  | want m i => simp only; split <;> exact h
  | hold1 m i =>
    simp only
    split
    · exact h
    · exact h
  | hold2 m i =>
    simp only
    intro had
    exact absurd hs (not_hold2_after_drain s hc had m i)

theorem late_main (acts : List (Act B I)) (s : FSt B I) (hc : Ctl s) (hd : Dat acts s) (h : Late s) : Late (mainStep s) := by
  unfold mainStep
  cases hm : s.mpc with
  | poll =>
    simp only
    cases s.chan with
    | nil => exact h
    | cons b r => intro had; rcases had with h' | h' | h' <;> cases h'
  | want =>
    simp only
    split
    · exact h
    · intro had; rcases had with h' | h' | h' <;> cases h'
  | hold =>
    simp only
    intro _
    have hns : sHolds s = false := by
      cases hh : sHolds s with
      | false => rfl
      | true => exact absurd ⟨hh, by simp [mHolds, hm]⟩ hc.mutex
    have hpb : pendingBoard s = [] := by
      unfold pendingBoard
      cases hs : s.spc with
      | hold2 m i => simp [sHolds, hs] at hns
      | _ => rfl
    exact ⟨s.done, [], by simp, by rw [hd.sentEq, hpb]; simp, by intro a ha; cases ha⟩
  | drained => simp only; intro _; exact h (.inl hm)
  | closed =>
    simp only
    cases s.best with
    | none => simp only; intro _; exact h (.inr (.inl hm))
    | some b => simp only; intro _; exact h (.inr (.inl hm))
  | fin => exact h

theorem late_deadline (s : FSt B I) (h : Late s) : Late (deadlineStep s) := by
  unfold deadlineStep
  cases hm : s.mpc with
  | poll =>
    simp only
    split
    · intro had; rcases had with h' | h' | h' <;> cases h'
    · exact h
  | want => exact h
  | hold => exact h
  | drained => exact h
  | closed => exact h
  | fin => exact h

theorem all_foldl (acts : List (Act B I)) (evs : List FEv) :
    ∀ (s : FSt B I), Ctl s → Dat acts s → Late s →
      Ctl (evs.foldl fstep s) ∧ Dat acts (evs.foldl fstep s) ∧ Late (evs.foldl fstep s) := by
  induction evs with
  | nil => intro s h1 h2 h3; exact ⟨h1, h2, h3⟩
  | cons e es ih =>
    intro s h1 h2 h3
    apply ih _ (ctl_step s e h1)
    · cases e
      · exact dat_search acts s h1 h2
      · exact dat_main acts s h1 h2
      · exact dat_deadline acts s h2
    · cases e
      · exact late_search acts s h1 h3
      · exact late_main acts s h1 h2 h3
      · exact late_deadline s h3

theorem late_run (acts : List (Act B I)) (evs : List FEv) : Late (frun acts evs) :=
  (all_foldl acts evs _ (ctl_init acts) (dat_init acts) (by intro h; rcases h with h | h | h <;> simp [finit] at h)).2.2

/-! ### after the bestmove nothing is printed -/

theorem out_frozen (s : FSt B I) (hc : Ctl s) (e : FEv) (h : s.mpc = .fin) :
    (fstep s e).mpc = .fin ∧ (fstep s e).out = s.out := by
  cases e with
  | search =>
    show (searchStep s).mpc = .fin ∧ (searchStep s).out = s.out
    unfold searchStep
    cases hs : s.spc with
    | dead => exact ⟨h, rfl⟩
    | idle =>
      simp only
      cases s.todo with
      | nil => exact ⟨h, rfl⟩
      | cons a t =>
        cases a with
        | fallback m => simp only; split <;> exact ⟨h, rfl⟩
        | accept m i => exact ⟨h, rfl⟩
    | want m i => simp only; split <;> exact ⟨h, rfl⟩
    | hold1 m i => simp only; split <;> exact ⟨h, rfl⟩
    | hold2 m i => exact absurd hs (not_hold2_after_drain s hc (.inr (.inr h)) m i)
  | main =>
    show (mainStep s).mpc = .fin ∧ (mainStep s).out = s.out
    unfold mainStep; rw [h]; exact ⟨h, rfl⟩
  | deadline =>
    show (deadlineStep s).mpc = .fin ∧ (deadlineStep s).out = s.out
    unfold deadlineStep; rw [h]; exact ⟨h, rfl⟩

theorem out_frozen_foldl (evs : List FEv) : ∀ (s : FSt B I), Ctl s → s.mpc = .fin →
    (evs.foldl fstep s).out = s.out := by
  induction evs with
  | nil => intro s _ _; rfl
  | cons e es ih =>
    intro s hc h
    obtain ⟨h1, h2⟩ := out_frozen s hc e h
    exact (ih _ (ctl_step s e hc) h1).trans h2

/-! ### no deadlock -/

/-- a thread holding the lock needs no one else to release it: two steps of the search thread -/
theorem search_releases (s : FSt B I) (h : sHolds s = true) :
    sHolds (searchStep (searchStep s)) = false ∨ sHolds (searchStep s) = false := by
  unfold sHolds at h
  cases hs : s.spc with
  | hold1 m i =>
    by_cases ho : s.isOpen = true
    · left
      have e1 : searchStep s = { s with chan := s.chan ++ [m], sent := s.sent ++ [m], spc := .hold2 m i } := by
        unfold searchStep; rw [hs]; simp only [ho, if_true]
      rw [e1]
      unfold searchStep
      simp [sHolds]
    · right
      unfold searchStep; rw [hs]; simp only [ho]; simp [sHolds]
  | hold2 m i =>
    right
    unfold searchStep; rw [hs]; simp [sHolds]
  | idle => rw [hs] at h; cases h
  | want m i => rw [hs] at h; cases h
  | dead => rw [hs] at h; cases h

/-- once the I/O thread has the lock, three more of its steps finish the answer, whatever the search
    thread does in between is irrelevant here: these are consecutive steps -/
theorem main_finishes_from_hold (s : FSt B I) (hc : Ctl s) (h : s.mpc = .hold) :
    (mainStep (mainStep (mainStep s))).mpc = .fin := by
  have hb := hc.holdsBoard (by rw [h]; intro hh; cases hh)
  have e1 : (mainStep s).mpc = .drained ∧ (mainStep s).best.isSome = true := by
    unfold mainStep; rw [h]; simp only
    refine ⟨trivial, ?_⟩
    cases s.chan.getLast? with
    | none => exact hb
    | some x => rfl
  have e2 : (mainStep (mainStep s)).mpc = .closed ∧ (mainStep (mainStep s)).best.isSome = true := by
    generalize mainStep s = s1 at e1
    unfold mainStep; rw [e1.1]; simp only; exact ⟨trivial, e1.2⟩
  generalize mainStep (mainStep s) = s2 at e2
  unfold mainStep; rw [e2.1]; simp only
  cases hb2 : s2.best with
  | none => have h2 := e2.2; rw [hb2] at h2
  | some b => rfl

/-- a waiting I/O thread gets the lock as soon as the search thread does not hold it -/
theorem main_acquires (s : FSt B I) (h : s.mpc = .want) (hf : sHolds s = false) : (mainStep s).mpc = .hold := by
  unfold mainStep; rw [h]; simp [hf]

/-- a waiting search thread gets the lock as soon as the I/O thread does not hold it -/
theorem search_acquires (s : FSt B I) (m : B) (i : I) (h : s.spc = .want m i) (hf : mHolds s = false) :
    (searchStep s).spc = .hold1 m i := by
  unfold searchStep; rw [h]; simp [hf]

/-- never are both threads waiting for each other: if the I/O thread is blocked the search thread
    holds the lock and can move, and vice versa -/
theorem never_both_blocked (s : FSt B I) (hc : Ctl s) :
    ¬ ((s.mpc = .want ∧ sHolds s = true) ∧ (∃ m i, s.spc = .want m i) ∧ mHolds s = true) := by
  rintro ⟨⟨_, h1⟩, _, h2⟩
  exact hc.mutex ⟨h1, h2⟩

theorem searchStep_mpc (s : FSt B I) : (searchStep s).mpc = s.mpc := by
  unfold searchStep
  cases s.spc with
  | dead => rfl
  | idle =>
    simp only
    cases s.todo with
    | nil => rfl
    | cons a t => cases a <;> simp only <;> (try split) <;> rfl
  | want m i => simp only; split <;> rfl
  | hold1 m i => simp only; split <;> rfl
  | hold2 m i => rfl

/-- **no deadlock**: from every reachable state in which the I/O thread waits for the lock there is a
    schedule of at most six steps (the search thread leaving its critical section, then the I/O thread)
    after which the go is answered -/
theorem answer_is_reachable (s : FSt B I) (hc : Ctl s) (h : s.mpc = .want) :
    ∃ sched : List FEv, sched.length ≤ 6 ∧ (sched.foldl fstep s).mpc = .fin := by
  -- first get the lock free
  have hfree : ∃ pre : List FEv, pre.length ≤ 2 ∧ (∀ e ∈ pre, e = .search) ∧ sHolds (pre.foldl fstep s) = false := by
    cases hh : sHolds s with
    | false => exact ⟨[], by simp, by simp, hh⟩
    | true =>
      rcases search_releases s hh with h2 | h1
      · exact ⟨[.search, .search], by simp, by simp, h2⟩
      · exact ⟨[.search], by simp, by simp, h1⟩
  obtain ⟨pre, hlen, hall, hfr⟩ := hfree
  have hmpc : ∀ (l : List FEv) (t : FSt B I), (∀ e ∈ l, e = .search) → (l.foldl fstep t).mpc = t.mpc := by
    intro l
    induction l with
    | nil => intro t _; rfl
    | cons e es ih =>
      intro t he
      have : e = .search := he e (List.mem_cons_self ..)
      subst this
      rw [List.foldl_cons, ih _ (fun e' h' => he e' (List.mem_cons_of_mem _ h'))]
      exact searchStep_mpc t
  have hw : (pre.foldl fstep s).mpc = .want := by rw [hmpc pre s hall]; exact h
  have hc1 := ctl_foldl pre s hc
  refine ⟨pre ++ [.main, .main, .main, .main], by simp; omega, ?_⟩
  rw [List.foldl_append]
  generalize pre.foldl fstep s = s1 at hw hfr hc1 ⊢
  have hh := main_acquires s1 hw hfr
  have hc2 := ctl_main s1 hc1
  exact main_finishes_from_hold (mainStep s1) hc2 hh

end Walleye.HandoverFine
