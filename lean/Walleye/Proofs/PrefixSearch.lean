/-
  C07: every function of the search model satisfies `Lk` (Proofs/Prefix.lean); hence the improvements
  reported with the clock expiring at consultation k are a prefix of those reported with a later
  expiry, or none — for every game, ordering oracle, table, fuel and root.
-/
import Walleye.Proofs.Prefix
namespace Walleye

variable {P O : Type} {k : Nat} {e2 : Option Nat}

theorem get_bind_lk {β : Type} (f : SS P O → M (SS P O) β) (hf : ∀ s, Lk k e2 (f s))
    (hdep : ∀ s s' : SS P O, s.table = s'.table → f s = f s') : Lk k e2 (M.get >>= f) := by
  have e : ∀ s, (M.get >>= f) s = f s s := fun _ => rfl
  refine ⟨fun s hs => by rw [e]; exact (hf s).quiet s hs, fun s => by rw [e]; exact (hf s).mono s, ?_⟩
  intro s1 s2 hsim
  rw [e, e]
  have ht : s1.table = s2.table := by
    have : (setE none s1).table = (setE none s2).table := by rw [hsim.eq]
    exact this
  rw [← hdep s1 s2 ht]
  exact (hf s1).lock s1 s2 hsim

variable (g : Game P) (ord : Oracle P O)

macro "lk_auto" : tactic => `(tactic|
  repeat' (first
    | exact Lk.pure _
    | exact Lk.of_agn panic_agn
    | exact Lk.of_agn outOfFuel_agn
    | exact Lk.of_agn nodeSearched_agn
    | exact Lk.of_agn setPV_agn
    | exact Lk.of_agn (insertCur_agn _ _)
    | exact Lk.of_agn (getPV_agn _)
    | exact Lk.of_agn (getKillers_agn _)
    | exact Lk.of_agn (insertKiller_agn _ _)
    | exact Lk.of_agn (tableAdd_agn _)
    | exact Lk.of_agn (tableRemove_agn _)
    | exact Lk.of_agn (reportSent_agn _)
    | exact Lk.of_agn reset_agn
    | solve_by_elim
    | apply Lk.ite
    | apply Lk.bind
    | intro _
    | split
    | dsimp only))

section
variable (hl : Later k e2)
include hl

theorem quiesceLoop_lk (f : P → Int → Int → M (SS P O) Int) (hf : ∀ p a b, Lk k e2 (f p a b)) :
    ∀ (l : List P) (a b : Int), Lk k e2 (quiesceLoop f l a b) := by
  intro l
  induction l with
  | nil => intro a b; unfold quiesceLoop; lk_auto
  | cons m ms ih => intro a b; unfold quiesceLoop; lk_auto

theorem quiesce_lk : ∀ (fuel : Nat) (p : P) (a b : Int), Lk k e2 (quiesce g ord fuel p a b) := by
  intro fuel
  induction fuel with
  | zero => intro p a b; unfold quiesce; lk_auto
  | succ n ih =>
    intro p a b
    unfold quiesce
    have hl' := quiesceLoop_lk hl (quiesce g ord n) (fun p a b => ih p a b)
    have ho := order_lk (P := P) (O := O) hl ord
    lk_auto

theorem abLoop_lk (f : ABFun P O) (hf : ∀ p d ply a b n, Lk k e2 (f p d ply a b n)) :
    ∀ (l : List P) (d1 ply : Nat) (a b best : Int), Lk k e2 (abLoop g f l d1 ply a b best) := by
  intro l
  induction l with
  | nil => intro d1 ply a b best; unfold abLoop; lk_auto
  | cons m ms ih => intro d1 ply a b best; unfold abLoop; lk_auto

theorem abBody_lk (f : ABFun P O) (hf : ∀ p d ply a b n, Lk k e2 (f p d ply a b n))
    (p : P) (depth ply : Nat) (a b : Int) (n : Bool) : Lk k e2 (abBody g ord f p depth ply a b n) := by
  unfold abBody
  have hq := quiesce_lk g ord hl
  have hlp := abLoop_lk g hl f hf
  have ho := order_lk (P := P) (O := O) hl ord
  lk_auto

theorem alphaBeta_lk : ∀ (fuel : Nat) (p : P) (depth ply : Nat) (a b : Int) (n : Bool),
    Lk k e2 (alphaBeta g ord fuel p depth ply a b n) := by
  intro fuel
  induction fuel with
  | zero => intro p d ply a b n; unfold alphaBeta; lk_auto
  | succ m ih =>
    intro p d ply a b n
    unfold alphaBeta
    have hb := abBody_lk g ord hl (alphaBeta g ord m) (fun p d ply a b n => ih p d ply a b n) p d ply a b n
    have ht := tick_lk (P := P) (O := O) hl
    apply Lk.bind ht
    intro t
    split
    · lk_auto
    · apply Lk.bind (Lk.of_agn nodeSearched_agn)
      intro _
      apply get_bind_lk
      · intro s
        lk_auto
      · intro s s' hss
        simp only [hss]

theorem rootLoop_lk (fuel curDepth : Nat) (first : P) :
    ∀ (l : List P) (alpha : Int) (best : Option P), Lk k e2 (rootLoop g ord fuel curDepth first l alpha best) := by
  intro l
  have hab := alphaBeta_lk g ord hl fuel
  have ht := tick_lk (P := P) (O := O) hl
  induction l with
  | nil => intro alpha best; unfold rootLoop; lk_auto
  | cons m ms ih =>
    intro alpha best
    unfold rootLoop
    apply Lk.bind ht
    intro t
    split
    · lk_auto
    · apply Lk.bind (hab _ _ _ _ _ _)
      intro ev
      apply Lk.bind (Lk.of_agn (insertCur_agn _ _))
      intro _
      exact guard_lk hl (-ev > alpha) _ _ (acceptBlock_wlk _ _ _ _ (ih _ _)) (ih _ _)

theorem iterate_lk (fuel : Nat) (root : P) :
    ∀ (n curDepth : Nat) (moves : List P) (best : Option P), Lk k e2 (iterate g ord fuel root n curDepth moves best) := by
  intro n
  have hrl := rootLoop_lk g ord hl fuel
  have ho := order_lk (P := P) (O := O) hl ord
  induction n with
  | zero => intro c mv b; unfold iterate; lk_auto
  | succ m ih => intro c mv b; unfold iterate; lk_auto

theorem getBestMove_lk (fuel : Nat) (root : P) : Lk k e2 (getBestMove g ord fuel root) := by
  unfold getBestMove
  exact iterate_lk g ord hl fuel root _ _ _ _

end

/-- **C07**: giving the search a larger allowance (expiry at a later consultation of the clock, or never)
    never changes the sequence of improvements it reported under a smaller one — it only extends it.
    Every game, ordering oracle, repetition table, fuel and root; whatever the outcome of either run. -/
theorem reports_prefix (fuel : Nat) (root : P) (table : DrawTable) (o : O) (k : Nat) (e2 : Option Nat)
    (hl : Later k e2) :
    (getBestMove g ord fuel root (newSS (some k) table o)).st.infos <+:
      (getBestMove g ord fuel root (newSS e2 table o)).st.infos := by
  have hsim : Sim k e2 (newSS (P := P) (some k) table o) (newSS e2 table o) :=
    ⟨rfl, rfl, Nat.zero_le _, rfl⟩
  rcases (getBestMove_lk g ord hl fuel root).lock _ _ hsim with h | h
  · generalize getBestMove g ord fuel root (newSS (some k) table o) = r1 at h ⊢
    generalize getBestMove g ord fuel root (newSS e2 table o) = r2 at h ⊢
    cases r1 with
    | ok a t1 =>
      cases r2 with
      | ok b t2 =>
        have hs : Sim k e2 t1 t2 := h.2
        show t1.infos <+: t2.infos
        rw [hs.infos]; exact List.prefix_refl _
      | panic t2 => exact absurd h id
      | fuel t2 => exact absurd h id
    | panic t1 =>
      cases r2 with
      | ok b t2 => exact absurd h id
      | panic t2 =>
        have hs : Sim k e2 t1 t2 := h
        show t1.infos <+: t2.infos
        rw [hs.infos]; exact List.prefix_refl _
      | fuel t2 => exact absurd h id
    | fuel t1 =>
      cases r2 with
      | ok b t2 => exact absurd h id
      | panic t2 => exact absurd h id
      | fuel t2 =>
        have hs : Sim k e2 t1 t2 := h
        show t1.infos <+: t2.infos
        rw [hs.infos]; exact List.prefix_refl _
  · exact h.2

end Walleye
