/- which fields each board.rs mutator touches (simp set used by all successor proofs) -/
import Walleye.Proofs.Key
namespace Walleye

section
variable (h : Hasher) (p : Pos)

@[simp] theorem swapColor_board : (p.swapColor h).board = p.board := rfl
@[simp] theorem swapColor_toMove : (p.swapColor h).toMove = p.toMove.opp := rfl
@[simp] theorem swapColor_ep : (p.swapColor h).ep = p.ep := rfl
@[simp] theorem swapColor_wk : (p.swapColor h).wk = p.wk := rfl
@[simp] theorem swapColor_bk : (p.swapColor h).bk = p.bk := rfl
@[simp] theorem swapColor_lastMove : (p.swapColor h).lastMove = p.lastMove := rfl
@[simp] theorem swapColor_promo : (p.swapColor h).promo = p.promo := rfl
@[simp] theorem swapColor_oh : (p.swapColor h).oh = p.oh := rfl
@[simp] theorem swapColor_wks : (p.swapColor h).wks = p.wks := rfl
@[simp] theorem swapColor_wqs : (p.swapColor h).wqs = p.wqs := rfl
@[simp] theorem swapColor_bks : (p.swapColor h).bks = p.bks := rfl
@[simp] theorem swapColor_bqs : (p.swapColor h).bqs = p.bqs := rfl

variable (ct : CastlingType)

@[simp] theorem takeAway_board : (p.takeAway h ct).board = p.board := by
  unfold Pos.takeAway; cases ct <;> simp only <;> split <;> rfl
@[simp] theorem takeAway_toMove : (p.takeAway h ct).toMove = p.toMove := by
  unfold Pos.takeAway; cases ct <;> simp only <;> split <;> rfl
@[simp] theorem takeAway_ep : (p.takeAway h ct).ep = p.ep := by
  unfold Pos.takeAway; cases ct <;> simp only <;> split <;> rfl
@[simp] theorem takeAway_wk : (p.takeAway h ct).wk = p.wk := by
  unfold Pos.takeAway; cases ct <;> simp only <;> split <;> rfl
@[simp] theorem takeAway_bk : (p.takeAway h ct).bk = p.bk := by
  unfold Pos.takeAway; cases ct <;> simp only <;> split <;> rfl
@[simp] theorem takeAway_lastMove : (p.takeAway h ct).lastMove = p.lastMove := by
  unfold Pos.takeAway; cases ct <;> simp only <;> split <;> rfl
@[simp] theorem takeAway_promo : (p.takeAway h ct).promo = p.promo := by
  unfold Pos.takeAway; cases ct <;> simp only <;> split <;> rfl
@[simp] theorem takeAway_oh : (p.takeAway h ct).oh = p.oh := by
  unfold Pos.takeAway; cases ct <;> simp only <;> split <;> rfl

@[simp] theorem unsetEp_board : (p.unsetEp h).board = p.board := by
  unfold Pos.unsetEp; split <;> rfl
@[simp] theorem unsetEp_toMove : (p.unsetEp h).toMove = p.toMove := by
  unfold Pos.unsetEp; split <;> rfl
@[simp] theorem unsetEp_ep : (p.unsetEp h).ep = none := by
  unfold Pos.unsetEp; split <;> simp_all
@[simp] theorem unsetEp_wk : (p.unsetEp h).wk = p.wk := by
  unfold Pos.unsetEp; split <;> rfl
@[simp] theorem unsetEp_bk : (p.unsetEp h).bk = p.bk := by
  unfold Pos.unsetEp; split <;> rfl
@[simp] theorem unsetEp_lastMove : (p.unsetEp h).lastMove = p.lastMove := by
  unfold Pos.unsetEp; split <;> rfl
@[simp] theorem unsetEp_promo : (p.unsetEp h).promo = p.promo := by
  unfold Pos.unsetEp; split <;> rfl
@[simp] theorem unsetEp_oh : (p.unsetEp h).oh = p.oh := by
  unfold Pos.unsetEp; split <;> rfl
@[simp] theorem unsetEp_wks : (p.unsetEp h).wks = p.wks := by
  unfold Pos.unsetEp; split <;> rfl
@[simp] theorem unsetEp_wqs : (p.unsetEp h).wqs = p.wqs := by
  unfold Pos.unsetEp; split <;> rfl
@[simp] theorem unsetEp_bks : (p.unsetEp h).bks = p.bks := by
  unfold Pos.unsetEp; split <;> rfl
@[simp] theorem unsetEp_bqs : (p.unsetEp h).bqs = p.bqs := by
  unfold Pos.unsetEp; split <;> rfl

variable (s e : Point)

@[simp] theorem movePiece_toMove : (p.movePiece h s e).toMove = p.toMove := by
  unfold Pos.movePiece; split <;> rfl
@[simp] theorem movePiece_ep : (p.movePiece h s e).ep = p.ep := by
  unfold Pos.movePiece; split <;> rfl
@[simp] theorem movePiece_wk : (p.movePiece h s e).wk = p.wk := by
  unfold Pos.movePiece; split <;> rfl
@[simp] theorem movePiece_bk : (p.movePiece h s e).bk = p.bk := by
  unfold Pos.movePiece; split <;> rfl
@[simp] theorem movePiece_lastMove : (p.movePiece h s e).lastMove = p.lastMove := by
  unfold Pos.movePiece; split <;> rfl
@[simp] theorem movePiece_promo : (p.movePiece h s e).promo = p.promo := by
  unfold Pos.movePiece; split <;> rfl
@[simp] theorem movePiece_oh : (p.movePiece h s e).oh = p.oh := by
  unfold Pos.movePiece; split <;> rfl
@[simp] theorem movePiece_wks : (p.movePiece h s e).wks = p.wks := by
  unfold Pos.movePiece; split <;> rfl
@[simp] theorem movePiece_wqs : (p.movePiece h s e).wqs = p.wqs := by
  unfold Pos.movePiece; split <;> rfl
@[simp] theorem movePiece_bks : (p.movePiece h s e).bks = p.bks := by
  unfold Pos.movePiece; split <;> rfl
@[simp] theorem movePiece_bqs : (p.movePiece h s e).bqs = p.bqs := by
  unfold Pos.movePiece; split <;> rfl

theorem movePiece_board_full (pc : Piece) (hs : p.board.get s.row s.col = .full pc) :
    (p.movePiece h s e).board = (p.board.set s.row s.col .empty).set e.row e.col (.full pc) := by
  unfold Pos.movePiece; rw [hs]

theorem takeAwayOpt_board (o : Option CastlingType) : (p.takeAwayOpt h o).board = p.board := by
  cases o <;> simp [Pos.takeAwayOpt]
theorem takeAwayOpt_toMove (o : Option CastlingType) : (p.takeAwayOpt h o).toMove = p.toMove := by
  cases o <;> simp [Pos.takeAwayOpt]
theorem takeAwayOpt_ep (o : Option CastlingType) : (p.takeAwayOpt h o).ep = p.ep := by
  cases o <;> simp [Pos.takeAwayOpt]
theorem takeAwayOpt_lastMove (o : Option CastlingType) : (p.takeAwayOpt h o).lastMove = p.lastMove := by
  cases o <;> simp [Pos.takeAwayOpt]
theorem takeAwayOpt_promo (o : Option CastlingType) : (p.takeAwayOpt h o).promo = p.promo := by
  cases o <;> simp [Pos.takeAwayOpt]

theorem keyOK_takeAwayOpt (o : Option CastlingType) (hk : KeyOK h p) : KeyOK h (p.takeAwayOpt h o) := by
  cases o
  · exact hk
  · exact keyOK_takeAway h p _ hk

end
end Walleye
