/- capture-only generation: every target is an enemy-occupied square, and the en passant target
   is always cleared (C13) -/
import Walleye.Proofs.Succ
namespace Walleye

/-- an enemy piece of the mover stands on `pt` -/
def EnemyAt (b : Board) (c : Color) (pt : Point) : Prop :=
  ∃ q : Piece, b.get pt.row pt.col = .full q ∧ q.color = c.opp

theorem isColor_full (s : Square) (c : Color) (h : s.isColor c = true) : ∃ q : Piece, s = .full q ∧ q.color = c := by
  cases s with
  | full q => exact ⟨q, rfl, by simpa [Square.isColor] using h⟩
  | empty => simp [Square.isColor] at h
  | boundary => simp [Square.isColor] at h

theorem eoc_nonempty_full (s : Square) (c : Color) (h1 : s.isEmptyOrColor c = true) (h2 : s.isEmpty = false) :
    ∃ q : Piece, s = .full q ∧ q.color = c := by
  cases s with
  | full q =>
    refine ⟨q, rfl, ?_⟩
    simp only [Square.isEmptyOrColor, beq_iff_eq] at h1
    exact h1.symm
  | empty => simp [Square.isEmpty] at h2
  | boundary => simp [Square.isEmptyOrColor] at h1

theorem slideDir_caps (piece : Piece) (row col : Nat) (b : Board) (d : Int × Int) :
    ∀ pt ∈ slideDir piece row col b .caps d, EnemyAt b piece.color pt := by
  intro pt hpt
  unfold slideDir at hpt
  have hw := walk_spec b d.1 d.2 walkFuel ((row : Int) + d.1) ((col : Int) + d.2) [] (by simp)
  generalize walk b d.1 d.2 walkFuel ((row : Int) + d.1) ((col : Int) + d.2) [] = w at *
  obtain ⟨es, hit, sq⟩ := w
  simp only at hpt hw
  simp only [show ¬ (Mode.caps = Mode.all) by decide, if_false, List.nil_append] at hpt
  split at hpt
  · rename_i hc
    simp only [List.mem_singleton] at hpt
    subst hpt
    obtain ⟨q, hq, hqc⟩ := isColor_full _ _ hc
    have hne : sq ≠ .boundary := by rw [hq]; simp
    exact ⟨q, by rw [← hw.2 hne]; exact hq, hqc⟩
  · cases hpt

theorem knightMoves_caps (piece : Piece) (row col : Nat) (b : Board) :
    ∀ pt ∈ knightMoves piece row col b .caps, EnemyAt b piece.color pt := by
  intro pt hpt
  unfold knightMoves at hpt
  simp only [List.mem_filterMap] at hpt
  obtain ⟨rc, _, hrc⟩ := hpt
  by_cases hs : (b.getI ((row : Int) + rc.1) ((col : Int) + rc.2)).isEmptyOrColor piece.color.opp = true
  · obtain ⟨_, _, e⟩ := getI_ne_boundary b _ _ (isEmptyOrColor_ne_boundary _ _ hs)
    simp only [hs, if_true] at hrc
    by_cases hem : (b.getI ((row : Int) + rc.1) ((col : Int) + rc.2)).isEmpty = true
    · simp [hem] at hrc
    · simp only [Bool.not_eq_true] at hem
      simp only [hem, Bool.not_false, if_true] at hrc
      have hp := (Option.some.inj hrc).symm
      subst hp
      obtain ⟨q, hq, hqc⟩ := eoc_nonempty_full _ _ hs hem
      exact ⟨q, by unfold ptI; rw [← e]; exact hq, hqc⟩
  · simp only [hs] at hrc; cases hrc

theorem kingMoves_caps (piece : Piece) (row col : Nat) (b : Board) :
    ∀ pt ∈ kingMoves piece row col b .caps, EnemyAt b piece.color pt := by
  intro pt hpt
  unfold kingMoves at hpt
  simp only [List.mem_flatMap, List.mem_filterMap] at hpt
  obtain ⟨i, _, j, _, hij⟩ := hpt
  by_cases hs : (b.get (row + i - 1) (col + j - 1)).isEmptyOrColor piece.color.opp = true
  · simp only [hs, if_true] at hij
    by_cases hem : (b.get (row + i - 1) (col + j - 1)).isEmpty = true
    · simp [hem] at hij
    · simp only [Bool.not_eq_true] at hem
      simp only [hem, Bool.not_false, if_true] at hij
      have hp := (Option.some.inj hij).symm
      subst hp
      obtain ⟨q, hq, hqc⟩ := eoc_nonempty_full _ _ hs hem
      exact ⟨q, hq, hqc⟩
  · simp only [hs] at hij; cases hij

theorem pawnMoves_caps (piece : Piece) (row col : Nat) (b : Board) :
    ∀ pt ∈ pawnMoves piece row col b .caps,
      EnemyAt b piece.color pt ∧ (pt.row = row - 1 ∨ pt.row = row + 1) := by
  intro pt hpt
  unfold pawnMoves at hpt
  cases hc : piece.color <;> simp only [hc] at hpt <;>
    simp only [show ¬ (Mode.caps = Mode.all) by decide, false_and, if_false, List.append_nil, List.mem_append] at hpt
  all_goals
    rcases hpt with h | h
    · split at h
      · rename_i hcol
        simp only [List.mem_singleton] at h; subst h
        obtain ⟨q, hq, hqc⟩ := isColor_full _ _ hcol
        exact ⟨⟨q, hq, by rw [hqc]; rfl⟩, by simp⟩
      · cases h
    · split at h
      · rename_i hcol
        simp only [List.mem_singleton] at h; subst h
        obtain ⟨q, hq, hqc⟩ := isColor_full _ _ hcol
        exact ⟨⟨q, hq, by rw [hqc]; rfl⟩, by simp⟩
      · cases h

/-- in capture-only mode every pseudo-legal target holds an enemy piece -/
theorem getMoves_caps (piece : Piece) (row col : Nat) (b : Board) :
    ∀ pt ∈ getMoves piece row col b .caps, EnemyAt b piece.color pt := by
  intro pt hpt
  unfold getMoves at hpt
  cases hk : piece.kind <;> simp only [hk] at hpt
  · exact (pawnMoves_caps _ _ _ _ pt hpt).1
  · exact knightMoves_caps _ _ _ _ pt hpt
  · unfold bishopMoves at hpt
    obtain ⟨d, _, hd⟩ := List.mem_flatMap.mp hpt
    exact slideDir_caps _ _ _ _ d pt hd
  · unfold rookMoves at hpt
    obtain ⟨d, _, hd⟩ := List.mem_flatMap.mp hpt
    exact slideDir_caps _ _ _ _ d pt hd
  · unfold queenMoves rookMoves bishopMoves at hpt
    cases List.mem_append.mp hpt with
    | inl h => obtain ⟨d, _, hd⟩ := List.mem_flatMap.mp h; exact slideDir_caps _ _ _ _ d pt hd
    | inr h => obtain ⟨d, _, hd⟩ := List.mem_flatMap.mp h; exact slideDir_caps _ _ _ _ d pt hd
  · exact kingMoves_caps _ _ _ _ pt hpt

/-- a capture is never a double step, so stage 3 always clears the en passant target -/
theorem st3_ep_caps (h : Hasher) (piece : Piece) (sq mov : Point) (nb : Pos) (b : Board)
    (hm : mov ∈ getMoves piece sq.row sq.col b .caps) : (st3 h piece sq mov nb).ep = none := by
  unfold st3
  split
  · rename_i hd
    exfalso
    have hk := hd.1
    unfold getMoves at hm
    simp only [hk] at hm
    have := (pawnMoves_caps _ _ _ _ mov hm).2
    have := hd.2
    omega
  · simp

end Walleye

namespace Walleye

/-! ### capture-only targets are a sub-list of the all-moves targets -/

theorem getMoves_caps_subset (piece : Piece) (row col : Nat) (b : Board) :
    ∀ pt ∈ getMoves piece row col b .caps, pt ∈ getMoves piece row col b .all := by
  intro pt hpt
  unfold getMoves at hpt ⊢
  have slide : ∀ d, pt ∈ slideDir piece row col b .caps d → pt ∈ slideDir piece row col b .all d := by
    intro d hd
    unfold slideDir at hd ⊢
    generalize walk b d.1 d.2 walkFuel ((row : Int) + d.1) ((col : Int) + d.2) [] = w at *
    obtain ⟨es, hit, sq⟩ := w
    simp only at hd ⊢
    simp only [show ¬ (Mode.caps = Mode.all) by decide, if_false, List.nil_append] at hd
    exact List.mem_append.mpr (Or.inr hd)
  cases hk : piece.kind <;> simp only [hk] at hpt ⊢
  · -- pawn
    unfold pawnMoves at hpt ⊢
    cases hc : piece.color <;> simp only [hc] at hpt ⊢ <;>
      simp only [show ¬ (Mode.caps = Mode.all) by decide, false_and, if_false, List.append_nil] at hpt <;>
      exact List.mem_append.mpr (Or.inl hpt)
  · -- knight
    unfold knightMoves at hpt ⊢
    simp only [List.mem_filterMap] at hpt ⊢
    obtain ⟨rc, hrc, hv⟩ := hpt
    refine ⟨rc, hrc, ?_⟩
    split at hv
    · rename_i hs
      simp only [hs, if_true, show ¬ (Mode.all = Mode.caps) by decide, if_false]
      simp only [if_true] at hv
      split at hv
      · exact hv
      · cases hv
    · cases hv
  · unfold bishopMoves at hpt ⊢
    obtain ⟨d, hd, hm⟩ := List.mem_flatMap.mp hpt
    exact List.mem_flatMap.mpr ⟨d, hd, slide d hm⟩
  · unfold rookMoves at hpt ⊢
    obtain ⟨d, hd, hm⟩ := List.mem_flatMap.mp hpt
    exact List.mem_flatMap.mpr ⟨d, hd, slide d hm⟩
  · unfold queenMoves rookMoves bishopMoves at hpt ⊢
    cases List.mem_append.mp hpt with
    | inl h =>
      obtain ⟨d, hd, hm⟩ := List.mem_flatMap.mp h
      exact List.mem_append.mpr (Or.inl (List.mem_flatMap.mpr ⟨d, hd, slide d hm⟩))
    | inr h =>
      obtain ⟨d, hd, hm⟩ := List.mem_flatMap.mp h
      exact List.mem_append.mpr (Or.inr (List.mem_flatMap.mpr ⟨d, hd, slide d hm⟩))
  · -- king
    unfold kingMoves at hpt ⊢
    simp only [List.mem_flatMap, List.mem_filterMap] at hpt ⊢
    obtain ⟨i, hi, j, hj, hv⟩ := hpt
    refine ⟨i, hi, j, hj, ?_⟩
    split at hv
    · rename_i hs
      simp only [hs, if_true, show ¬ (Mode.all = Mode.caps) by decide, if_false]
      simp only [if_true] at hv
      split at hv
      · exact hv
      · cases hv
    · cases hv

/-- every capture-only successor is, as a value, one of the all-moves successors -/
theorem generateMoves_caps_subset (h : Hasher) (p : Pos) :
    ∀ s ∈ generateMoves h p .caps, s ∈ generateMoves h p .all := by
  intro s hs
  unfold generateMoves at hs ⊢
  simp only [show ¬ (Mode.caps = Mode.all) by decide, if_false, List.append_nil] at hs
  apply List.mem_append.mpr; left
  obtain ⟨pt, hpt, hin⟩ := List.mem_flatMap.mp hs
  apply List.mem_flatMap.mpr
  refine ⟨pt, hpt, ?_⟩
  cases hsq : p.board.get pt.row pt.col with
  | empty => simp [hsq] at hin
  | boundary => simp [hsq] at hin
  | full piece =>
    simp only [hsq] at hin ⊢
    split at hin
    · rename_i hc
      simp only [hc, if_true]
      unfold generateMovesForPiece at hin ⊢
      cases List.mem_append.mp hin with
      | inl h2 =>
        obtain ⟨mov, hmov, hsm⟩ := List.mem_flatMap.mp h2
        exact List.mem_append.mpr (Or.inl (List.mem_flatMap.mpr ⟨mov, getMoves_caps_subset _ _ _ _ mov hmov, hsm⟩))
      | inr h2 => exact List.mem_append.mpr (Or.inr h2)
    · cases hin

/-- what a capture-only successor is: the descriptor names a move onto an enemy-occupied square,
    or onto the en passant target; its own en passant target is cleared -/
theorem generateMoves_caps_shape (h : Hasher) (p : Pos) :
    ∀ s ∈ generateMoves h p .caps,
      s.ep = none ∧ ∃ sq mov, s.lastMove = some (sq, mov) ∧ (EnemyAt p.board p.toMove mov ∨ p.ep = some mov) := by
  intro s hs
  unfold generateMoves at hs
  simp only [show ¬ (Mode.caps = Mode.all) by decide, if_false, List.append_nil] at hs
  obtain ⟨pt, _, hin⟩ := List.mem_flatMap.mp hs
  cases hsq : p.board.get pt.row pt.col with
  | empty => simp [hsq] at hin
  | boundary => simp [hsq] at hin
  | full piece =>
    simp only [hsq] at hin
    split at hin
    · rename_i hc
      unfold generateMovesForPiece at hin
      cases List.mem_append.mp hin with
      | inl h2 =>
        obtain ⟨mov, hmov, hsm⟩ := List.mem_flatMap.mp h2
        have hen := getMoves_caps piece pt.row pt.col p.board mov hmov
        rw [hc] at hen
        rw [succsForTarget_eq] at hsm
        split at hsm
        · cases hsm
        · have hep := st3_ep_caps h piece pt mov (st2 h piece pt mov (st1 h piece p pt mov)) p.board hmov
          have hl : (st3 h piece pt mov (st2 h piece pt mov (st1 h piece p pt mov))).lastMove = some (pt, mov) := by
            rw [st3_lastMove, st2_lastMove, st1_lastMove]
          unfold st4 at hsm
          split at hsm
          · obtain ⟨k, rfl⟩ := mem_promotePawn h _ _ _ _ s hsm
            exact ⟨by simp, pt, mov, rfl, Or.inl hen⟩
          · split at hsm
            · obtain ⟨k, rfl⟩ := mem_promotePawn h _ _ _ _ s hsm
              exact ⟨by simp, pt, mov, rfl, Or.inl hen⟩
            · simp only [List.mem_singleton] at hsm
              subst hsm
              exact ⟨hep, pt, mov, hl, Or.inl hen⟩
      | inr h2 =>
        unfold epSuccs at h2
        split at h2
        · split at h2
          · cases h2
          · rename_i mov hmv
            have hpe := pawnMovesEnPassant_eq piece pt.row pt.col p mov hmv
            cases hcc : piece.color <;> simp only [hcc] at h2 <;> split at h2 <;>
              first
              | (cases h2; done)
              | (simp only [List.mem_singleton] at h2; subst h2; exact ⟨by simp, pt, mov, by simp, Or.inr hpe⟩)
        · cases h2
    · cases hin

end Walleye
