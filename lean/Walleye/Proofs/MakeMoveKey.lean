/- The text-move applier `make_move` as a producer of positions: key exact and ring kept (C05, C04),
   every hasher.  Hypotheses = what the text of a LEGAL move guarantees (stated explicitly). -/
import Walleye.Proofs.FenKey
import Walleye.Model.UciText
namespace Walleye
open Str

/-- a parsed square name is a square of the 8x8 board -/
theorem parsePoint_onBoard (s : List Char) (pt : Point) (h : parsePoint? s = some pt) : OnBoard pt := by
  unfold parsePoint? at h
  cases hp : pointFromStr s with
  | err e => rw [hp] at h; cases h
  | panic => rw [hp] at h; cases h
  | ok q =>
    rw [hp] at h
    injection h with h
    subst h
    unfold pointFromStr at hp
    split at hp
    · cases hp
    · split at hp
      · rename_i c r _
        split at hp
        · cases hp
        · rename_i col hcol
          split at hp
          · dsimp only at hp
            split at hp
            · rename_i hrow
              injection hp with hp
              subst hp
              have hc : col < 8 := by
                have key : ∀ ch : Char, ∀ n, Gen.colLetters.lookup ch = some n → n < 8 := by
                  intro ch n hl
                  simp only [Gen.colLetters, List.lookup] at hl
                  repeat' split at hl
                  all_goals (first | (injection hl with hl; omega) | cases hl)
                exact key _ col hcol
              simp only [Gen.boardStart, Gen.boardEnd] at hrow ⊢
              unfold OnBoard; simp only; omega
            · cases hp
          · cases hp
      · cases hp

/-- everything `make_move` does once the two squares are parsed and the origin holds `piece`;
    `b` is the board after `unset_pawn_double_move` -/
def mkCore (h : Hasher) (b : Pos) (mv : List Char) (sp ep : Point) (piece : Piece) : Option Pos :=
  let b :=
    if piece.kind = .king then
      (match piece.color with
       | .white => (({ b with wk := ep }).takeAway h .wqs).takeAway h .wks
       | .black => (({ b with bk := ep }).takeAway h .bqs).takeAway h .bks)
    else if piece.kind = .pawn then
      let b :=
        if ((sp.row : Int) - ep.row).natAbs = 2 then
          let target : Point := match piece.color with
            | .white => ⟨sp.row - 1, sp.col⟩
            | .black => ⟨sp.row + 1, sp.col⟩
          { b with key := b.key ^^^ h.epFile target.col, ep := some target }
        else b
      if sp.col ≠ ep.col ∧ b.board.get ep.row ep.col = .empty then
        { b with board := b.board.set sp.row ep.col .empty,
                 key := b.key ^^^ h.piece ⟨b.toMove.opp, .pawn⟩ ⟨sp.row, ep.col⟩ }
      else b
    else b
  let b := if contains mv ['a', '8'] then b.takeAway h .bqs else b
  let b := if contains mv ['h', '8'] then b.takeAway h .bks else b
  let b := if contains mv ['a', '1'] then b.takeAway h .wqs else b
  let b := if contains mv ['h', '1'] then b.takeAway h .wks else b
  let b := b.movePiece h sp ep
  let b? : Option Pos :=
    if byteLen mv = 5 then
      match mv[4]? with
      | none => none
      | some ch =>
        let kind : Kind :=
          if ch = 'q' then .queen else if ch = 'n' then .knight
          else if ch = 'b' then .bishop else if ch = 'r' then .rook else .queen
        let pp : Piece := ⟨b.toMove, kind⟩
        some { b with key := b.key ^^^ (h.piece ⟨b.toMove, .pawn⟩ ep ^^^ h.piece pp ep),
                      board := b.board.set ep.row ep.col (.full pp) }
    else some b
  match b? with
  | none => none
  | some b =>
    let tgt := b.board.get ep.row ep.col
    let b :=
      if mv = Gen.wksStr.toList ∧ tgt.isPiece ⟨.white, .king⟩ then b.movePiece h ⟨9, 9⟩ ⟨9, 7⟩
      else if mv = Gen.wqsStr.toList ∧ tgt.isPiece ⟨.white, .king⟩ then b.movePiece h ⟨9, 2⟩ ⟨9, 5⟩
      else if mv = Gen.bksStr.toList ∧ tgt.isPiece ⟨.black, .king⟩ then b.movePiece h ⟨2, 9⟩ ⟨2, 7⟩
      else if mv = Gen.bqsStr.toList ∧ tgt.isPiece ⟨.black, .king⟩ then b.movePiece h ⟨2, 2⟩ ⟨2, 5⟩
      else b
    some (b.swapColor h)

theorem makeMove_eq (h : Hasher) (p : Pos) (mv : List Char) :
    makeMove h p mv =
      match byteSlice mv 0 2, byteSlice mv 2 4 with
      | some s1, some s2 =>
        match parsePoint? s1, parsePoint? s2 with
        | some sp, some ep =>
          match (p.unsetEp h).board.get sp.row sp.col with
          | .full piece => mkCore h (p.unsetEp h) mv sp ep piece
          | _ => none
        | _, _ => none
      | _, _ => none := rfl

end Walleye

namespace Walleye
open Str

/-- stage A: king cache / rights, double step, en passant victim -/
def mkA (h : Hasher) (b : Pos) (sp ep : Point) (piece : Piece) : Pos :=
  if piece.kind = .king then
    (match piece.color with
     | .white => (({ b with wk := ep }).takeAway h .wqs).takeAway h .wks
     | .black => (({ b with bk := ep }).takeAway h .bqs).takeAway h .bks)
  else if piece.kind = .pawn then
    let b :=
      if ((sp.row : Int) - ep.row).natAbs = 2 then
        let target : Point := match piece.color with
          | .white => ⟨sp.row - 1, sp.col⟩
          | .black => ⟨sp.row + 1, sp.col⟩
        { b with key := b.key ^^^ h.epFile target.col, ep := some target }
      else b
    if sp.col ≠ ep.col ∧ b.board.get ep.row ep.col = .empty then
      { b with board := b.board.set sp.row ep.col .empty,
               key := b.key ^^^ h.piece ⟨b.toMove.opp, .pawn⟩ ⟨sp.row, ep.col⟩ }
    else b
  else b

/-- stage B: rights lost by touching a corner square (substring tests) -/
def mkB (h : Hasher) (b : Pos) (mv : List Char) : Pos :=
  let b := if contains mv ['a', '8'] then b.takeAway h .bqs else b
  let b := if contains mv ['h', '8'] then b.takeAway h .bks else b
  let b := if contains mv ['a', '1'] then b.takeAway h .wqs else b
  if contains mv ['h', '1'] then b.takeAway h .wks else b

/-- stage D: promotion -/
def mkD (h : Hasher) (b : Pos) (mv : List Char) (ep : Point) : Option Pos :=
  if byteLen mv = 5 then
    match mv[4]? with
    | none => none
    | some ch =>
      let kind : Kind :=
        if ch = 'q' then .queen else if ch = 'n' then .knight
        else if ch = 'b' then .bishop else if ch = 'r' then .rook else .queen
      let pp : Piece := ⟨b.toMove, kind⟩
      some { b with key := b.key ^^^ (h.piece ⟨b.toMove, .pawn⟩ ep ^^^ h.piece pp ep),
                    board := b.board.set ep.row ep.col (.full pp) }
  else some b

/-- stage E: rook hop of a castling move, then the side swap -/
def mkE (h : Hasher) (b : Pos) (mv : List Char) (ep : Point) : Pos :=
  let tgt := b.board.get ep.row ep.col
  let b :=
    if mv = Gen.wksStr.toList ∧ tgt.isPiece ⟨.white, .king⟩ then b.movePiece h ⟨9, 9⟩ ⟨9, 7⟩
    else if mv = Gen.wqsStr.toList ∧ tgt.isPiece ⟨.white, .king⟩ then b.movePiece h ⟨9, 2⟩ ⟨9, 5⟩
    else if mv = Gen.bksStr.toList ∧ tgt.isPiece ⟨.black, .king⟩ then b.movePiece h ⟨2, 9⟩ ⟨2, 7⟩
    else if mv = Gen.bqsStr.toList ∧ tgt.isPiece ⟨.black, .king⟩ then b.movePiece h ⟨2, 2⟩ ⟨2, 5⟩
    else b
  b.swapColor h

theorem mkCore_eq (h : Hasher) (b : Pos) (mv : List Char) (sp ep : Point) (piece : Piece) :
    mkCore h b mv sp ep piece =
      match mkD h ((mkB h (mkA h b sp ep piece) mv).movePiece h sp ep) mv ep with
      | none => none
      | some b' => some (mkE h b' mv ep) := rfl

/-- good = ring in place and key exact -/
def Good (h : Hasher) (b : Pos) : Prop := RingOK b.board ∧ KeyOK h b

theorem good_takeAway (h : Hasher) (b : Pos) (ct : CastlingType) (hg : Good h b) : Good h (b.takeAway h ct) :=
  ⟨by rw [takeAway_board]; exact hg.1, keyOK_takeAway h b ct hg.2⟩

theorem mkB_good (h : Hasher) (b : Pos) (mv : List Char) (hg : Good h b) : Good h (mkB h b mv) := by
  unfold mkB
  dsimp only
  have step : ∀ (c : Bool) (ct : CastlingType) (x : Pos), Good h x → Good h (if c = true then x.takeAway h ct else x) := by
    intro c ct x hx; cases c
    · exact hx
    · exact good_takeAway h x ct hx
  exact step _ _ _ (step _ _ _ (step _ _ _ (step _ _ _ hg)))

theorem mkB_board (h : Hasher) (b : Pos) (mv : List Char) : (mkB h b mv).board = b.board := by
  unfold mkB
  dsimp only
  repeat' split
  all_goals simp

theorem mkB_toMove (h : Hasher) (b : Pos) (mv : List Char) : (mkB h b mv).toMove = b.toMove := by
  unfold mkB
  dsimp only
  repeat' split
  all_goals simp

theorem mkE_good (h : Hasher) (b : Pos) (mv : List Char) (ep : Point) (hg : Good h b) : Good h (mkE h b mv ep) := by
  unfold mkE
  dsimp only
  have on (r c : Nat) (h1 : 2 ≤ r ∧ r ≤ 9 ∧ 2 ≤ c ∧ c ≤ 9) : OnBoard ⟨r, c⟩ := h1
  have mp : ∀ s e : Point, OnBoard e → Good h (b.movePiece h s e) :=
    fun s e he => ⟨ringOK_movePiece h b s e hg.1 he, keyOK_movePiece' h b s e hg.1 he hg.2⟩
  have sw : ∀ x : Pos, Good h x → Good h (x.swapColor h) := fun x hx => ⟨hx.1, keyOK_swapColor h x hx.2⟩
  apply sw
  repeat' split
  · exact mp _ _ (on _ _ (by omega))
  · exact mp _ _ (on _ _ (by omega))
  · exact mp _ _ (on _ _ (by omega))
  · exact mp _ _ (on _ _ (by omega))
  · exact hg

end Walleye

namespace Walleye
open Str

theorem mkA_good (h : Hasher) (b : Pos) (sp ep : Point) (piece : Piece) (hg : Good h b) (hep : b.ep = none)
    (hsp : OnBoard sp) (hepo : OnBoard ep)
    (hcap : piece.kind = .pawn → sp.col ≠ ep.col → b.board.get ep.row ep.col = .empty →
      b.board.get sp.row ep.col = .full ⟨b.toMove.opp, .pawn⟩) :
    Good h (mkA h b sp ep piece) ∧ (mkA h b sp ep piece).toMove = b.toMove ∧
    (∀ r c, ¬ (r = sp.row ∧ c = ep.col ∧ sp.col ≠ ep.col) → (mkA h b sp ep piece).board.get r c = b.board.get r c) := by
  unfold mkA
  split
  · -- king
    split
    · exact ⟨good_takeAway h _ _ (good_takeAway h _ _ hg), by simp, fun r c _ => by simp⟩
    · exact ⟨good_takeAway h _ _ (good_takeAway h _ _ hg), by simp, fun r c _ => by simp⟩
  · split
    · rename_i hk
      dsimp only
      -- after the optional double step: board and side unchanged, still good
      have hds : ∀ (x : Pos), (x = b ∨ ∃ t : Point, x = { b with key := b.key ^^^ h.epFile t.col, ep := some t }) →
          Good h x ∧ x.board = b.board ∧ x.toMove = b.toMove := by
        intro x hx
        cases hx with
        | inl e => subst e; exact ⟨hg, rfl, rfl⟩
        | inr e =>
          obtain ⟨t, rfl⟩ := e
          refine ⟨⟨hg.1, ?_⟩, rfl, rfl⟩
          have hk' := hg.2
          unfold KeyOK scratchKey at hk' ⊢
          dsimp only
          rw [hk', hep]
          simp only [epKey]
          xor_ac
      have hx : (if ((sp.row : Int) - ep.row).natAbs = 2 then
            { b with key := b.key ^^^ h.epFile (match piece.color with
                  | .white => (⟨sp.row - 1, sp.col⟩ : Point)
                  | .black => ⟨sp.row + 1, sp.col⟩).col,
                     ep := some (match piece.color with
                  | .white => (⟨sp.row - 1, sp.col⟩ : Point)
                  | .black => ⟨sp.row + 1, sp.col⟩) }
          else b) = b ∨ ∃ t : Point, (if ((sp.row : Int) - ep.row).natAbs = 2 then
            { b with key := b.key ^^^ h.epFile (match piece.color with
                  | .white => (⟨sp.row - 1, sp.col⟩ : Point)
                  | .black => ⟨sp.row + 1, sp.col⟩).col,
                     ep := some (match piece.color with
                  | .white => (⟨sp.row - 1, sp.col⟩ : Point)
                  | .black => ⟨sp.row + 1, sp.col⟩) }
          else b) = { b with key := b.key ^^^ h.epFile t.col, ep := some t } := by
        split
        · right; exact ⟨_, rfl⟩
        · left; rfl
      generalize (if ((sp.row : Int) - ep.row).natAbs = 2 then
            { b with key := b.key ^^^ h.epFile (match piece.color with
                  | .white => (⟨sp.row - 1, sp.col⟩ : Point)
                  | .black => ⟨sp.row + 1, sp.col⟩).col,
                     ep := some (match piece.color with
                  | .white => (⟨sp.row - 1, sp.col⟩ : Point)
                  | .black => ⟨sp.row + 1, sp.col⟩) }
          else b) = x at hx ⊢
      obtain ⟨hgx, hbx, htx⟩ := hds x hx
      split
      · rename_i hc
        have hon : OnBoard ⟨sp.row, ep.col⟩ := by unfold OnBoard at *; simp only; omega
        have hv := hcap hk hc.1 (by rw [← hbx]; exact hc.2)
        refine ⟨⟨ringOK_set _ ⟨sp.row, ep.col⟩ _ hgx.1 hon, ?_⟩, htx, ?_⟩
        · have hk' := hgx.2
          unfold KeyOK scratchKey at hk' ⊢
          dsimp only
          have hps := placementKey_set h x.board ⟨sp.row, ep.col⟩ .empty hon
          simp only at hps
          rw [hps, hk', hbx, hv, htx]
          simp only [sqKey]
          xor_ac
        · intro r c hne
          simp only
          rw [Board.get_set_ne _ _ _ _ _ _ (by intro ⟨e1, e2⟩; exact hne ⟨e1.symm, e2.symm, hc.1⟩), hbx]
      · exact ⟨hgx, htx, fun r c _ => by rw [hbx]⟩
    · exact ⟨hg, rfl, fun _ _ _ => rfl⟩

theorem mkD_good (h : Hasher) (c d : Pos) (mv : List Char) (ep : Point) (hg : Good h c) (hepo : OnBoard ep)
    (hget : byteLen mv = 5 → c.board.get ep.row ep.col = .full ⟨c.toMove, .pawn⟩)
    (hD : mkD h c mv ep = some d) : Good h d := by
  unfold mkD at hD
  split at hD
  · rename_i h5
    split at hD
    · cases hD
    · dsimp only at hD
      injection hD with hD
      subst hD
      refine ⟨ringOK_set _ ep _ hg.1 hepo, ?_⟩
      have hk' := hg.2
      unfold KeyOK scratchKey at hk' ⊢
      dsimp only
      rw [placementKey_set h _ ep _ hepo, hk', hget h5]
      simp only [sqKey]
      xor_ac
  · injection hD with hD
    subst hD
    exact hg

/-- `make_move` keeps ring and exact key, for every hasher, provided the text names a move that the
    rules allow in two respects: a pawn moving diagonally onto an empty square captures an enemy pawn
    standing beside it (en passant), and a five-character move is made by a pawn of the side to move -/
theorem makeMove_good (h : Hasher) (p p' : Pos) (mv : List Char) (hg : Good h p)
    (hcap : ∀ (s1 s2 : List Char) (sp ep : Point) (piece : Piece), byteSlice mv 0 2 = some s1 → byteSlice mv 2 4 = some s2 →
      parsePoint? s1 = some sp → parsePoint? s2 = some ep → p.board.get sp.row sp.col = .full piece → piece.kind = .pawn →
      sp.col ≠ ep.col → p.board.get ep.row ep.col = .empty → p.board.get sp.row ep.col = .full ⟨p.toMove.opp, .pawn⟩)
    (hpromo : ∀ sp : Point, ∀ piece : Piece, byteLen mv = 5 → p.board.get sp.row sp.col = .full piece →
      (∃ s1, byteSlice mv 0 2 = some s1 ∧ parsePoint? s1 = some sp) → piece = ⟨p.toMove, .pawn⟩)
    (hm : makeMove h p mv = some p') : Good h p' := by
  rw [makeMove_eq] at hm
  split at hm
  · rename_i s1 s2 hs1 hs2
    split at hm
    · rename_i sp ep hsp hep
      split at hm
      · rename_i piece hpiece
        have hspo := parsePoint_onBoard s1 sp hsp
        have hepo := parsePoint_onBoard s2 ep hep
        have hb0 : Good h (p.unsetEp h) := ⟨by rw [unsetEp_board]; exact hg.1, keyOK_unsetEp h p hg.2⟩
        simp only [unsetEp_board] at hpiece
        obtain ⟨hgA, htA, hbA⟩ := mkA_good h (p.unsetEp h) sp ep piece hb0 (by simp) hspo hepo
          (by simp only [unsetEp_board, unsetEp_toMove]; exact hcap s1 s2 sp ep piece hs1 hs2 hsp hep hpiece)
        have hgB := mkB_good h _ mv hgA
        rw [mkCore_eq] at hm
        -- the board before move_piece still holds `piece` on sp
        have hspB : (mkB h (mkA h (p.unsetEp h) sp ep piece) mv).board.get sp.row sp.col = .full piece := by
          rw [mkB_board, hbA sp.row sp.col (by intro ⟨_, e, ne⟩; exact ne e), unsetEp_board]
          exact hpiece
        have hgC : Good h ((mkB h (mkA h (p.unsetEp h) sp ep piece) mv).movePiece h sp ep) :=
          ⟨ringOK_movePiece h _ sp ep hgB.1 hepo, keyOK_movePiece' h _ sp ep hgB.1 hepo hgB.2⟩
        have hbC := movePiece_board_full h (mkB h (mkA h (p.unsetEp h) sp ep piece) mv) sp ep piece hspB
        have htC : ((mkB h (mkA h (p.unsetEp h) sp ep piece) mv).movePiece h sp ep).toMove = p.toMove := by
          rw [movePiece_toMove, mkB_toMove, htA, unsetEp_toMove]
        generalize (mkB h (mkA h (p.unsetEp h) sp ep piece) mv).movePiece h sp ep = c at hm hgC hbC htC
        -- promotion
        have hmr : ep.row < 12 ∧ ep.col < 12 := by unfold OnBoard at hepo; omega
        have hget5 : byteLen mv = 5 → c.board.get ep.row ep.col = .full ⟨c.toMove, .pawn⟩ := by
          intro h5
          have hpe := hpromo sp piece h5 hpiece ⟨s1, hs1, hsp⟩
          rw [hbC, Board.get_set_eq _ _ _ _ hmr.1 hmr.2, hpe, htC]
        cases hD : mkD h c mv ep with
        | none => rw [hD] at hm; cases hm
        | some d =>
          rw [hD] at hm
          injection hm with hm
          subst hm
          exact mkE_good h d mv ep (mkD_good h c d mv ep hgC hepo hget5 hD)
      · cases hm
    · cases hm
  · cases hm

end Walleye
