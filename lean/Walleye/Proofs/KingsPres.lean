/-
  Check depends on the placement only; the king caches stay right after a move that does not
  capture a king.  (C01: the king-safety filter of the generator is the specification's.)
-/
import Walleye.Proofs.SuccAbsCastle
namespace Walleye

theorem at_congr (P Q : Spec.Position) (h : P.cells = Q.cells) (s : Spec.Sq) : P.at s = Q.at s := by
  unfold Spec.Position.at; rw [h]

theorem clearBetween_congr (P Q : Spec.Position) (h : P.cells = Q.cells) (s t : Spec.Sq) :
    Spec.clearBetween P s t = Spec.clearBetween Q s t := by
  unfold Spec.clearBetween; simp only [at_congr P Q h]

theorem attacksFrom_congr (P Q : Spec.Position) (h : P.cells = Q.cells) (s : Spec.Sq) (pc : Piece) (t : Spec.Sq) :
    Spec.attacksFrom P s pc t = Spec.attacksFrom Q s pc t := by
  unfold Spec.attacksFrom; simp only [clearBetween_congr P Q h]

theorem attacked_congr (P Q : Spec.Position) (h : P.cells = Q.cells) (c : Color) (t : Spec.Sq) :
    Spec.attacked P c t = Spec.attacked Q c t := by
  unfold Spec.attacked; simp only [at_congr P Q h, attacksFrom_congr P Q h]

theorem inCheck_congr (P Q : Spec.Position) (h : P.cells = Q.cells) (c : Color) :
    Spec.inCheck P c = Spec.inCheck Q c := by
  unfold Spec.inCheck Spec.kingSquares; simp only [at_congr P Q h, attacked_congr P Q h]

theorem innerOK_set (b : Board) (pt : Point) (v : Square) (hi : InnerOK b) (hv : v ≠ .boundary) :
    InnerOK (b.set pt.row pt.col v) := by
  intro r c hob
  by_cases he : pt.row = r ∧ pt.col = c
  · obtain ⟨rfl, rfl⟩ := he
    unfold OnBoard at hob
    rw [Board.get_set_eq _ _ _ _ (by simp only at hob; omega) (by simp only at hob; omega)]; exact hv
  · rw [Board.get_set_ne _ _ _ _ _ _ he]; exact hi r c hob

variable (h : Hasher)

theorem st1_kingPt (piece : Piece) (p : Pos) (sq mov : Point) (c : Color) :
    kingPt (st1 h piece p sq mov) c = if piece = ⟨c, .king⟩ then mov else kingPt p c := by
  unfold st1 kingPt
  obtain ⟨pc, pk⟩ := piece
  cases c <;> cases pc <;> cases pk <;> simp <;> (repeat' split) <;> simp

/-- the king caches after an ordinary move that does not capture a king -/
theorem kingsOK_st1 (p : Pos) (hko : KingsOK p) (piece : Piece) (sq mov : Point)
    (hsq : p.board.get sq.row sq.col = .full piece) (hs : OnBoard sq) (hm : OnBoard mov)
    (hnk : ∀ c, p.board.get mov.row mov.col ≠ .full ⟨c, .king⟩) : KingsOK (st1 h piece p sq mov) := by
  intro c
  obtain ⟨hkc, huc⟩ := hko c
  have hb : (st1 h piece p sq mov).board = (p.board.set sq.row sq.col .empty).set mov.row mov.col (.full piece) := by
    rw [st1_board]; exact movePiece_board_full h p sq mov piece hsq
  rw [st1_kingPt, hb]
  unfold OnBoard at hs hm
  have getmov : ((p.board.set sq.row sq.col .empty).set mov.row mov.col (.full piece)).get mov.row mov.col = .full piece :=
    Board.get_set_eq _ _ _ _ (by omega) (by omega)
  have getother : ∀ r k, ¬ (mov.row = r ∧ mov.col = k) → ¬ (sq.row = r ∧ sq.col = k) →
      ((p.board.set sq.row sq.col .empty).set mov.row mov.col (.full piece)).get r k = p.board.get r k := by
    intro r k n1 n2
    rw [Board.get_set_ne _ _ _ _ _ _ n1, Board.get_set_ne _ _ _ _ _ _ n2]
  have getsq : ¬ (mov.row = sq.row ∧ mov.col = sq.col) →
      ((p.board.set sq.row sq.col .empty).set mov.row mov.col (.full piece)).get sq.row sq.col = .empty := by
    intro n1
    rw [Board.get_set_ne _ _ _ _ _ _ n1, Board.get_set_eq _ _ _ _ (by omega) (by omega)]
  by_cases hpk : piece = ⟨c, .king⟩
  · rw [if_pos hpk]
    refine ⟨by rw [getmov, hpk], ?_⟩
    intro r k hrk
    by_cases e1 : mov.row = r ∧ mov.col = k
    · cases mov; simp only at e1; obtain ⟨rfl, rfl⟩ := e1; rfl
    · exfalso
      by_cases e2 : sq.row = r ∧ sq.col = k
      · obtain ⟨rfl, rfl⟩ := e2
        rw [getsq e1] at hrk; cases hrk
      · rw [getother r k e1 e2] at hrk
        have h1 := huc r k hrk
        have h2 := huc sq.row sq.col (by rw [hsq, hpk])
        rw [← h2] at h1
        apply e2
        cases sq; simp only at h1 ⊢
        injection h1 with a b
        exact ⟨a.symm, b.symm⟩
  · rw [if_neg hpk]
    have n1 : ¬ (mov.row = (kingPt p c).row ∧ mov.col = (kingPt p c).col) := by
      intro ⟨a, b⟩
      apply hnk c
      rw [a, b]; exact hkc
    have n2 : ¬ (sq.row = (kingPt p c).row ∧ sq.col = (kingPt p c).col) := by
      intro ⟨a, b⟩
      apply hpk
      rw [← a, ← b, hsq] at hkc
      exact Square.full.inj hkc
    refine ⟨by rw [getother _ _ n1 n2]; exact hkc, ?_⟩
    intro r k hrk
    by_cases e1 : mov.row = r ∧ mov.col = k
    · obtain ⟨rfl, rfl⟩ := e1
      rw [getmov] at hrk
      exact absurd (Square.full.inj hrk) hpk
    · by_cases e2 : sq.row = r ∧ sq.col = k
      · obtain ⟨rfl, rfl⟩ := e2
        rw [getsq e1] at hrk; cases hrk
      · rw [getother r k e1 e2] at hrk
        exact huc r k hrk

/-! ### the kind of one of the defender's own (non-king) pieces is irrelevant for check -/

/-- same occupancy, same attackers of colour `c.opp`, same `c` king -/
def SameForCheck (c : Color) (P Q : Spec.Position) : Prop :=
  ∀ s, ((P.at s).isNone = (Q.at s).isNone) ∧
    (∀ pc : Piece, pc.color = c.opp → (P.at s = some pc ↔ Q.at s = some pc)) ∧
    (P.at s = some ⟨c, .king⟩ ↔ Q.at s = some ⟨c, .king⟩)

theorem clearBetween_same (c : Color) (P Q : Spec.Position) (h : SameForCheck c P Q) (s t : Spec.Sq) :
    Spec.clearBetween P s t = Spec.clearBetween Q s t := by
  unfold Spec.clearBetween
  simp only [(h _).1]

theorem attacksFrom_same (c : Color) (P Q : Spec.Position) (h : SameForCheck c P Q) (s : Spec.Sq) (pc : Piece) (t : Spec.Sq) :
    Spec.attacksFrom P s pc t = Spec.attacksFrom Q s pc t := by
  unfold Spec.attacksFrom; simp only [clearBetween_same c P Q h]

theorem attacked_same (c : Color) (P Q : Spec.Position) (h : SameForCheck c P Q) (t : Spec.Sq) :
    Spec.attacked P c.opp t = Spec.attacked Q c.opp t := by
  unfold Spec.attacked
  rw [Bool.eq_iff_iff, List.any_eq_true, List.any_eq_true]
  constructor
  · rintro ⟨s, hs, hx⟩
    refine ⟨s, hs, ?_⟩
    cases hp : P.at s with
    | none => rw [hp] at hx; cases hx
    | some pc =>
      rw [hp] at hx
      simp only [Bool.and_eq_true, beq_iff_eq] at hx
      rw [((h s).2.1 pc hx.1).mp hp]
      simp only [Bool.and_eq_true, beq_iff_eq]
      exact ⟨hx.1, by rw [← attacksFrom_same c P Q h]; exact hx.2⟩
  · rintro ⟨s, hs, hx⟩
    refine ⟨s, hs, ?_⟩
    cases hp : Q.at s with
    | none => rw [hp] at hx; cases hx
    | some pc =>
      rw [hp] at hx
      simp only [Bool.and_eq_true, beq_iff_eq] at hx
      rw [((h s).2.1 pc hx.1).mpr hp]
      simp only [Bool.and_eq_true, beq_iff_eq]
      exact ⟨hx.1, by rw [attacksFrom_same c P Q h]; exact hx.2⟩

theorem inCheck_same (c : Color) (P Q : Spec.Position) (h : SameForCheck c P Q) :
    Spec.inCheck P c = Spec.inCheck Q c := by
  unfold Spec.inCheck Spec.kingSquares
  rw [Bool.eq_iff_iff, List.any_eq_true, List.any_eq_true]
  constructor
  · rintro ⟨k, hk, hx⟩
    rw [List.mem_filter] at hk
    refine ⟨k, ?_, by rw [← attacked_same c P Q h]; exact hx⟩
    rw [List.mem_filter]
    exact ⟨hk.1, by simpa using (h k).2.2.mp (by simpa using hk.2)⟩
  · rintro ⟨k, hk, hx⟩
    rw [List.mem_filter] at hk
    refine ⟨k, ?_, by rw [attacked_same c P Q h]; exact hx⟩
    rw [List.mem_filter]
    exact ⟨hk.1, by simpa using (h k).2.2.mpr (by simpa using hk.2)⟩

theorem at_put (X : Spec.Position) (hsz : X.cells.size = 64) (t s : Spec.Sq) (v : Option Piece) (ht : InB t) :
    (X.put t v).at s = if s = t then v else X.at s := by
  unfold InB at ht
  unfold Spec.Position.put Spec.Position.at
  rw [if_pos ht]
  by_cases hs : s.file < 8 ∧ s.rank < 8
  · simp only [hs, and_self, if_true]
    have hlt : s.rank * 8 + s.file < X.cells.size := by omega
    by_cases e : s = t
    · subst e
      simp only [if_true]
      rw [Array.getD_eq_getD_getElem?, Array.getElem?_setIfInBounds_self_of_lt hlt]
      rfl
    · simp only [e, if_false]
      have : t.rank * 8 + t.file ≠ s.rank * 8 + s.file := by
        intro hh; apply e; cases s; cases t; simp only at *; congr 1 <;> omega
      rw [Array.getD_eq_getD_getElem?, Array.getD_eq_getD_getElem?, Array.getElem?_setIfInBounds_ne this]
  · have : s ≠ t := by intro e; subst e; exact hs ht
    simp [hs, this]

theorem put_size (X : Spec.Position) (t : Spec.Sq) (v : Option Piece) : (X.put t v).cells.size = X.cells.size := by
  unfold Spec.Position.put; split <;> simp

theorem sameForCheck_put (c : Color) (X : Spec.Position) (hsz : X.cells.size = 64) (t : Spec.Sq) (ht : InB t)
    (k1 k2 : Kind) (h1 : k1 ≠ .king) (h2 : k2 ≠ .king) :
    SameForCheck c (X.put t (some ⟨c, k1⟩)) (X.put t (some ⟨c, k2⟩)) := by
  intro s
  rw [at_put X hsz t s _ ht, at_put X hsz t s _ ht]
  by_cases e : s = t
  · simp only [e, if_true, Option.isNone_some, true_and]
    constructor
    · intro pc hpc
      constructor <;> intro hx <;> (injection hx with hx; rw [← hx] at hpc; exact absurd hpc (Color.opp_ne c).symm)
    · constructor <;> intro hx <;> injection hx with hx <;> injection hx with _ hk
      · exact absurd hk h1
      · exact absurd hk h2
  · rw [if_neg e, if_neg e]
    exact ⟨rfl, fun _ _ => Iff.rfl, Iff.rfl⟩

theorem abs_size (p : Pos) : (abs p).cells.size = 64 := by rw [abs_cells]; exact absCells_size _

/-- the generator's king-safety test on the moved board is the specification's test on `apply` -/
theorem filter_normal (p : Pos) (hr : RingOK p.board) (hi : InnerOK p.board) (hko : KingsOK p) (o : Spec.Sq) (ho : InB o)
    (pc : Piece) (hpc : p.board.get (toPt o).row (toPt o).col = .full pc) (hcol : pc.color = p.toMove)
    (mov : Point) (hm : OnBoard mov) (hrule : normalRule (abs p) o pc (specOf mov) = true)
    (hnk : ∀ c, p.board.get mov.row mov.col ≠ .full ⟨c, .king⟩)
    (pr : Option Kind) (hpr : ∀ k, pr = some k → pc.kind ≠ .king ∧ k ≠ .king) :
    isCheck (st1 h pc p (toPt o) mov) pc.color =
      Spec.inCheck (Spec.apply (abs p) ⟨o, specOf mov, pr⟩) (abs p).side := by
  have hto := toPt_onBoard o ho
  have hsrc : (abs p).at o = some pc := by rw [abs_at p o ho, hpc]; rfl
  have hb : (st1 h pc p (toPt o) mov).board = (p.board.set (toPt o).row (toPt o).col .empty).set mov.row mov.col (.full pc) := by
    rw [st1_board]; exact movePiece_board_full h p (toPt o) mov pc hpc
  have hr1 : RingOK (st1 h pc p (toPt o) mov).board := by
    rw [hb]; exact ringOK_set _ mov _ (ringOK_set _ (toPt o) _ hr hto) hm
  have hi1 : InnerOK (st1 h pc p (toPt o) mov).board := by
    rw [hb]; exact innerOK_set _ mov _ (innerOK_set _ (toPt o) _ hi (by simp)) (by simp)
  have hk1 := kingsOK_st1 h p hko pc (toPt o) mov hpc hto hm hnk
  rw [isCheck_eq_inCheck _ hr1 hi1 hk1 pc.color]
  have hc1 : (abs (st1 h pc p (toPt o) mov)).cells = (((abs p).put o none).put (specOf mov) (some pc)).cells := by
    rw [abs_cells, st1_cells h pc p (toPt o) mov hpc hto hm, specOf_toPt o ho]
  rw [inCheck_congr _ _ hc1]
  have hap := apply_normal (abs p) ⟨o, specOf mov, pr⟩ pc hsrc (not_castle _ _ _ _ _ hsrc hrule) (not_ep _ _ _ _ _ hsrc hrule)
  have hc2 : (Spec.apply (abs p) ⟨o, specOf mov, pr⟩).cells =
      (((abs p).put o none).put (specOf mov) (some (landed (abs p).side pc pr))).cells := by rw [hap]
  rw [inCheck_congr (Spec.apply (abs p) ⟨o, specOf mov, pr⟩) _ hc2]
  have hside : (abs p).side = pc.color := hcol.symm
  rw [hside]
  cases pr with
  | none => rfl
  | some k =>
    obtain ⟨n1, n2⟩ := hpr k rfl
    have hsz : (((abs p).put o none)).cells.size = 64 := by rw [put_size, abs_size]
    have := sameForCheck_put pc.color ((abs p).put o none) hsz (specOf mov) (specOf_inB mov hm) pc.kind k n1 n2
    have e : (⟨pc.color, pc.kind⟩ : Piece) = pc := by cases pc; rfl
    rw [e] at this
    exact inCheck_same pc.color _ _ this

end Walleye
