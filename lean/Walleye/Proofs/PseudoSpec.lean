/-
  The pseudo-legal targets of `get_moves` are the specification's rules of movement
  (normal moves: no castling, no en passant), piece kind by piece kind.  (C01)
-/
import Walleye.Proofs.MovesChar
import Walleye.Proofs.CheckSpec
namespace Walleye

theorem at_specOf (p : Pos) (pt : Point) (h : OnBoard pt) :
    (abs p).at (specOf pt) = squareToOpt (p.board.get pt.row pt.col) := by
  rw [abs_at p _ (specOf_inB pt h), toPt_specOf pt h]

/-- "the target does not hold a piece of the mover's colour" on both sides -/
def tgtFree (P : Spec.Position) (c : Color) (t : Spec.Sq) : Bool :=
  match P.at t with
  | some x => x.color != c
  | none => true

theorem tgtFree_iff (p : Pos) (hi : InnerOK p.board) (c : Color) (pt : Point) (h : OnBoard pt) :
    tgtFree (abs p) c (specOf pt) = true ↔ (p.board.get pt.row pt.col).isEmptyOrColor c.opp = true := by
  unfold tgtFree
  rw [at_specOf p pt h]
  have hnb := hi pt.row pt.col h
  cases hsq : p.board.get pt.row pt.col with
  | boundary => exact absurd hsq hnb
  | empty => simp [squareToOpt, Square.isEmptyOrColor]
  | full x =>
    simp only [squareToOpt, Square.isEmptyOrColor, bne_iff_ne, ne_eq, beq_iff_eq]
    cases c <;> cases hx : x.color <;> simp [Color.opp]

theorem onBoard_of_isEmptyOrColor (b : Board) (hr : RingOK b) (r c : Nat) (col : Color)
    (h : (b.get r c).isEmptyOrColor col = true) : OnBoard ⟨r, c⟩ :=
  hr r c (isEmptyOrColor_ne_boundary _ _ h)

/-! ### knight -/

def knightShape (a b : Nat) : Bool := (a == 1 && b == 2) || (a == 2 && b == 1)

theorem knight_bridge (p : Pos) (hr : RingOK p.board) (s : Spec.Sq) (hs : InB s) (c : Color) (mov : Point) :
    (∃ rc ∈ Gen.knightCords, mov = ptI (((toPt s).row : Int) + rc.1) (((toPt s).col : Int) + rc.2) ∧
      (p.board.getI (((toPt s).row : Int) + rc.1) (((toPt s).col : Int) + rc.2)).isEmptyOrColor c.opp = true) ↔
    (OnBoard mov ∧
      knightShape (Spec.iabs (((specOf mov).file : Int) - s.file)) (Spec.iabs (((specOf mov).rank : Int) - s.rank)) = true ∧
      (p.board.get mov.row mov.col).isEmptyOrColor c.opp = true) := by
  unfold InB at hs
  unfold knightShape Spec.iabs toPt specOf
  simp only [Bool.or_eq_true, Bool.and_eq_true, beq_iff_eq]
  constructor
  · rintro ⟨rc, hrc, hm, he⟩
    have hnb := isEmptyOrColor_ne_boundary _ _ he
    obtain ⟨h0, h1, e⟩ := getI_ne_boundary _ _ _ hnb
    have hob : 2 ≤ ((9 - s.rank : Nat) : Int) + rc.1 ∧ ((9 - s.rank : Nat) : Int) + rc.1 ≤ 9 ∧
        2 ≤ ((s.file + 2 : Nat) : Int) + rc.2 ∧ ((s.file + 2 : Nat) : Int) + rc.2 ≤ 9 := by
      by_cases hb : 2 ≤ ((9 - s.rank : Nat) : Int) + rc.1 ∧ ((9 - s.rank : Nat) : Int) + rc.1 ≤ 9 ∧
        2 ≤ ((s.file + 2 : Nat) : Int) + rc.2 ∧ ((s.file + 2 : Nat) : Int) + rc.2 ≤ 9
      · exact hb
      · exact absurd (offboard_boundary _ hr _ _ hb) hnb
    subst hm
    rw [e] at he
    simp only [Gen.knightCords, List.mem_cons, List.mem_nil_iff, or_false] at hrc
    unfold OnBoard ptI
    refine ⟨by simp only; omega, ?_, he⟩
    simp only
    rcases hrc with rfl | rfl | rfl | rfl | rfl | rfl | rfl | rfl <;> simp only at hob ⊢ <;> omega
  · rintro ⟨hob, hsh, he⟩
    unfold OnBoard at hob
    refine ⟨((mov.row : Int) - (9 - s.rank : Nat), (mov.col : Int) - (s.file + 2 : Nat)), ?_, ?_, ?_⟩
    · have : (((mov.col - 2 : Nat) : Int) - s.file = 1 ∨ ((mov.col - 2 : Nat) : Int) - s.file = -1) ∧
          (((9 - mov.row : Nat) : Int) - s.rank = 2 ∨ ((9 - mov.row : Nat) : Int) - s.rank = -2) ∨
          (((mov.col - 2 : Nat) : Int) - s.file = 2 ∨ ((mov.col - 2 : Nat) : Int) - s.file = -2) ∧
          (((9 - mov.row : Nat) : Int) - s.rank = 1 ∨ ((9 - mov.row : Nat) : Int) - s.rank = -1) := by omega
      have e1 : (mov.row : Int) - (9 - s.rank : Nat) = -(((9 - mov.row : Nat) : Int) - s.rank) := by omega
      have e2 : (mov.col : Int) - (s.file + 2 : Nat) = ((mov.col - 2 : Nat) : Int) - s.file := by omega
      rw [e1, e2]
      rcases this with ⟨a | a, b | b⟩ | ⟨a | a, b | b⟩ <;> rw [a, b] <;> decide
    · unfold ptI; cases mov; simp only at *; congr 1 <;> omega
    · unfold Board.getI
      rw [if_pos ⟨by omega, by omega⟩]
      have e1 : (((9 - s.rank : Nat) : Int) + ((mov.row : Int) - (9 - s.rank : Nat))).toNat = mov.row := by omega
      have e2 : (((s.file + 2 : Nat) : Int) + ((mov.col : Int) - (s.file + 2 : Nat))).toNat = mov.col := by omega
      rw [e1, e2]; exact he

/-! ### king (one-square moves) -/

theorem king_bridge (p : Pos) (hr : RingOK p.board) (s : Spec.Sq) (hs : InB s) (c : Color) (mov : Point)
    (hown : (p.board.get (toPt s).row (toPt s).col).isEmptyOrColor c.opp = false) :
    (∃ i j : Nat, i < 3 ∧ j < 3 ∧ mov = ⟨(toPt s).row + i - 1, (toPt s).col + j - 1⟩ ∧
      (p.board.get ((toPt s).row + i - 1) ((toPt s).col + j - 1)).isEmptyOrColor c.opp = true) ↔
    (OnBoard mov ∧
      max (Spec.iabs (((specOf mov).file : Int) - s.file)) (Spec.iabs (((specOf mov).rank : Int) - s.rank)) = 1 ∧
      (p.board.get mov.row mov.col).isEmptyOrColor c.opp = true) := by
  unfold InB at hs
  unfold Spec.iabs toPt specOf at *
  simp only at *
  constructor
  · rintro ⟨i, j, hi, hj, hm, he⟩
    have hob := onBoard_of_isEmptyOrColor _ hr _ _ _ he
    unfold OnBoard at hob
    simp only at hob
    have hne : ¬ (i = 1 ∧ j = 1) := by
      rintro ⟨rfl, rfl⟩
      have e1 : 9 - s.rank + 1 - 1 = 9 - s.rank := by omega
      have e2 : s.file + 2 + 1 - 1 = s.file + 2 := by omega
      rw [e1, e2, hown] at he; cases he
    subst hm
    refine ⟨by unfold OnBoard; simp only; omega, ?_, he⟩
    simp only
    omega
  · rintro ⟨hob, hsh, he⟩
    unfold OnBoard at hob
    refine ⟨mov.row + 1 - (9 - s.rank), mov.col + 1 - (s.file + 2), by omega, by omega, ?_, ?_⟩
    · cases mov; simp only at *; congr 1 <;> omega
    · have e1 : 9 - s.rank + (mov.row + 1 - (9 - s.rank)) - 1 = mov.row := by omega
      have e2 : s.file + 2 + (mov.col + 1 - (s.file + 2)) - 1 = mov.col := by omega
      rw [e1, e2]; exact he

/-! ### sliders -/

theorem iabs_sub_comm (a b : Int) : Spec.iabs (a - b) = Spec.iabs (b - a) := by unfold Spec.iabs; omega

/-- geometry seen from the origin `o` of the ray: `q` is the square `n+1` steps along `d` -/
theorem geom_fwd (of or_ qf qr : Nat) (d1 d2 : Int) (n : Nat) (hd : UnitDir (d1, d2))
    (hqf : (qf : Int) = of + d2 + n * d2) (hqr : (qr : Int) = or_ - d1 - n * d1) :
    Spec.sgn ((qf : Int) - of) = d2 ∧ Spec.sgn ((qr : Int) - or_) = -d1 := by
  obtain ⟨h1, h2, h3⟩ := hd
  simp only at h1 h2 h3
  rcases h1 with e | e | e <;> rcases h2 with e' | e' | e' <;> subst e <;> subst e' <;>
    first
    | (exfalso; exact h3 ⟨rfl, rfl⟩)
    | (refine ⟨by sgn_tac, by sgn_tac⟩)

theorem rayPt_specAt (b : Board) (hr : RingOK b) (o : Spec.Sq) (ho : InB o) (d : Int × Int) (n : Nat)
    (h : rayAt b (toPt o) d n ≠ .boundary) : rayPt (toPt o) d n = toPt (specAt o d n) := by
  obtain ⟨h1, h2, h3, h4⟩ := ray_bounds b hr (toPt o) d n h
  unfold InB at ho
  unfold rayPt ptI toPt specAt at *
  simp only at *
  congr 1 <;> omega

/-- `clearBetween` from the origin of the ray to its (n+1)-th square -/
theorem clear_fwd (p : Pos) (hr : RingOK p.board) (hi : InnerOK p.board) (o : Spec.Sq) (ho : InB o)
    (d : Int × Int) (hd : UnitDir d) (n : Nat) (h : rayAt p.board (toPt o) d n ≠ .boundary) :
    Spec.clearBetween (abs p) o (specAt o d n) = true ↔
      ∀ i : Nat, i < n → (rayAt p.board (toPt o) d i).isEmpty = true := by
  obtain ⟨h1, h2, h3, h4⟩ := ray_bounds p.board hr (toPt o) d n h
  have ho' := ho
  unfold InB at ho'
  unfold toPt at h1 h2 h3 h4
  simp only at h1 h2 h3 h4
  have hqf : ((specAt o d n).file : Int) = o.file + d.2 + n * d.2 := by
    unfold specAt; simp only; omega
  have hqr : ((specAt o d n).rank : Int) = o.rank - d.1 - n * d.1 := by
    unfold specAt; simp only; omega
  obtain ⟨g1, g2⟩ := geom_fwd o.file o.rank (specAt o d n).file (specAt o d n).rank d.1 d.2 n hd hqf hqr
  obtain ⟨g3, g4⟩ := specAt_geom p.board hr o ho d hd n h
  rw [iabs_sub_comm] at g3 g4
  have hmax : max (Spec.iabs (((specAt o d n).file : Int) - o.file)) (Spec.iabs (((specAt o d n).rank : Int) - o.rank)) - 1 = n := by
    rw [g3, g4]
    obtain ⟨_, _, u3⟩ := hd
    by_cases e1 : d.1 = 0 <;> by_cases e2 : d.2 = 0 <;> simp only [e1, e2, if_true, if_false] <;>
      first | (exfalso; exact u3 ⟨e1, e2⟩) | omega
  unfold Spec.clearBetween
  simp only [hmax, g1, g2, List.all_eq_true, List.mem_range]
  have hprobe : ∀ i : Nat, i < n →
      (⟨((o.file : Int) + ((i : Int) + 1) * d.2).toNat, ((o.rank : Int) + ((i : Int) + 1) * -d.1).toNat⟩ : Spec.Sq)
        = specAt o d i := by
    intro i hi'
    obtain ⟨u1, u2, _⟩ := hd
    unfold specAt
    congr 1
    · rcases u2 with e | e | e <;> rw [e] <;> omega
    · rcases u1 with e | e | e <;> rw [e] <;> omega
  have hsq : ∀ j : Nat, j < n → ((abs p).at (specAt o d j)).isNone = (rayAt p.board (toPt o) d j).isEmpty := by
    intro j hj
    have hnb := between_onBoard p.board hr hi o ho d hd n h j (by omega)
    obtain ⟨hin, e⟩ := rayAt_specAt p.board hr o ho d j hnb
    rw [abs_at p _ hin, ← e, squareToOpt_isNone _ hnb]
  constructor
  · intro hall i hi'
    have := hall i hi'
    rw [hprobe i hi', hsq i hi'] at this
    exact this
  · intro hall i hi'
    rw [hprobe i hi', hsq i hi']
    exact hall i hi'

theorem slider_bridge (p : Pos) (hr : RingOK p.board) (hi : InnerOK p.board) (o : Spec.Sq) (ho : InB o) (c : Color)
    (dirs : List (Int × Int)) (shape : Nat → Nat → Bool)
    (H1 : ∀ d ∈ dirs, UnitDir d ∧
      ∀ n : Nat, shape (if d.2 = 0 then 0 else n + 1) (if d.1 = 0 then 0 else n + 1) = true)
    (H2 : ∀ df dr : Int, shape (Spec.iabs df) (Spec.iabs dr) = true →
      OnLine df dr ∧ (Spec.sgn dr, -Spec.sgn df) ∈ dirs)
    (mov : Point) :
    (∃ d ∈ dirs, ∃ n : Nat, mov = rayPt (toPt o) d n ∧
      (∀ i : Nat, i < n → (rayAt p.board (toPt o) d i).isEmpty = true) ∧
      (rayAt p.board (toPt o) d n).isEmptyOrColor c.opp = true) ↔
    (OnBoard mov ∧
      shape (Spec.iabs (((specOf mov).file : Int) - o.file)) (Spec.iabs (((specOf mov).rank : Int) - o.rank)) = true ∧
      Spec.clearBetween (abs p) o (specOf mov) = true ∧
      (p.board.get mov.row mov.col).isEmptyOrColor c.opp = true) := by
  constructor
  · rintro ⟨d, hd, n, hm, hemp, htg⟩
    have hnb := isEmptyOrColor_ne_boundary _ _ htg
    obtain ⟨hu, hsh⟩ := H1 d hd
    obtain ⟨hin, e⟩ := rayAt_specAt p.board hr o ho d n hnb
    have hpt := rayPt_specAt p.board hr o ho d n hnb
    rw [hpt] at hm
    have hso : specOf mov = specAt o d n := by rw [hm]; exact specOf_toPt _ hin
    obtain ⟨g3, g4⟩ := specAt_geom p.board hr o ho d hu n hnb
    rw [iabs_sub_comm] at g3 g4
    refine ⟨by rw [hm]; exact toPt_onBoard _ hin, ?_, ?_, ?_⟩
    · rw [hso, g3, g4]; exact hsh n
    · rw [hso]; exact (clear_fwd p hr hi o ho d hu n hnb).mpr hemp
    · rw [hm, ← e]; exact htg
  · rintro ⟨hob, hshape, hclear, htg⟩
    have hin := specOf_inB mov hob
    have hnb := isEmptyOrColor_ne_boundary _ _ htg
    rw [iabs_sub_comm ((specOf mov).file : Int), iabs_sub_comm ((specOf mov).rank : Int)] at hshape
    obtain ⟨hl, hmem⟩ := H2 _ _ hshape
    obtain ⟨hu, hspec, hray⟩ := specAt_of_line p.board (specOf mov) o hin ho hl
    rw [toPt_specOf mov hob] at hray
    have hnb' : rayAt p.board (toPt o) (Spec.sgn ((o.rank : Int) - (specOf mov).rank), -Spec.sgn ((o.file : Int) - (specOf mov).file))
        (max (Spec.iabs ((o.file : Int) - (specOf mov).file)) (Spec.iabs ((o.rank : Int) - (specOf mov).rank)) - 1) ≠ .boundary := by
      rw [hray]; exact hnb
    refine ⟨_, hmem, (max (Spec.iabs ((o.file : Int) - (specOf mov).file)) (Spec.iabs ((o.rank : Int) - (specOf mov).rank)) - 1), ?_, ?_, ?_⟩
    · rw [rayPt_specAt p.board hr o ho _ _ hnb', hspec, toPt_specOf mov hob]
    · have := clear_fwd p hr hi o ho _ hu _ hnb'
      rw [hspec] at this
      exact this.mp hclear
    · rw [hray]; exact htg

/-! ### pawns (pushes and ordinary captures) -/

theorem onBoard_of_isEmpty (b : Board) (hr : RingOK b) (r c : Nat) (h : (b.get r c).isEmpty = true) : OnBoard ⟨r, c⟩ :=
  hr r c (isEmpty_ne_boundary _ h)
theorem onBoard_of_isColor (b : Board) (hr : RingOK b) (r c : Nat) (col : Color) (h : (b.get r c).isColor col = true) :
    OnBoard ⟨r, c⟩ := hr r c (isColor_ne_boundary _ _ h)

theorem pawn_bridge_white (p : Pos) (hr : RingOK p.board) (o : Spec.Sq) (ho : InB o) (piece : Piece)
    (hc : piece.color = .white) (mov : Point) :
    mov ∈ pawnMoves piece (toPt o).row (toPt o).col p.board .all ↔
      (OnBoard mov ∧
        (((specOf mov).file = o.file ∧ (p.board.get mov.row mov.col).isEmpty = true ∧
            ((specOf mov).rank = o.rank + 1 ∨
             ((specOf mov).rank = o.rank + 2 ∧ o.rank = 1 ∧
               (p.board.get (toPt ⟨o.file, o.rank + 1⟩).row (toPt ⟨o.file, o.rank + 1⟩).col).isEmpty = true))) ∨
         (((specOf mov).file + 1 = o.file ∨ (specOf mov).file = o.file + 1) ∧ (specOf mov).rank = o.rank + 1 ∧
            (p.board.get mov.row mov.col).isColor .black = true))) := by
  rw [mem_pawnMoves_white piece hc]
  unfold InB at ho
  unfold toPt specOf
  simp only [Gen.whiteDoublePushRow]
  constructor
  · rintro (⟨hm, hx⟩ | ⟨hm, hx⟩ | ⟨_, he, h⟩)
    · have hob := onBoard_of_isColor _ hr _ _ _ hx
      subst hm
      unfold OnBoard at hob ⊢; simp only at hob ⊢
      exact ⟨by omega, Or.inr ⟨by omega, by omega, hx⟩⟩
    · have hob := onBoard_of_isColor _ hr _ _ _ hx
      subst hm
      unfold OnBoard at hob ⊢; simp only at hob ⊢
      exact ⟨by omega, Or.inr ⟨by omega, by omega, hx⟩⟩
    · have hob := onBoard_of_isEmpty _ hr _ _ he
      unfold OnBoard at hob; simp only at hob
      rcases h with hm | ⟨h1, h2, hm⟩
      · subst hm
        unfold OnBoard; simp only
        exact ⟨by omega, Or.inl ⟨by omega, he, Or.inl (by omega)⟩⟩
      · have hob2 := onBoard_of_isEmpty _ hr _ _ h2
        unfold OnBoard at hob2; simp only at hob2
        subst hm
        unfold OnBoard; simp only
        refine ⟨by omega, Or.inl ⟨by omega, h2, Or.inr ⟨by omega, by omega, ?_⟩⟩⟩
        have e : 9 - (o.rank + 1) = 9 - o.rank - 1 := by omega
        rw [e]; exact he
  · rintro ⟨hob, h⟩
    unfold OnBoard at hob
    rcases h with ⟨hf, he, h⟩ | ⟨hf, hk, hx⟩
    · right; right
      refine ⟨True.intro, ?_, ?_⟩
      · rcases h with h | ⟨h1, h2, h3⟩
        · have e1 : 9 - o.rank - 1 = mov.row := by omega
          have e2 : o.file + 2 = mov.col := by omega
          rw [e1, e2]; exact he
        · have e : 9 - (o.rank + 1) = 9 - o.rank - 1 := by omega
          rw [e] at h3; exact h3
      · rcases h with h | ⟨h1, h2, h3⟩
        · left; cases mov; simp only at *; congr 1 <;> omega
        · right
          refine ⟨by omega, ?_, ?_⟩
          · have e1 : 9 - o.rank - 2 = mov.row := by omega
            have e2 : o.file + 2 = mov.col := by omega
            rw [e1, e2]; exact he
          · cases mov; simp only at *; congr 1 <;> omega
    · rcases hf with hf | hf
      · left
        have e1 : 9 - o.rank - 1 = mov.row := by omega
        have e2 : o.file + 2 - 1 = mov.col := by omega
        rw [e1, e2]
        exact ⟨by cases mov; simp only at *, hx⟩
      · right; left
        have e1 : 9 - o.rank - 1 = mov.row := by omega
        have e2 : o.file + 2 + 1 = mov.col := by omega
        rw [e1, e2]
        exact ⟨by cases mov; simp only at *, hx⟩

theorem pawn_bridge_black (p : Pos) (hr : RingOK p.board) (o : Spec.Sq) (ho : InB o) (piece : Piece)
    (hc : piece.color = .black) (mov : Point) :
    mov ∈ pawnMoves piece (toPt o).row (toPt o).col p.board .all ↔
      (OnBoard mov ∧
        (((specOf mov).file = o.file ∧ (p.board.get mov.row mov.col).isEmpty = true ∧
            ((specOf mov).rank + 1 = o.rank ∨
             ((specOf mov).rank + 2 = o.rank ∧ o.rank = 6 ∧
               (p.board.get (toPt ⟨o.file, o.rank - 1⟩).row (toPt ⟨o.file, o.rank - 1⟩).col).isEmpty = true))) ∨
         (((specOf mov).file + 1 = o.file ∨ (specOf mov).file = o.file + 1) ∧ (specOf mov).rank + 1 = o.rank ∧
            (p.board.get mov.row mov.col).isColor .white = true))) := by
  rw [mem_pawnMoves_black piece hc]
  unfold InB at ho
  unfold toPt specOf
  simp only [Gen.blackDoublePushRow]
  constructor
  · rintro (⟨hm, hx⟩ | ⟨hm, hx⟩ | ⟨_, he, h⟩)
    · have hob := onBoard_of_isColor _ hr _ _ _ hx
      subst hm
      unfold OnBoard at hob ⊢; simp only at hob ⊢
      exact ⟨by omega, Or.inr ⟨by omega, by omega, hx⟩⟩
    · have hob := onBoard_of_isColor _ hr _ _ _ hx
      subst hm
      unfold OnBoard at hob ⊢; simp only at hob ⊢
      exact ⟨by omega, Or.inr ⟨by omega, by omega, hx⟩⟩
    · have hob := onBoard_of_isEmpty _ hr _ _ he
      unfold OnBoard at hob; simp only at hob
      rcases h with hm | ⟨h1, h2, hm⟩
      · subst hm
        unfold OnBoard; simp only
        exact ⟨by omega, Or.inl ⟨by omega, he, Or.inl (by omega)⟩⟩
      · have hob2 := onBoard_of_isEmpty _ hr _ _ h2
        unfold OnBoard at hob2; simp only at hob2
        subst hm
        unfold OnBoard; simp only
        refine ⟨by omega, Or.inl ⟨by omega, h2, Or.inr ⟨by omega, by omega, ?_⟩⟩⟩
        have e : 9 - (o.rank - 1) = 9 - o.rank + 1 := by omega
        rw [e]; exact he
  · rintro ⟨hob, h⟩
    unfold OnBoard at hob
    rcases h with ⟨hf, he, h⟩ | ⟨hf, hk, hx⟩
    · right; right
      refine ⟨True.intro, ?_, ?_⟩
      · rcases h with h | ⟨h1, h2, h3⟩
        · have e1 : 9 - o.rank + 1 = mov.row := by omega
          have e2 : o.file + 2 = mov.col := by omega
          rw [e1, e2]; exact he
        · have e : 9 - (o.rank - 1) = 9 - o.rank + 1 := by omega
          rw [e] at h3; exact h3
      · rcases h with h | ⟨h1, h2, h3⟩
        · left; cases mov; simp only at *; congr 1 <;> omega
        · right
          refine ⟨by omega, ?_, ?_⟩
          · have e1 : 9 - o.rank + 2 = mov.row := by omega
            have e2 : o.file + 2 = mov.col := by omega
            rw [e1, e2]; exact he
          · cases mov; simp only at *; congr 1 <;> omega
    · rcases hf with hf | hf
      · right; left
        have e1 : 9 - o.rank + 1 = mov.row := by omega
        have e2 : o.file + 2 - 1 = mov.col := by omega
        rw [e1, e2]
        exact ⟨by cases mov; simp only at *, hx⟩
      · left
        have e1 : 9 - o.rank + 1 = mov.row := by omega
        have e2 : o.file + 2 + 1 = mov.col := by omega
        rw [e1, e2]
        exact ⟨by cases mov; simp only at *, hx⟩

/-! ### all kinds together -/

/-- the rules of movement for an ordinary move (no castling, no en passant), as in
    `Spec.pseudoLegal` -/
def normalRule (P : Spec.Position) (o : Spec.Sq) (pc : Piece) (t : Spec.Sq) : Bool :=
  tgtFree P pc.color t &&
  match pc.kind with
  | .pawn =>
    if o.file == t.file then
      (P.at t).isNone &&
      (decide (((t.rank : Int) - o.rank) = Spec.fwd pc.color) ||
       (decide (((t.rank : Int) - o.rank) = 2 * Spec.fwd pc.color) && o.rank == Spec.pawnStartRank pc.color &&
        (P.at ⟨o.file, ((o.rank : Int) + Spec.fwd pc.color).toNat⟩).isNone))
    else Spec.attacksFrom P o pc t && (P.at t).isSome
  | _ => Spec.attacksFrom P o pc t

theorem rookDirs_H1 : ∀ d ∈ Gen.rookDirs, UnitDir d ∧
    ∀ n : Nat, rookShape (if d.2 = 0 then 0 else n + 1) (if d.1 = 0 then 0 else n + 1) = true := rook_H1
theorem bishopDirs_H1 : ∀ d ∈ Gen.bishopDirs, UnitDir d ∧
    ∀ n : Nat, bishopShape (if d.2 = 0 then 0 else n + 1) (if d.1 = 0 then 0 else n + 1) = true := bishop_H1
theorem rookDirs_H2 (df dr : Int) (h : rookShape (Spec.iabs df) (Spec.iabs dr) = true) :
    OnLine df dr ∧ (Spec.sgn dr, -Spec.sgn df) ∈ Gen.rookDirs := rook_H2 df dr h
theorem bishopDirs_H2 (df dr : Int) (h : bishopShape (Spec.iabs df) (Spec.iabs dr) = true) :
    OnLine df dr ∧ (Spec.sgn dr, -Spec.sgn df) ∈ Gen.bishopDirs := bishop_H2 df dr h

theorem isNone_iff_isEmpty (p : Pos) (hi : InnerOK p.board) (pt : Point) (h : OnBoard pt) :
    ((abs p).at (specOf pt)).isNone = (p.board.get pt.row pt.col).isEmpty := by
  rw [at_specOf p pt h, squareToOpt_isNone _ (hi pt.row pt.col h)]

theorem isSome_free_iff_isColor (p : Pos) (hi : InnerOK p.board) (c : Color) (pt : Point) (h : OnBoard pt) :
    (tgtFree (abs p) c (specOf pt) = true ∧ ((abs p).at (specOf pt)).isSome = true) ↔
      (p.board.get pt.row pt.col).isColor c.opp = true := by
  unfold tgtFree
  rw [at_specOf p pt h]
  have hnb := hi pt.row pt.col h
  cases hsq : p.board.get pt.row pt.col with
  | boundary => exact absurd hsq hnb
  | empty => simp [squareToOpt, Square.isColor]
  | full x =>
    simp only [squareToOpt, Square.isColor, bne_iff_ne, ne_eq, beq_iff_eq, Option.isSome_some, and_true]
    cases c <;> cases hx : x.color <;> simp [Color.opp]

/-- slider moves of the model: membership in a `flatMap` over directions -/
theorem mem_slides (piece : Piece) (t : Point) (b : Board) (dirs : List (Int × Int)) (hr : RingOK b)
    (ht : OnBoard t) (hd : ∀ d ∈ dirs, UnitDir d) (pt : Point) :
    pt ∈ dirs.flatMap (slideDir piece t.row t.col b .all) ↔
      ∃ d ∈ dirs, ∃ n : Nat, pt = rayPt t d n ∧
        (∀ i : Nat, i < n → (rayAt b t d i).isEmpty = true) ∧
        (rayAt b t d n).isEmptyOrColor piece.color.opp = true := by
  rw [List.mem_flatMap]
  constructor
  · rintro ⟨d, hdm, h⟩
    obtain ⟨n, h1, h2, h3⟩ := (mem_slideDir piece t.row t.col b .all d hr ht (hd d hdm) pt).mp h
    exact ⟨d, hdm, n, h1, h2, by simpa [tgtOK] using h3⟩
  · rintro ⟨d, hdm, n, h1, h2, h3⟩
    exact ⟨d, hdm, (mem_slideDir piece t.row t.col b .all d hr ht (hd d hdm) pt).mpr ⟨n, h1, h2, by simpa [tgtOK] using h3⟩⟩

/-- **pseudo-legal targets = rules of movement**: for a piece standing on `o`, the targets
    `get_moves` produces in all-moves mode are exactly the squares the specification's rules of
    movement allow for an ordinary move -/
theorem getMoves_spec (p : Pos) (hr : RingOK p.board) (hi : InnerOK p.board) (o : Spec.Sq) (ho : InB o) (pc : Piece)
    (hpc : p.board.get (toPt o).row (toPt o).col = .full pc) (mov : Point) :
    mov ∈ getMoves pc (toPt o).row (toPt o).col p.board .all ↔
      (OnBoard mov ∧ normalRule (abs p) o pc (specOf mov) = true) := by
  have hto := toPt_onBoard o ho
  have hown : (p.board.get (toPt o).row (toPt o).col).isEmptyOrColor pc.color.opp = false := by
    rw [hpc]; cases pc with | mk c k => cases c <;> simp [Square.isEmptyOrColor, Color.opp]
  obtain ⟨c, k⟩ := pc
  unfold getMoves normalRule
  cases k with
  | knight =>
    simp only [mem_knightMoves, tgtOK, if_true]
    rw [knight_bridge p hr o ho c mov]
    unfold Spec.attacksFrom knightShape
    simp only [Bool.and_eq_true]
    constructor
    · rintro ⟨h1, h2, h3⟩; exact ⟨h1, (tgtFree_iff p hi c mov h1).mpr h3, h2⟩
    · rintro ⟨h1, h2, h3⟩; exact ⟨h1, h3, (tgtFree_iff p hi c mov h1).mp h2⟩
  | king =>
    simp only [mem_kingMoves, tgtOK, if_true]
    rw [king_bridge p hr o ho c mov hown]
    unfold Spec.attacksFrom
    simp only [Bool.and_eq_true, beq_iff_eq]
    constructor
    · rintro ⟨h1, h2, h3⟩; exact ⟨h1, (tgtFree_iff p hi c mov h1).mpr h3, h2⟩
    · rintro ⟨h1, h2, h3⟩; exact ⟨h1, h3, (tgtFree_iff p hi c mov h1).mp h2⟩
  | rook =>
    unfold rookMoves
    rw [mem_slides _ (toPt o) _ _ hr hto (fun d hd => (rookDirs_H1 d hd).1),
      slider_bridge p hr hi o ho c Gen.rookDirs rookShape rookDirs_H1 rookDirs_H2 mov]
    unfold Spec.attacksFrom rookShape
    simp only [Bool.and_eq_true]
    constructor
    · rintro ⟨h1, h2, h3, h4⟩; exact ⟨h1, (tgtFree_iff p hi c mov h1).mpr h4, by simpa using h2, h3⟩
    · rintro ⟨h1, h2, h3, h4⟩; exact ⟨h1, by simpa using h3, h4, (tgtFree_iff p hi c mov h1).mp h2⟩
  | bishop =>
    unfold bishopMoves
    rw [mem_slides _ (toPt o) _ _ hr hto (fun d hd => (bishopDirs_H1 d hd).1),
      slider_bridge p hr hi o ho c Gen.bishopDirs bishopShape bishopDirs_H1 bishopDirs_H2 mov]
    unfold Spec.attacksFrom bishopShape
    simp only [Bool.and_eq_true]
    constructor
    · rintro ⟨h1, h2, h3, h4⟩; exact ⟨h1, (tgtFree_iff p hi c mov h1).mpr h4, by simpa using h2, h3⟩
    · rintro ⟨h1, h2, h3, h4⟩; exact ⟨h1, by simpa using h3, h4, (tgtFree_iff p hi c mov h1).mp h2⟩
  | queen =>
    unfold queenMoves rookMoves bishopMoves
    rw [List.mem_append, mem_slides _ (toPt o) _ _ hr hto (fun d hd => (rookDirs_H1 d hd).1),
      mem_slides _ (toPt o) _ _ hr hto (fun d hd => (bishopDirs_H1 d hd).1),
      slider_bridge p hr hi o ho c Gen.rookDirs rookShape rookDirs_H1 rookDirs_H2 mov,
      slider_bridge p hr hi o ho c Gen.bishopDirs bishopShape bishopDirs_H1 bishopDirs_H2 mov]
    unfold Spec.attacksFrom rookShape bishopShape
    simp only [Bool.and_eq_true, Bool.or_eq_true]
    constructor
    · rintro (⟨h1, h2, h3, h4⟩ | ⟨h1, h2, h3, h4⟩)
      · exact ⟨h1, (tgtFree_iff p hi c mov h1).mpr h4, Or.inr (by simpa using h2), h3⟩
      · exact ⟨h1, (tgtFree_iff p hi c mov h1).mpr h4, Or.inl (by simpa using h2), h3⟩
    · rintro ⟨h1, h2, h3 | h3, h4⟩
      · exact Or.inr ⟨h1, by simpa using h3, h4, (tgtFree_iff p hi c mov h1).mp h2⟩
      · exact Or.inl ⟨h1, by simpa using h3, h4, (tgtFree_iff p hi c mov h1).mp h2⟩
  | pawn =>
    simp only
    cases c with
    | white =>
      rw [pawn_bridge_white p hr o ho ⟨.white, .pawn⟩ rfl mov]
      apply and_congr_right
      intro hob
      have hnone := isNone_iff_isEmpty p hi mov hob
      have hcap := isSome_free_iff_isColor p hi .white mov hob
      simp only [Color.opp] at hcap
      have hin := specOf_inB mov hob
      unfold InB at hin ho
      by_cases hf : o.file = (specOf mov).file
      · have hif : (o.file == (specOf mov).file) = true := by simp [hf]
        rw [if_pos hif]
        simp only [Spec.fwd, Spec.pawnStartRank, Bool.and_eq_true, Bool.or_eq_true, decide_eq_true_eq, beq_iff_eq]
        have emid : (⟨o.file, ((o.rank : Int) + 1).toNat⟩ : Spec.Sq) = ⟨o.file, o.rank + 1⟩ := by congr 1
        rw [emid]
        have hmid : o.rank = 1 → ((abs p).at ⟨o.file, o.rank + 1⟩).isNone =
            (p.board.get (toPt ⟨o.file, o.rank + 1⟩).row (toPt ⟨o.file, o.rank + 1⟩).col).isEmpty := by
          intro h1
          rw [abs_at p _ (by unfold InB; simp only; omega)]
          exact squareToOpt_isNone _ (hi _ _ (toPt_onBoard _ (by unfold InB; simp only; omega)))
        constructor
        · rintro (⟨_, he, h⟩ | ⟨hf', _, _⟩)
          · have hnn : ((abs p).at (specOf mov)).isNone = true := by rw [hnone]; exact he
            refine ⟨by unfold tgtFree; rw [Option.isNone_iff_eq_none.mp hnn], hnn, ?_⟩
            rcases h with h | ⟨h1, h2, h3⟩
            · left; exact decide_eq_true (by omega)
            · right; exact ⟨⟨decide_eq_true (by omega), h2⟩, by rw [hmid h2]; exact h3⟩
          · omega
        · rintro ⟨_, hnn, h⟩
          left
          refine ⟨hf.symm, by rw [← hnone]; exact hnn, ?_⟩
          rcases h with h | ⟨⟨h1, h2⟩, h3⟩
          · left; have := of_decide_eq_true h; omega
          · right; have := of_decide_eq_true h1; exact ⟨by omega, h2, by rw [← hmid h2]; exact h3⟩
      · have hif : ¬ (o.file == (specOf mov).file) = true := by simp [hf]
        rw [if_neg hif]
        unfold Spec.attacksFrom Spec.iabs
        simp only [Bool.and_eq_true, decide_eq_true_eq, beq_iff_eq]
        constructor
        · rintro (⟨hf', _, _⟩ | ⟨hf', hk, hx⟩)
          · exact absurd hf'.symm hf
          · obtain ⟨t1, t2⟩ := hcap.mpr hx
            exact ⟨t1, ⟨by omega, by omega⟩, t2⟩
        · rintro ⟨hfree, ⟨h1, h2⟩, h3⟩
          right
          exact ⟨by omega, by omega, hcap.mp ⟨hfree, h3⟩⟩
    | black =>
      rw [pawn_bridge_black p hr o ho ⟨.black, .pawn⟩ rfl mov]
      apply and_congr_right
      intro hob
      have hnone := isNone_iff_isEmpty p hi mov hob
      have hcap := isSome_free_iff_isColor p hi .black mov hob
      simp only [Color.opp] at hcap
      have hin := specOf_inB mov hob
      unfold InB at hin ho
      by_cases hf : o.file = (specOf mov).file
      · have hif : (o.file == (specOf mov).file) = true := by simp [hf]
        rw [if_pos hif]
        simp only [Spec.fwd, Spec.pawnStartRank, Bool.and_eq_true, Bool.or_eq_true, decide_eq_true_eq, beq_iff_eq]
        have emid : (⟨o.file, ((o.rank : Int) + -1).toNat⟩ : Spec.Sq) = ⟨o.file, o.rank - 1⟩ := by congr 1; omega
        rw [emid]
        have hmid : o.rank = 6 → ((abs p).at ⟨o.file, o.rank - 1⟩).isNone =
            (p.board.get (toPt ⟨o.file, o.rank - 1⟩).row (toPt ⟨o.file, o.rank - 1⟩).col).isEmpty := by
          intro h1
          rw [abs_at p _ (by unfold InB; simp only; omega)]
          exact squareToOpt_isNone _ (hi _ _ (toPt_onBoard _ (by unfold InB; simp only; omega)))
        constructor
        · rintro (⟨_, he, h⟩ | ⟨hf', _, _⟩)
          · have hnn : ((abs p).at (specOf mov)).isNone = true := by rw [hnone]; exact he
            refine ⟨by unfold tgtFree; rw [Option.isNone_iff_eq_none.mp hnn], hnn, ?_⟩
            rcases h with h | ⟨h1, h2, h3⟩
            · left; exact decide_eq_true (by omega)
            · right; exact ⟨⟨decide_eq_true (by omega), h2⟩, by rw [hmid h2]; exact h3⟩
          · omega
        · rintro ⟨_, hnn, h⟩
          left
          refine ⟨hf.symm, by rw [← hnone]; exact hnn, ?_⟩
          rcases h with h | ⟨⟨h1, h2⟩, h3⟩
          · left; have := of_decide_eq_true h; omega
          · right; have := of_decide_eq_true h1; exact ⟨by omega, h2, by rw [← hmid h2]; exact h3⟩
      · have hif : ¬ (o.file == (specOf mov).file) = true := by simp [hf]
        rw [if_neg hif]
        unfold Spec.attacksFrom Spec.iabs
        simp only [Bool.and_eq_true, decide_eq_true_eq, beq_iff_eq]
        constructor
        · rintro (⟨hf', _, _⟩ | ⟨hf', hk, hx⟩)
          · exact absurd hf'.symm hf
          · obtain ⟨t1, t2⟩ := hcap.mpr hx
            exact ⟨t1, ⟨by omega, by omega⟩, t2⟩
        · rintro ⟨hfree, ⟨h1, h2⟩, h3⟩
          right
          exact ⟨by omega, by omega, hcap.mp ⟨hfree, h3⟩⟩

end Walleye
