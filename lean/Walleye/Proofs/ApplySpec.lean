/-
  `Spec.apply` unfolded for the three kinds of move (ordinary, en passant, castling), as an explicit
  record, and extensionality for specification positions.  (C02)
-/
import Walleye.Proofs.AbsOps
namespace Walleye

theorem pos_ext (A B : Spec.Position) (h1 : A.cells = B.cells) (h2 : A.side = B.side)
    (h3 : A.wks = B.wks) (h4 : A.wqs = B.wqs) (h5 : A.bks = B.bks) (h6 : A.bqs = B.bqs) (h7 : A.ep = B.ep) :
    A = B := by
  cases A; cases B; simp only at *; simp [*]

/-- the piece standing on the destination after the move -/
def landed (c : Color) (pc : Piece) (promo : Option Kind) : Piece :=
  match promo with
  | some k => ⟨c, k⟩
  | none => pc

def touchesSq (m : Spec.Move) (s : Spec.Sq) : Bool := m.src == s || m.dst == s

def epAfter (c : Color) (pc : Piece) (m : Spec.Move) : Option Spec.Sq :=
  if pc.kind == .pawn && Spec.iabs ((m.dst.rank : Int) - m.src.rank) == 2
  then some ⟨m.src.file, ((m.src.rank : Int) + Spec.fwd c).toNat⟩ else none

/-- an ordinary move: two squares change -/
theorem apply_normal (P : Spec.Position) (m : Spec.Move) (pc : Piece) (hsrc : P.at m.src = some pc)
    (hc : Spec.isCastle P m = false) (he : Spec.isEnPassant P m = false) :
    Spec.apply P m =
      { ((P.put m.src none).put m.dst (some (landed P.side pc m.promo))) with
        side := P.side.opp
        wks := P.wks && !(pc == ⟨.white, .king⟩) && !touchesSq m ⟨7, 0⟩
        wqs := P.wqs && !(pc == ⟨.white, .king⟩) && !touchesSq m ⟨0, 0⟩
        bks := P.bks && !(pc == ⟨.black, .king⟩) && !touchesSq m ⟨7, 7⟩
        bqs := P.bqs && !(pc == ⟨.black, .king⟩) && !touchesSq m ⟨0, 7⟩
        ep := epAfter P.side pc m } := by
  unfold Spec.apply
  rw [hsrc]
  simp only [hc, he, Bool.false_eq_true, if_false]
  rfl

/-- en passant: the captured pawn stands beside the origin, on the destination's file -/
theorem apply_ep (P : Spec.Position) (m : Spec.Move) (pc : Piece) (hsrc : P.at m.src = some pc)
    (hc : Spec.isCastle P m = false) (he : Spec.isEnPassant P m = true) :
    Spec.apply P m =
      { (((P.put m.src none).put m.dst (some (landed P.side pc m.promo))).put ⟨m.dst.file, m.src.rank⟩ none) with
        side := P.side.opp
        wks := P.wks && !(pc == ⟨.white, .king⟩) && !touchesSq m ⟨7, 0⟩
        wqs := P.wqs && !(pc == ⟨.white, .king⟩) && !touchesSq m ⟨0, 0⟩
        bks := P.bks && !(pc == ⟨.black, .king⟩) && !touchesSq m ⟨7, 7⟩
        bqs := P.bqs && !(pc == ⟨.black, .king⟩) && !touchesSq m ⟨0, 7⟩
        ep := epAfter P.side pc m } := by
  unfold Spec.apply
  rw [hsrc]
  simp only [hc, he, Bool.false_eq_true, if_false, if_true]
  rfl

/-- castling: the king moves two files, the rook jumps over it -/
theorem apply_castle (P : Spec.Position) (m : Spec.Move) (pc : Piece) (hsrc : P.at m.src = some pc)
    (hc : Spec.isCastle P m = true) (he : Spec.isEnPassant P m = false) :
    Spec.apply P m =
      { (if m.dst.file == 6 then
            ((((P.put m.src none).put m.dst (some (landed P.side pc m.promo))).put ⟨7, m.src.rank⟩ none).put
              ⟨5, m.src.rank⟩ (some ⟨P.side, .rook⟩))
          else
            ((((P.put m.src none).put m.dst (some (landed P.side pc m.promo))).put ⟨0, m.src.rank⟩ none).put
              ⟨3, m.src.rank⟩ (some ⟨P.side, .rook⟩))) with
        side := P.side.opp
        wks := P.wks && !(pc == ⟨.white, .king⟩) && !touchesSq m ⟨7, 0⟩
        wqs := P.wqs && !(pc == ⟨.white, .king⟩) && !touchesSq m ⟨0, 0⟩
        bks := P.bks && !(pc == ⟨.black, .king⟩) && !touchesSq m ⟨7, 7⟩
        bqs := P.bqs && !(pc == ⟨.black, .king⟩) && !touchesSq m ⟨0, 7⟩
        ep := epAfter P.side pc m } := by
  unfold Spec.apply
  rw [hsrc]
  simp only [hc, he, Bool.false_eq_true, if_false, if_true]
  rfl

end Walleye
