/-
  C09: the rounding theory of the binary64 model of Model/Time.lean, over ℚ.
  `val x = m * 2^e`; `round53` has relative error at most 2^-53, keeps the sign, and is exact on
  integers below 2^53.  (Mathlib is imported here only for ℚ as an ordered field and the tactics
  linarith / nlinarith / positivity / norm_num / push_cast; the model itself stays core-only.)
-/
import Walleye.Model.Time
import Mathlib.Tactic.Linarith
import Mathlib.Tactic.FieldSimp
import Mathlib.Tactic.Positivity
import Mathlib.Tactic.Ring
import Mathlib.Tactic.NormNum
import Mathlib.Tactic.LinearCombination
import Mathlib.Algebra.Order.Field.Rat
import Mathlib.Algebra.Order.Field.Power
namespace Walleye
namespace F64

/-- the rational a finite double stands for -/
def val (x : Dy) : ℚ := (x.m : ℚ) * (2 : ℚ) ^ x.e

theorem two_zpow_pos (k : ℤ) : (0 : ℚ) < (2 : ℚ) ^ k := by positivity

theorem pow_split (k : ℤ) : ((2 : ℚ) ^ ((-k).toNat) : ℚ) = (2 : ℚ) ^ (-k) * (2 : ℚ) ^ (k.toNat) := by
  rcases le_or_gt 0 k with hk | hk
  · have h1 : (-k).toNat = 0 := by omega
    have h2 : ((k.toNat : ℕ) : ℤ) = k := Int.toNat_of_nonneg hk
    rw [h1, pow_zero, ← zpow_natCast (2 : ℚ) k.toNat, h2, ← zpow_add₀ (by norm_num : (2 : ℚ) ≠ 0)]
    simp
  · have h1 : k.toNat = 0 := by omega
    have h2 : (((-k).toNat : ℕ) : ℤ) = -k := Int.toNat_of_nonneg (by omega)
    rw [h1, pow_zero, mul_one, ← zpow_natCast (2 : ℚ) (-k).toNat, h2]

/-- `scaleDiv a d k` is the floor and remainder of `(a / d) * 2^(-k)` -/
theorem scaleDiv_spec (a d : ℕ) (hd : 0 < d) (k : ℤ) :
    0 < (scaleDiv a d k).2.2 ∧ (scaleDiv a d k).2.1 < (scaleDiv a d k).2.2 ∧
    ((scaleDiv a d k).1 : ℚ) + ((scaleDiv a d k).2.1 : ℚ) / ((scaleDiv a d k).2.2 : ℚ) =
      (a : ℚ) / d * (2 : ℚ) ^ (-k) := by
  unfold scaleDiv
  simp only
  have hD : 0 < d * 2 ^ k.toNat := Nat.mul_pos hd (by positivity)
  refine ⟨hD, Nat.mod_lt _ hD, ?_⟩
  have hdm := Nat.div_add_mod (a * 2 ^ (-k).toNat) (d * 2 ^ k.toNat)
  have hDq : ((d * 2 ^ k.toNat : ℕ) : ℚ) ≠ 0 := by exact_mod_cast hD.ne'
  have e : ((a * 2 ^ (-k).toNat : ℕ) : ℚ) =
      ((d * 2 ^ k.toNat : ℕ) : ℚ) * ((a * 2 ^ (-k).toNat / (d * 2 ^ k.toNat) : ℕ) : ℚ) +
        ((a * 2 ^ (-k).toNat % (d * 2 ^ k.toNat) : ℕ) : ℚ) := by exact_mod_cast hdm.symm
  have hdq : (d : ℚ) ≠ 0 := by exact_mod_cast hd.ne'
  have hp : ((2 : ℚ) ^ k.toNat) ≠ 0 := by positivity
  rw [eq_comm, ← sub_eq_zero]
  field_simp
  push_cast at e ⊢
  rw [pow_split k] at e
  linear_combination (d : ℚ) * e

theorem zpow_neg_mul_self (k : ℤ) : (2 : ℚ) ^ (-k) * (2 : ℚ) ^ k = 1 := by
  rw [← zpow_add₀ (by norm_num : (2 : ℚ) ≠ 0)]; simp

theorem log2_bounds (n : ℕ) (hn : 0 < n) : (2 : ℚ) ^ (n.log2 : ℤ) ≤ n ∧ (n : ℚ) < (2 : ℚ) ^ ((n.log2 : ℤ) + 1) := by
  constructor
  · rw [zpow_natCast]; exact_mod_cast Nat.log2_self_le hn.ne'
  · have : (n.log2 : ℤ) + 1 = ((n.log2 + 1 : ℕ) : ℤ) := by push_cast; rfl
    rw [this, zpow_natCast]; exact_mod_cast Nat.lt_log2_self

/-- floor part of `rnePos`: the quotient at the chosen exponent is at least 2^52 -/
theorem rnePos_norm (a d : ℕ) (ha : 0 < a) (hd : 0 < d) :
    (2 : ℚ) ^ 52 ≤ ((scaleDiv a d (rnePos a d).2).1 : ℚ) := by
  have hk : (rnePos a d).2 =
      if (scaleDiv a d ((a.log2 : ℤ) - (d.log2 : ℤ) - 52)).1 ≥ 2 ^ 52 then (a.log2 : ℤ) - (d.log2 : ℤ) - 52
      else (a.log2 : ℤ) - (d.log2 : ℤ) - 52 - 1 := by
    unfold rnePos; rfl
  rw [hk]
  split
  · rename_i h; exact_mod_cast h
  · obtain ⟨hD, hr, hs⟩ := scaleDiv_spec a d hd ((a.log2 : ℤ) - (d.log2 : ℤ) - 52 - 1)
    generalize scaleDiv a d ((a.log2 : ℤ) - (d.log2 : ℤ) - 52 - 1) = t at hD hr hs ⊢
    obtain ⟨q, r, D⟩ := t
    simp only at hD hr hs ⊢
    obtain ⟨la1, la2⟩ := log2_bounds a ha
    obtain ⟨ld1, ld2⟩ := log2_bounds d hd
    have hdq : (0 : ℚ) < d := by exact_mod_cast hd
    have hDq : (0 : ℚ) < D := by exact_mod_cast hD
    have hf : (r : ℚ) / D < 1 := by rw [div_lt_one hDq]; exact_mod_cast hr
    -- a / d > 2^(la - ld - 1)
    have hx : (2 : ℚ) ^ ((a.log2 : ℤ) - ((d.log2 : ℤ) + 1)) < (a : ℚ) / d := by
      rw [zpow_sub₀ (by norm_num : (2 : ℚ) ≠ 0), div_lt_div_iff₀ (by positivity) hdq]
      calc (2 : ℚ) ^ (a.log2 : ℤ) * d < (2 : ℚ) ^ (a.log2 : ℤ) * (2 : ℚ) ^ ((d.log2 : ℤ) + 1) := by
            apply mul_lt_mul_of_pos_left ld2; positivity
        _ ≤ a * (2 : ℚ) ^ ((d.log2 : ℤ) + 1) := by
            apply mul_le_mul_of_nonneg_right la1; positivity
    have hpos : (0 : ℚ) < (2 : ℚ) ^ (-((a.log2 : ℤ) - (d.log2 : ℤ) - 52 - 1)) := by positivity
    have h1 : (2 : ℚ) ^ ((a.log2 : ℤ) - ((d.log2 : ℤ) + 1)) * (2 : ℚ) ^ (-((a.log2 : ℤ) - (d.log2 : ℤ) - 52 - 1)) = (2 : ℚ) ^ 52 := by
      rw [← zpow_add₀ (by norm_num : (2 : ℚ) ≠ 0)]
      have : (a.log2 : ℤ) - ((d.log2 : ℤ) + 1) + -((a.log2 : ℤ) - (d.log2 : ℤ) - 52 - 1) = (52 : ℕ) := by push_cast; ring
      rw [this, zpow_natCast]
    have h2 : (2 : ℚ) ^ 52 < (q : ℚ) + (r : ℚ) / D := by
      rw [hs, ← h1]; exact mul_lt_mul_of_pos_right hx hpos
    have h3 : ((2 ^ 52 : ℕ) : ℚ) < (q : ℚ) + 1 := by push_cast; linarith
    have h4 : 2 ^ 52 < q + 1 := by exact_mod_cast h3
    have h5 : 2 ^ 52 ≤ q := by omega
    exact_mod_cast h5

/-- `rnePos a d = (q, k)`: `q * 2^k` is within half a unit of `a / d`, and the unit is at most
    `2^-52 * (a / d)` -/
theorem rnePos_spec (a d : ℕ) (ha : 0 < a) (hd : 0 < d) :
    |((rnePos a d).1 : ℚ) * (2 : ℚ) ^ (rnePos a d).2 - (a : ℚ) / d| ≤ (2 : ℚ) ^ (rnePos a d).2 / 2 ∧
    (2 : ℚ) ^ 52 * (2 : ℚ) ^ (rnePos a d).2 ≤ (a : ℚ) / d := by
  have hnorm := rnePos_norm a d ha hd
  have hq : (rnePos a d).1 =
      if 2 * (scaleDiv a d (rnePos a d).2).2.1 > (scaleDiv a d (rnePos a d).2).2.2 ∨
          (2 * (scaleDiv a d (rnePos a d).2).2.1 = (scaleDiv a d (rnePos a d).2).2.2 ∧
            (scaleDiv a d (rnePos a d).2).1 % 2 = 1)
      then (scaleDiv a d (rnePos a d).2).1 + 1 else (scaleDiv a d (rnePos a d).2).1 := by
    unfold rnePos; rfl
  rw [hq]
  generalize (rnePos a d).2 = k at hnorm ⊢
  obtain ⟨hD, hr, hs⟩ := scaleDiv_spec a d hd k
  generalize scaleDiv a d k = t at hD hr hs hnorm ⊢
  obtain ⟨q, r, D⟩ := t
  simp only at hD hr hs hnorm ⊢
  have hDq : (0 : ℚ) < D := by exact_mod_cast hD
  have hf0 : (0 : ℚ) ≤ (r : ℚ) / D := by positivity
  have hpk : (0 : ℚ) < (2 : ℚ) ^ k := by positivity
  have hx : (a : ℚ) / d = ((q : ℚ) + (r : ℚ) / D) * (2 : ℚ) ^ k := by
    rw [hs, mul_assoc, zpow_neg_mul_self, mul_one]
  constructor
  · rw [hx]
    split
    · rename_i hc
      have h2r : (1 : ℚ) / 2 ≤ (r : ℚ) / D := by
        rw [div_le_div_iff₀ (by norm_num) hDq]
        rcases hc with hc | ⟨hc, _⟩
        · have : (D : ℚ) < 2 * r := by exact_mod_cast hc
          linarith
        · have : (2 : ℚ) * r = D := by exact_mod_cast hc
          linarith
      have hf1 : (r : ℚ) / D < 1 := by rw [div_lt_one hDq]; exact_mod_cast hr
      have e : ((q + 1 : ℕ) : ℚ) * (2 : ℚ) ^ k - ((q : ℚ) + (r : ℚ) / D) * (2 : ℚ) ^ k =
          (1 - (r : ℚ) / D) * (2 : ℚ) ^ k := by push_cast; ring
      rw [e, abs_of_nonneg (by apply mul_nonneg _ hpk.le; linarith)]
      nlinarith
    · rename_i hc
      have h2r : (r : ℚ) / D ≤ 1 / 2 := by
        rw [div_le_div_iff₀ hDq (by norm_num)]
        have : ¬ (2 * r > D) := fun hh => hc (Or.inl hh)
        have : (2 : ℚ) * r ≤ D := by exact_mod_cast (Nat.le_of_not_gt this)
        linarith
      have e : (q : ℚ) * (2 : ℚ) ^ k - ((q : ℚ) + (r : ℚ) / D) * (2 : ℚ) ^ k = -((r : ℚ) / D * (2 : ℚ) ^ k) := by ring
      rw [e, abs_neg, abs_of_nonneg (by positivity)]
      nlinarith
  · rw [hx]
    apply mul_le_mul_of_nonneg_right _ hpk.le
    linarith

theorem round53_zero (den : ℕ) (e : ℤ) : val (round53 0 den e) = 0 := by
  unfold round53 val; simp

theorem round53_val (num : ℤ) (hn : num ≠ 0) (den : ℕ) (e : ℤ) :
    val (round53 num den e) =
      (if num < 0 then -1 else 1) * (((rnePos num.natAbs den).1 : ℚ) * (2 : ℚ) ^ (rnePos num.natAbs den).2) * (2 : ℚ) ^ e := by
  unfold round53 val
  rw [if_neg hn]
  simp only
  rw [zpow_add₀ (by norm_num : (2 : ℚ) ≠ 0)]
  split <;> (push_cast; ring)

/-- relative error of the rounding: at most 2^-53 -/
theorem round53_spec (num : ℤ) (den : ℕ) (hden : 0 < den) (e : ℤ) :
    |val (round53 num den e) - (num : ℚ) / den * (2 : ℚ) ^ e| ≤ |(num : ℚ) / den * (2 : ℚ) ^ e| / 2 ^ 53 := by
  by_cases hn : num = 0
  · subst hn; rw [round53_zero]; simp
  · have ha : 0 < num.natAbs := Int.natAbs_pos.mpr hn
    obtain ⟨h1, h2⟩ := rnePos_spec num.natAbs den ha hden
    rw [round53_val num hn den e]
    generalize ((rnePos num.natAbs den).1 : ℚ) = q at h1 h2 ⊢
    generalize (rnePos num.natAbs den).2 = k at h1 h2 ⊢
    have hpk : (0 : ℚ) < (2 : ℚ) ^ k := by positivity
    have hpe : (0 : ℚ) < (2 : ℚ) ^ e := by positivity
    have hdq : (0 : ℚ) < den := by exact_mod_cast hden
    have habs : ((num.natAbs : ℕ) : ℚ) = |(num : ℚ)| := by
      rw [← Int.cast_abs, Int.abs_eq_natAbs]; push_cast; simp
    rw [habs] at h1 h2
    -- x = |num| / den
    have hrel : |q * (2 : ℚ) ^ k - |(num : ℚ)| / den| ≤ |(num : ℚ)| / den / 2 ^ 53 := by
      refine le_trans h1 ?_
      have : (2 : ℚ) ^ k / 2 = (2 : ℚ) ^ 52 * (2 : ℚ) ^ k / 2 ^ 53 := by
        rw [show ((2 : ℚ) ^ 53) = 2 ^ 52 * 2 by norm_num]; field_simp
      rw [this]
      exact div_le_div_of_nonneg_right h2 (by positivity)
    rcases lt_or_gt_of_ne hn with hneg | hpos
    · have hnq : (num : ℚ) < 0 := by exact_mod_cast hneg
      rw [if_pos hneg, abs_of_neg hnq] at *
      have e1 : -1 * (q * (2 : ℚ) ^ k) * (2 : ℚ) ^ e - (num : ℚ) / den * (2 : ℚ) ^ e =
          -((q * (2 : ℚ) ^ k - -(num : ℚ) / den) * (2 : ℚ) ^ e) := by ring
      have e2 : |(num : ℚ) / den * (2 : ℚ) ^ e| = -(num : ℚ) / den * (2 : ℚ) ^ e := by
        rw [abs_of_neg]
        · ring
        · apply mul_neg_of_neg_of_pos _ hpe; exact div_neg_of_neg_of_pos hnq hdq
      rw [e1, abs_neg, abs_mul, abs_of_pos hpe, e2]
      calc |q * (2 : ℚ) ^ k - -(num : ℚ) / den| * (2 : ℚ) ^ e ≤ (-(num : ℚ) / den / 2 ^ 53) * (2 : ℚ) ^ e :=
            mul_le_mul_of_nonneg_right hrel hpe.le
        _ = -(num : ℚ) / den * (2 : ℚ) ^ e / 2 ^ 53 := by ring
    · have hnq : (0 : ℚ) < num := by exact_mod_cast hpos
      have hnn : ¬ num < 0 := by omega
      rw [if_neg hnn, abs_of_pos hnq] at *
      have e1 : 1 * (q * (2 : ℚ) ^ k) * (2 : ℚ) ^ e - (num : ℚ) / den * (2 : ℚ) ^ e =
          (q * (2 : ℚ) ^ k - (num : ℚ) / den) * (2 : ℚ) ^ e := by ring
      have e2 : |(num : ℚ) / den * (2 : ℚ) ^ e| = (num : ℚ) / den * (2 : ℚ) ^ e := by
        rw [abs_of_pos]; positivity
      rw [e1, abs_mul, abs_of_pos hpe, e2]
      calc |q * (2 : ℚ) ^ k - (num : ℚ) / den| * (2 : ℚ) ^ e ≤ ((num : ℚ) / den / 2 ^ 53) * (2 : ℚ) ^ e :=
            mul_le_mul_of_nonneg_right hrel hpe.le
        _ = (num : ℚ) / den * (2 : ℚ) ^ e / 2 ^ 53 := by ring

/-- consequences used below: the rounded value lies between (1 ∓ 2^-53) times the exact one -/
theorem round53_pos (num : ℤ) (hn : 0 < num) (den : ℕ) (hden : 0 < den) (e : ℤ) :
    (num : ℚ) / den * (2 : ℚ) ^ e * (1 - 1 / 2 ^ 53) ≤ val (round53 num den e) ∧
    val (round53 num den e) ≤ (num : ℚ) / den * (2 : ℚ) ^ e * (1 + 1 / 2 ^ 53) ∧
    0 < val (round53 num den e) := by
  have h := round53_spec num den hden e
  have hX : (0 : ℚ) < (num : ℚ) / den * (2 : ℚ) ^ e := by
    have : (0 : ℚ) < num := by exact_mod_cast hn
    have : (0 : ℚ) < den := by exact_mod_cast hden
    positivity
  rw [abs_of_pos hX, abs_le] at h
  refine ⟨by linarith [h.1], by linarith [h.2], ?_⟩
  have : (num : ℚ) / den * (2 : ℚ) ^ e * (1 - 1 / 2 ^ 53) > 0 := by
    apply mul_pos hX; norm_num
  linarith [h.1]

theorem round53_nonpos (num : ℤ) (hn : num ≤ 0) (den : ℕ) (hden : 0 < den) (e : ℤ) :
    val (round53 num den e) ≤ 0 := by
  have h := round53_spec num den hden e
  have hX : (num : ℚ) / den * (2 : ℚ) ^ e ≤ 0 := by
    have h1 : (num : ℚ) ≤ 0 := by exact_mod_cast hn
    have h2 : (0 : ℚ) < den := by exact_mod_cast hden
    have h3 : (0 : ℚ) < (2 : ℚ) ^ e := by positivity
    exact mul_nonpos_of_nonpos_of_nonneg (div_nonpos_of_nonpos_of_nonneg h1 h2.le) h3.le
  rw [abs_of_nonpos hX, abs_le] at h
  have : -((num : ℚ) / den * (2 : ℚ) ^ e) / 2 ^ 53 ≤ -((num : ℚ) / den * (2 : ℚ) ^ e) := by
    apply div_le_self (by linarith); norm_num
  linarith [h.2]

theorem zpow_lt_two (k : ℤ) (h : (2 : ℚ) ^ k < 2) : k ≤ 0 := by
  by_contra hk
  have hk1 : 1 ≤ k := by omega
  have : (2 : ℚ) ^ (1 : ℤ) ≤ (2 : ℚ) ^ k := zpow_le_zpow_right₀ (by norm_num) hk1
  simp at this
  linarith

/-- integers below 2^53 in absolute value are represented exactly -/
theorem ofInt_exact (n : ℤ) (hn : |n| < 2 ^ 53) : val (ofInt n) = n := by
  unfold ofInt
  by_cases h0 : n = 0
  · subst h0; rw [round53_zero]; simp
  · have ha : 0 < n.natAbs := Int.natAbs_pos.mpr h0
    obtain ⟨_, h2⟩ := rnePos_spec n.natAbs 1 ha Nat.one_pos
    have hlt : ((n.natAbs : ℕ) : ℚ) < 2 ^ 53 := by
      have : (n.natAbs : ℤ) < 2 ^ 53 := by rw [← Int.abs_eq_natAbs]; exact hn
      exact_mod_cast this
    have hk : (rnePos n.natAbs 1).2 ≤ 0 := by
      apply zpow_lt_two
      have hp : (0 : ℚ) < (2 : ℚ) ^ (rnePos n.natAbs 1).2 := by positivity
      have : (2 : ℚ) ^ 52 * (2 : ℚ) ^ (rnePos n.natAbs 1).2 < 2 ^ 53 := by
        calc _ ≤ ((n.natAbs : ℕ) : ℚ) / ((1 : ℕ) : ℚ) := h2
          _ = ((n.natAbs : ℕ) : ℚ) := by simp
          _ < 2 ^ 53 := hlt
      have e : ((2 : ℚ) ^ 53) = 2 ^ 52 * 2 := by norm_num
      rw [e] at this
      exact lt_of_mul_lt_mul_left this (by positivity)
    have hq : (rnePos n.natAbs 1).1 = n.natAbs * 2 ^ (-(rnePos n.natAbs 1).2).toNat := by
      have hq0 : (rnePos n.natAbs 1).1 =
          if 2 * (scaleDiv n.natAbs 1 (rnePos n.natAbs 1).2).2.1 > (scaleDiv n.natAbs 1 (rnePos n.natAbs 1).2).2.2 ∨
              (2 * (scaleDiv n.natAbs 1 (rnePos n.natAbs 1).2).2.1 = (scaleDiv n.natAbs 1 (rnePos n.natAbs 1).2).2.2 ∧
                (scaleDiv n.natAbs 1 (rnePos n.natAbs 1).2).1 % 2 = 1)
          then (scaleDiv n.natAbs 1 (rnePos n.natAbs 1).2).1 + 1 else (scaleDiv n.natAbs 1 (rnePos n.natAbs 1).2).1 := by
        unfold rnePos; rfl
      rw [hq0]
      generalize (rnePos n.natAbs 1).2 = k at hk ⊢
      have hkt : k.toNat = 0 := by omega
      unfold scaleDiv
      simp [hkt, Nat.mod_one]
    rw [round53_val n h0 1 0, hq]
    generalize (rnePos n.natAbs 1).2 = k at hk ⊢
    have h2k : (((-k).toNat : ℕ) : ℤ) = -k := Int.toNat_of_nonneg (by omega)
    have e1 : ((n.natAbs * 2 ^ (-k).toNat : ℕ) : ℚ) * (2 : ℚ) ^ k = (n.natAbs : ℚ) := by
      push_cast
      rw [← zpow_natCast (2 : ℚ) (-k).toNat, h2k, mul_assoc, zpow_neg_mul_self, mul_one]
    rw [e1]
    have habs : ((n.natAbs : ℕ) : ℚ) = |(n : ℚ)| := by
      rw [← Int.cast_abs, Int.abs_eq_natAbs]; push_cast; simp
    rw [habs]
    rcases lt_or_gt_of_ne h0 with hneg | hpos
    · have : (n : ℚ) < 0 := by exact_mod_cast hneg
      rw [if_pos hneg, abs_of_neg this]; simp
    · have : (0 : ℚ) < n := by exact_mod_cast hpos
      rw [if_neg (by omega), abs_of_pos this]; simp

/-! ### the operations -/

theorem ofInt_pos (n : ℤ) (hn : 0 < n) :
    (n : ℚ) * (1 - 1 / 2 ^ 53) ≤ val (ofInt n) ∧ val (ofInt n) ≤ (n : ℚ) * (1 + 1 / 2 ^ 53) ∧ 0 < val (ofInt n) := by
  have := round53_pos n hn 1 Nat.one_pos 0
  simpa [ofInt] using this

theorem ofInt_nonpos (n : ℤ) (hn : n ≤ 0) : val (ofInt n) ≤ 0 :=
  round53_nonpos n hn 1 Nat.one_pos 0

theorem align_spec (a b : Dy) :
    val a = ((align a b).1 : ℚ) * (2 : ℚ) ^ (align a b).2.2 ∧
    val b = ((align a b).2.1 : ℚ) * (2 : ℚ) ^ (align a b).2.2 := by
  unfold align val
  simp only
  have key : ∀ (m x e : ℤ), e ≤ x → (m : ℚ) * (2 : ℚ) ^ x = ((m * 2 ^ (x - e).toNat : ℤ) : ℚ) * (2 : ℚ) ^ e := by
    intro m x e hle
    have h2 : (((x - e).toNat : ℕ) : ℤ) = x - e := Int.toNat_of_nonneg (by omega)
    push_cast
    rw [← zpow_natCast (2 : ℚ) (x - e).toNat, h2, mul_assoc, ← zpow_add₀ (by norm_num : (2 : ℚ) ≠ 0)]
    congr 2; ring
  exact ⟨key a.m a.e _ (min_le_left _ _), key b.m b.e _ (min_le_right _ _)⟩

theorem le_spec (a b : Dy) : le a b = true ↔ val a ≤ val b := by
  obtain ⟨h1, h2⟩ := align_spec a b
  unfold le
  rw [h1, h2]
  generalize align a b = t
  obtain ⟨ma, mb, e⟩ := t
  simp only [decide_eq_true_eq]
  have hp : (0 : ℚ) < (2 : ℚ) ^ e := by positivity
  rw [mul_le_mul_iff_left₀ hp]
  exact Int.cast_le.symm

theorem lt_spec (a b : Dy) : lt a b = true ↔ val a < val b := by
  obtain ⟨h1, h2⟩ := align_spec a b
  unfold lt
  rw [h1, h2]
  generalize align a b = t
  obtain ⟨ma, mb, e⟩ := t
  simp only [decide_eq_true_eq]
  have hp : (0 : ℚ) < (2 : ℚ) ^ e := by positivity
  rw [mul_lt_mul_iff_left₀ hp]
  exact Int.cast_lt.symm

theorem val_zero : val zero = 0 := by unfold val zero; simp

theorem sub_exact (a b : Dy) :
    (((align a b).1 - (align a b).2.1 : ℤ) : ℚ) / ((1 : ℕ) : ℚ) * (2 : ℚ) ^ (align a b).2.2 = val a - val b := by
  obtain ⟨h1, h2⟩ := align_spec a b
  rw [h1, h2]; push_cast; ring

theorem sub_pos (a b : Dy) (h : val b < val a) :
    (val a - val b) * (1 - 1 / 2 ^ 53) ≤ val (sub a b) ∧ val (sub a b) ≤ (val a - val b) * (1 + 1 / 2 ^ 53) ∧
    0 < val (sub a b) := by
  have hx := sub_exact a b
  have hnum : 0 < (align a b).1 - (align a b).2.1 := by
    obtain ⟨h1, h2⟩ := align_spec a b
    rw [h1, h2] at h
    have hp : (0 : ℚ) < (2 : ℚ) ^ (align a b).2.2 := by positivity
    have := lt_of_mul_lt_mul_right h hp.le
    have : (align a b).2.1 < (align a b).1 := by exact_mod_cast this
    omega
  have := round53_pos _ hnum 1 Nat.one_pos (align a b).2.2
  rw [hx] at this
  exact this

theorem sub_nonpos (a b : Dy) (h : val a ≤ val b) : val (sub a b) ≤ 0 := by
  have hnum : (align a b).1 - (align a b).2.1 ≤ 0 := by
    obtain ⟨h1, h2⟩ := align_spec a b
    rw [h1, h2] at h
    have hp : (0 : ℚ) < (2 : ℚ) ^ (align a b).2.2 := by positivity
    have := le_of_mul_le_mul_right h hp
    have : (align a b).1 ≤ (align a b).2.1 := by exact_mod_cast this
    omega
  exact round53_nonpos _ hnum 1 Nat.one_pos (align a b).2.2

theorem mul_pos' (a b : Dy) (ha : 0 < a.m) (hb : 0 < b.m) :
    val a * val b * (1 - 1 / 2 ^ 53) ≤ val (mul a b) ∧ val (mul a b) ≤ val a * val b * (1 + 1 / 2 ^ 53) ∧
    0 < val (mul a b) := by
  have := round53_pos (a.m * b.m) (Int.mul_pos ha hb) 1 Nat.one_pos (a.e + b.e)
  have e : ((a.m * b.m : ℤ) : ℚ) / ((1 : ℕ) : ℚ) * (2 : ℚ) ^ (a.e + b.e) = val a * val b := by
    unfold val; rw [zpow_add₀ (by norm_num : (2 : ℚ) ≠ 0)]; push_cast; ring
  rw [e] at this
  exact this

theorem val_pos_iff (a : Dy) : 0 < val a ↔ 0 < a.m := by
  unfold val
  have hp : (0 : ℚ) < (2 : ℚ) ^ a.e := by positivity
  constructor
  · intro h
    by_contra hc
    have h1 : (a.m : ℚ) ≤ 0 := by exact_mod_cast (not_lt.mp hc)
    have := mul_nonpos_of_nonpos_of_nonneg h1 hp.le
    linarith
  · intro h
    have : (0 : ℚ) < a.m := by exact_mod_cast h
    positivity

theorem div_pos' (a b : Dy) (ha : 0 < a.m) (hb : 0 < b.m) :
    val a / val b * (1 - 1 / 2 ^ 53) ≤ val (div a b) ∧ val (div a b) ≤ val a / val b * (1 + 1 / 2 ^ 53) ∧
    0 < val (div a b) := by
  unfold div
  rw [if_neg (by omega)]
  have hbn : 0 < b.m.natAbs := Int.natAbs_pos.mpr (by omega)
  have := round53_pos a.m ha b.m.natAbs hbn (a.e - b.e)
  have hb0 : (0 : ℚ) < b.m := by exact_mod_cast hb
  have hbq : ((b.m.natAbs : ℕ) : ℚ) = (b.m : ℚ) := by
    have : ((b.m.natAbs : ℕ) : ℚ) = |(b.m : ℚ)| := by
      rw [← Int.cast_abs, Int.abs_eq_natAbs]; push_cast; simp
    rw [this, abs_of_pos hb0]
  have e : (a.m : ℚ) / ((b.m.natAbs : ℕ) : ℚ) * (2 : ℚ) ^ (a.e - b.e) = val a / val b := by
    unfold val
    rw [hbq, zpow_sub₀ (by norm_num : (2 : ℚ) ≠ 0)]
    have : (2 : ℚ) ^ b.e ≠ 0 := by positivity
    field_simp
  rw [e] at this
  exact this

theorem fmin_le_right (a b : Dy) : val (fmin a b) ≤ val b := by
  unfold fmin
  split
  · rename_i h; exact (le_spec a b).mp h
  · exact le_refl _

theorem fmax_zero (c : Dy) : val (fmax c zero) = max (val c) 0 := by
  unfold fmax
  split
  · rename_i h
    have := (le_spec c zero).mp h
    rw [val_zero] at this ⊢
    rw [max_eq_right this]
  · rename_i h
    have : ¬ val c ≤ val zero := fun hh => h ((le_spec c zero).mpr hh)
    rw [val_zero] at this
    rw [max_eq_left (by linarith)]

/-- `f64::round` is at most half above the value -/
theorem rha_le (a : Dy) : ((roundHalfAway a : ℤ) : ℚ) ≤ val a + 1 / 2 := by
  unfold roundHalfAway
  split
  · rename_i he
    have h2 : ((a.e.toNat : ℕ) : ℤ) = a.e := Int.toNat_of_nonneg he
    unfold val
    push_cast
    rw [← zpow_natCast (2 : ℚ) a.e.toNat, h2]
    linarith
  · rename_i he
    simp only
    have hs : (((-a.e).toNat : ℕ) : ℤ) = -a.e := Int.toNat_of_nonneg (by omega)
    generalize hS : (-a.e).toNat = s at hs
    have hpow : (0 : ℚ) < (2 : ℚ) ^ s := by positivity
    have hval : val a = (a.m : ℚ) / (2 : ℚ) ^ s := by
      unfold val
      have : a.e = -(s : ℤ) := by omega
      rw [this, zpow_neg, zpow_natCast]; ring
    have hdm := Nat.div_add_mod a.m.natAbs (2 ^ s)
    have hmod := Nat.mod_lt a.m.natAbs (show 0 < 2 ^ s by positivity)
    generalize a.m.natAbs / 2 ^ s = q at hdm
    generalize hr : a.m.natAbs % 2 ^ s = r at hdm hmod
    have hn : ((a.m.natAbs : ℕ) : ℚ) = (2 : ℚ) ^ s * q + r := by exact_mod_cast hdm.symm
    have hrq : (r : ℚ) < (2 : ℚ) ^ s := by exact_mod_cast hmod
    have hr0 : (0 : ℚ) ≤ r := by positivity
    rw [hval]
    by_cases hneg : a.m < 0
    · have hm : (a.m : ℚ) = -((a.m.natAbs : ℕ) : ℚ) := by
        have : (a.m : ℤ) = -((a.m.natAbs : ℕ) : ℤ) := by omega
        exact_mod_cast this
      rw [if_pos hneg, hm, hn]
      rw [← sub_nonneg]
      have key : ∀ q' : ℕ, ((q' : ℚ) = q ∨ (q' : ℚ) = q + 1) → ((q' : ℚ) = q → 2 * (r : ℚ) < 2 ^ s) →
          0 ≤ -((2 : ℚ) ^ s * q + r) / (2 : ℚ) ^ s + 1 / 2 - ((-(q' : ℤ) : ℤ) : ℚ) := by
        intro q' hq' himp
        have : -((2 : ℚ) ^ s * q + r) / (2 : ℚ) ^ s = -(q : ℚ) - r / (2 : ℚ) ^ s := by field_simp; ring
        rw [this]; push_cast
        have hfr : (r : ℚ) / (2 : ℚ) ^ s < 1 := by rw [div_lt_one hpow]; exact hrq
        rcases hq' with e | e
        · have := himp e
          have : (r : ℚ) / (2 : ℚ) ^ s < 1 / 2 := by rw [div_lt_div_iff₀ hpow (by norm_num)]; linarith
          rw [e]; linarith
        · rw [e]; linarith
      split
      · rename_i hc; exact key (q + 1) (Or.inr (by push_cast; ring)) (fun e => by push_cast at e; linarith)
      · rename_i hc
        refine key q (Or.inl rfl) (fun _ => ?_)
        have : 2 * r < 2 ^ s := by omega
        exact_mod_cast this
    · have hm : (a.m : ℚ) = ((a.m.natAbs : ℕ) : ℚ) := by
        have h1 : ((a.m.natAbs : ℕ) : ℚ) = |(a.m : ℚ)| := by
          rw [← Int.cast_abs, Int.abs_eq_natAbs]; push_cast; simp
        have h2 : (0 : ℚ) ≤ a.m := by exact_mod_cast (not_lt.mp hneg)
        rw [h1, abs_of_nonneg h2]
      rw [if_neg hneg, hm, hn]
      have : ((2 : ℚ) ^ s * q + r) / (2 : ℚ) ^ s = (q : ℚ) + r / (2 : ℚ) ^ s := by field_simp
      rw [this]
      have hfr0 : (0 : ℚ) ≤ (r : ℚ) / (2 : ℚ) ^ s := by positivity
      split
      · rename_i hc
        have : (2 : ℚ) ^ s ≤ 2 * r := by exact_mod_cast hc
        have : (1 : ℚ) / 2 ≤ (r : ℚ) / (2 : ℚ) ^ s := by rw [div_le_div_iff₀ (by norm_num) hpow]; linarith
        push_cast; linarith
      · push_cast; linarith

theorem toU128_le (n : ℤ) (hn : 0 ≤ n) : (toU128 n : ℤ) ≤ n := by
  unfold toU128
  split
  · simpa using hn
  · split
    · rename_i h1 h2; push_cast; omega
    · omega

end F64
end Walleye
