/-
  C10 at EVERY iteration depth and for EVERY clock: the root loop of `get_best_move` searches each
  root move with the window (-inf, -alpha) and alpha only ever grows; a root move into a position
  that has already occurred twice is valued 0 by its child call before anything else is looked at.
  Hence an iteration that runs to its end before the clock expires ends with alpha ≥ 0 whenever such
  a move exists — null-move pruning, re-searches and the inexactness of deep iterations do not
  matter, because nothing ever lowers alpha.
-/
import Walleye.Proofs.RootRange
namespace Walleye
open DrawTable

variable {P O : Type}

theorem report_adv (r : Report P) : Adv (report r : M (SS P O) Unit) :=
  ⟨fun s a s' he => by unfold report M.modify at he; cases he; exact Le.refl _⟩
theorem sendInfo_adv (d : Nat) (e : Int) : Adv (sendInfo d e : M (SS P O) Unit) :=
  ⟨fun s a s' he => by unfold sendInfo at he; cases he; exact Le.refl _⟩

variable (g : Game P) (ord : Oracle P O)

theorem rootLoop_adv (fuel curDepth : Nat) (first : P) :
    ∀ (l : List P) (alpha : Int) (best : Option P), Adv (rootLoop g ord fuel curDepth first l alpha best) := by
  intro l
  have hab := alphaBeta_adv g ord fuel
  have hr := report_adv (P := P) (O := O)
  have hs := sendInfo_adv (P := P) (O := O)
  induction l with
  | nil => intro alpha best; unfold rootLoop; adv_auto
  | cons m ms ih => intro alpha best; unfold rootLoop; adv_auto

/-- a child whose key has already been counted twice is valued 0 at once (table, reports untouched) -/
theorem repeated_child_is_draw' (fuel : Nat) (c : P) (d ply : Nat) (a b : Int) (n : Bool) (s s1 : SS P O)
    (ht : tick s = .ok false s1) (hrep : count s.table (g.key c) ≥ 2) :
    ∃ s2, alphaBeta g ord (fuel + 1) c d ply a b n s = .ok 0 s2 ∧ s2.table = s.table ∧ s2.reports = s.reports := by
  unfold alphaBeta
  rw [bind_of_ok ht]
  have ht' : s1.table = s.table ∧ s1.reports = s.reports := by rw [(tick_eq ht).1]; exact ⟨rfl, rfl⟩
  refine ⟨{ s1 with nodes := s1.nodes + 1 }, ?_, ht'.1, ht'.2⟩
  simp only [Bool.false_eq_true, if_false]
  have hn : (nodeSearched : M (SS P O) Unit) s1 = .ok () { s1 with nodes := s1.nodes + 1 } := rfl
  rw [bind_of_ok hn]
  have hg : (M.get : M (SS P O) (SS P O)) { s1 with nodes := s1.nodes + 1 } =
      .ok { s1 with nodes := s1.nodes + 1 } { s1 with nodes := s1.nodes + 1 } := rfl
  rw [bind_of_ok hg]
  have : DrawTable.isThreefold s1.table (g.key c) = true := by
    unfold isThreefold; rw [ht'.1]; simpa using hrep
  simp only [this, if_true]
  rfl

/-- a consultation that answers "out of time" leaves an expired state -/
theorem tick_true_expired {s s1 : SS P O} (h : tick s = .ok true s1) : s1.expired = true := by
  obtain ⟨e1, e2⟩ := tick_eq h
  subst e1
  unfold SS.expired
  cases hx : s.expiry with
  | none => rw [hx] at e2; cases e2
  | some k =>
    rw [hx] at e2
    have : k ≤ s.queries := of_decide_eq_true e2.symm
    simp only [decide_eq_true_eq]
    show k < s.queries + 1
    omega

theorem not_expired_back {s s' : SS P O} (h : Le s s') (he : s'.expired = false) : s.expired = false := by
  cases hx : s.expired with
  | false => rfl
  | true => rw [expired_mono h hx] at he; cases he

/-- the root loop, any iteration depth, any clock: if the loop runs to its end (`some (A, B)`) and the
    clock has not expired by then, the final alpha is at least the alpha it started with, and at
    least 0 if some move of the list leads to a position that has already occurred twice -/
theorem rootLoop_nonneg (fuel curDepth : Nat) (first : P) (t : DrawTable) :
    ∀ (l : List P) (alpha : Int) (best : Option P) (s s' : SS P O) (A : Int) (B : Option P),
      TableEq s.table t →
      rootLoop g ord (fuel + 1) curDepth first l alpha best s = .ok (some (A, B)) s' →
      s'.expired = false →
      alpha ≤ A ∧ ((∃ m ∈ l, t.isThreefold (g.key m) = true) → 0 ≤ A) := by
  intro l
  induction l with
  | nil =>
    intro alpha best s s' A B _ he _
    unfold rootLoop at he
    obtain ⟨h1, _⟩ := pure_ok he
    injection h1 with h1
    injection h1 with h1 _
    subst h1
    exact ⟨Int.le_refl _, fun ⟨m, hm, _⟩ => by cases hm⟩
  | cons m ms ih =>
    intro alpha best s s' A B hte he hfin
    have hadv := (rootLoop_adv g ord (fuel + 1) curDepth first (m :: ms) alpha best).run s _ s' he
    unfold rootLoop at he
    obtain ⟨b, s1, h1, he⟩ := bind_ok he
    cases b with
    | true =>
      exfalso
      simp only [if_true] at he
      by_cases hb : best.isNone = true
      · rw [if_pos hb] at he
        obtain ⟨_, s2, _, he⟩ := bind_ok he
        obtain ⟨h, _⟩ := pure_ok he
        cases h
      · rw [if_neg hb] at he
        obtain ⟨h, _⟩ := pure_ok he
        cases h
    | false =>
      simp only [Bool.false_eq_true, if_false] at he
      obtain ⟨r0, s2, h2, he⟩ := bind_ok he
      have hte1 : TableEq s1.table t := by rw [(tick_eq h1).1]; exact hte
      have hte2 : TableEq s2.table t :=
        ((alphaBeta_pres g ord (fuel + 1) m (curDepth - 1) 1 (-Gen.posInf) (-alpha) true).triple t).run s1 r0 s2 hte1 h2
      -- everything after the child call only moves the clock forward
      have hrl := rootLoop_adv g ord (fuel + 1) curDepth first ms
      have hr := report_adv (P := P) (O := O)
      have hsi := sendInfo_adv (P := P) (O := O)
      have hk : Le s2 s' := by
        refine Adv.run ?_ s2 _ s' he
        adv_auto
      have hnx2 : s2.expired = false := not_expired_back hk hfin
      -- so the child call's own consultation of the clock said "go on"
      obtain ⟨bi, s1i, hti, _, _, _⟩ := tick_run s1
      have hbi : bi = false := by
        cases bi with
        | false => rfl
        | true =>
          exfalso
          have hx := tick_true_expired hti
          have : alphaBeta g ord (fuel + 1) m (curDepth - 1) 1 (-Gen.posInf) (-alpha) true s1 = .ok (-Gen.posInf) s1i := by
            unfold alphaBeta
            rw [bind_of_ok hti]
            rfl
          rw [this] at h2
          injection h2 with _ h2
          subst h2
          rw [hx] at hnx2
          cases hnx2
      subst hbi
      obtain ⟨_, s3, h3, he⟩ := bind_ok he
      have hte3 : TableEq s3.table t := ((insertCur_pres 0 _).triple t).run s2 () s3 hte2 h3
      -- the value of a repeated child
      have hrep : t.isThreefold (g.key m) = true → r0 = 0 := by
        intro h3f
        have hc : count s1.table (g.key m) ≥ 2 := by
          have := isThreefold_congr hte1 (g.key m)
          rw [h3f] at this
          unfold isThreefold at this
          simpa using this
        obtain ⟨s2', hr', _, _⟩ := repeated_child_is_draw' g ord fuel m (curDepth - 1) 1 (-Gen.posInf) (-alpha) true s1 s1i hti hc
        rw [hr'] at h2
        injection h2 with h2 _
        exact h2.symm
      by_cases hev : - r0 > alpha
      · rw [if_pos hev] at he
        obtain ⟨b2, s4', h5, he⟩ := bind_ok he
        obtain ⟨acc, s4, h4, he⟩ := bind_ok he
        obtain ⟨hacc, hs4⟩ := pure_ok h4
        rw [hs4] at he
        cases b2 with
        | true =>
          exfalso
          have hx := tick_true_expired h5
          subst hacc
          simp only [Bool.not_true, Bool.false_eq_true, if_false] at he
          have hl := (rootLoop_adv g ord (fuel + 1) curDepth first ms alpha best).run s4' _ s' he
          rw [expired_mono hl hx] at hfin
          cases hfin
        | false =>
          subst hacc
          simp only [Bool.not_false, if_true] at he
          obtain ⟨_, s5, h6, he⟩ := bind_ok he
          obtain ⟨_, s6, h7, he⟩ := bind_ok he
          obtain ⟨_, s7, h8, he⟩ := bind_ok he
          have hte4 : TableEq s4'.table t := by rw [(tick_eq h5).1]; exact hte3
          have hte5 : TableEq s5.table t := ((report_pres _).triple t).run s4' () s5 hte4 h6
          have hte6 : TableEq s6.table t := (setPV_pres.triple t).run s5 () s6 hte5 h7
          have hte7 : TableEq s7.table t := ((sendInfo_pres _ _).triple t).run s6 () s7 hte6 h8
          obtain ⟨hA, hB⟩ := ih (- r0) (some m) s7 s' A B hte7 he hfin
          refine ⟨by omega, ?_⟩
          rintro ⟨m', hm', h3f⟩
          rcases List.mem_cons.mp hm' with rfl | hm'
          · have := hrep h3f; omega
          · exact hB ⟨m', hm', h3f⟩
      · rw [if_neg hev] at he
        obtain ⟨acc, s4, h4, he⟩ := bind_ok he
        obtain ⟨hacc, hs4⟩ := pure_ok h4
        rw [hs4] at he
        subst hacc
        simp only [Bool.false_eq_true, if_false] at he
        obtain ⟨hA, hB⟩ := ih alpha best s3 s' A B hte3 he hfin
        refine ⟨hA, ?_⟩
        rintro ⟨m', hm', h3f⟩
        rcases List.mem_cons.mp hm' with rfl | hm'
        · have := hrep h3f; omega
        · exact hB ⟨m', hm', h3f⟩

/-! ### what the loop reports: the last info line of the iteration carries the final alpha -/

/-- the info lines among a list of reports, in order -/
def infos (l : List (Report P)) : List Info :=
  l.filterMap fun r => match r with | .info i => some i | .sent _ => none

theorem infos_append (a b : List (Report P)) : infos (a ++ b) = infos a ++ infos b := by
  unfold infos; rw [List.filterMap_append]

theorem silent_ok {α : Type} {m : M (SS P O) α} (h : Silent m) {s s' : SS P O} {a : α} (he : m s = .ok a s') :
    s'.reports = s.reports := by
  have := h s; rw [he] at this; exact this

/-- one iteration of the root loop, any depth, any clock: the reports it adds are `sent`/`info`
    pairs; every info line carries the iteration's depth; the last one carries the final alpha
    (if there is none, alpha was never raised) -/
theorem rootLoop_last_info (fuel curDepth : Nat) (first : P) :
    ∀ (l : List P) (alpha : Int) (best : Option P) (s s' : SS P O) (A : Int) (B : Option P),
      rootLoop g ord fuel curDepth first l alpha best s = .ok (some (A, B)) s' →
      ∃ new : List (Report P), s'.reports.toList = s.reports.toList ++ new ∧
        (∀ i ∈ infos new, i.depth = curDepth) ∧
        ((infos new = [] ∧ A = alpha) ∨ ((infos new).getLast?.map Info.eval = some A)) := by
  intro l
  induction l with
  | nil =>
    intro alpha best s s' A B he
    unfold rootLoop at he
    obtain ⟨h1, h2⟩ := pure_ok he
    injection h1 with h1
    injection h1 with h1 _
    subst h1 h2
    exact ⟨[], by simp, (by intro i hi; cases hi), Or.inl ⟨rfl, rfl⟩⟩
  | cons m ms ih =>
    intro alpha best s s' A B he
    unfold rootLoop at he
    obtain ⟨b, s1, h1, he⟩ := bind_ok he
    have hr1 : s1.reports = s.reports := silent_ok tick_silent h1
    cases b with
    | true =>
      exfalso
      simp only [if_true] at he
      by_cases hb : best.isNone = true
      · rw [if_pos hb] at he
        obtain ⟨_, s2, _, he⟩ := bind_ok he
        obtain ⟨h, _⟩ := pure_ok he
        cases h
      · rw [if_neg hb] at he
        obtain ⟨h, _⟩ := pure_ok he
        cases h
    | false =>
      simp only [Bool.false_eq_true, if_false] at he
      obtain ⟨r0, s2, h2, he⟩ := bind_ok he
      have hr2 : s2.reports = s1.reports := silent_ok (alphaBeta_silent g ord fuel m _ _ _ _ _) h2
      obtain ⟨_, s3, h3, he⟩ := bind_ok he
      have hr3 : s3.reports = s2.reports := silent_ok (insertCur_silent _ _) h3
      by_cases hev : - r0 > alpha
      · rw [if_pos hev] at he
        obtain ⟨b2, s4', h5, he⟩ := bind_ok he
        have hr4 : s4'.reports = s3.reports := silent_ok tick_silent h5
        obtain ⟨acc, s4, h4, he⟩ := bind_ok he
        obtain ⟨hacc, hs4⟩ := pure_ok h4
        rw [hs4] at he
        subst hacc
        cases b2 with
        | true =>
          simp only [Bool.not_true, Bool.false_eq_true, if_false] at he
          obtain ⟨new, hn, hd, hl⟩ := ih alpha best s4' s' A B he
          exact ⟨new, by rw [hn, hr4, hr3, hr2, hr1], hd, hl⟩
        | false =>
          simp only [Bool.not_false, if_true] at he
          obtain ⟨_, s5, h6, he⟩ := bind_ok he
          obtain ⟨_, s6, h7, he⟩ := bind_ok he
          obtain ⟨_, s7, h8, he⟩ := bind_ok he
          have hr5 : s5.reports = s4'.reports.push (.sent m) := by
            unfold report M.modify at h6; injection h6 with _ h6; subst h6; rfl
          have hr6 : s6.reports = s5.reports := silent_ok setPV_silent h7
          have hr7 : s7.reports = s6.reports.push (.info ⟨pvPrefix s6.pv, curDepth, s6.nodes, - r0⟩) := by
            unfold sendInfo at h8; injection h8 with _ h8; subst h8; rfl
          obtain ⟨new, hn, hd, hl⟩ := ih (- r0) (some m) s7 s' A B he
          refine ⟨.sent m :: .info ⟨pvPrefix s6.pv, curDepth, s6.nodes, - r0⟩ :: new, ?_, ?_, ?_⟩
          · rw [hn, hr7, hr6, hr5, hr4, hr3, hr2, hr1]; simp
          · intro i hi
            have : infos (Report.sent m :: Report.info ⟨pvPrefix s6.pv, curDepth, s6.nodes, - r0⟩ :: new)
                = ⟨pvPrefix s6.pv, curDepth, s6.nodes, - r0⟩ :: infos new := by
              simp [infos]
            rw [this] at hi
            rcases List.mem_cons.mp hi with rfl | hi
            · rfl
            · exact hd i hi
          · right
            have : infos (Report.sent m :: Report.info ⟨pvPrefix s6.pv, curDepth, s6.nodes, - r0⟩ :: new)
                = ⟨pvPrefix s6.pv, curDepth, s6.nodes, - r0⟩ :: infos new := by
              simp [infos]
            rw [this]
            rcases hl with ⟨hnil, hA⟩ | hl
            · rw [hnil, hA]; rfl
            · cases hin : infos new with
              | nil => rw [hin] at hl; cases hl
              | cons x xs => rw [hin] at hl; rw [List.getLast?_cons_cons]; exact hl
      · rw [if_neg hev] at he
        obtain ⟨acc, s4, h4, he⟩ := bind_ok he
        obtain ⟨hacc, hs4⟩ := pure_ok h4
        rw [hs4] at he
        subst hacc
        simp only [Bool.false_eq_true, if_false] at he
        obtain ⟨new, hn, hd, hl⟩ := ih alpha best s3 s' A B he
        exact ⟨new, by rw [hn, hr3, hr2, hr1], hd, hl⟩

end Walleye
