/-
  The ply-exact value range of the model's alpha-beta (every depth): as long as no clock
  consultation has answered "out of time", a node at `ply` entered with window (a, b) returns a
  value in [min b (-(MATE - ply)), max a (MATE - ply - 1)].  At the root this gives: every accepted
  evaluation lies in [-(MATE - 2), MATE - 1].  (C18, C11)
-/
import Walleye.Proofs.Range
namespace Walleye

variable {P O : Type}

def NX (s : SS P O) : Prop := s.expired = false

theorem NX_of_le {s s' : SS P O} (hl : Le s s') (h : NX s') : NX s := by
  unfold NX at *
  cases hs : s.expired with
  | false => rfl
  | true => rw [expired_mono hl hs] at h; cases h

/-- quiescence window relation: evaluation bound `E` -/
def QB (E : Nat) (a b v : Int) : Prop := min b (-(E : Int)) ≤ v ∧ v ≤ max a E

/-- node at `ply` with window (a, b) -/
def B (ply : Nat) (a b v : Int) : Prop :=
  min b (-(Gen.mateScore - ply)) ≤ v ∧ v ≤ max a (Gen.mateScore - ply - 1)

variable (g : Game P) (ord : Oracle P O)

theorem quiesceLoop_fine (E : Nat) (f : P → Int → Int → M (SS P O) Int)
    (hf : ∀ m a b, Triple (fun _ => True) (f m a b) (fun v _ => QB E a b v)) :
    ∀ (l : List P) (a b : Int),
      Triple (fun _ => True) (quiesceLoop f l a b) (fun v _ => min b a ≤ v ∧ v ≤ max a E) := by
  intro l
  induction l with
  | nil =>
    intro a b
    unfold quiesceLoop
    exact Triple.pure (fun _ _ => by omega)
  | cons m ms ih =>
    intro a b
    refine ⟨?_⟩
    intro s v s' _ he
    unfold quiesceLoop at he
    obtain ⟨r, s1, h1, he⟩ := bind_ok he
    have hr := (hf m (-b) (-a)).run s r s1 True.intro h1
    unfold QB at hr
    dsimp only at he
    by_cases hc : -r ≥ b
    · rw [if_pos hc] at he
      obtain ⟨hv, _⟩ := pure_ok he
      subst hv
      omega
    · rw [if_neg hc] at he
      have := (ih (if -r > a then -r else a) b).run s1 v s' True.intro he
      split at this <;> omega

theorem quiesce_fine (E : Nat) (hE : ∀ p, -(E : Int) ≤ g.eval p ∧ g.eval p ≤ E) :
    ∀ (fuel : Nat) (p : P) (a b : Int),
      Triple (fun _ => True) (quiesce g ord fuel p a b) (fun v _ => QB E a b v) := by
  intro fuel
  induction fuel with
  | zero =>
    intro p a b
    refine ⟨?_⟩
    intro s v s' _ he
    unfold quiesce M.outOfFuel at he
    cases he
  | succ n ih =>
    intro p a b
    unfold quiesce
    apply Triple.bind (R := fun _ _ => True) Triple.trivial
    intro _
    have he := hE p
    by_cases hsp : g.eval p ≥ b
    · rw [if_pos hsp]
      exact Triple.pure (fun _ _ => by unfold QB; omega)
    · rw [if_neg hsp]
      apply Triple.bind (R := fun _ _ => True) Triple.trivial
      intro moves
      refine ⟨?_⟩
      intro s v s' _ hq
      have := (quiesceLoop_fine E (quiesce g ord n) (fun m a b => ih m a b) moves
        (if a < g.eval p then g.eval p else a) b).run s v s' True.intro hq
      unfold QB
      split at this <;> omega

/-! ### alpha-beta -/

def ChildF (f : ABFun P O) : Prop :=
  ∀ m d ply1 lo hi n, (n = true → ply1 ≤ arrSize) → ply1 ≤ arrSize + Gen.nullPlyJump →
    Triple Sz (f m d ply1 lo hi n) (fun v s' => NX s' → B ply1 lo hi v)

/-- inside a node whose clamped window is not empty -/
def Rp (ply : Nat) (v : Int) : Prop := -(Gen.mateScore - ply) ≤ v ∧ v ≤ Gen.mateScore - ply - 1

theorem abLoop_fine (f : ABFun P O) (hadv : ChildAdv f) (hf : ChildF f) (d1 ply : Nat) (beta : Int)
    (hb : beta ≤ Gen.mateScore - ply) :
    ∀ (ms : List P) (a best : Int), -(Gen.mateScore - ply) ≤ a → a < beta → best < beta → Rp ply best →
      Triple Sz (abLoop g f ms d1 ply a beta best) (fun v s' => NX s' → Rp ply v) := by
  intro ms
  induction ms with
  | nil =>
    intro a best _ _ _ hbest
    unfold abLoop
    exact Triple.pure (fun _ _ _ => hbest)
  | cons m ms ih =>
    intro a best hla hab hbb hbest
    refine ⟨?_⟩
    intro s v s' hsz he hx
    unfold abLoop at he
    obtain ⟨_, s1, h1, he⟩ := bind_ok he
    have hply : ply < arrSize := by have := insertCur_ok h1; unfold Sz at hsz; omega
    have l1 := (insertCur_adv ply _).run _ _ _ h1
    have hsz1 := Sz_mono hsz l1
    have hJ : (0 : Nat) ≤ Gen.nullPlyJump := Nat.zero_le _
    obtain ⟨r0, s2, h2, he⟩ := bind_ok he
    have c0 := (hf m d1 (ply + 1) (-a - 1) (-a) true (fun _ => by omega) (by omega)).run s1 r0 s2 hsz1 h2
    have l2 := (hadv m d1 (ply + 1) (-a - 1) (-a) true).run _ _ _ h2
    have hsz2 := Sz_mono hsz1 l2
    dsimp only at he
    have cutoff : ∀ (sc : Int) (sa : SS P O),
        (if g.oh m = 0 then (do insertKiller ply (g.lastMove m); pure sc) else (pure sc : M (SS P O) Int)) sa = .ok v s' →
        v = sc ∧ Le sa s' := by
      intro sc sa hc
      by_cases hoh : g.oh m = 0
      · rw [if_pos hoh] at hc
        obtain ⟨_, s4, h5, hc⟩ := bind_ok hc
        have l := (insertKiller_adv ply _).run _ _ _ h5
        obtain ⟨hv, hs'⟩ := pure_ok hc
        exact ⟨hv, by rw [hs']; exact l⟩
      · rw [if_neg hoh] at hc
        obtain ⟨hv, hs'⟩ := pure_ok hc
        exact ⟨hv, by rw [hs']; exact Le.refl _⟩
    have hla' := abLoop_adv g f hadv ms d1 ply
    by_cases hre : - r0 > a ∧ - r0 < beta
    · rw [if_pos hre] at he
      obtain ⟨r1, s3, h4, he⟩ := bind_ok he
      have c1 := (hf m d1 (ply + 1) (-beta) (-a) true (fun _ => by omega) (by omega)).run s2 r1 s3 hsz2 h4
      have l3 := (hadv m d1 (ply + 1) (-beta) (-a) true).run _ _ _ h4
      have hsz3 := Sz_mono hsz2 l3
      obtain ⟨pr, s3', h3, he⟩ := bind_ok he
      obtain ⟨hpr, hs3⟩ := pure_ok h3
      rw [hs3] at he
      simp only [hpr] at he
      by_cases hsc : - r1 > best
      · rw [if_pos hsc] at he
        by_cases hcut : - r1 ≥ beta
        · rw [if_pos hcut] at he
          obtain ⟨hv, l4⟩ := cutoff _ _ he
          subst hv
          have b1 := c1 (NX_of_le l4 hx)
          unfold B at b1; unfold Rp at *; omega
        · rw [if_neg hcut] at he
          obtain ⟨_, s4, h5, he⟩ := bind_ok he
          have l4 := (setPV_adv (P := P) (O := O)).run _ _ _ h5
          have l5 := (hla' _ _ _).run _ _ _ he
          have b1 := c1 (NX_of_le (l4.trans l5) hx)
          exact (ih (if - r1 > a then - r1 else a) (- r1) (by split <;> omega) (by split <;> omega) (by omega)
            (by unfold B at b1; unfold Rp at *; omega)).run s4 v s' (Sz_mono hsz3 l4) he hx
      · rw [if_neg hsc] at he
        exact (ih (if - r1 > a then - r1 else a) best (by split <;> omega) (by split <;> omega) hbb hbest).run
          s3 v s' hsz3 he hx
    · rw [if_neg hre] at he
      obtain ⟨pr, s3', h3, he⟩ := bind_ok he
      obtain ⟨hpr, hs3⟩ := pure_ok h3
      rw [hs3] at he
      simp only [hpr] at he
      by_cases hsc : - r0 > best
      · rw [if_pos hsc] at he
        by_cases hcut : - r0 ≥ beta
        · rw [if_pos hcut] at he
          obtain ⟨hv, l4⟩ := cutoff _ _ he
          subst hv
          have b0 := c0 (NX_of_le l4 hx)
          unfold B at b0; unfold Rp at *; omega
        · rw [if_neg hcut] at he
          obtain ⟨_, s4, h5, he⟩ := bind_ok he
          have l4 := (setPV_adv (P := P) (O := O)).run _ _ _ h5
          have l5 := (hla' _ _ _).run _ _ _ he
          have b0 := c0 (NX_of_le (l4.trans l5) hx)
          exact (ih a (- r0) hla hab (by omega) (by unfold B at b0; unfold Rp at *; omega)).run s4 v s' (Sz_mono hsz2 l4) he hx
      · rw [if_neg hsc] at he
        exact (ih a best hla hab hbb hbest).run s2 v s' hsz2 he hx

theorem null_bound (b r mate ply : Int) (h1 : min (-b + 1) (-(mate - (ply + 10))) ≤ r) (h2 : - r ≥ b) :
    b ≤ mate - ply - 1 := by omega

theorem abRest_adv (f : ABFun P O) (hadv : ChildAdv f) (p : P) (depth ply : Nat) (a b : Int) :
    Adv (abRest g ord f p depth ply a b) := by
  unfold abRest
  have hl := abLoop_adv g f hadv
  have hf := hadv
  unfold ChildAdv at hf
  adv_auto

theorem abRest_fine (f : ABFun P O) (hadv : ChildAdv f) (hf : ChildF f) (p : P) (depth ply : Nat) (a' b' : Int)
    (k1 : -(Gen.mateScore - ply) ≤ a') (k2 : a' < b') (k3 : b' ≤ Gen.mateScore - ply)
    (hply : ply ≤ arrSize + Gen.nullPlyJump) :
    Triple Sz (abRest g ord f p depth ply a' b') (fun v s' => NX s' → Rp ply v) := by
  refine ⟨?_⟩
  intro s0 v s' hsz0 he hx
  unfold abRest at he
  have hM : Gen.mateScore = 100000 := rfl
  have hJ : Gen.nullPlyJump = 10 := rfl
  have hA : arrSize = 100 := rfl
  dsimp only at he
  cases hgen : g.gen p .all with
  | nil =>
    rw [hgen] at he
    simp only [List.isEmpty_nil, if_true] at he
    obtain ⟨hv, _⟩ := pure_ok he
    subst hv
    unfold Rp; split <;> omega
  | cons g0 gs =>
    rw [hgen] at he
    simp only [List.isEmpty_cons, Bool.false_eq_true, if_false] at he
    obtain ⟨pvm, s1, h1, he⟩ := bind_ok he
    have l1 := (getPV_adv ply).run _ _ _ h1
    obtain ⟨ks, s2, h2, he⟩ := bind_ok he
    have l2 := (getKillers_adv ply).run _ _ _ h2
    obtain ⟨moves, s3, h3, he⟩ := bind_ok he
    have l3 := (order_adv ord 'A' _).run _ _ _ h3
    have hsz3 := Sz_mono (Sz_mono (Sz_mono hsz0 l1) l2) l3
    cases hm : moves with
    | nil =>
      rw [hm] at he
      dsimp only at he
      unfold M.panic at he
      cases he
    | cons m0 rest =>
      rw [hm] at he
      dsimp only at he
      obtain ⟨_, s4, h4, he⟩ := bind_ok he
      have hplt : ply < arrSize := by have := insertCur_ok h4; unfold Sz at hsz3; omega
      have l4 := (insertCur_adv ply _).run _ _ _ h4
      have hsz4 := Sz_mono hsz3 l4
      have hla' := abLoop_adv g f hadv rest (depth - 1) ply
      have core : ∀ s5 : SS P O, Sz s5 →
          (do
            let r ← f m0 (depth - 1) (ply + 1) (-b') (-a') true
            if -r > a' then
              if -r ≥ b' then pure (-r)
              else do
                setPV
                abLoop g f rest (depth - 1) ply (-r) b' (-r)
            else abLoop g f rest (depth - 1) ply a' b' (-r)) s5 = .ok v s' →
          Rp ply v := by
        intro s5 hsz5 he
        obtain ⟨r0, s6, h6, he⟩ := bind_ok he
        have c0 := (hf m0 _ (ply + 1) (-b') (-a') true (fun _ => by omega) (by omega)).run s5 r0 s6 hsz5 h6
        have l6 := (hadv m0 _ (ply + 1) (-b') (-a') true).run _ _ _ h6
        have hsz6 := Sz_mono hsz5 l6
        by_cases hbest : - r0 > a'
        · rw [if_pos hbest] at he
          by_cases hcut : - r0 ≥ b'
          · rw [if_pos hcut] at he
            obtain ⟨hv, hs'⟩ := pure_ok he
            subst hv; subst hs'
            have b0 := c0 hx
            unfold B at b0; unfold Rp; omega
          · rw [if_neg hcut] at he
            obtain ⟨_, s7, h7, he⟩ := bind_ok he
            have l7 := (setPV_adv (P := P) (O := O)).run _ _ _ h7
            have l8 := (hla' _ _ _).run _ _ _ he
            have b0 := c0 (NX_of_le (l7.trans l8) hx)
            exact (abLoop_fine g f hadv hf _ ply b' k3 rest (- r0) (- r0) (by omega) (by omega) (by omega)
              (by unfold B at b0; unfold Rp; omega)).run s7 v s' (Sz_mono hsz6 l7) he hx
        · rw [if_neg hbest] at he
          have l8 := (hla' _ _ _).run _ _ _ he
          have b0 := c0 (NX_of_le l8 hx)
          exact (abLoop_fine g f hadv hf _ ply b' k3 rest a' (- r0) k1 k2 (by omega)
            (by unfold B at b0; unfold Rp; omega)).run s6 v s' hsz6 he hx
      by_cases hoh : g.oh m0 ≠ Gen.posInf
      · rw [if_pos hoh] at he
        obtain ⟨_, s5, h5, he⟩ := bind_ok he
        have l5 := (setPV_adv (P := P) (O := O)).run _ _ _ h5
        exact core s5 (Sz_mono hsz4 l5) he
      · rw [if_neg hoh] at he
        exact core s4 hsz4 he

theorem abBody_fine (E : Nat) (hE : ∀ p, -(E : Int) ≤ g.eval p ∧ g.eval p ≤ E)
    (hEp : (E : Int) + arrSize + Gen.nullPlyJump + 1 ≤ Gen.mateScore)
    (f : ABFun P O) (hadv : ChildAdv f) (hf : ChildF f) (p : P) (depth ply : Nat) (a b : Int) (n : Bool)
    (hply : ply ≤ arrSize + Gen.nullPlyJump) (hn : n = true → ply ≤ arrSize) :
    Triple Sz (abBody g ord f p depth ply a b n) (fun v s' => NX s' → B ply a b v) := by
  refine ⟨?_⟩
  intro s v s' hsz he hx
  unfold abBody at he
  have hM : Gen.mateScore = 100000 := rfl
  have hJ : Gen.nullPlyJump = 10 := rfl
  have hA : arrSize = 100 := rfl
  by_cases hq : depth = 0 ∧ ¬ g.inCheck p = true
  · rw [if_pos hq] at he
    have := (quiesce_fine g ord E hE qFuel p a b).run s v s' True.intro he
    unfold QB at this; unfold B; omega
  · rw [if_neg hq] at he
    dsimp only at he
    by_cases hclamp : max a (-Gen.mateScore + ply) ≥ min b (Gen.mateScore - ply)
    · rw [if_pos hclamp] at he
      obtain ⟨hv, _⟩ := pure_ok he
      subst hv
      unfold B; omega
    · rw [if_neg hclamp] at he
      generalize ha' : max a (-Gen.mateScore + ply) = a' at he hclamp
      generalize hb' : min b (Gen.mateScore - ply) = b' at he hclamp
      have k1 : -(Gen.mateScore - ply) ≤ a' := by omega
      have k2 : a' < b' := by omega
      have k3 : b' ≤ Gen.mateScore - ply := by omega
      have fin : ∀ (pr : Bool) (sX : SS P O), Sz sX → (pr = true → NX sX → b' ≤ Gen.mateScore - ply - 1) →
          (if pr = true then (pure b' : M (SS P O) Int)
           else abRest g ord f p (if depth = 0 then 1 else depth) ply a' b') sX = .ok v s' → B ply a b v := by
        intro pr sX hszX hprune hxx
        by_cases hpr : pr = true
        · rw [if_pos hpr] at hxx
          obtain ⟨hv, hs'⟩ := pure_ok hxx
          subst hv
          have := hprune hpr (by rw [← hs']; exact hx)
          unfold B; omega
        · rw [if_neg hpr] at hxx
          have := (abRest_fine g ord f hadv hf p _ ply a' b' k1 k2 k3 hply).run sX v s' hszX hxx hx
          unfold Rp at this; unfold B; omega
      by_cases hnull : n = true ∧ (if depth = 0 then 1 else depth) ≥ Gen.nullMinDepth ∧ ¬ g.inCheck p = true
      · rw [if_pos hnull] at he
        obtain ⟨r, sN, hN, he⟩ := bind_ok he
        have lN := (hadv _ _ _ _ _ _).run _ _ _ hN
        have plyN := hn hnull.1
        have cN := (hf (g.null p) _ (ply + Gen.nullPlyJump) (-b') (-b' + 1) false (fun h => by cases h) (by omega)).run
          s r sN hsz hN
        obtain ⟨pr, s0, h0, he⟩ := bind_ok he
        obtain ⟨hpr, hs0⟩ := pure_ok h0
        rw [hs0] at he
        refine fin pr sN (Sz_mono hsz lN) ?_ he
        intro hp hxN
        have bN := cN hxN
        rw [hpr] at hp
        have hge : - r ≥ b' := by simpa using hp
        obtain ⟨bN1, _⟩ := bN
        have e : ((ply + Gen.nullPlyJump : Nat) : Int) = (ply : Int) + 10 := by rw [hJ]; rfl
        rw [e] at bN1
        exact null_bound b' r Gen.mateScore ply bN1 hge
      · rw [if_neg hnull] at he
        obtain ⟨pr, s0, h0, he⟩ := bind_ok he
        obtain ⟨hpr, hs0⟩ := pure_ok h0
        rw [hs0] at he
        exact fin pr s hsz (fun hp => by rw [hpr] at hp; cases hp) he

/-- **ply-exact value range**, every depth -/
theorem alphaBeta_fine (E : Nat) (hE : ∀ p, -(E : Int) ≤ g.eval p ∧ g.eval p ≤ E)
    (hEp : (E : Int) + arrSize + Gen.nullPlyJump + 1 ≤ Gen.mateScore) :
    ∀ fuel : Nat, ChildF (alphaBeta g ord fuel) := by
  intro fuel
  induction fuel with
  | zero =>
    intro m d ply lo hi n _ _
    refine ⟨?_⟩
    intro s v s' _ he
    unfold alphaBeta M.outOfFuel at he
    cases he
  | succ k ih =>
    intro m d ply lo hi n h3 h4
    refine ⟨?_⟩
    intro s v s' hsz he hx
    have hM : Gen.mateScore = 100000 := rfl
    have hJ : Gen.nullPlyJump = 10 := rfl
    have hA : arrSize = 100 := rfl
    unfold alphaBeta at he
    obtain ⟨tk, s1, ht, he⟩ := bind_ok he
    have lt := (tick_adv (P := P) (O := O)).run _ _ _ ht
    by_cases htk : tk = true
    · rw [if_pos htk] at he
      obtain ⟨hv, hs'⟩ := pure_ok he
      subst hs'
      exfalso
      obtain ⟨e1, e2⟩ := tick_eq ht
      subst e1
      rw [htk] at e2
      unfold NX SS.expired at hx
      cases hxp : s.expiry with
      | none => rw [hxp] at e2; cases e2
      | some x =>
        rw [hxp] at e2
        simp only [hxp, decide_eq_false_iff_not] at hx
        have : x ≤ s.queries := by simpa using e2.symm
        omega
    · rw [if_neg htk] at he
      obtain ⟨_, s2, hn2, he⟩ := bind_ok he
      have l2 := (nodeSearched_adv (P := P) (O := O)).run _ _ _ hn2
      obtain ⟨sg, s3, hg3, he⟩ := bind_ok he
      have l3 := (get_adv (P := P) (O := O)).run _ _ _ hg3
      by_cases h3f : sg.table.isThreefold (g.key m) = true
      · rw [if_pos h3f] at he
        obtain ⟨hv, _⟩ := pure_ok he
        subst hv
        unfold B; omega
      · rw [if_neg h3f] at he
        obtain ⟨_, s4, h4a, he⟩ := bind_ok he
        have l4 := (tableAdd_adv (P := P) (O := O) _).run _ _ _ h4a
        obtain ⟨r, s5, h5, he⟩ := bind_ok he
        have hsz4 := Sz_mono (Sz_mono (Sz_mono (Sz_mono hsz lt) l2) l3) l4
        have vr := (abBody_fine g ord E hE hEp (alphaBeta g ord k) (alphaBeta_adv g ord k) ih m d ply lo hi n
          h4 h3).run s4 r s5 hsz4 h5
        obtain ⟨_, s6, h6, he⟩ := bind_ok he
        have l6 := (tableRemove_adv (P := P) (O := O) _).run _ _ _ h6
        obtain ⟨hv, hs'⟩ := pure_ok he
        subst hv; subst hs'
        exact vr (NX_of_le l6 hx)

end Walleye
