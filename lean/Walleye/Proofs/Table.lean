/- draw_table.rs as a finite map: lookup/insert/count algebra (C10, C07) -/
import Walleye.Model.DrawTable
namespace Walleye
namespace DrawTable

theorem lookup_insert (t : DrawTable) (k k' : UInt64) (v : Nat) :
    lookup (insert t k v) k' = if k = k' then some v else lookup t k' := by
  induction t with
  | nil =>
    simp only [insert, lookup]
  | cons hd tl ih =>
    obtain ⟨k0, v0⟩ := hd
    simp only [insert]
    by_cases h0 : k0 = k
    · subst h0
      simp only [if_true, lookup]
      by_cases h : k0 = k' <;> simp [h]
    · simp only [h0, if_false, lookup]
      by_cases h1 : k0 = k'
      · subst h1
        have : ¬ k = k0 := fun e => h0 e.symm
        simp [this]
      · simp only [h1, if_false, ih]

theorem count_insert (t : DrawTable) (k k' : UInt64) (v : Nat) :
    count (insert t k v) k' = if k = k' then v else count t k' := by
  unfold count
  rw [lookup_insert]
  by_cases h : k = k' <;> simp [h]

/-- same occurrence counts (entries with count 0 are indistinguishable from absent ones) -/
def TableEq (t t' : DrawTable) : Prop := ∀ k, count t k = count t' k

theorem TableEq.refl (t : DrawTable) : TableEq t t := fun _ => rfl
theorem TableEq.symm {t t' : DrawTable} (h : TableEq t t') : TableEq t' t := fun k => (h k).symm
theorem TableEq.trans {a b c : DrawTable} (h1 : TableEq a b) (h2 : TableEq b c) : TableEq a c :=
  fun k => (h1 k).trans (h2 k)

theorem isThreefold_congr {t t' : DrawTable} (h : TableEq t t') (k : UInt64) : isThreefold t k = isThreefold t' k := by
  unfold isThreefold; rw [h k]

theorem count_add {t t1 : DrawTable} {k : UInt64} (h : add t k = some t1) (k' : UInt64) :
    count t1 k' = if k = k' then count t k + 1 else count t k' := by
  unfold add at h
  simp only at h
  split at h
  · cases h
  · have := Option.some.inj h
    subst this
    rw [count_insert]

/-- removing what was added restores every count -/
theorem count_remove_of_pos {t : DrawTable} {k : UInt64} (hpos : 0 < count t k) :
    ∃ t1, remove t k = some t1 ∧ ∀ k', count t1 k' = if k = k' then count t k - 1 else count t k' := by
  unfold remove
  unfold count at hpos
  cases hl : lookup t k with
  | none => simp [hl] at hpos
  | some v =>
    simp only [hl, Option.getD_some] at hpos
    have hv : ¬ v = 0 := by omega
    simp only [hv, if_false]
    refine ⟨_, rfl, fun k' => ?_⟩
    rw [count_insert]
    by_cases h : k = k'
    · simp only [h, if_true]; subst h; unfold count; rw [hl]; rfl
    · simp [h]

end DrawTable
end Walleye
