/-
  Every info line of a `get_best_move` run is preceded by the board it belongs to: the improvements
  as pairs (`infosOfB`: board handed over + its info line) project exactly onto the info lines
  (`infosOf`), at every point of every run and whatever its outcome.  So nothing is lost by looking at
  pairs, and `larger_allowance_only_extends_boards` covers every reported improvement.  (C07)
-/
import Walleye.Proofs.PrefixPairsSearch
import Walleye.Proofs.RootRange
namespace Walleye

variable {P O : Type}

/-- the pairs project onto the info lines -/
def Paired (s : SS P O) : Prop := (infosOfB s.reports).map Prod.snd = infosOf s.reports

theorem pairsAux_snoc_pair (m : P) (i : Info) : ∀ (l : List (Report P)) (o : Option P),
    pairsAux o (l ++ [.sent m, .info i]) = pairsAux o l ++ [(m, i)] := by
  intro l
  induction l with
  | nil => intro o; cases o <;> rfl
  | cons x xs ih =>
    intro o
    cases x with
    | sent m' => simp only [List.cons_append, pairsAux]; exact ih _
    | info j =>
      cases o with
      | none => simp only [List.cons_append, pairsAux]; exact ih _
      | some m' => simp only [List.cons_append, pairsAux, ih]

theorem Paired.of_eq {s s' : SS P O} (h : s'.reports = s.reports) (hp : Paired s) : Paired s' := by
  unfold Paired at *; rw [h]; exact hp

theorem Paired.sent {s s' : SS P O} (q : P) (h : s'.reports = s.reports.push (.sent q)) (hp : Paired s) : Paired s' := by
  unfold Paired at *
  rw [h, infosOf_push_sentB, infosOf_push_sent]; exact hp

theorem Paired.pair {s s' : SS P O} (m : P) (i : Info)
    (h : s'.reports = (s.reports.push (.sent m)).push (.info i)) (hp : Paired s) : Paired s' := by
  unfold Paired at *
  rw [h]
  have e1 : infosOfB ((s.reports.push (.sent m)).push (.info i)) = infosOfB s.reports ++ [(m, i)] := by
    unfold infosOfB
    rw [Array.toList_push, Array.toList_push, List.append_assoc]
    exact pairsAux_snoc_pair m i s.reports.toList none
  rw [e1, infosOf_push_info, infosOf_push_sent, List.map_append, hp]
  rfl

variable (g : Game P) (ord : Oracle P O)

theorem rootLoop_paired (fuel c : Nat) (first : P) :
    ∀ (l : List P) (alpha : Int) (best : Option P) (s : SS P O), Paired s →
      Paired (outState (rootLoop g ord fuel c first l alpha best s)) := by
  intro l
  induction l with
  | nil => intro alpha best s hp; unfold rootLoop; exact hp
  | cons m ms ih =>
    intro alpha best s hp
    unfold rootLoop
    obtain ⟨tk, s1, ht, hr1, _, _⟩ := tick_run s
    rw [outState_bind_ok ht]
    have hp1 : Paired s1 := hp.of_eq hr1
    by_cases htk : tk = true
    · rw [if_pos htk]
      cases best with
      | none =>
        simp only [Option.isNone_none, if_true]
        obtain ⟨s2, h2, hr2, _⟩ := report_run (.sent first) s1
        rw [outState_bind_ok h2]
        exact hp1.sent first hr2
      | some b =>
        simp only [Option.isNone_some, Bool.false_eq_true, if_false]
        exact hp1
    · rw [if_neg htk]
      have hsil := alphaBeta_silent g ord fuel m (c - 1) 1 (-Gen.posInf) (-alpha) true s1
      cases hab : alphaBeta g ord fuel m (c - 1) 1 (-Gen.posInf) (-alpha) true s1 with
      | panic s2 => rw [outState_bind_panic hab]; rw [hab] at hsil; exact hp1.of_eq hsil
      | fuel s2 => rw [outState_bind_fuel hab]; rw [hab] at hsil; exact hp1.of_eq hsil
      | ok r s2 =>
        rw [outState_bind_ok hab]
        rw [hab] at hsil
        have hp2 : Paired s2 := hp1.of_eq hsil
        dsimp only
        cases hic : insertCur 0 (g.lastMove m) s2 with
        | fuel s3 => unfold insertCur at hic; split at hic <;> cases hic
        | panic s3 =>
          rw [outState_bind_panic hic]
          unfold insertCur at hic; split at hic
          · cases hic
          · cases hic; exact hp2
        | ok u s3 =>
          rw [outState_bind_ok hic]
          have hr3 : s3.reports = s2.reports := by
            have := insertCur_silent (P := P) (O := O) 0 (g.lastMove m) s2
            rw [hic] at this; exact this
          have hp3 : Paired s3 := hp2.of_eq hr3
          have hpure : ∀ (x : Bool) (sx : SS P O), (pure x : M (SS P O) Bool) sx = .ok x sx := fun _ _ => rfl
          by_cases hgt : - r > alpha
          · rw [if_pos hgt]
            obtain ⟨tk2, s4, ht2, hr4, _, _⟩ := tick_run s3
            rw [outState_bind_ok ht2, outState_bind_ok (hpure _ _)]
            have hp4 : Paired s4 := hp3.of_eq hr4
            cases tk2 with
            | true =>
              simp only [Bool.not_true, Bool.false_eq_true, if_false]
              exact ih alpha best _ hp4
            | false =>
              simp only [Bool.not_false, if_true]
              have h5 : report (Report.sent m) s4 = .ok () { s4 with reports := s4.reports.push (.sent m) } := rfl
              rw [outState_bind_ok h5]
              have h6 : setPV ({ s4 with reports := s4.reports.push (.sent m) } : SS P O) =
                  .ok () { s4 with reports := s4.reports.push (.sent m), pv := s4.cur } := rfl
              rw [outState_bind_ok h6]
              have h7 : sendInfo c (- r) ({ s4 with reports := s4.reports.push (.sent m), pv := s4.cur } : SS P O) =
                  .ok () { s4 with pv := s4.cur, reports := (s4.reports.push (.sent m)).push (.info ⟨pvPrefix s4.cur, c, s4.nodes, - r⟩) } := rfl
              rw [outState_bind_ok h7]
              apply ih (- r) (some m)
              exact Paired.pair (s := s4) m ⟨pvPrefix s4.cur, c, s4.nodes, - r⟩ rfl hp4
          · rw [if_neg hgt]
            rw [outState_bind_ok (hpure _ _)]
            simp only [Bool.false_eq_true, if_false]
            exact ih alpha best _ hp3

theorem iterate_paired (fuel : Nat) (root : P) :
    ∀ (n c : Nat) (moves : List P) (best : Option P) (s : SS P O), Paired s →
      Paired (outState (iterate g ord fuel root n c moves best s)) := by
  intro n
  induction n with
  | zero => intro c mv b s hp; unfold iterate; exact hp
  | succ k ih =>
    intro c mv b s hp
    unfold iterate
    by_cases hcm : c ≥ Gen.maxDepth
    · rw [if_pos hcm]; exact hp
    · rw [if_neg hcm]
      have hm0 : M.modify (fun s : SS P O => { s with nodes := 0, cur := Array.replicate arrSize none }) s =
          .ok () ((fun s : SS P O => { s with nodes := 0, cur := Array.replicate arrSize none }) s) := rfl
      rw [outState_bind_ok hm0]
      have ho : order ord 'R' mv ((fun s : SS P O => { s with nodes := 0, cur := Array.replicate arrSize none }) s) =
          .ok (ord s.ord s.expired 'R' mv).1
            { ((fun s : SS P O => { s with nodes := 0, cur := Array.replicate arrSize none }) s) with ord := (ord s.ord s.expired 'R' mv).2 } := rfl
      rw [outState_bind_ok ho]
      generalize hs2 : ({ ((fun s : SS P O => { s with nodes := 0, cur := Array.replicate arrSize none }) s) with ord := (ord s.ord s.expired 'R' mv).2 } : SS P O) = s2
      have hp2 : Paired s2 := hp.of_eq (by rw [← hs2])
      cases hlst : (ord s.ord s.expired 'R' mv).1 with
      | nil => dsimp only; exact ih _ _ _ s2 hp2
      | cons first rest =>
        dsimp only
        obtain ⟨s3, hfb, hp3⟩ : ∃ s3, sendFallback c first s2 = .ok () s3 ∧ Paired s3 := by
          unfold sendFallback
          by_cases hc1 : c = 1
          · rw [if_pos hc1]
            obtain ⟨s', h', hr', _⟩ := report_run (.sent first) s2
            exact ⟨s', h', hp2.sent first hr'⟩
          · rw [if_neg hc1]; exact ⟨s2, rfl, hp2⟩
        rw [outState_bind_ok hfb]
        have hrl := rootLoop_paired g ord fuel c first (first :: rest) (-Gen.posInf) b s3 hp3
        cases hr : rootLoop g ord fuel c first (first :: rest) (-Gen.posInf) b s3 with
        | panic s4 => rw [outState_bind_panic hr]; rw [hr] at hrl; exact hrl
        | fuel s4 => rw [outState_bind_fuel hr]; rw [hr] at hrl; exact hrl
        | ok res s4 =>
          rw [outState_bind_ok hr]
          rw [hr] at hrl
          cases res with
          | none => exact hrl
          | some ab => exact ih _ _ _ s4 hrl

/-- at every point of every run: each info line is paired with the board handed over for it -/
theorem getBestMove_paired (fuel : Nat) (root : P) (s : SS P O) (hs : s.reports = #[]) :
    Paired (outState (getBestMove g ord fuel root s)) := by
  unfold getBestMove
  exact iterate_paired g ord fuel root _ _ _ _ s (by unfold Paired; rw [hs]; rfl)

end Walleye
