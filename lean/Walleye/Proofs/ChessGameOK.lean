/-
  The chess instance satisfies the hypotheses of `ab_spec`: the evaluation is bounded (C14) and the
  minimax value of a position does not depend on its ordering tag (`order_heuristic`).
-/
import Walleye.Proofs.AbSpec
import Walleye.Proofs.Succ
import Walleye.Props.C14
import Walleye.Model.SearchChess
namespace Walleye
open Spec

/-- equal except for the ordering tag -/
def EqOh (p q : Pos) : Prop :=
  p.board = q.board ∧ p.toMove = q.toMove ∧ p.ep = q.ep ∧ p.wk = q.wk ∧ p.bk = q.bk ∧ p.wks = q.wks ∧ p.wqs = q.wqs ∧
  p.bks = q.bks ∧ p.bqs = q.bqs ∧ p.lastMove = q.lastMove ∧ p.promo = q.promo ∧ p.key = q.key

theorem EqOh.refl (p : Pos) : EqOh p p := ⟨rfl, rfl, rfl, rfl, rfl, rfl, rfl, rfl, rfl, rfl, rfl, rfl⟩

theorem eqOh_withOh (p : Pos) (x : Int) : EqOh { p with oh := x } p := ⟨rfl, rfl, rfl, rfl, rfl, rfl, rfl, rfl, rfl, rfl, rfl, rfl⟩

/-- two positions that differ at most in the tag are the same position with a tag changed -/
theorem eqOh_eq (p q : Pos) (h : EqOh p q) : p = { q with oh := p.oh } := by
  obtain ⟨h1, h2, h3, h4, h5, h6, h7, h8, h9, h10, h11, h12⟩ := h
  cases p; cases q; simp_all

variable (h : Hasher)

theorem isCheck_oh (p : Pos) (x : Int) (c : Color) : isCheck { p with oh := x } c = isCheck p c := rfl
theorem canCastle_oh (p : Pos) (x : Int) (ct : CastlingType) : canCastle { p with oh := x } ct = canCastle p ct := by
  cases ct <;> rfl

/-- ordinary successors do not depend on the parent's tag at all (the tag is overwritten) -/
theorem succsForTarget_oh (piece : Piece) (p : Pos) (x : Int) (sq mov : Point) :
    succsForTarget h piece { p with oh := x } sq mov = succsForTarget h piece p sq mov := by
  rw [succsForTarget_eq, succsForTarget_eq]
  have e1 : st1 h piece { p with oh := x } sq mov = st1 h piece p sq mov := by
    unfold st1
    simp only [Pos.swapColor]
    cases piece.kind <;> cases piece.color <;> simp only [reduceCtorEq, if_false, if_true] <;>
      (cases p.board.get mov.row mov.col <;> rfl)
  rw [e1]

/-- pointwise related lists of the same length -/
inductive ListRel {α : Type} (R : α → α → Prop) : List α → List α → Prop where
  | nil : ListRel R [] []
  | cons {a b : α} {as bs : List α} : R a b → ListRel R as bs → ListRel R (a :: as) (b :: bs)

theorem ListRel.refl {α : Type} {R : α → α → Prop} (hR : ∀ a, R a a) : ∀ l : List α, ListRel R l l
  | [] => .nil
  | a :: as => .cons (hR a) (ListRel.refl hR as)

theorem ListRel.append {α : Type} {R : α → α → Prop} {a b c d : List α} (h1 : ListRel R a b) (h2 : ListRel R c d) :
    ListRel R (a ++ c) (b ++ d) := by
  induction h1 with
  | nil => exact h2
  | cons hr _ ih => exact .cons hr ih

theorem ListRel.flatMap {α β : Type} {R : α → α → Prop} (l : List β) (f g : β → List α)
    (hfg : ∀ x ∈ l, ListRel R (f x) (g x)) : ListRel R (l.flatMap f) (l.flatMap g) := by
  induction l with
  | nil => exact .nil
  | cons x xs ih =>
    simp only [List.flatMap_cons]
    exact ListRel.append (hfg x (by simp)) (ih (fun y hy => hfg y (by simp [hy])))

theorem unsetEp_ohc (q : Pos) (x : Int) : ({ q with oh := x } : Pos).unsetEp h = { q.unsetEp h with oh := x } := by
  obtain ⟨b, tm, ep, wk, bk, a1, a2, a3, a4, oh, lm, pr, key⟩ := q
  cases ep <;> rfl

theorem movePiece_ohc (q : Pos) (x : Int) (s e : Point) :
    ({ q with oh := x } : Pos).movePiece h s e = { q.movePiece h s e with oh := x } := by
  obtain ⟨b, tm, ep, wk, bk, a1, a2, a3, a4, oh, lm, pr, key⟩ := q
  unfold Pos.movePiece
  dsimp only
  cases b.get s.row s.col <;> dsimp only

theorem isCheck_congr (a b : Pos) (c : Color) (h1 : a.board = b.board) (h2 : a.wk = b.wk) (h3 : a.bk = b.bk) :
    isCheck a c = isCheck b c := by
  unfold isCheck isCheckCords
  rw [h1, h2, h3]

/-- the en passant successor of a re-tagged parent is the re-tagged en passant successor -/
theorem epSuccs_map (piece : Piece) (p : Pos) (x : Int) (sq : Point) :
    epSuccs h piece { p with oh := x } sq = (epSuccs h piece p sq).map (fun s => { s with oh := x }) := by
  unfold epSuccs
  by_cases hc : p.ep.isSome ∧ piece.kind = .pawn
  · rw [if_pos hc, if_pos (show ({ p with oh := x } : Pos).ep.isSome ∧ piece.kind = .pawn from hc)]
    have e : pawnMovesEnPassant piece sq.row sq.col { p with oh := x } = pawnMovesEnPassant piece sq.row sq.col p := rfl
    rw [e]
    cases pawnMovesEnPassant piece sq.row sq.col p with
    | none => rfl
    | some mov =>
      dsimp only
      have k : (((({ p with oh := x, promo := none, lastMove := some (sq, mov) } : Pos).swapColor h).unsetEp h).movePiece h sq mov)
          = { ((({ p with promo := none, lastMove := some (sq, mov) } : Pos).swapColor h).unsetEp h).movePiece h sq mov with oh := x } := by
        rw [← movePiece_ohc, ← unsetEp_ohc]; rfl
      have k' : (((({ ({ ({ p with oh := x } : Pos) with promo := none } : Pos) with lastMove := some (sq, mov) } : Pos).swapColor h).unsetEp h).movePiece h sq mov)
          = { ((({ ({ p with promo := none } : Pos) with lastMove := some (sq, mov) } : Pos).swapColor h).unsetEp h).movePiece h sq mov with oh := x } := k
      rw [k']
      generalize ((({ ({ p with promo := none } : Pos) with lastMove := some (sq, mov) } : Pos).swapColor h).unsetEp h).movePiece h sq mov = N
      cases piece.color <;> dsimp only
      · rw [isCheck_congr (Pos.mk (N.board.set (mov.row + 1) mov.col .empty) N.toMove N.ep N.wk N.bk N.wks N.wqs N.bks N.bqs N.oh N.lastMove N.promo (N.key ^^^ h.piece ⟨.black, .pawn⟩ ⟨mov.row + 1, mov.col⟩)) (Pos.mk (N.board.set (mov.row + 1) mov.col .empty) N.toMove N.ep N.wk N.bk N.wks N.wqs N.bks N.bqs x N.lastMove N.promo (N.key ^^^ h.piece ⟨.black, .pawn⟩ ⟨mov.row + 1, mov.col⟩)) p.toMove rfl rfl rfl]
        split <;> rfl
      · rw [isCheck_congr (Pos.mk (N.board.set (mov.row - 1) mov.col .empty) N.toMove N.ep N.wk N.bk N.wks N.wqs N.bks N.bqs N.oh N.lastMove N.promo (N.key ^^^ h.piece ⟨.white, .pawn⟩ ⟨mov.row - 1, mov.col⟩)) (Pos.mk (N.board.set (mov.row - 1) mov.col .empty) N.toMove N.ep N.wk N.bk N.wks N.wqs N.bks N.bqs x N.lastMove N.promo (N.key ^^^ h.piece ⟨.white, .pawn⟩ ⟨mov.row - 1, mov.col⟩)) p.toMove rfl rfl rfl]
        split <;> rfl
  · rw [if_neg hc, if_neg (show ¬ (({ p with oh := x } : Pos).ep.isSome ∧ piece.kind = .pawn) from hc)]
    rfl

theorem listRel_map_left {α : Type} (R : α → α → Prop) (f : α → α) (hf : ∀ a, R (f a) a) : ∀ l : List α, ListRel R (l.map f) l
  | [] => .nil
  | a :: as => .cons (hf a) (listRel_map_left R f hf as)

theorem epSuccs_oh (piece : Piece) (p : Pos) (x : Int) (sq : Point) :
    ListRel EqOh (epSuccs h piece { p with oh := x } sq) (epSuccs h piece p sq) := by
  rw [epSuccs_map]
  exact listRel_map_left EqOh _ (fun a => eqOh_withOh a x) _

theorem takeAway_ohc (q : Pos) (x : Int) (ct : CastlingType) :
    ({ q with oh := x } : Pos).takeAway h ct = { q.takeAway h ct with oh := x } := by
  obtain ⟨b, tm, ep, wk, bk, a1, a2, a3, a4, oh, lm, pr, key⟩ := q
  cases ct <;> unfold Pos.takeAway <;> dsimp only
  · cases a1 <;> rfl
  · cases a2 <;> rfl
  · cases a3 <;> rfl
  · cases a4 <;> rfl

theorem castleSucc_map (p : Pos) (x : Int) (ct : CastlingType) :
    castleSucc h { p with oh := x } ct = { castleSucc h p ct with oh := x } := by
  have e0 : (({ ({ p with oh := x } : Pos) with promo := none } : Pos).swapColor h).unsetEp h =
      { (({ p with promo := none } : Pos).swapColor h).unsetEp h with oh := x } := by
    rw [← unsetEp_ohc]; rfl
  cases ct <;> unfold castleSucc <;> dsimp only <;> rw [e0] <;>
    simp only [takeAway_ohc] <;>
    (rw [← movePiece_ohc, ← movePiece_ohc]) <;> rfl

theorem castleSucc_oh (p : Pos) (x : Int) (ct : CastlingType) :
    EqOh (castleSucc h { p with oh := x } ct) (castleSucc h p ct) := by
  rw [castleSucc_map]; exact eqOh_withOh _ x

theorem castling_oh (p : Pos) (x : Int) :
    ListRel EqOh (generateCastlingMoves h { p with oh := x }) (generateCastlingMoves h p) := by
  unfold generateCastlingMoves
  simp only [canCastle_oh]
  have one : ∀ (c : Prop) [Decidable c] (ct : CastlingType),
      ListRel EqOh (if c then [castleSucc h { p with oh := x } ct] else []) (if c then [castleSucc h p ct] else []) := by
    intro c _ ct
    split
    · exact .cons (castleSucc_oh h p x ct) .nil
    · exact .nil
  exact ListRel.append (ListRel.append (ListRel.append (one _ _) (one _ _)) (one _ _)) (one _ _)

/-- the successor lists of two positions that differ only in the tag are pointwise equal up to the tag -/
theorem generateMoves_oh (p : Pos) (x : Int) (mode : Mode) :
    ListRel EqOh (generateMoves h { p with oh := x } mode) (generateMoves h p mode) := by
  unfold generateMoves
  apply ListRel.append
  · apply ListRel.flatMap
    intro pt _
    show ListRel EqOh (match p.board.get pt.row pt.col with
      | .full piece => if piece.color = p.toMove then generateMovesForPiece h piece { p with oh := x } pt mode else []
      | _ => []) _
    cases p.board.get pt.row pt.col with
    | empty => exact .nil
    | boundary => exact .nil
    | full piece =>
      dsimp only
      split
      · unfold generateMovesForPiece
        apply ListRel.append
        · have : (getMoves piece pt.row pt.col ({ p with oh := x } : Pos).board mode).flatMap (succsForTarget h piece { p with oh := x } pt) =
              (getMoves piece pt.row pt.col p.board mode).flatMap (succsForTarget h piece p pt) := by
            congr 1
            funext mov
            exact succsForTarget_oh h piece p x pt mov
          rw [this]
          exact ListRel.refl EqOh.refl _
        · exact epSuccs_oh h piece p x pt
      · exact .nil
  · split
    · exact castling_oh h p x
    · exact .nil

end Walleye

namespace Walleye
open Spec

variable (h : Hasher)

theorem gen_rel (p q : Pos) (hpq : EqOh p q) (mode : Mode) :
    ListRel EqOh (generateMoves h p mode) (generateMoves h q mode) := by
  rw [eqOh_eq p q hpq]
  exact generateMoves_oh h q p.oh mode

theorem maxNeg_rel (f : Pos → Int) (hf : ∀ a b, EqOh a b → f a = f b) (l l' : List Pos) (hl : ListRel EqOh l l')
    (acc : Int) : maxNeg f l acc = maxNeg f l' acc := by
  induction hl generalizing acc with
  | nil => rfl
  | cons hr _ ih => simp only [maxNeg, hf _ _ hr]; exact ih _

theorem eval_rel (p q : Pos) (hpq : EqOh p q) : getEvaluation p = getEvaluation q :=
  eval_ignores_other_fields p q hpq.1 hpq.2.1

theorem inCheck_rel (p q : Pos) (hpq : EqOh p q) : isCheck p p.toMove = isCheck q q.toMove := by
  rw [hpq.2.1]
  exact isCheck_congr p q q.toMove hpq.1 hpq.2.2.2.1 hpq.2.2.2.2.1

theorem qval_rel : ∀ (fuel : Nat) (p q : Pos), EqOh p q → qval (chessGame h) fuel p = qval (chessGame h) fuel q := by
  intro fuel
  induction fuel with
  | zero => intro p q hpq; simp only [qval]; exact eval_rel p q hpq
  | succ n ih =>
    intro p q hpq
    simp only [qval]
    show maxNeg (qval (chessGame h) n) (generateMoves h p .caps) (getEvaluation p) =
      maxNeg (qval (chessGame h) n) (generateMoves h q .caps) (getEvaluation q)
    rw [eval_rel p q hpq]
    exact maxNeg_rel _ (fun a b hab => ih a b hab) _ _ (gen_rel h p q hpq .caps) _

theorem negamax_rel : ∀ (fuel d ply : Nat) (t : DrawTable) (p q : Pos), EqOh p q →
    negamax (chessGame h) fuel d ply t p = negamax (chessGame h) fuel d ply t q := by
  intro fuel
  induction fuel with
  | zero => intro d ply t p q hpq; simp only [negamax]; exact eval_rel p q hpq
  | succ n ih =>
    intro d ply t p q hpq
    simp only [negamax]
    have hk : (chessGame h).key p = (chessGame h).key q := hpq.2.2.2.2.2.2.2.2.2.2.2
    have hc : (chessGame h).inCheck p = (chessGame h).inCheck q := inCheck_rel p q hpq
    rw [hk, hc, qval_rel h qFuel p q hpq]
    have hgen : ListRel EqOh ((chessGame h).gen p .all) ((chessGame h).gen q .all) := gen_rel h p q hpq .all
    generalize (chessGame h).gen p .all = lp at hgen ⊢
    generalize (chessGame h).gen q .all = lq at hgen ⊢
    cases hgen with
    | nil => rfl
    | cons hr hrest =>
      dsimp only
      have hf : ∀ a b, EqOh a b → negamax (chessGame h) n ((if d = 0 then 1 else d) - 1) (ply + 1)
          ((t.add ((chessGame h).key q)).getD t) a = negamax (chessGame h) n ((if d = 0 then 1 else d) - 1) (ply + 1)
          ((t.add ((chessGame h).key q)).getD t) b := fun a b hab => ih _ _ _ a b hab
      rw [hf _ _ hr, maxNeg_rel _ hf _ _ hrest]

/-- the chess instance meets the hypotheses of `ab_spec` with the evaluation bound of C14 -/
theorem chess_gameOK : GameOK (chessGame h) 70400 where
  evalB := fun p => by
    have := eval_bound p
    show -((70400 : Nat) : Int) ≤ getEvaluation p ∧ getEvaluation p ≤ ((70400 : Nat) : Int)
    omega
  ohV := fun fuel d ply t m x => negamax_rel h fuel d ply t _ _ (eqOh_withOh m x)

end Walleye
