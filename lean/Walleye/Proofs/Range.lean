/-
  The value-range invariant of the model's alpha-beta, for EVERY depth (null-move pruning,
  re-searches, check extension, clock expiry included): a call entered with a window that overlaps
  [-MATE, MATE] returns a value in [-MATE, MATE], or — only after some clock consultation has
  answered "out of time" — the abort sentinel ±POS_INF.  (C18, C07)
-/
import Walleye.Proofs.Adv
import Walleye.Proofs.AbSpec
namespace Walleye

variable {P O : Type}

def InR (v : Int) : Prop := -Gen.mateScore ≤ v ∧ v ≤ Gen.mateScore
def Ab (v : Int) : Prop := v = Gen.posInf ∨ v = -Gen.posInf
def Sz (s : SS P O) : Prop := s.cur.size = arrSize
/-- in range, or the sentinel in a state whose clock has expired -/
def V (v : Int) (s : SS P O) : Prop := InR v ∨ (Ab v ∧ s.expired = true)

theorem V_mono {v : Int} {s s' : SS P O} (h : V v s) (hl : Le s s') : V v s' := by
  rcases h with h | ⟨h1, h2⟩
  · exact Or.inl h
  · exact Or.inr ⟨h1, expired_mono hl h2⟩

theorem V_neg {v : Int} {s : SS P O} (h : V v s) : V (-v) s := by
  rcases h with h | ⟨h1, h2⟩
  · left; unfold InR at *; omega
  · right; refine ⟨?_, h2⟩; unfold Ab at *; omega

theorem V_inR {v : Int} {s : SS P O} (h : InR v) : V v s := Or.inl h

theorem Sz_mono {s s' : SS P O} (h : Sz s) (hl : Le s s') : Sz s' := by
  unfold Sz at *; rw [hl.1]; exact h

theorem Triple.trivial {σ α : Type} {Pre : σ → Prop} {m : M σ α} : Triple Pre m (fun _ _ => True) :=
  ⟨fun _ _ _ _ _ => True.intro⟩

variable (g : Game P) (ord : Oracle P O)

/-! ### quiescence: always in range (it never consults the clock) -/

theorem quiesceLoop_range (f : P → Int → Int → M (SS P O) Int)
    (hf : ∀ m a b, a ≤ Gen.mateScore → -Gen.mateScore ≤ b →
      Triple (fun _ => True) (f m a b) (fun v _ => InR v)) :
    ∀ (l : List P) (a b : Int), InR a → -Gen.mateScore ≤ b →
      Triple (fun _ => True) (quiesceLoop f l a b) (fun v _ => InR v) := by
  intro l
  induction l with
  | nil =>
    intro a b ha _
    unfold quiesceLoop
    exact Triple.pure (fun _ _ => ha)
  | cons m ms ih =>
    intro a b ha hb
    refine ⟨?_⟩
    intro s v s' _ he
    unfold quiesceLoop at he
    obtain ⟨r, s1, h1, he⟩ := bind_ok he
    have hr := (hf m (-b) (-a) (by unfold InR at ha; omega) (by unfold InR at ha; omega)).run s r s1 True.intro h1
    dsimp only at he
    by_cases hc : -r ≥ b
    · rw [if_pos hc] at he
      obtain ⟨hv, _⟩ := pure_ok he
      subst hv
      unfold InR at *; omega
    · rw [if_neg hc] at he
      exact (ih (if -r > a then -r else a) b (by unfold InR at *; split <;> omega) hb).run s1 v s' True.intro he

theorem quiesce_range (E : Nat) (hE : ∀ p, -(E : Int) ≤ g.eval p ∧ g.eval p ≤ E) (hEm : (E : Int) ≤ Gen.mateScore) :
    ∀ (fuel : Nat) (p : P) (a b : Int), a ≤ Gen.mateScore → -Gen.mateScore ≤ b →
      Triple (fun _ => True) (quiesce g ord fuel p a b) (fun v _ => InR v) := by
  intro fuel
  induction fuel with
  | zero =>
    intro p a b _ _
    refine ⟨?_⟩
    intro s v s' _ he
    unfold quiesce M.outOfFuel at he
    cases he
  | succ n ih =>
    intro p a b ha hb
    unfold quiesce
    apply Triple.bind (R := fun _ _ => True) Triple.trivial
    intro _
    have he := hE p
    by_cases hsp : g.eval p ≥ b
    · rw [if_pos hsp]
      exact Triple.pure (fun _ _ => by unfold InR; omega)
    · rw [if_neg hsp]
      apply Triple.bind (R := fun _ _ => True) Triple.trivial
      intro moves
      exact quiesceLoop_range (quiesce g ord n) (fun m a b h1 h2 => ih m a b h1 h2) moves _ b
        (by unfold InR; split <;> omega) hb

/-! ### alpha-beta -/

/-- what is assumed about the recursive call: any window that overlaps the range, any ply the
    per-ply arrays (plus one null-move jump) can reach -/
def ChildR (f : ABFun P O) : Prop :=
  ∀ m d ply1 lo hi n, lo ≤ Gen.mateScore → -Gen.mateScore ≤ hi →
    (n = true → ply1 ≤ arrSize) → ply1 ≤ arrSize + Gen.nullPlyJump →
    Triple Sz (f m d ply1 lo hi n) (fun v s' => V v s')

def ChildAdv (f : ABFun P O) : Prop := ∀ m d ply a b n, Adv (f m d ply a b n)

theorem insertCur_ok {ply : Nat} {m : Option Mv} {s s1 : SS P O} (h : insertCur ply m s = .ok () s1) :
    ply < s.cur.size := by
  unfold insertCur at h
  split at h
  · assumption
  · cases h

theorem abLoop_range (f : ABFun P O) (hadv : ChildAdv f) (hf : ChildR f) (d1 ply : Nat) (beta : Int)
    (hb : beta ≤ Gen.mateScore) :
    ∀ (ms : List P) (a best : Int), -Gen.mateScore ≤ a → a < beta → best < beta →
      Triple (fun s => Sz s ∧ V best s) (abLoop g f ms d1 ply a beta best) (fun v s' => V v s') := by
  intro ms
  induction ms with
  | nil =>
    intro a best _ _ _
    unfold abLoop
    exact Triple.pure (fun _ h => h.2)
  | cons m ms ih =>
    intro a best hla hab hbb
    refine ⟨?_⟩
    intro s v s' ⟨hsz, hbest⟩ he
    unfold abLoop at he
    obtain ⟨_, s1, h1, he⟩ := bind_ok he
    have hply : ply < arrSize := by have := insertCur_ok h1; unfold Sz at hsz; omega
    have l1 := (insertCur_adv ply _).run _ _ _ h1
    have hsz1 := Sz_mono hsz l1
    have hJ : (0 : Nat) ≤ Gen.nullPlyJump := Nat.zero_le _
    obtain ⟨r0, s2, h2, he⟩ := bind_ok he
    have v0 := (hf m d1 (ply + 1) (-a - 1) (-a) true (by omega) (by omega) (fun _ => by omega) (by omega)).run
      s1 r0 s2 hsz1 h2
    have l2 := (hadv m d1 (ply + 1) (-a - 1) (-a) true).run _ _ _ h2
    have hsz2 := Sz_mono hsz1 l2
    dsimp only at he
    have cutoff : ∀ (sc : Int) (sa : SS P O),
        (if g.oh m = 0 then (do insertKiller ply (g.lastMove m); pure sc) else (pure sc : M (SS P O) Int)) sa = .ok v s' →
        v = sc ∧ Le sa s' := by
      intro sc sa hc
      by_cases hoh : g.oh m = 0
      · rw [if_pos hoh] at hc
        obtain ⟨_, s4, h5, hc⟩ := bind_ok hc
        have l := (insertKiller_adv ply _).run _ _ _ h5
        obtain ⟨hv, hs'⟩ := pure_ok hc
        exact ⟨hv, by rw [hs']; exact l⟩
      · rw [if_neg hoh] at hc
        obtain ⟨hv, hs'⟩ := pure_ok hc
        exact ⟨hv, by rw [hs']; exact Le.refl _⟩
    by_cases hre : - r0 > a ∧ - r0 < beta
    · rw [if_pos hre] at he
      obtain ⟨r1, s3, h4, he⟩ := bind_ok he
      have v1 := (hf m d1 (ply + 1) (-beta) (-a) true (by omega) (by omega) (fun _ => by omega) (by omega)).run
        s2 r1 s3 hsz2 h4
      have l3 := (hadv m d1 (ply + 1) (-beta) (-a) true).run _ _ _ h4
      have hsz3 := Sz_mono hsz2 l3
      obtain ⟨pr, s3', h3, he⟩ := bind_ok he
      obtain ⟨hpr, hs3⟩ := pure_ok h3
      rw [hs3] at he
      simp only [hpr] at he
      by_cases hsc : - r1 > best
      · rw [if_pos hsc] at he
        by_cases hcut : - r1 ≥ beta
        · rw [if_pos hcut] at he
          obtain ⟨hv, l4⟩ := cutoff _ _ he
          subst hv
          exact V_mono (V_neg v1) l4
        · rw [if_neg hcut] at he
          obtain ⟨_, s4, h5, he⟩ := bind_ok he
          have l4 := (setPV_adv (P := P) (O := O)).run _ _ _ h5
          exact (ih (if - r1 > a then - r1 else a) (- r1) (by split <;> omega) (by split <;> omega) (by omega)).run
            s4 v s' ⟨Sz_mono hsz3 l4, V_mono (V_neg v1) l4⟩ he
      · rw [if_neg hsc] at he
        exact (ih (if - r1 > a then - r1 else a) best (by split <;> omega) (by split <;> omega) hbb).run
          s3 v s' ⟨hsz3, V_mono hbest (l1.trans (l2.trans l3))⟩ he
    · rw [if_neg hre] at he
      obtain ⟨pr, s3', h3, he⟩ := bind_ok he
      obtain ⟨hpr, hs3⟩ := pure_ok h3
      rw [hs3] at he
      simp only [hpr] at he
      by_cases hsc : - r0 > best
      · rw [if_pos hsc] at he
        by_cases hcut : - r0 ≥ beta
        · rw [if_pos hcut] at he
          obtain ⟨hv, l4⟩ := cutoff _ _ he
          subst hv
          exact V_mono (V_neg v0) l4
        · rw [if_neg hcut] at he
          obtain ⟨_, s4, h5, he⟩ := bind_ok he
          have l4 := (setPV_adv (P := P) (O := O)).run _ _ _ h5
          exact (ih a (- r0) hla hab (by omega)).run s4 v s' ⟨Sz_mono hsz2 l4, V_mono (V_neg v0) l4⟩ he
      · rw [if_neg hsc] at he
        exact (ih a best hla hab hbb).run s2 v s' ⟨hsz2, V_mono hbest (l1.trans l2)⟩ he

/-- the part of `abBody` after the null-move probe (the `do` elaborator copies it into both arms
    of the probe's `if`; this is that text once) -/
def abRest (f : ABFun P O) (p : P) (depth ply : Nat) (alpha beta : Int) : M (SS P O) Int := do
  let moves := g.gen p .all
  if moves.isEmpty then
    return (if g.inCheck p then -(Gen.mateScore - ply) else 0)
  let pvm ← getPV ply
  let ks ← getKillers ply
  let moves ← order ord 'A' (rankMoves g pvm ks moves)
  match moves with
  | [] => M.panic
  | m0 :: rest =>
    insertCur ply (g.lastMove m0)
    if g.oh m0 ≠ Gen.posInf then setPV
    let best := - (← f m0 (depth - 1) (ply + 1) (-beta) (-alpha) true)
    if best > alpha then
      if best ≥ beta then return best
      setPV
      abLoop g f rest (depth - 1) ply best beta best
    else
      abLoop g f rest (depth - 1) ply alpha beta best

theorem abRest_range (f : ABFun P O) (hadv : ChildAdv f) (hf : ChildR f) (p : P) (depth ply : Nat) (a' b' : Int)
    (k1 : -Gen.mateScore ≤ a') (k2 : a' < b') (k3 : b' ≤ Gen.mateScore)
    (hply : ply ≤ arrSize + Gen.nullPlyJump) :
    Triple Sz (abRest g ord f p depth ply a' b') (fun v s' => V v s') := by
  refine ⟨?_⟩
  intro s0 v s' hsz0 he
  unfold abRest at he
  have hM : Gen.mateScore = 100000 := rfl
  have hJ : Gen.nullPlyJump = 10 := rfl
  have hA : arrSize = 100 := rfl
  have k4 : a' ≤ Gen.mateScore := by omega
  dsimp only at he
  cases hgen : g.gen p .all with
  | nil =>
    rw [hgen] at he
    simp only [List.isEmpty_nil, if_true] at he
    obtain ⟨hv, _⟩ := pure_ok he
    subst hv
    apply V_inR; unfold InR; split <;> omega
  | cons g0 gs =>
    rw [hgen] at he
    simp only [List.isEmpty_cons, Bool.false_eq_true, if_false] at he
    obtain ⟨pvm, s1, h1, he⟩ := bind_ok he
    have l1 := (getPV_adv ply).run _ _ _ h1
    obtain ⟨ks, s2, h2, he⟩ := bind_ok he
    have l2 := (getKillers_adv ply).run _ _ _ h2
    obtain ⟨moves, s3, h3, he⟩ := bind_ok he
    have l3 := (order_adv ord 'A' _).run _ _ _ h3
    have hsz3 := Sz_mono (Sz_mono (Sz_mono hsz0 l1) l2) l3
    cases hm : moves with
    | nil =>
      rw [hm] at he
      dsimp only at he
      unfold M.panic at he
      cases he
    | cons m0 rest =>
      rw [hm] at he
      dsimp only at he
      obtain ⟨_, s4, h4, he⟩ := bind_ok he
      have hplt : ply < arrSize := by have := insertCur_ok h4; unfold Sz at hsz3; omega
      have l4 := (insertCur_adv ply _).run _ _ _ h4
      have hsz4 := Sz_mono hsz3 l4
      have core : ∀ s5 : SS P O, Sz s5 →
          (do
            let r ← f m0 (depth - 1) (ply + 1) (-b') (-a') true
            if -r > a' then
              if -r ≥ b' then pure (-r)
              else do
                setPV
                abLoop g f rest (depth - 1) ply (-r) b' (-r)
            else abLoop g f rest (depth - 1) ply a' b' (-r)) s5 = .ok v s' →
          V v s' := by
        intro s5 hsz5 he
        obtain ⟨r0, s6, h6, he⟩ := bind_ok he
        have v0 := (hf m0 _ (ply + 1) (-b') (-a') true (by omega) (by omega) (fun _ => by omega) (by omega)).run
          s5 r0 s6 hsz5 h6
        have l6 := (hadv m0 _ (ply + 1) (-b') (-a') true).run _ _ _ h6
        have hsz6 := Sz_mono hsz5 l6
        by_cases hbest : - r0 > a'
        · rw [if_pos hbest] at he
          by_cases hcut : - r0 ≥ b'
          · rw [if_pos hcut] at he
            obtain ⟨hv, hs'⟩ := pure_ok he
            subst hv; subst hs'
            exact V_neg v0
          · rw [if_neg hcut] at he
            obtain ⟨_, s7, h7, he⟩ := bind_ok he
            have l7 := (setPV_adv (P := P) (O := O)).run _ _ _ h7
            exact (abLoop_range g f hadv hf _ ply b' k3 rest (- r0) (- r0) (by omega) (by omega) (by omega)).run
              s7 v s' ⟨Sz_mono hsz6 l7, V_mono (V_neg v0) l7⟩ he
        · rw [if_neg hbest] at he
          exact (abLoop_range g f hadv hf _ ply b' k3 rest a' (- r0) k1 k2 (by omega)).run
            s6 v s' ⟨hsz6, V_neg v0⟩ he
      by_cases hoh : g.oh m0 ≠ Gen.posInf
      · rw [if_pos hoh] at he
        obtain ⟨_, s5, h5, he⟩ := bind_ok he
        have l5 := (setPV_adv (P := P) (O := O)).run _ _ _ h5
        exact core s5 (Sz_mono hsz4 l5) he
      · rw [if_neg hoh] at he
        exact core s4 hsz4 he

theorem abBody_range (E : Nat) (hE : ∀ p, -(E : Int) ≤ g.eval p ∧ g.eval p ≤ E) (hEm : (E : Int) ≤ Gen.mateScore)
    (f : ABFun P O) (hadv : ChildAdv f) (hf : ChildR f) (p : P) (depth ply : Nat) (a b : Int) (n : Bool)
    (ha : a ≤ Gen.mateScore) (hb : -Gen.mateScore ≤ b)
    (hply : ply ≤ arrSize + Gen.nullPlyJump) (hn : n = true → ply ≤ arrSize) :
    Triple Sz (abBody g ord f p depth ply a b n) (fun v s' => V v s') := by
  refine ⟨?_⟩
  intro s v s' hsz he
  unfold abBody at he
  have hM : Gen.mateScore = 100000 := rfl
  have hJ : Gen.nullPlyJump = 10 := rfl
  have hA : arrSize = 100 := rfl
  by_cases hq : depth = 0 ∧ ¬ g.inCheck p = true
  · rw [if_pos hq] at he
    exact V_inR ((quiesce_range g ord E hE hEm qFuel p a b ha hb).run s v s' True.intro he)
  · rw [if_neg hq] at he
    dsimp only at he
    by_cases hclamp : max a (-Gen.mateScore + ply) ≥ min b (Gen.mateScore - ply)
    · rw [if_pos hclamp] at he
      obtain ⟨hv, _⟩ := pure_ok he
      subst hv
      apply V_inR; unfold InR; omega
    · rw [if_neg hclamp] at he
      generalize ha' : max a (-Gen.mateScore + ply) = a' at he hclamp
      generalize hb' : min b (Gen.mateScore - ply) = b' at he hclamp
      have k1 : -Gen.mateScore ≤ a' := by omega
      have k2 : a' < b' := by omega
      have k3 : b' ≤ Gen.mateScore := by omega
      -- after the probe: pruned, or the rest of the node
      have fin : ∀ (pr : Bool) (sX : SS P O), Sz sX →
          (if pr = true then (pure b' : M (SS P O) Int)
           else abRest g ord f p (if depth = 0 then 1 else depth) ply a' b') sX = .ok v s' → V v s' := by
        intro pr sX hszX hx
        by_cases hpr : pr = true
        · rw [if_pos hpr] at hx
          obtain ⟨hv, _⟩ := pure_ok hx
          subst hv
          apply V_inR; unfold InR; omega
        · rw [if_neg hpr] at hx
          exact (abRest_range g ord f hadv hf p _ ply a' b' k1 k2 k3 hply).run sX v s' hszX hx
      by_cases hnull : n = true ∧ (if depth = 0 then 1 else depth) ≥ Gen.nullMinDepth ∧ ¬ g.inCheck p = true
      · rw [if_pos hnull] at he
        obtain ⟨r, sN, hN, he⟩ := bind_ok he
        have lN := (hadv _ _ _ _ _ _).run _ _ _ hN
        obtain ⟨pr, s0, h0, he⟩ := bind_ok he
        obtain ⟨hpr, hs0⟩ := pure_ok h0
        rw [hs0] at he
        exact fin pr sN (Sz_mono hsz lN) he
      · rw [if_neg hnull] at he
        obtain ⟨pr, s0, h0, he⟩ := bind_ok he
        obtain ⟨hpr, hs0⟩ := pure_ok h0
        rw [hs0] at he
        exact fin pr s hsz he

/-- **value range** — every call of the model's alpha-beta, at every depth, returns a value in
    [-MATE, MATE] or, only in a state whose clock has expired, the sentinel ±POS_INF -/
theorem alphaBeta_range (E : Nat) (hE : ∀ p, -(E : Int) ≤ g.eval p ∧ g.eval p ≤ E) (hEm : (E : Int) ≤ Gen.mateScore) :
    ∀ fuel : Nat, ChildR (alphaBeta g ord fuel) := by
  intro fuel
  induction fuel with
  | zero =>
    intro m d ply lo hi n _ _ _ _
    refine ⟨?_⟩
    intro s v s' _ he
    unfold alphaBeta M.outOfFuel at he
    cases he
  | succ k ih =>
    intro m d ply lo hi n h1 h2 h3 h4
    refine ⟨?_⟩
    intro s v s' hsz he
    unfold alphaBeta at he
    obtain ⟨tk, s1, ht, he⟩ := bind_ok he
    have lt := (tick_adv (P := P) (O := O)).run _ _ _ ht
    by_cases htk : tk = true
    · rw [if_pos htk] at he
      obtain ⟨hv, hs'⟩ := pure_ok he
      subst hv; subst hs'
      right
      refine ⟨Or.inr rfl, ?_⟩
      obtain ⟨e1, e2⟩ := tick_eq ht
      subst e1
      rw [htk] at e2
      unfold SS.expired
      cases hx : s.expiry with
      | none => rw [hx] at e2; cases e2
      | some x =>
        rw [hx] at e2
        simp only [decide_eq_true_eq]
        have : x ≤ s.queries := by simpa using e2.symm
        omega
    · rw [if_neg htk] at he
      obtain ⟨_, s2, hn2, he⟩ := bind_ok he
      have l2 := (nodeSearched_adv (P := P) (O := O)).run _ _ _ hn2
      obtain ⟨sg, s3, hg3, he⟩ := bind_ok he
      have l3 := (get_adv (P := P) (O := O)).run _ _ _ hg3
      by_cases h3f : sg.table.isThreefold (g.key m) = true
      · rw [if_pos h3f] at he
        obtain ⟨hv, _⟩ := pure_ok he
        subst hv
        apply V_inR; unfold InR; simp only [Gen.mateScore]; omega
      · rw [if_neg h3f] at he
        obtain ⟨_, s4, h4a, he⟩ := bind_ok he
        have l4 := (tableAdd_adv (P := P) (O := O) _).run _ _ _ h4a
        obtain ⟨r, s5, h5, he⟩ := bind_ok he
        have hsz4 := Sz_mono (Sz_mono (Sz_mono (Sz_mono hsz lt) l2) l3) l4
        have vr := (abBody_range g ord E hE hEm (alphaBeta g ord k) (alphaBeta_adv g ord k) ih m d ply lo hi n
          h1 h2 h4 h3).run s4 r s5 hsz4 h5
        obtain ⟨_, s6, h6, he⟩ := bind_ok he
        have l6 := (tableRemove_adv (P := P) (O := O) _).run _ _ _ h6
        obtain ⟨hv, hs'⟩ := pure_ok he
        subst hv; subst hs'
        exact V_mono vr l6

end Walleye
