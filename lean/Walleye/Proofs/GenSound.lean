/-
  C01 (soundness) and C02 for the whole generator: every successor `generate_moves` returns carries a
  LEGAL move of the specification and is the specification's position after that move.
-/
import Walleye.Proofs.CastleSound
namespace Walleye

variable (h : Hasher)

theorem mem_castling' (p s : Pos) (hs : s ∈ generateCastlingMoves h p) :
    (s = castleSucc h p .wks ∧ p.toMove = .white ∧ canCastle p .wks = true) ∨
    (s = castleSucc h p .wqs ∧ p.toMove = .white ∧ canCastle p .wqs = true) ∨
    (s = castleSucc h p .bks ∧ p.toMove = .black ∧ canCastle p .bks = true) ∨
    (s = castleSucc h p .bqs ∧ p.toMove = .black ∧ canCastle p .bqs = true) := by
  unfold generateCastlingMoves at hs
  simp only [List.mem_append] at hs
  rcases hs with ((h1 | h1) | h1) | h1 <;> split at h1
  · rename_i hc; simp only [List.mem_singleton] at h1; exact Or.inl ⟨h1, hc.1, hc.2⟩
  · cases h1
  · rename_i hc; simp only [List.mem_singleton] at h1; exact Or.inr (Or.inl ⟨h1, hc.1, hc.2⟩)
  · cases h1
  · rename_i hc; simp only [List.mem_singleton] at h1; exact Or.inr (Or.inr (Or.inl ⟨h1, hc.1, hc.2⟩))
  · cases h1
  · rename_i hc; simp only [List.mem_singleton] at h1; exact Or.inr (Or.inr (Or.inr ⟨h1, hc.1, hc.2⟩))
  · cases h1

/-- **C01 soundness + C02 on the model**: for every well-formed position, every successor of the
    full move generation carries a move that is legal under the specification's rules, and its
    placement, side to move, castling rights and en passant target are exactly those of the
    specification's `apply` of that move -/
theorem generateMoves_sound (p : Pos) (wf : WFp p) :
    ∀ q ∈ generateMoves h p .all,
      Spec.legal (abs p) (moveOf q) = true ∧ abs q = Spec.apply (abs p) (moveOf q) := by
  intro q hq
  unfold generateMoves at hq
  rcases List.mem_append.mp hq with h1 | h1
  · obtain ⟨pt, hpt, hin⟩ := List.mem_flatMap.mp h1
    have hon : OnBoard pt := (mem_boardCoords pt).mp hpt
    have ho := specOf_inB pt hon
    have hto := toPt_specOf pt hon
    cases hsq : p.board.get pt.row pt.col with
    | empty => rw [hsq] at hin; cases hin
    | boundary => rw [hsq] at hin; cases hin
    | full piece =>
      rw [hsq] at hin
      simp only at hin
      split at hin
      · rename_i hcol
        unfold generateMovesForPiece at hin
        have hpc : p.board.get (toPt (specOf pt)).row (toPt (specOf pt)).col = .full piece := by rw [hto]; exact hsq
        rcases List.mem_append.mp hin with h2 | h2
        · obtain ⟨mov, hmov, hqm⟩ := List.mem_flatMap.mp h2
          rw [← hto] at hmov hqm
          obtain ⟨_, _, hl, ha⟩ := succsForTarget_sound h p wf (specOf pt) ho piece hpc hcol mov hmov q hqm
          exact ⟨hl, ha⟩
        · rw [← hto] at h2
          obtain ⟨_, _, hl, ha⟩ := epSuccs_sound h p wf (specOf pt) ho piece hpc hcol q h2
          exact ⟨hl, ha⟩
      · cases hin
  · simp only [if_true] at h1
    rcases mem_castling' h p q h1 with ⟨rfl, hs, hc⟩ | ⟨rfl, hs, hc⟩ | ⟨rfl, hs, hc⟩ | ⟨rfl, hs, hc⟩
    · obtain ⟨hm, hl, ha⟩ := castle_wks_sound h p wf hs hc; rw [hm]; exact ⟨hl, ha⟩
    · obtain ⟨hm, hl, ha⟩ := castle_wqs_sound h p wf hs hc; rw [hm]; exact ⟨hl, ha⟩
    · obtain ⟨hm, hl, ha⟩ := castle_bks_sound h p wf hs hc; rw [hm]; exact ⟨hl, ha⟩
    · obtain ⟨hm, hl, ha⟩ := castle_bqs_sound h p wf hs hc; rw [hm]; exact ⟨hl, ha⟩

end Walleye
