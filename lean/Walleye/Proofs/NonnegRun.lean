/-
  C10, second sentence, for a WHOLE RUN of `get_best_move` (every game, every clock expiry, every
  ordering oracle that permutes, at every point of the run and whatever its outcome): if some root
  move leads to a position the repetition record already holds twice, then for every depth d ≥ 1 for
  which the run went on to report a line of a larger depth — a completed depth — there is a line of
  depth d with a score ≥ 0; lines of one depth carry strictly increasing scores (Proofs/Stream), so
  the LAST line of every completed depth, the engine's final score for it, is ≥ 0.
-/
import Walleye.Proofs.Stream
import Walleye.Proofs.RootNonneg
import Walleye.Proofs.PrefixSearch
namespace Walleye
open DrawTable

variable {P O : Type}

/-- some line of depth `d` carries a score ≥ 0 -/
def Fin (d : Nat) (l : List Info) : Prop := ∃ j ∈ l, j.depth = d ∧ 0 ≤ j.eval

theorem Fin.mono {d : Nat} {l l' : List Info} (h : Fin d l) (hs : ∀ x ∈ l, x ∈ l') : Fin d l' := by
  obtain ⟨j, hj, h1, h2⟩ := h; exact ⟨j, hs j hj, h1, h2⟩

/-- every depth ≥ 1 that is followed by a line of a larger depth has a line with a score ≥ 0 -/
def G (l : List Info) : Prop := ∀ d, 1 ≤ d → (∃ i ∈ l, d < i.depth) → Fin d l

/-- the invariant during iteration `c` -/
structure GK (c : Nat) (s : SS P O) : Prop where
  g : G (infosOf s.reports)
  p : s.expired = false → ∀ d, 1 ≤ d → d < c → Fin d (infosOf s.reports)
  le : ∀ i ∈ infosOf s.reports, i.depth ≤ c

theorem GK.of_eq {c : Nat} {s s' : SS P O} (h : s'.reports = s.reports) (hl : Le s s') (hk : GK c s) : GK c s' := by
  refine ⟨by rw [h]; exact hk.g, ?_, by rw [h]; exact hk.le⟩
  intro hx
  rw [h]
  exact hk.p (not_expired_back hl hx)

theorem GK.of_eq' {c : Nat} {s s' : SS P O} (h : s'.reports = s.reports) (hx : s'.expired = false → s.expired = false)
    (hk : GK c s) : GK c s' := by
  refine ⟨by rw [h]; exact hk.g, ?_, by rw [h]; exact hk.le⟩
  intro hx'
  rw [h]
  exact hk.p (hx hx')

theorem GK.sent {c : Nat} {s s' : SS P O} (q : P) (h : s'.reports = s.reports.push (.sent q)) (hl : Le s s')
    (hk : GK c s) : GK c s' := by
  have e : infosOf s'.reports = infosOf s.reports := by rw [h, infosOf_push_sent]
  refine ⟨by rw [e]; exact hk.g, ?_, by rw [e]; exact hk.le⟩
  intro hx; rw [e]; exact hk.p (not_expired_back hl hx)

/-- an acceptance in iteration `c`, made in a state whose clock has not expired -/
theorem GK.info {c : Nat} {s s' : SS P O} (i : Info) (h : s'.reports = s.reports.push (.info i)) (hd : i.depth = c)
    (hnx : s.expired = false) (hk : GK c s) : GK c s' := by
  have e : infosOf s'.reports = infosOf s.reports ++ [i] := by rw [h, infosOf_push_info]
  have sub : ∀ x ∈ infosOf s.reports, x ∈ infosOf s'.reports := by intro x hx; rw [e]; simp [hx]
  refine ⟨?_, ?_, ?_⟩
  · intro d hd1 hlater
    obtain ⟨i', hi', hlt⟩ := hlater
    rw [e] at hi'
    rcases List.mem_append.mp hi' with hi' | hi'
    · exact (hk.g d hd1 ⟨i', hi', hlt⟩).mono sub
    · simp only [List.mem_singleton] at hi'
      subst hi'
      exact (hk.p hnx d hd1 (by omega)).mono sub
  · intro _ d hd1 hdc
    exact (hk.p hnx d hd1 hdc).mono sub
  · intro x hx
    rw [e] at hx
    rcases List.mem_append.mp hx with hx | hx
    · exact hk.le x hx
    · simp only [List.mem_singleton] at hx; subst hx; omega

variable (g : Game P) (ord : Oracle P O)

/-- once the clock has said "out of time" it stays so through an alpha-beta call, whatever its outcome -/
theorem alphaBeta_expired_sticky (fuel : Nat) (p : P) (d ply : Nat) (a b : Int) (n : Bool) (s : SS P O)
    (he : s.expired = true) : (alphaBeta g ord fuel p d ply a b n s).st.expired = true :=
  ((alphaBeta_lk g ord (k := 0) (e2 := none) trivial fuel p d ply a b n).quiet s he).2

theorem rootLoop_GK (fuel c : Nat) (first : P) :
    ∀ (l : List P) (alpha : Int) (best : Option P) (s : SS P O), GK c s →
      GK c (outState (rootLoop g ord fuel c first l alpha best s)) := by
  intro l
  induction l with
  | nil => intro alpha best s hk; unfold rootLoop; exact hk
  | cons m ms ih =>
    intro alpha best s hk
    unfold rootLoop
    obtain ⟨tk, s1, ht, hr1, l1, _⟩ := tick_run s
    rw [outState_bind_ok ht]
    have hk1 : GK c s1 := hk.of_eq hr1 l1
    by_cases htk : tk = true
    · rw [if_pos htk]
      cases best with
      | none =>
        simp only [Option.isNone_none, if_true]
        obtain ⟨s2, h2, hr2, l2⟩ := report_run (.sent first) s1
        rw [outState_bind_ok h2]
        exact hk1.sent first hr2 l2
      | some b =>
        simp only [Option.isNone_some, Bool.false_eq_true, if_false]
        exact hk1
    · rw [if_neg htk]
      have hsil := alphaBeta_silent g ord fuel m (c - 1) 1 (-Gen.posInf) (-alpha) true s1
      cases hab : alphaBeta g ord fuel m (c - 1) 1 (-Gen.posInf) (-alpha) true s1 with
      | panic s2 =>
        rw [outState_bind_panic hab]; rw [hab] at hsil
        -- (no clock fact is needed for the final state of a panicking run: `p` is only used to go on)
        exact ⟨by rw [show s2.reports = s1.reports from hsil]; exact hk1.g,
          fun hx => by
            rw [show s2.reports = s1.reports from hsil]
            exact hk1.p (by
              cases he : s1.expired with
              | false => rfl
              | true =>
                -- expiry is sticky also on the way to a panic
                have := alphaBeta_expired_sticky g ord fuel m (c - 1) 1 (-Gen.posInf) (-alpha) true s1 he
                rw [hab] at this
                change s2.expired = true at this
                rw [this] at hx; cases hx),
          by rw [show s2.reports = s1.reports from hsil]; exact hk1.le⟩
      | fuel s2 =>
        rw [outState_bind_fuel hab]; rw [hab] at hsil
        exact ⟨by rw [show s2.reports = s1.reports from hsil]; exact hk1.g,
          fun hx => by
            rw [show s2.reports = s1.reports from hsil]
            exact hk1.p (by
              cases he : s1.expired with
              | false => rfl
              | true =>
                have := alphaBeta_expired_sticky g ord fuel m (c - 1) 1 (-Gen.posInf) (-alpha) true s1 he
                rw [hab] at this
                change s2.expired = true at this
                rw [this] at hx; cases hx),
          by rw [show s2.reports = s1.reports from hsil]; exact hk1.le⟩
      | ok r s2 =>
        rw [outState_bind_ok hab]
        rw [hab] at hsil
        have l2 := (alphaBeta_adv g ord fuel m (c - 1) 1 (-Gen.posInf) (-alpha) true).run _ _ _ hab
        have hk2 : GK c s2 := hk1.of_eq hsil l2
        dsimp only
        cases hic : insertCur 0 (g.lastMove m) s2 with
        | fuel s3 => unfold insertCur at hic; split at hic <;> cases hic
        | panic s3 =>
          rw [outState_bind_panic hic]
          unfold insertCur at hic; split at hic
          · cases hic
          · cases hic; exact hk2
        | ok u s3 =>
          rw [outState_bind_ok hic]
          have l3 := (insertCur_adv 0 _).run _ _ _ hic
          have hr3 : s3.reports = s2.reports := by
            have := insertCur_silent (P := P) (O := O) 0 (g.lastMove m) s2
            rw [hic] at this; exact this
          have hk3 : GK c s3 := hk2.of_eq hr3 l3
          have hpure : ∀ (x : Bool) (sx : SS P O), (pure x : M (SS P O) Bool) sx = .ok x sx := fun _ _ => rfl
          by_cases hgt : - r > alpha
          · rw [if_pos hgt]
            obtain ⟨tk2, s4, ht2, hr4, l4, hnx4⟩ := tick_run s3
            rw [outState_bind_ok ht2, outState_bind_ok (hpure _ _)]
            have hk4 : GK c s4 := hk3.of_eq hr4 l4
            cases tk2 with
            | true =>
              simp only [Bool.not_true, Bool.false_eq_true, if_false]
              exact ih alpha best _ hk4
            | false =>
              simp only [Bool.not_false, if_true]
              have hnx : s4.expired = false := hnx4 rfl
              have h5 : report (Report.sent m) s4 = .ok () { s4 with reports := s4.reports.push (.sent m) } := rfl
              rw [outState_bind_ok h5]
              have h6 : setPV ({ s4 with reports := s4.reports.push (.sent m) } : SS P O) =
                  .ok () { s4 with reports := s4.reports.push (.sent m), pv := s4.cur } := rfl
              rw [outState_bind_ok h6]
              have h7 : sendInfo c (- r) ({ s4 with reports := s4.reports.push (.sent m), pv := s4.cur } : SS P O) =
                  .ok () { s4 with pv := s4.cur, reports := (s4.reports.push (.sent m)).push (.info ⟨pvPrefix s4.cur, c, s4.nodes, - r⟩) } := rfl
              rw [outState_bind_ok h7]
              apply ih (- r) (some m)
              have hks : GK c ({ s4 with reports := s4.reports.push (.sent m) } : SS P O) :=
                hk4.sent m rfl ⟨rfl, rfl, Nat.le_refl _⟩
              exact GK.info (s := ({ s4 with reports := s4.reports.push (.sent m) } : SS P O))
                ⟨pvPrefix s4.cur, c, s4.nodes, - r⟩ rfl rfl hnx hks
          · rw [if_neg hgt]
            rw [outState_bind_ok (hpure _ _)]
            simp only [Bool.false_eq_true, if_false]
            exact ih alpha best _ hk3

/-- re-tagging the previous best move keeps every move of the list, possibly with the PV tag -/
theorem markPV_has (best : Option P) (l : List P) :
    ∀ x ∈ l, x ∈ markPV g best l ∨ g.withOh x Gen.posInf ∈ markPV g best l := by
  induction l with
  | nil => intro x hx; cases hx
  | cons y ys ih =>
    intro x hx
    unfold markPV
    cases best with
    | none => left; exact hx
    | some b =>
      simp only
      by_cases hc : g.lastMove y = g.lastMove b
      · rw [if_pos hc]
        rcases List.mem_cons.mp hx with rfl | hx
        · right; simp
        · left; simp [hx]
      · rw [if_neg hc]
        rcases List.mem_cons.mp hx with rfl | hx
        · left; simp
        · rcases ih x hx with h | h
          · left; simp [h]
          · right; simp [h]

theorem iterate_G (hperm : OrdPerm ord) (hkey : ∀ x v, g.key (g.withOh x v) = g.key x) (fuel : Nat) (root : P)
    (t : DrawTable) (m : P) (hm : m ∈ g.gen root .all) (hrep : t.isThreefold (g.key m) = true) :
    ∀ (n c : Nat) (moves : List P) (best : Option P) (s : SS P O), 1 ≤ c →
      (∃ x ∈ moves, t.isThreefold (g.key x) = true) → TableEq s.table t → GK c s →
      G (infosOf (outState (iterate g ord (fuel + 1) root n c moves best s)).reports) := by
  intro n
  have hnext : ∀ best', ∃ x ∈ markPV g best' (g.gen root .all), t.isThreefold (g.key x) = true := by
    intro best'
    rcases markPV_has g best' _ m hm with h | h
    · exact ⟨m, h, hrep⟩
    · exact ⟨_, h, by rw [hkey]; exact hrep⟩
  induction n with
  | zero => intro c mv b s _ _ _ hk; unfold iterate; exact hk.g
  | succ k ih =>
    intro c mv b s hc hmv hte hk
    unfold iterate
    by_cases hcm : c ≥ Gen.maxDepth
    · rw [if_pos hcm]; exact hk.g
    · rw [if_neg hcm]
      have hm0 : M.modify (fun s : SS P O => { s with nodes := 0, cur := Array.replicate arrSize none }) s =
          .ok () ((fun s : SS P O => { s with nodes := 0, cur := Array.replicate arrSize none }) s) := rfl
      rw [outState_bind_ok hm0]
      have ho : order ord 'R' mv ((fun s : SS P O => { s with nodes := 0, cur := Array.replicate arrSize none }) s) =
          .ok (ord s.ord s.expired 'R' mv).1
            { ((fun s : SS P O => { s with nodes := 0, cur := Array.replicate arrSize none }) s) with ord := (ord s.ord s.expired 'R' mv).2 } := rfl
      rw [outState_bind_ok ho]
      -- the ordered list still contains a repeating move
      have hl : ∃ x ∈ (ord s.ord s.expired 'R' mv).1, t.isThreefold (g.key x) = true := by
        obtain ⟨x, hx, h3⟩ := hmv
        exact ⟨x, (hperm _ _ _ _).mem_iff.mpr hx, h3⟩
      generalize hs2 : ({ ((fun s : SS P O => { s with nodes := 0, cur := Array.replicate arrSize none }) s) with ord := (ord s.ord s.expired 'R' mv).2 } : SS P O) = s2
      have hr2 : s2.reports = s.reports := by rw [← hs2]
      have hx2 : s2.expired = s.expired := by rw [← hs2]; rfl
      have hte2 : TableEq s2.table t := by rw [← hs2]; exact hte
      have hk2 : GK c s2 := hk.of_eq' hr2 (fun h => by rw [← hx2]; exact h)
      cases hlst : (ord s.ord s.expired 'R' mv).1 with
      | nil =>
        dsimp only
        rw [hlst] at hl
        obtain ⟨x, hx, _⟩ := hl
        cases hx
      | cons first rest =>
        dsimp only
        rw [hlst] at hl
        -- the fall-back board of the first iteration
        obtain ⟨s3, hfb, hk3, hte3⟩ : ∃ s3, sendFallback c first s2 = .ok () s3 ∧ GK c s3 ∧ TableEq s3.table t := by
          unfold sendFallback
          by_cases hc1 : c = 1
          · rw [if_pos hc1]
            obtain ⟨s', h', hr', l'⟩ := report_run (.sent first) s2
            refine ⟨s', h', hk2.sent first hr' l', ?_⟩
            have : s'.table = s2.table := by
              unfold report M.modify at h'; injection h' with _ h'; rw [← h']
            rw [this]; exact hte2
          · rw [if_neg hc1]
            exact ⟨s2, rfl, hk2, hte2⟩
        rw [outState_bind_ok hfb]
        have hrl := rootLoop_GK g ord (fuel + 1) c first (first :: rest) (-Gen.posInf) b s3 hk3
        cases hr : rootLoop g ord (fuel + 1) c first (first :: rest) (-Gen.posInf) b s3 with
        | panic s4 => rw [outState_bind_panic hr]; rw [hr] at hrl; exact hrl.g
        | fuel s4 => rw [outState_bind_fuel hr]; rw [hr] at hrl; exact hrl.g
        | ok res s4 =>
          rw [outState_bind_ok hr]
          rw [hr] at hrl
          have hk4 : GK c s4 := hrl
          cases res with
          | none => exact hk4.g
          | some ab =>
            obtain ⟨A, B⟩ := ab
            have hte4 : TableEq s4.table t :=
              ((rootLoop_pres g ord (fuel + 1) c first (first :: rest) (-Gen.posInf) b).triple t).run s3 _ s4 hte3 hr
            apply ih (c + 1) _ B s4 (by omega) (hnext B) hte4
            refine ⟨hk4.g, ?_, fun i hi => by have := hk4.le i hi; omega⟩
            intro hnx d hd1 hdc
            by_cases hdc' : d < c
            · exact hk4.p hnx d hd1 hdc'
            · have hdeq : d = c := by omega
              subst hdeq
              -- iteration `d` ran to its end before the clock expired: its final alpha is ≥ 0 and is
              -- the score of the last line it printed
              have hA := (rootLoop_nonneg g ord fuel d first t (first :: rest) (-Gen.posInf) b s3 s4 A B hte3 hr hnx).2 hl
              obtain ⟨new, hnew, hdep, hlast⟩ := rootLoop_last_info g ord (fuel + 1) d first (first :: rest) (-Gen.posInf) b s3 s4 A B hr
              rcases hlast with ⟨_, hAe⟩ | hlast
              · have : (Gen.posInf : Int) = 9999999 := rfl
                omega
              · cases hlq : (infos new).getLast? with
                | none => rw [hlq] at hlast; cases hlast
                | some j =>
                  rw [hlq] at hlast
                  simp only [Option.map_some, Option.some.injEq] at hlast
                  have hjn : j ∈ infos new := List.mem_of_getLast? hlq
                  refine ⟨j, ?_, hdep j hjn, by omega⟩
                  -- the lines of `new` are lines of the final report list
                  have : infosOf s4.reports = infosOf s3.reports ++ infos new := by
                    unfold infosOf infos
                    rw [hnew, List.filterMap_append]
                    rfl
                  rw [this]
                  exact List.mem_append.mpr (Or.inr hjn)

/-- **C10 for a whole run** -/
theorem getBestMove_G (hperm : OrdPerm ord) (hkey : ∀ x v, g.key (g.withOh x v) = g.key x) (fuel : Nat) (root : P)
    (t : DrawTable) (s : SS P O) (hs : s.reports = #[]) (hte : TableEq s.table t)
    (m : P) (hm : m ∈ g.gen root .all) (hrep : t.isThreefold (g.key m) = true) :
    G (infosOf (outState (getBestMove g ord (fuel + 1) root s)).reports) := by
  unfold getBestMove
  have h0 : infosOf s.reports = [] := by unfold infosOf; rw [hs]; rfl
  exact iterate_G g ord hperm hkey fuel root t m hm hrep Gen.maxDepth 1 (g.gen root .all) none s (Nat.le_refl _)
    ⟨m, hm, hrep⟩ hte
    ⟨(by rw [h0]; intro d _ ⟨i, hi, _⟩; cases hi), (by intro _ d h1 h2; omega), (by rw [h0]; intro i hi; cases hi)⟩

end Walleye
