/-
  `fast_spec`: the plain fail-soft alpha-beta evaluator `Spec.fast` (the executable oracle of the
  C12 / C10 / C11 checks) returns, for every game, every move ordering that is a permutation, every
  window α < β, a value related to `Spec.negamax` by `Bnd`; in particular it IS the minimax value
  whenever that value lies inside the window.
-/
import Walleye.Proofs.MinimaxBase
namespace Walleye
open Spec

variable {P : Type}

theorem Bnd.refl (v a b : Int) : Bnd v a b v := ⟨fun _ => Int.le_refl _, fun _ => Int.le_refl _, fun _ _ => rfl⟩

theorem maxNeg_max (f : P → Int) (l : List P) (a b : Int) :
    maxNeg f l (max a b) = max (maxNeg f l a) (maxNeg f l b) := by
  induction l generalizing a b with
  | nil => simp [maxNeg]
  | cons m ms ih =>
    simp only [maxNeg]
    rw [← ih]
    congr 1
    omega

/-- the fail-soft loop: `M` is the true maximum over what has been searched so far, `a0` the
    entry alpha -/
theorem fastLoop_spec (f : P → Int → Int → Int) (val : P → Int)
    (hf : ∀ m lo hi, lo < hi → Bnd (val m) lo hi (f m lo hi))
    (beta a0 : Int) (ms : List P) (a best M : Int)
    (hab : a < beta) (ha0 : a0 ≤ a) (hM : M ≤ best) (hba : best ≤ a)
    (hex : a0 < best → best = M ∧ a = best) (hlo : best ≤ a0 → a = a0) :
    Bnd (maxNeg val ms M) a0 beta (fastLoop f beta ms a best) := by
  induction ms generalizing a best M with
  | nil =>
    simp only [fastLoop, maxNeg]
    exact ⟨fun _ => hM, fun h => by omega, fun h1 _ => (hex h1).1⟩
  | cons m ms ih =>
    simp only [fastLoop, maxNeg]
    obtain ⟨b1, b2, b3⟩ := hf m (-beta) (-a) (by omega)
    -- s := - f m (-beta) (-a);  true score of the move: - val m
    by_cases hcut : - f m (-beta) (-a) ≥ beta
    · simp only [hcut, if_true]
      have hs : - f m (-beta) (-a) ≤ - val m := by have := b1 (by omega); omega
      have hmx : max best (- f m (-beta) (-a)) = - f m (-beta) (-a) := by omega
      rw [hmx]
      refine ⟨fun h => by omega, fun _ => ?_, fun _ h => by omega⟩
      exact Int.le_trans (Int.le_trans hs (Int.le_max_right _ _)) (maxNeg_ge val ms _)
    · simp only [hcut, if_false]
      by_cases hlow : - f m (-beta) (-a) ≤ a
      · -- fail low: an upper bound of the move's score
        have hub : - val m ≤ - f m (-beta) (-a) := by have := b2 (by omega); omega
        have ha' : max a (- f m (-beta) (-a)) = a := by omega
        rw [ha']
        apply ih
        · exact hab
        · exact ha0
        · omega
        · omega
        · intro h
          by_cases hb : a0 < best
          · obtain ⟨e1, e2⟩ := hex hb
            refine ⟨?_, ?_⟩ <;> omega
          · have := hlo (by omega); omega
        · intro h; exact hlo (by omega)
      · -- inside the window: exact
        have hexact : - f m (-beta) (-a) = - val m := by have := b3 (by omega) (by omega); omega
        have ha' : max a (- f m (-beta) (-a)) = - f m (-beta) (-a) := by omega
        have hb' : max best (- f m (-beta) (-a)) = - f m (-beta) (-a) := by omega
        rw [ha', hb']
        apply ih
        · omega
        · omega
        · omega
        · omega
        · intro _; refine ⟨?_, rfl⟩; omega
        · intro h; omega

variable (g : Game P) (order : List P → List P)

theorem qfast_spec (hord : ∀ l, (order l).Perm l) :
    ∀ (fuel : Nat) (p : P) (a b : Int), a < b → Bnd (qval g fuel p) a b (qfast g order fuel p a b) := by
  intro fuel
  induction fuel with
  | zero => intro p a b _; simp only [qval, qfast]; exact Bnd.refl _ _ _
  | succ n ih =>
    intro p a b hab
    simp only [qval, qfast]
    by_cases hsp : g.eval p ≥ b
    · simp only [hsp, if_true]
      exact ⟨fun h => by omega, fun _ => maxNeg_ge _ _ _, fun _ h => by omega⟩
    · simp only [hsp, if_false]
      rw [← maxNeg_perm (qval g n) _ _ (hord (g.gen p .caps))]
      apply fastLoop_spec (qfast g order n) (qval g n) (fun m lo hi h => ih m lo hi h)
      · omega
      · omega
      · omega
      · omega
      · intro h; refine ⟨rfl, ?_⟩; omega
      · intro h; omega

theorem maxNeg_absorb (f : P → Int) (l : List P) (x : Int) (m : P) (hm : m ∈ l) :
    maxNeg f l (max x (- f m)) = maxNeg f l x := by
  rw [maxNeg_max]
  have h1 : maxNeg f l (- f m) ≤ maxNeg f l x ∨ maxNeg f l x ≤ maxNeg f l (- f m) := by omega
  have h2 := maxNeg_mem f l x m hm
  -- maxNeg f l (-f m) = max(-f m, sup) and sup ≥ -f m, so it equals sup ≤ maxNeg f l x
  have h3 : maxNeg f l (- f m) ≤ maxNeg f l x := by
    induction l generalizing x with
    | nil => cases hm
    | cons y ys ih =>
      simp only [maxNeg]
      cases List.mem_cons.mp hm with
      | inl e =>
        subst e
        have : max (- f m) (- f m) = - f m := by omega
        rw [this]
        exact maxNeg_mono f ys _ _ (by omega)
      | inr e =>
        have h2' := maxNeg_mem f ys (max x (- f y)) m e
        have := ih (max x (- f y)) e (by omega) h2'
        have e1 : max (- f m) (- f y) = max (- f y) (- f m) := by omega
        rw [e1, maxNeg_max]
        have h4 : maxNeg f ys (- f y) ≤ maxNeg f ys (max x (- f y)) := maxNeg_mono f ys _ _ (by omega)
        omega
  omega

/-- the value of a node with moves does not depend on which move is listed first -/
theorem headMax_perm (f : P → Int) (m : P) (ms : List P) (m' : P) (ms' : List P)
    (h : (m :: ms).Perm (m' :: ms')) : maxNeg f ms (- f m) = maxNeg f ms' (- f m') := by
  have e1 : maxNeg f ms (- f m) = maxNeg f (m :: ms) (- f m) := by
    simp only [maxNeg]; congr 1; omega
  have e2 : maxNeg f ms' (- f m') = maxNeg f (m' :: ms') (- f m') := by
    simp only [maxNeg]; congr 1; omega
  rw [e1, e2, maxNeg_perm f _ _ h]
  have hm : m ∈ m' :: ms' := h.subset (by simp)
  have hm' : m' ∈ m' :: ms' := by simp
  rw [← maxNeg_absorb f _ (- f m) m' hm', ← maxNeg_absorb f (m' :: ms') (- f m') m hm]
  congr 1; omega

/-- the oracle is the minimax value: for every ordering that permutes, every window -/
theorem fast_spec (hord : ∀ l, (order l).Perm l) :
    ∀ (fuel depth ply : Nat) (t : DrawTable) (p : P) (a b : Int), a < b →
      Bnd (negamax g fuel depth ply t p) a b (fast g order fuel depth ply t p a b) := by
  intro fuel
  induction fuel with
  | zero => intro d ply t p a b _; simp only [negamax, fast]; exact Bnd.refl _ _ _
  | succ n ih =>
    intro d ply t p a b hab
    simp only [negamax, fast]
    by_cases h3 : t.isThreefold (g.key p) = true
    · simp only [h3, if_true]; exact Bnd.refl _ _ _
    · have h3' : t.isThreefold (g.key p) = false := by simpa using h3
      simp only [h3', Bool.false_eq_true, if_false]
      by_cases hq : d = 0 ∧ ¬ g.inCheck p = true
      · simp only [hq, if_true, not_false_eq_true, and_self]
        exact qfast_spec g order hord _ _ _ _ hab
      · simp only [hq, if_false]
        have hp := hord (g.gen p .all)
        cases hgen : g.gen p .all with
        | nil =>
          rw [hgen] at hp
          have : order [] = [] := List.Perm.eq_nil hp
          simp only [this]
          exact Bnd.refl _ _ _
        | cons m0 ms0 =>
          rw [hgen] at hp
          cases ho : order (m0 :: ms0) with
          | nil => rw [ho] at hp; exact absurd (List.Perm.eq_nil hp.symm) (by simp)
          | cons m ms =>
            rw [ho] at hp
            simp only
            rw [headMax_perm _ m0 ms0 m ms hp.symm]
            -- abbreviations: r0 = value returned for the first move, v0 = its true value
            generalize hr0 : fast g order n ((if d = 0 then 1 else d) - 1) (ply + 1) ((t.add (g.key p)).getD t) m (-b) (-a) = r0
            have hb0 := ih ((if d = 0 then 1 else d) - 1) (ply + 1) ((t.add (g.key p)).getD t) m (-b) (-a) (by omega)
            rw [hr0] at hb0
            generalize negamax g n ((if d = 0 then 1 else d) - 1) (ply + 1) ((t.add (g.key p)).getD t) m = v0 at hb0 ⊢
            obtain ⟨c1, c2, c3⟩ := hb0
            by_cases hcut : - r0 ≥ b
            · simp only [hcut, if_true]
              have hle : - r0 ≤ - v0 := by have := c1 (by omega); omega
              have hge := maxNeg_ge (negamax g n ((if d = 0 then 1 else d) - 1) (ply + 1) ((t.add (g.key p)).getD t)) ms (- v0)
              exact ⟨fun h => by omega, fun _ => by omega, fun _ h => by omega⟩
            · simp only [hcut, if_false]
              apply fastLoop_spec _ _ (fun m lo hi h => ih _ _ _ m lo hi h)
              · omega
              · omega
              · by_cases hl : - r0 ≤ a
                · have := c2 (by omega); omega
                · have := c3 (by omega) (by omega); omega
              · omega
              · intro h
                have := c3 (by omega) (by omega)
                exact ⟨by omega, by omega⟩
              · intro h; omega

/-- used by the driver: with the full window the oracle returns exactly the minimax value, provided
    the value is strictly inside (it always is: |value| ≤ MATE < POS_INF) -/
theorem fast_exact (hord : ∀ l, (order l).Perm l) (fuel depth ply : Nat) (t : DrawTable) (p : P) (a b : Int)
    (h1 : a < negamax g fuel depth ply t p) (h2 : negamax g fuel depth ply t p < b) :
    fast g order fuel depth ply t p a b = negamax g fuel depth ply t p :=
  (fast_spec g order hord fuel depth ply t p a b (by omega)).exact h1 h2

end Walleye
