/- Helper lemmas for C14: the evaluation as five sums of per-square contributions. -/
import Walleye.Model.Eval
namespace Walleye

/-- per-square contributions (white mg, black mg, white eg, black eg, phase) -/
structure Contrib where
  wmg : Int
  bmg : Int
  weg : Int
  beg : Int
  phase : Int

def contrib (b : Board) (pt : Point) : Contrib :=
  match b.get pt.row pt.col with
  | .full ⟨.white, kind⟩ =>
    ⟨tbl (Gen.mgTable kind) (pt.row - Gen.boardStart) (pt.col - Gen.boardStart) + Gen.mgPieceVal kind, 0,
     tbl (Gen.egTable kind) (pt.row - Gen.boardStart) (pt.col - Gen.boardStart) + Gen.egPieceVal kind, 0,
     Gen.gamePhaseVal kind⟩
  | .full ⟨.black, kind⟩ =>
    ⟨0, tbl (Gen.mgTable kind) (Gen.blackRowFlip - pt.row) (pt.col - Gen.boardStart) + Gen.mgPieceVal kind,
     0, tbl (Gen.egTable kind) (Gen.blackRowFlip - pt.row) (pt.col - Gen.boardStart) + Gen.egPieceVal kind,
     Gen.gamePhaseVal kind⟩
  | _ => ⟨0, 0, 0, 0, 0⟩

theorem evalSquare_eq (b : Board) (acc : EvalAcc) (pt : Point) :
    evalSquare b acc pt =
      { wmg := acc.wmg + (contrib b pt).wmg, bmg := acc.bmg + (contrib b pt).bmg,
        weg := acc.weg + (contrib b pt).weg, beg := acc.beg + (contrib b pt).beg,
        phase := acc.phase + (contrib b pt).phase } := by
  unfold evalSquare contrib
  cases h : b.get pt.row pt.col with
  | empty => simp
  | boundary => simp
  | full p =>
    obtain ⟨c, k⟩ := p
    cases c <;> simp

theorem foldl_evalSquare (b : Board) (l : List Point) (acc : EvalAcc) :
    l.foldl (evalSquare b) acc =
      { wmg := acc.wmg + (l.map fun pt => (contrib b pt).wmg).sum,
        bmg := acc.bmg + (l.map fun pt => (contrib b pt).bmg).sum,
        weg := acc.weg + (l.map fun pt => (contrib b pt).weg).sum,
        beg := acc.beg + (l.map fun pt => (contrib b pt).beg).sum,
        phase := acc.phase + (l.map fun pt => (contrib b pt).phase).sum } := by
  induction l generalizing acc with
  | nil => simp
  | cons x xs ih =>
    simp only [List.foldl_cons, ih, evalSquare_eq, List.map_cons, List.sum_cons]
    congr 1 <;> omega

/-- the five sums over the 64 squares -/
def sums (b : Board) : EvalAcc :=
  { wmg := (evalCoords.map fun pt => (contrib b pt).wmg).sum,
    bmg := (evalCoords.map fun pt => (contrib b pt).bmg).sum,
    weg := (evalCoords.map fun pt => (contrib b pt).weg).sum,
    beg := (evalCoords.map fun pt => (contrib b pt).beg).sum,
    phase := (evalCoords.map fun pt => (contrib b pt).phase).sum }

theorem getEvaluation_eq (p : Pos) : getEvaluation p = evalFinish (sums p.board) p.toMove := by
  unfold getEvaluation sums
  rw [foldl_evalSquare]
  simp

end Walleye
