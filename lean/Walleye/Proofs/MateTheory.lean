/-
  What a mate-band minimax value MEANS (C11): for every game with a bounded evaluation, every
  repetition table and every depth, a value of `Spec.negamax` above the evaluation bound is exactly
  MATE − ply − (2n − 1) for some n ≥ 1 and the side to move can FORCE checkmate in at most n of its
  own moves (`Win n`); a value below minus the bound is exactly −(MATE − ply − 2k) and the side to
  move is checkmated now (k = 0) or is mated within k opposing moves whatever it plays (`Lose k`).
  Draw scores (repetition, stalemate) and quiescence values never enter the bands, so neither a
  stalemate nor a repetition is ever counted as a mate.
-/
import Walleye.Proofs.RootCorollaries
namespace Walleye
open Spec DrawTable

variable {P : Type} (g : Game P)

/-- the side to move at `p` is checkmated: no move and in check -/
def Mated (p : P) : Prop := g.gen p .all = [] ∧ g.inCheck p = true

/-- the side to move at `p` can force checkmate in at most `n` of its own moves: it has a move
    after which the opponent is mated, or has moves and each of them allows a mate in ≤ n − 1 -/
def Win : Nat → P → Prop
  | 0, _ => False
  | n + 1, p => ∃ m ∈ g.gen p .all, Mated g m ∨ (g.gen m .all ≠ [] ∧ ∀ r ∈ g.gen m .all, Win n r)

/-- the side to move at `p` is checkmated, or has moves and every one of them lets the opponent
    force mate in at most `k` moves -/
def Lose (k : Nat) (p : P) : Prop :=
  Mated g p ∨ (g.gen p .all ≠ [] ∧ ∀ m ∈ g.gen p .all, Win g k m)

theorem win_succ (n : Nat) (p : P) : Win g (n + 1) p ↔ ∃ m ∈ g.gen p .all, Lose g n m := by
  simp only [Win, Lose]

theorem lose_zero (p : P) : Lose g 0 p ↔ Mated g p := by
  unfold Lose
  constructor
  · rintro (h | ⟨hne, hall⟩)
    · exact h
    · cases hl : g.gen p .all with
      | nil => exact absurd hl hne
      | cons x xs => exact absurd (hall x (by rw [hl]; simp)) (by simp [Win])
  · exact Or.inl

theorem win_mono (n : Nat) : ∀ p, Win g n p → Win g (n + 1) p := by
  induction n with
  | zero => intro p h; cases h
  | succ k ih =>
    intro p h
    obtain ⟨m, hm, hl⟩ := h
    refine ⟨m, hm, ?_⟩
    rcases hl with hl | ⟨hne, hall⟩
    · exact Or.inl hl
    · exact Or.inr ⟨hne, fun r hr => ih r (hall r hr)⟩

theorem win_mono_le {n n' : Nat} (h : n ≤ n') (p : P) (hw : Win g n p) : Win g n' p := by
  induction h with
  | refl => exact hw
  | step _ ih => exact win_mono g _ p ih

theorem lose_mono_le {k k' : Nat} (h : k ≤ k') (p : P) (hl : Lose g k p) : Lose g k' p := by
  rcases hl with hl | ⟨hne, hall⟩
  · exact Or.inl hl
  · exact Or.inr ⟨hne, fun m hm => win_mono_le g h m (hall m hm)⟩

/-- the maximum is the start value or is attained by some element -/
theorem maxNeg_attained (f : P → Int) (l : List P) (acc : Int) :
    maxNeg f l acc = acc ∨ ∃ x ∈ l, maxNeg f l acc = - f x := by
  induction l generalizing acc with
  | nil => left; rfl
  | cons m ms ih =>
    simp only [maxNeg]
    rcases ih (max acc (- f m)) with h | ⟨x, hx, h⟩
    · by_cases hc : acc ≤ - f m
      · right; exact ⟨m, by simp, by rw [h]; omega⟩
      · left; rw [h]; omega
    · right; exact ⟨x, by simp [hx], h⟩

/-- **meaning of mate-band values of the minimax specification** -/
theorem negamax_mate_char (E : Nat) (hg : GameOK g E) :
    ∀ (fuel d ply : Nat) (t : DrawTable) (p : P), (E : Int) + ply + fuel < Gen.mateScore →
      ((E : Int) < negamax g fuel d ply t p →
        ∃ n : Nat, 1 ≤ n ∧ negamax g fuel d ply t p = Gen.mateScore - ply - (2 * n - 1) ∧ Win g n p) ∧
      (negamax g fuel d ply t p < -(E : Int) →
        ∃ k : Nat, negamax g fuel d ply t p = -(Gen.mateScore - ply - 2 * k) ∧ Lose g k p) := by
  intro fuel
  have hM : (Gen.mateScore : Int) = 100000 := rfl
  induction fuel with
  | zero =>
    intro d ply t p _
    simp only [negamax]
    have := hg.evalB p
    exact ⟨fun h => by omega, fun h => by omega⟩
  | succ n ih =>
    intro d ply t p hb
    simp only [negamax]
    split
    · exact ⟨fun h => by omega, fun h => by omega⟩
    · split
      · have := qval_bound g E hg qFuel p
        exact ⟨fun h => by omega, fun h => by omega⟩
      · split
        · rename_i hgen
          split
          · rename_i hchk
            refine ⟨fun h => by omega, fun _ => ⟨0, by omega, Or.inl ⟨hgen, hchk⟩⟩⟩
          · exact ⟨fun h => by omega, fun h => by omega⟩
        · rename_i m ms hgen
          -- abbreviations
          generalize hd' : ((if d = 0 then 1 else d) - 1) = d'
          generalize ht' : ((t.add (g.key p)).getD t) = t'
          have hih := fun x => ih d' (ply + 1) t' x (by push_cast; omega)
          have hall : ∀ x ∈ m :: ms, - negamax g n d' (ply + 1) t' x ≤
              maxNeg (negamax g n d' (ply + 1) t') ms (- negamax g n d' (ply + 1) t' m) := by
            intro x hx
            rcases List.mem_cons.mp hx with rfl | hx
            · exact maxNeg_ge _ _ _
            · exact maxNeg_mem _ _ _ x hx
          have hatt : ∃ x ∈ m :: ms, maxNeg (negamax g n d' (ply + 1) t') ms (- negamax g n d' (ply + 1) t' m) =
              - negamax g n d' (ply + 1) t' x := by
            rcases maxNeg_attained (negamax g n d' (ply + 1) t') ms (- negamax g n d' (ply + 1) t' m) with h | ⟨x, hx, h⟩
            · exact ⟨m, by simp, h⟩
            · exact ⟨x, by simp [hx], h⟩
          obtain ⟨xs, hxs, hv⟩ := hatt
          constructor
          · intro hpos
            rw [hv] at hpos ⊢
            obtain ⟨k, hk, hlose⟩ := (hih xs).2 (by omega)
            refine ⟨k + 1, by omega, by rw [hk]; push_cast; omega, ?_⟩
            rw [win_succ]
            exact ⟨xs, by rw [hgen]; exact hxs, hlose⟩
          · intro hneg
            -- every child is won for the opponent; the slowest mate decides
            obtain ⟨ns, hns1, hnsv, _⟩ := (hih xs).1 (by rw [hv] at hneg; omega)
            refine ⟨ns, by rw [hv, hnsv]; push_cast; omega, Or.inr ⟨by rw [hgen]; simp, ?_⟩⟩
            intro x hx
            rw [hgen] at hx
            have hle := hall x hx
            obtain ⟨nx, hnx1, hnxv, hwin⟩ := (hih x).1 (by omega)
            apply win_mono_le g (n := nx) _ x hwin
            rw [hv, hnsv, hnxv] at hle
            push_cast at hle
            omega

end Walleye
