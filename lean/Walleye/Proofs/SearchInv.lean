/-
  Invariants of the search model, for every game, clock expiry and ordering oracle:
    * the repetition table is restored by every normally finishing `alphaBeta` call (C07);
    * every board sent by `getBestMove` is a root successor (C03, C07, C08).
-/
import Walleye.Proofs.Hoare
import Walleye.Proofs.Table
namespace Walleye
open DrawTable

variable {P O : Type}

/-- the table of the state has the same counts as `t0` -/
def TE (t0 : DrawTable) (s : SS P O) : Prop := TableEq s.table t0

/-- a computation that leaves the table counts alone when it finishes normally -/
structure TablePres {α : Type} (m : M (SS P O) α) : Prop where
  triple : ∀ t0, Triple (TE t0) m (fun _ s => TE t0 s)

theorem TablePres.bind {α β : Type} {m : M (SS P O) α} {f : α → M (SS P O) β}
    (h1 : TablePres m) (h2 : ∀ a, TablePres (f a)) : TablePres (m >>= f) :=
  ⟨fun t0 => Triple.bind (h1.triple t0) (fun a => (h2 a).triple t0)⟩

theorem TablePres.pure {α : Type} (a : α) : TablePres (pure a : M (SS P O) α) :=
  ⟨fun _ => Triple.pure (fun _ h => h)⟩

theorem TablePres.ite {α : Type} {c : Prop} [Decidable c] {m1 m2 : M (SS P O) α}
    (h1 : TablePres m1) (h2 : TablePres m2) : TablePres (if c then m1 else m2) :=
  ⟨fun t0 => Triple.ite (fun _ => h1.triple t0) (fun _ => h2.triple t0)⟩

/-- a primitive that does not touch the table field at all -/
theorem TablePres.of_table_eq {α : Type} {m : M (SS P O) α}
    (h : ∀ s a s', m s = .ok a s' → s'.table = s.table) : TablePres m := by
  refine ⟨fun t0 => ⟨?_⟩⟩
  intro s a s' hp he
  unfold TE at *
  rw [h s a s' he]; exact hp

theorem tick_eq {s s1 : SS P O} {b : Bool} (h : tick s = .ok b s1) :
    s1 = { s with queries := s.queries + 1 } ∧
    b = (match s.expiry with | some k => decide (k ≤ s.queries) | none => false) := by
  have e : tick s = .ok (match s.expiry with | some k => decide (k ≤ s.queries) | none => false)
      { s with queries := s.queries + 1 } := rfl
  rw [e] at h
  injection h with h1 h2
  exact ⟨h2.symm, h1.symm⟩

theorem tick_pres : TablePres (tick : M (SS P O) Bool) :=
  TablePres.of_table_eq (fun s a s' he => by rw [(tick_eq he).1])

theorem nodeSearched_pres : TablePres (nodeSearched : M (SS P O) Unit) :=
  TablePres.of_table_eq (fun s a s' he => by unfold nodeSearched M.modify at he; cases he; rfl)

theorem order_pres (ord : Oracle P O) (site : Char) (l : List P) : TablePres (order ord site l) :=
  TablePres.of_table_eq (fun s a s' he => by unfold order at he; cases he; rfl)

theorem insertCur_pres (ply : Nat) (m : Option Mv) : TablePres (insertCur ply m : M (SS P O) Unit) :=
  TablePres.of_table_eq (fun s a s' he => by
    unfold insertCur at he; split at he
    · cases he; rfl
    · cases he)

theorem setPV_pres : TablePres (setPV : M (SS P O) Unit) :=
  TablePres.of_table_eq (fun s a s' he => by unfold setPV M.modify at he; cases he; rfl)

theorem getPV_pres (ply : Nat) : TablePres (getPV ply : M (SS P O) (Option Mv)) :=
  TablePres.of_table_eq (fun s a s' he => by
    unfold getPV at he; split at he
    · cases he; rfl
    · cases he)

theorem getKillers_pres (ply : Nat) : TablePres (getKillers ply : M (SS P O) (Array (Option Mv))) :=
  TablePres.of_table_eq (fun s a s' he => by
    unfold getKillers at he; split at he
    · cases he; rfl
    · cases he)

theorem insertKiller_pres (ply : Nat) (m : Option Mv) : TablePres (insertKiller ply m : M (SS P O) Unit) :=
  TablePres.of_table_eq (fun s a s' he => by
    unfold insertKiller at he
    split at he
    · dsimp only at he
      split at he <;> (cases he; rfl)
    · cases he)

theorem get_pres : TablePres (M.get : M (SS P O) (SS P O)) :=
  TablePres.of_table_eq (fun s a s' he => by unfold M.get at he; cases he; rfl)

theorem panic_pres {α : Type} : TablePres (M.panic : M (SS P O) α) :=
  ⟨fun _ => ⟨fun s a s' _ he => by unfold M.panic at he; cases he⟩⟩

theorem outOfFuel_pres {α : Type} : TablePres (M.outOfFuel : M (SS P O) α) :=
  ⟨fun _ => ⟨fun s a s' _ he => by unfold M.outOfFuel at he; cases he⟩⟩

variable (g : Game P) (ord : Oracle P O)

/-- one step of the structural proof that a `do` block preserves the table: peel binds, ifs,
    matches and the `have`/join points that `do` notation introduces; close leaves with the
    primitives' lemmas or with the hypotheses about recursive calls found in the context -/
macro "tp_auto" : tactic => `(tactic|
  repeat' (first
    | exact TablePres.pure _
    | exact panic_pres
    | exact outOfFuel_pres
    | exact tick_pres
    | exact nodeSearched_pres
    | exact get_pres
    | exact setPV_pres
    | exact order_pres _ _ _
    | exact insertCur_pres _ _
    | exact getPV_pres _
    | exact getKillers_pres _
    | exact insertKiller_pres _ _
    | solve_by_elim
    | apply TablePres.ite
    | apply TablePres.bind
    | intro _
    | split
    | dsimp only))

theorem quiesceLoop_pres (f : P → Int → Int → M (SS P O) Int) (hf : ∀ p a b, TablePres (f p a b)) :
    ∀ (l : List P) (a b : Int), TablePres (quiesceLoop f l a b) := by
  intro l
  induction l with
  | nil => intro a b; unfold quiesceLoop; tp_auto
  | cons m ms ih => intro a b; unfold quiesceLoop; tp_auto

theorem quiesce_pres : ∀ (fuel : Nat) (p : P) (a b : Int), TablePres (quiesce g ord fuel p a b) := by
  intro fuel
  induction fuel with
  | zero => intro p a b; unfold quiesce; tp_auto
  | succ n ih =>
    intro p a b
    unfold quiesce
    have hl := quiesceLoop_pres (quiesce g ord n) (fun p a b => ih p a b)
    tp_auto

theorem abLoop_pres (f : ABFun P O) (hf : ∀ p d ply a b n, TablePres (f p d ply a b n)) :
    ∀ (l : List P) (d1 ply : Nat) (a b best : Int), TablePres (abLoop g f l d1 ply a b best) := by
  intro l
  induction l with
  | nil => intro d1 ply a b best; unfold abLoop; tp_auto
  | cons m ms ih => intro d1 ply a b best; unfold abLoop; tp_auto

theorem abBody_pres (f : ABFun P O) (hf : ∀ p d ply a b n, TablePres (f p d ply a b n))
    (p : P) (depth ply : Nat) (a b : Int) (n : Bool) : TablePres (abBody g ord f p depth ply a b n) := by
  unfold abBody
  have hq := quiesce_pres g ord
  have hql := fun fuel => quiesceLoop_pres (quiesce g ord fuel) (hq fuel)
  have hl := abLoop_pres g f hf
  tp_auto

/-- add, run a table-preserving body, remove: every count is back where it was -/
theorem bracket_pres {α : Type} (k : UInt64) (body : M (SS P O) α) (hb : TablePres body) :
    TablePres (do tableAdd k; let r ← body; tableRemove k; return r) := by
  refine ⟨fun t0 => ⟨?_⟩⟩
  intro s a s' hp he
  obtain ⟨_, s1, h1, he⟩ := bind_ok he
  obtain ⟨r, s2, h2, he⟩ := bind_ok he
  obtain ⟨_, s3, h3, he⟩ := bind_ok he
  have he' : (Pure.pure r : M (SS P O) α) s3 = .ok a s' := he
  have hs3 : s' = s3 := by
    have : (Pure.pure r : M (SS P O) α) s3 = .ok r s3 := rfl
    rw [this] at he'; cases he'; rfl
  subst hs3
  -- after the add
  unfold tableAdd at h1
  cases hadd : s.table.add k with
  | none => rw [hadd] at h1; cases h1
  | some t1 =>
    rw [hadd] at h1
    cases h1
    have hc1 := count_add hadd
    -- the body keeps the counts of t1
    have hbody : TE t1 s2 := (hb.triple t1).run _ r s2 (by unfold TE; exact TableEq.refl _) h2
    -- the remove
    unfold tableRemove at h3
    have hpos : 0 < count s2.table k := by rw [hbody k, hc1 k]; simp
    obtain ⟨t3, hrem, hc3⟩ := count_remove_of_pos hpos
    rw [hrem] at h3
    cases h3
    intro k'
    show count t3 k' = count t0 k'
    rw [hc3 k', ← hp k']
    by_cases hk : k = k'
    · subst hk; simp only [if_true]; rw [hbody k, hc1 k]; simp
    · simp only [hk, if_false]; rw [hbody k', hc1 k']; simp [hk]

theorem alphaBeta_pres : ∀ (fuel : Nat) (p : P) (depth ply : Nat) (a b : Int) (n : Bool),
    TablePres (alphaBeta g ord fuel p depth ply a b n) := by
  intro fuel
  induction fuel with
  | zero => intro p d ply a b n; unfold alphaBeta; tp_auto
  | succ k ih =>
    intro p d ply a b n
    unfold alphaBeta
    have hbr := fun key => bracket_pres (P := P) (O := O) key
      (abBody g ord (alphaBeta g ord k) p d ply a b n)
      (abBody_pres g ord _ (fun p d ply a b n => ih p d ply a b n) _ _ _ _ _ _)
    tp_auto

theorem report_pres (r : Report P) : TablePres (report r : M (SS P O) Unit) :=
  TablePres.of_table_eq (fun s a s' he => by unfold report M.modify at he; cases he; rfl)

theorem sendInfo_pres (d : Nat) (e : Int) : TablePres (sendInfo d e : M (SS P O) Unit) :=
  TablePres.of_table_eq (fun s a s' he => by unfold sendInfo at he; cases he; rfl)

theorem modify_pres (f : SS P O → SS P O) (hf : ∀ s, (f s).table = s.table) : TablePres (M.modify f) :=
  TablePres.of_table_eq (fun s a s' he => by unfold M.modify at he; cases he; exact hf s)

theorem rootLoop_pres (fuel curDepth : Nat) (first : P) :
    ∀ (l : List P) (alpha : Int) (best : Option P), TablePres (rootLoop g ord fuel curDepth first l alpha best) := by
  intro l
  have hab := alphaBeta_pres g ord fuel
  have hr := report_pres (P := P) (O := O)
  have hs := sendInfo_pres (P := P) (O := O)
  induction l with
  | nil => intro alpha best; unfold rootLoop; tp_auto
  | cons m ms ih => intro alpha best; unfold rootLoop; tp_auto

theorem iterate_pres (fuel : Nat) (root : P) :
    ∀ (n curDepth : Nat) (moves : List P) (best : Option P), TablePres (iterate g ord fuel root n curDepth moves best) := by
  intro n
  have hrl := rootLoop_pres g ord fuel
  have hm : TablePres (M.modify fun s : SS P O => { s with nodes := 0, cur := Array.replicate arrSize none }) :=
    modify_pres _ (fun _ => rfl)
  have hfb : ∀ c (first : P), TablePres (sendFallback c first : M (SS P O) Unit) := by
    intro c first; unfold sendFallback
    exact TablePres.ite (report_pres _) (TablePres.pure _)
  induction n with
  | zero => intro c mv b; unfold iterate; tp_auto
  | succ k ih => intro c mv b; unfold iterate; tp_auto

/-- `get_best_move` leaves the repetition record exactly as it was given (same count for every key) -/
theorem getBestMove_pres (fuel : Nat) (root : P) : TablePres (getBestMove g ord fuel root) := by
  unfold getBestMove
  exact iterate_pres g ord fuel root _ _ _ _

end Walleye
