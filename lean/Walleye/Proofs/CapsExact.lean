/-
  C13: capture-only generation returns exactly the legal capturing moves (en passant included), and
  each successor is the specification's position after its move.
-/
import Walleye.Proofs.CapsChar
import Walleye.Proofs.Caps
namespace Walleye

variable (h : Hasher)

/-- ordinary moves: the successor list of the move's own target contains a successor carrying it -/
theorem normal_complete_target (p : Pos) (wf : WFp p) (m : Spec.Move) (hlegal : Spec.legal (abs p) m = true)
    (ho : InB m.src) (ht : InB m.dst) (pc : Piece) (hsrc : (abs p).at m.src = some pc) (hcol : pc.color = (abs p).side)
    (hrule : normalRule (abs p) m.src pc m.dst = true) (hpo : promoOK (abs p).side pc m.dst m.promo = true) :
    toPt m.dst ∈ getMoves pc (toPt m.src).row (toPt m.src).col p.board .all ∧
    ∃ q ∈ succsForTarget h pc p (toPt m.src) (toPt m.dst), moveOf q = m := by
  have hpc := get_of_at p m.src ho pc hsrc
  have hpt := toPt_onBoard m.src ho
  have hm := toPt_onBoard m.dst ht
  have hsd : specOf (toPt m.dst) = m.dst := specOf_toPt m.dst ht
  have hrule' : normalRule (abs p) m.src pc (specOf (toPt m.dst)) = true := by rw [hsd]; exact hrule
  have hmov := (getMoves_spec p wf.ring wf.inner m.src ho pc hpc (toPt m.dst)).mpr ⟨hm, hrule'⟩
  have hcol' : pc.color = p.toMove := hcol
  have hnk := no_king_capture p wf m.src ho pc hpc hcol' (toPt m.dst) hm hrule'
  have hR := rightsOK_of_LP p wf.lp
  -- the promotion flag only occurs for pawns and never names a king
  have hpr : ∀ k, m.promo = some k → pc.kind ≠ .king ∧ k ≠ .king := by
    intro k hk
    unfold promoOK at hpo
    rw [hk] at hpo
    by_cases hpw : pc.kind = .pawn
    · refine ⟨by rw [hpw]; decide, ?_⟩
      simp only [hpw, beq_self_eq_true, if_true] at hpo
      split at hpo
      · intro e; subst e; simp [Spec.promoKinds] at hpo
      · cases hpo
    · have : (pc.kind == Kind.pawn) = false := by simpa using hpw
      simp [this] at hpo
  -- the king-safety test passes
  have hsafe : isCheck (st1 h pc p (toPt m.src) (toPt m.dst)) pc.color = false := by
    rw [filter_normal h p wf.ring wf.inner wf.kings m.src ho pc hpc hcol' (toPt m.dst) hm hrule' hnk m.promo hpr, hsd,
      ← move_eta m]
    unfold Spec.legal at hlegal
    simp only [Bool.and_eq_true, Bool.not_eq_true'] at hlegal
    exact hlegal.2
  have hlist : succsForTarget h pc p (toPt m.src) (toPt m.dst) =
      st4 h pc (toPt m.src) (toPt m.dst) (st3 h pc (toPt m.src) (toPt m.dst) (st2 h pc (toPt m.src) (toPt m.dst)
        (st1 h pc p (toPt m.src) (toPt m.dst)))) := by
    rw [succsForTarget_eq, if_neg (by rw [hsafe]; simp)]
  obtain ⟨c, k⟩ := pc
  simp only at hcol hcol' hpr
  cases hpm : m.promo with
  | none =>
    -- no promotion is due: the single successor
    have hnp : ¬ (k = .pawn ∧ m.dst.rank = Spec.lastRank c) := by
      rintro ⟨rfl, hl⟩
      unfold promoOK at hpo
      rw [hpm, ← hcol] at hpo
      simp [hl] at hpo
    refine ⟨hmov, st3 h ⟨c, k⟩ (toPt m.src) (toPt m.dst) (st2 h ⟨c, k⟩ (toPt m.src) (toPt m.dst) (st1 h ⟨c, k⟩ p (toPt m.src) (toPt m.dst))),
      ?_, ?_⟩
    · rw [hlist]
      unfold st4
      have n1 : ¬ ((toPt m.dst).row = Gen.boardStart ∧ c = .white ∧ k = .pawn) := by
        rintro ⟨hr, rfl, rfl⟩
        exact hnp ⟨rfl, by rw [← hsd]; exact (promo_row_iff .white _ hm).mp hr⟩
      have n2 : ¬ ((toPt m.dst).row = Gen.boardEnd - 1 ∧ c = .black ∧ k = .pawn) := by
        rintro ⟨hr, rfl, rfl⟩
        exact hnp ⟨rfl, by rw [← hsd]; exact (promo_row_iff .black _ hm).mp hr⟩
      simp only
      rw [if_neg n1, if_neg n2]
      exact List.mem_singleton.mpr rfl
    · rw [moveOf_of _ (toPt m.src) (toPt m.dst) (by rw [st3_lastMove, st2_lastMove, st1_lastMove]),
        st3_promo, st2_promo, st1_promo, specOf_toPt m.src ho, hsd]
      rw [move_eta m, hpm]; rfl
  | some kk =>
    -- a pawn reaching its last rank: the fan-out contains the successor for the requested piece
    have hfacts : k = .pawn ∧ m.dst.rank = Spec.lastRank c ∧ kk ∈ Gen.promotionOrder := by
      unfold promoOK at hpo
      rw [hpm, ← hcol] at hpo
      by_cases hpw : k = .pawn
      · subst hpw
        simp only [beq_self_eq_true, if_true] at hpo
        by_cases hl : m.dst.rank = Spec.lastRank c
        · refine ⟨rfl, hl, ?_⟩
          simp only [hl, beq_self_eq_true, if_true] at hpo
          cases kk <;> simp [Spec.promoKinds, Gen.promotionOrder] at hpo ⊢
        · have : (m.dst.rank == Spec.lastRank c) = false := by simpa using hl
          simp [this] at hpo
      · have : (k == Kind.pawn) = false := by simpa using hpw
        simp [this] at hpo
    obtain ⟨rfl, hl, hkk⟩ := hfacts
    have hrow := (promo_row_iff c (toPt m.dst) hm).mpr (by rw [hsd]; exact hl)
    -- the fan-out element for `kk`
    have hex : ∃ q ∈ st4 h ⟨c, .pawn⟩ (toPt m.src) (toPt m.dst) (st3 h ⟨c, .pawn⟩ (toPt m.src) (toPt m.dst)
        (st2 h ⟨c, .pawn⟩ (toPt m.src) (toPt m.dst) (st1 h ⟨c, .pawn⟩ p (toPt m.src) (toPt m.dst)))),
        q.lastMove = some (toPt m.src, toPt m.dst) ∧ q.promo = some ⟨c, kk⟩ := by
      unfold st4
      cases c with
      | white =>
        simp only at hrow
        rw [if_pos ⟨hrow, rfl, rfl⟩]
        unfold promotePawn
        exact ⟨_, List.mem_map.mpr ⟨kk, hkk, rfl⟩, rfl, rfl⟩
      | black =>
        simp only at hrow
        have n1 : ¬ ((toPt m.dst).row = Gen.boardStart ∧ Color.black = .white ∧ Kind.pawn = .pawn) := by
          rintro ⟨_, hc, _⟩; cases hc
        rw [if_neg n1, if_pos ⟨hrow, rfl, rfl⟩]
        unfold promotePawn
        exact ⟨_, List.mem_map.mpr ⟨kk, hkk, rfl⟩, rfl, rfl⟩
    obtain ⟨q, hq, hlm, hpq⟩ := hex
    refine ⟨hmov, q, (by rw [hlist]; exact hq), ?_⟩
    rw [moveOf_of q _ _ hlm, hpq, specOf_toPt m.src ho, hsd]
    rw [move_eta m, hpm]; rfl


/-- en passant: the en passant block of the capturing pawn contains a successor carrying the move -/
theorem ep_complete_target (p : Pos) (wf : WFp p) (m : Spec.Move) (hlegal : Spec.legal (abs p) m = true)
    (ho : InB m.src) (ht : InB m.dst) (pc : Piece) (hsrc : (abs p).at m.src = some pc) (hcol : pc.color = (abs p).side)
    (hk : pc.kind = .pawn) (hatt : Spec.attacksFrom (abs p) m.src pc m.dst = true)
    (hep : (abs p).ep = some m.dst) (hpo : promoOK (abs p).side pc m.dst m.promo = true) :
    ∃ q ∈ epSuccs h pc p (toPt m.src), moveOf q = m := by
  obtain ⟨c, k⟩ := pc
  simp only at hk hcol
  subst hk
  have hpc := get_of_at p m.src ho _ hsrc
  have hpt := toPt_onBoard m.src ho
  have hm := toPt_onBoard m.dst ht
  have hsd : specOf (toPt m.dst) = m.dst := specOf_toPt m.dst ht
  -- the model's en passant target is the specification's
  have hpep : p.ep = some (toPt m.dst) := by
    rw [abs_ep] at hep
    cases hx : p.ep with
    | none => rw [hx] at hep; cases hep
    | some e =>
      rw [hx] at hep
      have he : specOf e = m.dst := by simpa using hep
      have hon := wf.epb e hx
      rw [← he, toPt_specOf e hon]
  obtain ⟨_, hrank, _, _, _⟩ := wf.lp.ep _ hep
  -- geometry
  have ho' := ho; have ht' := ht
  unfold InB at ho' ht'
  unfold Spec.attacksFrom Spec.iabs at hatt
  simp only [Bool.and_eq_true, decide_eq_true_eq, beq_iff_eq] at hatt
  have hgeo : EpGeo c m.src (toPt m.dst) := by
    unfold EpGeo toPt
    rw [← hcol] at hrank
    cases c <;> simp only [Spec.fwd, Color.opp] at hatt hrank ⊢ <;> omega
  have hmv : pawnMovesEnPassant ⟨c, .pawn⟩ (toPt m.src).row (toPt m.src).col p = some (toPt m.dst) := by
    apply (pawnMovesEnPassant_iff ⟨c, .pawn⟩ _ _ p _ (by unfold toPt; simp only; omega)).mpr
    refine ⟨hpep, ?_⟩
    unfold EpGeo at hgeo
    cases c <;> exact hgeo
  have hcol' : c = p.toMove := hcol
  have x : EpCtx p m.src c (toPt m.dst) := ⟨ho, hm, hpc, hcol', hpep, hgeo⟩
  obtain ⟨hisep, habs⟩ := ep_succ_abs h p wf.lp m.src ho c hpc hcol' (toPt m.dst) hm hmv
  obtain ⟨f1, f2, f3, f4, f5, f6, f7⟩ := epBoard_fields h ⟨c, .pawn⟩ p (toPt m.src) (toPt m.dst)
  -- the promotion flag is absent (an en passant target is never on the last rank)
  have hpn : m.promo = none := by
    unfold promoOK at hpo
    have hl : (m.dst.rank == Spec.lastRank (abs p).side) = false := by
      rw [beq_eq_false_iff_ne, ← hcol]
      rw [← hcol] at hrank
      cases c <;> simp only [Spec.lastRank, Color.opp] at hrank ⊢ <;> omega
    simp only [beq_self_eq_true, if_true, hl, Bool.false_eq_true, if_false] at hpo
    cases hx : m.promo <;> simp_all
  have hmeq : m = ⟨m.src, specOf (toPt m.dst), none⟩ := by rw [hsd, ← hpn]
  -- king safety
  have hbrd := epBoard_board h c p (toPt m.src) (toPt m.dst) hpc
  have hcapOn : OnBoard ⟨capRow c (toPt m.dst).row, (toPt m.dst).col⟩ := by
    unfold OnBoard at hm ⊢; unfold EpGeo at hgeo; unfold toPt at hgeo hm ⊢; unfold capRow; simp only at hgeo hm ⊢
    cases c <;> simp only at hgeo ⊢ <;> omega
  have hr1 : RingOK (epBoard h ⟨c, .pawn⟩ p (toPt m.src) (toPt m.dst)).board := by
    rw [hbrd]
    exact ringOK_set _ ⟨capRow c (toPt m.dst).row, (toPt m.dst).col⟩ _
      (ringOK_set _ (toPt m.dst) _ (ringOK_set _ (toPt m.src) _ wf.ring hpt) hm) hcapOn
  have hi1 : InnerOK (epBoard h ⟨c, .pawn⟩ p (toPt m.src) (toPt m.dst)).board := by
    rw [hbrd]
    exact innerOK_set _ ⟨capRow c (toPt m.dst).row, (toPt m.dst).col⟩ _
      (innerOK_set _ (toPt m.dst) _ (innerOK_set _ (toPt m.src) _ wf.inner (by simp)) (by simp)) (by simp)
  have hk1 := ep_kingsOK h p wf.kings wf.ring wf.lp m.src c (toPt m.dst) x
  have hsafe : isCheck (epBoard h ⟨c, .pawn⟩ p (toPt m.src) (toPt m.dst)) p.toMove = false := by
    rw [isCheck_eq_inCheck _ hr1 hi1 hk1, habs, ← hmeq]
    unfold Spec.legal at hlegal
    simp only [Bool.and_eq_true, Bool.not_eq_true'] at hlegal
    exact hlegal.2
  refine ⟨epBoard h ⟨c, .pawn⟩ p (toPt m.src) (toPt m.dst), ?_, ?_⟩
  · rw [epSuccs_eq, if_pos ⟨by rw [hpep]; rfl, rfl⟩, hmv]
    simp only [hsafe, Bool.not_false, if_true]
    exact List.mem_singleton.mpr rfl
  · rw [moveOf_of _ _ _ f3, f4, specOf_toPt m.src ho]
    exact hmeq.symm


/-- a capturing move of the specification: the destination is occupied, or the move is an en passant capture -/
def isCaptureSpec (P : Spec.Position) (m : Spec.Move) : Bool := (P.at m.dst).isSome || Spec.isEnPassant P m

theorem mem_generateMoves_caps_target (p : Pos) (pt mov : Point) (pc : Piece) (hpt : OnBoard pt)
    (hpc : p.board.get pt.row pt.col = .full pc) (hcol : pc.color = p.toMove)
    (hmov : mov ∈ getMoves pc pt.row pt.col p.board .caps) (q : Pos) (hq : q ∈ succsForTarget h pc p pt mov) :
    q ∈ generateMoves h p .caps := by
  unfold generateMoves
  apply List.mem_append.mpr; left
  apply List.mem_flatMap.mpr
  refine ⟨pt, (mem_boardCoords pt).mpr hpt, ?_⟩
  rw [hpc]
  simp only
  rw [if_pos hcol]
  unfold generateMovesForPiece
  apply List.mem_append.mpr; left
  exact List.mem_flatMap.mpr ⟨mov, hmov, hq⟩

theorem mem_generateMoves_caps_ep (p : Pos) (pt : Point) (pc : Piece) (hpt : OnBoard pt)
    (hpc : p.board.get pt.row pt.col = .full pc) (hcol : pc.color = p.toMove)
    (q : Pos) (hq : q ∈ epSuccs h pc p pt) : q ∈ generateMoves h p .caps := by
  unfold generateMoves
  apply List.mem_append.mpr; left
  apply List.mem_flatMap.mpr
  refine ⟨pt, (mem_boardCoords pt).mpr hpt, ?_⟩
  rw [hpc]
  simp only
  rw [if_pos hcol]
  unfold generateMovesForPiece
  exact List.mem_append.mpr (Or.inr hq)

/-- **C13 on the model**: a move is carried by some successor of capture-only generation iff it is a
    legal capturing move of the specification (en passant included) -/
theorem caps_exact (p : Pos) (wf : WFp p) (m : Spec.Move) :
    (∃ q ∈ generateMoves h p .caps, moveOf q = m) ↔
      (Spec.legal (abs p) m = true ∧ isCaptureSpec (abs p) m = true) := by
  constructor
  · rintro ⟨q, hq, rfl⟩
    have hall := generateMoves_caps_subset h p q hq
    refine ⟨(generateMoves_sound h p wf q hall).1, ?_⟩
    -- which branch of the generator produced q
    unfold generateMoves at hq
    rcases List.mem_append.mp hq with h1 | h1
    · obtain ⟨pt, hpt, hin⟩ := List.mem_flatMap.mp h1
      have hon : OnBoard pt := (mem_boardCoords pt).mp hpt
      have ho := specOf_inB pt hon
      have hto := toPt_specOf pt hon
      cases hsq : p.board.get pt.row pt.col with
      | empty => rw [hsq] at hin; cases hin
      | boundary => rw [hsq] at hin; cases hin
      | full piece =>
        rw [hsq] at hin
        simp only at hin
        split at hin
        · rename_i hcol
          unfold generateMovesForPiece at hin
          have hpc : p.board.get (toPt (specOf pt)).row (toPt (specOf pt)).col = .full piece := by rw [hto]; exact hsq
          rcases List.mem_append.mp hin with h2 | h2
          · obtain ⟨mov, hmov, hqm⟩ := List.mem_flatMap.mp h2
            obtain ⟨hmall, hne⟩ := (getMoves_caps_iff piece pt.row pt.col p.board wf.ring hon mov).mp hmov
            rw [← hto] at hmall hqm
            obtain ⟨_, hdst, _, _⟩ := succsForTarget_sound h p wf (specOf pt) ho piece hpc hcol mov hmall q hqm
            have hmon := (getMoves_spec p wf.ring wf.inner (specOf pt) ho piece hpc mov).mp hmall
            unfold isCaptureSpec
            rw [hdst, at_specOf p mov hmon.1]
            have hnb := wf.inner mov.row mov.col hmon.1
            cases hx : p.board.get mov.row mov.col with
            | empty => rw [hx] at hne; cases hne
            | boundary => exact absurd hx hnb
            | full x => simp [squareToOpt]
          · rw [← hto] at h2
            obtain ⟨_, hisep, _, _⟩ := epSuccs_sound h p wf (specOf pt) ho piece hpc hcol q h2
            unfold isCaptureSpec
            rw [hisep]; simp
        · cases hin
    · simp at h1
  · rintro ⟨hlegal, hcap⟩
    have hps : Spec.pseudoLegal (abs p) m = true := by
      unfold Spec.legal at hlegal; simp only [Bool.and_eq_true] at hlegal; exact hlegal.1
    obtain ⟨ho, ht, pc, hsrc, hcol, hcase⟩ := pseudoLegal_cases (abs p) m hps
    have hpc := get_of_at p m.src ho pc hsrc
    have hpt := toPt_onBoard m.src ho
    rcases hcase with ⟨hrule, hpo⟩ | ⟨hk, hfile, hatt, hnone, hep, hpo⟩ | ⟨hk, hpn, hic, hcc⟩
    · -- an ordinary capture: the destination is occupied
      have hnotep := not_ep (abs p) m.src m.dst pc m.promo hsrc hrule
      rw [← move_eta m] at hnotep
      unfold isCaptureSpec at hcap
      rw [hnotep, Bool.or_false] at hcap
      obtain ⟨hmov, q, hq, hmo⟩ := normal_complete_target h p wf m hlegal ho ht pc hsrc hcol hrule hpo
      have hm := toPt_onBoard m.dst ht
      have hne : (p.board.get (toPt m.dst).row (toPt m.dst).col).isEmpty = false := by
        rw [abs_at p m.dst ht] at hcap
        cases hx : p.board.get (toPt m.dst).row (toPt m.dst).col with
        | empty => rw [hx] at hcap; cases hcap
        | boundary => rfl
        | full x => rfl
      have hmc := (getMoves_caps_iff pc (toPt m.src).row (toPt m.src).col p.board wf.ring hpt (toPt m.dst)).mpr ⟨hmov, hne⟩
      exact ⟨q, mem_generateMoves_caps_target h p (toPt m.src) (toPt m.dst) pc hpt hpc hcol hmc q hq, hmo⟩
    · -- en passant: the block is part of both generation modes
      obtain ⟨q, hq, hmo⟩ := ep_complete_target h p wf m hlegal ho ht pc hsrc hcol hk hatt hep hpo
      exact ⟨q, mem_generateMoves_caps_ep h p (toPt m.src) pc hpt hpc hcol q hq, hmo⟩
    · -- castling is not a capture
      exfalso
      obtain ⟨ct, hm, hside, hK⟩ := castle_type (abs p) m hpn hic
      subst hm
      have hne : Spec.isEnPassant (abs p) (castleMove ct) = false := by
        unfold Spec.isEnPassant
        rw [hK]
        have : (some (⟨rightColor ct, .king⟩ : Piece) == some ⟨(abs p).side, .pawn⟩) = false := by
          cases ct <;> cases (abs p).side <;> decide
        simp [this]
      unfold isCaptureSpec at hcap
      rw [hne, Bool.or_false] at hcap
      unfold castleCond at hcc
      cases ct <;> simp only [castleMove, rightColor] at hside hcap hcc <;> rw [hside] at hcc <;>
        simp only [beq_self_eq_true, if_true, show ((2 : Nat) == 6) = false from by decide, Bool.false_eq_true, if_false,
          Spec.homeRank, Bool.and_eq_true] at hcc <;>
        (first
          | (have := hcc.1.1.1.2; rw [Option.isNone_iff_eq_none] at this; rw [this] at hcap; cases hcap)
          | (have := hcc.1.1.1.1.2; rw [Option.isNone_iff_eq_none] at this; rw [this] at hcap; cases hcap))

end Walleye
