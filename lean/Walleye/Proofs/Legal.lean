/-
  `Spec.LegalPosition` unpacked into named facts.
-/
import Walleye.Proofs.SuccAbs
namespace Walleye

structure LP (P : Spec.Position) : Prop where
  wking : (Spec.kingSquares P .white).length = 1
  bking : (Spec.kingSquares P .black).length = 1
  notInCheck : Spec.inCheck P P.side.opp = false
  pawns : ∀ s ∈ Spec.allSquares, (s.rank = 0 ∨ s.rank = 7) → P.at s ≠ some ⟨.white, .pawn⟩ ∧ P.at s ≠ some ⟨.black, .pawn⟩
  wks : P.wks = true → P.at ⟨4, 0⟩ = some ⟨.white, .king⟩ ∧ P.at ⟨7, 0⟩ = some ⟨.white, .rook⟩
  wqs : P.wqs = true → P.at ⟨4, 0⟩ = some ⟨.white, .king⟩ ∧ P.at ⟨0, 0⟩ = some ⟨.white, .rook⟩
  bks : P.bks = true → P.at ⟨4, 7⟩ = some ⟨.black, .king⟩ ∧ P.at ⟨7, 7⟩ = some ⟨.black, .rook⟩
  bqs : P.bqs = true → P.at ⟨4, 7⟩ = some ⟨.black, .king⟩ ∧ P.at ⟨0, 7⟩ = some ⟨.black, .rook⟩
  ep : ∀ e, P.ep = some e →
    e.file < 8 ∧ e.rank = (match P.side.opp with | .white => 2 | .black => 5) ∧ (P.at e).isNone = true ∧
    P.at ⟨e.file, ((e.rank : Int) + Spec.fwd P.side.opp).toNat⟩ = some ⟨P.side.opp, .pawn⟩ ∧
    (P.at ⟨e.file, ((e.rank : Int) - Spec.fwd P.side.opp).toNat⟩).isNone = true

theorem LP_of (P : Spec.Position) (h : Spec.LegalPosition P = true) : LP P := by
  unfold Spec.LegalPosition at h
  simp only [Bool.and_eq_true, beq_iff_eq, Bool.not_eq_true', List.all_eq_true, decide_eq_true_eq,
    Bool.or_eq_true, bne_iff_ne, ne_eq] at h
  obtain ⟨⟨⟨⟨⟨⟨⟨⟨h1, h2⟩, h3⟩, h4⟩, h5⟩, h6⟩, h7⟩, h8⟩, h9⟩ := h
  refine ⟨h1, h2, h3, ?_, ?_, ?_, ?_, ?_, ?_⟩
  · intro s hs hr
    exact h4 s hs hr
  · intro hw; have := h5 hw; exact this
  · intro hw; have := h6 hw; exact this
  · intro hw; have := h7 hw; exact this
  · intro hw; have := h8 hw; exact this
  · intro e he
    rw [he] at h9
    simp only [Bool.and_eq_true, decide_eq_true_eq, beq_iff_eq] at h9
    obtain ⟨⟨⟨⟨a, b⟩, c⟩, d⟩, f⟩ := h9
    exact ⟨a, b, c, d, f⟩

end Walleye
