/-
  C07, "a larger allowance only extends the sequence of reported improvements".
  Two runs of the same computation, clock expiring at the k-th consultation in the first and later
  (or never) in the second, from states that agree on everything but the expiry, proceed in
  lockstep — same values, same control flow, states still agreeing — until the k-th consultation;
  from then on the first run reports no further improvement (every acceptance at the root is
  guarded by a fresh consultation of the clock, and expiry is sticky) while the second can only
  append.  Packaged compositionally (`Lk`), with rules for pure / bind / if and the primitives, so
  that each function of the search is handled by the same structural tactic as in SearchInv.
-/
import Walleye.Proofs.Hoare
namespace Walleye

variable {P O : Type}

/-- the improvements reported so far -/
def infosOf (rs : Array (Report P)) : List Info :=
  rs.toList.filterMap fun r => match r with | .info i => some i | .sent _ => none

def SS.infos (s : SS P O) : List Info := infosOf s.reports

def Res.st {σ α : Type} : Res σ α → σ
  | .ok _ s => s
  | .panic s => s
  | .fuel s => s

def setE (x : Option Nat) (s : SS P O) : SS P O := { s with expiry := x }

def Res.mapSt {σ α : Type} (f : σ → σ) : Res σ α → Res σ α
  | .ok a s => .ok a (f s)
  | .panic s => .panic (f s)
  | .fuel s => .fuel (f s)

/-- the second clock expires no earlier than the first -/
def Later (k : Nat) : Option Nat → Prop
  | none => True
  | some k' => k ≤ k'

/-- the two runs agree on everything but the expiry, and the first has not expired yet -/
structure Sim (k : Nat) (e2 : Option Nat) (s1 s2 : SS P O) : Prop where
  e1 : s1.expiry = some k
  e2 : s2.expiry = e2
  le : s1.queries ≤ k
  eq : setE none s1 = setE none s2

/-- outcome of the two runs: still in lockstep, or the first has expired and its improvements are
    a prefix of the second's -/
def Out (k : Nat) (e2 : Option Nat) {α : Type} (r1 r2 : Res (SS P O) α) : Prop :=
  (match r1, r2 with
   | .ok a s1, .ok b s2 => a = b ∧ Sim k e2 s1 s2
   | .panic s1, .panic s2 => Sim k e2 s1 s2
   | .fuel s1, .fuel s2 => Sim k e2 s1 s2
   | _, _ => False) ∨
  (r1.st.expired = true ∧ r1.st.infos <+: r2.st.infos)

structure Lk (k : Nat) (e2 : Option Nat) {α : Type} (m : M (SS P O) α) : Prop where
  quiet : ∀ s, s.expired = true → (m s).st.infos = s.infos ∧ (m s).st.expired = true
  mono : ∀ s, s.infos <+: (m s).st.infos
  lock : ∀ s1 s2, Sim k e2 s1 s2 → Out k e2 (m s1) (m s2)

variable {k : Nat} {e2 : Option Nat}

theorem Sim.infos {s1 s2 : SS P O} (h : Sim k e2 s1 s2) : s1.infos = s2.infos := by
  have : (setE none s1).reports = (setE none s2).reports := by rw [h.eq]
  unfold SS.infos
  exact congrArg infosOf this

theorem Lk.pure {α : Type} (a : α) : Lk k e2 (pure a : M (SS P O) α) :=
  ⟨fun s hs => ⟨rfl, hs⟩, fun s => List.prefix_refl _, fun s1 s2 h => Or.inl ⟨rfl, h⟩⟩

theorem bind_st_ok {α β : Type} {m : M (SS P O) α} {f : α → M (SS P O) β} {s s' : SS P O} {a : α}
    (h : m s = .ok a s') : ((m >>= f) s) = f a s' := bind_of_ok h

theorem Lk.bind {α β : Type} {m : M (SS P O) α} {f : α → M (SS P O) β}
    (h1 : Lk k e2 m) (h2 : ∀ a, Lk k e2 (f a)) : Lk k e2 (m >>= f) := by
  refine ⟨?_, ?_, ?_⟩
  · intro s hs
    obtain ⟨q1, q2⟩ := h1.quiet s hs
    cases hm : m s with
    | ok a s' =>
      rw [bind_of_ok hm]; rw [hm] at q1 q2
      obtain ⟨r1, r2⟩ := (h2 a).quiet s' q2
      exact ⟨r1.trans q1, r2⟩
    | panic s' => rw [bind_of_panic hm]; rw [hm] at q1 q2; exact ⟨q1, q2⟩
    | fuel s' => rw [bind_of_fuel hm]; rw [hm] at q1 q2; exact ⟨q1, q2⟩
  · intro s
    have q := h1.mono s
    cases hm : m s with
    | ok a s' => rw [bind_of_ok hm]; rw [hm] at q; exact q.trans ((h2 a).mono s')
    | panic s' => rw [bind_of_panic hm]; rw [hm] at q; exact q
    | fuel s' => rw [bind_of_fuel hm]; rw [hm] at q; exact q
  · intro s1 s2 hsim
    have hl := h1.lock s1 s2 hsim
    -- the states after the continuation, in the diverged case
    have div : (m s1).st.expired = true → (m s1).st.infos <+: (m s2).st.infos →
        Out k e2 ((m >>= f) s1) ((m >>= f) s2) := by
      intro hx hp
      right
      have a1 : ((m >>= f) s1).st.infos = (m s1).st.infos ∧ ((m >>= f) s1).st.expired = true := by
        cases hm : m s1 with
        | ok a s' => rw [bind_of_ok hm]; rw [hm] at hx; exact (h2 a).quiet s' hx
        | panic s' => rw [bind_of_panic hm]; rw [hm] at hx; exact ⟨rfl, hx⟩
        | fuel s' => rw [bind_of_fuel hm]; rw [hm] at hx; exact ⟨rfl, hx⟩
      have a2 : (m s2).st.infos <+: ((m >>= f) s2).st.infos := by
        cases hm : m s2 with
        | ok a s' => rw [bind_of_ok hm]; exact (h2 a).mono s'
        | panic s' => rw [bind_of_panic hm]; exact List.prefix_refl _
        | fuel s' => rw [bind_of_fuel hm]; exact List.prefix_refl _
      exact ⟨a1.2, by rw [a1.1]; exact hp.trans a2⟩
    rcases hl with hl | ⟨hx, hp⟩
    · cases hm1 : m s1 with
      | ok a s1' =>
        cases hm2 : m s2 with
        | ok b s2' =>
          rw [hm1, hm2] at hl
          obtain ⟨rfl, hs⟩ := hl
          rw [bind_of_ok hm1, bind_of_ok hm2]
          exact (h2 a).lock s1' s2' hs
        | panic s2' => rw [hm1, hm2] at hl; exact absurd hl id
        | fuel s2' => rw [hm1, hm2] at hl; exact absurd hl id
      | panic s1' =>
        cases hm2 : m s2 with
        | ok b s2' => rw [hm1, hm2] at hl; exact absurd hl id
        | panic s2' =>
          rw [hm1, hm2] at hl
          rw [bind_of_panic hm1, bind_of_panic hm2]
          exact Or.inl hl
        | fuel s2' => rw [hm1, hm2] at hl; exact absurd hl id
      | fuel s1' =>
        cases hm2 : m s2 with
        | ok b s2' => rw [hm1, hm2] at hl; exact absurd hl id
        | panic s2' => rw [hm1, hm2] at hl; exact absurd hl id
        | fuel s2' =>
          rw [hm1, hm2] at hl
          rw [bind_of_fuel hm1, bind_of_fuel hm2]
          exact Or.inl hl
    · exact div hx hp

theorem Lk.ite {α : Type} {c : Prop} [Decidable c] {m1 m2 : M (SS P O) α}
    (h1 : Lk k e2 m1) (h2 : Lk k e2 m2) : Lk k e2 (if c then m1 else m2) := by
  by_cases hc : c
  · rw [if_pos hc]; exact h1
  · rw [if_neg hc]; exact h2

/-! ### primitives that neither read nor write the clock, and report no improvement -/

structure Agn {α : Type} (m : M (SS P O) α) : Prop where
  comm : ∀ s x, m (setE x s) = (m s).mapSt (setE x)
  q : ∀ s, (m s).st.queries = s.queries
  inf : ∀ s, (m s).st.infos = s.infos

theorem setE_self (s : SS P O) : setE s.expiry s = s := rfl

theorem Agn.expiry {α : Type} {m : M (SS P O) α} (h : Agn m) (s : SS P O) : (m s).st.expiry = s.expiry := by
  have := h.comm s s.expiry
  rw [setE_self] at this
  generalize m s = r at this ⊢
  cases r with
  | ok a t => simp only [Res.mapSt] at this; injection this with _ e; show t.expiry = _; rw [e]; rfl
  | panic t => simp only [Res.mapSt] at this; injection this with e; show t.expiry = _; rw [e]; rfl
  | fuel t => simp only [Res.mapSt] at this; injection this with e; show t.expiry = _; rw [e]; rfl

/-- lockstep outcome, never diverged -/
def Same (k : Nat) (e2 : Option Nat) {α : Type} (r1 r2 : Res (SS P O) α) : Prop :=
  match r1, r2 with
  | .ok a s1, .ok b s2 => a = b ∧ Sim k e2 s1 s2
  | .panic s1, .panic s2 => Sim k e2 s1 s2
  | .fuel s1, .fuel s2 => Sim k e2 s1 s2
  | _, _ => False

theorem expiry_of_comm {α : Type} {m : M (SS P O) α} (hc : ∀ s x, m (setE x s) = (m s).mapSt (setE x)) (s : SS P O) :
    (m s).st.expiry = s.expiry := by
  have := hc s s.expiry
  rw [setE_self] at this
  generalize m s = r at this ⊢
  cases r with
  | ok a t => simp only [Res.mapSt] at this; injection this with _ e; show t.expiry = _; rw [e]; rfl
  | panic t => simp only [Res.mapSt] at this; injection this with e; show t.expiry = _; rw [e]; rfl
  | fuel t => simp only [Res.mapSt] at this; injection this with e; show t.expiry = _; rw [e]; rfl

/-- a computation that commutes with changing the expiry and does not consult the clock stays in lockstep -/
theorem sync_of_comm {α : Type} {m : M (SS P O) α} (hc : ∀ s x, m (setE x s) = (m s).mapSt (setE x))
    (hq : ∀ s, (m s).st.queries = s.queries) (s1 s2 : SS P O) (hsim : Sim k e2 s1 s2) :
    Same k e2 (m s1) (m s2) := by
  have c1 := hc s1 none
  have c2 := hc s2 none
  rw [hsim.eq, c2] at c1
  have x1 := expiry_of_comm hc s1
  have x2 := expiry_of_comm hc s2
  have q1 := hq s1
  generalize m s1 = r1 at c1 x1 q1 ⊢
  generalize m s2 = r2 at c1 x2 ⊢
  have mk : ∀ t1 t2 : SS P O, t1.expiry = s1.expiry → t2.expiry = s2.expiry → t1.queries = s1.queries →
      setE none t2 = setE none t1 → Sim k e2 t1 t2 := by
    intro t1 t2 a b c d
    exact ⟨by rw [a]; exact hsim.e1, by rw [b]; exact hsim.e2, by rw [c]; exact hsim.le, d.symm⟩
  cases r1 <;> cases r2 <;> simp only [Res.mapSt] at c1 <;> first
    | (injection c1 with ea es; exact ⟨ea.symm, mk _ _ x1 x2 q1 es⟩)
    | (injection c1 with es; exact mk _ _ x1 x2 q1 es)
    | (injection c1)

theorem Lk.of_agn {α : Type} {m : M (SS P O) α} (h : Agn m) : Lk k e2 m := by
  have hexp : ∀ s, (m s).st.expired = s.expired := by
    intro s
    unfold SS.expired
    rw [h.expiry s, h.q s]
  exact ⟨fun s hs => ⟨h.inf s, by rw [hexp]; exact hs⟩, fun s => by rw [h.inf s]; exact List.prefix_refl _,
    fun s1 s2 hsim => Or.inl (sync_of_comm h.comm h.q s1 s2 hsim)⟩

theorem nodeSearched_agn : Agn (nodeSearched : M (SS P O) Unit) :=
  ⟨fun _ _ => rfl, fun _ => rfl, fun _ => rfl⟩

theorem insertCur_agn (ply : Nat) (mv : Option Mv) : Agn (insertCur ply mv : M (SS P O) Unit) := by
  refine ⟨fun s x => ?_, fun s => ?_, fun s => ?_⟩
  · unfold insertCur
    by_cases hc : ply < s.cur.size
    · have hc' : ply < (setE x s).cur.size := hc
      rw [if_pos hc, if_pos hc']; rfl
    · have hc' : ¬ ply < (setE x s).cur.size := hc
      rw [if_neg hc, if_neg hc']; rfl
  · unfold insertCur; split <;> rfl
  · unfold insertCur; split <;> rfl

theorem setPV_agn : Agn (setPV : M (SS P O) Unit) :=
  ⟨fun _ _ => rfl, fun _ => rfl, fun _ => rfl⟩

theorem getPV_agn (ply : Nat) : Agn (getPV ply : M (SS P O) (Option Mv)) := by
  refine ⟨fun s x => ?_, fun s => ?_, fun s => ?_⟩
  · unfold getPV
    by_cases hc : ply < s.pv.size
    · have hc' : ply < (setE x s).pv.size := hc
      rw [dif_pos hc, dif_pos hc']; rfl
    · have hc' : ¬ ply < (setE x s).pv.size := hc
      rw [dif_neg hc, dif_neg hc']; rfl
  · unfold getPV; split <;> rfl
  · unfold getPV; split <;> rfl

theorem getKillers_agn (ply : Nat) : Agn (getKillers ply : M (SS P O) (Array (Option Mv))) := by
  refine ⟨fun s x => ?_, fun s => ?_, fun s => ?_⟩
  · unfold getKillers
    by_cases hc : ply < s.killers.size
    · have hc' : ply < (setE x s).killers.size := hc
      rw [dif_pos hc, dif_pos hc']; rfl
    · have hc' : ¬ ply < (setE x s).killers.size := hc
      rw [dif_neg hc, dif_neg hc']; rfl
  · unfold getKillers; split <;> rfl
  · unfold getKillers; split <;> rfl

theorem insertKiller_agn (ply : Nat) (mv : Option Mv) : Agn (insertKiller ply mv : M (SS P O) Unit) := by
  refine ⟨fun s x => ?_, fun s => ?_, fun s => ?_⟩
  · unfold insertKiller
    by_cases hc : ply < s.killers.size
    · have hc' : ply < (setE x s).killers.size := hc
      rw [dif_pos hc, dif_pos hc']
      show (if (s.killers[ply]).contains mv = true then _ else _) = Res.mapSt (setE x) (if (s.killers[ply]).contains mv = true then _ else _)
      by_cases hk : (s.killers[ply]).contains mv = true
      · rw [if_pos hk, if_pos hk]; rfl
      · rw [if_neg hk, if_neg hk]; rfl
    · have hc' : ¬ ply < (setE x s).killers.size := hc
      rw [dif_neg hc, dif_neg hc']; rfl
  · unfold insertKiller; split
    · dsimp only; split <;> rfl
    · rfl
  · unfold insertKiller; split
    · dsimp only; split <;> rfl
    · rfl

theorem tableAdd_agn (key : UInt64) : Agn (tableAdd key : M (SS P O) Unit) := by
  refine ⟨fun s x => ?_, fun s => ?_, fun s => ?_⟩
  · unfold tableAdd
    show (match s.table.add key with | some t => _ | none => _) = _
    cases s.table.add key <;> rfl
  · unfold tableAdd; cases s.table.add key <;> rfl
  · unfold tableAdd; cases s.table.add key <;> rfl

theorem tableRemove_agn (key : UInt64) : Agn (tableRemove key : M (SS P O) Unit) := by
  refine ⟨fun s x => ?_, fun s => ?_, fun s => ?_⟩
  · unfold tableRemove
    show (match s.table.remove key with | some t => _ | none => _) = _
    cases s.table.remove key <;> rfl
  · unfold tableRemove; cases s.table.remove key <;> rfl
  · unfold tableRemove; cases s.table.remove key <;> rfl

theorem infosOf_push_sent (rs : Array (Report P)) (p : P) : infosOf (rs.push (.sent p)) = infosOf rs := by
  unfold infosOf; simp

theorem infosOf_push_info (rs : Array (Report P)) (i : Info) : infosOf (rs.push (.info i)) = infosOf rs ++ [i] := by
  unfold infosOf; simp

theorem reportSent_agn (p : P) : Agn (report (.sent p) : M (SS P O) Unit) :=
  ⟨fun _ _ => rfl, fun _ => rfl, fun s => infosOf_push_sent s.reports p⟩

theorem panic_agn {α : Type} : Agn (M.panic : M (SS P O) α) := ⟨fun _ _ => rfl, fun _ => rfl, fun _ => rfl⟩
theorem outOfFuel_agn {α : Type} : Agn (M.outOfFuel : M (SS P O) α) := ⟨fun _ _ => rfl, fun _ => rfl, fun _ => rfl⟩

/-- the reset at the start of an iteration -/
theorem reset_agn : Agn (M.modify fun s : SS P O => { s with nodes := 0, cur := Array.replicate arrSize none }) :=
  ⟨fun _ _ => rfl, fun _ => rfl, fun _ => rfl⟩

/-! ### the clock and the ordering oracle -/

theorem Sim.queries {s1 s2 : SS P O} (h : Sim k e2 s1 s2) : s1.queries = s2.queries := by
  have : (setE none s1).queries = (setE none s2).queries := by rw [h.eq]
  exact this

theorem Sim.ord {s1 s2 : SS P O} (h : Sim k e2 s1 s2) : s1.ord = s2.ord := by
  have : (setE none s1).ord = (setE none s2).ord := by rw [h.eq]
  exact this

theorem Sim.not_expired {s1 s2 : SS P O} (h : Sim k e2 s1 s2) (hl : Later k e2) :
    s1.expired = false ∧ s2.expired = false := by
  have hq := h.queries
  have hle := h.le
  unfold SS.expired
  rw [h.e1, h.e2]
  constructor
  · simp only [decide_eq_false_iff_not]; omega
  · cases e2 with
    | none => rfl
    | some k' => simp only [Later] at hl; simp only [decide_eq_false_iff_not]; omega

/-- the answer of the clock -/
def clockAns (e : Option Nat) (q : Nat) : Bool :=
  match e with
  | some k => decide (k ≤ q)
  | none => false

theorem tick_def (s : SS P O) : tick s = .ok (clockAns s.expiry s.queries) { s with queries := s.queries + 1 } := rfl

theorem clockAns_later (hl : Later k e2) (q : Nat) (hq : q < k) : clockAns e2 q = false := by
  cases e2 with
  | none => rfl
  | some k' => simp only [Later] at hl; simp only [clockAns, decide_eq_false_iff_not]; omega

theorem Sim.upd {s1 s2 : SS P O} (hsim : Sim k e2 s1 s2) (f : SS P O → SS P O)
    (hx : ∀ s, (f s).expiry = s.expiry) (hc : ∀ s, setE none (f s) = f (setE none s))
    (hq : (f s1).queries ≤ k) : Sim k e2 (f s1) (f s2) :=
  ⟨by rw [hx]; exact hsim.e1, by rw [hx]; exact hsim.e2, hq, by rw [hc, hc, hsim.eq]⟩

theorem tick_lk (hl : Later k e2) : Lk k e2 (tick : M (SS P O) Bool) := by
  refine ⟨?_, fun s => List.prefix_refl _, ?_⟩
  · intro s hs
    refine ⟨rfl, ?_⟩
    show SS.expired { s with queries := s.queries + 1 } = true
    unfold SS.expired at hs ⊢
    cases he : s.expiry with
    | none => rw [he] at hs; cases hs
    | some kk =>
      rw [he] at hs
      simp only [decide_eq_true_eq] at hs ⊢
      omega
  · intro s1 s2 hsim
    have hq := hsim.queries
    have hle := hsim.le
    rw [tick_def, tick_def]
    by_cases hlt : s1.queries < k
    · left
      have b1 : clockAns s1.expiry s1.queries = false := by
        rw [hsim.e1]; simp only [clockAns, decide_eq_false_iff_not]; omega
      have b2 : clockAns s2.expiry s2.queries = false := by
        rw [hsim.e2]; exact clockAns_later hl _ (by omega)
      rw [b1, b2]
      exact ⟨rfl, hsim.upd (fun s => { s with queries := s.queries + 1 }) (fun _ => rfl) (fun _ => rfl)
        (by show s1.queries + 1 ≤ k; omega)⟩
    · right
      refine ⟨?_, ?_⟩
      · show SS.expired { s1 with queries := s1.queries + 1 } = true
        unfold SS.expired
        show (match s1.expiry with | some k => decide (k < s1.queries + 1) | none => false) = true
        rw [hsim.e1]
        simp only [decide_eq_true_eq]; omega
      · show SS.infos { s1 with queries := s1.queries + 1 } <+: SS.infos { s2 with queries := s2.queries + 1 }
        have : SS.infos { s1 with queries := s1.queries + 1 } = s1.infos := rfl
        rw [this, hsim.infos]
        exact List.prefix_refl _

theorem order_lk (hl : Later k e2) (ord : Oracle P O) (site : Char) (l : List P) :
    Lk k e2 (order ord site l) := by
  refine ⟨fun s hs => ⟨rfl, hs⟩, fun s => List.prefix_refl _, ?_⟩
  intro s1 s2 hsim
  left
  obtain ⟨x1, x2⟩ := hsim.not_expired hl
  have o1 : order ord site l s1 = .ok (ord s1.ord false site l).1 { s1 with ord := (ord s1.ord false site l).2 } := by
    unfold order; rw [x1]
  have o2 : order ord site l s2 = .ok (ord s1.ord false site l).1 { s2 with ord := (ord s1.ord false site l).2 } := by
    unfold order; rw [x2, hsim.ord]
  rw [o1, o2]
  exact ⟨rfl, hsim.upd (fun s => { s with ord := (ord s1.ord false site l).2 }) (fun _ => rfl) (fun _ => rfl) hsim.le⟩

/-! ### the accepting block of the root loop -/

/-- only `mono` and `lock`: a computation that may report an improvement (used under a fresh clock test) -/
structure WLk (k : Nat) (e2 : Option Nat) {α : Type} (m : M (SS P O) α) : Prop where
  mono : ∀ s, s.infos <+: (m s).st.infos
  lock : ∀ s1 s2, Sim k e2 s1 s2 → Out k e2 (m s1) (m s2)

theorem Lk.toW {α : Type} {m : M (SS P O) α} (h : Lk k e2 m) : WLk k e2 m := ⟨h.mono, h.lock⟩

/-- a clock-agnostic step (which may append reports) followed by a `WLk` continuation -/
theorem WLk.bind_comm {α β : Type} {m : M (SS P O) α} {f : α → M (SS P O) β}
    (hc : ∀ s x, m (setE x s) = (m s).mapSt (setE x)) (hq : ∀ s, (m s).st.queries = s.queries)
    (hm : ∀ s, s.infos <+: (m s).st.infos) (h2 : ∀ a, WLk k e2 (f a)) : WLk k e2 (m >>= f) := by
  refine ⟨?_, ?_⟩
  · intro s
    have q := hm s
    cases hms : m s with
    | ok a s' => rw [bind_of_ok hms]; rw [hms] at q; exact q.trans ((h2 a).mono s')
    | panic s' => rw [bind_of_panic hms]; rw [hms] at q; exact q
    | fuel s' => rw [bind_of_fuel hms]; rw [hms] at q; exact q
  · intro s1 s2 hsim
    have hs := sync_of_comm hc hq s1 s2 hsim
    cases hm1 : m s1 with
    | ok a s1' =>
      cases hm2 : m s2 with
      | ok b s2' =>
        rw [hm1, hm2] at hs
        obtain ⟨rfl, hs⟩ := hs
        rw [bind_of_ok hm1, bind_of_ok hm2]
        exact (h2 a).lock s1' s2' hs
      | panic s2' => rw [hm1, hm2] at hs; exact absurd hs id
      | fuel s2' => rw [hm1, hm2] at hs; exact absurd hs id
    | panic s1' =>
      cases hm2 : m s2 with
      | ok b s2' => rw [hm1, hm2] at hs; exact absurd hs id
      | panic s2' => rw [hm1, hm2] at hs; rw [bind_of_panic hm1, bind_of_panic hm2]; exact Or.inl hs
      | fuel s2' => rw [hm1, hm2] at hs; exact absurd hs id
    | fuel s1' =>
      cases hm2 : m s2 with
      | ok b s2' => rw [hm1, hm2] at hs; exact absurd hs id
      | panic s2' => rw [hm1, hm2] at hs; exact absurd hs id
      | fuel s2' => rw [hm1, hm2] at hs; rw [bind_of_fuel hm1, bind_of_fuel hm2]; exact Or.inl hs

theorem sendInfo_infos (d : Nat) (e : Int) (s : SS P O) :
    (sendInfo d e s).st.infos = s.infos ++ [⟨pvPrefix s.pv, d, s.nodes, e⟩] :=
  infosOf_push_info s.reports _

/-- the block `report (sent m); setPV; sendInfo d e; rest` -/
theorem acceptBlock_wlk {α : Type} (mv : P) (d : Nat) (e : Int) (rest : M (SS P O) α) (hr : Lk k e2 rest) :
    WLk k e2 (do report (.sent mv); setPV; sendInfo d e; rest) := by
  apply WLk.bind_comm (fun _ _ => rfl) (fun _ => rfl)
    (fun s => by rw [(reportSent_agn mv).inf s]; exact List.prefix_refl _)
  intro _
  apply WLk.bind_comm (fun _ _ => rfl) (fun _ => rfl) (fun s => List.prefix_refl _)
  intro _
  apply WLk.bind_comm (fun _ _ => rfl) (fun _ => rfl)
    (fun s => by rw [sendInfo_infos]; exact List.prefix_append _ _)
  intro _
  exact hr.toW

/-- an acceptance guarded by a fresh consultation of the clock: once expired, nothing is accepted -/
theorem guard_lk {α : Type} (hl : Later k e2) (c : Prop) [Decidable c] (B C : M (SS P O) α)
    (hB : WLk k e2 B) (hC : Lk k e2 C) :
    Lk k e2 (if c then (tick >>= fun t => (Pure.pure (!t) : M (SS P O) Bool) >>= fun accept => if accept = true then B else C)
      else ((Pure.pure false : M (SS P O) Bool) >>= fun accept => if accept = true then B else C)) := by
  by_cases hc : c
  · rw [if_pos hc]
    have e : ∀ s : SS P O,
        (tick >>= fun t => (Pure.pure (!t) : M (SS P O) Bool) >>= fun accept => if accept = true then B else C) s =
          (if (!(clockAns s.expiry s.queries)) = true then B else C) { s with queries := s.queries + 1 } := by
      intro s
      rw [bind_of_ok (tick_def s)]
      rfl
    refine ⟨?_, ?_, ?_⟩
    · intro s hs
      have ht : clockAns s.expiry s.queries = true := by
        unfold SS.expired at hs
        cases he : s.expiry with
        | none => rw [he] at hs; cases hs
        | some kk => rw [he] at hs; simp only [decide_eq_true_eq] at hs; simp only [clockAns, decide_eq_true_eq]; omega
      have hx := ((tick_lk (P := P) (O := O) hl).quiet s hs).2
      rw [tick_def] at hx
      rw [e, ht]
      simp only [Bool.not_true, Bool.false_eq_true, if_false]
      exact hC.quiet _ hx
    · intro s
      rw [e]
      have h0 : s.infos = SS.infos { s with queries := s.queries + 1 } := rfl
      rw [h0]
      split
      · exact hB.mono _
      · exact hC.mono _
    · intro s1 s2 hsim
      rw [e s1, e s2]
      have hq := hsim.queries
      have hle := hsim.le
      by_cases hlt : s1.queries < k
      · have b1 : clockAns s1.expiry s1.queries = false := by
          rw [hsim.e1]; simp only [clockAns, decide_eq_false_iff_not]; omega
        have b2 : clockAns s2.expiry s2.queries = false := by
          rw [hsim.e2]; exact clockAns_later hl _ (by omega)
        rw [b1, b2]
        simp only [Bool.not_false, if_true]
        exact hB.lock _ _ (hsim.upd (fun s => { s with queries := s.queries + 1 }) (fun _ => rfl) (fun _ => rfl)
          (by show s1.queries + 1 ≤ k; omega))
      · right
        have b1 : clockAns s1.expiry s1.queries = true := by
          rw [hsim.e1]; simp only [clockAns, decide_eq_true_eq]; omega
        rw [b1]
        simp only [Bool.not_true, Bool.false_eq_true, if_false]
        have hx : SS.expired { s1 with queries := s1.queries + 1 } = true := by
          unfold SS.expired
          show (match s1.expiry with | some k => decide (k < s1.queries + 1) | none => false) = true
          rw [hsim.e1]; simp only [decide_eq_true_eq]; omega
        obtain ⟨q1, q2⟩ := hC.quiet _ hx
        refine ⟨q2, ?_⟩
        rw [q1]
        have h1 : SS.infos { s1 with queries := s1.queries + 1 } = s2.infos := hsim.infos
        have h2 : s2.infos = SS.infos { s2 with queries := s2.queries + 1 } := rfl
        rw [h1, h2]
        split
        · exact hB.mono _
        · exact hC.mono _
  · rw [if_neg hc]
    exact hC

end Walleye
