/-
  C09: the time slice never exceeds the mover's clock, is at most 80 % of (clock − 100 ms) / moves
  to go up to binary64 rounding, and is zero without usable clock and increment — for ALL integer
  clocks and increments (no size bound), every moves-to-go ≥ 1 that fits a u32.
-/
import Walleye.Proofs.Float
namespace Walleye
open F64

/-- the body of `calculateTimeSlice` on the mover's own numbers -/
def sliceCore (clockI incI : Int) (mtgN : Nat) : Nat :=
  let clock := ofInt clockI
  let increment := ofInt incI
  let base := sub clock (ofInt Gen.safeguardMs)
  if le base zero then
    if lt zero increment then
      let planned : Dy := ofInt (roundHalfAway (mul increment maxUsage))
      toU128 (roundHalfAway (fmin planned (fmax clock zero)))
    else Gen.noTime
  else
    if mtgN = 0 then 2 ^ 128 - 1
    else toU128 (roundHalfAway (div (mul base maxUsage) (ofInt mtgN)))

def moverClock (gt : GameTime) : Color → Int
  | .white => gt.wtime
  | .black => gt.btime

def moverInc (gt : GameTime) : Color → Int
  | .white => gt.winc
  | .black => gt.binc

theorem calculateTimeSlice_eq (gt : GameTime) (c : Color) :
    calculateTimeSlice gt c = sliceCore (moverClock gt c) (moverInc gt c) gt.mtg := by
  cases c <;> rfl

theorem val_safeguard : val (ofInt (Gen.safeguardMs : Nat)) = 100 := by
  have := ofInt_exact 100 (by norm_num)
  simpa [Gen.safeguardMs] using this

/-- the clock as a double never exceeds 100 when the clock is at most 100 -/
theorem clock_small (clockI : Int) (h : clockI ≤ 100) : val (ofInt clockI) ≤ 100 := by
  rcases le_or_gt clockI 0 with h0 | h0
  · have := ofInt_nonpos clockI h0; linarith
  · have habs : |clockI| < 2 ^ 53 := by rw [abs_of_pos h0]; omega
    rw [ofInt_exact clockI habs]
    exact_mod_cast h

/-- ... and exceeds 100 when the clock is at least 101 -/
theorem clock_large (clockI : Int) (h : 101 ≤ clockI) : 100 < val (ofInt clockI) := by
  obtain ⟨h1, _, _⟩ := ofInt_pos clockI (by omega)
  have hc : (101 : ℚ) ≤ clockI := by exact_mod_cast h
  have : (clockI : ℚ) * (1 - 1 / 2 ^ 53) ≥ 101 * (1 - 1 / 2 ^ 53) := by
    apply mul_le_mul_of_nonneg_right hc; norm_num
  have : (101 : ℚ) * (1 - 1 / 2 ^ 53) > 100 := by norm_num
  linarith

theorem base_le_zero_iff (clockI : Int) :
    le (sub (ofInt clockI) (ofInt (Gen.safeguardMs : Nat))) zero = true ↔ clockI ≤ 100 := by
  rw [le_spec, val_zero]
  constructor
  · intro h
    by_contra hc
    have h101 : 101 ≤ clockI := by omega
    have := clock_large clockI h101
    obtain ⟨_, _, hpos⟩ := sub_pos (ofInt clockI) (ofInt (Gen.safeguardMs : Nat)) (by rw [val_safeguard]; exact this)
    linarith
  · intro h
    exact sub_nonpos _ _ (by rw [val_safeguard]; exact clock_small clockI h)

/-- **C09**: no usable clock and no increment ⇒ the slice is zero -/
theorem slice_zero (clockI incI : Int) (mtgN : Nat) (hc : clockI ≤ 100) (hi : incI ≤ 0) :
    sliceCore clockI incI mtgN = 0 := by
  unfold sliceCore
  simp only
  rw [if_pos ((base_le_zero_iff clockI).mpr hc)]
  have : ¬ (lt zero (ofInt incI) = true) := by
    rw [lt_spec, val_zero]
    have := ofInt_nonpos incI hi
    linarith
  rw [if_neg this]
  rfl

theorem toU128_le_of_le (n M : ℤ) (hM : 0 ≤ M) (h : n ≤ M) : (toU128 n : ℤ) ≤ M := by
  rcases le_or_gt n 0 with h0 | h0
  · have : toU128 n = 0 := by unfold toU128; rw [if_pos h0]
    rw [this]; simpa using hM
  · exact le_trans (toU128_le n h0.le) h

/-- an integer that is at most half above a rational `≤ M` is at most `M` -/
theorem int_le_of_le_half (n M : ℤ) (x : ℚ) (h1 : (n : ℚ) ≤ x + 1 / 2) (h2 : x ≤ M) : n ≤ M := by
  by_contra hc
  have : M + 1 ≤ n := by omega
  have : ((M + 1 : ℤ) : ℚ) ≤ n := by exact_mod_cast this
  push_cast at this
  linarith

/-- the increment branch is capped by the clock -/
theorem slice_inc_branch (clockI incI : Int) (hc : clockI ≤ 100) :
    (toU128 (roundHalfAway (fmin (ofInt (roundHalfAway (mul (ofInt incI) maxUsage))) (fmax (ofInt clockI) zero))) : ℤ)
      ≤ max clockI 0 := by
  apply toU128_le_of_le _ _ (le_max_right _ _)
  apply int_le_of_le_half _ _ _ (rha_le _)
  refine le_trans (fmin_le_right _ _) ?_
  rw [fmax_zero]
  rcases le_or_gt clockI 0 with h0 | h0
  · have := ofInt_nonpos clockI h0
    rw [max_eq_right this, max_eq_right h0]; simp
  · have habs : |clockI| < 2 ^ 53 := by rw [abs_of_pos h0]; omega
    rw [ofInt_exact clockI habs, max_eq_left h0.le]
    have : (0 : ℚ) < clockI := by exact_mod_cast h0
    rw [max_eq_left this.le]

theorem maxUsage_spec : val maxUsage ≤ 4 / 5 * (1 + 1 / 2 ^ 53) ∧ 0 < maxUsage.m := by
  have := round53_pos (Gen.maxUsageNum : ℤ) (by decide) Gen.maxUsageDen (by decide) 0
  have e : (((Gen.maxUsageNum : ℕ) : ℤ) : ℚ) / ((Gen.maxUsageDen : ℕ) : ℚ) * (2 : ℚ) ^ (0 : ℤ) = 4 / 5 := by
    norm_num [Gen.maxUsageNum, Gen.maxUsageDen]
  rw [e] at this
  exact ⟨this.2.1, (val_pos_iff _).mp this.2.2⟩

/-- the main chain: for a clock above the margin the un-rounded plan `w` is at most
    `4/5 * (clock - 100) / mtg * (1 + 2^-50)` -/
theorem plan_bound (clockI : Int) (mtgN : Nat) (hc : 101 ≤ clockI) (hm : 1 ≤ mtgN) (hm32 : mtgN < 2 ^ 32) :
    val (div (mul (sub (ofInt clockI) (ofInt (Gen.safeguardMs : Nat))) maxUsage) (ofInt mtgN)) ≤
      4 / 5 * ((clockI : ℚ) - 100) / mtgN * (1 + 1 / 2 ^ 50) := by
  have hK : (0 : ℚ) < (clockI : ℚ) - 100 := by
    have : (101 : ℚ) ≤ clockI := by exact_mod_cast hc
    linarith
  -- A: the clock as a double
  have hA : val (ofInt clockI) - 100 ≤ ((clockI : ℚ) - 100) * (1 + 2 / 2 ^ 53) := by
    rcases lt_or_ge clockI (2 ^ 53) with hs | hs
    · have habs : |clockI| < 2 ^ 53 := by rw [abs_of_pos (by omega)]; exact hs
      rw [ofInt_exact clockI habs]
      have : (0 : ℚ) ≤ ((clockI : ℚ) - 100) * (2 / 2 ^ 53) := by positivity
      linarith
    · obtain ⟨_, h2, _⟩ := ofInt_pos clockI (by omega)
      have hb : ((2 : ℚ) ^ 53) ≤ clockI := by exact_mod_cast hs
      have : (clockI : ℚ) ≤ 2 * ((clockI : ℚ) - 100) := by
        have : (200 : ℚ) ≤ 2 ^ 53 := by norm_num
        linarith
      nlinarith
  have hcl := clock_large clockI hc
  obtain ⟨_, hB, hBpos⟩ := sub_pos (ofInt clockI) (ofInt (Gen.safeguardMs : Nat)) (by rw [val_safeguard]; exact hcl)
  rw [val_safeguard] at hB
  set base := sub (ofInt clockI) (ofInt (Gen.safeguardMs : Nat)) with hbase
  obtain ⟨hC, hmu⟩ := maxUsage_spec
  have hbm : 0 < base.m := (val_pos_iff _).mp hBpos
  obtain ⟨_, hD, hDpos⟩ := mul_pos' base maxUsage hbm hmu
  have htm : 0 < (mul base maxUsage).m := (val_pos_iff _).mp hDpos
  have hg : val (ofInt (mtgN : ℤ)) = mtgN := by
    have := ofInt_exact (mtgN : ℤ) (by
      rw [abs_of_nonneg (by positivity)]
      have : (mtgN : ℤ) < 2 ^ 32 := by exact_mod_cast hm32
      omega)
    simpa using this
  have hgq : (0 : ℚ) < mtgN := by exact_mod_cast hm
  have hgm : 0 < (ofInt (mtgN : ℤ)).m := (val_pos_iff _).mp (by rw [hg]; exact hgq)
  obtain ⟨_, hE, _⟩ := div_pos' (mul base maxUsage) (ofInt (mtgN : ℤ)) htm hgm
  rw [hg] at hE
  have hmupos : (0 : ℚ) < val maxUsage := (val_pos_iff _).mpr hmu
  -- assemble
  set K := (clockI : ℚ) - 100 with hKdef
  have u1 : (0 : ℚ) ≤ 1 + 1 / 2 ^ 53 := by norm_num
  have b1 : val base ≤ K * (1 + 2 / 2 ^ 53) * (1 + 1 / 2 ^ 53) :=
    le_trans hB (mul_le_mul_of_nonneg_right hA u1)
  have b2 : val base * val maxUsage ≤ K * (1 + 2 / 2 ^ 53) * (1 + 1 / 2 ^ 53) * (4 / 5 * (1 + 1 / 2 ^ 53)) :=
    mul_le_mul b1 hC hmupos.le (by positivity)
  have b3 : val (mul base maxUsage) ≤
      K * (1 + 2 / 2 ^ 53) * (1 + 1 / 2 ^ 53) * (4 / 5 * (1 + 1 / 2 ^ 53)) * (1 + 1 / 2 ^ 53) :=
    le_trans hD (mul_le_mul_of_nonneg_right b2 u1)
  have b4 : val (mul base maxUsage) / mtgN ≤
      K * (1 + 2 / 2 ^ 53) * (1 + 1 / 2 ^ 53) * (4 / 5 * (1 + 1 / 2 ^ 53)) * (1 + 1 / 2 ^ 53) / mtgN :=
    div_le_div_of_nonneg_right b3 hgq.le
  have b5 := le_trans hE (mul_le_mul_of_nonneg_right b4 u1)
  refine le_trans b5 ?_
  have num : (1 + 2 / 2 ^ 53 : ℚ) * (1 + 1 / 2 ^ 53) * (1 + 1 / 2 ^ 53) * (1 + 1 / 2 ^ 53) * (1 + 1 / 2 ^ 53) ≤ 1 + 1 / 2 ^ 50 := by
    norm_num
  have hKm : (0 : ℚ) ≤ 4 / 5 * K / mtgN := by positivity
  calc K * (1 + 2 / 2 ^ 53) * (1 + 1 / 2 ^ 53) * (4 / 5 * (1 + 1 / 2 ^ 53)) * (1 + 1 / 2 ^ 53) / mtgN * (1 + 1 / 2 ^ 53)
      = 4 / 5 * K / mtgN * ((1 + 2 / 2 ^ 53 : ℚ) * (1 + 1 / 2 ^ 53) * (1 + 1 / 2 ^ 53) * (1 + 1 / 2 ^ 53) * (1 + 1 / 2 ^ 53)) := by ring
    _ ≤ 4 / 5 * K / mtgN * (1 + 1 / 2 ^ 50) := mul_le_mul_of_nonneg_left num hKm

/-- **C09**: with more than the margin on the clock the slice is at most 80 % of (clock − 100)/mtg,
    up to binary64 rounding (relative 2^-50) and rounding to whole milliseconds (½) -/
theorem slice_share (clockI incI : Int) (mtgN : Nat) (hc : 101 ≤ clockI) (hm : 1 ≤ mtgN) (hm32 : mtgN < 2 ^ 32) :
    ((sliceCore clockI incI mtgN : ℕ) : ℚ) ≤ 4 / 5 * ((clockI : ℚ) - 100) / mtgN * (1 + 1 / 2 ^ 50) + 1 / 2 := by
  unfold sliceCore
  simp only
  have hb : ¬ (le (sub (ofInt clockI) (ofInt (Gen.safeguardMs : Nat))) zero = true) := by
    rw [base_le_zero_iff]; omega
  rw [if_neg hb, if_neg (by omega)]
  have hw := plan_bound clockI mtgN hc hm hm32
  have hr := rha_le (div (mul (sub (ofInt clockI) (ofInt (Gen.safeguardMs : Nat))) maxUsage) (ofInt mtgN))
  set n := roundHalfAway (div (mul (sub (ofInt clockI) (ofInt (Gen.safeguardMs : Nat))) maxUsage) (ofInt mtgN))
  have hbound : (0 : ℚ) ≤ 4 / 5 * ((clockI : ℚ) - 100) / mtgN * (1 + 1 / 2 ^ 50) + 1 / 2 := by
    have : (101 : ℚ) ≤ clockI := by exact_mod_cast hc
    have : (0 : ℚ) < (clockI : ℚ) - 100 := by linarith
    positivity
  rcases le_or_gt n 0 with h0 | h0
  · have : toU128 n = 0 := by unfold toU128; rw [if_pos h0]
    rw [this]; simpa using hbound
  · have h1 := toU128_le n h0.le
    have h2 : ((toU128 n : ℕ) : ℚ) ≤ (n : ℚ) := by exact_mod_cast h1
    linarith

/-- **C09**: the slice never exceeds the mover's remaining clock -/
theorem slice_le_clock (clockI incI : Int) (mtgN : Nat) (hm : 1 ≤ mtgN) (hm32 : mtgN < 2 ^ 32) :
    ((sliceCore clockI incI mtgN : ℕ) : ℤ) ≤ max clockI 0 := by
  rcases le_or_gt clockI 100 with hc | hc
  · unfold sliceCore
    simp only
    rw [if_pos ((base_le_zero_iff clockI).mpr hc)]
    split
    · exact slice_inc_branch clockI incI hc
    · simp [Gen.noTime]
  · have hc' : 101 ≤ clockI := by omega
    have h := slice_share clockI incI mtgN hc' hm hm32
    have hq : (101 : ℚ) ≤ clockI := by exact_mod_cast hc'
    have hgq : (1 : ℚ) ≤ mtgN := by exact_mod_cast hm
    have hK : (0 : ℚ) < (clockI : ℚ) - 100 := by linarith
    have hdiv : 4 / 5 * ((clockI : ℚ) - 100) / mtgN ≤ 4 / 5 * ((clockI : ℚ) - 100) := by
      apply div_le_self (by positivity) hgq
    have hfac : 4 / 5 * ((clockI : ℚ) - 100) / mtgN * (1 + 1 / 2 ^ 50) ≤ 4 / 5 * ((clockI : ℚ) - 100) * (1 + 1 / 2 ^ 50) :=
      mul_le_mul_of_nonneg_right hdiv (by norm_num)
    have hlt : ((sliceCore clockI incI mtgN : ℕ) : ℚ) < (clockI : ℚ) + 1 := by
      have : 4 / 5 * ((clockI : ℚ) - 100) * (1 + 1 / 2 ^ 50) ≤ 81 / 100 * ((clockI : ℚ) - 100) := by
        have : (4 / 5 : ℚ) * (1 + 1 / 2 ^ 50) ≤ 81 / 100 := by norm_num
        nlinarith
      linarith
    have : ((sliceCore clockI incI mtgN : ℕ) : ℤ) < clockI + 1 := by exact_mod_cast hlt
    rw [max_eq_left (by omega)]
    omega

end Walleye
