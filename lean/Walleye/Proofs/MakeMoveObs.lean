/-
  C04: replaying the text of a legal move with `make_move` gives the same position as the generator's
  own successor for that move (board, side, rights, en passant target, king caches; the key follows
  from `KeyOK` of both).
-/
import Walleye.Proofs.UciTextFacts
import Walleye.Proofs.MakeMoveKey
import Walleye.Proofs.LegalPres
namespace Walleye
open Str

variable (h : Hasher)

/-- stage B with the substring tests replaced by what they mean -/
def mkB' (b : Pos) (sp ep : Point) : Pos :=
  let b := if sp = ⟨2, 2⟩ ∨ ep = ⟨2, 2⟩ then b.takeAway h .bqs else b
  let b := if sp = ⟨2, 9⟩ ∨ ep = ⟨2, 9⟩ then b.takeAway h .bks else b
  let b := if sp = ⟨9, 2⟩ ∨ ep = ⟨9, 2⟩ then b.takeAway h .wqs else b
  if sp = ⟨9, 9⟩ ∨ ep = ⟨9, 9⟩ then b.takeAway h .wks else b

/-- stage D with the promotion piece read off the move -/
def mkD' (b : Pos) (pr : Option Kind) (ep : Point) : Pos :=
  match pr with
  | some k => { b with key := b.key ^^^ (h.piece ⟨b.toMove, .pawn⟩ ep ^^^ h.piece ⟨b.toMove, k⟩ ep),
                       board := b.board.set ep.row ep.col (.full ⟨b.toMove, k⟩) }
  | none => b

/-- stage E with the four literal strings replaced by the squares they name -/
def mkE' (b : Pos) (sp ep : Point) (pr : Option Kind) : Pos :=
  let tgt := b.board.get ep.row ep.col
  let b :=
    if (sp = ⟨9, 6⟩ ∧ ep = ⟨9, 8⟩ ∧ pr = none) ∧ tgt.isPiece ⟨.white, .king⟩ then b.movePiece h ⟨9, 9⟩ ⟨9, 7⟩
    else if (sp = ⟨9, 6⟩ ∧ ep = ⟨9, 4⟩ ∧ pr = none) ∧ tgt.isPiece ⟨.white, .king⟩ then b.movePiece h ⟨9, 2⟩ ⟨9, 5⟩
    else if (sp = ⟨2, 6⟩ ∧ ep = ⟨2, 8⟩ ∧ pr = none) ∧ tgt.isPiece ⟨.black, .king⟩ then b.movePiece h ⟨2, 9⟩ ⟨2, 7⟩
    else if (sp = ⟨2, 6⟩ ∧ ep = ⟨2, 4⟩ ∧ pr = none) ∧ tgt.isPiece ⟨.black, .king⟩ then b.movePiece h ⟨2, 2⟩ ⟨2, 5⟩
    else b
  b.swapColor h

/-- `make_move` on the printed text of a move, with every string operation evaluated -/
theorem makeMove_text (p : Pos) (sp ep : Point) (pr : Option Kind) (hsp : OnBoard sp) (hep : OnBoard ep)
    (hpr : pr ∈ promos) (piece : Piece) (hpc : p.board.get sp.row sp.col = .full piece) :
    makeMove h p (uciOf sp ep pr) =
      some (mkE' h (mkD' h ((mkB' h (mkA h (p.unsetEp h) sp ep piece) sp ep).movePiece h sp ep) pr ep) sp ep pr) := by
  have hok := textOK_of sp ep pr hsp hep hpr
  unfold textOK at hok
  simp only [Bool.and_eq_true, beq_iff_eq] at hok
  obtain ⟨⟨⟨⟨⟨⟨⟨⟨⟨⟨⟨⟨⟨f1, f2⟩, f3⟩, f4⟩, c1⟩, c2⟩, c3⟩, c4⟩, l5⟩, l4⟩, s1⟩, s2⟩, s3⟩, s4⟩ := hok
  rw [makeMove_eq, f1, f2]
  simp only [f3, f4, unsetEp_board, hpc]
  rw [mkCore_eq]
  -- stage B
  have hB : ∀ b : Pos, mkB h b (uciOf sp ep pr) = mkB' h b sp ep := by
    intro b
    unfold mkB mkB'
    simp only [c1, c2, c3, c4, Bool.or_eq_true, decide_eq_true_eq]
  -- stage D
  have hD : ∀ b : Pos, mkD h b (uciOf sp ep pr) ep = some (mkD' h b pr ep) := by
    intro b
    unfold mkD mkD'
    cases pr with
    | none =>
      have : ¬ byteLen (uciOf sp ep none) = 5 := by simpa using l5
      rw [if_neg this]
    | some k =>
      have : byteLen (uciOf sp ep (some k)) = 5 := by simpa using l5
      rw [if_pos this]
      simp only at l4
      cases hx : (uciOf sp ep (some k))[4]? with
      | none => rw [hx] at l4; simp at l4
      | some ch =>
        rw [hx] at l4
        have hk : letterKind ch = k := by simpa using l4
        unfold letterKind at hk
        simp only [hk]
  -- stage E
  have hE : ∀ b : Pos, mkE h b (uciOf sp ep pr) ep = mkE' h b sp ep pr := by
    intro b
    unfold mkE mkE'
    have e1 : (uciOf sp ep pr = Gen.wksStr.toList) ↔ (sp = ⟨9, 6⟩ ∧ ep = ⟨9, 8⟩ ∧ pr = none) := by
      have := s1; rw [Bool.eq_iff_iff] at this; simpa [and_assoc, Option.isNone_iff_eq_none] using this
    have e2 : (uciOf sp ep pr = Gen.wqsStr.toList) ↔ (sp = ⟨9, 6⟩ ∧ ep = ⟨9, 4⟩ ∧ pr = none) := by
      have := s2; rw [Bool.eq_iff_iff] at this; simpa [and_assoc, Option.isNone_iff_eq_none] using this
    have e3 : (uciOf sp ep pr = Gen.bksStr.toList) ↔ (sp = ⟨2, 6⟩ ∧ ep = ⟨2, 8⟩ ∧ pr = none) := by
      have := s3; rw [Bool.eq_iff_iff] at this; simpa [and_assoc, Option.isNone_iff_eq_none] using this
    have e4 : (uciOf sp ep pr = Gen.bqsStr.toList) ↔ (sp = ⟨2, 6⟩ ∧ ep = ⟨2, 4⟩ ∧ pr = none) := by
      have := s4; rw [Bool.eq_iff_iff] at this; simpa [and_assoc, Option.isNone_iff_eq_none] using this
    simp only [e1, e2, e3, e4]
  rw [hB, hD]
  simp only [hE]

theorem Board.ext_get (a b : Board) (hg : ∀ r c, a.get r c = b.get r c) : a = b := by
  cases a with | mk ca sa => cases b with | mk cb sb =>
  have : ca = cb := by
    apply Array.ext (by rw [sa, sb])
    intro i h1 h2
    have hi : i < 144 := by rw [sa] at h1; exact h1
    have := hg (i / 12) (i % 12)
    unfold Board.get at this
    simp only [show i / 12 < 12 ∧ i % 12 < 12 from ⟨by omega, by omega⟩, dite_true] at this
    have e : i / 12 * 12 + i % 12 = i := by omega
    simp only [e] at this
    exact this
  subst this; rfl

theorem Board.set_comm (b : Board) (r1 c1 r2 c2 : Nat) (v w : Square) (hne : ¬ (r1 = r2 ∧ c1 = c2)) :
    (b.set r1 c1 v).set r2 c2 w = (b.set r2 c2 w).set r1 c1 v := by
  apply Board.ext_get
  intro r c
  by_cases h2 : r2 = r ∧ c2 = c
  · obtain ⟨rfl, rfl⟩ := h2
    by_cases hb : r2 < 12 ∧ c2 < 12
    · rw [Board.get_set_eq _ _ _ _ hb.1 hb.2, Board.get_set_ne _ _ _ _ _ _ hne, Board.get_set_eq _ _ _ _ hb.1 hb.2]
    · unfold Board.get; rw [dif_neg hb, dif_neg hb]
  · rw [Board.get_set_ne _ _ _ _ _ _ h2]
    by_cases h1 : r1 = r ∧ c1 = c
    · obtain ⟨rfl, rfl⟩ := h1
      by_cases hb : r1 < 12 ∧ c1 < 12
      · rw [Board.get_set_eq _ _ _ _ hb.1 hb.2, Board.get_set_eq _ _ _ _ hb.1 hb.2]
      · unfold Board.get; rw [dif_neg hb, dif_neg hb]
    · rw [Board.get_set_ne _ _ _ _ _ _ h1, Board.get_set_ne _ _ _ _ _ _ h1, Board.get_set_ne _ _ _ _ _ _ h2]

/-- what C04 compares: everything but the bookkeeping fields (descriptor, ordering score) and the
    key, which follows from `KeyOK` -/
structure Obs (a b : Pos) : Prop where
  board : a.board = b.board
  toMove : a.toMove = b.toMove
  rights : ∀ ct, a.right ct = b.right ct
  ep : a.ep = b.ep
  wk : a.wk = b.wk
  bk : a.bk = b.bk

theorem Obs.key (a b : Pos) (ho : Obs a b) (ha : KeyOK h a) (hb : KeyOK h b) : a.key = b.key := by
  unfold KeyOK scratchKey at *
  have r1 := ho.rights .wks; have r2 := ho.rights .wqs; have r3 := ho.rights .bks; have r4 := ho.rights .bqs
  simp only [Pos.right] at r1 r2 r3 r4
  rw [ha, hb, ho.board, ho.toMove, r1, r2, r3, r4, ho.ep]

/-! ### fields of the `make_move` pipeline -/

theorem mkB'_fields (b : Pos) (sp ep : Point) :
    (mkB' h b sp ep).board = b.board ∧ (mkB' h b sp ep).toMove = b.toMove ∧ (mkB' h b sp ep).ep = b.ep ∧
    (mkB' h b sp ep).wk = b.wk ∧ (mkB' h b sp ep).bk = b.bk := by
  unfold mkB'
  refine ⟨?_, ?_, ?_, ?_, ?_⟩ <;> (simp only; repeat' split) <;> simp

theorem ite_takeAway_right (b : Pos) (c : Prop) [Decidable c] (ct' ct : CastlingType) :
    (if c then b.takeAway h ct' else b).right ct = (b.right ct && !(decide c && decide (ct' = ct))) := by
  by_cases hc : c
  · rw [if_pos hc, takeAway_right]
    by_cases e : ct' = ct <;> simp [hc, e]
  · rw [if_neg hc]; simp [hc]

theorem mkB'_right (b : Pos) (sp ep : Point) (ct : CastlingType) :
    (mkB' h b sp ep).right ct =
      (b.right ct &&
        !(decide (sp = (match ct with | .wks => ⟨9, 9⟩ | .wqs => ⟨9, 2⟩ | .bqs => ⟨2, 2⟩ | .bks => ⟨2, 9⟩ : Point)) ||
          decide (ep = (match ct with | .wks => ⟨9, 9⟩ | .wqs => ⟨9, 2⟩ | .bqs => ⟨2, 2⟩ | .bks => ⟨2, 9⟩ : Point)))) := by
  unfold mkB'
  simp only [ite_takeAway_right]
  cases ct <;> simp <;> cases b.right _ <;> simp

/-- the position `make_move` returns for the text of (sp, ep, pr) when `piece` stands on `sp` -/
def mkRes (p : Pos) (sp ep : Point) (pr : Option Kind) (piece : Piece) : Pos :=
  mkE' h (mkD' h ((mkB' h (mkA h (p.unsetEp h) sp ep piece) sp ep).movePiece h sp ep) pr ep) sp ep pr

theorem mkE'_fields (b : Pos) (sp ep : Point) (pr : Option Kind) :
    (mkE' h b sp ep pr).toMove = b.toMove.opp ∧ (mkE' h b sp ep pr).ep = b.ep ∧ (mkE' h b sp ep pr).wk = b.wk ∧
    (mkE' h b sp ep pr).bk = b.bk ∧ ∀ ct, (mkE' h b sp ep pr).right ct = b.right ct := by
  unfold mkE'
  refine ⟨?_, ?_, ?_, ?_, fun ct => ?_⟩ <;> (simp only; repeat' split) <;> first | simp | (cases ct <;> simp [Pos.right])

theorem mkD'_fields (b : Pos) (pr : Option Kind) (ep : Point) :
    (mkD' h b pr ep).toMove = b.toMove ∧ (mkD' h b pr ep).ep = b.ep ∧ (mkD' h b pr ep).wk = b.wk ∧
    (mkD' h b pr ep).bk = b.bk ∧ ∀ ct, (mkD' h b pr ep).right ct = b.right ct := by
  unfold mkD'
  cases pr <;> exact ⟨rfl, rfl, rfl, rfl, fun ct => by cases ct <;> rfl⟩

theorem movePiece_right (b : Pos) (s e : Point) (ct : CastlingType) : (b.movePiece h s e).right ct = b.right ct := by
  cases ct <;> simp [Pos.right]

theorem mkA_other (b : Pos) (sp ep : Point) (piece : Piece) (h1 : piece.kind ≠ .king) (h2 : piece.kind ≠ .pawn) :
    mkA h b sp ep piece = b := by
  unfold mkA; rw [if_neg h1, if_neg h2]

theorem mkA_king (b : Pos) (sp ep : Point) (c : Color) :
    (mkA h b sp ep ⟨c, .king⟩).board = b.board ∧ (mkA h b sp ep ⟨c, .king⟩).toMove = b.toMove ∧
    (mkA h b sp ep ⟨c, .king⟩).ep = b.ep ∧
    (∀ c', kingPt (mkA h b sp ep ⟨c, .king⟩) c' = if c' = c then ep else kingPt b c') ∧
    (∀ ct, (mkA h b sp ep ⟨c, .king⟩).right ct = (b.right ct && !(c == rightColor ct))) := by
  unfold mkA
  cases c <;> simp only [if_true] <;> refine ⟨by simp, by simp, by simp, ?_, ?_⟩
  · intro c'; cases c' <;> simp [kingPt]
  · intro ct; cases ct <;> simp [Pos.right, rightColor, takeAway_wks', takeAway_wqs', takeAway_bks', takeAway_bqs']
  · intro c'; cases c' <;> simp [kingPt]
  · intro ct; cases ct <;> simp [Pos.right, rightColor, takeAway_wks', takeAway_wqs', takeAway_bks', takeAway_bqs']

theorem mkA_pawn (b : Pos) (sp ep : Point) (c : Color) :
    (mkA h b sp ep ⟨c, .pawn⟩).toMove = b.toMove ∧ (mkA h b sp ep ⟨c, .pawn⟩).wk = b.wk ∧
    (mkA h b sp ep ⟨c, .pawn⟩).bk = b.bk ∧ (∀ ct, (mkA h b sp ep ⟨c, .pawn⟩).right ct = b.right ct) ∧
    (mkA h b sp ep ⟨c, .pawn⟩).ep =
      (if ((sp.row : Int) - ep.row).natAbs = 2 then
        some (match c with | .white => ⟨sp.row - 1, sp.col⟩ | .black => ⟨sp.row + 1, sp.col⟩) else b.ep) ∧
    (mkA h b sp ep ⟨c, .pawn⟩).board =
      (if sp.col ≠ ep.col ∧ b.board.get ep.row ep.col = .empty then b.board.set sp.row ep.col .empty else b.board) := by
  unfold mkA
  have hk : ¬ ((⟨c, .pawn⟩ : Piece).kind = .king) := by simp
  rw [if_neg hk, if_pos rfl]
  refine ⟨?_, ?_, ?_, ?_, ?_, ?_⟩
  · dsimp only; (repeat' split) <;> rfl
  · dsimp only; (repeat' split) <;> rfl
  · dsimp only; (repeat' split) <;> rfl
  · intro ct; cases ct <;> (dsimp only [Pos.right]; (repeat' split) <;> rfl)
  · dsimp only; (repeat' split) <;> simp_all
  · dsimp only; (repeat' split) <;> simp_all

def cornerPt : CastlingType → Point
  | .wks => ⟨9, 9⟩ | .wqs => ⟨9, 2⟩ | .bqs => ⟨2, 2⟩ | .bks => ⟨2, 9⟩

theorem kingPt_congr (a b : Pos) (hw : a.wk = b.wk) (hb : a.bk = b.bk) (c : Color) : kingPt a c = kingPt b c := by
  cases c <;> simp [kingPt, hw, hb]

/-- side, king caches, rights and en passant target of the `make_move` result, any piece -/
theorem mkRes_common (p : Pos) (sp ep : Point) (pr : Option Kind) (piece : Piece) :
    (mkRes h p sp ep pr piece).toMove = p.toMove.opp ∧
    (∀ c, kingPt (mkRes h p sp ep pr piece) c = if piece = ⟨c, .king⟩ then ep else kingPt p c) ∧
    (∀ ct, (mkRes h p sp ep pr piece).right ct =
      (p.right ct && !(piece.kind == .king && piece.color == rightColor ct) &&
        !(decide (sp = cornerPt ct) || decide (ep = cornerPt ct)))) ∧
    (mkRes h p sp ep pr piece).ep =
      (if piece.kind = .pawn ∧ ((sp.row : Int) - ep.row).natAbs = 2 then
        some (match piece.color with | .white => ⟨sp.row - 1, sp.col⟩ | .black => ⟨sp.row + 1, sp.col⟩) else none) := by
  unfold mkRes
  obtain ⟨e1, e2, e3, e4, e5⟩ := mkE'_fields h (mkD' h ((mkB' h (mkA h (p.unsetEp h) sp ep piece) sp ep).movePiece h sp ep) pr ep) sp ep pr
  obtain ⟨d1, d2, d3, d4, d5⟩ := mkD'_fields h ((mkB' h (mkA h (p.unsetEp h) sp ep piece) sp ep).movePiece h sp ep) pr ep
  obtain ⟨b1, b2, b3, b4, b5⟩ := mkB'_fields h (mkA h (p.unsetEp h) sp ep piece) sp ep
  have hright : ∀ ct, (mkE' h (mkD' h ((mkB' h (mkA h (p.unsetEp h) sp ep piece) sp ep).movePiece h sp ep) pr ep) sp ep pr).right ct =
      ((mkA h (p.unsetEp h) sp ep piece).right ct && !(decide (sp = cornerPt ct) || decide (ep = cornerPt ct))) := by
    intro ct
    rw [e5, d5, movePiece_right, mkB'_right]
    cases ct <;> rfl
  have hkp : ∀ c, kingPt (mkE' h (mkD' h ((mkB' h (mkA h (p.unsetEp h) sp ep piece) sp ep).movePiece h sp ep) pr ep) sp ep pr) c =
      kingPt (mkA h (p.unsetEp h) sp ep piece) c := by
    intro c
    apply kingPt_congr
    · rw [e3, d3, movePiece_wk, b4]
    · rw [e4, d4, movePiece_bk, b5]
  have htm : (mkE' h (mkD' h ((mkB' h (mkA h (p.unsetEp h) sp ep piece) sp ep).movePiece h sp ep) pr ep) sp ep pr).toMove =
      (mkA h (p.unsetEp h) sp ep piece).toMove.opp := by rw [e1, d1, movePiece_toMove, b2]
  have hepf : (mkE' h (mkD' h ((mkB' h (mkA h (p.unsetEp h) sp ep piece) sp ep).movePiece h sp ep) pr ep) sp ep pr).ep =
      (mkA h (p.unsetEp h) sp ep piece).ep := by rw [e2, d2, movePiece_ep, b3]
  have upr : ∀ ct, (p.unsetEp h).right ct = p.right ct := by intro ct; cases ct <;> simp [Pos.right]
  have ukp : ∀ c, kingPt (p.unsetEp h) c = kingPt p c := fun c => kingPt_congr _ _ (by simp) (by simp) c
  obtain ⟨c, k⟩ := piece
  by_cases hk : k = .king
  · subst hk
    obtain ⟨_, a2, a3, a4, a5⟩ := mkA_king h (p.unsetEp h) sp ep c
    refine ⟨by rw [htm, a2]; simp, fun c' => ?_, fun ct => ?_, ?_⟩
    · rw [hkp, a4, ukp]
      by_cases hc : c' = c
      · subst hc; simp
      · have : ¬ ((⟨c, .king⟩ : Piece) = ⟨c', .king⟩) := by intro e; injection e with e _; exact hc e.symm
        rw [if_neg hc, if_neg this]
    · rw [hright, a5, upr]; simp
    · rw [hepf, a3]; simp
  · by_cases hp : k = .pawn
    · subst hp
      obtain ⟨a1, a2, a3, a4, a5, _⟩ := mkA_pawn h (p.unsetEp h) sp ep c
      refine ⟨by rw [htm, a1]; simp, fun c' => ?_, fun ct => ?_, ?_⟩
      · rw [hkp, kingPt_congr _ _ a2 a3, ukp]
        have : ¬ ((⟨c, .pawn⟩ : Piece) = ⟨c', .king⟩) := by intro e; injection e with _ e; cases e
        rw [if_neg this]
      · rw [hright, a4, upr]
        have : (Kind.pawn == Kind.king) = false := by decide
        simp [this]
      · rw [hepf, a5]; simp
    · have ha := mkA_other h (p.unsetEp h) sp ep ⟨c, k⟩ hk hp
      refine ⟨by rw [htm, ha]; simp, fun c' => ?_, fun ct => ?_, ?_⟩
      · rw [hkp, ha, ukp]
        have : ¬ ((⟨c, k⟩ : Piece) = ⟨c', .king⟩) := by intro e; injection e with _ e; exact hk e
        rw [if_neg this]
      · rw [hright, ha, upr]
        have : (k == Kind.king) = false := by simpa using hk
        simp [this]
      · rw [hepf, ha]; simp [hp]

theorem cornerPt_iff (pt : Point) (hpt : OnBoard pt) (ct : CastlingType) :
    decide (pt = cornerPt ct) = (cornerRight pt == some ct) := by
  rw [obeq, Bool.eq_iff_iff]
  simp only [decide_eq_true_eq]
  unfold OnBoard at hpt
  unfold cornerRight cornerPt
  cases pt with | mk r c =>
  cases ct <;> simp only [Point.mk.injEq] <;> (repeat' split) <;> simp_all <;> omega

/-- the rights `make_move` leaves = the rights the generator leaves (the substring tests also fire on
    the origin of a king move, which cannot matter in a well-formed position) -/
theorem right_mk_st2 (p : Pos) (hR : RightsOK p) (sq mov : Point) (hsq : OnBoard sq) (hm : OnBoard mov) (piece : Piece)
    (hpc : p.board.get sq.row sq.col = .full piece) (ct : CastlingType) :
    (p.right ct && !(piece.kind == .king && piece.color == rightColor ct) &&
        !(decide (sq = cornerPt ct) || decide (mov = cornerPt ct))) =
    (p.right ct && !(piece.kind == .king && piece.color == rightColor ct) &&
        !(piece.kind != .king && cornerRight sq == some ct) && !(cornerRight mov == some ct)) := by
  rw [cornerPt_iff sq hsq ct, cornerPt_iff mov hm ct]
  by_cases hk : piece.kind = .king
  · -- a king on a corner: the right for that corner is not held
    have hkk : (piece.kind == Kind.king) = true := by simp [hk]
    by_cases hc : cornerRight sq = some ct
    · have hr : p.right ct = false := by
        cases hrt : p.right ct with
        | false => rfl
        | true =>
          have := hR ct hrt
          have hs : specOf sq = cornerSq ct := (cornerRight_iff sq hsq ct).mp hc
          rw [← hs, at_specOf p sq hsq, hpc] at this
          simp only [squareToOpt] at this
          injection this with this
          rw [this] at hk; cases hk
      rw [hr]; simp
    · have : (cornerRight sq == some ct) = false := by rw [obeq]; simpa using hc
      simp [this, hkk]
  · have hkk : (piece.kind == Kind.king) = false := by simpa using hk
    have hkn : (piece.kind != Kind.king) = true := by simp [bne, hkk]
    simp only [hkk, hkn, Bool.false_and, Bool.not_false, Bool.and_true, Bool.true_and, Bool.not_or]
    cases p.right ct <;> cases (cornerRight sq == some ct) <;> cases (cornerRight mov == some ct) <;> rfl

/-! ### the board of the `make_move` result -/

theorem mkD'_board (b : Pos) (pr : Option Kind) (ep : Point) :
    (mkD' h b pr ep).board = (match pr with | some k => b.board.set ep.row ep.col (.full ⟨b.toMove, k⟩) | none => b.board) := by
  unfold mkD'; cases pr <;> rfl

/-- no rook hop: the board is the one after stage D -/
theorem mkE'_board_nohop (b : Pos) (sp ep : Point) (pr : Option Kind)
    (hn : ∀ c : Color, (b.board.get ep.row ep.col).isPiece ⟨c, .king⟩ = true →
      ¬ (sp.col = 6 ∧ (ep.col = 8 ∨ ep.col = 4) ∧ pr = none)) :
    (mkE' h b sp ep pr).board = b.board := by
  unfold mkE'
  simp only [swapColor_board]
  have n1 : ¬ ((sp = ⟨9, 6⟩ ∧ ep = ⟨9, 8⟩ ∧ pr = none) ∧ (b.board.get ep.row ep.col).isPiece ⟨.white, .king⟩ = true) := by
    rintro ⟨⟨rfl, rfl, rfl⟩, hk⟩; exact hn .white hk ⟨rfl, Or.inl rfl, rfl⟩
  have n2 : ¬ ((sp = ⟨9, 6⟩ ∧ ep = ⟨9, 4⟩ ∧ pr = none) ∧ (b.board.get ep.row ep.col).isPiece ⟨.white, .king⟩ = true) := by
    rintro ⟨⟨rfl, rfl, rfl⟩, hk⟩; exact hn .white hk ⟨rfl, Or.inr rfl, rfl⟩
  have n3 : ¬ ((sp = ⟨2, 6⟩ ∧ ep = ⟨2, 8⟩ ∧ pr = none) ∧ (b.board.get ep.row ep.col).isPiece ⟨.black, .king⟩ = true) := by
    rintro ⟨⟨rfl, rfl, rfl⟩, hk⟩; exact hn .black hk ⟨rfl, Or.inl rfl, rfl⟩
  have n4 : ¬ ((sp = ⟨2, 6⟩ ∧ ep = ⟨2, 4⟩ ∧ pr = none) ∧ (b.board.get ep.row ep.col).isPiece ⟨.black, .king⟩ = true) := by
    rintro ⟨⟨rfl, rfl, rfl⟩, hk⟩; exact hn .black hk ⟨rfl, Or.inr rfl, rfl⟩
  rw [if_neg n1, if_neg n2, if_neg n3, if_neg n4]

/-- a plain move (no en passant victim, no rook hop): origin emptied, piece (or its promotion) on
    the destination -/
theorem mkRes_board_plain (p : Pos) (sp ep : Point) (pr : Option Kind) (piece : Piece) (hsp : OnBoard sp) (hep : OnBoard ep)
    (hpc : p.board.get sp.row sp.col = .full piece)
    (hnv : (mkA h (p.unsetEp h) sp ep piece).board = p.board) (hatm : (mkA h (p.unsetEp h) sp ep piece).toMove = p.toMove)
    (hnk : ∀ c : Color, ((match pr with | some k => (⟨p.toMove, k⟩ : Piece) | none => piece) = ⟨c, .king⟩) →
      ¬ (sp.col = 6 ∧ (ep.col = 8 ∨ ep.col = 4) ∧ pr = none)) :
    (mkRes h p sp ep pr piece).board =
      (match pr with
       | some k => ((p.board.set sp.row sp.col .empty).set ep.row ep.col (.full piece)).set ep.row ep.col (.full ⟨p.toMove, k⟩)
       | none => (p.board.set sp.row sp.col .empty).set ep.row ep.col (.full piece)) := by
  unfold mkRes
  obtain ⟨b1, b2, _, _, _⟩ := mkB'_fields h (mkA h (p.unsetEp h) sp ep piece) sp ep
  have hget : (mkB' h (mkA h (p.unsetEp h) sp ep piece) sp ep).board.get sp.row sp.col = .full piece := by
    rw [b1, hnv]; exact hpc
  have hmp : ((mkB' h (mkA h (p.unsetEp h) sp ep piece) sp ep).movePiece h sp ep).board =
      (p.board.set sp.row sp.col .empty).set ep.row ep.col (.full piece) := by
    rw [movePiece_board_full h _ sp ep piece hget, b1, hnv]
  have htm : ((mkB' h (mkA h (p.unsetEp h) sp ep piece) sp ep).movePiece h sp ep).toMove = p.toMove := by
    rw [movePiece_toMove, b2, hatm]
  have hdb := mkD'_board h ((mkB' h (mkA h (p.unsetEp h) sp ep piece) sp ep).movePiece h sp ep) pr ep
  rw [hmp, htm] at hdb
  unfold OnBoard at hep
  have hn : ∀ c : Color,
      ((mkD' h ((mkB' h (mkA h (p.unsetEp h) sp ep piece) sp ep).movePiece h sp ep) pr ep).board.get ep.row ep.col).isPiece
        ⟨c, .king⟩ = true → ¬ (sp.col = 6 ∧ (ep.col = 8 ∨ ep.col = 4) ∧ pr = none) := by
    intro c hk
    rw [hdb] at hk
    apply hnk c
    cases pr with
    | none =>
      simp only at hk ⊢
      rw [Board.get_set_eq _ _ _ _ (by omega) (by omega)] at hk
      exact Square.full.inj ((isPiece_iff _ _).mp hk)
    | some k =>
      simp only at hk ⊢
      rw [Board.get_set_eq _ _ _ _ (by omega) (by omega)] at hk
      exact Square.full.inj ((isPiece_iff _ _).mp hk)
  rw [mkE'_board_nohop h _ sp ep pr hn, hdb]
  cases pr <;> rfl

/-- what the comparison needs to know about a pseudo-legal target -/
theorem target_facts (b : Board) (hr : RingOK b) (pc : Piece) (sq mov : Point) (hsq : OnBoard sq)
    (hmov : mov ∈ getMoves pc sq.row sq.col b .all) :
    OnBoard mov ∧
    (pc.kind = .king → ¬ (sq.col = 6 ∧ (mov.col = 8 ∨ mov.col = 4))) ∧
    (pc.kind = .pawn →
      (sq.col ≠ mov.col → b.get mov.row mov.col ≠ .empty) ∧
      (((sq.row : Int) - mov.row).natAbs = 2 → mov.col = sq.col ∧
        (pc.color = .white → mov.row + 2 = sq.row ∧ sq.row = 8) ∧ (pc.color = .black → mov.row = sq.row + 2 ∧ sq.row = 3))) := by
  have hm := getMoves_onBoard pc sq.row sq.col b .all hr mov hmov
  refine ⟨hm, ?_, ?_⟩
  · intro hk
    unfold getMoves at hmov
    rw [hk] at hmov
    simp only at hmov
    obtain ⟨i, j, hi, hj, hpt, _⟩ := (mem_kingMoves pc sq.row sq.col b .all mov).mp hmov
    rw [hpt]; simp only
    unfold OnBoard at hsq
    omega
  · intro hk
    unfold getMoves at hmov
    rw [hk] at hmov
    simp only at hmov
    unfold OnBoard at hsq hm
    cases hc : pc.color with
    | white =>
      rcases (mem_pawnMoves_white pc hc sq.row sq.col b .all mov).mp hmov with ⟨hp, hx⟩ | ⟨hp, hx⟩ | ⟨_, he, hh⟩
      · refine ⟨fun _ e => ?_, fun h2 => ?_⟩
        · rw [hp] at e; simp only at e; rw [e] at hx; cases hx
        · rw [hp] at h2; simp only at h2; omega
      · refine ⟨fun _ e => ?_, fun h2 => ?_⟩
        · rw [hp] at e; simp only at e; rw [e] at hx; cases hx
        · rw [hp] at h2; simp only at h2; omega
      · rcases hh with hp | ⟨h1, _, hp⟩
        · refine ⟨fun hne => ?_, fun h2 => ?_⟩
          · rw [hp] at hne; exact absurd rfl hne
          · rw [hp] at h2; simp only at h2; omega
        · refine ⟨fun hne => ?_, fun _ => ?_⟩
          · rw [hp] at hne; exact absurd rfl hne
          · rw [hp]; simp only [Gen.whiteDoublePushRow] at h1 ⊢
            exact ⟨True.intro, fun _ => ⟨by omega, h1⟩, fun hcc => by cases hcc⟩
    | black =>
      rcases (mem_pawnMoves_black pc hc sq.row sq.col b .all mov).mp hmov with ⟨hp, hx⟩ | ⟨hp, hx⟩ | ⟨_, he, hh⟩
      · refine ⟨fun _ e => ?_, fun h2 => ?_⟩
        · rw [hp] at e; simp only at e; rw [e] at hx; cases hx
        · rw [hp] at h2; simp only at h2; omega
      · refine ⟨fun _ e => ?_, fun h2 => ?_⟩
        · rw [hp] at e; simp only at e; rw [e] at hx; cases hx
        · rw [hp] at h2; simp only at h2; omega
      · rcases hh with hp | ⟨h1, _, hp⟩
        · refine ⟨fun hne => ?_, fun h2 => ?_⟩
          · rw [hp] at hne; exact absurd rfl hne
          · rw [hp] at h2; simp only at h2; omega
        · refine ⟨fun hne => ?_, fun _ => ?_⟩
          · rw [hp] at hne; exact absurd rfl hne
          · rw [hp]; simp only [Gen.blackDoublePushRow] at h1 ⊢
            exact ⟨True.intro, fun hcc => (by cases hcc), fun _ => ⟨True.intro, h1⟩⟩

theorem st3_ep_val (piece : Piece) (sq mov : Point) (nb : Pos) :
    (st3 h piece sq mov nb).ep =
      (if piece.kind = .pawn ∧ ((sq.row : Int) - mov.row).natAbs = 2 then
        some (match piece.color with | .white => ⟨mov.row + 1, mov.col⟩ | .black => ⟨mov.row - 1, mov.col⟩) else none) := by
  unfold st3
  by_cases hc : piece.kind = .pawn ∧ ((sq.row : Int) - mov.row).natAbs = 2
  · rw [if_pos hc, if_pos hc]; cases piece.color <;> rfl
  · rw [if_neg hc, if_neg hc]; simp

theorem kingPt_wk (a b : Pos) (hk : ∀ c, kingPt a c = kingPt b c) : a.wk = b.wk ∧ a.bk = b.bk :=
  ⟨hk .white, hk .black⟩

/-- **ordinary targets**: replaying the text of a successor's move gives that successor -/
theorem obs_target (p : Pos) (hr : RingOK p.board) (hR : RightsOK p) (sq : Point) (hsq : OnBoard sq) (pc : Piece)
    (hpc : p.board.get sq.row sq.col = .full pc) (hcol : pc.color = p.toMove) (mov : Point)
    (hmov : mov ∈ getMoves pc sq.row sq.col p.board .all) :
    ∀ q ∈ st4 h pc sq mov (st3 h pc sq mov (st2 h pc sq mov (st1 h pc p sq mov))),
      Obs (mkRes h p sq mov (q.promo.map (·.kind)) pc) q := by
  intro q hq
  obtain ⟨hm, fking, fpawn⟩ := target_facts p.board hr pc sq mov hsq hmov
  -- stage A leaves the board alone (no en passant victim) and never touches the side to move
  have hnv : (mkA h (p.unsetEp h) sq mov pc).board = p.board ∧ (mkA h (p.unsetEp h) sq mov pc).toMove = p.toMove := by
    obtain ⟨c, k⟩ := pc
    by_cases hk : k = .king
    · subst hk; obtain ⟨a1, a2, _⟩ := mkA_king h (p.unsetEp h) sq mov c; exact ⟨by rw [a1]; simp, by rw [a2]; simp⟩
    · by_cases hp : k = .pawn
      · subst hp
        obtain ⟨a1, _, _, _, _, a6⟩ := mkA_pawn h (p.unsetEp h) sq mov c
        refine ⟨?_, by rw [a1]; simp⟩
        rw [a6, unsetEp_board]
        have : ¬ (sq.col ≠ mov.col ∧ p.board.get mov.row mov.col = .empty) := fun ⟨x, y⟩ => (fpawn rfl).1 x y
        rw [if_neg this]
      · rw [mkA_other h _ sq mov ⟨c, k⟩ hk hp]; exact ⟨by simp, by simp⟩
  obtain ⟨ctm, ckp, crt, cepf⟩ := mkRes_common h p sq mov (q.promo.map (·.kind)) pc
  -- fields of the generator's stages
  have nbb : (st3 h pc sq mov (st2 h pc sq mov (st1 h pc p sq mov))).board =
      (p.board.set sq.row sq.col .empty).set mov.row mov.col (.full pc) := by
    rw [st3_board, st2_board, st1_board]; exact movePiece_board_full h p sq mov pc hpc
  have nbt : (st3 h pc sq mov (st2 h pc sq mov (st1 h pc p sq mov))).toMove = p.toMove.opp := by
    rw [st3_toMove, st2_toMove, st1_toMove]
  have nbr : ∀ ct, (st3 h pc sq mov (st2 h pc sq mov (st1 h pc p sq mov))).right ct =
      (p.right ct && !(pc.kind == .king && pc.color == rightColor ct) &&
        !(decide (sq = cornerPt ct) || decide (mov = cornerPt ct))) := by
    intro ct
    rw [st3_right, st2_right, st1_right, right_mk_st2 p hR sq mov hsq hm pc hpc ct]
  have nbk : ∀ c, kingPt (st3 h pc sq mov (st2 h pc sq mov (st1 h pc p sq mov))) c =
      if pc = ⟨c, .king⟩ then mov else kingPt p c := by
    intro c
    rw [kingPt_congr _ (st1 h pc p sq mov) (by rw [(st3_wk h pc sq mov _).1, (st2_wk h pc sq mov _).1])
      (by rw [(st3_wk h pc sq mov _).2, (st2_wk h pc sq mov _).2]) c, st1_kingPt]
  -- the en passant target after a double step is the same square
  have nbe : (st3 h pc sq mov (st2 h pc sq mov (st1 h pc p sq mov))).ep =
      (if pc.kind = .pawn ∧ ((sq.row : Int) - mov.row).natAbs = 2 then
        some (match pc.color with | .white => (⟨sq.row - 1, sq.col⟩ : Point) | .black => ⟨sq.row + 1, sq.col⟩) else none) := by
    rw [st3_ep_val]
    by_cases hc : pc.kind = .pawn ∧ ((sq.row : Int) - mov.row).natAbs = 2
    · rw [if_pos hc, if_pos hc]
      obtain ⟨e1, e2, e3⟩ := (fpawn hc.1).2 hc.2
      cases hcc : pc.color with
      | white => have := (e2 hcc).1; simp only; congr 1; congr 1 <;> omega
      | black => have := (e3 hcc).1; simp only; congr 1; congr 1 <;> omega
    · rw [if_neg hc, if_neg hc]
  unfold st4 at hq
  -- the promotion fan-out
  have promo_case : ∀ c : Color, pc = ⟨c, .pawn⟩ → (mov.row = 2 ∨ mov.row = 9) →
      (c = .white → mov.row = 2) → (c = .black → mov.row = 9) →
      q ∈ promotePawn h (st3 h pc sq mov (st2 h pc sq mov (st1 h pc p sq mov))) c sq mov →
      Obs (mkRes h p sq mov (q.promo.map (·.kind)) pc) q := by
    intro c hpcc _ hw hb hq
    unfold promotePawn at hq
    obtain ⟨kind, hkind, rfl⟩ := List.mem_map.mp hq
    have hkk : kind ≠ .king := by
      simp only [Gen.promotionOrder, List.mem_cons, List.mem_nil_iff, or_false] at hkind
      rcases hkind with rfl | rfl | rfl | rfl <;> decide
    have hcm : c = p.toMove := by rw [hpcc] at hcol; exact hcol
    simp only [Option.map_some] at ctm ckp crt cepf ⊢
    -- not a double step
    have hnd : ¬ (pc.kind = .pawn ∧ ((sq.row : Int) - mov.row).natAbs = 2) := by
      rintro ⟨hk, h2⟩
      obtain ⟨_, e2, e3⟩ := (fpawn hk).2 h2
      rw [hpcc] at e2 e3
      cases c
      · have := e2 rfl; have := hw rfl; omega
      · have := e3 rfl; have := hb rfl; omega
    refine ⟨?_, ?_, ?_, ?_, ?_, ?_⟩
    · rw [mkRes_board_plain h p sq mov (some kind) pc hsq hm hpc hnv.1 hnv.2
        (fun c' e => by injection e with _ e; exact absurd e hkk)]
      show _ = ((st3 h pc sq mov (st2 h pc sq mov (st1 h pc p sq mov))).unsetEp h).board.set mov.row mov.col (.full ⟨c, kind⟩)
      rw [unsetEp_board, nbb, hcm]
    · rw [ctm]; show _ = ((st3 h pc sq mov (st2 h pc sq mov (st1 h pc p sq mov))).unsetEp h).toMove
      rw [unsetEp_toMove, nbt]
    · intro ct
      rw [crt, ← nbr ct]
      cases ct <;> simp [Pos.right]
    · rw [cepf, if_neg hnd]
      show none = ((st3 h pc sq mov (st2 h pc sq mov (st1 h pc p sq mov))).unsetEp h).ep
      rw [unsetEp_ep]
    · have := ckp .white
      show kingPt _ .white = ((st3 h pc sq mov (st2 h pc sq mov (st1 h pc p sq mov))).unsetEp h).wk
      rw [this, unsetEp_wk]
      exact (nbk .white).symm
    · have := ckp .black
      show kingPt _ .black = ((st3 h pc sq mov (st2 h pc sq mov (st1 h pc p sq mov))).unsetEp h).bk
      rw [this, unsetEp_bk]
      exact (nbk .black).symm
  split at hq
  · rename_i hw
    have : pc = ⟨.white, .pawn⟩ := by cases pc; simp only at hw; rw [hw.2.1, hw.2.2]
    exact promo_case .white this (Or.inl hw.1) (fun _ => hw.1) (fun e => by cases e) hq
  · split at hq
    · rename_i hb
      have : pc = ⟨.black, .pawn⟩ := by cases pc; simp only at hb; rw [hb.2.1, hb.2.2]
      exact promo_case .black this (Or.inr hb.1) (fun e => by cases e) (fun _ => hb.1) hq
    · simp only [List.mem_singleton] at hq
      subst hq
      have hpn : (st3 h pc sq mov (st2 h pc sq mov (st1 h pc p sq mov))).promo = none := by
        rw [st3_promo, st2_promo, st1_promo]
      rw [hpn] at ctm ckp crt cepf ⊢
      simp only [Option.map_none] at ctm ckp crt cepf ⊢
      refine ⟨?_, by rw [ctm, nbt], fun ct => by rw [crt, nbr], by rw [cepf, nbe], ?_, ?_⟩
      · rw [mkRes_board_plain h p sq mov none pc hsq hm hpc hnv.1 hnv.2
          (fun c' e => by
            simp only at e
            intro ⟨h6, h84, _⟩
            exact fking (by rw [e]) ⟨h6, h84⟩), nbb]
      · have := ckp .white; rw [nbk .white |>.symm] at this; exact this
      · have := ckp .black; rw [nbk .black |>.symm] at this; exact this

/-- **en passant**: replaying the text of the en passant successor's move gives that successor -/
theorem obs_ep (p : Pos) (wf : WFp p) (o : Spec.Sq) (c : Color) (mov : Point) (x : EpCtx p o c mov) :
    Obs (mkRes h p (toPt o) mov none ⟨c, .pawn⟩) (epBoard h ⟨c, .pawn⟩ p (toPt o) mov) := by
  obtain ⟨ho, hm, hpc, hcol, hep, hgeo⟩ := x
  unfold EpGeo at hgeo
  have hto := toPt_onBoard o ho
  obtain ⟨f1, f2, _, _, f5, f6, f7⟩ := epBoard_fields h ⟨c, .pawn⟩ p (toPt o) mov
  obtain ⟨ctm, ckp, crt, cepf⟩ := mkRes_common h p (toPt o) mov none ⟨c, .pawn⟩
  have hPep : (abs p).ep = some (specOf mov) := by rw [abs_ep, hep]; rfl
  obtain ⟨_, _, hempty, _, _⟩ := wf.lp.ep _ hPep
  have hmovE : p.board.get mov.row mov.col = .empty := by
    have := empty_of_at_none p wf.inner (specOf mov) (specOf_inB mov hm) hempty
    rw [toPt_specOf mov hm] at this; exact this
  unfold OnBoard at hm hto
  have hcolne : (toPt o).col ≠ mov.col := by cases c <;> simp only at hgeo <;> omega
  have hrow : capRow c mov.row = (toPt o).row := by unfold capRow; cases c <;> simp only at hgeo ⊢ <;> omega
  have hrowne : (toPt o).row ≠ mov.row := by cases c <;> simp only at hgeo <;> omega
  refine ⟨?_, by rw [ctm, f1], fun ct => ?_, ?_, ?_, ?_⟩
  · -- the board: victim removed first by make_move, last by the generator
    rw [epBoard_board h c p (toPt o) mov hpc, hrow]
    unfold mkRes
    obtain ⟨a1, _, _, _, _, a6⟩ := mkA_pawn h (p.unsetEp h) (toPt o) mov c
    obtain ⟨b1, b2, _, _, _⟩ := mkB'_fields h (mkA h (p.unsetEp h) (toPt o) mov ⟨c, .pawn⟩) (toPt o) mov
    have hA : (mkA h (p.unsetEp h) (toPt o) mov ⟨c, .pawn⟩).board = p.board.set (toPt o).row mov.col .empty := by
      rw [a6, unsetEp_board, if_pos ⟨hcolne, hmovE⟩]
    have hget : (mkB' h (mkA h (p.unsetEp h) (toPt o) mov ⟨c, .pawn⟩) (toPt o) mov).board.get (toPt o).row (toPt o).col = .full ⟨c, .pawn⟩ := by
      rw [b1, hA, Board.get_set_ne _ _ _ _ _ _ (fun e => hcolne e.2.symm)]; exact hpc
    have hmp := movePiece_board_full h (mkB' h (mkA h (p.unsetEp h) (toPt o) mov ⟨c, .pawn⟩) (toPt o) mov) (toPt o) mov ⟨c, .pawn⟩ hget
    rw [b1, hA] at hmp
    have hnh : ∀ c' : Color,
        ((mkD' h ((mkB' h (mkA h (p.unsetEp h) (toPt o) mov ⟨c, .pawn⟩) (toPt o) mov).movePiece h (toPt o) mov) none mov).board.get
          mov.row mov.col).isPiece ⟨c', .king⟩ = true → ¬ ((toPt o).col = 6 ∧ (mov.col = 8 ∨ mov.col = 4) ∧ (none : Option Kind) = none) := by
      intro c' hk
      rw [mkD'_board, hmp, Board.get_set_eq _ _ _ _ (by omega) (by omega)] at hk
      have := (isPiece_iff _ _).mp hk
      injection this with this; injection this with _ this; cases this
    rw [mkE'_board_nohop h _ (toPt o) mov none hnh, mkD'_board, hmp]
    simp only
    rw [Board.set_comm p.board (toPt o).row mov.col (toPt o).row (toPt o).col .empty .empty (fun e => hcolne e.2.symm),
      Board.set_comm _ (toPt o).row mov.col mov.row mov.col .empty (.full ⟨c, .pawn⟩) (fun e => hrowne e.1)]
  · rw [crt, f5]
    have n1 : (toPt o) ≠ cornerPt ct := by
      intro e; have := congrArg Point.row e
      cases ct <;> cases c <;> simp only [cornerPt] at this hgeo <;> omega
    have n2 : mov ≠ cornerPt ct := by
      intro e; have := congrArg Point.row e
      cases ct <;> cases c <;> simp only [cornerPt] at this hgeo <;> omega
    have : (Kind.pawn == Kind.king) = false := by decide
    simp [n1, n2, this]
  · rw [cepf, f2]
    have : ¬ (((toPt o).row : Int) - mov.row).natAbs = 2 := by cases c <;> simp only at hgeo <;> omega
    simp [this]
  · have := ckp .white
    have e : ¬ ((⟨c, .pawn⟩ : Piece) = ⟨.white, .king⟩) := by intro e; injection e with _ e; cases e
    rw [if_neg e] at this
    exact this.trans f6.symm
  · have := ckp .black
    have e : ¬ ((⟨c, .pawn⟩ : Piece) = ⟨.black, .king⟩) := by intro e; injection e with _ e; cases e
    rw [if_neg e] at this
    exact this.trans f7.symm

theorem obs_castle_wks (p : Pos) (hwk : p.wk = ⟨9, 6⟩) (gK : p.board.get 9 6 = .full ⟨.white, .king⟩)
    (gR : p.board.get 9 9 = .full ⟨.white, .rook⟩) :
    Obs (mkRes h p ⟨9, 6⟩ ⟨9, 8⟩ none ⟨.white, .king⟩) (castleSucc h p .wks) := by
  obtain ⟨sb, swk, sbk, _⟩ := castleSucc_shape_wks h p hwk gK gR
  obtain ⟨cf1, cf2, _, cf4⟩ := castleSucc_fields h p .wks
  obtain ⟨ctm, ckp, crt, cepf⟩ := mkRes_common h p ⟨9, 6⟩ ⟨9, 8⟩ none ⟨.white, .king⟩
  refine ⟨?_, by rw [ctm, cf1], fun ct => ?_, ?_, ?_, ?_⟩
  · rw [sb]
    unfold mkRes
    obtain ⟨a1, _, _, _, _⟩ := mkA_king h (p.unsetEp h) ⟨9, 6⟩ ⟨9, 8⟩ .white
    obtain ⟨b1, _, _, _, _⟩ := mkB'_fields h (mkA h (p.unsetEp h) ⟨9, 6⟩ ⟨9, 8⟩ ⟨.white, .king⟩) ⟨9, 6⟩ ⟨9, 8⟩
    have hb0 : (mkB' h (mkA h (p.unsetEp h) ⟨9, 6⟩ ⟨9, 8⟩ ⟨.white, .king⟩) ⟨9, 6⟩ ⟨9, 8⟩).board = p.board := by
      rw [b1, a1]; simp
    have hK' : (mkB' h (mkA h (p.unsetEp h) ⟨9, 6⟩ ⟨9, 8⟩ ⟨.white, .king⟩) ⟨9, 6⟩ ⟨9, 8⟩).board.get 9 6 = .full ⟨.white, .king⟩ := by
      rw [hb0]; exact gK
    have hR' : (mkB' h (mkA h (p.unsetEp h) ⟨9, 6⟩ ⟨9, 8⟩ ⟨.white, .king⟩) ⟨9, 6⟩ ⟨9, 8⟩).board.get 9 9 = .full ⟨.white, .rook⟩ := by
      rw [hb0]; exact gR
    have hcb := castle_board h (mkB' h (mkA h (p.unsetEp h) ⟨9, 6⟩ ⟨9, 8⟩ ⟨.white, .king⟩) ⟨9, 6⟩ ⟨9, 8⟩)
      9 8 9 7 ⟨.white, .king⟩ ⟨.white, .rook⟩ hK' hR' (by omega) (by omega)
    rw [hb0] at hcb
    have hmp := movePiece_board_full h (mkB' h (mkA h (p.unsetEp h) ⟨9, 6⟩ ⟨9, 8⟩ ⟨.white, .king⟩) ⟨9, 6⟩ ⟨9, 8⟩)
      ⟨9, 6⟩ ⟨9, 8⟩ ⟨.white, .king⟩ hK'
    have htgt : ((mkD' h ((mkB' h (mkA h (p.unsetEp h) ⟨9, 6⟩ ⟨9, 8⟩ ⟨.white, .king⟩) ⟨9, 6⟩ ⟨9, 8⟩).movePiece h
        ⟨9, 6⟩ ⟨9, 8⟩) none ⟨9, 8⟩).board.get 9 8).isPiece ⟨.white, .king⟩ = true := by
      rw [mkD'_board, hmp]
      simp only
      rw [Board.get_set_eq _ _ _ _ (by omega) (by omega)]
      simp [Square.isPiece]
    unfold mkE'
    simp only [swapColor_board, htgt, and_true, true_and]
    simp only [Point.mk.injEq, and_self, and_false, false_and, if_true, if_false,
      show ¬ ((9 : Nat) = 2) from by omega, show ¬ ((8 : Nat) = 4) from by omega]
    exact hcb
  · rw [crt, cf4 ct]
    cases ct <;> simp [rightColor, cornerPt]
  · rw [cepf, cf2]; simp
  · have := ckp .white
    simp at this
    exact this.trans swk.symm
  · have := ckp .black
    simp at this
    exact this.trans sbk.symm

theorem obs_castle_wqs (p : Pos) (hwk : p.wk = ⟨9, 6⟩) (gK : p.board.get 9 6 = .full ⟨.white, .king⟩)
    (gR : p.board.get 9 2 = .full ⟨.white, .rook⟩) :
    Obs (mkRes h p ⟨9, 6⟩ ⟨9, 4⟩ none ⟨.white, .king⟩) (castleSucc h p .wqs) := by
  obtain ⟨sb, swk, sbk, _⟩ := castleSucc_shape_wqs h p hwk gK gR
  obtain ⟨cf1, cf2, _, cf4⟩ := castleSucc_fields h p .wqs
  obtain ⟨ctm, ckp, crt, cepf⟩ := mkRes_common h p ⟨9, 6⟩ ⟨9, 4⟩ none ⟨.white, .king⟩
  refine ⟨?_, by rw [ctm, cf1], fun ct => ?_, ?_, ?_, ?_⟩
  · rw [sb]
    unfold mkRes
    obtain ⟨a1, _, _, _, _⟩ := mkA_king h (p.unsetEp h) ⟨9, 6⟩ ⟨9, 4⟩ .white
    obtain ⟨b1, _, _, _, _⟩ := mkB'_fields h (mkA h (p.unsetEp h) ⟨9, 6⟩ ⟨9, 4⟩ ⟨.white, .king⟩) ⟨9, 6⟩ ⟨9, 4⟩
    have hb0 : (mkB' h (mkA h (p.unsetEp h) ⟨9, 6⟩ ⟨9, 4⟩ ⟨.white, .king⟩) ⟨9, 6⟩ ⟨9, 4⟩).board = p.board := by
      rw [b1, a1]; simp
    have hK' : (mkB' h (mkA h (p.unsetEp h) ⟨9, 6⟩ ⟨9, 4⟩ ⟨.white, .king⟩) ⟨9, 6⟩ ⟨9, 4⟩).board.get 9 6 = .full ⟨.white, .king⟩ := by
      rw [hb0]; exact gK
    have hR' : (mkB' h (mkA h (p.unsetEp h) ⟨9, 6⟩ ⟨9, 4⟩ ⟨.white, .king⟩) ⟨9, 6⟩ ⟨9, 4⟩).board.get 9 2 = .full ⟨.white, .rook⟩ := by
      rw [hb0]; exact gR
    have hcb := castle_board h (mkB' h (mkA h (p.unsetEp h) ⟨9, 6⟩ ⟨9, 4⟩ ⟨.white, .king⟩) ⟨9, 6⟩ ⟨9, 4⟩)
      9 4 2 5 ⟨.white, .king⟩ ⟨.white, .rook⟩ hK' hR' (by omega) (by omega)
    rw [hb0] at hcb
    have hmp := movePiece_board_full h (mkB' h (mkA h (p.unsetEp h) ⟨9, 6⟩ ⟨9, 4⟩ ⟨.white, .king⟩) ⟨9, 6⟩ ⟨9, 4⟩)
      ⟨9, 6⟩ ⟨9, 4⟩ ⟨.white, .king⟩ hK'
    have htgt : ((mkD' h ((mkB' h (mkA h (p.unsetEp h) ⟨9, 6⟩ ⟨9, 4⟩ ⟨.white, .king⟩) ⟨9, 6⟩ ⟨9, 4⟩).movePiece h
        ⟨9, 6⟩ ⟨9, 4⟩) none ⟨9, 4⟩).board.get 9 4).isPiece ⟨.white, .king⟩ = true := by
      rw [mkD'_board, hmp]
      simp only
      rw [Board.get_set_eq _ _ _ _ (by omega) (by omega)]
      simp [Square.isPiece]
    unfold mkE'
    simp only [swapColor_board, htgt, and_true, true_and]
    simp only [Point.mk.injEq, and_self, and_false, false_and, if_true, if_false,
      show ¬ ((9 : Nat) = 2) from by omega, show ¬ ((4 : Nat) = 8) from by omega]
    exact hcb
  · rw [crt, cf4 ct]
    cases ct <;> simp [rightColor, cornerPt]
  · rw [cepf, cf2]; simp
  · have := ckp .white
    simp at this
    exact this.trans swk.symm
  · have := ckp .black
    simp at this
    exact this.trans sbk.symm

theorem obs_castle_bks (p : Pos) (hbk : p.bk = ⟨2, 6⟩) (gK : p.board.get 2 6 = .full ⟨.black, .king⟩)
    (gR : p.board.get 2 9 = .full ⟨.black, .rook⟩) :
    Obs (mkRes h p ⟨2, 6⟩ ⟨2, 8⟩ none ⟨.black, .king⟩) (castleSucc h p .bks) := by
  obtain ⟨sb, sbk, swk, _⟩ := castleSucc_shape_bks h p hbk gK gR
  obtain ⟨cf1, cf2, _, cf4⟩ := castleSucc_fields h p .bks
  obtain ⟨ctm, ckp, crt, cepf⟩ := mkRes_common h p ⟨2, 6⟩ ⟨2, 8⟩ none ⟨.black, .king⟩
  refine ⟨?_, by rw [ctm, cf1], fun ct => ?_, ?_, ?_, ?_⟩
  · rw [sb]
    unfold mkRes
    obtain ⟨a1, _, _, _, _⟩ := mkA_king h (p.unsetEp h) ⟨2, 6⟩ ⟨2, 8⟩ .black
    obtain ⟨b1, _, _, _, _⟩ := mkB'_fields h (mkA h (p.unsetEp h) ⟨2, 6⟩ ⟨2, 8⟩ ⟨.black, .king⟩) ⟨2, 6⟩ ⟨2, 8⟩
    have hb0 : (mkB' h (mkA h (p.unsetEp h) ⟨2, 6⟩ ⟨2, 8⟩ ⟨.black, .king⟩) ⟨2, 6⟩ ⟨2, 8⟩).board = p.board := by
      rw [b1, a1]; simp
    have hK' : (mkB' h (mkA h (p.unsetEp h) ⟨2, 6⟩ ⟨2, 8⟩ ⟨.black, .king⟩) ⟨2, 6⟩ ⟨2, 8⟩).board.get 2 6 = .full ⟨.black, .king⟩ := by
      rw [hb0]; exact gK
    have hR' : (mkB' h (mkA h (p.unsetEp h) ⟨2, 6⟩ ⟨2, 8⟩ ⟨.black, .king⟩) ⟨2, 6⟩ ⟨2, 8⟩).board.get 2 9 = .full ⟨.black, .rook⟩ := by
      rw [hb0]; exact gR
    have hcb := castle_board h (mkB' h (mkA h (p.unsetEp h) ⟨2, 6⟩ ⟨2, 8⟩ ⟨.black, .king⟩) ⟨2, 6⟩ ⟨2, 8⟩)
      2 8 9 7 ⟨.black, .king⟩ ⟨.black, .rook⟩ hK' hR' (by omega) (by omega)
    rw [hb0] at hcb
    have hmp := movePiece_board_full h (mkB' h (mkA h (p.unsetEp h) ⟨2, 6⟩ ⟨2, 8⟩ ⟨.black, .king⟩) ⟨2, 6⟩ ⟨2, 8⟩)
      ⟨2, 6⟩ ⟨2, 8⟩ ⟨.black, .king⟩ hK'
    have htgt : ((mkD' h ((mkB' h (mkA h (p.unsetEp h) ⟨2, 6⟩ ⟨2, 8⟩ ⟨.black, .king⟩) ⟨2, 6⟩ ⟨2, 8⟩).movePiece h
        ⟨2, 6⟩ ⟨2, 8⟩) none ⟨2, 8⟩).board.get 2 8).isPiece ⟨.black, .king⟩ = true := by
      rw [mkD'_board, hmp]
      simp only
      rw [Board.get_set_eq _ _ _ _ (by omega) (by omega)]
      simp [Square.isPiece]
    unfold mkE'
    simp only [swapColor_board, htgt, and_true, true_and]
    simp only [Point.mk.injEq, and_self, and_false, false_and, if_true, if_false,
      show ¬ ((2 : Nat) = 9) from by omega, show ¬ ((8 : Nat) = 4) from by omega]
    exact hcb
  · rw [crt, cf4 ct]
    cases ct <;> simp [rightColor, cornerPt]
  · rw [cepf, cf2]; simp
  · have := ckp .white
    simp at this
    exact this.trans swk.symm
  · have := ckp .black
    simp at this
    exact this.trans sbk.symm

theorem obs_castle_bqs (p : Pos) (hbk : p.bk = ⟨2, 6⟩) (gK : p.board.get 2 6 = .full ⟨.black, .king⟩)
    (gR : p.board.get 2 2 = .full ⟨.black, .rook⟩) :
    Obs (mkRes h p ⟨2, 6⟩ ⟨2, 4⟩ none ⟨.black, .king⟩) (castleSucc h p .bqs) := by
  obtain ⟨sb, sbk, swk, _⟩ := castleSucc_shape_bqs h p hbk gK gR
  obtain ⟨cf1, cf2, _, cf4⟩ := castleSucc_fields h p .bqs
  obtain ⟨ctm, ckp, crt, cepf⟩ := mkRes_common h p ⟨2, 6⟩ ⟨2, 4⟩ none ⟨.black, .king⟩
  refine ⟨?_, by rw [ctm, cf1], fun ct => ?_, ?_, ?_, ?_⟩
  · rw [sb]
    unfold mkRes
    obtain ⟨a1, _, _, _, _⟩ := mkA_king h (p.unsetEp h) ⟨2, 6⟩ ⟨2, 4⟩ .black
    obtain ⟨b1, _, _, _, _⟩ := mkB'_fields h (mkA h (p.unsetEp h) ⟨2, 6⟩ ⟨2, 4⟩ ⟨.black, .king⟩) ⟨2, 6⟩ ⟨2, 4⟩
    have hb0 : (mkB' h (mkA h (p.unsetEp h) ⟨2, 6⟩ ⟨2, 4⟩ ⟨.black, .king⟩) ⟨2, 6⟩ ⟨2, 4⟩).board = p.board := by
      rw [b1, a1]; simp
    have hK' : (mkB' h (mkA h (p.unsetEp h) ⟨2, 6⟩ ⟨2, 4⟩ ⟨.black, .king⟩) ⟨2, 6⟩ ⟨2, 4⟩).board.get 2 6 = .full ⟨.black, .king⟩ := by
      rw [hb0]; exact gK
    have hR' : (mkB' h (mkA h (p.unsetEp h) ⟨2, 6⟩ ⟨2, 4⟩ ⟨.black, .king⟩) ⟨2, 6⟩ ⟨2, 4⟩).board.get 2 2 = .full ⟨.black, .rook⟩ := by
      rw [hb0]; exact gR
    have hcb := castle_board h (mkB' h (mkA h (p.unsetEp h) ⟨2, 6⟩ ⟨2, 4⟩ ⟨.black, .king⟩) ⟨2, 6⟩ ⟨2, 4⟩)
      2 4 2 5 ⟨.black, .king⟩ ⟨.black, .rook⟩ hK' hR' (by omega) (by omega)
    rw [hb0] at hcb
    have hmp := movePiece_board_full h (mkB' h (mkA h (p.unsetEp h) ⟨2, 6⟩ ⟨2, 4⟩ ⟨.black, .king⟩) ⟨2, 6⟩ ⟨2, 4⟩)
      ⟨2, 6⟩ ⟨2, 4⟩ ⟨.black, .king⟩ hK'
    have htgt : ((mkD' h ((mkB' h (mkA h (p.unsetEp h) ⟨2, 6⟩ ⟨2, 4⟩ ⟨.black, .king⟩) ⟨2, 6⟩ ⟨2, 4⟩).movePiece h
        ⟨2, 6⟩ ⟨2, 4⟩) none ⟨2, 4⟩).board.get 2 4).isPiece ⟨.black, .king⟩ = true := by
      rw [mkD'_board, hmp]
      simp only
      rw [Board.get_set_eq _ _ _ _ (by omega) (by omega)]
      simp [Square.isPiece]
    unfold mkE'
    simp only [swapColor_board, htgt, and_true, true_and]
    simp only [Point.mk.injEq, and_self, and_false, false_and, if_true, if_false,
      show ¬ ((2 : Nat) = 9) from by omega, show ¬ ((4 : Nat) = 8) from by omega]
    exact hcb
  · rw [crt, cf4 ct]
    cases ct <;> simp [rightColor, cornerPt]
  · rw [cepf, cf2]; simp
  · have := ckp .white
    simp at this
    exact this.trans swk.symm
  · have := ckp .black
    simp at this
    exact this.trans sbk.symm

theorem moveText_eq (q : Pos) (a b : Point) (hl : q.lastMove = some (a, b)) :
    moveText q = some (uciOf a b (q.promo.map (·.kind))) := by
  unfold moveText uciOf
  rw [hl]
  cases q.promo <;> rfl

/-- descriptor of the successors of one target -/
theorem st4_descr (piece : Piece) (sq mov : Point) (nb : Pos) (hl : nb.lastMove = some (sq, mov)) (hp : nb.promo = none) :
    ∀ q ∈ st4 h piece sq mov nb, q.lastMove = some (sq, mov) ∧ q.promo.map (·.kind) ∈ promos := by
  intro q hq
  have promo_case : ∀ c, q ∈ promotePawn h nb c sq mov → q.lastMove = some (sq, mov) ∧ q.promo.map (·.kind) ∈ promos := by
    intro c hq
    unfold promotePawn at hq
    obtain ⟨kind, hkind, rfl⟩ := List.mem_map.mp hq
    refine ⟨rfl, ?_⟩
    simp only [Option.map_some]
    simp only [Gen.promotionOrder, List.mem_cons, List.mem_nil_iff, or_false] at hkind
    rcases hkind with rfl | rfl | rfl | rfl <;> simp [promos]
  unfold st4 at hq
  split at hq
  · exact promo_case _ hq
  · split at hq
    · exact promo_case _ hq
    · simp only [List.mem_singleton] at hq
      subst hq
      exact ⟨hl, by rw [hp]; simp [promos]⟩

/-- **C04 on the model**: every move the engine generates, printed as text and replayed with
    `make_move`, reproduces its own successor: board, side to move, castling rights, en passant
    target and king caches -/
theorem makeMove_reproduces_successor (p : Pos) (wf : WFp p) :
    ∀ q ∈ generateMoves h p .all, ∃ a b q', q.lastMove = some (a, b) ∧ OnBoard a ∧ OnBoard b ∧
      makeMove h p (uciOf a b (q.promo.map (·.kind))) = some q' ∧ Obs q' q := by
  intro q hq
  have hR := rightsOK_of_LP p wf.lp
  unfold generateMoves at hq
  rcases List.mem_append.mp hq with h1 | h1
  · obtain ⟨pt, hpt, hin⟩ := List.mem_flatMap.mp h1
    have hon : OnBoard pt := (mem_boardCoords pt).mp hpt
    cases hsq : p.board.get pt.row pt.col with
    | empty => rw [hsq] at hin; cases hin
    | boundary => rw [hsq] at hin; cases hin
    | full piece =>
      rw [hsq] at hin
      simp only at hin
      split at hin
      · rename_i hcol
        unfold generateMovesForPiece at hin
        rcases List.mem_append.mp hin with h2 | h2
        · obtain ⟨mov, hmov, hqm⟩ := List.mem_flatMap.mp h2
          rw [succsForTarget_eq] at hqm
          split at hqm
          · cases hqm
          · have hm := getMoves_onBoard piece pt.row pt.col p.board .all wf.ring mov hmov
            obtain ⟨hl, hpr⟩ := st4_descr h piece pt mov _ (by rw [st3_lastMove, st2_lastMove, st1_lastMove])
              (by rw [st3_promo, st2_promo, st1_promo]) q hqm
            refine ⟨pt, mov, _, hl, hon, hm, makeMove_text h p pt mov _ hon hm hpr piece hsq, ?_⟩
            exact obs_target h p wf.ring hR pt hon piece hsq hcol mov hmov q hqm
        · -- en passant
          have ho := specOf_inB pt hon
          have hto := toPt_specOf pt hon
          rw [epSuccs_eq] at h2
          split at h2
          · rename_i hcond
            split at h2
            · cases h2
            · rename_i mov hmv
              split at h2
              · simp only [List.mem_singleton] at h2
                subst h2
                obtain ⟨c, k⟩ := piece
                have hk : k = .pawn := hcond.2
                subst hk
                have hep := pawnMovesEnPassant_eq _ _ _ p mov hmv
                have hm := wf.epb mov hep
                obtain ⟨_, hgeo⟩ := (pawnMovesEnPassant_iff ⟨c, .pawn⟩ _ _ p mov (by unfold OnBoard at hon; omega)).mp hmv
                have x : EpCtx p (specOf pt) c mov :=
                  ⟨ho, hm, by rw [hto]; exact hsq, hcol, hep, by unfold EpGeo; rw [hto]; cases c <;> exact hgeo⟩
                obtain ⟨_, _, f3, f4, _, _, _⟩ := epBoard_fields h ⟨c, .pawn⟩ p pt mov
                refine ⟨pt, mov, mkRes h p pt mov none ⟨c, .pawn⟩, f3, hon, hm, ?_, ?_⟩
                · rw [f4]; exact makeMove_text h p pt mov none hon hm (by simp [promos]) ⟨c, .pawn⟩ hsq
                · have := obs_ep h p wf (specOf pt) c mov x
                  rw [hto] at this; exact this
              · cases h2
          · cases h2
      · cases hin
  · simp only [if_true] at h1
    rcases mem_castling' h p q h1 with ⟨rfl, hs, hc⟩ | ⟨rfl, hs, hc⟩ | ⟨rfl, hs, hc⟩ | ⟨rfl, hs, hc⟩
    · unfold canCastle at hc
      simp only [Bool.and_eq_true, Bool.not_eq_true'] at hc
      obtain ⟨hK, hRk⟩ := wf.lp.wks hc.1.1.1.1.1
      have gK : p.board.get 9 6 = .full ⟨.white, .king⟩ := get_of_at p ⟨4, 0⟩ (by decide) _ hK
      have gR : p.board.get 9 9 = .full ⟨.white, .rook⟩ := get_of_at p ⟨7, 0⟩ (by decide) _ hRk
      have hwk : p.wk = ⟨9, 6⟩ := ((wf.kings .white).2 9 6 gK).symm
      obtain ⟨_, _, _, slm⟩ := castleSucc_shape_wks h p hwk gK gR
      have hpm : (castleSucc h p .wks).promo = none := (castleSucc_fields h p .wks).2.2.1
      refine ⟨⟨9, 6⟩, ⟨9, 8⟩, mkRes h p ⟨9, 6⟩ ⟨9, 8⟩ none ⟨.white, .king⟩, slm, by unfold OnBoard; simp, by unfold OnBoard; simp, ?_, obs_castle_wks h p hwk gK gR⟩
      rw [hpm]; exact makeMove_text h p ⟨9, 6⟩ ⟨9, 8⟩ none (by unfold OnBoard; simp) (by unfold OnBoard; simp) (by simp [promos]) _ gK
    · unfold canCastle at hc
      simp only [Bool.and_eq_true, Bool.not_eq_true'] at hc
      obtain ⟨hK, hRk⟩ := wf.lp.wqs hc.1.1.1.1.1.1
      have gK : p.board.get 9 6 = .full ⟨.white, .king⟩ := get_of_at p ⟨4, 0⟩ (by decide) _ hK
      have gR : p.board.get 9 2 = .full ⟨.white, .rook⟩ := get_of_at p ⟨0, 0⟩ (by decide) _ hRk
      have hwk : p.wk = ⟨9, 6⟩ := ((wf.kings .white).2 9 6 gK).symm
      obtain ⟨_, _, _, slm⟩ := castleSucc_shape_wqs h p hwk gK gR
      have hpm : (castleSucc h p .wqs).promo = none := (castleSucc_fields h p .wqs).2.2.1
      refine ⟨⟨9, 6⟩, ⟨9, 4⟩, mkRes h p ⟨9, 6⟩ ⟨9, 4⟩ none ⟨.white, .king⟩, slm, by unfold OnBoard; simp, by unfold OnBoard; simp, ?_, obs_castle_wqs h p hwk gK gR⟩
      rw [hpm]; exact makeMove_text h p ⟨9, 6⟩ ⟨9, 4⟩ none (by unfold OnBoard; simp) (by unfold OnBoard; simp) (by simp [promos]) _ gK
    · unfold canCastle at hc
      simp only [Bool.and_eq_true, Bool.not_eq_true'] at hc
      obtain ⟨hK, hRk⟩ := wf.lp.bks hc.1.1.1.1.1
      have gK : p.board.get 2 6 = .full ⟨.black, .king⟩ := get_of_at p ⟨4, 7⟩ (by decide) _ hK
      have gR : p.board.get 2 9 = .full ⟨.black, .rook⟩ := get_of_at p ⟨7, 7⟩ (by decide) _ hRk
      have hbk : p.bk = ⟨2, 6⟩ := ((wf.kings .black).2 2 6 gK).symm
      obtain ⟨_, _, _, slm⟩ := castleSucc_shape_bks h p hbk gK gR
      have hpm : (castleSucc h p .bks).promo = none := (castleSucc_fields h p .bks).2.2.1
      refine ⟨⟨2, 6⟩, ⟨2, 8⟩, mkRes h p ⟨2, 6⟩ ⟨2, 8⟩ none ⟨.black, .king⟩, slm, by unfold OnBoard; simp, by unfold OnBoard; simp, ?_, obs_castle_bks h p hbk gK gR⟩
      rw [hpm]; exact makeMove_text h p ⟨2, 6⟩ ⟨2, 8⟩ none (by unfold OnBoard; simp) (by unfold OnBoard; simp) (by simp [promos]) _ gK
    · unfold canCastle at hc
      simp only [Bool.and_eq_true, Bool.not_eq_true'] at hc
      obtain ⟨hK, hRk⟩ := wf.lp.bqs hc.1.1.1.1.1.1
      have gK : p.board.get 2 6 = .full ⟨.black, .king⟩ := get_of_at p ⟨4, 7⟩ (by decide) _ hK
      have gR : p.board.get 2 2 = .full ⟨.black, .rook⟩ := get_of_at p ⟨0, 7⟩ (by decide) _ hRk
      have hbk : p.bk = ⟨2, 6⟩ := ((wf.kings .black).2 2 6 gK).symm
      obtain ⟨_, _, _, slm⟩ := castleSucc_shape_bqs h p hbk gK gR
      have hpm : (castleSucc h p .bqs).promo = none := (castleSucc_fields h p .bqs).2.2.1
      refine ⟨⟨2, 6⟩, ⟨2, 4⟩, mkRes h p ⟨2, 6⟩ ⟨2, 4⟩ none ⟨.black, .king⟩, slm, by unfold OnBoard; simp, by unfold OnBoard; simp, ?_, obs_castle_bqs h p hbk gK gR⟩
      rw [hpm]; exact makeMove_text h p ⟨2, 6⟩ ⟨2, 4⟩ none (by unfold OnBoard; simp) (by unfold OnBoard; simp) (by simp [promos]) _ gK

theorem abs_of_obs (a b : Pos) (ho : Obs a b) : abs a = abs b := by
  have r1 := ho.rights .wks; have r2 := ho.rights .wqs; have r3 := ho.rights .bks; have r4 := ho.rights .bqs
  simp only [Pos.right] at r1 r2 r3 r4
  apply pos_ext
  · rw [abs_cells, abs_cells, ho.board]
  · exact ho.toMove
  · exact r1
  · exact r2
  · exact r3
  · exact r4
  · rw [abs_ep, abs_ep, ho.ep]

theorem wf_of_obs (a b : Pos) (ho : Obs a b) (wf : WFp b) : WFp a := by
  refine ⟨by rw [ho.board]; exact wf.ring, by rw [ho.board]; exact wf.inner, ?_, by rw [abs_of_obs a b ho]; exact wf.lp,
    fun t ht => wf.epb t (by rw [← ho.ep]; exact ht)⟩
  apply kingsOK_of_same_kings b a wf.kings ho.wk ho.bk
  intro c r k; rw [ho.board]

/-- the text of a specification move -/
def uciText (m : Spec.Move) : List Char := uciOf (toPt m.src) (toPt m.dst) m.promo

/-- the two facts `make_move`'s key bookkeeping relies on hold for the text of every legal move -/
theorem legal_text_ok (p : Pos) (wf : WFp p) (m : Spec.Move) (hlegal : Spec.legal (abs p) m = true)
    (hpr : m.promo ∈ promos) :
    (∀ (s1 s2 : List Char) (sp ep : Point) (piece : Piece), byteSlice (uciText m) 0 2 = some s1 → byteSlice (uciText m) 2 4 = some s2 →
      parsePoint? s1 = some sp → parsePoint? s2 = some ep → p.board.get sp.row sp.col = .full piece → piece.kind = .pawn →
      sp.col ≠ ep.col → p.board.get ep.row ep.col = .empty → p.board.get sp.row ep.col = .full ⟨p.toMove.opp, .pawn⟩) ∧
    (∀ sp : Point, ∀ piece : Piece, byteLen (uciText m) = 5 → p.board.get sp.row sp.col = .full piece →
      (∃ s1, byteSlice (uciText m) 0 2 = some s1 ∧ parsePoint? s1 = some sp) → piece = ⟨p.toMove, .pawn⟩) := by
  have hps : Spec.pseudoLegal (abs p) m = true := by
    unfold Spec.legal at hlegal; simp only [Bool.and_eq_true] at hlegal; exact hlegal.1
  obtain ⟨ho, ht, pc, hsrc, hcol, hcase⟩ := pseudoLegal_cases (abs p) m hps
  have ha := toPt_onBoard m.src ho
  have hb := toPt_onBoard m.dst ht
  have hok := textOK_of (toPt m.src) (toPt m.dst) m.promo ha hb hpr
  unfold textOK at hok
  simp only [Bool.and_eq_true, beq_iff_eq] at hok
  obtain ⟨⟨⟨⟨⟨⟨⟨⟨⟨⟨⟨⟨⟨f1, f2⟩, f3⟩, f4⟩, _⟩, _⟩, _⟩, _⟩, l5⟩, _⟩, _⟩, _⟩, _⟩, _⟩ := hok
  have hpc := get_of_at p m.src ho pc hsrc
  unfold uciText
  constructor
  · intro s1 s2 sp ep piece e1 e2 e3 e4 hpiece hk hcolne hempty
    rw [f1] at e1; rw [f2] at e2
    injection e1 with e1; injection e2 with e2
    subst e1; subst e2
    rw [f3] at e3; rw [f4] at e4
    injection e3 with e3; injection e4 with e4
    subst e3; subst e4
    rw [hpc] at hpiece
    injection hpiece with hpiece
    subst hpiece
    -- a pawn moving diagonally onto an empty square: the move is an en passant capture
    have hdn : ((abs p).at m.dst).isSome = false := by
      rw [abs_at p m.dst ht, hempty]; rfl
    have hfne : m.src.file ≠ m.dst.file := by
      intro e; apply hcolne; unfold toPt; simp only; omega
    rcases hcase with ⟨hrule, _⟩ | ⟨_, _, hatt, _, hep, _⟩ | ⟨hkk, _, _, _⟩
    · exfalso
      obtain ⟨c, k⟩ := pc
      simp only at hk
      subst hk
      unfold normalRule at hrule
      simp only [Bool.and_eq_true] at hrule
      have hif : ¬ (m.src.file == m.dst.file) = true := by simp [hfne]
      rw [if_neg hif] at hrule
      simp only [Bool.and_eq_true] at hrule
      rw [hrule.2.2] at hdn; cases hdn
    · obtain ⟨_, hrank, _, hcapP, _⟩ := wf.lp.ep _ hep
      obtain ⟨c, k⟩ := pc
      simp only at hk hcol
      subst hk
      unfold Spec.attacksFrom Spec.iabs at hatt
      simp only [Bool.and_eq_true, decide_eq_true_eq, beq_iff_eq] at hatt
      have hin := ho; unfold InB at hin
      have hit := ht; unfold InB at hit
      have hsqe : (⟨m.dst.file, (((m.dst.rank : Int) + Spec.fwd (abs p).side.opp)).toNat⟩ : Spec.Sq) = ⟨m.dst.file, m.src.rank⟩ := by
        congr 1
        rw [← hcol]
        cases c <;> simp only [Spec.fwd, Color.opp] at hatt ⊢ <;> omega
      rw [hsqe] at hcapP
      have := get_of_at p ⟨m.dst.file, m.src.rank⟩ (by unfold InB; exact ⟨hit.1, hin.2⟩) _ hcapP
      have hside : (abs p).side = p.toMove := rfl
      rw [hside] at this
      exact this
    · rw [hkk] at hk; cases hk
  · intro sp piece h5 hpiece ⟨s1, e1, e3⟩
    rw [f1] at e1
    injection e1 with e1
    subst e1
    rw [f3] at e3
    injection e3 with e3
    subst e3
    rw [hpc] at hpiece
    injection hpiece with hpiece
    subst hpiece
    -- five characters: a promotion, hence a pawn of the side to move
    have hsome : m.promo.isSome = true := by
      have := l5; simp only [h5, decide_true] at this; exact this.symm
    have hside : (abs p).side = p.toMove := rfl
    rcases hcase with ⟨_, hpo⟩ | ⟨hk, _, _, _, _, _⟩ | ⟨_, hpn, _, _⟩
    · unfold promoOK at hpo
      by_cases hpw : pc.kind = .pawn
      · cases pc with | mk c k => simp only at hpw hcol; rw [hpw, hcol, hside]
      · have : (pc.kind == Kind.pawn) = false := by simpa using hpw
        simp only [this, Bool.false_eq_true, if_false] at hpo
        cases hx : m.promo <;> simp_all
    · cases pc with | mk c k => simp only at hk hcol; rw [hk, hcol, hside]
    · rw [hpn] at hsome; cases hsome

theorem legal_promo_mem (P : Spec.Position) (m : Spec.Move) (hlegal : Spec.legal P m = true) : m.promo ∈ promos := by
  have hps : Spec.pseudoLegal P m = true := by
    unfold Spec.legal at hlegal; simp only [Bool.and_eq_true] at hlegal; exact hlegal.1
  obtain ⟨_, _, pc, _, _, hcase⟩ := pseudoLegal_cases P m hps
  have key : promoOK P.side pc m.dst m.promo = true → m.promo ∈ promos := by
    intro hpo
    unfold promoOK at hpo
    cases hx : m.promo with
    | none => simp [promos]
    | some k =>
      rw [hx] at hpo
      by_cases hpw : pc.kind = .pawn
      · simp only [hpw, beq_self_eq_true, if_true] at hpo
        split at hpo
        · cases k <;> simp [Spec.promoKinds, promos] at hpo ⊢
        · cases hpo
      · have : (pc.kind == Kind.pawn) = false := by simpa using hpw
        simp [this] at hpo
  rcases hcase with ⟨_, hpo⟩ | ⟨_, _, _, _, _, hpo⟩ | ⟨_, hpn, _, _⟩
  · exact key hpo
  · exact key hpo
  · rw [hpn]; simp [promos]

/-- **replaying a legal move**: `make_move` on the UCI text of a legal move returns the position the
    rules give, again well-formed and with an exact key -/
theorem makeMove_legal (p : Pos) (wf : WFp p) (hinv : Inv h p) (m : Spec.Move) (hlegal : Spec.legal (abs p) m = true) :
    ∃ q', makeMove h p (uciText m) = some q' ∧ abs q' = Spec.apply (abs p) m ∧ WFp q' ∧ Inv h q' ∧
      ∃ q ∈ generateMoves h p .all, moveOf q = m ∧ Obs q' q := by
  obtain ⟨q, hq, hmo⟩ := generateMoves_complete h p wf m hlegal
  obtain ⟨a, b, q', hl, ha, hb, hmk, hobs⟩ := makeMove_reproduces_successor h p wf q hq
  obtain ⟨wfq, invq⟩ := generateMoves_wf h p wf hinv q hq
  have habs := (generateMoves_sound h p wf q hq).2
  have hmq : moveOf q = ⟨specOf a, specOf b, q.promo.map (·.kind)⟩ := moveOf_of q a b hl
  have htxt : uciText m = uciOf a b (q.promo.map (·.kind)) := by
    unfold uciText
    rw [← hmo, hmq]
    simp only
    rw [toPt_specOf a ha, toPt_specOf b hb]
  have hmk' : makeMove h p (uciText m) = some q' := by rw [htxt]; exact hmk
  obtain ⟨t1, t2⟩ := legal_text_ok p wf m hlegal (legal_promo_mem _ m hlegal)
  have hgood := makeMove_good h p q' (uciText m) ⟨hinv.ring, hinv.key⟩ t1 t2 hmk'
  refine ⟨q', hmk', by rw [abs_of_obs q' q hobs, habs, hmo], wf_of_obs q' q hobs wfq,
    ⟨hgood.1, ?_, hgood.2⟩, q, hq, hmo, hobs⟩
  intro t ht
  have := invq.ep t (by rw [← hobs.ep]; exact ht)
  rw [hobs.toMove, hobs.board]; exact this

end Walleye
