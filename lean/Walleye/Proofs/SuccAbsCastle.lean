/-
  C02: castling successors are `Spec.apply` of the king's two-square move.
-/
import Walleye.Proofs.SuccAbsEp
namespace Walleye

variable (h : Hasher)

instance (s : Spec.Sq) : Decidable (InB s) := by unfold InB; infer_instance

theorem get_of_at (p : Pos) (s : Spec.Sq) (hs : InB s) (pc : Piece) (hat : (abs p).at s = some pc) :
    p.board.get (toPt s).row (toPt s).col = .full pc := by
  rw [abs_at p s hs] at hat
  exact (squareToOpt_some _ _).mp hat

/-- king from k1 to k2, rook from r1 to r2, on the abstraction -/
theorem castle_cells (q : Pos) (Q : Spec.Position) (hQ : Q.cells = absCells q.board) (k1 k2 r1 r2 : Point) (kp rp : Piece)
    (hk : q.board.get k1.row k1.col = .full kp) (hr : q.board.get r1.row r1.col = .full rp)
    (h1 : OnBoard k1) (h2 : OnBoard k2) (h3 : OnBoard r1) (h4 : OnBoard r2)
    (n1 : ¬ (k1.row = r1.row ∧ k1.col = r1.col)) (n2 : ¬ (k2.row = r1.row ∧ k2.col = r1.col)) :
    absCells ((q.movePiece h k1 k2).movePiece h r1 r2).board =
      ((((Q.put (specOf k1) none).put (specOf k2) (some kp)).put (specOf r1) none).put (specOf r2) (some rp)).cells := by
  have hb1 : (q.movePiece h k1 k2).board = (q.board.set k1.row k1.col .empty).set k2.row k2.col (.full kp) :=
    movePiece_board_full h q k1 k2 kp hk
  have hr' : (q.movePiece h k1 k2).board.get r1.row r1.col = .full rp := by
    rw [hb1, Board.get_set_ne _ _ _ _ _ _ n2, Board.get_set_ne _ _ _ _ _ _ n1, hr]
  rw [movePiece_board_full h _ r1 r2 rp hr', hb1]
  have a1 := put_absCells Q q.board hQ k1 .empty h1
  have a2 := put_absCells _ _ a1 k2 (.full kp) h2
  have a3 := put_absCells _ _ a2 r1 .empty h3
  have a4 := put_absCells _ _ a3 r2 (.full rp) h4
  exact a4.symm

theorem takeAway_wks' (p : Pos) (ct : CastlingType) : (p.takeAway h ct).wks = (p.wks && decide (ct ≠ .wks)) :=
  takeAway_right h p ct .wks
theorem takeAway_wqs' (p : Pos) (ct : CastlingType) : (p.takeAway h ct).wqs = (p.wqs && decide (ct ≠ .wqs)) :=
  takeAway_right h p ct .wqs
theorem takeAway_bks' (p : Pos) (ct : CastlingType) : (p.takeAway h ct).bks = (p.bks && decide (ct ≠ .bks)) :=
  takeAway_right h p ct .bks
theorem takeAway_bqs' (p : Pos) (ct : CastlingType) : (p.takeAway h ct).bqs = (p.bqs && decide (ct ≠ .bqs)) :=
  takeAway_right h p ct .bqs

theorem castleSucc_fields (p : Pos) (ct : CastlingType) :
    (castleSucc h p ct).toMove = p.toMove.opp ∧ (castleSucc h p ct).ep = none ∧ (castleSucc h p ct).promo = none ∧
    (∀ ct', (castleSucc h p ct).right ct' = (p.right ct' && decide (rightColor ct' ≠ rightColor ct))) := by
  cases ct <;> unfold castleSucc <;> simp only <;>
    refine ⟨by simp, by simp, by simp, fun ct' => ?_⟩ <;>
    cases ct' <;> simp [Pos.right, rightColor, takeAway_wks', takeAway_wqs', takeAway_bks', takeAway_bqs']

/-- the specification move of each castling type -/
def castleMove : CastlingType → Spec.Move
  | .wks => ⟨⟨4, 0⟩, ⟨6, 0⟩, none⟩
  | .wqs => ⟨⟨4, 0⟩, ⟨2, 0⟩, none⟩
  | .bks => ⟨⟨4, 7⟩, ⟨6, 7⟩, none⟩
  | .bqs => ⟨⟨4, 7⟩, ⟨2, 7⟩, none⟩

theorem castle_wks_abs (p : Pos) (lp : LP (abs p)) (hko : KingsOK p) (hside : p.toMove = .white) (hright : p.wks = true) :
    Spec.isCastle (abs p) (castleMove .wks) = true ∧
    abs (castleSucc h p .wks) = Spec.apply (abs p) (castleMove .wks) := by
  obtain ⟨hK, hRk⟩ := lp.wks hright
  have gK : p.board.get 9 6 = .full ⟨.white, .king⟩ := get_of_at p ⟨4, 0⟩ (by decide) _ hK
  have gR : p.board.get 9 9 = .full ⟨.white, .rook⟩ := get_of_at p ⟨7, 0⟩ (by decide) _ hRk
  have hwk : p.wk = ⟨9, 6⟩ := ((hko .white).2 9 6 gK).symm
  have hPs : (abs p).side = .white := hside
  have hic : Spec.isCastle (abs p) (castleMove .wks) = true := by
    unfold Spec.isCastle castleMove
    simp [hK, hPs, Spec.homeRank]
  have hne : Spec.isEnPassant (abs p) (castleMove .wks) = false := by
    unfold Spec.isEnPassant castleMove
    simp [hK, hPs]
  refine ⟨hic, ?_⟩
  rw [apply_castle (abs p) (castleMove .wks) ⟨.white, .king⟩ hK hic hne]
  apply pos_ext
  · rw [abs_cells]
    unfold castleSucc
    simp only [hwk]
    rw [castle_cells h _ (abs p) (by simp [abs_cells]) ⟨9, 6⟩ ⟨9, 8⟩ ⟨9, 9⟩ ⟨9, 7⟩ ⟨.white, .king⟩ ⟨.white, .rook⟩
      (by simpa using gK) (by simpa using gR) (by decide) (by decide) (by decide) (by decide) (by decide) (by decide)]
    simp only [castleMove, landed, hPs]
    rfl
  · show (castleSucc h p .wks).toMove = _
    rw [(castleSucc_fields h p .wks).1]; rfl
  · show (castleSucc h p .wks).right .wks = _
    rw [(castleSucc_fields h p .wks).2.2.2 .wks]; simp [rightColor]
  · show (castleSucc h p .wks).right .wqs = _
    rw [(castleSucc_fields h p .wks).2.2.2 .wqs]; simp [rightColor]
  · show (castleSucc h p .wks).right .bks = _
    rw [(castleSucc_fields h p .wks).2.2.2 .bks]; simp [rightColor, castleMove, touchesSq, Pos.right, abs_bks]; cases p.bks <;> decide
  · show (castleSucc h p .wks).right .bqs = _
    rw [(castleSucc_fields h p .wks).2.2.2 .bqs]; simp [rightColor, castleMove, touchesSq, Pos.right, abs_bqs]; cases p.bqs <;> decide
  · show ((castleSucc h p .wks).ep).map specOf = _
    rw [(castleSucc_fields h p .wks).2.1]; simp [epAfter]

theorem castle_wqs_abs (p : Pos) (lp : LP (abs p)) (hko : KingsOK p) (hside : p.toMove = .white) (hright : p.wqs = true) :
    Spec.isCastle (abs p) (castleMove .wqs) = true ∧
    abs (castleSucc h p .wqs) = Spec.apply (abs p) (castleMove .wqs) := by
  obtain ⟨hK, hRk⟩ := lp.wqs hright
  have gK : p.board.get 9 6 = .full ⟨.white, .king⟩ := get_of_at p ⟨4, 0⟩ (by decide) _ hK
  have gR : p.board.get 9 2 = .full ⟨.white, .rook⟩ := get_of_at p ⟨0, 0⟩ (by decide) _ hRk
  have hwk : p.wk = ⟨9, 6⟩ := ((hko .white).2 9 6 gK).symm
  have hPs : (abs p).side = .white := hside
  have hic : Spec.isCastle (abs p) (castleMove .wqs) = true := by
    unfold Spec.isCastle castleMove
    simp [hK, hPs, Spec.homeRank]
  have hne : Spec.isEnPassant (abs p) (castleMove .wqs) = false := by
    unfold Spec.isEnPassant castleMove
    simp [hK, hPs]
  refine ⟨hic, ?_⟩
  rw [apply_castle (abs p) (castleMove .wqs) ⟨.white, .king⟩ hK hic hne]
  apply pos_ext
  · rw [abs_cells]
    unfold castleSucc
    simp only [hwk]
    rw [castle_cells h _ (abs p) (by simp [abs_cells]) ⟨9, 6⟩ ⟨9, 4⟩ ⟨9, 2⟩ ⟨9, 5⟩ ⟨.white, .king⟩ ⟨.white, .rook⟩
      (by simpa using gK) (by simpa using gR) (by decide) (by decide) (by decide) (by decide) (by decide) (by decide)]
    simp only [castleMove, landed, hPs]
    rfl
  · show (castleSucc h p .wqs).toMove = _
    rw [(castleSucc_fields h p .wqs).1]; rfl
  · show (castleSucc h p .wqs).right .wks = _
    rw [(castleSucc_fields h p .wqs).2.2.2 .wks]; simp [rightColor]
  · show (castleSucc h p .wqs).right .wqs = _
    rw [(castleSucc_fields h p .wqs).2.2.2 .wqs]; simp [rightColor]
  · show (castleSucc h p .wqs).right .bks = _
    rw [(castleSucc_fields h p .wqs).2.2.2 .bks]; simp [rightColor, castleMove, touchesSq, Pos.right, abs_bks]; cases p.bks <;> decide
  · show (castleSucc h p .wqs).right .bqs = _
    rw [(castleSucc_fields h p .wqs).2.2.2 .bqs]; simp [rightColor, castleMove, touchesSq, Pos.right, abs_bqs]; cases p.bqs <;> decide
  · show ((castleSucc h p .wqs).ep).map specOf = _
    rw [(castleSucc_fields h p .wqs).2.1]; simp [epAfter]

theorem castle_bks_abs (p : Pos) (lp : LP (abs p)) (hko : KingsOK p) (hside : p.toMove = .black) (hright : p.bks = true) :
    Spec.isCastle (abs p) (castleMove .bks) = true ∧
    abs (castleSucc h p .bks) = Spec.apply (abs p) (castleMove .bks) := by
  obtain ⟨hK, hRk⟩ := lp.bks hright
  have gK : p.board.get 2 6 = .full ⟨.black, .king⟩ := get_of_at p ⟨4, 7⟩ (by decide) _ hK
  have gR : p.board.get 2 9 = .full ⟨.black, .rook⟩ := get_of_at p ⟨7, 7⟩ (by decide) _ hRk
  have hwk : p.bk = ⟨2, 6⟩ := ((hko .black).2 2 6 gK).symm
  have hPs : (abs p).side = .black := hside
  have hic : Spec.isCastle (abs p) (castleMove .bks) = true := by
    unfold Spec.isCastle castleMove
    simp [hK, hPs, Spec.homeRank]
  have hne : Spec.isEnPassant (abs p) (castleMove .bks) = false := by
    unfold Spec.isEnPassant castleMove
    simp [hK, hPs]
  refine ⟨hic, ?_⟩
  rw [apply_castle (abs p) (castleMove .bks) ⟨.black, .king⟩ hK hic hne]
  apply pos_ext
  · rw [abs_cells]
    unfold castleSucc
    simp only [hwk]
    rw [castle_cells h _ (abs p) (by simp [abs_cells]) ⟨2, 6⟩ ⟨2, 8⟩ ⟨2, 9⟩ ⟨2, 7⟩ ⟨.black, .king⟩ ⟨.black, .rook⟩
      (by simpa using gK) (by simpa using gR) (by decide) (by decide) (by decide) (by decide) (by decide) (by decide)]
    simp only [castleMove, landed, hPs]
    rfl
  · show (castleSucc h p .bks).toMove = _
    rw [(castleSucc_fields h p .bks).1]; rfl
  · show (castleSucc h p .bks).right .wks = _
    rw [(castleSucc_fields h p .bks).2.2.2 .wks]; simp [rightColor, castleMove, touchesSq, Pos.right, abs_wks]; cases p.wks <;> decide
  · show (castleSucc h p .bks).right .wqs = _
    rw [(castleSucc_fields h p .bks).2.2.2 .wqs]; simp [rightColor, castleMove, touchesSq, Pos.right, abs_wqs]; cases p.wqs <;> decide
  · show (castleSucc h p .bks).right .bks = _
    rw [(castleSucc_fields h p .bks).2.2.2 .bks]; simp [rightColor]
  · show (castleSucc h p .bks).right .bqs = _
    rw [(castleSucc_fields h p .bks).2.2.2 .bqs]; simp [rightColor]
  · show ((castleSucc h p .bks).ep).map specOf = _
    rw [(castleSucc_fields h p .bks).2.1]; simp [epAfter]

theorem castle_bqs_abs (p : Pos) (lp : LP (abs p)) (hko : KingsOK p) (hside : p.toMove = .black) (hright : p.bqs = true) :
    Spec.isCastle (abs p) (castleMove .bqs) = true ∧
    abs (castleSucc h p .bqs) = Spec.apply (abs p) (castleMove .bqs) := by
  obtain ⟨hK, hRk⟩ := lp.bqs hright
  have gK : p.board.get 2 6 = .full ⟨.black, .king⟩ := get_of_at p ⟨4, 7⟩ (by decide) _ hK
  have gR : p.board.get 2 2 = .full ⟨.black, .rook⟩ := get_of_at p ⟨0, 7⟩ (by decide) _ hRk
  have hwk : p.bk = ⟨2, 6⟩ := ((hko .black).2 2 6 gK).symm
  have hPs : (abs p).side = .black := hside
  have hic : Spec.isCastle (abs p) (castleMove .bqs) = true := by
    unfold Spec.isCastle castleMove
    simp [hK, hPs, Spec.homeRank]
  have hne : Spec.isEnPassant (abs p) (castleMove .bqs) = false := by
    unfold Spec.isEnPassant castleMove
    simp [hK, hPs]
  refine ⟨hic, ?_⟩
  rw [apply_castle (abs p) (castleMove .bqs) ⟨.black, .king⟩ hK hic hne]
  apply pos_ext
  · rw [abs_cells]
    unfold castleSucc
    simp only [hwk]
    rw [castle_cells h _ (abs p) (by simp [abs_cells]) ⟨2, 6⟩ ⟨2, 4⟩ ⟨2, 2⟩ ⟨2, 5⟩ ⟨.black, .king⟩ ⟨.black, .rook⟩
      (by simpa using gK) (by simpa using gR) (by decide) (by decide) (by decide) (by decide) (by decide) (by decide)]
    simp only [castleMove, landed, hPs]
    rfl
  · show (castleSucc h p .bqs).toMove = _
    rw [(castleSucc_fields h p .bqs).1]; rfl
  · show (castleSucc h p .bqs).right .wks = _
    rw [(castleSucc_fields h p .bqs).2.2.2 .wks]; simp [rightColor, castleMove, touchesSq, Pos.right, abs_wks]; cases p.wks <;> decide
  · show (castleSucc h p .bqs).right .wqs = _
    rw [(castleSucc_fields h p .bqs).2.2.2 .wqs]; simp [rightColor, castleMove, touchesSq, Pos.right, abs_wqs]; cases p.wqs <;> decide
  · show (castleSucc h p .bqs).right .bks = _
    rw [(castleSucc_fields h p .bqs).2.2.2 .bks]; simp [rightColor]
  · show (castleSucc h p .bqs).right .bqs = _
    rw [(castleSucc_fields h p .bqs).2.2.2 .bqs]; simp [rightColor]
  · show ((castleSucc h p .bqs).ep).map specOf = _
    rw [(castleSucc_fields h p .bqs).2.1]; simp [epAfter]

end Walleye
