/-
  C02: the successors the generator builds are the specification's `apply` of the move they carry.
  Part 1: castling rights and en passant target after an ordinary move.
-/
import Walleye.Proofs.ApplySpec
import Walleye.Proofs.PseudoSpec
namespace Walleye

variable (h : Hasher)

theorem takeAway_right (p : Pos) (ct ct' : CastlingType) :
    (p.takeAway h ct).right ct' = (p.right ct' && decide (ct ≠ ct')) := by
  cases ct <;> cases ct' <;> simp only [Pos.takeAway, Pos.right] <;> split <;> simp_all

theorem takeAwayOpt_right (p : Pos) (o : Option CastlingType) (ct' : CastlingType) :
    (p.takeAwayOpt h o).right ct' = (p.right ct' && decide (o ≠ some ct')) := by
  cases o with
  | none => simp [Pos.takeAwayOpt]
  | some ct => simp only [Pos.takeAwayOpt, takeAway_right]; simp

theorem obeq (a b : Option CastlingType) : (a == b) = decide (a = b) := by
  rw [Bool.eq_iff_iff]; simp

/-- the colour whose right `ct` is -/
def rightColor : CastlingType → Color
  | .wks => .white | .wqs => .white | .bks => .black | .bqs => .black

theorem st2_right (piece : Piece) (sq mov : Point) (nb : Pos) (ct : CastlingType) :
    (st2 h piece sq mov nb).right ct =
      (nb.right ct && !(piece.kind == .king && piece.color == rightColor ct) &&
        !(piece.kind != .king && cornerRight sq == some ct) && !(cornerRight mov == some ct)) := by
  unfold st2
  rw [takeAwayOpt_right]
  by_cases hk : piece.kind = .king
  · rw [if_pos hk]
    have cwb : (Color.white == Color.black) = false := by decide
    have cbw : (Color.black == Color.white) = false := by decide
    cases hc : piece.color <;> simp only [takeAway_right] <;> cases ct <;> simp [hk, rightColor] <;>
      cases nb.right _ <;> simp [cwb, cbw, obeq]
  · rw [if_neg hk, takeAwayOpt_right]
    have : (piece.kind == Kind.king) = false := by simpa using hk
    simp only [this, Bool.false_and, Bool.not_false, Bool.and_true, bne, Bool.true_and]
    cases nb.right ct <;> simp [obeq, eq_comm]

/-! ### cells after the piece has moved -/

theorem st1_cells (piece : Piece) (p : Pos) (sq mov : Point) (hsq : p.board.get sq.row sq.col = .full piece)
    (hs : OnBoard sq) (hm : OnBoard mov) :
    absCells (st1 h piece p sq mov).board =
      (((abs p).put (specOf sq) none).put (specOf mov) (some piece)).cells := by
  rw [st1_board]
  have hb : (p.movePiece h sq mov).board = (p.board.set sq.row sq.col .empty).set mov.row mov.col (.full piece) :=
    movePiece_board_full h p sq mov piece hsq
  rw [hb]
  have h1 := put_absCells (abs p) p.board (abs_cells p) sq .empty hs
  have h2 := put_absCells ((abs p).put (specOf sq) (squareToOpt .empty)) (p.board.set sq.row sq.col .empty) h1 mov
    (.full piece) hm
  exact h2.symm

/-! ### the corner squares -/

def cornerSq : CastlingType → Spec.Sq
  | .wks => ⟨7, 0⟩ | .wqs => ⟨0, 0⟩ | .bks => ⟨7, 7⟩ | .bqs => ⟨0, 7⟩

theorem cornerRight_iff (pt : Point) (hpt : OnBoard pt) (ct : CastlingType) :
    cornerRight pt = some ct ↔ specOf pt = cornerSq ct := by
  unfold OnBoard at hpt
  unfold cornerRight specOf cornerSq
  cases ct <;> simp only <;> (repeat' split) <;> simp_all <;> omega

/-- the rights of a well-formed position imply the rook on its corner (from `LegalPosition`) -/
def RightsOK (p : Pos) : Prop :=
  ∀ ct, p.right ct = true → (abs p).at (cornerSq ct) = some ⟨rightColor ct, .rook⟩

/-- one castling right after an ordinary move: model = specification -/
theorem right_agree (p : Pos) (hR : RightsOK p) (o : Spec.Sq) (ho : InB o) (pc : Piece)
    (hsrc : (abs p).at o = some pc) (mov : Point) (hm : OnBoard mov) (ct : CastlingType) :
    (p.right ct && !(pc.kind == .king && pc.color == rightColor ct) &&
        !(pc.kind != .king && cornerRight (toPt o) == some ct) && !(cornerRight mov == some ct)) =
      (p.right ct && !(pc == ⟨rightColor ct, .king⟩) && !(o == cornerSq ct || specOf mov == cornerSq ct)) := by
  have e1 : (pc == (⟨rightColor ct, .king⟩ : Piece)) = (pc.kind == .king && pc.color == rightColor ct) := by
    cases pc with | mk c k => cases c <;> cases k <;> cases ct <;> decide
  have e2 : (cornerRight mov == some ct) = (specOf mov == cornerSq ct) := by
    rw [Bool.eq_iff_iff]; simp only [beq_iff_eq]; exact cornerRight_iff mov hm ct
  have e3 : (cornerRight (toPt o) == some ct) = (o == cornerSq ct) := by
    rw [Bool.eq_iff_iff]; simp only [beq_iff_eq]
    rw [cornerRight_iff (toPt o) (toPt_onBoard o ho) ct, specOf_toPt o ho]
  rw [e1, e2, e3]
  by_cases hk : pc.kind = .king
  · -- a king leaving a corner: the right for that corner cannot be held (no rook there)
    by_cases hoc : o = cornerSq ct
    · have hr : p.right ct = false := by
        cases hrt : p.right ct with
        | false => rfl
        | true =>
          have := hR ct hrt
          rw [← hoc, hsrc] at this
          injection this with this
          rw [this] at hk; cases hk
      rw [hr]; simp
    · have : (o == cornerSq ct) = false := by simpa using hoc
      rw [this]; simp [hk]
  · have : (pc.kind == Kind.king) = false := by simpa using hk
    simp only [this, Bool.false_and, Bool.not_false, Bool.and_true, bne, Bool.not_false, Bool.true_and, Bool.not_or]
    cases p.right ct <;> cases (o == cornerSq ct) <;> cases (specOf mov == cornerSq ct) <;> rfl

/-! ### en passant target after an ordinary move -/

theorem ep_agree (piece : Piece) (p : Pos) (o : Spec.Sq) (ho : InB o) (mov : Point) (hm : OnBoard mov) (nb : Pos)
    (hrule : normalRule (abs p) o piece (specOf mov) = true) :
    (st3 h piece (toPt o) mov nb).ep.map specOf = epAfter piece.color piece ⟨o, specOf mov, none⟩ := by
  unfold st3 epAfter
  unfold InB at ho
  unfold OnBoard at hm
  have hrow : (((toPt o).row : Int) - mov.row).natAbs = 2 ↔ Spec.iabs (((specOf mov).rank : Int) - o.rank) = 2 := by
    unfold toPt specOf Spec.iabs; simp only; omega
  by_cases hc : piece.kind = .pawn ∧ (((toPt o).row : Int) - mov.row).natAbs = 2
  · rw [if_pos hc]
    have hc' : (piece.kind == .pawn && Spec.iabs (((specOf mov).rank : Int) - o.rank) == 2) = true := by
      simp [hc.1, hrow.mp hc.2]
    simp only at hc' ⊢
    rw [if_pos hc']
    -- a pawn that moved two ranks stayed on its file
    obtain ⟨c, k⟩ := piece
    simp only at hc
    obtain ⟨hk, h2⟩ := hc
    subst hk
    unfold normalRule at hrule
    simp only [Bool.and_eq_true] at hrule
    obtain ⟨_, hr⟩ := hrule
    have h2' := hrow.mp h2
    unfold Spec.iabs at h2'
    by_cases hf : o.file = (specOf mov).file
    · have hif : (o.file == (specOf mov).file) = true := by simp [hf]
      rw [if_pos hif] at hr
      simp only [Bool.and_eq_true, Bool.or_eq_true] at hr
      have hdir : ((specOf mov).rank : Int) - o.rank = Spec.fwd c ∨ ((specOf mov).rank : Int) - o.rank = 2 * Spec.fwd c := by
        rcases hr.2 with h' | h'
        · exact Or.inl (of_decide_eq_true h')
        · exact Or.inr (of_decide_eq_true h'.1.1)
      cases c <;> simp only [Option.map_some, Spec.fwd] at hdir ⊢ <;> unfold specOf toPt at * <;> simp only at * <;>
        (congr 1; congr 1 <;> omega)
    · exfalso
      have hif : ¬ (o.file == (specOf mov).file) = true := by simp [hf]
      rw [if_neg hif] at hr
      unfold Spec.attacksFrom at hr
      simp only [Bool.and_eq_true, decide_eq_true_eq] at hr
      have := hr.1.1
      cases c <;> simp only [Spec.fwd] at this <;> omega
  · rw [if_neg hc]
    have hc' : ¬ (piece.kind == .pawn && Spec.iabs (((specOf mov).rank : Int) - o.rank) == 2) = true := by
      intro hx
      simp only [Bool.and_eq_true, beq_iff_eq] at hx
      exact hc ⟨hx.1, hrow.mpr hx.2⟩
    simp only at hc' ⊢
    rw [if_neg hc']
    simp

/-! ### an ordinary move is neither castling nor en passant for the specification -/

theorem not_castle (P : Spec.Position) (o t : Spec.Sq) (pc : Piece) (pr : Option Kind) (hsrc : P.at o = some pc)
    (hrule : normalRule P o pc t = true) : Spec.isCastle P ⟨o, t, pr⟩ = false := by
  unfold Spec.isCastle
  simp only [hsrc]
  by_cases hk : pc = ⟨P.side, .king⟩
  · subst hk
    unfold normalRule Spec.attacksFrom Spec.iabs at hrule
    simp only [Bool.and_eq_true, beq_iff_eq] at hrule
    have hmax := hrule.2
    by_cases ho : o = ⟨4, Spec.homeRank P.side⟩
    · subst ho
      simp only at hmax
      have : ¬ (t.file = 6 ∨ t.file = 2) := by omega
      simp only [Bool.and_eq_false_iff, Bool.or_eq_false_iff, beq_eq_false_iff_ne, ne_eq]
      right
      exact ⟨fun h => this (Or.inl h), fun h => this (Or.inr h)⟩
    · have : (o == (⟨4, Spec.homeRank P.side⟩ : Spec.Sq)) = false := by simpa using ho
      simp [this]
  · have : (some pc == some (⟨P.side, .king⟩ : Piece)) = false := by simpa using hk
    simp [this]

theorem not_ep (P : Spec.Position) (o t : Spec.Sq) (pc : Piece) (pr : Option Kind) (hsrc : P.at o = some pc)
    (hrule : normalRule P o pc t = true) : Spec.isEnPassant P ⟨o, t, pr⟩ = false := by
  unfold Spec.isEnPassant
  simp only [hsrc]
  by_cases hk : pc = ⟨P.side, .pawn⟩
  · subst hk
    unfold normalRule at hrule
    simp only [Bool.and_eq_true] at hrule
    by_cases hf : o.file = t.file
    · have : (o.file != t.file) = false := by simp [hf]
      simp [this]
    · have hif : ¬ (o.file == t.file) = true := by simp [hf]
      rw [if_neg hif] at hrule
      simp only [Bool.and_eq_true] at hrule
      have hs := hrule.2.2
      have : (P.at t).isNone = false := by
        cases hq : P.at t with
        | none => rw [hq] at hs; cases hs
        | some x => rfl
      simp [this]
  · have : (some pc == some (⟨P.side, .pawn⟩ : Piece)) = false := by simpa using hk
    simp [this]

/-! ### stage facts about rights -/

theorem st1_right (piece : Piece) (p : Pos) (sq mov : Point) (ct : CastlingType) :
    (st1 h piece p sq mov).right ct = p.right ct := by
  unfold st1
  cases ct <;> simp only [Pos.right] <;> (repeat' split) <;> simp

theorem st3_right (piece : Piece) (sq mov : Point) (nb : Pos) (ct : CastlingType) :
    (st3 h piece sq mov nb).right ct = nb.right ct := by
  unfold st3
  cases ct <;> simp only [Pos.right] <;> split <;> simp

theorem abs_right (p : Pos) :
    (abs p).wks = p.right .wks ∧ (abs p).wqs = p.right .wqs ∧ (abs p).bks = p.right .bks ∧ (abs p).bqs = p.right .bqs :=
  ⟨rfl, rfl, rfl, rfl⟩

/-! ### C02, ordinary moves -/

/-- the board after stages 1–3 (no promotion) is `Spec.apply` of the move -/
theorem normal_succ_abs (p : Pos) (hR : RightsOK p) (o : Spec.Sq) (ho : InB o) (pc : Piece)
    (hpc : p.board.get (toPt o).row (toPt o).col = .full pc) (hcol : pc.color = p.toMove) (mov : Point) (hm : OnBoard mov)
    (hrule : normalRule (abs p) o pc (specOf mov) = true) :
    abs (st3 h pc (toPt o) mov (st2 h pc (toPt o) mov (st1 h pc p (toPt o) mov))) =
      Spec.apply (abs p) ⟨o, specOf mov, none⟩ := by
  have hsrc : (abs p).at o = some pc := by rw [abs_at p o ho, hpc]; rfl
  rw [apply_normal (abs p) ⟨o, specOf mov, none⟩ pc hsrc (not_castle _ _ _ _ _ hsrc hrule) (not_ep _ _ _ _ _ hsrc hrule)]
  have hto := toPt_onBoard o ho
  have hrt : ∀ ct, (st3 h pc (toPt o) mov (st2 h pc (toPt o) mov (st1 h pc p (toPt o) mov))).right ct =
      (p.right ct && !(pc == ⟨rightColor ct, .king⟩) && !(o == cornerSq ct || specOf mov == cornerSq ct)) := by
    intro ct
    rw [st3_right, st2_right, st1_right, right_agree p hR o ho pc hsrc mov hm ct]
  apply pos_ext
  · rw [abs_cells, st3_board, st2_board, st1_cells h pc p (toPt o) mov hpc hto hm, specOf_toPt o ho]
    rfl
  · show (st3 h pc (toPt o) mov (st2 h pc (toPt o) mov (st1 h pc p (toPt o) mov))).toMove = p.toMove.opp
    rw [st3_toMove, st2_toMove, st1_toMove]
  · exact hrt .wks
  · exact hrt .wqs
  · exact hrt .bks
  · exact hrt .bqs
  · show (st3 h pc (toPt o) mov (st2 h pc (toPt o) mov (st1 h pc p (toPt o) mov))).ep.map specOf = _
    rw [ep_agree h pc p o ho mov hm _ hrule, hcol]
    rfl

/-! ### C02, promotions -/

/-- the move a successor carries in its descriptor fields -/
def moveOf (q : Pos) : Spec.Move :=
  match q.lastMove with
  | some (a, b) => ⟨specOf a, specOf b, q.promo.map (·.kind)⟩
  | none => ⟨⟨0, 0⟩, ⟨0, 0⟩, none⟩

theorem epAfter_none_of_last (P : Spec.Position) (o t : Spec.Sq) (c : Color) (pr : Option Kind)
    (hrule : normalRule P o ⟨c, .pawn⟩ t = true) (hlast : t.rank = Spec.lastRank c) :
    epAfter c ⟨c, .pawn⟩ ⟨o, t, pr⟩ = none := by
  unfold epAfter
  have : ¬ (Spec.iabs ((t.rank : Int) - o.rank) = 2) := by
    unfold normalRule at hrule
    simp only [Bool.and_eq_true] at hrule
    obtain ⟨_, hr⟩ := hrule
    unfold Spec.iabs
    by_cases hf : o.file = t.file
    · have hif : (o.file == t.file) = true := by simp [hf]
      rw [if_pos hif] at hr
      simp only [Bool.and_eq_true, Bool.or_eq_true] at hr
      rcases hr.2 with h' | h'
      · have := of_decide_eq_true h'
        cases c <;> simp only [Spec.fwd] at this <;> omega
      · have h1 := of_decide_eq_true h'.1.1
        have h2 : o.rank = Spec.pawnStartRank c := by simpa using h'.1.2
        cases c <;> simp only [Spec.fwd, Spec.pawnStartRank, Spec.lastRank] at * <;> omega
    · have hif : ¬ (o.file == t.file) = true := by simp [hf]
      rw [if_neg hif] at hr
      unfold Spec.attacksFrom at hr
      simp only [Bool.and_eq_true, decide_eq_true_eq] at hr
      have := hr.1.1
      cases c <;> simp only [Spec.fwd] at this <;> omega
  simp [this]

theorem promo_succ_abs (p : Pos) (hR : RightsOK p) (o : Spec.Sq) (ho : InB o) (c : Color)
    (hpc : p.board.get (toPt o).row (toPt o).col = .full ⟨c, .pawn⟩) (hcol : c = p.toMove) (mov : Point) (hm : OnBoard mov)
    (hrule : normalRule (abs p) o ⟨c, .pawn⟩ (specOf mov) = true) (hlast : (specOf mov).rank = Spec.lastRank c)
    (s : Pos)
    (hs : s ∈ promotePawn h (st3 h ⟨c, .pawn⟩ (toPt o) mov (st2 h ⟨c, .pawn⟩ (toPt o) mov (st1 h ⟨c, .pawn⟩ p (toPt o) mov)))
      c (toPt o) mov) :
    ∃ kind ∈ Gen.promotionOrder, s.promo = some ⟨c, kind⟩ ∧ s.lastMove = some (toPt o, mov) ∧
      abs s = Spec.apply (abs p) ⟨o, specOf mov, some kind⟩ := by
  unfold promotePawn at hs
  obtain ⟨kind, hkind, rfl⟩ := List.mem_map.mp hs
  refine ⟨kind, hkind, rfl, rfl, ?_⟩
  have hn := normal_succ_abs h p hR o ho ⟨c, .pawn⟩ hpc hcol mov hm hrule
  have hsrc : (abs p).at o = some ⟨c, .pawn⟩ := by rw [abs_at p o ho, hpc]; rfl
  rw [apply_normal (abs p) ⟨o, specOf mov, none⟩ _ hsrc (not_castle _ _ _ _ _ hsrc hrule) (not_ep _ _ _ _ _ hsrc hrule)] at hn
  rw [apply_normal (abs p) ⟨o, specOf mov, some kind⟩ _ hsrc (not_castle _ _ _ _ _ hsrc hrule) (not_ep _ _ _ _ _ hsrc hrule)]
  generalize hnb : st3 h ⟨c, .pawn⟩ (toPt o) mov (st2 h ⟨c, .pawn⟩ (toPt o) mov (st1 h ⟨c, .pawn⟩ p (toPt o) mov)) = nb at hn
  have hside : (abs p).side = c := hcol.symm
  have hin := specOf_inB mov hm
  have hino : InB o := ho
  apply pos_ext
  · -- cells: the pawn that has just arrived is overwritten by the promoted piece
    show absCells ((nb.unsetEp h).board.set mov.row mov.col (.full ⟨c, kind⟩)) = _
    rw [unsetEp_board, absCells_set _ mov _ hm]
    have hc := congrArg Spec.Position.cells hn
    rw [abs_cells] at hc
    rw [hc]
    show (((abs p).put o none).put (specOf mov) (some (landed (abs p).side ⟨c, .pawn⟩ none))).cells.setIfInBounds
        (sqIdx (specOf mov)) (squareToOpt (.full ⟨c, kind⟩)) =
      (((abs p).put o none).put (specOf mov) (some (landed (abs p).side ⟨c, .pawn⟩ (some kind)))).cells
    rw [put_cells _ _ _ hin, put_cells _ _ _ hin, Array.setIfInBounds_setIfInBounds]
    simp only [landed, squareToOpt, hside]
  · show (nb.unsetEp h).toMove = _
    rw [unsetEp_toMove]; exact congrArg Spec.Position.side hn
  · show (nb.unsetEp h).wks = _
    rw [unsetEp_wks]; exact congrArg Spec.Position.wks hn
  · show (nb.unsetEp h).wqs = _
    rw [unsetEp_wqs]; exact congrArg Spec.Position.wqs hn
  · show (nb.unsetEp h).bks = _
    rw [unsetEp_bks]; exact congrArg Spec.Position.bks hn
  · show (nb.unsetEp h).bqs = _
    rw [unsetEp_bqs]; exact congrArg Spec.Position.bqs hn
  · show ((nb.unsetEp h).ep).map specOf = epAfter (abs p).side ⟨c, .pawn⟩ ⟨o, specOf mov, some kind⟩
    rw [unsetEp_ep, hside, epAfter_none_of_last (abs p) o (specOf mov) c (some kind) hrule hlast]
    rfl

end Walleye
