/-
  C02: the successors the generator builds are the specification's `apply` of the move they carry.
  Part 1: castling rights and en passant target after an ordinary move.
-/
import Walleye.Proofs.ApplySpec
import Walleye.Proofs.PseudoSpec
namespace Walleye

variable (h : Hasher)

theorem takeAway_right (p : Pos) (ct ct' : CastlingType) :
    (p.takeAway h ct).right ct' = (p.right ct' && decide (ct ≠ ct')) := by
  cases ct <;> cases ct' <;> simp only [Pos.takeAway, Pos.right] <;> split <;> simp_all

theorem takeAwayOpt_right (p : Pos) (o : Option CastlingType) (ct' : CastlingType) :
    (p.takeAwayOpt h o).right ct' = (p.right ct' && decide (o ≠ some ct')) := by
  cases o with
  | none => simp [Pos.takeAwayOpt]
  | some ct => simp only [Pos.takeAwayOpt, takeAway_right]; simp

theorem obeq (a b : Option CastlingType) : (a == b) = decide (a = b) := by
  rw [Bool.eq_iff_iff]; simp

/-- the colour whose right `ct` is -/
def rightColor : CastlingType → Color
  | .wks => .white | .wqs => .white | .bks => .black | .bqs => .black

theorem st2_right (piece : Piece) (sq mov : Point) (nb : Pos) (ct : CastlingType) :
    (st2 h piece sq mov nb).right ct =
      (nb.right ct && !(piece.kind == .king && piece.color == rightColor ct) &&
        !(piece.kind != .king && cornerRight sq == some ct) && !(cornerRight mov == some ct)) := by
  unfold st2
  rw [takeAwayOpt_right]
  by_cases hk : piece.kind = .king
  · rw [if_pos hk]
    have cwb : (Color.white == Color.black) = false := by decide
    have cbw : (Color.black == Color.white) = false := by decide
    cases hc : piece.color <;> simp only [takeAway_right] <;> cases ct <;> simp [hk, rightColor] <;>
      cases nb.right _ <;> simp [cwb, cbw, obeq]
  · rw [if_neg hk, takeAwayOpt_right]
    have : (piece.kind == Kind.king) = false := by simpa using hk
    simp only [this, Bool.false_and, Bool.not_false, Bool.and_true, bne, Bool.true_and]
    cases nb.right ct <;> simp [obeq, eq_comm]

/-! ### cells after the piece has moved -/

theorem st1_cells (piece : Piece) (p : Pos) (sq mov : Point) (hsq : p.board.get sq.row sq.col = .full piece)
    (hs : OnBoard sq) (hm : OnBoard mov) :
    absCells (st1 h piece p sq mov).board =
      (((abs p).put (specOf sq) none).put (specOf mov) (some piece)).cells := by
  rw [st1_board]
  have hb : (p.movePiece h sq mov).board = (p.board.set sq.row sq.col .empty).set mov.row mov.col (.full piece) :=
    movePiece_board_full h p sq mov piece hsq
  rw [hb]
  have h1 := put_absCells (abs p) p.board (abs_cells p) sq .empty hs
  have h2 := put_absCells ((abs p).put (specOf sq) (squareToOpt .empty)) (p.board.set sq.row sq.col .empty) h1 mov
    (.full piece) hm
  exact h2.symm

/-! ### the corner squares -/

def cornerSq : CastlingType → Spec.Sq
  | .wks => ⟨7, 0⟩ | .wqs => ⟨0, 0⟩ | .bks => ⟨7, 7⟩ | .bqs => ⟨0, 7⟩

theorem cornerRight_iff (pt : Point) (hpt : OnBoard pt) (ct : CastlingType) :
    cornerRight pt = some ct ↔ specOf pt = cornerSq ct := by
  unfold OnBoard at hpt
  unfold cornerRight specOf cornerSq
  cases ct <;> simp only <;> (repeat' split) <;> simp_all <;> omega

end Walleye
