/-
  Declarative characterisation of the pseudo-legal targets `get_moves` produces (mailbox level),
  piece kind by piece kind.  Used by C01 and C02.
-/
import Walleye.Proofs.Check
namespace Walleye

/-- the walk returns, besides the first non-empty square, exactly the empty squares before it -/
theorem walk_list (b : Board) (dr dc : Int) :
    ∀ (fuel : Nat) (r c : Int) (acc : List Point),
      (∃ n : Nat, n < fuel ∧ (b.getI (r + n * dr) (c + n * dc)).isEmpty = false) →
      ∃ n : Nat, (walk b dr dc fuel r c acc).2.1 = ptI (r + n * dr) (c + n * dc) ∧
        (walk b dr dc fuel r c acc).2.2 = b.getI (r + n * dr) (c + n * dc) ∧
        (b.getI (r + n * dr) (c + n * dc)).isEmpty = false ∧
        (∀ i : Nat, i < n → (b.getI (r + i * dr) (c + i * dc)).isEmpty = true) ∧
        (walk b dr dc fuel r c acc).1 = acc ++ (List.range n).map (fun i : Nat => ptI (r + i * dr) (c + i * dc)) := by
  intro fuel
  induction fuel with
  | zero => intro r c acc ⟨n, hn, _⟩; omega
  | succ k ih =>
    intro r c acc ⟨n, hn, hne⟩
    simp only [walk]
    by_cases he : (b.getI r c).isEmpty = true
    · simp only [he, if_true]
      have hn0 : n ≠ 0 := by
        intro e; subst e; simp at hne; rw [he] at hne; cases hne
      obtain ⟨n', hn'⟩ : ∃ n', n = n' + 1 := ⟨n - 1, by omega⟩
      subst hn'
      have hw : (b.getI (r + dr + (n' : Int) * dr) (c + dc + (n' : Int) * dc)).isEmpty = false := by
        have e1 : r + dr + (n' : Int) * dr = r + ((n' + 1 : Nat) : Int) * dr := by push_cast; rw [Int.add_mul]; omega
        have e2 : c + dc + (n' : Int) * dc = c + ((n' + 1 : Nat) : Int) * dc := by push_cast; rw [Int.add_mul]; omega
        rw [e1, e2]; exact hne
      obtain ⟨m, h1, h2, h3, h4, h5⟩ := ih (r + dr) (c + dc) (acc ++ [ptI r c]) ⟨n', by omega, hw⟩
      have sh : ∀ j : Nat, r + dr + (j : Int) * dr = r + ((j + 1 : Nat) : Int) * dr := by
        intro j; push_cast; rw [Int.add_mul]; omega
      have sh' : ∀ j : Nat, c + dc + (j : Int) * dc = c + ((j + 1 : Nat) : Int) * dc := by
        intro j; push_cast; rw [Int.add_mul]; omega
      refine ⟨m + 1, ?_, ?_, ?_, ?_, ?_⟩
      · rw [h1, sh, sh']
      · rw [h2, sh, sh']
      · rw [← sh, ← sh']; exact h3
      · intro i hi
        cases i with
        | zero => simpa using he
        | succ j =>
          have := h4 j (by omega)
          rw [← sh, ← sh']; exact this
      · rw [h5, List.range_succ_eq_map, List.map_cons, List.map_map, List.append_assoc]
        congr 1
        have e0 : ptI (r + ((0 : Nat) : Int) * dr) (c + ((0 : Nat) : Int) * dc) = ptI r c := by simp
        rw [e0, List.singleton_append]
        congr 1
        apply List.map_congr_left
        intro j _
        simp only [Function.comp]
        rw [sh, sh']
    · have he' : (b.getI r c).isEmpty = false := by simpa using he
      simp only [he', Bool.false_eq_true, if_false]
      exact ⟨0, by simp, by simp, by simpa using he', fun i hi => by omega, by simp⟩

/-- the point of the (n+1)-th ray square -/
def rayPt (t : Point) (d : Int × Int) (n : Nat) : Point :=
  ptI ((t.row : Int) + d.1 + (n : Int) * d.1) ((t.col : Int) + d.2 + (n : Int) * d.2)

/-- what a target square must hold: empty or enemy (all moves), enemy (captures only) -/
def tgtOK (mode : Mode) (c : Color) (sq : Square) : Bool :=
  if mode = .all then sq.isEmptyOrColor c.opp else sq.isColor c.opp

theorem isEmptyOrColor_iff (sq : Square) (c : Color) :
    sq.isEmptyOrColor c = true ↔ sq.isEmpty = true ∨ sq.isColor c = true := by
  cases sq with
  | empty => simp [Square.isEmptyOrColor, Square.isEmpty]
  | boundary => simp [Square.isEmptyOrColor, Square.isEmpty, Square.isColor]
  | full p =>
    simp only [Square.isEmptyOrColor, Square.isEmpty, Square.isColor, beq_iff_eq, Bool.false_eq_true, false_or]
    exact ⟨fun h => h.symm, fun h => h.symm⟩

theorem isColor_not_empty (sq : Square) (c : Color) (h : sq.isColor c = true) : sq.isEmpty = false := by
  cases sq <;> simp [Square.isColor, Square.isEmpty] at *

/-- one direction of a slider: the targets are the ray squares up to and including the first
    non-empty one, if that holds an enemy piece -/
theorem mem_slideDir (piece : Piece) (row col : Nat) (b : Board) (mode : Mode) (d : Int × Int)
    (hr : RingOK b) (ht : OnBoard ⟨row, col⟩) (hd : UnitDir d) (pt : Point) :
    pt ∈ slideDir piece row col b mode d ↔
      ∃ n : Nat, pt = rayPt ⟨row, col⟩ d n ∧ (∀ i : Nat, i < n → (rayAt b ⟨row, col⟩ d i).isEmpty = true) ∧
        tgtOK mode piece.color (rayAt b ⟨row, col⟩ d n) = true := by
  obtain ⟨n0, h1, h2, h3, h4, h5⟩ := walk_list b d.1 d.2 walkFuel ((row : Int) + d.1) ((col : Int) + d.2) []
    ⟨8, by decide, ray_leaves b hr ⟨row, col⟩ ht d hd⟩
  unfold slideDir
  generalize walk b d.1 d.2 walkFuel ((row : Int) + d.1) ((col : Int) + d.2) [] = w at h1 h2 h5
  obtain ⟨es, hit, sq⟩ := w
  simp only at h1 h2 h5 ⊢
  simp only [List.nil_append] at h5
  subst h1; subst h2; subst h5
  simp only [List.mem_append]
  constructor
  · rintro (h | h)
    · split at h
      · rename_i hm
        obtain ⟨i, hi, rfl⟩ := List.mem_map.mp h
        have hi' := List.mem_range.mp hi
        refine ⟨i, rfl, fun j hj => h4 j (by omega), ?_⟩
        unfold tgtOK; rw [if_pos hm, isEmptyOrColor_iff]; exact Or.inl (h4 i hi')
      · cases h
    · split at h
      · rename_i hc
        simp only [List.mem_singleton] at h
        refine ⟨n0, h, h4, ?_⟩
        unfold tgtOK rayAt; split
        · rw [isEmptyOrColor_iff]; exact Or.inr hc
        · exact hc
      · cases h
  · rintro ⟨n, hpt, hemp, htg⟩
    rcases Nat.lt_trichotomy n n0 with hlt | heq | hgt
    · -- an empty square before the first hit: only in all-moves mode
      have hem := h4 n hlt
      unfold tgtOK at htg
      by_cases hm : mode = .all
      · left; rw [if_pos hm]
        exact List.mem_map.mpr ⟨n, List.mem_range.mpr hlt, hpt.symm⟩
      · rw [if_neg hm] at htg
        have := isColor_not_empty _ _ htg
        unfold rayAt at this; rw [hem] at this; cases this
    · subst heq
      right
      have hc : (b.getI ((row : Int) + d.1 + (n : Int) * d.1) ((col : Int) + d.2 + (n : Int) * d.2)).isColor piece.color.opp = true := by
        unfold tgtOK rayAt at htg
        split at htg
        · rcases (isEmptyOrColor_iff _ _).mp htg with h | h
          · rw [h3] at h; cases h
          · exact h
        · exact htg
      rw [if_pos hc]; simp only [List.mem_singleton]; exact hpt
    · have := hemp n0 hgt
      unfold rayAt at this; rw [h3] at this; cases this

theorem mode_cases (mode : Mode) : mode = .all ∨ mode = .caps := by cases mode <;> simp

theorem tgtOK_iff (mode : Mode) (c : Color) (sq : Square) :
    tgtOK mode c sq = true ↔ sq.isEmptyOrColor c.opp = true ∧ (mode = .caps → sq.isEmpty = false) := by
  unfold tgtOK
  rcases mode_cases mode with rfl | rfl
  · simp
  · simp only [reduceCtorEq, if_false, true_implies]
    rw [isEmptyOrColor_iff]
    constructor
    · intro h; exact ⟨Or.inr h, isColor_not_empty _ _ h⟩
    · rintro ⟨h | h, h2⟩
      · rw [h] at h2; cases h2
      · exact h

theorem mem_knightMoves (piece : Piece) (row col : Nat) (b : Board) (mode : Mode) (pt : Point) :
    pt ∈ knightMoves piece row col b mode ↔
      ∃ rc ∈ Gen.knightCords, pt = ptI ((row : Int) + rc.1) ((col : Int) + rc.2) ∧
        tgtOK mode piece.color (b.getI ((row : Int) + rc.1) ((col : Int) + rc.2)) = true := by
  unfold knightMoves
  rw [List.mem_filterMap]
  constructor
  · rintro ⟨rc, hrc, h⟩
    refine ⟨rc, hrc, ?_⟩
    dsimp only at h
    rw [tgtOK_iff]
    split at h
    · rename_i he
      split at h
      · rename_i hm
        split at h
        · rename_i hne
          exact ⟨(Option.some.inj h).symm, he, fun _ => by simpa using hne⟩
        · cases h
      · rename_i hm
        exact ⟨(Option.some.inj h).symm, he, fun hc => absurd hc hm⟩
    · cases h
  · rintro ⟨rc, hrc, hpt, htg⟩
    refine ⟨rc, hrc, ?_⟩
    rw [tgtOK_iff] at htg
    dsimp only
    rw [if_pos htg.1]
    by_cases hm : mode = .caps
    · rw [if_pos hm, htg.2 hm]; simp [hpt]
    · rw [if_neg hm, hpt]

theorem mem_kingMoves (piece : Piece) (row col : Nat) (b : Board) (mode : Mode) (pt : Point) :
    pt ∈ kingMoves piece row col b mode ↔
      ∃ i j : Nat, i < 3 ∧ j < 3 ∧ pt = ⟨row + i - 1, col + j - 1⟩ ∧
        tgtOK mode piece.color (b.get (row + i - 1) (col + j - 1)) = true := by
  unfold kingMoves
  rw [List.mem_flatMap]
  constructor
  · rintro ⟨i, hi, h⟩
    dsimp only at h
    rw [List.mem_filterMap] at h
    obtain ⟨j, hj, h⟩ := h
    refine ⟨i, j, List.mem_range.mp hi, List.mem_range.mp hj, ?_⟩
    rw [tgtOK_iff]
    split at h
    · rename_i he
      split at h
      · split at h
        · rename_i hne
          exact ⟨(Option.some.inj h).symm, he, fun _ => by simpa using hne⟩
        · cases h
      · rename_i hm
        exact ⟨(Option.some.inj h).symm, he, fun hc => absurd hc hm⟩
    · cases h
  · rintro ⟨i, j, hi, hj, hpt, htg⟩
    refine ⟨i, List.mem_range.mpr hi, ?_⟩
    rw [List.mem_filterMap]
    refine ⟨j, List.mem_range.mpr hj, ?_⟩
    rw [tgtOK_iff] at htg
    rw [if_pos htg.1]
    by_cases hm : mode = .caps
    · rw [if_pos hm, htg.2 hm]; simp [hpt]
    · rw [if_neg hm, hpt]

/-- `pawn_moves` for a white pawn (moves towards smaller rows) -/
theorem mem_pawnMoves_white (piece : Piece) (hc : piece.color = .white) (row col : Nat) (b : Board) (mode : Mode)
    (pt : Point) :
    pt ∈ pawnMoves piece row col b mode ↔
      (pt = ⟨row - 1, col - 1⟩ ∧ (b.get (row - 1) (col - 1)).isColor .black = true) ∨
      (pt = ⟨row - 1, col + 1⟩ ∧ (b.get (row - 1) (col + 1)).isColor .black = true) ∨
      (mode = .all ∧ (b.get (row - 1) col).isEmpty = true ∧
        (pt = ⟨row - 1, col⟩ ∨
         (row = Gen.whiteDoublePushRow ∧ (b.get (row - 2) col).isEmpty = true ∧ pt = ⟨row - 2, col⟩))) := by
  unfold pawnMoves
  rw [hc]
  simp only [List.mem_append]
  constructor
  · rintro ((h | h) | h)
    · split at h
      · rename_i hx; left; exact ⟨by simpa using h, hx⟩
      · cases h
    · split at h
      · rename_i hx; right; left; exact ⟨by simpa using h, hx⟩
      · cases h
    · split at h
      · rename_i hx
        right; right
        refine ⟨hx.1, hx.2, ?_⟩
        rcases List.mem_cons.mp h with h | h
        · exact Or.inl h
        · split at h
          · rename_i hy; right; exact ⟨hy.1, hy.2, by simpa using h⟩
          · cases h
      · cases h
  · rintro (⟨hp, hx⟩ | ⟨hp, hx⟩ | ⟨hm, he, h⟩)
    · left; left; rw [if_pos hx]; simp [hp]
    · left; right; rw [if_pos hx]; simp [hp]
    · right
      rw [if_pos ⟨hm, he⟩]
      rcases h with h | ⟨h1, h2, h3⟩
      · exact List.mem_cons.mpr (Or.inl h)
      · apply List.mem_cons.mpr; right; rw [if_pos ⟨h1, h2⟩]; simp [h3]

/-- `pawn_moves` for a black pawn (moves towards larger rows) -/
theorem mem_pawnMoves_black (piece : Piece) (hc : piece.color = .black) (row col : Nat) (b : Board) (mode : Mode)
    (pt : Point) :
    pt ∈ pawnMoves piece row col b mode ↔
      (pt = ⟨row + 1, col + 1⟩ ∧ (b.get (row + 1) (col + 1)).isColor .white = true) ∨
      (pt = ⟨row + 1, col - 1⟩ ∧ (b.get (row + 1) (col - 1)).isColor .white = true) ∨
      (mode = .all ∧ (b.get (row + 1) col).isEmpty = true ∧
        (pt = ⟨row + 1, col⟩ ∨
         (row = Gen.blackDoublePushRow ∧ (b.get (row + 2) col).isEmpty = true ∧ pt = ⟨row + 2, col⟩))) := by
  unfold pawnMoves
  rw [hc]
  simp only [List.mem_append]
  constructor
  · rintro ((h | h) | h)
    · split at h
      · rename_i hx; left; exact ⟨by simpa using h, hx⟩
      · cases h
    · split at h
      · rename_i hx; right; left; exact ⟨by simpa using h, hx⟩
      · cases h
    · split at h
      · rename_i hx
        right; right
        refine ⟨hx.1, hx.2, ?_⟩
        rcases List.mem_cons.mp h with h | h
        · exact Or.inl h
        · split at h
          · rename_i hy; right; exact ⟨hy.1, hy.2, by simpa using h⟩
          · cases h
      · cases h
  · rintro (⟨hp, hx⟩ | ⟨hp, hx⟩ | ⟨hm, he, h⟩)
    · left; left; rw [if_pos hx]; simp [hp]
    · left; right; rw [if_pos hx]; simp [hp]
    · right
      rw [if_pos ⟨hm, he⟩]
      rcases h with h | ⟨h1, h2, h3⟩
      · exact List.mem_cons.mpr (Or.inl h)
      · apply List.mem_cons.mpr; right; rw [if_pos ⟨h1, h2⟩]; simp [h3]

end Walleye
