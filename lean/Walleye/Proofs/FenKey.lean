/- The FEN loader as a producer of positions: ring in place and key exact (C05, C15), every hasher -/
import Walleye.Proofs.Succ
import Walleye.Model.Fen
namespace Walleye

/-- invariant of the FEN row parser: cells at or after the cursor are still sentinels, the ring is
    intact, the key accumulated so far is `k0` xor the placement key of what has been written -/
structure FInv (h : Hasher) (k0 : UInt64) (a : FenAcc) : Prop where
  ahead : ∀ r c, (a.row < r ∨ (r = a.row ∧ a.col ≤ c)) → a.board.get r c = .boundary
  ring : RingOK a.board
  key : a.key = k0 ^^^ placementKey h a.board
  lo : 2 ≤ a.row ∧ 2 ≤ a.col

theorem default_get (r c : Nat) : (default : Board).get r c = .boundary := by
  unfold Board.get
  split
  · have : (default : Board).cells = Array.replicate 144 Square.boundary := rfl
    simp [this]
  · rfl

theorem placementKey_default (h : Hasher) : placementKey h (default : Board) = 0 := by
  unfold placementKey
  have : xorFold (fun pt => sqKey h ((default : Board).get pt.row pt.col) pt) boardCoords =
      xorFold (fun _ => (0 : UInt64)) boardCoords :=
    xorFold_congr _ _ _ (fun pt _ => by rw [default_get]; rfl)
  rw [this]
  decide

theorem finv_init (h : Hasher) (k0 : UInt64) :
    FInv h k0 ⟨emptyBoard, Gen.boardStart, Gen.boardStart, ⟨0, 0⟩, ⟨0, 0⟩, k0⟩ := by
  refine ⟨fun r c _ => default_get r c, fun r c hne => absurd (default_get r c) hne, ?_, ⟨Nat.le_refl 2, Nat.le_refl 2⟩⟩
  show k0 = k0 ^^^ placementKey h (default : Board)
  rw [placementKey_default]; simp

/-- writing one cell at the cursor (which still holds a sentinel) -/
theorem finv_write (h : Hasher) (k0 : UInt64) (a : FenAcc) (v : Square) (hi : FInv h k0 a)
    (hb : a.row < Gen.boardEnd ∧ a.col < Gen.boardEnd) :
    RingOK (a.board.set a.row a.col v) ∧
    placementKey h (a.board.set a.row a.col v) = placementKey h a.board ^^^ sqKey h v ⟨a.row, a.col⟩ ∧
    (∀ r c, (a.row < r ∨ (r = a.row ∧ a.col + 1 ≤ c)) → (a.board.set a.row a.col v).get r c = .boundary) := by
  have hon : OnBoard ⟨a.row, a.col⟩ := by
    have := hi.lo; simp only [Gen.boardEnd] at hb; unfold OnBoard; simp only; omega
  refine ⟨ringOK_set _ ⟨a.row, a.col⟩ v hi.ring hon, ?_, ?_⟩
  · have := placementKey_set h a.board ⟨a.row, a.col⟩ v hon
    simp only at this
    rw [this, hi.ahead a.row a.col (Or.inr ⟨rfl, Nat.le_refl _⟩)]
    simp [sqKey]
  · intro r c hrc
    rw [Board.get_set_ne]
    · exact hi.ahead r c (by omega)
    · omega

theorem finv_empties (h : Hasher) (k0 : UInt64) (n : Nat) :
    ∀ (a : FenAcc), FInv h k0 a → a.row < Gen.boardEnd → n + a.col ≤ Gen.boardEnd →
      FInv h k0 { a with board := (List.range n).foldl (fun b i => b.set a.row (a.col + i) .empty) a.board,
                         col := a.col + n } := by
  induction n with
  | zero => intro a hi _ _; simpa using hi
  | succ k ih =>
    intro a hi hr hc
    rw [List.range_succ, List.foldl_append]
    simp only [List.foldl_cons, List.foldl_nil]
    have hk := ih a hi hr (by omega)
    -- hk : invariant after k empties; write one more at the cursor (a.row, a.col + k)
    obtain ⟨w1, w2, w3⟩ := finv_write h k0 _ .empty hk ⟨hr, by simp only; omega⟩
    simp only at w1 w2 w3
    refine ⟨?_, w1, ?_, ?_⟩
    · intro r c hrc; exact w3 r c (by simp only at hrc ⊢; omega)
    · have hkk := hk.key
      simp only at hkk ⊢
      rw [w2, hkk]; simp [sqKey]
    · have := hi.lo; simp only; omega

theorem finv_fenChar (h : Hasher) (k0 : UInt64) (a a' : FenAcc) (c : Char) (hi : FInv h k0 a)
    (hc : fenChar h a c = .ok a') : FInv h k0 a' ∧ a'.row = a.row := by
  unfold fenChar at hc
  split at hc
  · cases hc
  · rename_i hb
    have hb' : a.row < Gen.boardEnd ∧ a.col < Gen.boardEnd := by omega
    split at hc
    · dsimp only at hc
      split at hc
      · cases hc
      · rename_i hn
        injection hc with hc
        subst hc
        exact ⟨finv_empties h k0 _ a hi hb'.1 (by omega), rfl⟩
    · split at hc
      · cases hc
      · rename_i piece _
        dsimp only at hc
        injection hc with hc
        obtain ⟨w1, w2, w3⟩ := finv_write h k0 a (.full piece) hi hb'
        have base : FInv h k0 ⟨a.board.set a.row a.col (.full piece), a.row, a.col + 1, a.wk, a.bk,
            a.key ^^^ h.piece piece ⟨a.row, a.col⟩⟩ := by
          refine ⟨w3, w1, ?_, by have := hi.lo; simp only; omega⟩
          simp only; rw [w2, hi.key]; simp only [sqKey]; xor_ac
        subst hc
        split
        · split
          · exact ⟨⟨base.ahead, base.ring, base.key, base.lo⟩, rfl⟩
          · exact ⟨⟨base.ahead, base.ring, base.key, base.lo⟩, rfl⟩
        · exact ⟨base, rfl⟩

theorem finv_rowChars (h : Hasher) (k0 : UInt64) (l : List Char) :
    ∀ (a a' : FenAcc), FInv h k0 a → fenRowChars h a l = .ok a' → FInv h k0 a' ∧ a'.row = a.row := by
  induction l with
  | nil => intro a a' hi hc; simp only [fenRowChars] at hc; injection hc with hc; subst hc; exact ⟨hi, rfl⟩
  | cons c cs ih =>
    intro a a' hi hc
    unfold fenRowChars at hc
    cases h1 : fenChar h a c with
    | ok a1 =>
      rw [h1] at hc
      obtain ⟨i1, r1⟩ := finv_fenChar h k0 a a1 c hi h1
      obtain ⟨i2, r2⟩ := ih a1 a' i1 hc
      exact ⟨i2, by rw [r2, r1]⟩
    | err e => rw [h1] at hc; cases hc
    | panic => rw [h1] at hc; cases hc

theorem finv_rows (h : Hasher) (k0 : UInt64) (rows : List (List Char)) :
    ∀ (a a' : FenAcc), FInv h k0 a → fenRows h a rows = .ok a' → RingOK a'.board ∧ a'.key = k0 ^^^ placementKey h a'.board := by
  induction rows with
  | nil => intro a a' hi hc; simp only [fenRows] at hc; injection hc with hc; subst hc; exact ⟨hi.ring, hi.key⟩
  | cons r rs ih =>
    intro a a' hi hc
    unfold fenRows at hc
    cases h1 : fenRowChars h a r with
    | ok a1 =>
      rw [h1] at hc
      simp only at hc
      split at hc
      · cases hc
      · obtain ⟨i1, r1⟩ := finv_rowChars h k0 r a a1 hi h1
        apply ih _ a' _ hc
        refine ⟨?_, i1.ring, i1.key, by have := i1.lo; simp only [Gen.boardStart]; omega⟩
        intro rr cc hrc
        exact i1.ahead rr cc (by simp only at hrc; omega)
    | err e => rw [h1] at hc; cases hc
    | panic => rw [h1] at hc; cases hc

end Walleye

namespace Walleye

theorem ite_xor (b : Bool) (k c : UInt64) : (if b = true then k ^^^ c else k) = k ^^^ (if b = true then c else 0) := by
  cases b <;> simp

theorem epmatch_xor (h : Hasher) (k : UInt64) (ep : Option Point) :
    (match ep with | some pt => k ^^^ h.epFile pt.col | none => k) = k ^^^ epKey h ep := by
  cases ep <;> simp [epKey]

theorem side_ite (h : Hasher) (c : Color) : (if c = Color.black then h.side else 0) = sideKey h c := by
  cases c <;> simp [sideKey]

/-- the FEN loader produces a position with the ring in place and the exact key — every hasher,
    every string it accepts -/
theorem fromFen_inv (h : Hasher) (s : List Char) (p : Pos) (hc : fromFen h s = .ok p) :
    KeyOK h p ∧ RingOK p.board := by
  unfold fromFen at hc
  dsimp only at hc
  split at hc
  · split at hc
    · cases hc
    · rename_i toMove _
      split at hc
      · cases hc
      · split at hc
        · cases hc
        · split at hc
          · cases hc
          · split at hc
            · cases hc
            · cases hc
            · rename_i a hrows
              obtain ⟨hring, hkey⟩ := finv_rows h _ _ _ a (finv_init h _) hrows
              split at hc
              · cases hc
              · cases hc
              · rename_i ep _
                injection hc with hc
                subst hc
                refine ⟨?_, hring⟩
                unfold KeyOK scratchKey
                dsimp only
                rw [hkey, side_ite]
                simp only [ite_xor, rightKey]
                cases ep <;> simp only [epKey] <;> xor_ac
  · cases hc

end Walleye
