/-
  The root loop of `get_best_move` for one iteration, under a clock that never expires: every
  accepted improvement carries the exact minimax value of its move, the final alpha is the maximum
  over all root moves, and the move remembered attains it.
-/
import Walleye.Proofs.ChessGameOK
namespace Walleye
open Spec DrawTable

variable {P O : Type} (g : Game P) (ord : Oracle P O)

theorem report_neutral (r : Report P) : Neutral (report r : M (SS P O) Unit) := by
  intro s a s' he; unfold report M.modify at he; injection he with _ h2; subst h2; exact ⟨rfl, rfl⟩

theorem sendInfo_neutral (d : Nat) (e : Int) : Neutral (sendInfo d e : M (SS P O) Unit) := by
  intro s a s' he; unfold sendInfo at he; injection he with _ h2; subst h2; exact ⟨rfl, rfl⟩

/-- one iteration of the root loop (iteration `curDepth` ≤ 3): the result is `some (A, B)` with
    `A` = max(alpha, max over the moves of their exact values) and `B` a move attaining it if alpha
    was improved -/
theorem rootLoop_triple (E : Nat) (hg : GameOK g E) (hord : OrdPerm ord) (fuel curDepth : Nat) (first : P)
    (t : DrawTable) (hcd : curDepth - 1 < 3) (hE : (E : Int) + 1 + fuel < Gen.mateScore) :
    ∀ (l : List P) (alpha : Int) (best : Option P), -Gen.posInf ≤ alpha → alpha < Gen.mateScore →
      Triple (St t) (rootLoop g ord fuel curDepth first l alpha best)
        (fun r s' => St t s' ∧ ∃ A B, r = some (A, B) ∧
          A = maxNeg (negamax g fuel (curDepth - 1) 1 t) l alpha ∧
          (alpha < A → ∃ m ∈ l, B = some m ∧ - negamax g fuel (curDepth - 1) 1 t m = A) ∧
          (A = alpha → B = best)) := by
  intro l
  induction l with
  | nil =>
    intro alpha best _ _
    unfold rootLoop
    apply Triple.pure
    intro s hs
    exact ⟨hs, alpha, best, rfl, rfl, fun h => by omega, fun _ => rfl⟩
  | cons m ms ih =>
    intro alpha best hlo hhi
    refine ⟨?_⟩
    intro s r s' hst he
    unfold rootLoop at he
    obtain ⟨oot, s1, h1, he⟩ := bind_ok he
    obtain ⟨hoot, hst1⟩ := (tick_never t).run s oot s1 hst h1
    subst hoot
    simp only [Bool.false_eq_true, if_false] at he
    obtain ⟨r0, s2, h2, he⟩ := bind_ok he
    have hposInf : (Gen.posInf : Int) = 9999999 := rfl
    have hmate : (Gen.mateScore : Int) = 100000 := rfl
    obtain ⟨⟨c1, c2, c3⟩, hst2⟩ := (ab_spec g ord E hg hord fuel m (curDepth - 1) 1 (-Gen.posInf) (-alpha) true t hcd
      (by omega) (by push_cast; omega)).run s1 r0 s2 hst1 h2
    have hrange := negamax_range g E hg fuel (curDepth - 1) 1 t m (by push_cast; omega)
    obtain ⟨_, s3, h3, he⟩ := bind_ok he
    have hst3 : St t s3 := ((insertCur_neutral 0 _).triple t).run s2 () s3 hst2 h3
    simp only [maxNeg]
    -- the child value is never the sentinel, so a result below -alpha is exact
    by_cases hev : - r0 > alpha
    · have hexact : r0 = negamax g fuel (curDepth - 1) 1 t m := by
        by_cases hlow : r0 ≤ -Gen.posInf
        · have := c1 hlow; push_cast at hrange; omega
        · exact c3 (by omega) (by omega)
      rw [if_pos hev] at he
      obtain ⟨ob, s4', h5, he⟩ := bind_ok he
      obtain ⟨hob, hst4'⟩ := (tick_never t).run s3 ob s4' hst3 h5
      subst hob
      obtain ⟨acc, s4, h4, he⟩ := bind_ok he
      obtain ⟨hacc, hs4⟩ := pure_ok h4
      rw [hs4] at he
      simp only [hacc, Bool.not_false, if_true] at he
      obtain ⟨_, s5, h6, he⟩ := bind_ok he
      have hst5 : St t s5 := ((report_neutral _).triple t).run s4' () s5 hst4' h6
      obtain ⟨_, s6, h7, he⟩ := bind_ok he
      have hst6 : St t s6 := (setPV_neutral.triple t).run s5 () s6 hst5 h7
      obtain ⟨_, s7, h8, he⟩ := bind_ok he
      have hst7 : St t s7 := ((sendInfo_neutral _ _).triple t).run s6 () s7 hst6 h8
      obtain ⟨hst', A, B, hr, hA, hB1, hB2⟩ := (ih (- r0) (some m) (by omega) (by push_cast at hrange; omega)).run s7 r s' hst7 he
      refine ⟨hst', A, B, hr, ?_, ?_, ?_⟩
      · rw [hA, hexact]; congr 1; omega
      · intro _
        by_cases hA2 : - r0 < A
        · obtain ⟨m', hm', e1, e2⟩ := hB1 hA2
          exact ⟨m', by simp [hm'], e1, e2⟩
        · have hge := maxNeg_ge (negamax g fuel (curDepth - 1) 1 t) ms (- r0)
          have hAe : A = - r0 := by omega
          exact ⟨m, by simp, hB2 hAe, by rw [hAe, hexact]⟩
      · intro hAe
        have hge := maxNeg_ge (negamax g fuel (curDepth - 1) 1 t) ms (- r0)
        omega
    · rw [if_neg hev] at he
      obtain ⟨acc, s4, h4, he⟩ := bind_ok he
      obtain ⟨hacc, hs4⟩ := pure_ok h4
      rw [hs4] at he
      simp only [hacc, Bool.false_eq_true, if_false] at he
      have hub : - negamax g fuel (curDepth - 1) 1 t m ≤ alpha := by
        by_cases hhigh : -alpha ≤ r0
        · have := c2 hhigh; omega
        · omega
      obtain ⟨hst', A, B, hr, hA, hB1, hB2⟩ := (ih alpha best hlo hhi).run s3 r s' hst3 he
      refine ⟨hst', A, B, hr, ?_, ?_, hB2⟩
      · rw [hA]; congr 1; omega
      · intro hlt
        obtain ⟨m', hm', e1, e2⟩ := hB1 hlt
        exact ⟨m', by simp [hm'], e1, e2⟩

end Walleye
