/-
  C01 / C13, "no move appears twice": the list of successors of either generation mode carries
  pairwise different moves (from, to, promotion piece).
  Part 1: the pseudo-legal target list of one piece has no repetition — it is a sub-list of a fixed
  geometric list (ray squares, knight offsets, king neighbourhood, pawn squares) whose on-board part
  is repetition-free for each of the 64 origins (kernel computation).
-/
import Walleye.Proofs.GenSound
import Walleye.Proofs.Caps
namespace Walleye

/-! ### generic list facts -/

theorem ite_sublist {α} (c : Prop) [Decidable c] (l : List α) : List.Sublist (if c then l else []) l := by
  split
  · exact List.Sublist.refl _
  · exact List.nil_sublist _

theorem flatMap_sublist {α β} (l : List α) (f g : α → List β) (hfg : ∀ x ∈ l, List.Sublist (f x) (g x)) :
    List.Sublist (l.flatMap f) (l.flatMap g) := by
  induction l with
  | nil => exact List.Sublist.refl _
  | cons a rest ih =>
    simp only [List.flatMap_cons]
    exact List.Sublist.append (hfg a (by simp)) (ih fun x hx => hfg x (by simp [hx]))

theorem filterMap_sublist_map {α β} (l : List α) (f : α → Option β) (g : α → β)
    (hfg : ∀ x y, f x = some y → y = g x) : List.Sublist (l.filterMap f) (l.map g) := by
  induction l with
  | nil => exact List.Sublist.refl _
  | cons a rest ih =>
    simp only [List.filterMap_cons, List.map_cons]
    cases hfa : f a with
    | none => exact List.Sublist.cons _ ih
    | some y => rw [hfg a y hfa]; exact List.Sublist.cons₂ _ ih

theorem nodup_flatMap_map {α β γ} (l : List α) (f : α → List β) (key : β → γ) (hl : l.Nodup)
    (h1 : ∀ a ∈ l, ((f a).map key).Nodup)
    (h2 : ∀ a ∈ l, ∀ a' ∈ l, ∀ b ∈ f a, ∀ b' ∈ f a', key b = key b' → a = a') :
    ((l.flatMap f).map key).Nodup := by
  induction l with
  | nil => simp
  | cons a rest ih =>
    simp only [List.flatMap_cons, List.map_append]
    obtain ⟨hna, hrest⟩ := List.nodup_cons.mp hl
    rw [List.nodup_append]
    refine ⟨h1 a (by simp), ih hrest (fun x hx => h1 x (by simp [hx]))
      (fun x hx y hy => h2 x (by simp [hx]) y (by simp [hy])), ?_⟩
    intro k hk k' hk' e
    obtain ⟨b, hb, rfl⟩ := List.mem_map.mp hk
    obtain ⟨b', hb', rfl⟩ := List.mem_map.mp hk'
    obtain ⟨a', ha', hba'⟩ := List.mem_flatMap.mp hb'
    have := h2 a (by simp) a' (by simp [ha']) b hb b' hba' e
    rw [this] at hna
    exact hna ha'

/-! ### geometric lists -/

def onB (pt : Point) : Bool := decide (2 ≤ pt.row ∧ pt.row ≤ 9 ∧ 2 ≤ pt.col ∧ pt.col ≤ 9)

theorem onB_iff (pt : Point) : onB pt = true ↔ OnBoard pt := by
  unfold onB OnBoard; simp

def geoSlide (row col : Nat) (dirs : List (Int × Int)) : List Point :=
  dirs.flatMap fun d => (List.range 9).map (rayPt ⟨row, col⟩ d)

def geoKnight (row col : Nat) : List Point :=
  Gen.knightCords.map fun rc => ptI ((row : Int) + rc.1) ((col : Int) + rc.2)

def geoKing (row col : Nat) : List Point :=
  (List.range 3).flatMap fun i => (List.range 3).map fun j => (⟨row + i - 1, col + j - 1⟩ : Point)

def geoPawn (c : Color) (row col : Nat) : List Point :=
  match c with
  | .white => [⟨row - 1, col - 1⟩, ⟨row - 1, col + 1⟩, ⟨row - 1, col⟩, ⟨row - 2, col⟩]
  | .black => [⟨row + 1, col + 1⟩, ⟨row + 1, col - 1⟩, ⟨row + 1, col⟩, ⟨row + 2, col⟩]

def geo (piece : Piece) (row col : Nat) : List Point :=
  match piece.kind with
  | .pawn => geoPawn piece.color row col
  | .rook => geoSlide row col Gen.rookDirs
  | .bishop => geoSlide row col Gen.bishopDirs
  | .knight => geoKnight row col
  | .king => geoKing row col
  | .queen => geoSlide row col Gen.rookDirs ++ geoSlide row col Gen.bishopDirs

theorem geo_nodup_fin : ∀ (c : Color) (k : Kind) (r cc : Fin 8),
    ((geo ⟨c, k⟩ (r.val + 2) (cc.val + 2)).filter onB).Nodup := by
  intro c k
  cases c <;> cases k <;> decide +kernel

theorem geo_nodup (piece : Piece) (row col : Nat) (h : OnBoard ⟨row, col⟩) :
    ((geo piece row col).filter onB).Nodup := by
  unfold OnBoard at h
  simp only at h
  have := geo_nodup_fin piece.color piece.kind ⟨row - 2, by omega⟩ ⟨col - 2, by omega⟩
  simp only at this
  have e1 : row - 2 + 2 = row := by omega
  have e2 : col - 2 + 2 = col := by omega
  rw [e1, e2] at this
  exact this

/-! ### the target list is a sub-list of the geometric list -/

theorem slideDir_sublist (piece : Piece) (row col : Nat) (b : Board) (mode : Mode) (d : Int × Int)
    (hr : RingOK b) (ht : OnBoard ⟨row, col⟩) (hd : UnitDir d) :
    List.Sublist (slideDir piece row col b mode d) ((List.range 9).map (rayPt ⟨row, col⟩ d)) := by
  have hleave := ray_leaves b hr ⟨row, col⟩ ht d hd
  obtain ⟨n, h1, h2, h3, h4, h5⟩ := walk_list b d.1 d.2 walkFuel ((row : Int) + d.1) ((col : Int) + d.2) []
    ⟨8, by decide, hleave⟩
  have hn : n ≤ 8 := by
    by_cases hlt : 8 < n
    · have := h4 8 hlt
      unfold rayAt at hleave
      simp only at hleave
      rw [this] at hleave; cases hleave
    · omega
  unfold slideDir
  generalize walk b d.1 d.2 walkFuel ((row : Int) + d.1) ((col : Int) + d.2) [] = w at h1 h2 h5
  obtain ⟨es, hit, sq⟩ := w
  simp only at h1 h2 h5 ⊢
  simp only [List.nil_append] at h5
  subst h1; subst h2; subst h5
  have e : (List.range (n + 1)).map (rayPt ⟨row, col⟩ d) =
      (List.range n).map (fun i : Nat => ptI ((row : Int) + d.1 + i * d.1) ((col : Int) + d.2 + i * d.2)) ++
        [ptI ((row : Int) + d.1 + n * d.1) ((col : Int) + d.2 + n * d.2)] := by
    rw [List.range_succ, List.map_append]; rfl
  refine List.Sublist.trans (List.Sublist.append (ite_sublist _ _) (ite_sublist _ _)) ?_
  rw [← e]
  exact (List.range_sublist.mpr (by omega)).map _

theorem slides_sublist (piece : Piece) (row col : Nat) (b : Board) (mode : Mode) (dirs : List (Int × Int))
    (hr : RingOK b) (ht : OnBoard ⟨row, col⟩) (hd : ∀ d ∈ dirs, UnitDir d) :
    List.Sublist (dirs.flatMap (slideDir piece row col b mode)) (geoSlide row col dirs) :=
  flatMap_sublist dirs _ _ fun d hdm => slideDir_sublist piece row col b mode d hr ht (hd d hdm)

theorem rookDirs_unit : ∀ d ∈ Gen.rookDirs, UnitDir d := by decide
theorem bishopDirs_unit : ∀ d ∈ Gen.bishopDirs, UnitDir d := by decide

theorem getMoves_sublist (piece : Piece) (row col : Nat) (b : Board) (mode : Mode)
    (hr : RingOK b) (ht : OnBoard ⟨row, col⟩) :
    List.Sublist (getMoves piece row col b mode) (geo piece row col) := by
  unfold getMoves geo
  cases hk : piece.kind <;> simp only
  · -- pawn
    unfold pawnMoves geoPawn
    cases hc : piece.color <;> simp only
    · refine List.Sublist.append (List.Sublist.append (l₂ := [_]) (r₂ := [_]) (ite_sublist _ _) (ite_sublist _ _)) (r₂ := [_, _]) ?_
      split
      · exact List.Sublist.cons₂ _ (ite_sublist _ _)
      · exact List.nil_sublist _
    · refine List.Sublist.append (List.Sublist.append (l₂ := [_]) (r₂ := [_]) (ite_sublist _ _) (ite_sublist _ _)) (r₂ := [_, _]) ?_
      split
      · exact List.Sublist.cons₂ _ (ite_sublist _ _)
      · exact List.nil_sublist _
  · -- knight
    unfold knightMoves geoKnight
    apply filterMap_sublist_map
    intro rc y hy
    simp only at hy
    split at hy
    · split at hy
      · split at hy
        · injection hy with hy; exact hy.symm
        · cases hy
      · injection hy with hy; exact hy.symm
    · cases hy
  · exact slides_sublist piece row col b mode _ hr ht bishopDirs_unit
  · exact slides_sublist piece row col b mode _ hr ht rookDirs_unit
  · unfold queenMoves rookMoves bishopMoves
    exact List.Sublist.append (slides_sublist piece row col b mode _ hr ht rookDirs_unit)
      (slides_sublist piece row col b mode _ hr ht bishopDirs_unit)
  · -- king
    unfold kingMoves geoKing
    apply flatMap_sublist
    intro i _
    apply filterMap_sublist_map
    intro j y hy
    simp only at hy
    split at hy
    · split at hy
      · split at hy
        · injection hy with hy; exact hy.symm
        · cases hy
      · injection hy with hy; exact hy.symm
    · cases hy

end Walleye
