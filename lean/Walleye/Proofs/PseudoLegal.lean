/-
  `Spec.pseudoLegal` split into its three kinds of move: ordinary (`normalRule` + promotion flag),
  en passant capture, castling.
-/
import Walleye.Proofs.KingsPres
namespace Walleye

/-- the promotion flag the rules demand -/
def promoOK (c : Color) (pc : Piece) (t : Spec.Sq) (pr : Option Kind) : Bool :=
  if pc.kind == .pawn then
    (if t.rank == Spec.lastRank c then (match pr with | some k => Spec.promoKinds.contains k | none => false)
     else pr.isNone)
  else pr.isNone

theorem pseudoLegal_of_normal (P : Spec.Position) (o t : Spec.Sq) (pr : Option Kind) (pc : Piece)
    (ho : InB o) (ht : InB t) (hsrc : P.at o = some pc) (hcol : pc.color = P.side)
    (hrule : normalRule P o pc t = true) (hpr : promoOK P.side pc t pr = true) :
    Spec.pseudoLegal P ⟨o, t, pr⟩ = true := by
  unfold InB at ho ht
  unfold Spec.pseudoLegal
  simp only [ho.1, ho.2, ht.1, ht.2, decide_true, Bool.true_and, hsrc]
  unfold normalRule at hrule
  unfold promoOK at hpr
  obtain ⟨c, k⟩ := pc
  simp only at hcol hrule hpr ⊢
  subst hcol
  simp only [Bool.and_eq_true] at hrule
  obtain ⟨hfree, hk⟩ := hrule
  unfold tgtFree at hfree
  simp only [beq_self_eq_true, Bool.true_and, Bool.and_eq_true]
  refine ⟨hfree, ?_⟩
  cases k with
  | pawn =>
    simp only [beq_self_eq_true, if_true] at hpr
    simp only at hk ⊢
    simp only [Bool.and_eq_true]
    refine ⟨hpr, ?_⟩
    by_cases hf : o.file = t.file
    · have hif : (o.file == t.file) = true := by simp [hf]
      rw [if_pos hif] at hk ⊢
      exact hk
    · have hif : ¬ (o.file == t.file) = true := by simp [hf]
      rw [if_neg hif] at hk ⊢
      simp only [Bool.and_eq_true, Bool.or_eq_true] at hk ⊢
      exact ⟨hk.1, Or.inl hk.2⟩
  | king =>
    have : (Kind.king == Kind.pawn) = false := by decide
    simp only [this, Bool.false_eq_true, if_false] at hpr
    simp only at hk ⊢
    simp only [Bool.and_eq_true, Bool.or_eq_true]
    exact ⟨hpr, Or.inl hk⟩
  | knight =>
    have : (Kind.knight == Kind.pawn) = false := by decide
    simp only [this, Bool.false_eq_true, if_false] at hpr
    simp only at hk ⊢
    simp only [Bool.and_eq_true]; exact ⟨hpr, hk⟩
  | bishop =>
    have : (Kind.bishop == Kind.pawn) = false := by decide
    simp only [this, Bool.false_eq_true, if_false] at hpr
    simp only at hk ⊢
    simp only [Bool.and_eq_true]; exact ⟨hpr, hk⟩
  | rook =>
    have : (Kind.rook == Kind.pawn) = false := by decide
    simp only [this, Bool.false_eq_true, if_false] at hpr
    simp only at hk ⊢
    simp only [Bool.and_eq_true]; exact ⟨hpr, hk⟩
  | queen =>
    have : (Kind.queen == Kind.pawn) = false := by decide
    simp only [this, Bool.false_eq_true, if_false] at hpr
    simp only at hk ⊢
    simp only [Bool.and_eq_true]; exact ⟨hpr, hk⟩

end Walleye
